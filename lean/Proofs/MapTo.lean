/-
  Proofs.MapTo — theorems about the model of `Row.MapTo` (Model/MapTo.lean), over the cast tables
  REGENERATED from the source (`genTables`) where a caster is involved.

  * `mapTo_no_panic`            no row, target, stdlib oracle makes `mapTo` panic: the three single-value
                                assertions `i.(int64)`, `i.(uint64)`, `i.(float64)` are reached only with a
                                value of that type — `ToInt64` of a signed Go integer is total in the current
                                tables (`toInt64_total`, by evaluation of the regenerated clauses) and what it
                                returns is an int64 (C10, `gen_cast_typed`); likewise `ToUint64` of an unsigned
                                integer and `ToFloat64` of a float.
  * `mapTo_total`               more: the outcome is `ok`, or the model's abstention on a field name whose
                                first rune its port of unicode.ToLower does not cover — never an error.
  * `mapTo_not_struct_untouched` anything but a non-nil pointer to a struct is left as it is.
  * `mapTo_only_matching_fields` a field changes only if it is settable, the row holds the key
                                `lcFirst name`, and the stored value's family is the field's kind family;
                                name, kind and settability never change.
  * `mapTo_int_value`           a matching signed field receives `wrap` of the stored integer at the field's
                                width — the silent wrap-around of MapTo, stated as it IS (int8 ← 300 = 44).
                                `mapTo_uint_value`, `mapTo_float_value`, `mapTo_scalar_value` alike.
  * `mapTo_fieldwise`, `mapTo_field_independent`  the loop is field by field: what a field becomes depends
                                on the row and on that field alone — not on the other fields, their order or
                                its position.
  * `lcFirst_ascii_upper`, `lcFirst_keeps_continuation_bytes`  LcFirst as it is.
-/
import Model.MapTo
import Proofs.CastTyped
import Proofs.CastInt

set_option linter.unusedSimpArgs false
set_option linter.unusedVariables false

namespace Jl.MapTo
open Jl Jl.Value Cast CastTyped

/-! ### The casters MapTo calls, on the families it calls them for (regenerated tables) -/

set_option maxRecDepth 8192 in
/-- `cast.ToInt64` of a signed Go integer never fails (every clause of the current source for
    int, int64, int32, int16, int8 is a plain conversion). -/
theorem toInt64_total (ext : Ext) (t : IntTy) (ht : t.signed = true) (v : Int) :
    ∃ r, castNamed genTables ext "ToInt64" (.int t v) = .ok r := by
  have hp := caster_present .i64
  simp only [casterOfInt] at hp
  unfold castNamed
  rw [show (24 : Nat) = 22 + 1 + 1 from rfl]
  simp only [callNamed, hp, typeOf]
  cases t <;> simp [IntTy.signed] at ht <;>
    simp [casterOf, genTables, Gen.casters, findClause, evalBranch, evalE]

set_option maxRecDepth 8192 in
/-- `cast.ToUint64` of an unsigned Go integer never fails. -/
theorem toUint64_total (ext : Ext) (t : IntTy) (ht : t.signed = false) (v : Int) :
    ∃ r, castNamed genTables ext "ToUint64" (.int t v) = .ok r := by
  have hp := caster_present .u64
  simp only [casterOfInt] at hp
  unfold castNamed
  rw [show (24 : Nat) = 22 + 1 + 1 from rfl]
  simp only [callNamed, hp, typeOf]
  cases t <;> simp [IntTy.signed] at ht <;>
    simp [casterOf, genTables, Gen.casters, findClause, evalBranch, evalE]

set_option maxRecDepth 8192 in
theorem toFloat64_present :
    genTables.casters.find? (fun c => c.name == "ToFloat64") = some (casterOf genTables "ToFloat64") := by
  simp [casterOf, genTables, Gen.casters]

set_option maxRecDepth 8192 in
/-- `cast.ToFloat64` of a float64 is the value itself. -/
theorem toFloat64_f64 (ext : Ext) (b : Nat) :
    castNamed genTables ext "ToFloat64" (.f64 b) = .ok (.f64 b) := by
  unfold castNamed
  rw [show (24 : Nat) = 22 + 1 + 1 from rfl]
  simp only [callNamed, toFloat64_present, typeOf]
  simp [casterOf, genTables, Gen.casters, findClause, evalBranch, evalE]

set_option maxRecDepth 8192 in
/-- `cast.ToFloat64` of a float32 is its (exact) widening. -/
theorem toFloat64_f32 (ext : Ext) (b : Nat) :
    castNamed genTables ext "ToFloat64" (.f32 b) = .ok (.f64 (Float.f32to64 b)) := by
  unfold castNamed
  rw [show (24 : Nat) = 22 + 1 + 1 from rfl]
  simp only [callNamed, toFloat64_present, typeOf]
  simp [casterOf, genTables, Gen.casters, findClause, evalBranch, evalE]

/-- … and what `ToInt64` returns is an int64 (C10's typing theorem). -/
theorem toInt64_signed (ext : Ext) (t : IntTy) (ht : t.signed = true) (v : Int) :
    ∃ x, castNamed genTables ext "ToInt64" (.int t v) = .ok (.int .i64 x) := by
  obtain ⟨r, hr⟩ := toInt64_total ext t ht v
  have hty := (gen_cast_typed ext "ToInt64" (by decide) _ r hr).2 (by simp)
  have h : typeOf r = .int .i64 := by simpa [resultTyOfCaster?, intOfCaster?] using hty
  cases r <;> simp [typeOf] at h
  subst h
  exact ⟨_, hr⟩

theorem toUint64_unsigned (ext : Ext) (t : IntTy) (ht : t.signed = false) (v : Int) :
    ∃ x, castNamed genTables ext "ToUint64" (.int t v) = .ok (.int .u64 x) := by
  obtain ⟨r, hr⟩ := toUint64_total ext t ht v
  have hty := (gen_cast_typed ext "ToUint64" (by decide) _ r hr).2 (by simp)
  have h : typeOf r = .int .u64 := by simpa [resultTyOfCaster?, intOfCaster?] using hty
  cases r <;> simp [typeOf] at h
  subst h
  exact ⟨_, hr⟩

/-! ### One field over the regenerated tables: always a normal outcome -/

/-- The type switch never panics and never fails: every assertion is met. -/
theorem store_ok (ext : Ext) (f : Field) (raw : Dyn) : ∃ f', store genTables ext f raw = .ok f' := by
  cases raw with
  | int t v =>
    cases ht : t.signed with
    | true =>
      obtain ⟨x, hx⟩ := toInt64_signed ext t ht v
      simp only [store, ht, hx, viaCast, asInt, if_true]
      split <;> exact ⟨_, rfl⟩
    | false =>
      obtain ⟨x, hx⟩ := toUint64_unsigned ext t ht v
      simp only [store, ht, hx, viaCast, asInt, if_true, Bool.false_eq_true, if_false]
      split <;> exact ⟨_, rfl⟩
  | f64 b =>
    simp only [store, toFloat64_f64, viaCast, asF64]
    split <;> exact ⟨_, rfl⟩
  | f32 b =>
    simp only [store, toFloat64_f32, viaCast, asF64]
    split <;> exact ⟨_, rfl⟩
  | str s => simp only [store]; split <;> exact ⟨_, rfl⟩
  | bool b => simp only [store]; split <;> exact ⟨_, rfl⟩
  | bytes s => simp only [store]; split <;> exact ⟨_, rfl⟩
  | nil => exact ⟨_, rfl⟩
  | num l => exact ⟨_, rfl⟩
  | time t => exact ⟨_, rfl⟩
  | barr s => exact ⟨_, rfl⟩
  | arr xs => exact ⟨_, rfl⟩
  | gomap m => exact ⟨_, rfl⟩
  | val v => exact ⟨_, rfl⟩
  | other tag => exact ⟨_, rfl⟩

/-- One iteration: a normal outcome, or the model's abstention on the field's name. -/
theorem mapField_total (ext : Ext) (row : List (Bytes × Val)) (f : Field) :
    (∃ f', mapField genTables ext row f = .ok f') ∨
      (mapField genTables ext row f = .err .ext ∧ f.settable = true ∧ lcFirst f.name = none) := by
  cases hs : f.settable with
  | false => exact .inl ⟨f, by simp [mapField, hs]⟩
  | true =>
    cases hk : lcFirst f.name with
    | none => exact .inr ⟨by simp [mapField, hs, hk], rfl, rfl⟩
    | some key =>
      cases hv : lookup row key with
      | none => exact .inl ⟨f, by simp [mapField, hs, hk, hv]⟩
      | some v =>
        obtain ⟨f', hf'⟩ := store_ok ext f (Cells.raw v)
        exact .inl ⟨f', by simp [mapField, hs, hk, hv, hf']⟩

theorem mapFields_total (ext : Ext) (row : List (Bytes × Val)) (fs : List Field) :
    (∃ fs', mapFields genTables ext row fs = .ok fs') ∨
      (mapFields genTables ext row fs = .err .ext ∧ ∃ f ∈ fs, f.settable = true ∧ lcFirst f.name = none) := by
  induction fs with
  | nil => exact .inl ⟨[], rfl⟩
  | cons f fs ih =>
    rcases mapField_total ext row f with ⟨f', hf⟩ | ⟨hf, hs, hn⟩
    · rcases ih with ⟨fs', hfs⟩ | ⟨hfs, g, hg, hgs, hgn⟩
      · exact .inl ⟨f' :: fs', by simp [mapFields, hf, hfs]⟩
      · exact .inr ⟨by simp [mapFields, hf, hfs], g, List.mem_cons_of_mem _ hg, hgs, hgn⟩
    · exact .inr ⟨by simp [mapFields, hf], f, List.mem_cons_self, hs, hn⟩

/-- Over the regenerated tables `mapTo` ends normally for every row, target and stdlib oracle — or the
    MODEL abstains, and then only because of a settable field's name (never an error of MapTo's). -/
theorem mapTo_total (ext : Ext) (row : List (Bytes × Val)) (t : Target) :
    (∃ t', mapTo genTables ext row t = .ok t') ∨
      (mapTo genTables ext row t = .err .ext ∧
        ∃ fs, t = .pointerToStruct fs ∧ ∃ f ∈ fs, f.settable = true ∧ lcFirst f.name = none) := by
  cases t with
  | pointerToStruct fs =>
    rcases mapFields_total ext row fs with ⟨fs', h⟩ | ⟨h, hex⟩
    · exact .inl ⟨.pointerToStruct fs', by simp [mapTo, h]⟩
    · exact .inr ⟨by simp [mapTo, h], fs, rfl, hex⟩
  | notPointer => exact .inl ⟨_, rfl⟩
  | nilPointer => exact .inl ⟨_, rfl⟩
  | pointerToNonStruct => exact .inl ⟨_, rfl⟩

/-- **C17 for MapTo.** Over the regenerated tables, for every row, every target and every stdlib
    oracle, `mapTo` never panics. -/
theorem mapTo_no_panic (ext : Ext) (row : List (Bytes × Val)) (t : Target) (s : String) :
    mapTo genTables ext row t ≠ .panic s := by
  rcases mapTo_total ext row t with ⟨t', h⟩ | ⟨h, _⟩ <;> simp [h]

theorem toLower?_ascii : ∀ r, r < 0x80 → (toLower? r).isSome = true := by decide

/-- Names whose first byte is ASCII are always covered by the model. -/
theorem lcFirst_ascii (b : UInt8) (rest : Bytes) (hb : b < 0x80) : ∃ k, lcFirst (b :: rest) = some k := by
  have h := toLower?_ascii b.toNat (UInt8.lt_iff_toNat_lt.mp hb)
  simp only [lcFirst, hb, if_true]
  cases hl : toLower? b.toNat with
  | none => simp [hl] at h
  | some l => exact ⟨_, rfl⟩

/-! ### Anything but a non-nil pointer to a struct -/

/-- `MapTo` of a non-pointer, a nil pointer or a pointer to anything but a struct does nothing
    (whatever the tables). -/
theorem mapTo_not_struct_untouched (T : CastTables) (ext : Ext) (row : List (Bytes × Val)) (t : Target)
    (h : ∀ fs, t ≠ .pointerToStruct fs) : mapTo T ext row t = .ok t := by
  cases t with
  | pointerToStruct fs => exact absurd rfl (h fs)
  | notPointer => rfl
  | nilPointer => rfl
  | pointerToNonStruct => rfl

/-! ### Which fields can change -/

/-- The families of MapTo's type switch. -/
inductive Cls
  | sint | uint | float | str | bool | bytes
  deriving DecidableEq, Repr

/-- Family of a stored raw value (`none`: the switch has no case for it — nil, json.Number, time.Time,
    arrays, slices, maps, nested rows, named types, pointers …). -/
def clsOfDyn : Dyn → Option Cls
  | .int t _ => some (if t.signed then .sint else .uint)
  | .f64 _ | .f32 _ => some .float
  | .str _ => some .str
  | .bool _ => some .bool
  | .bytes _ => some .bytes
  | _ => none

/-- Family a field accepts, by kind (`none`: no setter applies). -/
def clsOfKind : FieldKind → Option Cls
  | .int t => some (if t.signed then .sint else .uint)
  | .uintptr => some .uint
  | .f32 | .f64 => some .float
  | .str => some .str
  | .bool => some .bool
  | .bytes => some .bytes
  | .other => none

/-- The three conditions under which MapTo may write a field. -/
def Matches (row : List (Bytes × Val)) (f : Field) : Prop :=
  f.settable = true ∧
    ∃ key v c, lcFirst f.name = some key ∧ lookup row key = some v ∧
      clsOfDyn (Cells.raw v) = some c ∧ clsOfKind f.kind = some c

/-- What never changes, and what changes only under a condition. -/
def Kept (cond : Prop) (f f' : Field) : Prop :=
  f'.name = f.name ∧ f'.kind = f.kind ∧ f'.settable = f.settable ∧ (¬ cond → f' = f)

theorem canInt_iff (k : FieldKind) : canInt k = true ↔ clsOfKind k = some .sint := by
  cases k with
  | int t => cases h : t.signed <;> simp [canInt, clsOfKind, h]
  | _ => simp [canInt, clsOfKind]

theorem canUint_iff (k : FieldKind) : canUint k = true ↔ clsOfKind k = some .uint := by
  cases k with
  | int t => cases h : t.signed <;> simp [canUint, clsOfKind, h]
  | _ => simp [canUint, clsOfKind]

theorem canFloat_iff (k : FieldKind) : canFloat k = true ↔ clsOfKind k = some .float := by
  cases k with
  | int t => cases h : t.signed <;> simp [canFloat, clsOfKind, h]
  | _ => simp [canFloat, clsOfKind]

theorem viaCast_kept {α : Type} {o : Outcome Dyn} {can : Bool} {extract : Dyn → Option α} {site : String}
    {f f' : Field} {set : α → Dyn} (h : viaCast o can extract site f set = .ok f') :
    Kept (can = true) f f' := by
  unfold viaCast at h
  cases o with
  | panic s => simp at h
  | err e =>
    by_cases he : e = .ext
    · simp [he] at h
    · cases can <;> simp [he] at h
      subst h; exact ⟨rfl, rfl, rfl, fun _ => rfl⟩
  | ok r =>
    cases can with
    | false => simp at h; subst h; exact ⟨rfl, rfl, rfl, fun _ => rfl⟩
    | true =>
      simp only [if_true] at h
      cases hx : extract r with
      | none => simp [hx] at h
      | some x =>
        simp [hx] at h; subst h
        exact ⟨rfl, rfl, rfl, fun hc => absurd rfl hc⟩

/-- The type switch (whatever the tables): only a value of the field's own family can change it. -/
theorem store_kept (T : CastTables) (ext : Ext) (f f' : Field) (raw : Dyn)
    (h : store T ext f raw = .ok f') :
    Kept (∃ c, clsOfDyn raw = some c ∧ clsOfKind f.kind = some c) f f' := by
  have weaken : ∀ {p q : Prop}, (p → q) → Kept p f f' → Kept q f f' :=
    fun hpq ⟨a, b, c, d⟩ => ⟨a, b, c, fun hq => d (fun hp => hq (hpq hp))⟩
  cases raw with
  | int t v =>
    cases ht : t.signed with
    | true =>
      simp only [store, ht, if_true] at h
      exact weaken (fun hc => ⟨.sint, by simp [clsOfDyn, ht], (canInt_iff _).mp hc⟩) (viaCast_kept h)
    | false =>
      simp only [store, ht, Bool.false_eq_true, if_false] at h
      exact weaken (fun hc => ⟨.uint, by simp [clsOfDyn, ht], (canUint_iff _).mp hc⟩) (viaCast_kept h)
  | f64 b =>
    simp only [store] at h
    exact weaken (fun hc => ⟨.float, by simp [clsOfDyn], (canFloat_iff _).mp hc⟩) (viaCast_kept h)
  | f32 b =>
    simp only [store] at h
    exact weaken (fun hc => ⟨.float, by simp [clsOfDyn], (canFloat_iff _).mp hc⟩) (viaCast_kept h)
  | str s =>
    simp only [store] at h
    by_cases hk : f.kind = .str
    · simp [hk] at h; subst h
      exact ⟨rfl, hk.symm, rfl, fun hn => absurd ⟨.str, by simp [clsOfDyn], by simp [clsOfKind, hk]⟩ hn⟩
    · simp [hk] at h; subst h; exact ⟨rfl, rfl, rfl, fun _ => rfl⟩
  | bool b =>
    simp only [store] at h
    by_cases hk : f.kind = .bool
    · simp [hk] at h; subst h
      exact ⟨rfl, hk.symm, rfl, fun hn => absurd ⟨.bool, by simp [clsOfDyn], by simp [clsOfKind, hk]⟩ hn⟩
    · simp [hk] at h; subst h; exact ⟨rfl, rfl, rfl, fun _ => rfl⟩
  | bytes s =>
    simp only [store] at h
    by_cases hk : f.kind = .bytes
    · simp [hk] at h; subst h
      exact ⟨rfl, hk.symm, rfl, fun hn => absurd ⟨.bytes, by simp [clsOfDyn], by simp [clsOfKind, hk]⟩ hn⟩
    · simp [hk] at h; subst h; exact ⟨rfl, rfl, rfl, fun _ => rfl⟩
  | nil => simp [store] at h; subst h; exact ⟨rfl, rfl, rfl, fun _ => rfl⟩
  | num l => simp [store] at h; subst h; exact ⟨rfl, rfl, rfl, fun _ => rfl⟩
  | time t => simp [store] at h; subst h; exact ⟨rfl, rfl, rfl, fun _ => rfl⟩
  | barr s => simp [store] at h; subst h; exact ⟨rfl, rfl, rfl, fun _ => rfl⟩
  | arr xs => simp [store] at h; subst h; exact ⟨rfl, rfl, rfl, fun _ => rfl⟩
  | gomap m => simp [store] at h; subst h; exact ⟨rfl, rfl, rfl, fun _ => rfl⟩
  | val v => simp [store] at h; subst h; exact ⟨rfl, rfl, rfl, fun _ => rfl⟩
  | other tag => simp [store] at h; subst h; exact ⟨rfl, rfl, rfl, fun _ => rfl⟩

/-- One iteration (whatever the tables): the field is changed only if it is settable, the row holds
    its `lcFirst` name, and the stored value's family is the field's. -/
theorem mapField_only_matching (T : CastTables) (ext : Ext) (row : List (Bytes × Val)) (f f' : Field)
    (h : mapField T ext row f = .ok f') : Kept (Matches row f) f f' := by
  cases hs : f.settable with
  | false =>
    simp [mapField, hs] at h; subst h; exact ⟨rfl, rfl, rfl, fun _ => rfl⟩
  | true =>
    cases hk : lcFirst f.name with
    | none => simp [mapField, hs, hk] at h
    | some key =>
      cases hv : lookup row key with
      | none => simp [mapField, hs, hk, hv] at h; subst h; exact ⟨rfl, rfl, rfl, fun _ => rfl⟩
      | some v =>
        simp [mapField, hs, hk, hv] at h
        obtain ⟨a, b, c, d⟩ := store_kept T ext f f' _ h
        exact ⟨a, b, c, fun hn => d (fun ⟨cl, h1, h2⟩ => hn ⟨hs, key, v, cl, hk, hv, h1, h2⟩)⟩

/-! ### The loop is field by field -/

/-- Position by position: the same lengths and, at every index, the relation. -/
def Pointwise (R : Field → Field → Prop) (fs fs' : List Field) : Prop :=
  fs'.length = fs.length ∧ ∀ i (h : i < fs.length) (h' : i < fs'.length), R fs[i] fs'[i]

theorem pointwise_nil (R : Field → Field → Prop) : Pointwise R [] [] :=
  ⟨rfl, fun i h => absurd h (Nat.not_lt_zero i)⟩

theorem pointwise_cons {R : Field → Field → Prop} {f f' : Field} {fs fs' : List Field} :
    Pointwise R (f :: fs) (f' :: fs') ↔ R f f' ∧ Pointwise R fs fs' := by
  constructor
  · intro ⟨hl, hi⟩
    refine ⟨hi 0 (by simp) (by simp), by simpa using hl, fun i h h' => ?_⟩
    have := hi (i + 1) (by simpa using h) (by simpa using h')
    simpa using this
  · intro ⟨h0, hl, hi⟩
    refine ⟨by simp [hl], fun i h h' => ?_⟩
    cases i with
    | zero => simpa using h0
    | succ i => simpa using hi i (by simpa using h) (by simpa using h')

/-- **The loop is field by field** (whatever the tables): `mapFields` ends normally with `fs'` exactly
    when every field, on its own, ends normally with the field at the same position of `fs'`. -/
theorem mapFields_fieldwise (T : CastTables) (ext : Ext) (row : List (Bytes × Val)) (fs fs' : List Field) :
    mapFields T ext row fs = .ok fs' ↔ Pointwise (fun f f' => mapField T ext row f = .ok f') fs fs' := by
  induction fs generalizing fs' with
  | nil =>
    cases fs' with
    | nil => simp [mapFields, pointwise_nil]
    | cons g gs => simp [mapFields, Pointwise]
  | cons f fs ih =>
    cases fs' with
    | nil =>
      simp only [mapFields, Pointwise]
      constructor
      · intro h
        cases h1 : mapField T ext row f <;> simp [h1] at h
        cases h2 : mapFields T ext row fs <;> simp [h2] at h
      · intro ⟨hl, _⟩; simp at hl
    | cons g gs =>
      rw [pointwise_cons, ← ih gs]
      simp only [mapFields]
      cases h1 : mapField T ext row f with
      | ok f1 =>
        cases h2 : mapFields T ext row fs with
        | ok fs1 => simp
        | err e => simp
        | panic s => simp
      | err e => simp
      | panic s => simp

theorem mapTo_fieldwise (T : CastTables) (ext : Ext) (row : List (Bytes × Val)) (fs fs' : List Field) :
    mapTo T ext row (.pointerToStruct fs) = .ok (.pointerToStruct fs') ↔
      Pointwise (fun f f' => mapField T ext row f = .ok f') fs fs' := by
  rw [← mapFields_fieldwise]
  simp only [mapTo]
  cases mapFields T ext row fs <;> simp

/-- A struct target stays a struct target. -/
theorem mapTo_struct_shape (T : CastTables) (ext : Ext) (row : List (Bytes × Val)) (fs : List Field) (t' : Target)
    (h : mapTo T ext row (.pointerToStruct fs) = .ok t') : ∃ fs', t' = .pointerToStruct fs' := by
  simp only [mapTo] at h
  cases hm : mapFields T ext row fs <;> simp [hm] at h
  exact ⟨_, h.symm⟩

/-- **The result for one field does not depend on the other fields**: in two calls on the same row, with
    any two structs, a field that occurs in both — at whatever positions, among whatever other fields, in
    whatever order — ends up the same. -/
theorem mapTo_field_independent (T : CastTables) (ext : Ext) (row : List (Bytes × Val))
    (fs fs' gs gs' : List Field)
    (hf : mapTo T ext row (.pointerToStruct fs) = .ok (.pointerToStruct fs'))
    (hg : mapTo T ext row (.pointerToStruct gs) = .ok (.pointerToStruct gs'))
    (i j : Nat) (hi : i < fs.length) (hj : j < gs.length) (hi' : i < fs'.length) (hj' : j < gs'.length)
    (same : fs[i] = gs[j]) : fs'[i] = gs'[j] := by
  have h1 : mapField T ext row fs[i] = .ok fs'[i] := ((mapTo_fieldwise T ext row fs fs').mp hf).2 i hi hi'
  have h2 : mapField T ext row gs[j] = .ok gs'[j] := ((mapTo_fieldwise T ext row gs gs').mp hg).2 j hj hj'
  simp only [same] at h1
  rw [h1] at h2
  exact Outcome.ok.inj h2

/-- **A field is changed only if** it is settable, the row holds its `lcFirst` name, and the stored
    value's family matches the field's kind; every other field keeps its current value; no field ever
    changes name, kind or settability; the struct keeps its fields' number and order. -/
theorem mapTo_only_matching_fields (T : CastTables) (ext : Ext) (row : List (Bytes × Val))
    (fs : List Field) (t' : Target) (h : mapTo T ext row (.pointerToStruct fs) = .ok t') :
    ∃ fs', t' = .pointerToStruct fs' ∧ Pointwise (fun f f' => Kept (Matches row f) f f') fs fs' := by
  obtain ⟨fs', rfl⟩ := mapTo_struct_shape T ext row fs t' h
  obtain ⟨hl, hp⟩ := (mapTo_fieldwise T ext row fs fs').mp h
  exact ⟨fs', rfl, hl, fun i hi hi' => mapField_only_matching T ext row _ _ (hp i hi hi')⟩

/-! ### What a matching field receives -/

theorem signed_inRange_i64 (st : IntTy) (hst : st.signed = true) (x : Int) (hx : st.inRange x) :
    IntTy.inRange .i64 x := by
  cases st <;> simp [IntTy.signed] at hst <;>
    simp [IntTy.inRange, IntTy.min, IntTy.max, IntTy.signed, IntTy.bits] at * <;> omega

theorem unsigned_inRange_u64 (st : IntTy) (hst : st.signed = false) (x : Int) (hx : st.inRange x) :
    IntTy.inRange .u64 x := by
  cases st <;> simp [IntTy.signed] at hst <;>
    simp [IntTy.inRange, IntTy.min, IntTy.max, IntTy.signed, IntTy.bits] at * <;> omega

/-- `cast.ToInt64` of a signed Go integer is that integer (C09's exactness, on the regenerated tables). -/
theorem toInt64_exact (ext : Ext) (st : IntTy) (hst : st.signed = true) (x : Int) (hx : st.inRange x) :
    castNamed genTables ext "ToInt64" (.int st x) = .ok (.int .i64 x) := by
  have h := cast_int_source genTables ext (casterOfInt .i64) _ .i64 st x (caster_present .i64)
    (int_branches_ok .i64 st) hx
  simpa [casterOfInt, signed_inRange_i64 st hst x hx] using h

theorem toUint64_exact (ext : Ext) (st : IntTy) (hst : st.signed = false) (x : Int) (hx : st.inRange x) :
    castNamed genTables ext "ToUint64" (.int st x) = .ok (.int .u64 x) := by
  have h := cast_int_source genTables ext (casterOfInt .u64) _ .u64 st x (caster_present .u64)
    (int_branches_ok .u64 st) hx
  simpa [casterOfInt, unsigned_inRange_u64 st hst x hx] using h

/-- One iteration, signed family: the field receives the stored integer WRAPPED to the field's width. -/
theorem mapField_int_value (ext : Ext) (row : List (Bytes × Val)) (f : Field) (ft st : IntTy)
    (key : Bytes) (v : Val) (x : Int)
    (hset : f.settable = true) (hkind : f.kind = .int ft) (hft : ft.signed = true)
    (hkey : lcFirst f.name = some key) (hv : lookup row key = some v)
    (hraw : Cells.raw v = .int st x) (hst : st.signed = true) (hx : st.inRange x) :
    mapField genTables ext row f = .ok { f with current := .int ft (ft.wrap x) } := by
  simp [mapField, hset, hkey, hv, hraw, store, hst, toInt64_exact ext st hst x hx, viaCast, asInt, hkind,
    canInt, hft, setInt]

/-- One iteration, unsigned family. -/
theorem mapField_uint_value (ext : Ext) (row : List (Bytes × Val)) (f : Field) (ft st : IntTy)
    (key : Bytes) (v : Val) (x : Int)
    (hset : f.settable = true) (hkind : f.kind = .int ft) (hft : ft.signed = false)
    (hkey : lcFirst f.name = some key) (hv : lookup row key = some v)
    (hraw : Cells.raw v = .int st x) (hst : st.signed = false) (hx : st.inRange x) :
    mapField genTables ext row f = .ok { f with current := .int ft (ft.wrap x) } := by
  simp [mapField, hset, hkey, hv, hraw, store, hst, toUint64_exact ext st hst x hx, viaCast, asInt, hkind,
    canUint, hft, setInt]

/-- One iteration, float family: a float64 field receives the stored value (a float32 widened, exactly),
    a float32 field that value ROUNDED to float32 (`Float.f64to32`: overflow to ±Inf, underflow to 0,
    NaN quietened — silently). -/
theorem mapField_float_value (ext : Ext) (row : List (Bytes × Val)) (f : Field) (key : Bytes) (v : Val)
    (hset : f.settable = true) (hcan : canFloat f.kind = true)
    (hkey : lcFirst f.name = some key) (hv : lookup row key = some v) :
    (∀ b, Cells.raw v = .f64 b →
      mapField genTables ext row f = .ok { f with current := setFloat f.kind b f.current }) ∧
    (∀ b, Cells.raw v = .f32 b →
      mapField genTables ext row f = .ok { f with current := setFloat f.kind (Float.f32to64 b) f.current }) := by
  constructor <;> intro b hraw
  · simp [mapField, hset, hkey, hv, hraw, store, toFloat64_f64, viaCast, asF64, hcan]
  · simp [mapField, hset, hkey, hv, hraw, store, toFloat64_f32, viaCast, asF64, hcan]

/-- One iteration, string / bool / []byte (whatever the tables): the value itself. -/
theorem mapField_scalar_value (T : CastTables) (ext : Ext) (row : List (Bytes × Val)) (f : Field)
    (key : Bytes) (v : Val) (hset : f.settable = true)
    (hkey : lcFirst f.name = some key) (hv : lookup row key = some v) :
    (∀ s, Cells.raw v = .str s → f.kind = .str → mapField T ext row f = .ok { f with current := .str s }) ∧
    (∀ b, Cells.raw v = .bool b → f.kind = .bool → mapField T ext row f = .ok { f with current := .bool b }) ∧
    (∀ s, Cells.raw v = .bytes s → f.kind = .bytes → mapField T ext row f = .ok { f with current := .bytes s }) := by
  refine ⟨fun s hraw hk => ?_, fun b hraw hk => ?_, fun s hraw hk => ?_⟩ <;>
    simp [mapField, hset, hkey, hv, hraw, store, hk]

/-- **The documented silent wrap-around, as it IS**: in a call on a struct, a settable signed-integer field
    whose `lcFirst` name the row holds with a signed Go integer `x` receives `wrap x` at the FIELD's width —
    the value itself when it fits, its low bits otherwise (int8 ← 300 gives 44). Not a violation of C17. -/
theorem mapTo_int_value (ext : Ext) (row : List (Bytes × Val)) (fs fs' : List Field)
    (h : mapTo genTables ext row (.pointerToStruct fs) = .ok (.pointerToStruct fs'))
    (i : Nat) (hi : i < fs.length) (hi' : i < fs'.length) (ft st : IntTy) (key : Bytes) (v : Val) (x : Int)
    (hset : fs[i].settable = true) (hkind : fs[i].kind = .int ft) (hft : ft.signed = true)
    (hkey : lcFirst fs[i].name = some key) (hv : lookup row key = some v)
    (hraw : Cells.raw v = .int st x) (hst : st.signed = true) (hx : st.inRange x) :
    fs'[i] = { fs[i] with current := .int ft (ft.wrap x) } := by
  have h1 : mapField genTables ext row fs[i] = .ok fs'[i] := ((mapTo_fieldwise _ ext row fs fs').mp h).2 i hi hi'
  rw [mapField_int_value ext row fs[i] ft st key v x hset hkind hft hkey hv hraw hst hx] at h1
  exact (Outcome.ok.inj h1).symm

/-- … and the value itself whenever it fits the field. -/
theorem mapTo_int_value_fits (ext : Ext) (row : List (Bytes × Val)) (fs fs' : List Field)
    (h : mapTo genTables ext row (.pointerToStruct fs) = .ok (.pointerToStruct fs'))
    (i : Nat) (hi : i < fs.length) (hi' : i < fs'.length) (ft st : IntTy) (key : Bytes) (v : Val) (x : Int)
    (hset : fs[i].settable = true) (hkind : fs[i].kind = .int ft) (hft : ft.signed = true)
    (hkey : lcFirst fs[i].name = some key) (hv : lookup row key = some v)
    (hraw : Cells.raw v = .int st x) (hst : st.signed = true) (hx : st.inRange x) (hfit : ft.inRange x) :
    fs'[i] = { fs[i] with current := .int ft x } := by
  rw [mapTo_int_value ext row fs fs' h i hi hi' ft st key v x hset hkind hft hkey hv hraw hst hx,
    wrap_of_inRange ft x hfit]

/-! ### LcFirst as it is -/

/-- An ASCII capital is lower-cased, the rest of the name kept. -/
theorem lcFirst_ascii_upper (b : UInt8) (rest : Bytes) (h1 : 0x41 ≤ b) (h2 : b ≤ 0x5A) :
    lcFirst (b :: rest) = some ((b + 32) :: rest) := by
  have n1 : 0x41 ≤ b.toNat := UInt8.le_iff_toNat_le.mp h1
  have n2 : b.toNat ≤ 0x5A := UInt8.le_iff_toNat_le.mp h2
  have hb : b < 0x80 := UInt8.lt_iff_toNat_lt.mpr (by simp; omega)
  have ht : toLower? b.toNat = some (b.toNat + 32) := by
    unfold toLower?; rw [if_neg (by omega), if_pos (by omega)]
  have hlt : b.toNat + 32 < 128 := by omega
  simp [lcFirst, hb, ht, Utf8.encode, hlt, UInt8.ofNat_add]

/-- Any other ASCII first byte: the name is its own key. -/
theorem lcFirst_ascii_other (b : UInt8) (rest : Bytes) (hb : b < 0x80) (h : b < 0x41 ∨ 0x5A < b) :
    lcFirst (b :: rest) = some (b :: rest) := by
  have n0 : b.toNat < 0x80 := UInt8.lt_iff_toNat_lt.mp hb
  have ht : toLower? b.toNat = some b.toNat := by
    unfold toLower?
    rcases h with h | h
    · have h' : b.toNat < 0x41 := UInt8.lt_iff_toNat_lt.mp h
      rw [if_pos h']
    · have h' : 0x5A < b.toNat := UInt8.lt_iff_toNat_lt.mp h
      rw [if_neg (by omega), if_neg (by omega), if_pos (by omega)]
  simp [lcFirst, hb, ht, Utf8.encode, n0]

/-- **`str[i+1:]` drops ONE byte**: when the name starts with a two-byte rune, the key is the lower-cased
    rune followed by the rune's own continuation byte and the rest of the name. -/
theorem lcFirst_keeps_continuation_bytes (b0 b1 : UInt8) (rest : Bytes) (l : Nat)
    (h0 : ¬ b0 < 0x80) (hlen : Utf8.seqLen (b0 :: b1 :: rest) = some 2)
    (hl : toLower? (Utf8.decode [b0, b1]) = some l) :
    lcFirst (b0 :: b1 :: rest) = some (Utf8.encode l ++ b1 :: rest) := by
  simp [lcFirst, h0, hlen, hl]

/-! ### Non-vacuity -/

section Examples

private def rowA (x : Dyn) : List (Bytes × Val) := [([0x61], .cell x .auto .none)]

/-- int8 field `A` ← the int 300 stored under `a`: 44. -/
example : mapTo genTables Ext.empty (rowA (.int .int 300)) (.pointerToStruct [⟨[0x41], .int .i8, true, .int .i8 7⟩])
    = .ok (.pointerToStruct [⟨[0x41], .int .i8, true, .int .i8 44⟩]) := by rfl

/-- The hypotheses of `mapTo_int_value` are satisfiable, and its conclusion is that 44. -/
example : ({ (⟨[0x41], .int .i8, true, .int .i8 7⟩ : Field) with current := .int .i8 (IntTy.wrap .i8 300) } : Field)
    = ⟨[0x41], .int .i8, true, .int .i8 44⟩ := by rfl
example : lcFirst [0x41] = some [0x61] ∧ lookup (rowA (.int .int 300)) [0x61] = some (.cell (.int .int 300) .auto .none)
    ∧ IntTy.inRange .int 300 := by
  refine ⟨by rfl, by rfl, by decide⟩

/-- An unexported field keeps its value; an unsigned field does not take a signed value; a string field
    does not take a number; the key `A` is never asked for. -/
example : mapTo genTables Ext.empty (rowA (.int .int (-1)))
      (.pointerToStruct [⟨[0x61], .int .int, false, .int .int 5⟩, ⟨[0x41], .int .u8, true, .int .u8 9⟩])
    = .ok (.pointerToStruct [⟨[0x61], .int .int, false, .int .int 5⟩, ⟨[0x41], .int .u8, true, .int .u8 9⟩]) := by rfl
example : mapTo genTables Ext.empty [([0x41], .cell (.int .int 1) .auto .none)]
      (.pointerToStruct [⟨[0x41], .int .int, true, .int .int 5⟩])
    = .ok (.pointerToStruct [⟨[0x41], .int .int, true, .int .int 5⟩]) := by rfl
example : mapTo genTables Ext.empty (rowA (.int .int 12)) (.pointerToStruct [⟨[0x41], .str, true, .str [0x78]⟩])
    = .ok (.pointerToStruct [⟨[0x41], .str, true, .str [0x78]⟩]) := by rfl

/-- uint8 field ← uint64 2^64-1: 255; uintptr field takes unsigned values. -/
example : mapTo genTables Ext.empty (rowA (.int .u64 18446744073709551615))
      (.pointerToStruct [⟨[0x41], .int .u8, true, .int .u8 0⟩])
    = .ok (.pointerToStruct [⟨[0x41], .int .u8, true, .int .u8 255⟩]) := by rfl
example : mapTo genTables Ext.empty (rowA (.int .u16 300)) (.pointerToStruct [⟨[0x41], .uintptr, true, .int .u64 0⟩])
    = .ok (.pointerToStruct [⟨[0x41], .uintptr, true, .int .u64 300⟩]) := by rfl

/-- float32 field ← 1e300: +Inf; ← a float64 signalling NaN: the quiet NaN. -/
example : mapTo genTables Ext.empty (rowA (.f64 0x7e37e43c8800759c)) (.pointerToStruct [⟨[0x41], .f32, true, .f32 0⟩])
    = .ok (.pointerToStruct [⟨[0x41], .f32, true, .f32 0x7f800000⟩]) := by rfl
example : mapTo genTables Ext.empty (rowA (.f64 0x7ff0000000000001)) (.pointerToStruct [⟨[0x41], .f32, true, .f32 0⟩])
    = .ok (.pointerToStruct [⟨[0x41], .f32, true, .f32 0x7fc00000⟩]) := by rfl

/-- string, bool, []byte; a json.Number, a nil and a nested row change nothing. -/
example : mapTo genTables Ext.empty
      [([0x61], .cell (.str [0x68, 0x69]) .auto .none), ([0x62], .cell (.bool true) .auto .none),
       ([0x63], .cell (.bytes [1, 2]) .auto .none), ([0x64], .cell (.num [0x31]) .auto .none),
       ([0x65], .cell .nil .auto .none), ([0x66], .row (.cons [0x78] (.cell (.int .int 1) .auto .none) .nil))]
      (.pointerToStruct [⟨[0x41], .str, true, .str []⟩, ⟨[0x42], .bool, true, .bool false⟩, ⟨[0x43], .bytes, true, .bytes []⟩,
        ⟨[0x44], .str, true, .str [0x77]⟩, ⟨[0x45], .int .int, true, .int .int 3⟩, ⟨[0x46], .other, true, .other 1⟩])
    = .ok (.pointerToStruct [⟨[0x41], .str, true, .str [0x68, 0x69]⟩, ⟨[0x42], .bool, true, .bool true⟩, ⟨[0x43], .bytes, true, .bytes [1, 2]⟩,
        ⟨[0x44], .str, true, .str [0x77]⟩, ⟨[0x45], .int .int, true, .int .int 3⟩, ⟨[0x46], .other, true, .other 1⟩]) := by rfl

/-- `École` asks for `é` ++ 0x89 ++ `cole` — never for `école`. -/
example : lcFirst [0xC3, 0x89, 0x63, 0x6F, 0x6C, 0x65] = some [0xC3, 0xA9, 0x89, 0x63, 0x6F, 0x6C, 0x65] := by decide
example : mapTo genTables Ext.empty
      [([0xC3, 0xA9, 0x63], .cell (.int .int 1) .auto .none), ([0xC3, 0xA9, 0x89, 0x63], .cell (.int .int 2) .auto .none)]
      (.pointerToStruct [⟨[0xC3, 0x89, 0x63], .int .int, true, .int .int 0⟩])
    = .ok (.pointerToStruct [⟨[0xC3, 0x89, 0x63], .int .int, true, .int .int 2⟩]) := by rfl

/-- An ill-formed first byte reads as U+FFFD. -/
example : lcFirst [0xFF, 0x41] = some [0xEF, 0xBF, 0xBD, 0x41] := by decide

/-- Not a struct: untouched. The abstention of `mapTo_total` exists (a name starting with U+20AC). -/
example : mapTo genTables Ext.empty (rowA (.int .int 1)) .nilPointer = .ok .nilPointer := by rfl
example : lcFirst [0xE2, 0x82, 0xAC] = none := by decide
example : mapTo genTables Ext.empty [] (.pointerToStruct [⟨[0xE2, 0x82, 0xAC], .int .int, true, .int .int 0⟩]) = .err .ext := by rfl

/-- `Matches` is satisfiable and refutable. -/
example : Matches (rowA (.int .int 300)) ⟨[0x41], .int .i8, true, .int .i8 7⟩ :=
  ⟨rfl, [0x61], .cell (.int .int 300) .auto .none, .sint, by rfl, by rfl, by rfl, by rfl⟩
example : ¬ Matches (rowA (.int .int 300)) ⟨[0x41], .int .u8, true, .int .u8 7⟩ := by
  intro ⟨_, key, v, c, hk, hv, h1, h2⟩
  have hk' : key = [0x61] := by
    have : lcFirst [0x41] = some [0x61] := by rfl
    simp only [this] at hk; exact (Option.some.inj hk).symm
  subst hk'
  have hv' : v = .cell (.int .int 300) .auto .none := by
    have : lookup (rowA (.int .int 300)) [0x61] = some (.cell (.int .int 300) .auto .none) := by rfl
    rw [this] at hv; exact (Option.some.inj hv).symm
  subst hv'
  simp [Cells.raw, clsOfDyn, IntTy.signed] at h1
  subst h1
  simp [clsOfKind, IntTy.signed] at h2

/-- The assertion CAN fail in the model: with tables whose `ToInt64` hands an int back as it is, or fails on
    it, the panic branch is taken — `mapTo_no_panic` is a statement about the regenerated tables, not about
    the shape of `mapTo`. A field that cannot take the value does not reach the assertion. -/
example : mapTo { genTables with casters := [⟨"ToInt64", [], .ret .val⟩] } Ext.empty (rowA (.int .int 1))
      (.pointerToStruct [⟨[0x41], .int .int, true, .int .int 0⟩]) = .panic "row.MapTo: i.(int64)" := by rfl
example : mapTo { genTables with casters := [⟨"ToInt64", [], .fail "ErrUnableToCastToInt64"⟩] } Ext.empty (rowA (.int .int 1))
      (.pointerToStruct [⟨[0x41], .int .int, true, .int .int 0⟩]) = .panic "row.MapTo: i.(int64)" := by rfl
example : mapTo { genTables with casters := [⟨"ToInt64", [], .fail "ErrUnableToCastToInt64"⟩] } Ext.empty (rowA (.int .int 1))
      (.pointerToStruct [⟨[0x41], .str, true, .str []⟩]) = .ok (.pointerToStruct [⟨[0x41], .str, true, .str []⟩]) := by rfl

end Examples

end Jl.MapTo
