/-
  Proofs.CastBin — the binary form of fixed-width values in the regenerated tables
  (ToBinary's clauses, the xToBytes / xFromBytes functions of binary_ops.go, the `[]byte`
  clauses of the numeric casters and cast.To's dispatch), evaluated by `simp` and closed with
  the little-endian lemmas of Proofs.LE.
-/
import Model.CastGen
import Model.CastSpec
import Proofs.LE
import Proofs.CastInt

namespace Jl
open Cast

set_option linter.unusedSimpArgs false

theorem toU64_mod8 (v : Int) : LE.toU 64 v % 256 = LE.toU 8 v := by unfold LE.toU; omega
theorem toU64_mod16 (v : Int) : LE.toU 64 v % 65536 = LE.toU 16 v := by unfold LE.toU; omega
theorem toU64_mod32 (v : Int) : LE.toU 64 v % 4294967296 = LE.toU 32 v := by unfold LE.toU; omega
theorem toU64_mod64 (v : Int) : LE.toU 64 v % 18446744073709551616 = LE.toU 64 v := by
  unfold LE.toU; omega
theorem toU8_mod (v : Int) : LE.toU 8 v % 256 = LE.toU 8 v := by unfold LE.toU; omega

/-- ToBinary of an integer of any of the ten types: the little-endian two's-complement image
    of exactly the type's size. -/
theorem encode_int (ext : Ext) (t : IntTy) (v : Int) :
    castNamed genTables ext "ToBinary" (.int t v) =
      .ok (.bytes (LE.put (t.bits / 8) (LE.toU t.bits v))) := by
  cases t <;>
  simp [castNamed, callNamed, genTables, Gen.casters, Gen.binFns, findClause, typeOf, evalBranch,
    evalE, binPut, IntTy.bits, toU64_mod8, toU64_mod16, toU64_mod32, toU64_mod64, toU8_mod, LE.put]

theorem encode_f64 (ext : Ext) (b : Nat) (hb : b < 2 ^ 64) :
    castNamed genTables ext "ToBinary" (.f64 b) = .ok (.bytes (LE.put 8 b)) := by
  simp [castNamed, callNamed, genTables, Gen.casters, Gen.binFns, findClause, typeOf, evalBranch,
    evalE, binPut, LE.put, Nat.mod_eq_of_lt hb]

theorem encode_f32 (ext : Ext) (b : Nat) (hb : b < 2 ^ 32) :
    castNamed genTables ext "ToBinary" (.f32 b) = .ok (.bytes (LE.put 4 b)) := by
  simp [castNamed, callNamed, genTables, Gen.casters, Gen.binFns, findClause, typeOf, evalBranch,
    evalE, binPut, LE.put, Nat.mod_eq_of_lt hb]

theorem encode_bool (ext : Ext) (b : Bool) :
    castNamed genTables ext "ToBinary" (.bool b) = .ok (.bytes [if b then 1 else 0]) := by
  cases b <;>
  simp [castNamed, callNamed, genTables, Gen.casters, Gen.binFns, findClause, typeOf, evalBranch,
    evalE, binPut]


theorem wrap_ofU (t : IntTy) (h : t.signed = true) (s : Bytes) (hl : s.length = t.bits / 8) :
    t.wrap (LE.ofU t.bits (LE.get s)) = LE.ofU t.bits (LE.get s) := by
  apply wrap_of_inRange
  have hlt := LE.get_lt s
  have hr := LE.ofU_range t.bits (LE.get s) (by cases t <;> simp [IntTy.bits])
  cases t <;> simp [IntTy.signed] at h <;>
    simp [IntTy.bits] at hl hr hlt ⊢ <;> rw [hl] at hlt <;>
    simp [IntTy.inRange, IntTy.min, IntTy.max, IntTy.signed, IntTy.bits] <;>
    (have := hr (by omega); omega)

theorem wrap_get (t : IntTy) (h : t.signed = false) (s : Bytes) (hl : s.length = t.bits / 8) :
    t.wrap (LE.get s : Int) = LE.get s := by
  apply wrap_of_inRange
  have hlt := LE.get_lt s
  cases t <;> simp [IntTy.signed] at h <;>
    simp [IntTy.bits] at hl hlt ⊢ <;> rw [hl] at hlt <;>
    simp [IntTy.inRange, IntTy.min, IntTy.max, IntTy.signed, IntTy.bits] <;> omega

set_option maxRecDepth 8192 in
set_option maxHeartbeats 3200000 in
theorem decode_int (ext : Ext) (t : IntTy) (s : Bytes) :
    castTo genTables ext (.int t) (.bytes s) =
      if s.length = t.bits / 8 then
        .ok (.int t (if t.signed then LE.ofU t.bits (LE.get s) else (LE.get s : Int)))
      else .err .cast := by
  by_cases hl : s.length = t.bits / 8
  · have h1 := wrap_ofU t
    have h2 := wrap_get t
    cases t <;>
    simp [IntTy.bits] at hl <;>
    simp [castTo, callNamed, genTables, Gen.casters, Gen.binFns, Gen.dispatchTo, findClause, typeOf, evalBranch,
      evalE, binGet, ofUnsigned, IntTy.bits, IntTy.signed, hl, failWith, Gen.sentinels, wrapsRoot,
      List.take_of_length_le] <;>
    first
      | (have := h1 rfl s (by simp [IntTy.bits, hl]); simpa [IntTy.bits] using this)
      | (have := h2 rfl s (by simp [IntTy.bits, hl]); simpa [IntTy.bits] using this)
      | (obtain ⟨b, rfl⟩ : ∃ b, s = [b] := (match s, hl with | [b], _ => ⟨b, rfl⟩)
         have := h1 rfl [b] (by simp [IntTy.bits]); simpa [IntTy.bits, LE.get] using this)
      | (obtain ⟨b, rfl⟩ : ∃ b, s = [b] := (match s, hl with | [b], _ => ⟨b, rfl⟩)
         have := h2 rfl [b] (by simp [IntTy.bits]); simpa [IntTy.bits, LE.get] using this)
  · cases t <;>
    simp [IntTy.bits] at hl <;>
    simp [castTo, callNamed, genTables, Gen.casters, Gen.binFns, Gen.dispatchTo, findClause, typeOf, evalBranch,
      evalE, binGet, IntTy.bits, hl, failWith, Gen.sentinels, wrapsRoot]

set_option maxRecDepth 8192 in
set_option maxHeartbeats 3200000 in
theorem decode_f64 (ext : Ext) (s : Bytes) :
    castTo genTables ext .f64 (.bytes s) =
      if s.length = 8 then .ok (.f64 (LE.get s)) else .err .cast := by
  by_cases hl : s.length = 8 <;>
  simp [castTo, callNamed, genTables, Gen.casters, Gen.binFns, Gen.dispatchTo, findClause, typeOf, evalBranch,
    evalE, binGet, ofUnsigned, hl, failWith, Gen.sentinels, wrapsRoot, List.take_of_length_le]

set_option maxRecDepth 8192 in
set_option maxHeartbeats 3200000 in
theorem decode_f32 (ext : Ext) (s : Bytes) :
    castTo genTables ext .f32 (.bytes s) =
      if s.length = 4 then .ok (.f32 (LE.get s)) else .err .cast := by
  by_cases hl : s.length = 4 <;>
  simp [castTo, callNamed, genTables, Gen.casters, Gen.binFns, Gen.dispatchTo, findClause, typeOf, evalBranch,
    evalE, binGet, ofUnsigned, hl, failWith, Gen.sentinels, wrapsRoot, List.take_of_length_le]

set_option maxRecDepth 8192 in
set_option maxHeartbeats 3200000 in
theorem decode_bool (ext : Ext) (s : Bytes) :
    castTo genTables ext .bool (.bytes s) =
      match s with
      | [b] => .ok (.bool (b != 0))
      | _ => .err .cast := by
  match s with
  | [] | [b] | _ :: _ :: _ =>
    simp [castTo, callNamed, genTables, Gen.casters, Gen.binFns, Gen.dispatchTo, findClause, typeOf, evalBranch,
      evalE, binGet, failWith, Gen.sentinels, wrapsRoot]

end Jl
