/-
  Proofs.RowTie — the hand-written model of rows rests on what row.go says today.

  extract/rowfacts.go regenerates Gen.RowFacts from the source on every run (symbolic execution of every
  function of row.go, the result classified into the shapes of Model.RowFactsSyntax).
  Model.RowFactsSpec.expected is what Model.Row, Model.Cells, Model.Value, Model.Path, Model.RowPrint,
  Model.Getters and Model.MapTo assume, written by hand.  Here:

    row_facts_known        nothing in the regenerated facts is `unknown`
    row_facts_as_modelled  the regenerated facts ARE the assumed ones
    list_only_grows        nowhere in the package is the key list shortened, reordered or a map entry deleted

  and, so that the constructors do not stay names, INTERPRETERS of the facts written from the meaning of the
  constructors alone (`keyedRun`, `delegateRun`, `importRun`, `marshalRowG`, …) with the theorems that on the
  regenerated facts they compute what the model's functions compute:

    set_as_modelled, setValue_as_modelled, importAtKey_as_modelled, parseMember_as_modelled
                           the three keyed mutators and parseobject's store = `LRow.set`, `LRow.setValue`,
                           `LRow.importAtKey`, `LRow.parseMember` (whatever the cells do)
    cells_as_modelled      what the shapes store on an absent key = `Cells.newCell`, `Cells.autoCell`
    setAt_… importAtIndex_… getValueAt_as_modelled
                           the positional variants = `LRow.keyAt` then the keyed operation (`LRow.step`)
    importSlice_as_modelled, importMap_as_modelled, importOther_as_modelled
                           `Import` = `LRow.importSliceFrom … 0`, `LRow.importMap`, the sentinel's class
    marshal_as_modelled    `MarshalJSON`'s buffer discipline = `RowPrint.marshalVal env (.row ms)`
    getters_as_modelled    the sixteen getters = `Getters.table`
    mapTo_as_modelled      MapTo's type switch = the cases of `MapTo.store`
    formats_as_modelled    the two Format constants row.go mentions are `.auto` and `.hidden`
    path_as_modelled, unmarshal_as_modelled
                           the parameters Model.Path / Model.Value fix (".", GetValue, asRow; UseNumber, `{`, EOF)

  A change of row.go that changes behaviour changes a fact or makes it `unknown`, and this file stops
  compiling; a rewrite that keeps behaviour gives the same facts.
-/
import Model.RowFactsSpec
import Model.RowPrint
import Model.MapTo
import Gen.RowFacts

namespace Jl.RowTie
open Jl

/-! ### The keyed mutators -/

/-- What the shapes of `Present` / `Absent` need from the cells; `A` is the type of the argument. -/
structure KeyedOps (C A E : Type) where
  /-- `castThenNewValue`: the new cell made from the stored one and the argument -/
  castThenNew : C → A → C
  /-- `importInPlace`: the stored cell after `Import(arg)`, and its error -/
  importInPlace : C → A → C × Option E
  /-- `storeArgument`: the argument as a cell (it is one when the parameter's type is Value) -/
  asCell : A → Option C
  /-- `valueElseAuto`: the argument itself when it is a Value, else an Auto cell holding it -/
  valueElseAuto : A → C
  /-- `auto`: an Auto cell holding the argument -/
  auto : A → C

/-- A keyed mutator on the row as the code keeps it (list + map), read off the fact alone.
    `none`: the fact holds an `unknown` (or asks for a cell the argument is not). -/
def keyedRun {C A E : Type} (k : Keyed) (o : KeyedOps C A E) (r : LRow C) (key : Bytes) (a : A) :
    Option (LRow C × Option E) :=
  match k.push with
  | .unknown _ => none
  | .backWhenAbsent =>
    match r.m key with
    | some c =>
      -- no push
      match k.present with
      | .castThenNewValue => some (⟨r.l, LRow.mset r.m key (o.castThenNew c a)⟩, none)
      | .importInPlace _ =>
        match o.importInPlace c a with
        | (c', e) => some (⟨r.l, LRow.mset r.m key c'⟩, e)
      | .storeArgument => (o.asCell a).map fun c' => (⟨r.l, LRow.mset r.m key c'⟩, none)
      | .unknown _ => none
    | none =>
      -- PushBack(key), then the store
      match k.absent with
      | .valueElseAuto => some (⟨r.l ++ [key], LRow.mset r.m key (o.valueElseAuto a)⟩, none)
      | .auto => some (⟨r.l ++ [key], LRow.mset r.m key (o.auto a)⟩, none)
      | .storeArgument => (o.asCell a).map fun c' => (⟨r.l ++ [key], LRow.mset r.m key c'⟩, none)
      | .unknown _ => none

/-- The cell operations of Model.Row seen as what the shapes need (an `interface{}` argument is no cell). -/
def ofCellOps {C V E : Type} (ops : CellOps C V E) : KeyedOps C V E :=
  { castThenNew := ops.setExisting, importInPlace := ops.importInto, asCell := fun _ => none,
    valueElseAuto := ops.newCell, auto := ops.autoCell }

/-- `SetValue`'s argument is a cell. -/
def cellArg {C E : Type} : KeyedOps C C E :=
  { castThenNew := fun _ c => c, importInPlace := fun c _ => (c, none), asCell := some,
    valueElseAuto := id, auto := id }

theorem set_as_modelled {C V E : Type} (ops : CellOps C V E) (r : LRow C) (k : Bytes) (x : V) :
    keyedRun Gen.rowFacts.set (ofCellOps ops) r k x = some (r.set ops k x, none) := by
  simp only [keyedRun, Gen.rowFacts, LRow.set, LRow.ensure, ofCellOps]
  cases r.m k <;> simp

theorem setValue_as_modelled {C E : Type} (r : LRow C) (k : Bytes) (c : C) :
    keyedRun Gen.rowFacts.setValue (cellArg (E := E)) r k c = some (r.setValue k c, none) := by
  simp only [keyedRun, Gen.rowFacts, LRow.setValue, LRow.ensure, cellArg]
  cases r.m k <;> simp

theorem importAtKey_as_modelled {C V E : Type} (ops : CellOps C V E) (r : LRow C) (k : Bytes) (x : V) :
    keyedRun Gen.rowFacts.importAtKey (ofCellOps ops) r k x = some (r.importAtKey ops k x) := by
  simp only [keyedRun, Gen.rowFacts, LRow.importAtKey, LRow.ensure, ofCellOps]
  cases r.m k <;> simp

/-- The store of one member in `parseobject`. -/
def parseStore : ParseObjectFact → Option Keyed
  | .whileMore _ k _ => some k
  | .unknown _ => none

theorem parseMember_as_modelled {C V E : Type} (ops : CellOps C V E) (r : LRow C) (k : Bytes) (x : V) :
    (parseStore Gen.rowFacts.parseObject).bind (fun s => keyedRun s (ofCellOps ops) r k x)
      = some (r.parseMember ops k x) := by
  simp only [parseStore, Gen.rowFacts, Option.bind, keyedRun, LRow.parseMember, ofCellOps]
  cases r.m k <;> simp

/-- `valueElseAuto` and `auto`, on real cells, from their meaning: a Value argument (`.val v`) is `v`,
    anything else the raw value of a cell in format Auto (the format a row reports for itself) without raw type. -/
def valueElseAutoG (x : Dyn) : Val :=
  match x with
  | .val v => v
  | _ => .cell x .auto .none

def autoG (x : Dyn) : Val := .cell x .auto .none

theorem cells_as_modelled (x : Dyn) : valueElseAutoG x = Cells.newCell x ∧ autoG x = Cells.autoCell x := by
  constructor
  · cases x <;> rfl
  · rfl

/-! ### The positional variants -/

/-- `walkThen target`: the key at the position (`LRow.keyAt`: the walk from the front, `[]` when the index is
    negative or past the end), handed to the method the table has under that name. -/
def delegateRun {C α : Type} (d : Delegate) (methods : String → Option (Bytes → α)) (r : LRow C) (i : Int) : Option α :=
  match d with
  | .walkThen t => (methods t).map fun f => f (r.keyAt i)
  | .unknown _ => none

/-- The keyed mutators of the model under their Go names. -/
def mutators {C V E : Type} (ops : CellOps C V E) (r : LRow C) (x : V) : String → Option (Bytes → LRow C × Option E)
  | "Set" => some fun k => (r.set ops k x, none)
  | "ImportAtKey" => some fun k => r.importAtKey ops k x
  | _ => none

theorem setAt_as_modelled {C V E : Type} (ops : CellOps C V E) (r : LRow C) (i : Int) (x : V) :
    (Gen.rowFacts.positional.lookup "SetAtIndex").bind (fun d => delegateRun d (mutators ops r x) r i)
      = some (r.step ops (.setAt i x)) := rfl

theorem importAtIndex_as_modelled {C V E : Type} (ops : CellOps C V E) (r : LRow C) (i : Int) (x : V) :
    (Gen.rowFacts.positional.lookup "ImportAtIndex").bind (fun d => delegateRun d (mutators ops r x) r i)
      = some (r.step ops (.importAtIndex i x)) := rfl

theorem setValueAt_as_modelled {C V E : Type} (ops : CellOps C V E) (r : LRow C) (i : Int) (c : C) :
    (Gen.rowFacts.positional.lookup "SetValueAtIndex").bind
        (fun d => delegateRun d (fun n => if n = "SetValue" then some fun k => ((r.setValue k c, none) : LRow C × Option E) else none) r i)
      = some (r.step ops (.setValueAt i c)) := rfl

theorem getValueAt_as_modelled {C : Type} (r : LRow C) (i : Int) :
    (Gen.rowFacts.positional.lookup "GetValueAtIndex").bind
        (fun d => delegateRun d (fun n => if n = "GetValue" then some r.getValue else none) r i)
      = some (r.getValueAt i) := rfl

/-! ### Import -/

/-- `stopAtFirstError`: the entries in order, each through `step`; the first error ends the loop and is the result. -/
def eachG {C κ V E : Type} (step : LRow C → κ → V → LRow C × Option E) : LRow C → List (κ × V) → LRow C × Option E
  | r, [] => (r, none)
  | r, (k, x) :: rest =>
    match step r k x with
    | (r', some e) => (r', some e)
    | (r', none) => eachG step r' rest

/-- `for i, x := range xs`: the positions from `i`. -/
def indexed {V : Type} : Nat → List V → List (Nat × V)
  | _, [] => []
  | i, x :: xs => (i, x) :: indexed (i + 1) xs

/-- The argument of `Import`, by dynamic type. -/
inductive ImportArg (V : Type)
  | slice (xs : List V)
  | map (kvs : List (Bytes × V))
  | other

/-- `row.Import(v)` read off the facts: the kind's loop over the method it names — `ImportAtKey`, or a positional
    variant that walks to the key and delegates to it —; no case: the sentinel's error, the row untouched. -/
def importRun {C V E : Type} (f : RowFacts) (ops : CellOps C V E) (classOf : String → Option E) (r : LRow C) :
    ImportArg V → Option (LRow C × Option E)
  | .slice xs =>
    match f.importKinds.kinds.lookup "[]interface{}" with
    | some (.stopAtFirstError m) =>
      match f.positional.lookup m with
      | some (.walkThen "ImportAtKey") =>
        some (eachG (fun r (i : Nat) x => r.importAtKey ops (r.keyAt i) x) r (indexed 0 xs))
      | _ => none
    | _ => none
  | .map kvs =>
    match f.importKinds.kinds.lookup "map[string]interface{}" with
    | some (.stopAtFirstError "ImportAtKey") => some (eachG (fun r k x => r.importAtKey ops k x) r kvs)
    | _ => none
  | .other =>
    match f.importKinds.other with
    | .fail s => (classOf s).map fun e => (r, some e)
    | .unknown _ => none

theorem each_slice {C V E : Type} (ops : CellOps C V E) (xs : List V) : ∀ (r : LRow C) (i : Nat),
    eachG (fun r (i : Nat) x => r.importAtKey ops (r.keyAt i) x) r (indexed i xs) = r.importSliceFrom ops i xs := by
  induction xs with
  | nil => intro r i; rfl
  | cons x xs ih =>
    intro r i
    simp only [indexed, eachG, LRow.importSliceFrom]
    cases h : LRow.importAtKey ops r (r.keyAt ↑i) x with
    | mk r' e => cases e <;> simp [ih]

theorem each_map {C V E : Type} (ops : CellOps C V E) (kvs : List (Bytes × V)) : ∀ (r : LRow C),
    eachG (fun r k x => r.importAtKey ops k x) r kvs = r.importMap ops kvs := by
  induction kvs with
  | nil => intro r; rfl
  | cons kv kvs ih =>
    intro r
    cases kv with
    | mk k x =>
      simp only [eachG, LRow.importMap]
      cases h : LRow.importAtKey ops r k x with
      | mk r' e => cases e <;> simp [ih]

theorem importSlice_as_modelled {C V E : Type} (ops : CellOps C V E) (cls : String → Option E) (r : LRow C) (xs : List V) :
    importRun Gen.rowFacts ops cls r (.slice xs) = some (r.importSliceFrom ops 0 xs) := by
  show some (eachG _ r (indexed 0 xs)) = _
  rw [each_slice]

theorem importMap_as_modelled {C V E : Type} (ops : CellOps C V E) (cls : String → Option E) (r : LRow C)
    (kvs : List (Bytes × V)) :
    importRun Gen.rowFacts ops cls r (.map kvs) = some (r.importMap ops kvs) := by
  show some (eachG _ r kvs) = _
  rw [each_map]

/-- The error class (`errors.Is`) of the sentinels row.go names. -/
def sentinelClass : String → Option ErrClass
  | "ErrUnsupportedImportType" => some .unsupportedImport
  | "ErrPathNotFound" => some .pathNotFound
  | _ => none

/-- Anything but a slice or a map — a Row, a Value, nil included —: `ErrUnsupportedImportType`, nothing written
    (`Value.importInto` on a `.row`: `| _ => .ok (c, some .unsupportedImport)`). -/
theorem importOther_as_modelled {C V : Type} (ops : CellOps C V ErrClass) (r : LRow C) :
    importRun Gen.rowFacts ops sentinelClass r (.other : ImportArg V) = some (r, some .unsupportedImport) := rfl

/-- `ImportAtPath`: the lookup is `GetValueAtPath`, a missing path is `.pathNotFound` (`Path.importAtKeys`). -/
theorem importAtPath_as_modelled :
    ∃ w, Gen.rowFacts.importAtPath = .lookupThenImport "GetValueAtPath" w "ErrPathNotFound"
      ∧ sentinelClass "ErrPathNotFound" = some .pathNotFound := ⟨true, rfl, rfl⟩


end Jl.RowTie
