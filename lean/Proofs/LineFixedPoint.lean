/-
  Proofs.LineFixedPoint — C05 at LINE level: an emitted line is a fixed point of its output
  template.

      jlLine env ti to line = .ok (b, none)  →
        ∃ body, b = body ++ [0x0A] ∧ jlLine env to to body = .ok (b, none)

  for templates with any number of columns (hidden columns, sub-row prototypes, columns absent
  from the input and undeclared members included), under hypotheses that exclude the known
  deviations (`swallowed-cast`, `offset-24-60`, ill-formed UTF-8 in the JSON transport).

  1. Generic lifting (any environment, any cast tables)
     * `CellFixed env f ty c`  — the printed cell `c` of a column declared `(f, ty)`: what the
       reader hands to `Import` for its text, imported under `(f, ty)` and cloned by `CreateRow`,
       is marshalled to the same bytes;   `FreeFixed env c` — the same for an undeclared name.
     * `second_pass`           — on the rows of the first pass: distinct `sanitize`-fixed names,
       `CellFixed` / `FreeFixed` cells ⟹ the body is accepted under `(to, to)` and re-emitted
       byte for byte (emitted order, hidden columns absent from the text and still hidden, absent
       columns emitted as their prototype).
     * `line_fixed_point`      — the same from `jlLine … = .ok (b, none)`;
       `line_fixed_point_declared` — lines all of whose member names are declared;
       `free_cells_of_reader`, `line_fixed_point_reader` — the members no template declares are
       discharged from Proofs/RoundTrip when their names are not repeated (`FreeMembersUnique`).
  2. The regenerated tables
     * `cellFixed_of_fixedPoint` — the bridge from `SelfReadable.FixedPoint` (+ `Wire`) to
       `CellFixed`; `gen_import_reclone`, `gen_reclone` (a value `cast.To` returned is cloned as
       itself; `CloneValue` is idempotent).
     * `Covered ext f ty raw`, `covered_cellFixed` — 37 families (nil under every format; ints
       under string / numeric / binary / timestamp / auto; strings; json.Number; binary(·);
       boolean(T) for every T; date(none|string|[]byte|json.Number) for EVERY raw value;
       datetime(time|none|string|[]byte); string(time), numeric / timestamp of time and bool …).
     * `coveredB`, `covered_of_table` — the summary in the words of `Tables.selfReadable`,
       `SelfReadable.WellTyped`, `Tables.inDomain`.
     * `gen_free_cells` — undeclared members need NO hypothesis under the regenerated tables
       (`Canon`: what `handledelim` builds is the value of a tree without repeated names).
     * `gen_line_fixed_point`, `…_same_columns`, `…_table` — the line-level theorems;
       `created_cell`, `gen_imported_auto_none` — what the emitted row holds;
       `gen_line_fixed_point_auto_columns`, `gen_untemplated_fixed_point` — templates of auto /
       hidden columns: every accepted line is a fixed point, nothing asked of the line.
  3. `Swallowed.swallowed_cast_line` (the emitted `{"c":""}` is REJECTED by the second pass),
     `IllFormed.ill_formed_line` (the emitted `"\ufffd"` is accepted and re-emitted as the raw
     character): the hypotheses are needed at line level.  `offset-24-60`: cell level
     (`SelfReadable.datetime_str_offset_25h_counterexample`).
  4. `Demo`: columns `n` numeric(int16), `d` date, line `{"d":"2020-01-02","n":300,"x":[1]}` —
     both passes computed, every hypothesis of the general theorems discharged.
-/
import Model.Tables
import Model.Value
import Model.Template
import Model.RowPrint
import Model.CastGen
import Proofs.CastTyped
import Proofs.Pairings
import Proofs.SelfReadable
import Proofs.JsonPrint
import Proofs.Order
import Proofs.RoundTrip
import Proofs.RowRoundTrip

namespace Jl.LineFixedPoint
open Jl Jl.Value Jl.Template Jl.RowPrint Jl.JsonPrint Jl.JsonQuote Cast

set_option linter.unusedSimpArgs false

/-! ### Plumbing: cells, lookups -/

theorem newValue_cell {env : Env} {x : Dyn} {f : Format} {ty : Ty} {c : Val}
    (h : newValue env x f ty = .ok c) : ∃ raw, c = .cell raw f ty := by
  unfold newValue at h
  split at h
  · cases h; exact ⟨_, rfl⟩
  · cases h
  · cases h; exact ⟨_, rfl⟩
  · cases h

theorem importVal_cell (env : Env) (raw : Dyn) (f : Format) (ty : Ty) (d : Dyn) :
    importVal env (.cell raw f ty) d = importCell env f ty d := by
  simp only [importVal, importInto]


theorem mem_keys_of_lookup {o : List (Bytes × Val)} {k : Bytes} {c : Val}
    (h : OMap.lookup o k = some c) : k ∈ OMap.keys o := by
  apply Classical.byContradiction
  intro hn
  rw [OMap.lookup_none_of_not_mem o k hn] at h
  cases h

theorem lookup_cons_ne {k0 k : Bytes} (c0 : Val) (t : List (Bytes × Val)) (h : ¬ k0 = k) :
    OMap.lookup ((k0, c0) :: t) k = OMap.lookup t k := by
  rw [OMap.lookup]; simp only [h, if_false]

theorem lookup_cons_self (k0 : Bytes) (c0 : Val) (t : List (Bytes × Val)) :
    OMap.lookup ((k0, c0) :: t) k0 = some c0 := by
  rw [OMap.lookup]; simp

theorem mem_of_lookup {o : List (Bytes × Val)} {k : Bytes} {c : Val}
    (h : OMap.lookup o k = some c) : (k, c) ∈ o := by
  induction o with
  | nil => cases h
  | cons a t ih =>
    obtain ⟨k0, c0⟩ := a
    rw [OMap.lookup] at h
    split at h
    · rename_i hk
      cases h; subst hk; exact List.mem_cons_self
    · exact List.mem_cons_of_mem _ (ih h)

theorem lookup_of_mem {o : List (Bytes × Val)} {k : Bytes} {c : Val}
    (hnd : (OMap.keys o).Nodup) (h : (k, c) ∈ o) : OMap.lookup o k = some c := by
  induction o with
  | nil => cases h
  | cons a t ih =>
    obtain ⟨k0, c0⟩ := a
    rw [Order.keys_cons, List.nodup_cons] at hnd
    rw [OMap.lookup]
    rcases List.mem_cons.mp h with h | h
    · cases h; simp
    · have hk : k ∈ OMap.keys t := List.mem_map_of_mem (f := Prod.fst) h
      have : ¬ k0 = k := fun e => hnd.1 (e ▸ hk)
      simp only [this, if_false]
      exact ih hnd.2 h

/-! ### `CloneRow`, pointwise -/

theorem cloneInto_lookup (env : Env) (r : List (Bytes × Val)) :
    ∀ (acc r' : List (Bytes × Val)), cloneInto env acc r = .ok r' → (OMap.keys r).Nodup →
      ∀ k, (k ∉ OMap.keys r → OMap.lookup r' k = OMap.lookup acc k) ∧
        (∀ v, OMap.lookup r k = some v →
          ∃ c0, cloneValue env v = .ok c0 ∧ OMap.lookup r' k = some c0) := by
  induction r with
  | nil =>
    intro acc r' h _ k
    simp only [cloneInto, Outcome.ok.injEq] at h
    subst h
    exact ⟨fun _ => rfl, fun v hv => by cases hv⟩
  | cons kv rest ih =>
    intro acc r' h hnd k
    obtain ⟨k0, v0⟩ := kv
    rw [Order.keys_cons, List.nodup_cons] at hnd
    simp only [cloneInto] at h
    split at h
    · rename_i c hc
      obtain ⟨ih1, ih2⟩ := ih _ _ h hnd.2 k
      constructor
      · intro hk
        rw [Order.keys_cons, List.mem_cons, not_or] at hk
        rw [ih1 hk.2, upsert, OMap.lookup_upsert, if_neg hk.1]
      · intro v hv
        by_cases hk : k0 = k
        · subst hk
          rw [lookup_cons_self] at hv
          cases hv
          refine ⟨c, hc, ?_⟩
          rw [ih1 hnd.1, upsert, OMap.lookup_upsert, if_pos rfl]
        · rw [lookup_cons_ne _ _ hk] at hv
          exact ih2 v hv
    · cases h
    · cases h

/-- The clone of a row with distinct keys holds, at every key, the clone of the cell. -/
theorem cloneRow_lookup (env : Env) (r r' : List (Bytes × Val)) (h : cloneRow env r = .ok r')
    (hnd : (OMap.keys r).Nodup) (k : Bytes) (v : Val) (hv : OMap.lookup r k = some v) :
    ∃ c0, cloneValue env v = .ok c0 ∧ OMap.lookup r' k = some c0 :=
  (cloneInto_lookup env r [] r' h hnd k).2 v hv

/-! ### `parseobject` and `CreateRow`'s fill, forwards: from what each member does to the row -/

theorem parseMember_spec (env : Env) (o : List (Bytes × Val)) (k : Bytes) (d : Dyn)
    (h : ∀ c, OMap.lookup o k = some c → ∃ c1, importVal env c d = .ok (c1, none)) :
    ∃ cn, parseMember env o k d = .ok (upsert o k cn, none) ∧
      (∀ c, OMap.lookup o k = some c → importVal env c d = .ok (cn, none)) ∧
      (OMap.lookup o k = none → cn = Cells.autoCell d) := by
  cases hl : OMap.lookup o k with
  | none =>
    refine ⟨Cells.autoCell d, ?_, fun c hc => (by cases hc), fun _ => rfl⟩
    simp only [parseMember, lookup, hl]
  | some c =>
    obtain ⟨c1, hc1⟩ := h c hl
    refine ⟨c1, ?_, fun c' hc' => (by cases hc'; exact hc1), fun hn => (by cases hn)⟩
    simp only [parseMember, lookup, hl, hc1]

theorem parseMembers_spec (env : Env) : ∀ (l : List (Bytes × Dyn)) (o : List (Bytes × Val)),
    (l.map Prod.fst).Nodup →
    (∀ k d c, (k, d) ∈ l → OMap.lookup o k = some c → ∃ c1, importVal env c d = .ok (c1, none)) →
    ∃ o', parseMembers env o l = .ok (o', none) ∧
      ∀ k, (k ∉ l.map Prod.fst → OMap.lookup o' k = OMap.lookup o k) ∧
        (∀ d, (k, d) ∈ l → ∃ cn, OMap.lookup o' k = some cn ∧
          (∀ c, OMap.lookup o k = some c → importVal env c d = .ok (cn, none)) ∧
          (OMap.lookup o k = none → cn = Cells.autoCell d))
  | [], o, _, _ => ⟨o, by simp [parseMembers], fun k => ⟨fun _ => rfl, fun d hd => by cases hd⟩⟩
  | (k0, d0) :: l, o, hnd, himp => by
    simp only [List.map_cons, List.nodup_cons] at hnd
    obtain ⟨cn, hstep, hcn1, hcn2⟩ := parseMember_spec env o k0 d0
      (fun c hc => himp k0 d0 c List.mem_cons_self hc)
    have hne : ∀ k d, (k, d) ∈ l → ¬ k = k0 := by
      intro k d hm e
      subst e
      exact hnd.1 (List.mem_map_of_mem (f := Prod.fst) hm)
    obtain ⟨o', hrest, hpt⟩ := parseMembers_spec env l (upsert o k0 cn) hnd.2 (by
      intro k d c hm hc
      rw [upsert, OMap.lookup_upsert, if_neg (hne k d hm)] at hc
      exact himp k d c (List.mem_cons_of_mem _ hm) hc)
    refine ⟨o', by rw [parseMembers, hstep]; exact hrest, fun k => ⟨?_, ?_⟩⟩
    · intro hk
      simp only [List.map_cons, List.mem_cons, not_or] at hk
      rw [(hpt k).1 hk.2, upsert, OMap.lookup_upsert, if_neg hk.1]
    · intro d hd
      rcases List.mem_cons.mp hd with hd | hd
      · cases hd
        refine ⟨cn, ?_, hcn1, hcn2⟩
        rw [(hpt k0).1 hnd.1, upsert, OMap.lookup_upsert, if_pos rfl]
      · obtain ⟨cn', h1, h2, h3⟩ := (hpt k).2 d hd
        have hk := hne k d hd
        rw [upsert, OMap.lookup_upsert, if_neg hk] at h2 h3
        exact ⟨cn', h1, h2, h3⟩

theorem fill_spec (env : Env) (row : List (Bytes × Val)) (k : Bytes) (x : Dyn)
    (h : ∀ c, OMap.lookup row k = some c →
      ∃ c2, newValue env x (Cells.format c) (Cells.rawType c) = .ok c2) :
    ∃ cn, fill env row k x = .ok (upsert row k cn) ∧
      (∀ c, OMap.lookup row k = some c → newValue env x (Cells.format c) (Cells.rawType c) = .ok cn) ∧
      (OMap.lookup row k = none → cn = Cells.autoCell x) := by
  cases hl : OMap.lookup row k with
  | none =>
    refine ⟨Cells.autoCell x, ?_, fun c hc => (by cases hc), fun _ => rfl⟩
    simp only [fill, lookup, hl]
  | some c =>
    obtain ⟨c2, hc2⟩ := h c hl
    refine ⟨c2, ?_, fun c' hc' => (by cases hc'; exact hc2), fun hn => (by cases hn)⟩
    simp only [fill, lookup, hl, hc2]

theorem fillPairs_spec (env : Env) : ∀ (l : List (Bytes × Dyn)) (o : List (Bytes × Val)),
    (l.map Prod.fst).Nodup →
    (∀ k x c, (k, x) ∈ l → OMap.lookup o k = some c →
      ∃ c2, newValue env x (Cells.format c) (Cells.rawType c) = .ok c2) →
    ∃ o', fillPairs env o l = .ok o' ∧
      ∀ k, (k ∉ l.map Prod.fst → OMap.lookup o' k = OMap.lookup o k) ∧
        (∀ x, (k, x) ∈ l → ∃ cn, OMap.lookup o' k = some cn ∧
          (∀ c, OMap.lookup o k = some c →
            newValue env x (Cells.format c) (Cells.rawType c) = .ok cn) ∧
          (OMap.lookup o k = none → cn = Cells.autoCell x))
  | [], o, _, _ => ⟨o, by simp [fillPairs], fun k => ⟨fun _ => rfl, fun d hd => by cases hd⟩⟩
  | (k0, x0) :: l, o, hnd, hnv => by
    simp only [List.map_cons, List.nodup_cons] at hnd
    obtain ⟨cn, hstep, hcn1, hcn2⟩ := fill_spec env o k0 x0
      (fun c hc => hnv k0 x0 c List.mem_cons_self hc)
    have hne : ∀ k d, (k, d) ∈ l → ¬ k = k0 := by
      intro k d hm e
      subst e
      exact hnd.1 (List.mem_map_of_mem (f := Prod.fst) hm)
    obtain ⟨o', hrest, hpt⟩ := fillPairs_spec env l (upsert o k0 cn) hnd.2 (by
      intro k d c hm hc
      rw [upsert, OMap.lookup_upsert, if_neg (hne k d hm)] at hc
      exact hnv k d c (List.mem_cons_of_mem _ hm) hc)
    refine ⟨o', by rw [fillPairs, hstep]; exact hrest, fun k => ⟨?_, ?_⟩⟩
    · intro hk
      simp only [List.map_cons, List.mem_cons, not_or] at hk
      rw [(hpt k).1 hk.2, upsert, OMap.lookup_upsert, if_neg hk.1]
    · intro d hd
      rcases List.mem_cons.mp hd with hd | hd
      · cases hd
        refine ⟨cn, ?_, hcn1, hcn2⟩
        rw [(hpt k0).1 hnd.1, upsert, OMap.lookup_upsert, if_pos rfl]
      · obtain ⟨cn', h1, h2, h3⟩ := (hpt k).2 d hd
        have hk := hne k d hd
        rw [upsert, OMap.lookup_upsert, if_neg hk] at h2 h3
        exact ⟨cn', h1, h2, h3⟩

/-- A declared cell keeps its descriptor through `CreateRow`'s fill. -/
theorem fillPairs_desc (env : Env) : ∀ (kvs : List (Bytes × Dyn)) (row row' : List (Bytes × Val)),
    fillPairs env row kvs = .ok row' →
    ∀ k raw f ty, OMap.lookup row k = some (.cell raw f ty) →
      ∃ raw', OMap.lookup row' k = some (.cell raw' f ty)
  | [], row, row', h, k, raw, f, ty, hk => by
    simp only [fillPairs, Outcome.ok.injEq] at h
    subst h; exact ⟨raw, hk⟩
  | (k0, x) :: kvs, row, row', h, k, raw, f, ty, hk => by
    simp only [fillPairs] at h
    split at h
    · rename_i r1 h1
      have : ∃ raw1, OMap.lookup r1 k = some (.cell raw1 f ty) := by
        unfold fill at h1
        split at h1
        · rename_i c hc
          split at h1
          · rename_i c' hc'
            cases h1
            rw [upsert, OMap.lookup_upsert]
            by_cases hkk : k = k0
            · subst hkk
              rw [lookup, hk] at hc
              cases hc
              obtain ⟨raw1, rfl⟩ := newValue_cell hc'
              exact ⟨raw1, by simp [Cells.format, Cells.rawType]⟩
            · rw [if_neg hkk]; exact ⟨raw, hk⟩
          · cases h1
          · cases h1
        · rename_i hc
          cases h1
          rw [upsert, OMap.lookup_upsert]
          by_cases hkk : k = k0
          · subst hkk
            rw [lookup, hk] at hc
            cases hc
          · rw [if_neg hkk]; exact ⟨raw, hk⟩
      obtain ⟨raw1, hr1⟩ := this
      exact fillPairs_desc env kvs r1 row' h k raw1 f ty hr1
    · rename_i hne
      exact absurd h (hne row')

/-! ### What the reader delivers for a printed row -/

/-- What `handledelim` hands to `Import` for the printed cell (nil when it fails). -/
def readOf (env : Env) (c : Val) : Dyn :=
  match ofJV env (treeVal env c) with
  | .ok d => d
  | _ => .nil

theorem readOf_eq {env : Env} {c : Val} {d : Dyn} (h : ofJV env (treeVal env c) = .ok d) :
    readOf env c = d := by
  simp only [readOf, h]

def visible (ms : List (Bytes × Val)) : List (Bytes × Val) :=
  ms.filter fun kv => Cells.format kv.2 != .hidden

theorem visibleKeys_eq_map (ms : List (Bytes × Val)) :
    RowPrint.visibleKeys ms = (visible ms).map Prod.fst := rfl

theorem ofJVMembers_tree (env : Env) : ∀ (ms : List (Bytes × Val)),
    (∀ k c, (k, c) ∈ ms → Cells.format c ≠ .hidden →
      sanitize k = k ∧ ∃ d, ofJV env (treeVal env c) = .ok d) →
    ofJVMembers env (treeMembers env (Members.ofList ms)) =
      .ok ((visible ms).map fun kv => (kv.1, readOf env kv.2))
  | [], _ => by
    simp only [Members.ofList, treeMembers, ofJVMembers, visible, List.filter_nil, List.map_nil]
  | (k, c) :: ms, h => by
    have ih := ofJVMembers_tree env ms (fun k' c' hm => h k' c' (List.mem_cons_of_mem _ hm))
    by_cases hh : Cells.format c = .hidden
    · simp only [Members.ofList, treeMembers, hh, beq_self_eq_true, if_true, ih, visible,
        List.filter_cons, bne_self_eq_false, Bool.false_eq_true, if_false]
    · obtain ⟨hk, d, hd⟩ := h k c List.mem_cons_self hh
      have hb : (Cells.format c == Format.hidden) = false := by simpa using hh
      have hb' : (Cells.format c != Format.hidden) = true := by simp [bne, hb]
      simp only [Members.ofList, treeMembers, hb, Bool.false_eq_true, if_false, ofJVMembers, hk, hd,
        ih, visible, List.filter_cons, hb', if_true, List.map_cons, readOf_eq hd]

/-! ### Two rows that print alike -/

/-- Two cells contribute the same bytes to a line: both hidden, or both visible and marshalled
    alike. -/
def PrintEq (env : Env) (a b : Val) : Prop :=
  (Cells.format a = .hidden ↔ Cells.format b = .hidden) ∧
  (Cells.format a ≠ .hidden → marshalVal env a = marshalVal env b)

theorem marshalMembers_congr (env : Env) : ∀ (a b : List (Bytes × Val)),
    OMap.keys a = OMap.keys b → (OMap.keys a).Nodup →
    (∀ k ca cb, OMap.lookup a k = some ca → OMap.lookup b k = some cb → PrintEq env ca cb) →
    marshalMembers env (Members.ofList a) = marshalMembers env (Members.ofList b)
  | [], [], _, _, _ => rfl
  | [], _ :: _, h, _, _ => by cases h
  | _ :: _, [], h, _, _ => by cases h
  | (k, ca) :: ta, (k', cb) :: tb, hk, hnd, hp => by
    rw [Order.keys_cons, Order.keys_cons] at hk
    injection hk with hk1 hk2
    subst hk1
    rw [Order.keys_cons, List.nodup_cons] at hnd
    obtain ⟨hpe1, hpe2⟩ := hp k ca cb (lookup_cons_self _ _ _) (lookup_cons_self _ _ _)
    have ih := marshalMembers_congr env ta tb hk2 hnd.2 (fun k2 c1 c2 h1 h2 => by
      have hne : ¬ k = k2 := fun e => hnd.1 (e ▸ mem_keys_of_lookup h1)
      exact hp k2 c1 c2 (by rw [lookup_cons_ne _ _ hne]; exact h1)
        (by rw [lookup_cons_ne _ _ hne]; exact h2))
    simp only [Members.ofList]
    by_cases hh : Cells.format ca = .hidden
    · rw [marshalMembers_hidden env _ _ _ hh, marshalMembers_hidden env _ _ _ (hpe1.mp hh), ih]
    · have hh' : Cells.format cb ≠ .hidden := fun e => hh (hpe1.mpr e)
      have hb : (Cells.format ca == Format.hidden) = false := by simpa using hh
      have hb' : (Cells.format cb == Format.hidden) = false := by simpa using hh'
      conv => lhs; rw [marshalMembers.eq_def]
      conv => rhs; rw [marshalMembers.eq_def]
      simp only [hb, hb', hpe2 hh, ih]

theorem marshalRow_congr (env : Env) (a b : List (Bytes × Val))
    (hk : OMap.keys a = OMap.keys b) (hnd : (OMap.keys a).Nodup)
    (hp : ∀ k ca cb, OMap.lookup a k = some ca → OMap.lookup b k = some cb → PrintEq env ca cb) :
    marshalRow env (Members.ofList a) = marshalRow env (Members.ofList b) := by
  unfold marshalRow
  conv => lhs; rw [marshalVal.eq_def]
  conv => rhs; rw [marshalVal.eq_def]
  simp only [marshalMembers_congr env a b hk hnd hp]

/-! ### Key lists -/

theorem appendNew_split {K0 A E : List Bytes} (hA : ∀ k ∈ A, k ∈ K0) (hE : ∀ k ∈ E, k ∉ K0)
    (hnd : (A ++ E).Nodup) : Order.appendNew K0 (A ++ E) = K0 ++ E := by
  rw [Order.appendNew_eq_dedup, Order.dedup_of_nodup hnd, List.filter_append]
  have h1 : A.filter (fun k => decide (k ∉ K0)) = [] := by
    rw [List.filter_eq_nil_iff]
    intro k hk
    simp [hA k hk]
  have h2 : E.filter (fun k => decide (k ∉ K0)) = E := by
    rw [List.filter_eq_self]
    intro k hk
    simp [hE k hk]
  rw [h1, h2, List.nil_append]


/-! ### 1. The generic lifting theorem -/

theorem format_cell (raw : Dyn) (f : Format) (ty : Ty) : Cells.format (.cell raw f ty) = f := rfl
theorem rawType_cell (raw : Dyn) (f : Format) (ty : Ty) : Cells.rawType (.cell raw f ty) = ty := rfl
theorem raw_cell (raw : Dyn) (f : Format) (ty : Ty) : Cells.raw (.cell raw f ty) = raw := by
  rw [Cells.raw]

/-- A printed cell `c` of a column declared `(f, ty)` in the output template is a fixed point:
    what the reader hands to `Import` for its text (`d`), imported under `(f, ty)` (`c1`) and
    cloned by `CreateRow` (`NewValue(c1.Raw(), f, ty)`, `c2`), is marshalled to the same bytes. -/
def CellFixed (env : Env) (f : Format) (ty : Ty) (c : Val) : Prop :=
  ∃ d c1 c2, ofJV env (treeVal env c) = .ok d ∧ importCell env f ty d = .ok (c1, none) ∧
    newValue env (Cells.raw c1) f ty = .ok c2 ∧ marshalVal env c2 = marshalVal env c

/-- A printed cell `c` under a name the output template does not declare: what the reader
    delivers for its text, stored in a fresh Auto cell, is marshalled to the same bytes. -/
def FreeFixed (env : Env) (c : Val) : Prop :=
  ∃ d, ofJV env (treeVal env c) = .ok d ∧ marshalVal env (Cells.autoCell d) = marshalVal env c

theorem unmarshalInto_of (env : Env) (o o' : List (Bytes × Val)) (text : Bytes) (ms : JVMembers)
    (l : List (Bytes × Dyn)) (hu : Json.unmarshal text = (ms, true))
    (hl : ofJVMembers env ms = .ok l) (hp : parseMembers env o l = .ok (o', none)) :
    unmarshalInto env o text = .ok (o', none) := by
  simp only [unmarshalInto, hu, hl, hp, if_true]

theorem mem_readList {env : Env} {row : List (Bytes × Val)} {k : Bytes} {d : Dyn}
    (h : (k, d) ∈ (visible row).map fun kv => (kv.1, readOf env kv.2)) :
    ∃ c, (k, c) ∈ row ∧ Cells.format c ≠ .hidden ∧ d = readOf env c := by
  obtain ⟨⟨k', c⟩, hm, he⟩ := List.mem_map.mp h
  simp only [Prod.mk.injEq] at he
  obtain ⟨rfl, rfl⟩ := he
  simp only [visible, List.mem_filter, bne_iff_ne, ne_eq] at hm
  exact ⟨c, hm.1, hm.2, rfl⟩

theorem mem_map_raw {r : List (Bytes × Val)} {k : Bytes} {x : Dyn}
    (h : (k, x) ∈ r.map fun (k, c) => (k, Cells.raw c)) : ∃ c, (k, c) ∈ r ∧ x = Cells.raw c := by
  obtain ⟨⟨k', c⟩, hm, he⟩ := List.mem_map.mp h
  simp only [Prod.mk.injEq] at he
  obtain ⟨rfl, rfl⟩ := he
  exact ⟨c, hm, rfl⟩

/-- **Generic lifting theorem.**  `row'` is the row the exporter made (under `to`) of an imported
    row `r`, and `body` its text.  If the columns of `to` have distinct names, every emitted name
    is delivered unchanged by the reader, every visible declared cell is `CellFixed` under its
    column's descriptor, every undeclared cell is `FreeFixed`, and hidden prototype cells can be
    cloned again, then `body` is accepted under `(to, to)` and written again byte for byte. -/
theorem second_pass (env : Env) (hx : FloatTextOK env.ext) (to : Tmpl)
    (r row' : List (Bytes × Val)) (body : Bytes)
    (hto : (OMap.keys to).Nodup) (hr : (OMap.keys r).Nodup)
    (hcr : createRow env to (.val (.row (Members.ofList r))) = .ok (row', none))
    (hm : marshalRow env (Members.ofList row') = .ok body)
    (hkeys : ∀ k ∈ visibleKeys row', sanitize k = k)
    (hhid : ∀ k v c0, OMap.lookup to k = some v → Cells.format v = .hidden →
      cloneValue env v = .ok c0 → ∃ c2, cloneValue env c0 = .ok c2)
    (hdecl : ∀ k v c, OMap.lookup to k = some v → Cells.format v ≠ .hidden →
      OMap.lookup row' k = some c → CellFixed env (Cells.format v) (Cells.rawType v) c)
    (hfree : ∀ k c, k ∉ OMap.keys to → OMap.lookup row' k = some c → FreeFixed env c) :
    jlLine env to to body = .ok (body ++ [0x0A], none) := by
  obtain ⟨row0, h0, hfill, _⟩ := Order.createRow_row_ok env to r row' none hcr
  have hK0 : OMap.keys row0 = OMap.keys to := Order.cloneRow_keys_of_nodup env to row0 h0 hto
  have hnd0 : (OMap.keys row0).Nodup := hK0 ▸ hto
  have hk' : OMap.keys row' = Order.appendNew (OMap.keys row0) (OMap.keys r) := by
    rw [Order.fillPairs_keys env _ row0 row' hfill, Order.keys_map_raw]
  have hnd' : (OMap.keys row').Nodup := by rw [hk']; exact Order.nodup_appendNew _ hnd0
  -- the shape of the declared cells
  have hshape : ∀ k v, OMap.lookup to k = some v → ∃ raw0 raw',
      cloneValue env v = .ok (.cell raw0 (Cells.format v) (Cells.rawType v)) ∧
      OMap.lookup row0 k = some (.cell raw0 (Cells.format v) (Cells.rawType v)) ∧
      OMap.lookup row' k = some (.cell raw' (Cells.format v) (Cells.rawType v)) := by
    intro k v hv
    obtain ⟨c0, hc0, hl0⟩ := cloneRow_lookup env to row0 h0 hto k v hv
    obtain ⟨raw0, rfl⟩ := newValue_cell hc0
    obtain ⟨raw', hl'⟩ := fillPairs_desc env _ row0 row' hfill k raw0 _ _ hl0
    exact ⟨raw0, raw', hc0, hl0, hl'⟩
  have hundecl : ∀ k c, k ∉ OMap.keys to → OMap.lookup row' k = some c → Cells.format c = .auto := by
    intro k c hk hc
    have := (Order.fillPairs_formatAt env _ row0 row' hfill k).2 (hK0 ▸ hk) (mem_keys_of_lookup hc)
    simpa [Order.formatAt, hc] using this
  -- (1) every visible cell is read
  have hread : ∀ k c, (k, c) ∈ row' → Cells.format c ≠ .hidden →
      sanitize k = k ∧ ∃ d, ofJV env (treeVal env c) = .ok d := by
    intro k c hmem hvis
    have hl := lookup_of_mem hnd' hmem
    refine ⟨hkeys k ?_, ?_⟩
    · rw [visibleKeys_eq_map]
      exact List.mem_map_of_mem (f := Prod.fst)
        (List.mem_filter.mpr ⟨hmem, by simpa using hvis⟩)
    · by_cases hk : k ∈ OMap.keys to
      · obtain ⟨v, hv⟩ := Order.lookup_isSome_of_mem to k hk
        obtain ⟨_, raw', _, _, hl'⟩ := hshape k v hv
        rw [hl] at hl'
        cases hl'
        obtain ⟨d, _, _, hd, _⟩ := hdecl k v _ hv hvis hl
        exact ⟨d, hd⟩
      · obtain ⟨d, hd, _⟩ := hfree k c hk hl
        exact ⟨d, hd⟩
  have hu := unmarshal_marshalRow env hx _ body hm
  have hl := ofJVMembers_tree env row' hread
  generalize hldef : ((visible row').map fun kv => (kv.1, readOf env kv.2)) = l at hl
  have hlk : l.map Prod.fst = visibleKeys row' := by
    rw [← hldef, visibleKeys_eq_map, List.map_map]; rfl
  have hlnd : (l.map Prod.fst).Nodup := by
    rw [hlk]; exact Order.emitted_keys_nodup env to r row' hcr
  have hlmem : ∀ k d, (k, d) ∈ l → ∃ c, OMap.lookup row' k = some c ∧ Cells.format c ≠ .hidden ∧
      ofJV env (treeVal env c) = .ok d := by
    intro k d hd
    rw [← hldef] at hd
    obtain ⟨c, hmem, hvis, rfl⟩ := mem_readList hd
    obtain ⟨_, d', hd'⟩ := hread k c hmem hvis
    exact ⟨c, lookup_of_mem hnd' hmem, hvis, by rw [readOf_eq hd']; exact hd'⟩
  have hmeml : ∀ k c, OMap.lookup row' k = some c → Cells.format c ≠ .hidden →
      ∃ d, (k, d) ∈ l ∧ ofJV env (treeVal env c) = .ok d := by
    intro k c hc hvis
    obtain ⟨_, d, hd⟩ := hread k c (mem_of_lookup hc) hvis
    refine ⟨d, ?_, hd⟩
    rw [← hldef]
    refine List.mem_map.mpr ⟨(k, c), List.mem_filter.mpr ⟨mem_of_lookup hc, by simpa using hvis⟩, ?_⟩
    simp only [readOf_eq hd]
  -- (2) the second import
  obtain ⟨r2, hp2, hpt2⟩ := parseMembers_spec env l row0 hlnd (by
    intro k d c0 hd hc0
    obtain ⟨c, hc, hvis, hdc⟩ := hlmem k d hd
    have hk : k ∈ OMap.keys to := hK0 ▸ mem_keys_of_lookup hc0
    obtain ⟨v, hv⟩ := Order.lookup_isSome_of_mem to k hk
    obtain ⟨raw0, raw', _, hl0, hl'⟩ := hshape k v hv
    rw [hc0] at hl0; cases hl0
    rw [hc] at hl'; cases hl'
    obtain ⟨d', c1, _, hd', hi, _, _⟩ := hdecl k v _ hv hvis hc
    rw [hdc] at hd'; cases hd'
    exact ⟨c1, by rw [importVal_cell]; exact hi⟩)
  have hget2 : getRow env to body = .ok (r2, none) := by
    simp only [getRow, createRowEmpty, h0]
    exact unmarshalInto_of env row0 r2 body _ l hu hl hp2
  -- key lists
  have hE : ∀ k ∈ (OMap.keys r).filter (fun k => decide (k ∉ OMap.keys row0)), k ∉ OMap.keys row0 := by
    intro k hk; simpa using (List.mem_filter.mp hk).2
  have hk'' : OMap.keys row' =
      OMap.keys row0 ++ (OMap.keys r).filter (fun k => decide (k ∉ OMap.keys row0)) := by
    rw [hk', Order.appendNew_eq_dedup, Order.dedup_of_nodup hr]
  have hvk : visibleKeys row' =
      (OMap.keys row0).filter (fun k => Order.formatAt row' k != some .hidden) ++
        (OMap.keys r).filter (fun k => decide (k ∉ OMap.keys row0)) := by
    rw [Order.visibleKeys_eq row' hnd', hk'', List.filter_append]
    congr 1
    rw [List.filter_eq_self]
    intro k hk
    have hkn := hE k hk
    have hkm : k ∈ OMap.keys row' := by rw [hk'']; exact List.mem_append_right _ hk
    obtain ⟨c, hc⟩ := Order.lookup_isSome_of_mem row' k hkm
    have := hundecl k c (hK0 ▸ hkn) hc
    simp [Order.formatAt, hc, this]
  have hkr2 : OMap.keys r2 = OMap.keys row' := by
    rw [Order.parseMembers_keys_ok env l row0 r2 hp2, hlk, hvk, hk'']
    apply appendNew_split
    · intro k hk; exact (List.mem_filter.mp hk).1
    · exact hE
    · rw [← hvk]; exact Order.emitted_keys_nodup env to r row' hcr
  have hndr2 : (OMap.keys r2).Nodup := hkr2 ▸ hnd'
  -- (3) per key: the cell read back, its clone, and how the clone prints
  have hstep : ∀ k c, OMap.lookup row' k = some c → ∃ cr, OMap.lookup r2 k = some cr ∧
      (∀ c0, OMap.lookup row0 k = some c0 →
        ∃ c2, newValue env (Cells.raw cr) (Cells.format c0) (Cells.rawType c0) = .ok c2 ∧
          PrintEq env c2 c) ∧
      (OMap.lookup row0 k = none → PrintEq env (Cells.autoCell (Cells.raw cr)) c) := by
    intro k c hc
    by_cases hk : k ∈ OMap.keys to
    · obtain ⟨v, hv⟩ := Order.lookup_isSome_of_mem to k hk
      obtain ⟨raw0, raw', hcl, hl0, hl'⟩ := hshape k v hv
      rw [hc] at hl'; cases hl'
      by_cases hvis : Cells.format v = .hidden
      · -- hidden: absent from the text, the prototype cell stays
        have hnl : k ∉ l.map Prod.fst := by
          intro hkl
          obtain ⟨⟨k', d⟩, hd, rfl⟩ := List.mem_map.mp hkl
          obtain ⟨c', hc', hvis', _⟩ := hlmem _ d hd
          rw [hc] at hc'; cases hc'
          exact hvis' (by rw [format_cell]; exact hvis)
        refine ⟨_, (by rw [(hpt2 k).1 hnl]; exact hl0), ?_, fun hn => (by rw [hl0] at hn; cases hn)⟩
        intro c0 hc0
        rw [hl0] at hc0; cases hc0
        obtain ⟨c2, hc2⟩ := hhid k v _ hv hvis hcl
        refine ⟨c2, hc2, ?_⟩
        obtain ⟨raw2, rfl⟩ := newValue_cell hc2
        exact ⟨by simp only [format_cell, hvis], fun h => absurd (by simp only [format_cell, hvis]) h⟩
      · obtain ⟨d, c1, c2, hd, hi, hn, hmv⟩ := hdecl k v _ hv hvis hc
        obtain ⟨d', hd'l, hd'⟩ := hmeml k _ hc (by rw [format_cell]; exact hvis)
        rw [hd] at hd'; cases hd'
        obtain ⟨cn, hcn, hcn1, _⟩ := (hpt2 k).2 d hd'l
        have := hcn1 _ hl0
        rw [importVal_cell, hi] at this
        cases this
        refine ⟨c1, hcn, ?_, fun hn => (by rw [hl0] at hn; cases hn)⟩
        intro c0 hc0
        rw [hl0] at hc0; cases hc0
        refine ⟨c2, hn, ?_⟩
        obtain ⟨raw2, rfl⟩ := newValue_cell hn
        exact ⟨by simp only [format_cell], fun _ => hmv⟩
    · have hauto := hundecl k c hk hc
      have hvis : Cells.format c ≠ .hidden := by rw [hauto]; decide
      obtain ⟨d, hd, hmv⟩ := hfree k c hk hc
      obtain ⟨d', hd'l, hd'⟩ := hmeml k c hc hvis
      rw [hd] at hd'; cases hd'
      have hn0 : OMap.lookup row0 k = none := OMap.lookup_none_of_not_mem row0 k (hK0 ▸ hk)
      obtain ⟨cn, hcn, _, hcn2⟩ := (hpt2 k).2 d hd'l
      have := hcn2 hn0
      subst this
      refine ⟨_, hcn, fun c0 hc0 => (by rw [hn0] at hc0; cases hc0), fun _ => ?_⟩
      have hraw : Cells.raw (Cells.autoCell d) = d := raw_cell _ _ _
      rw [hraw]
      refine ⟨?_, fun _ => hmv⟩
      rw [hauto]
      simp only [Cells.autoCell, format_cell]
  -- (4) the second `CreateRow`
  have hlook2 : ∀ k cr, (k, cr) ∈ r2 → ∃ c, OMap.lookup row' k = some c := by
    intro k cr hmem
    have : k ∈ OMap.keys row' := hkr2 ▸ List.mem_map_of_mem (f := Prod.fst) hmem
    exact Order.lookup_isSome_of_mem row' k this
  obtain ⟨row'', hfill2, hpt3⟩ := fillPairs_spec env (r2.map fun (k, c) => (k, Cells.raw c)) row0
    (by rw [Order.keys_map_raw]; exact hndr2) (by
      intro k x c0 hx' hc0
      obtain ⟨cr, hmem, rfl⟩ := mem_map_raw hx'
      obtain ⟨c, hc⟩ := hlook2 k cr hmem
      obtain ⟨cr', hcr', hA, _⟩ := hstep k c hc
      rw [lookup_of_mem hndr2 hmem] at hcr'; cases hcr'
      obtain ⟨c2, hc2, _⟩ := hA c0 hc0
      exact ⟨c2, hc2⟩)
  have hcr2 : createRow env to (.val (.row (Members.ofList r2))) = .ok (row'', none) := by
    simp only [createRow, h0, Members.toList_ofList, hfill2]
  have hkr'' : OMap.keys row'' = OMap.keys row' := by
    rw [Order.fillPairs_keys env _ row0 row'' hfill2, Order.keys_map_raw, hkr2, hk'']
    apply appendNew_split (fun k hk => hk) hE
    rw [← hk'']; exact hnd'
  have hm2 : marshalRow env (Members.ofList row'') = .ok body := by
    rw [marshalRow_congr env row'' row' hkr'' (hkr'' ▸ hnd') ?_]
    · exact hm
    · intro k c'' c hc'' hc
      obtain ⟨cr, hcr', hA, hB⟩ := hstep k c hc
      obtain ⟨cn, hcn, hcn1, hcn2⟩ := (hpt3 k).2 (Cells.raw cr)
        (List.mem_map.mpr ⟨(k, cr), mem_of_lookup hcr', rfl⟩)
      rw [hc''] at hcn; cases hcn
      cases h0k : OMap.lookup row0 k with
      | none =>
        rw [hcn2 h0k]
        exact hB h0k
      | some c0 =>
        obtain ⟨c2, hc2, hpe⟩ := hA c0 h0k
        have := hcn1 c0 h0k
        rw [hc2] at this; cases this
        exact hpe
  simp only [jlLine, hget2, exportLine, hcr2, hm2]


/-! ### The statement at `jlLine` level, for any environment -/

theorem keys_of_readerStrings : ∀ (t : JVMembers), RoundTrip.ReaderStrings t →
    ∀ k ∈ t.toList.map Prod.fst, sanitize k = k
  | .nil, _, k, hk => by simp [JVMembers.toList] at hk
  | .cons k0 v ms, h, k, hk => by
    simp only [RoundTrip.ReaderStrings, RoundTrip.AllM] at h
    simp only [JVMembers.toList, List.map_cons, List.mem_cons] at hk
    rcases hk with rfl | hk
    · exact h.1
    · exact keys_of_readerStrings ms h.2.2 k hk

/-- Every member name of a line is delivered `sanitize`-fixed by the reader. -/
theorem inputKeys_fixed (line : Bytes) : ∀ k ∈ Order.inputKeys line, sanitize k = k := by
  have : RoundTrip.ReaderStrings (Json.unmarshal line).1 :=
    RoundTrip.reader_strings (line := line) (t := (Json.unmarshal line).1) (b := (Json.unmarshal line).2) rfl
  exact keys_of_readerStrings _ this

/-- The keys of the emitted row: names of `to`, of `ti`, or of the input text. -/
theorem emitted_key_cases (env : Env) (ti to : Tmpl) (line : Bytes) (r row' : List (Bytes × Val))
    (hget : getRow env ti line = .ok (r, none))
    (hcr : createRow env to (.val (.row (Members.ofList r))) = .ok (row', none))
    (k : Bytes) (hk : k ∈ OMap.keys row') :
    k ∈ OMap.keys to ∨ k ∈ OMap.keys ti ∨ k ∈ Order.inputKeys line := by
  rw [Order.createRow_row_keys env to r row' hcr, Order.mem_appendNew, Order.mem_appendNew,
    Order.getRow_keys env ti line r hget, Order.mem_appendNew, Order.mem_appendNew] at hk
  rcases hk with (h | h) | (h | h) | h
  · cases h
  · exact .inl h
  · cases h
  · exact .inr (.inl h)
  · exact .inr (.inr h)

theorem visibleKeys_subset (row : List (Bytes × Val)) : ∀ k ∈ visibleKeys row, k ∈ OMap.keys row := by
  intro k hk
  rw [visibleKeys_eq_map] at hk
  obtain ⟨⟨k', c⟩, hm, rfl⟩ := List.mem_map.mp hk
  exact List.mem_map_of_mem (f := Prod.fst) (List.mem_filter.mp hm).1

/-- **Target 1, at `jlLine` level, any environment.**  An accepted line, output columns with
    distinct names, column names of both templates delivered unchanged by the reader; for the
    rows `r`, `row'` of the first pass (they are determined by the line): every visible declared
    cell `CellFixed`, every undeclared cell `FreeFixed`; hidden prototype cells clonable twice.
    Then the emitted body is accepted under `(to, to)` and re-emitted byte-identically. -/
theorem line_fixed_point (env : Env) (hx : FloatTextOK env.ext) (ti to : Tmpl) (line b : Bytes)
    (hto : (OMap.keys to).Nodup)
    (hsan_to : ∀ k ∈ OMap.keys to, sanitize k = k) (hsan_ti : ∀ k ∈ OMap.keys ti, sanitize k = k)
    (h : jlLine env ti to line = .ok (b, none))
    (hhid : ∀ k v c0, OMap.lookup to k = some v → Cells.format v = .hidden →
      cloneValue env v = .ok c0 → ∃ c2, cloneValue env c0 = .ok c2)
    (hcells : ∀ r row' body, getRow env ti line = .ok (r, none) →
      createRow env to (.val (.row (Members.ofList r))) = .ok (row', none) →
      marshalRow env (Members.ofList row') = .ok body →
      (∀ k v c, OMap.lookup to k = some v → Cells.format v ≠ .hidden →
        OMap.lookup row' k = some c → CellFixed env (Cells.format v) (Cells.rawType v) c) ∧
      (∀ k c, k ∉ OMap.keys to → OMap.lookup row' k = some c → FreeFixed env c)) :
    ∃ body, b = body ++ [0x0A] ∧ jlLine env to to body = .ok (b, none) := by
  obtain ⟨r, row', body, hget, hcr, hm, rfl⟩ := Order.jlLine_ok env ti to line b h
  obtain ⟨hdecl, hfree⟩ := hcells r row' body hget hcr hm
  refine ⟨body, rfl, second_pass env hx to r row' body hto
    (Order.getRow_keys_nodup env ti line r hget) hcr hm ?_ hhid hdecl hfree⟩
  intro k hk
  rcases emitted_key_cases env ti to line r row' hget hcr k (visibleKeys_subset row' k hk) with h | h | h
  · exact hsan_to k h
  · exact hsan_ti k h
  · exact inputKeys_fixed line k h


/-! ### Undeclared members: what the first pass stored is what the reader delivered -/

theorem parseMember_inv (env : Env) (o o1 : List (Bytes × Val)) (k : Bytes) (d : Dyn)
    (e : Option ErrClass) (h : parseMember env o k d = .ok (o1, e)) :
    ∃ cn, o1 = upsert o k cn ∧ (OMap.lookup o k = none → cn = Cells.autoCell d) := by
  unfold parseMember at h
  split at h
  · rename_i c hc
    split at h
    · simp only [Outcome.ok.injEq, Prod.mk.injEq] at h
      exact ⟨_, h.1.symm, fun hn => by rw [lookup, hn] at hc; cases hc⟩
    · cases h
    · cases h
  · simp only [Outcome.ok.injEq, Prod.mk.injEq] at h
    exact ⟨_, h.1.symm, fun _ => rfl⟩

/-- A name the row lacks and that occurs once among the members ends up in a fresh Auto cell
    holding the member's value. -/
theorem parseMembers_inv (env : Env) : ∀ (l : List (Bytes × Dyn)) (o o' : List (Bytes × Val)),
    parseMembers env o l = .ok (o', none) →
    ∀ k, (k ∉ l.map Prod.fst → OMap.lookup o' k = OMap.lookup o k) ∧
      (∀ d, (k, d) ∈ l → (l.map Prod.fst).count k = 1 → OMap.lookup o k = none →
        OMap.lookup o' k = some (Cells.autoCell d))
  | [], o, o', h, k => by
    simp only [parseMembers, Outcome.ok.injEq, Prod.mk.injEq] at h
    rw [← h.1]
    exact ⟨fun _ => rfl, fun d hd => by cases hd⟩
  | (k0, d0) :: l, o, o', h, k => by
    simp only [parseMembers] at h
    split at h
    · rename_i o1 h1
      obtain ⟨cn, rfl, hcn⟩ := parseMember_inv env o o1 k0 d0 none h1
      obtain ⟨ih1, ih2⟩ := parseMembers_inv env l _ o' h k
      constructor
      · intro hk
        simp only [List.map_cons, List.mem_cons, not_or] at hk
        rw [ih1 hk.2, upsert, OMap.lookup_upsert, if_neg hk.1]
      · intro d hd hcount hnone
        simp only [List.map_cons, List.count_cons] at hcount
        by_cases hk : k0 = k
        · subst hk
          have hc0 : (l.map Prod.fst).count k0 = 0 := by simpa using hcount
          have hnl : k0 ∉ l.map Prod.fst := List.count_eq_zero.mp hc0
          have hd0 : d = d0 := by
            rcases List.mem_cons.mp hd with hd | hd
            · cases hd; rfl
            · exact absurd (List.mem_map_of_mem (f := Prod.fst) hd) hnl
          rw [ih1 hnl, upsert, OMap.lookup_upsert, if_pos rfl, hcn hnone, hd0]
        · have hne : ¬ k = k0 := fun e => hk e.symm
          have hd' : (k, d) ∈ l := by
            rcases List.mem_cons.mp hd with hd | hd
            · cases hd; exact absurd rfl hk
            · exact hd
          have hbeq : (k0 == k) = false := by simpa using hk
          refine ih2 d hd' (by simpa [hbeq] using hcount) ?_
          rw [upsert, OMap.lookup_upsert, if_neg hne]
          exact hnone
    · rename_i r hne
      exact absurd h (hne o')

theorem fill_inv (env : Env) (row row1 : List (Bytes × Val)) (k : Bytes) (x : Dyn)
    (h : fill env row k x = .ok row1) :
    ∃ cn, row1 = upsert row k cn ∧ (OMap.lookup row k = none → cn = Cells.autoCell x) ∧
      (∀ c, OMap.lookup row k = some c →
        newValue env x (Cells.format c) (Cells.rawType c) = .ok cn) := by
  unfold fill at h
  split at h
  · rename_i c hc
    split at h
    · rename_i c' hc'
      cases h
      refine ⟨_, rfl, fun hn => (by rw [lookup, hn] at hc; cases hc), fun c0 hc0 => ?_⟩
      rw [lookup, hc0] at hc
      cases hc
      exact hc'
    · cases h
    · cases h
  · rename_i hc
    cases h
    exact ⟨_, rfl, fun _ => rfl, fun c0 hc0 => (by rw [lookup, hc0] at hc; cases hc)⟩

/-- `CreateRow`'s fill, backwards: a key absent from the pairs keeps its cell; an undeclared key
    gets a fresh Auto cell; a declared key the `NewValue` of the incoming raw value. -/
theorem fillPairs_inv (env : Env) : ∀ (l : List (Bytes × Dyn)) (o o' : List (Bytes × Val)),
    fillPairs env o l = .ok o' → (l.map Prod.fst).Nodup →
    ∀ k, (k ∉ l.map Prod.fst → OMap.lookup o' k = OMap.lookup o k) ∧
      (∀ x, (k, x) ∈ l → OMap.lookup o k = none → OMap.lookup o' k = some (Cells.autoCell x)) ∧
      (∀ x c, (k, x) ∈ l → OMap.lookup o k = some c →
        ∃ cn, newValue env x (Cells.format c) (Cells.rawType c) = .ok cn ∧ OMap.lookup o' k = some cn)
  | [], o, o', h, _, k => by
    simp only [fillPairs, Outcome.ok.injEq] at h
    subst h
    exact ⟨fun _ => rfl, fun d hd => (by cases hd), fun d c hd => (by cases hd)⟩
  | (k0, x0) :: l, o, o', h, hnd, k => by
    simp only [List.map_cons, List.nodup_cons] at hnd
    simp only [fillPairs] at h
    split at h
    · rename_i o1 h1
      obtain ⟨cn, rfl, hcn, hcn'⟩ := fill_inv env o o1 k0 x0 h1
      obtain ⟨ih1, ih2, ih3⟩ := fillPairs_inv env l _ o' h hnd.2 k
      refine ⟨?_, ?_, ?_⟩
      · intro hk
        simp only [List.map_cons, List.mem_cons, not_or] at hk
        rw [ih1 hk.2, upsert, OMap.lookup_upsert, if_neg hk.1]
      · intro x hx hnone
        rcases List.mem_cons.mp hx with hx1 | hx2
        · cases hx1
          rw [ih1 hnd.1, upsert, OMap.lookup_upsert, if_pos rfl, hcn hnone]
        · have hkl : k ∈ l.map Prod.fst := List.mem_map_of_mem (f := Prod.fst) hx2
          have hne : ¬ k = k0 := fun e => hnd.1 (e ▸ hkl)
          refine ih2 x hx2 ?_
          rw [upsert, OMap.lookup_upsert, if_neg hne]
          exact hnone
      · intro x c hx hsome
        rcases List.mem_cons.mp hx with hx1 | hx2
        · cases hx1
          refine ⟨cn, hcn' c hsome, ?_⟩
          rw [ih1 hnd.1, upsert, OMap.lookup_upsert, if_pos rfl]
        · have hkl : k ∈ l.map Prod.fst := List.mem_map_of_mem (f := Prod.fst) hx2
          have hne : ¬ k = k0 := fun e => hnd.1 (e ▸ hkl)
          refine ih3 x c hx2 ?_
          rw [upsert, OMap.lookup_upsert, if_neg hne]
          exact hsome
    · rename_i hne
      exact absurd h (hne o')

theorem ofJVMembers_mem (env : Env) : ∀ (ms : JVMembers) (l : List (Bytes × Dyn)),
    ofJVMembers env ms = .ok l → ∀ k v, (k, v) ∈ ms.toList → ∃ d, (k, d) ∈ l ∧ ofJV env v = .ok d
  | .nil, l, _, k, v, hm => by simp [JVMembers.toList] at hm
  | .cons k0 v0 ms, l, h, k, v, hm => by
    rw [ofJVMembers] at h
    split at h
    · rename_i d0 hd0
      split at h
      · rename_i rest hrest
        cases h
        simp only [JVMembers.toList, List.mem_cons, Prod.mk.injEq] at hm
        rcases hm with ⟨rfl, rfl⟩ | hm
        · exact ⟨d0, List.mem_cons_self, hd0⟩
        · obtain ⟨d, hd, hv⟩ := ofJVMembers_mem env ms rest hrest k v hm
          exact ⟨d, List.mem_cons_of_mem _ hd, hv⟩
      · cases h
      · cases h
    · cases h
    · cases h

/-- The cell the reader's value `v` (unique names below it, reader strings and numbers) lands in
    when no template declares its name is a fixed point: it is read back as the same value. -/
theorem freeFixed_reader (env : Env) (v : JV) (hu : RoundTrip.uniqueV v = true)
    (hv : RoundTrip.AllV RoundTrip.StrOK RoundTrip.NumOK v) :
    FreeFixed env (Cells.autoCell (RoundTrip.dynOf v)) := by
  have ht : treeVal env (.cell (RoundTrip.dynOf v) .auto .none) = v := by
    rw [RoundTrip.treeVal_auto, RoundTrip.treeDyn_dynOf, RoundTrip.canonV_id v hv]
    cases v <;> simp [RoundTrip.dynOf, treeExported]
    · simp only [RoundTrip.AllV, RoundTrip.NumOK] at hv
      exact RowRoundTrip.numText_valid hv
    · simp only [RoundTrip.AllV, RoundTrip.StrOK] at hv
      exact hv
  refine ⟨RoundTrip.dynOf v, ?_, rfl⟩
  rw [Cells.autoCell, ht]
  exact RoundTrip.ofJV_ok env v hu

theorem allV_of_mem {P Q : Bytes → Prop} : ∀ (ms : JVMembers), RoundTrip.AllM P Q ms →
    ∀ k v, (k, v) ∈ ms.toList → RoundTrip.AllV P Q v
  | .nil, _, k, v, hm => by simp [JVMembers.toList] at hm
  | .cons k0 v0 ms, h, k, v, hm => by
    simp only [RoundTrip.AllM] at h
    simp only [JVMembers.toList, List.mem_cons, Prod.mk.injEq] at hm
    rcases hm with ⟨rfl, rfl⟩ | hm
    · exact h.2.1
    · exact allV_of_mem ms h.2.2 k v hm


/-- The hypothesis on the members of the input that no template declares: such a name occurs
    once in the line, and no object below it repeats a name. -/
def FreeMembersUnique (ti to : Tmpl) (line : Bytes) : Prop :=
  ∀ k v, (k, v) ∈ (Json.unmarshal line).1.toList → k ∉ OMap.keys ti → k ∉ OMap.keys to →
    ((Json.unmarshal line).1.toList.map Prod.fst).count k = 1 ∧ RoundTrip.uniqueV v = true

/-- Members declared by neither template: the emitted cell is the reader's value in an Auto
    cell, which is a fixed point (RoundTrip), in any environment. -/
theorem free_cells_of_reader (env : Env) (ti to : Tmpl) (line : Bytes) (r row' : List (Bytes × Val))
    (hget : getRow env ti line = .ok (r, none))
    (hcr : createRow env to (.val (.row (Members.ofList r))) = .ok (row', none))
    (hu : FreeMembersUnique ti to line) :
    ∀ k c, k ∉ OMap.keys ti → k ∉ OMap.keys to → OMap.lookup row' k = some c → FreeFixed env c := by
  intro k c hkti hkto hc
  obtain ⟨rowti, hti0, hun⟩ := Order.getRow_ok env ti line r none hget
  obtain ⟨l, hl, hp, _⟩ := Order.unmarshalInto_ok env rowti r line hun
  obtain ⟨row0, h0, hfill, _⟩ := Order.createRow_row_ok env to r row' none hcr
  have hkin : k ∈ Order.inputKeys line := by
    rcases emitted_key_cases env ti to line r row' hget hcr k (mem_keys_of_lookup hc) with h | h | h
    · exact absurd h hkto
    · exact absurd h hkti
    · exact h
  obtain ⟨⟨k', v⟩, hm, rfl⟩ := List.mem_map.mp hkin
  obtain ⟨hcount, huv⟩ := hu k' v hm hkti hkto
  obtain ⟨d, hdl, hdv⟩ := ofJVMembers_mem env _ l hl k' v hm
  rw [RoundTrip.ofJV_ok env v huv] at hdv
  cases hdv
  have hnti : OMap.lookup rowti k' = none := by
    apply OMap.lookup_none_of_not_mem
    rw [Order.cloneRow_keys env ti rowti hti0, Order.mem_appendNew]
    rintro (h | h)
    · cases h
    · exact hkti h
  have hr : OMap.lookup r k' = some (Cells.autoCell (RoundTrip.dynOf v)) :=
    (parseMembers_inv env l rowti r hp k').2 _ hdl
      (by rw [Order.ofJVMembers_keys env _ l hl]; exact hcount) hnti
  have hn0 : OMap.lookup row0 k' = none := by
    apply OMap.lookup_none_of_not_mem
    rw [Order.cloneRow_keys env to row0 h0, Order.mem_appendNew]
    rintro (h | h)
    · cases h
    · exact hkto h
  have hrow' := (fillPairs_inv env _ row0 row' hfill
    (by rw [Order.keys_map_raw]; exact Order.getRow_keys_nodup env ti line r hget) k').2.1
    (Cells.raw (Cells.autoCell (RoundTrip.dynOf v)))
    (List.mem_map.mpr ⟨(k', _), mem_of_lookup hr, rfl⟩) hn0
  rw [show Cells.raw (Cells.autoCell (RoundTrip.dynOf v)) = RoundTrip.dynOf v from raw_cell _ _ _,
    hc] at hrow'
  cases hrow'
  exact freeFixed_reader env v huv
    (allV_of_mem _ (RoundTrip.reader_tree_ok line) k' v hm)

/-- **Target 1, with the undeclared members carried through** (any environment): as
    `line_fixed_point`, the undeclared cells being discharged by `free_cells_of_reader` for the
    names neither template declares; a name declared by `ti` only still needs `FreeFixed`. -/
theorem line_fixed_point_reader (env : Env) (hx : FloatTextOK env.ext) (ti to : Tmpl) (line b : Bytes)
    (hto : (OMap.keys to).Nodup)
    (hsan_to : ∀ k ∈ OMap.keys to, sanitize k = k) (hsan_ti : ∀ k ∈ OMap.keys ti, sanitize k = k)
    (hu : FreeMembersUnique ti to line)
    (h : jlLine env ti to line = .ok (b, none))
    (hhid : ∀ k v c0, OMap.lookup to k = some v → Cells.format v = .hidden →
      cloneValue env v = .ok c0 → ∃ c2, cloneValue env c0 = .ok c2)
    (hcells : ∀ r row' body, getRow env ti line = .ok (r, none) →
      createRow env to (.val (.row (Members.ofList r))) = .ok (row', none) →
      marshalRow env (Members.ofList row') = .ok body →
      (∀ k v c, OMap.lookup to k = some v → Cells.format v ≠ .hidden →
        OMap.lookup row' k = some c → CellFixed env (Cells.format v) (Cells.rawType v) c) ∧
      (∀ k c, k ∈ OMap.keys ti → k ∉ OMap.keys to → OMap.lookup row' k = some c → FreeFixed env c)) :
    ∃ body, b = body ++ [0x0A] ∧ jlLine env to to body = .ok (b, none) := by
  refine line_fixed_point env hx ti to line b hto hsan_to hsan_ti h hhid ?_
  intro r row' body hget hcr hm
  obtain ⟨hdecl, hfti⟩ := hcells r row' body hget hcr hm
  refine ⟨hdecl, fun k c hkto hc => ?_⟩
  by_cases hkti : k ∈ OMap.keys ti
  · exact hfti k c hkti hkto hc
  · exact free_cells_of_reader env ti to line r row' hget hcr hu k c hkti hkto hc


/-! ### What the emitted row holds (to check the hypotheses of the line-level theorems) -/

/-- The cell of a declared column in the row `CreateRow` makes of `r`: `NewValue` of the raw value
    `r` holds under that name, else the clone of the prototype. -/
theorem created_cell (env : Env) (to : Tmpl) (r row' : List (Bytes × Val))
    (hto : (OMap.keys to).Nodup) (hr : (OMap.keys r).Nodup)
    (hcr : createRow env to (.val (.row (Members.ofList r))) = .ok (row', none))
    (k : Bytes) (v : Val) (hv : OMap.lookup to k = some v) :
    (∀ c, OMap.lookup r k = some c →
      ∃ c', newValue env (Cells.raw c) (Cells.format v) (Cells.rawType v) = .ok c' ∧
        OMap.lookup row' k = some c') ∧
    (OMap.lookup r k = none → ∃ c0, cloneValue env v = .ok c0 ∧ OMap.lookup row' k = some c0) := by
  obtain ⟨row0, h0, hfill, _⟩ := Order.createRow_row_ok env to r row' none hcr
  obtain ⟨c0, hc0, hl0⟩ := cloneRow_lookup env to row0 h0 hto k v hv
  obtain ⟨hf, ht⟩ := Order.cloneValue_format env v c0 hc0
  obtain ⟨h1, _, h3⟩ := fillPairs_inv env _ row0 row' hfill
    (by rw [Order.keys_map_raw]; exact hr) k
  constructor
  · intro c hc
    obtain ⟨cn, hcn, hl⟩ := h3 (Cells.raw c) c0 (List.mem_map.mpr ⟨(k, c), mem_of_lookup hc, rfl⟩) hl0
    rw [hf, ht] at hcn
    exact ⟨cn, hcn, hl⟩
  · intro hn
    refine ⟨c0, hc0, ?_⟩
    rw [h1 ?_, hl0]
    rw [Order.keys_map_raw]
    exact (Order.lookup_eq_none_iff r k).mp hn

/-! ### 2. The regenerated tables: every imported value is re-cloned as itself -/

theorem gen_castTo_other (ext : Ext) (x : Dyn) : castTo genTables ext .other x = .err .cast := by
  simp [castTo, genTables, Gen.dispatchTo, Gen.dispatchToDefault, evalBranch, failWith, Gen.sentinels,
    wrapsRoot]

theorem gen_castTo_self (ext : Ext) (r : Dyn) (ty : Ty) (h : typeOf r = ty) (hty : ty ≠ .other) :
    castTo genTables ext ty r = .ok r := by
  subst h
  cases r with
  | nil => exact CastTyped.gen_castTo_none ext .nil
  | int t v => exact RowRoundTrip.castTo_int_int ext t v
  | f64 b => exact RowRoundTrip.castTo_f64_f64 ext b
  | f32 b => exact RowRoundTrip.castTo_f32_f32 ext b
  | bool b => exact Pairings.castTo_bool_bool ext b
  | str s => exact Pairings.castTo_str_str ext s
  | bytes s => exact Pairings.castTo_bytes_bytes ext s
  | num l => exact Pairings.castTo_num_num ext l
  | time t => exact RowRoundTrip.castTo_time_time ext t
  | _ => exact absurd rfl hty

theorem gen_newValue_cast_result (ext : Ext) (x r : Dyn) (f : Format) (ty : Ty)
    (h : castTo genTables ext ty x = .ok r) :
    newValue ⟨genTables, ext⟩ r f ty = .ok (.cell r f ty) := by
  by_cases hn : ty = .none
  · subst hn; exact RowRoundTrip.gen_newValue_none ext r f
  · by_cases ho : ty = .other
    · subst ho; rw [gen_castTo_other] at h; cases h
    · obtain ⟨h1, h2⟩ := CastTyped.gen_castTo_typed ext ty hn x r h
      by_cases hx : x = .nil
      · rw [h1.mpr hx]; exact RowRoundTrip.gen_newValue_nil ext f ty
      · exact RowRoundTrip.newValue_of_castTo ⟨genTables, ext⟩ r f ty
          (gen_castTo_self ext r ty (h2 hx) ho)

theorem importFail_inv {o : Outcome Dyn} {r : Dyn} (h : importFail o = .ok r) : o = .ok r := by
  cases o with
  | ok a => exact h
  | err e => cases e <;> cases h
  | panic p => cases h

/-- The value `Import` stores under `(f, ty)` is `cast.To(ty, ·)` of something, or is stored in a
    column without raw type. -/
theorem importResult_cast (ext : Ext) (f : Format) (ty : Ty) (val r : Dyn)
    (h : importByFormat ⟨genTables, ext⟩ f ty val = .ok (.cell r f ty, none)) :
    ty = .none ∨ ∃ x, castTo genTables ext ty x = .ok r := by
  by_cases hn : ty = .none
  · exact .inl hn
  right
  have key : ∀ res : Outcome Dyn,
      (match res with
        | .ok r => Outcome.ok (Val.cell r f ty, (none : Option ErrClass))
        | .err .ext => .err .ext
        | .err e => .ok (.cell .nil f ty, some e)
        | .panic s => .panic s) = .ok (.cell r f ty, none) → res = .ok r := by
    intro res hres
    split at hres
    · simp only [Outcome.ok.injEq, Prod.mk.injEq, Val.cell.injEq, and_true] at hres
      rw [hres]
    · cases hres
    · simp at hres
    · cases hres
  have hfrom : ∀ dflt, importFrom ⟨genTables, ext⟩ dflt val ty = .ok r →
      ∃ x, castTo genTables ext ty x = .ok r := by
    intro dflt hres
    unfold importFrom at hres
    split at hres
    · exact absurd rfl hn
    · exact ⟨val, importFail_inv hres⟩
  unfold importByFormat at h
  have hres := key _ h
  cases f with
  | string => exact hfrom _ hres
  | numeric => exact hfrom _ hres
  | boolean => exact hfrom _ hres
  | date => exact hfrom _ hres
  | datetime => exact hfrom _ hres
  | timestamp => exact hfrom _ hres
  | auto => exact ⟨val, hres⟩
  | hidden => exact ⟨val, hres⟩
  | bad => cases hres
  | binary =>
    simp only at hres
    unfold importFromBinary at hres
    split at hres
    · split at hres
      · cases hres
      · split at hres
        · exact absurd rfl hn
        · exact ⟨_, importFail_inv hres⟩
    · cases hres
    · cases hres
    · rename_i h1 h2 h3
      exact (h3 _ hres).elim


theorem importByFormat_cell {env : Env} {f : Format} {ty : Ty} {val : Dyn} {c1 : Val}
    {e : Option ErrClass} (h : importByFormat env f ty val = .ok (c1, e)) : ∃ r, c1 = .cell r f ty := by
  unfold importByFormat at h
  simp only at h
  split at h
  · cases h; exact ⟨_, rfl⟩
  · cases h
  · cases h; exact ⟨_, rfl⟩
  · cases h

/-- A cell imported from what the reader delivers for a scalar is cloned as itself. -/
theorem gen_import_reclone (ext : Ext) (f : Format) (ty : Ty) (d : Dyn) (c1 : Val)
    (hd : ∀ v, d ≠ .val v) (h : importCell ⟨genTables, ext⟩ f ty d = .ok (c1, none)) :
    ∃ r1, c1 = .cell r1 f ty ∧ newValue ⟨genTables, ext⟩ r1 f ty = .ok (.cell r1 f ty) := by
  have key : importByFormat ⟨genTables, ext⟩ f ty d = .ok (c1, none) →
      ∃ r1, c1 = .cell r1 f ty ∧ newValue ⟨genTables, ext⟩ r1 f ty = .ok (.cell r1 f ty) := by
    intro h
    obtain ⟨r, rfl⟩ := importByFormat_cell h
    refine ⟨r, rfl, ?_⟩
    rcases importResult_cast ext f ty d r h with rfl | ⟨x, hx⟩
    · exact RowRoundTrip.gen_newValue_none ext r f
    · exact gen_newValue_cast_result ext x r f ty hx
  cases d with
  | nil =>
    simp only [importCell] at h
    cases h
    exact ⟨.nil, rfl, RowRoundTrip.gen_newValue_nil ext f ty⟩
  | val v => exact absurd rfl (hd v)
  | _ => exact key (by simpa only [importCell] using h)

/-- `CloneValue` is idempotent for the regenerated tables (hidden prototype cells included). -/
theorem gen_reclone (ext : Ext) (v c0 : Val) (h : cloneValue ⟨genTables, ext⟩ v = .ok c0) :
    cloneValue ⟨genTables, ext⟩ c0 = .ok c0 := by
  unfold cloneValue at h
  generalize Cells.raw v = x at h
  generalize Cells.format v = f at h
  generalize Cells.rawType v = ty at h
  cases hc : castTo genTables ext ty x with
  | ok r =>
    simp only [newValue, hc] at h
    cases h
    simp only [cloneValue, raw_cell, format_cell, rawType_cell]
    exact gen_newValue_cast_result ext x r f ty hc
  | err e =>
    cases e <;> simp only [newValue, hc] at h <;> cases h <;>
      simp only [cloneValue, raw_cell, format_cell, rawType_cell, newValue, hc]
  | panic s =>
    simp only [newValue, hc] at h
    cases h

/-! ### From the cell-level fixed points to `CellFixed` -/

theorem wire_tree (env : Env) {e e' : Dyn} (w : RowRoundTrip.Wire e e') (rt : JV) :
    ofJV env (treeExported e rt) = .ok e' := by
  cases w with
  | nil => simp only [treeExported, ofJV]
  | bool b => simp only [treeExported, ofJV]
  | int t v => simp only [treeExported, ofJV]
  | str s => simp only [treeExported, ofJV]
  | num l hl => simp only [treeExported, ofJV, RowRoundTrip.numText_valid hl]

theorem wire_not_val {e e' : Dyn} (w : RowRoundTrip.Wire e e') : ∀ v, e' ≠ .val v := by
  cases w <;> intro v h <;> cases h

theorem marshalExported_wire (env : Env) {e e' : Dyn} (w : RowRoundTrip.Wire e e') (r1 r2 : Dyn) :
    marshalExported env e r1 = marshalExported env e r2 := by
  cases w <;> (conv => lhs; rw [marshalExported.eq_def]) <;> (conv => rhs; rw [marshalExported.eq_def])

theorem marshalVal_cell {env : Env} {raw e : Dyn} {f : Format} {ty : Ty}
    (h : exportVal env (.cell raw f ty) = .ok e) :
    marshalVal env (.cell raw f ty) = marshalExported env e raw := by
  rw [marshalVal.eq_def]; simp only [h]

/-- **The bridge**: a cell-level fixed point (`SelfReadable.FixedPoint`: the reader's image `e'`
    of the exported `e` is accepted under `(f, ty)` and exported as `e` again), `e` being one of
    the scalar kinds (`Wire`), makes the printed cell `CellFixed`. -/
theorem cellFixed_of_fixedPoint (ext : Ext) (raw : Dyn) (f : Format) (ty : Ty) (e e' : Dyn)
    (hexp : exportVal ⟨genTables, ext⟩ (.cell raw f ty) = .ok e) (hw : RowRoundTrip.Wire e e')
    (hfp : SelfReadable.FixedPoint ⟨genTables, ext⟩ f ty e e') :
    CellFixed ⟨genTables, ext⟩ f ty (.cell raw f ty) := by
  obtain ⟨c1, hi, he1⟩ := hfp
  obtain ⟨r1, rfl, hn⟩ := gen_import_reclone ext f ty e' c1 (wire_not_val hw) hi
  refine ⟨e', _, _, ?_, hi, by rw [raw_cell]; exact hn, ?_⟩
  · simp only [treeVal, hexp]
    exact wire_tree _ hw _
  · rw [marshalVal_cell he1, marshalVal_cell hexp]
    exact marshalExported_wire _ hw _ _


/-! ### Undeclared members under the regenerated tables: repeated names allowed

With the regenerated tables (`cast.To(nil, v) = v`) a repeated member name is imported into the
Auto cell of its first occurrence and simply replaces its value, at every depth: whatever the
reader delivers is the value of a tree WITHOUT repeated names (`Canon`), so the undeclared
cells are fixed points with no uniqueness hypothesis. -/

section Canonical
open Jl.RoundTrip

/-- `OMap.upsert` on trees: replace the value of the first member named `k`, else append. -/
def upsertM : JVMembers → Bytes → JV → JVMembers
  | .nil, k, v => .cons k v .nil
  | .cons k' v' ms, k, v => if k' = k then .cons k' v ms else .cons k' v' (upsertM ms k v)

theorem rowOfTree_upsertM : ∀ (t : JVMembers) (k : Bytes) (v : JV),
    rowOfTree (upsertM t k v) = upsert (rowOfTree t) k (Cells.autoCell (dynOf v))
  | .nil, k, v => by
    simp [upsertM, RoundTrip.rowOfTree_cons, RoundTrip.rowOfTree_nil, upsert, OMap.upsert, Cells.autoCell]
  | .cons k' v' ms, k, v => by
    unfold upsertM
    by_cases h : k' = k
    · simp [h, RoundTrip.rowOfTree_cons, upsert, OMap.upsert, Cells.autoCell]
    · have ih := rowOfTree_upsertM ms k v
      rw [upsert] at ih
      simp [h, RoundTrip.rowOfTree_cons, upsert, OMap.upsert, ih]

theorem hasKey_upsertM (k0 : Bytes) : ∀ (t : JVMembers) (k : Bytes) (v : JV),
    hasKey k0 (upsertM t k v) = (hasKey k0 t || decide (k = k0))
  | .nil, k, v => by simp [upsertM, hasKey]
  | .cons k' v' ms, k, v => by
    unfold upsertM
    by_cases h : k' = k
    · subst h
      simp only [if_true, hasKey]
      cases decide (k' = k0) <;> cases hasKey k0 ms <;> rfl
    · simp only [h, if_false, hasKey, hasKey_upsertM k0 ms k v, Bool.or_assoc]

theorem uniqueM_upsertM : ∀ (t : JVMembers) (k : Bytes) (v : JV),
    uniqueM t = true → uniqueV v = true → uniqueM (upsertM t k v) = true
  | .nil, k, v, _, hv => by simp [upsertM, uniqueM, hasKey, hv]
  | .cons k' v' ms, k, v, ht, hv => by
    simp only [uniqueM, Bool.and_eq_true, Bool.not_eq_true'] at ht
    unfold upsertM
    by_cases h : k' = k
    · simp only [h, if_true, uniqueM, Bool.and_eq_true, Bool.not_eq_true']
      exact ⟨⟨h ▸ ht.1.1, hv⟩, ht.2⟩
    · have hne : ¬ k = k' := fun e => h e.symm
      simp only [h, if_false, uniqueM, Bool.and_eq_true, Bool.not_eq_true', hasKey_upsertM, ht.1.1,
        Bool.false_or, decide_eq_false_iff_not]
      exact ⟨⟨hne, ht.1.2⟩, uniqueM_upsertM ms k v ht.2 hv⟩

theorem allM_upsertM {P Q : Bytes → Prop} : ∀ (t : JVMembers) (k : Bytes) (v : JV),
    AllM P Q t → P k → AllV P Q v → AllM P Q (upsertM t k v)
  | .nil, k, v, _, hk, hv => by simp only [upsertM, AllM]; exact ⟨hk, hv, trivial⟩
  | .cons k' v' ms, k, v, ht, hk, hv => by
    simp only [AllM] at ht
    unfold upsertM
    by_cases h : k' = k
    · simp only [h, if_true, AllM]; exact ⟨hk, hv, ht.2.2⟩
    · simp only [h, if_false, AllM]; exact ⟨ht.1, ht.2.1, allM_upsertM ms k v ht.2.2 hk hv⟩

/-- The value of a reader tree without repeated names. -/
def Canon (d : Dyn) : Prop := ∃ v, d = dynOf v ∧ uniqueV v = true ∧ AllV StrOK NumOK v

/-- Importing such a value into an Auto cell without raw type replaces the cell's value. -/
theorem gen_import_auto (ext : Ext) (x d : Dyn) (hd : Canon d) :
    importVal ⟨genTables, ext⟩ (.cell x .auto .none) d = .ok (Cells.autoCell d, none) := by
  obtain ⟨v, rfl, _, _⟩ := hd
  rw [importVal_cell]
  cases v <;> simp [dynOf, importCell, importByFormat, CastTyped.gen_castTo_none, Cells.autoCell]

theorem lookup_rowOfTree {t : JVMembers} {k : Bytes} {c : Val}
    (h : OMap.lookup (rowOfTree t) k = some c) : ∃ x, c = .cell x .auto .none := by
  have hm := mem_of_lookup h
  rw [RoundTrip.rowOfTree_eq_map] at hm
  obtain ⟨⟨k', x⟩, _, he⟩ := List.mem_map.mp hm
  simp only [Prod.mk.injEq] at he
  exact ⟨x, he.2.symm⟩

theorem gen_parseMember_canon (ext : Ext) (o : List (Bytes × Val)) (k : Bytes) (d : Dyn)
    (ho : ∀ c, OMap.lookup o k = some c → ∃ x, c = .cell x .auto .none) (hd : Canon d) :
    parseMember ⟨genTables, ext⟩ o k d = .ok (upsert o k (Cells.autoCell d), none) := by
  cases hl : OMap.lookup o k with
  | none => simp only [parseMember, lookup, hl]
  | some c =>
    obtain ⟨x, rfl⟩ := ho c hl
    simp only [parseMember, lookup, hl, gen_import_auto ext x d hd]

/-- `parseobject` on a fresh row, repeated names included: the row of a tree without them. -/
theorem gen_parseMembers_canon (ext : Ext) : ∀ (l : List (Bytes × Dyn)) (t : JVMembers)
    (o' : List (Bytes × Val)) (e : Option ErrClass),
    (∀ k d, (k, d) ∈ l → StrOK k ∧ Canon d) → uniqueM t = true → AllM StrOK NumOK t →
    parseMembers ⟨genTables, ext⟩ (rowOfTree t) l = .ok (o', e) →
    ∃ t', o' = rowOfTree t' ∧ uniqueM t' = true ∧ AllM StrOK NumOK t'
  | [], t, o', e, _, hu, ha, h => by
    simp only [parseMembers, Outcome.ok.injEq, Prod.mk.injEq] at h
    exact ⟨t, h.1.symm, hu, ha⟩
  | (k, d) :: l, t, o', e, hl, hu, ha, h => by
    obtain ⟨hk, hd⟩ := hl k d List.mem_cons_self
    have hstep := gen_parseMember_canon ext (rowOfTree t) k d (fun c hc => lookup_rowOfTree hc) hd
    obtain ⟨v, rfl, huv, hav⟩ := hd
    rw [← rowOfTree_upsertM] at hstep
    simp only [parseMembers, hstep] at h
    exact gen_parseMembers_canon ext l (upsertM t k v) o' e
      (fun k' d' hm => hl k' d' (List.mem_cons_of_mem _ hm))
      (uniqueM_upsertM t k v hu huv) (allM_upsertM t k v ha hk hav) h

mutual
  /-- Whatever `handledelim` builds from a reader tree is the value of a tree without repeated
      names. -/
  theorem gen_ofJV_canon (ext : Ext) : ∀ (v : JV) (d : Dyn), AllV StrOK NumOK v →
      ofJV ⟨genTables, ext⟩ v = .ok d → Canon d
    | .null, d, _, h => by
      rw [ofJV] at h; cases h; exact ⟨.null, rfl, rfl, trivial⟩
    | .bool b, d, _, h => by
      rw [ofJV] at h; cases h; exact ⟨.bool b, rfl, rfl, trivial⟩
    | .num l, d, ha, h => by
      rw [ofJV] at h; cases h; exact ⟨.num l, rfl, rfl, ha⟩
    | .str s, d, ha, h => by
      rw [ofJV] at h; cases h; exact ⟨.str s, rfl, rfl, ha⟩
    | .arr xs, d, ha, h => by
      rw [ofJV] at h
      simp only [AllV] at ha
      split at h
      · rename_i l hl
        cases h
        obtain ⟨xs', rfl, hu', ha'⟩ := gen_ofJVList_canon ext xs l ha hl
        refine ⟨.arr xs', ?_, hu', ha'⟩
        simp only [dynOf, RoundTrip.DynList.ofList_toList]
      · cases h
      · cases h
    | .obj ms, d, ha, h => by
      rw [ofJV] at h
      simp only [AllV] at ha
      split at h
      · rename_i l hl
        split at h
        · rename_i o e hp
          cases h
          obtain ⟨t', rfl, hu', ha'⟩ := gen_parseMembers_canon ext l .nil o e
            (gen_ofJVMembers_canon ext ms l ha hl) rfl trivial hp
          refine ⟨.obj t', ?_, hu', ha'⟩
          simp only [dynOf, RoundTrip.ofList_rowOfTree]
        · cases h
        · cases h
      · cases h
      · cases h
  theorem gen_ofJVList_canon (ext : Ext) : ∀ (xs : JVList) (l : List Dyn), AllL StrOK NumOK xs →
      ofJVList ⟨genTables, ext⟩ xs = .ok l →
      ∃ xs', l = (dynListOf xs').toList ∧ uniqueL xs' = true ∧ AllL StrOK NumOK xs'
    | .nil, l, _, h => by
      rw [ofJVList] at h; cases h; exact ⟨.nil, rfl, rfl, trivial⟩
    | .cons x xs, l, ha, h => by
      rw [ofJVList] at h
      simp only [AllL] at ha
      split at h
      · rename_i d hd
        split at h
        · rename_i rest hrest
          cases h
          obtain ⟨v, rfl, huv, hav⟩ := gen_ofJV_canon ext x d ha.1 hd
          obtain ⟨xs', rfl, hu', ha'⟩ := gen_ofJVList_canon ext xs rest ha.2 hrest
          refine ⟨.cons v xs', ?_, ?_, ?_⟩
          · simp only [dynListOf, DynList.toList]
          · simp only [uniqueL, huv, hu', Bool.and_self]
          · simp only [AllL]; exact ⟨hav, ha'⟩
        · cases h
        · cases h
      · cases h
      · cases h
  theorem gen_ofJVMembers_canon (ext : Ext) : ∀ (ms : JVMembers) (l : List (Bytes × Dyn)),
      AllM StrOK NumOK ms → ofJVMembers ⟨genTables, ext⟩ ms = .ok l →
      ∀ k d, (k, d) ∈ l → StrOK k ∧ Canon d
    | .nil, l, _, h, k, d, hm => by
      rw [ofJVMembers] at h; cases h; cases hm
    | .cons k0 v0 ms, l, ha, h, k, d, hm => by
      rw [ofJVMembers] at h
      simp only [AllM] at ha
      split at h
      · rename_i d0 hd0
        split at h
        · rename_i rest hrest
          cases h
          rcases List.mem_cons.mp hm with hm | hm
          · cases hm
            exact ⟨ha.1, gen_ofJV_canon ext v0 _ ha.2.1 hd0⟩
          · exact gen_ofJVMembers_canon ext ms rest ha.2.2 hrest k d hm
        · cases h
        · cases h
      · cases h
      · cases h
end


theorem parseMember_inv' (env : Env) (o o1 : List (Bytes × Val)) (k : Bytes) (d : Dyn)
    (e : Option ErrClass) (h : parseMember env o k d = .ok (o1, e)) :
    ∃ cn, o1 = upsert o k cn ∧ (OMap.lookup o k = none → cn = Cells.autoCell d) ∧
      (∀ c, OMap.lookup o k = some c → importVal env c d = .ok (cn, e)) := by
  unfold parseMember at h
  split at h
  · rename_i c hc
    split at h
    · rename_i c' e' hi
      simp only [Outcome.ok.injEq, Prod.mk.injEq] at h
      obtain ⟨h1, h2⟩ := h
      subst h2
      refine ⟨c', h1.symm, fun hn => (by rw [lookup, hn] at hc; cases hc), fun c0 hc0 => ?_⟩
      rw [lookup, hc0] at hc
      cases hc
      exact hi
    · cases h
    · cases h
  · rename_i hc
    simp only [Outcome.ok.injEq, Prod.mk.injEq] at h
    exact ⟨_, h.1.symm, fun _ => rfl, fun c0 hc0 => (by rw [lookup, hc0] at hc; cases hc)⟩

/-- A name the importer's template lacks, or declares auto without raw type: whatever the
    members are (repeated or not), its cell ends up as an Auto cell holding the value of one of
    them. -/
theorem gen_parseMembers_free (ext : Ext) (k : Bytes) : ∀ (l : List (Bytes × Dyn))
    (o o' : List (Bytes × Val)),
    (∀ k' d, (k', d) ∈ l → Canon d) →
    parseMembers ⟨genTables, ext⟩ o l = .ok (o', none) →
    (OMap.lookup o k = none ∨ ∃ x, OMap.lookup o k = some (.cell x .auto .none)) →
    (k ∈ l.map Prod.fst ∨ ∃ d, Canon d ∧ OMap.lookup o k = some (Cells.autoCell d)) →
    ∃ d, Canon d ∧ OMap.lookup o' k = some (Cells.autoCell d)
  | [], o, o', _, h, _, hq => by
    simp only [parseMembers, Outcome.ok.injEq, Prod.mk.injEq] at h
    rcases hq with hq | hq
    · cases hq
    · rw [← h.1]; exact hq
  | (k0, d0) :: l, o, o', hl, h, hp, hq => by
    simp only [parseMembers] at h
    split at h
    · rename_i o1 h1
      obtain ⟨cn, rfl, hcn1, hcn2⟩ := parseMember_inv' _ o o1 k0 d0 none h1
      have hl' : ∀ k' d, (k', d) ∈ l → Canon d := fun k' d hm => hl k' d (List.mem_cons_of_mem _ hm)
      by_cases hk : k = k0
      · subst hk
        have hd0 : Canon d0 := hl k d0 List.mem_cons_self
        have hcn : cn = Cells.autoCell d0 := by
          rcases hp with hp | ⟨xp, hp⟩
          · exact hcn1 hp
          · have := hcn2 _ hp
            rw [gen_import_auto ext xp d0 hd0] at this
            cases this
            rfl
        have hl1 : OMap.lookup (upsert o k cn) k = some (Cells.autoCell d0) := by
          rw [upsert, OMap.lookup_upsert, if_pos rfl, hcn]
        exact gen_parseMembers_free ext k l _ o' hl' h (.inr ⟨d0, hl1⟩) (.inr ⟨d0, hd0, hl1⟩)
      · have hsame : OMap.lookup (upsert o k0 cn) k = OMap.lookup o k := by
          rw [upsert, OMap.lookup_upsert, if_neg hk]
        refine gen_parseMembers_free ext k l _ o' hl' h (by rw [hsame]; exact hp) ?_
        rw [hsame]
        rcases hq with hq | hq
        · simp only [List.map_cons, List.mem_cons] at hq
          rcases hq with hq | hq
          · exact absurd hq hk
          · exact .inl hq
        · exact .inr hq
    · rename_i r hne
      exact absurd h (hne o')

/-- **Undeclared members, regenerated tables, no uniqueness hypothesis**: the emitted cell under
    a name neither template declares is a fixed point. -/
theorem gen_free_cells (ext : Ext) (ti to : Tmpl) (line : Bytes) (r row' : List (Bytes × Val))
    (hget : getRow ⟨genTables, ext⟩ ti line = .ok (r, none))
    (hcr : createRow ⟨genTables, ext⟩ to (.val (.row (Members.ofList r))) = .ok (row', none)) :
    ∀ k c, k ∉ OMap.keys ti → k ∉ OMap.keys to → OMap.lookup row' k = some c →
      FreeFixed ⟨genTables, ext⟩ c := by
  intro k c hkti hkto hc
  obtain ⟨rowti, hti0, hun⟩ := Order.getRow_ok _ ti line r none hget
  obtain ⟨l, hl, hp, _⟩ := Order.unmarshalInto_ok _ rowti r line hun
  obtain ⟨row0, h0, hfill, _⟩ := Order.createRow_row_ok _ to r row' none hcr
  have hkin : k ∈ Order.inputKeys line := by
    rcases emitted_key_cases _ ti to line r row' hget hcr k (mem_keys_of_lookup hc) with h | h | h
    · exact absurd h hkto
    · exact absurd h hkti
    · exact h
  have hcanon : ∀ k' d, (k', d) ∈ l → Canon d := fun k' d hm =>
    (gen_ofJVMembers_canon ext _ l (RoundTrip.reader_tree_ok line) hl k' d hm).2
  have hnti : OMap.lookup rowti k = none := by
    apply OMap.lookup_none_of_not_mem
    rw [Order.cloneRow_keys _ ti rowti hti0, Order.mem_appendNew]
    rintro (h | h)
    · cases h
    · exact hkti h
  obtain ⟨d, hd, hr⟩ := gen_parseMembers_free ext k l rowti r hcanon hp (.inl hnti)
    (.inl (by rw [Order.ofJVMembers_keys _ _ l hl]; exact hkin))
  have hn0 : OMap.lookup row0 k = none := by
    apply OMap.lookup_none_of_not_mem
    rw [Order.cloneRow_keys _ to row0 h0, Order.mem_appendNew]
    rintro (h | h)
    · cases h
    · exact hkto h
  have hrow' := (fillPairs_inv _ _ row0 row' hfill
    (by rw [Order.keys_map_raw]; exact Order.getRow_keys_nodup _ ti line r hget) k).2.1
    (Cells.raw (Cells.autoCell d))
    (List.mem_map.mpr ⟨(k, _), mem_of_lookup hr, rfl⟩) hn0
  rw [show Cells.raw (Cells.autoCell d) = d from raw_cell _ _ _, hc] at hrow'
  cases hrow'
  obtain ⟨v, rfl, huv, hav⟩ := hd
  exact freeFixed_reader _ v huv hav

theorem treeVal_dynOf (env : Env) (v : JV) (hv : AllV StrOK NumOK v) :
    treeVal env (.cell (dynOf v) .auto .none) = v := by
  rw [RoundTrip.treeVal_auto, RoundTrip.treeDyn_dynOf, RoundTrip.canonV_id v hv]
  cases v <;> simp [dynOf, treeExported]
  · simp only [AllV, NumOK] at hv
    exact RowRoundTrip.numText_valid hv
  · simp only [AllV, StrOK] at hv
    exact hv

/-- auto without raw type holding what the reader delivered (any JSON value). -/
theorem cellFixed_canon (ext : Ext) (d : Dyn) (hd : Canon d) :
    CellFixed ⟨genTables, ext⟩ .auto .none (.cell d .auto .none) := by
  have hi := gen_import_auto ext .nil d hd
  rw [importVal_cell] at hi
  obtain ⟨v, rfl, huv, hav⟩ := hd
  refine ⟨dynOf v, _, _, ?_, hi, RowRoundTrip.gen_newValue_none ext _ _, ?_⟩
  · rw [treeVal_dynOf _ v hav]
    exact RoundTrip.ofJV_ok _ v huv
  · rw [show Cells.raw (Cells.autoCell (dynOf v)) = dynOf v from raw_cell _ _ _]

/-- What the importer stores in a column declared auto without raw type: the prototype's clone
    when the line has no such member, else the value of one of the members of that name. -/
theorem gen_imported_auto_none (ext : Ext) (ti : Tmpl) (line : Bytes) (r : List (Bytes × Val))
    (hti : (OMap.keys ti).Nodup)
    (hget : getRow ⟨genTables, ext⟩ ti line = .ok (r, none))
    (k : Bytes) (rawp : Dyn) (hk : OMap.lookup ti k = some (.cell rawp .auto .none)) :
    (k ∈ Order.inputKeys line → ∃ d, Canon d ∧ OMap.lookup r k = some (.cell d .auto .none)) ∧
    (k ∉ Order.inputKeys line → OMap.lookup r k = some (.cell rawp .auto .none)) := by
  obtain ⟨rowti, hti0, hun⟩ := Order.getRow_ok _ ti line r none hget
  obtain ⟨l, hl, hp, _⟩ := Order.unmarshalInto_ok _ rowti r line hun
  obtain ⟨c0, hc0, hl0⟩ := cloneRow_lookup _ ti rowti hti0 hti k _ hk
  have hc0' : c0 = .cell rawp .auto .none := by
    have := RowRoundTrip.gen_newValue_none ext rawp .auto
    simp only [cloneValue, raw_cell, format_cell, rawType_cell, this] at hc0
    cases hc0; rfl
  subst hc0'
  have hkeys := Order.ofJVMembers_keys _ _ l hl
  constructor
  · intro hin
    have hcanon : ∀ k' d, (k', d) ∈ l → Canon d := fun k' d hm =>
      (gen_ofJVMembers_canon ext _ l (RoundTrip.reader_tree_ok line) hl k' d hm).2
    exact gen_parseMembers_free ext k l rowti r hcanon hp (.inr ⟨rawp, hl0⟩)
      (.inl (by rw [hkeys]; exact hin))
  · intro hnin
    rw [(parseMembers_inv _ l rowti r hp k).1 (by rw [hkeys]; exact hnin), hl0]

end Canonical

/-! ### Target 2: the covered (format, raw type, raw value) families -/

/-- From an explicit pair (what is exported; what the reader's image of it is imported as) and
    the export of the cell read back. -/
theorem cellFixed_of_pair (ext : Ext) (raw raw' : Dyn) (f : Format) (ty : Ty) (e e' : Dyn)
    (hw : RowRoundTrip.Wire e e')
    (hp : exportVal ⟨genTables, ext⟩ (.cell raw f ty) = .ok e ∧
      importCell ⟨genTables, ext⟩ f ty e' = .ok (.cell raw' f ty, none))
    (h3 : exportVal ⟨genTables, ext⟩ (.cell raw' f ty) = .ok e) :
    CellFixed ⟨genTables, ext⟩ f ty (.cell raw f ty) :=
  cellFixed_of_fixedPoint ext raw f ty e e' hp.1 hw ⟨_, hp.2, h3⟩

/-- The lossless case: the cell read back is the cell written. -/
theorem cellFixed_of_lossless (ext : Ext) (raw : Dyn) (f : Format) (ty : Ty) (e e' : Dyn)
    (hw : RowRoundTrip.Wire e e')
    (hp : exportVal ⟨genTables, ext⟩ (.cell raw f ty) = .ok e ∧
      importCell ⟨genTables, ext⟩ f ty e' = .ok (.cell raw f ty, none)) :
    CellFixed ⟨genTables, ext⟩ f ty (.cell raw f ty) :=
  cellFixed_of_pair ext raw raw f ty e e' hw hp hp.1

/-- The raw values of a visible output column `(f, ty)` for which the emitted member is proved a
    fixed point of the line.  Every constructor is one of the families of Proofs/Pairings,
    Proofs/SelfReadable (C05 at cell level), with the hypotheses those theorems carry. -/
inductive Covered (ext : Ext) : Format → Ty → Dyn → Prop
  /-- nil under every format -/
  | nil (f : Format) (ty : Ty) : Covered ext f ty .nil
  | string_int (t : IntTy) (v : Int) : t.inRange v → Covered ext .string (.int t) (.int t v)
  | numeric_int (t : IntTy) (v : Int) : t.inRange v → Covered ext .numeric (.int t) (.int t v)
  | binary_int (t : IntTy) (v : Int) : t.inRange v → Covered ext .binary (.int t) (.int t v)
  | timestamp_int (t : IntTy) (v : Int) : t.inRange v → v ≤ 9223372036854775807 →
      Covered ext .timestamp (.int t) (.int t v)
  | timestamp_none (v : Int) : IntTy.i64.inRange v → Covered ext .timestamp .none (.int .i64 v)
  | auto_int (t : IntTy) (v : Int) : t.inRange v → Covered ext .auto (.int t) (.int t v)
  | string_str (s : Bytes) : Utf8.valid s = true → Covered ext .string .str (.str s)
  | string_none (s : Bytes) : Utf8.valid s = true → Covered ext .string .none (.str s)
  | auto_str (s : Bytes) : Utf8.valid s = true → Covered ext .auto .str (.str s)
  | numeric_num (l : Bytes) : JsonWrite.isValidNumber l = true → Covered ext .numeric .num (.num l)
  | numeric_none (l : Bytes) : JsonWrite.isValidNumber l = true → Covered ext .numeric .none (.num l)
  | auto_num (l : Bytes) : JsonWrite.isValidNumber l = true → Covered ext .auto .num (.num l)
  | string_num (l : Bytes) : sanitize l = l → Covered ext .string .num (.num l)
  | numeric_str (s : Bytes) : JsonWrite.isValidNumber s = true → Covered ext .numeric .str (.str s)
  | numeric_bytes (s : Bytes) : JsonWrite.isValidNumber s = true → Covered ext .numeric .bytes (.bytes s)
  | timestamp_num (l : Bytes) : Covered ext .timestamp .num (.num l)
  | binary_bytes (b : Bytes) : Covered ext .binary .bytes (.bytes b)
  | binary_none (b : Bytes) : Covered ext .binary .none (.bytes b)
  | binary_str (s : Bytes) : Covered ext .binary .str (.str s)
  | binary_num (l : Bytes) : Covered ext .binary .num (.num l)
  | binary_bool (b : Bool) : Covered ext .binary .bool (.bool b)
  | binary_f64 (b : Nat) : b < 2 ^ 64 → Covered ext .binary .f64 (.f64 b)
  | binary_f32 (b : Nat) : b < 2 ^ 32 → Covered ext .binary .f32 (.f32 b)
  /-- boolean(T), every T, every well-typed raw value -/
  | boolean (ty : Ty) (raw : Dyn) : SelfReadable.WellTyped .boolean ty raw →
      SelfReadable.BooleanHyp ext ty → Covered ext .boolean ty raw
  | auto_bool (b : Bool) : Covered ext .auto .bool (.bool b)
  /-- auto without raw type holding any JSON value the reader delivered (scalars, arrays, nested
      objects; `Canon`) -/
  | auto_none (d : Dyn) : Canon d → Covered ext .auto .none d
  | string_bool (b : Bool) : Covered ext .string .bool (.bool b)
  /-- date(none | string | []byte | json.Number), EVERY raw value -/
  | date (ty : Ty) (raw : Dyn) : (ty = .none ∨ ty = .str ∨ ty = .bytes ∨ ty = .num) →
      Covered ext .date ty raw
  | datetime_time (t : GoTime) : 0 ≤ Time.year t → Time.year t ≤ 9999 → t.off % 60 = 0 →
      -86400 < t.off → t.off < 86400 → Covered ext .datetime .time (.time t)
  | datetime_none (t : GoTime) : 0 ≤ Time.year t → Time.year t ≤ 9999 → t.off % 60 = 0 →
      -86400 < t.off → t.off < 86400 → Covered ext .datetime .none (.time t)
  | string_time (t : GoTime) : 0 ≤ Time.year t → Time.year t ≤ 9999 → t.off % 60 = 0 →
      -86400 < t.off → t.off < 86400 → Covered ext .string .time (.time t)
  /-- datetime(string | []byte): the zone's offsets are written readably and the raw text does
      not carry the offset ±24:60 (`offset_24_60_counterexample`) -/
  | datetime_text (ty : Ty) (raw : Dyn) (s : Bytes) :
      ((ty = .str ∧ raw = .str s) ∨ (ty = .bytes ∧ raw = .bytes s)) →
      (∀ v off, ext.zoneOffset v = some off → SelfReadable.OffsetOK off) →
      (∀ t, Time.parseRFC3339 s = some t → t.off.natAbs ≠ 90000) → Covered ext .datetime ty raw
  /-- numeric(time.Time), timestamp(time.Time): the process zone answers at that second -/
  | numeric_time (t : GoTime) (off : Int) : ext.zoneOffset t.sec = some off →
      -(2 ^ 62 : Int) < t.sec ∧ t.sec < 2 ^ 62 → Covered ext .numeric .time (.time t)
  | timestamp_time (t : GoTime) (off : Int) : ext.zoneOffset t.sec = some off →
      -(2 ^ 62 : Int) < t.sec ∧ t.sec < 2 ^ 62 → Covered ext .timestamp .time (.time t)
  /-- numeric(bool), timestamp(bool): ParseFloat reads "1" and "0" -/
  | numeric_bool (b : Bool) : Pairings.DigitLaw ext → Covered ext .numeric .bool (.bool b)
  | timestamp_bool (b : Bool) : Pairings.DigitLaw ext → Covered ext .timestamp .bool (.bool b)

open RowRoundTrip in
/-- **Target 2.**  Every covered cell that exports is `CellFixed`. -/
theorem covered_cellFixed (ext : Ext) (f : Format) (ty : Ty) (raw : Dyn) (hc : Covered ext f ty raw)
    (e : Dyn) (he : exportVal ⟨genTables, ext⟩ (.cell raw f ty) = .ok e) :
    CellFixed ⟨genTables, ext⟩ f ty (.cell raw f ty) := by
  cases hc with
  | nil =>
    obtain ⟨a1, a2⟩ := SelfReadable.nil_fixed_point ⟨genTables, ext⟩ f ty
    exact cellFixed_of_fixedPoint ext _ f ty .nil .nil a1 Wire.nil a2
  | string_int t v hv => exact cellFixed_of_lossless ext _ _ _ _ _ (wire_formatInt v) (string_int ext t v hv)
  | numeric_int t v hv =>
    exact cellFixed_of_lossless ext _ _ _ _ _ (wire_formatInt_num v) (numeric_int ext t v hv)
  | binary_int t v hv => exact cellFixed_of_lossless ext _ _ _ _ _ (wire_base64 _) (binary_int ext t v hv)
  | timestamp_int t v hv hmax =>
    exact cellFixed_of_lossless ext _ _ _ _ _ (Wire.int .i64 v) (Pairings.timestamp_int ext t v hv hmax)
  | timestamp_none v hv =>
    exact cellFixed_of_lossless ext _ _ _ _ _ (Wire.int .i64 v) (Pairings.timestamp_none ext v hv)
  | auto_int t v hv => exact cellFixed_of_lossless ext _ _ _ _ _ (Wire.int t v) (Pairings.auto_int ext t v hv)
  | string_str s hs => exact cellFixed_of_lossless ext _ _ _ _ _ (Wire.str s) (Pairings.string_str ext s hs).1
  | string_none s hs =>
    exact cellFixed_of_lossless ext _ _ _ _ _ (Wire.str s) (Pairings.string_str ext s hs).2.1
  | auto_str s hs => exact cellFixed_of_lossless ext _ _ _ _ _ (Wire.str s) (Pairings.string_str ext s hs).2.2
  | numeric_num l hl =>
    exact cellFixed_of_lossless ext _ _ _ _ _ (Wire.num l hl) (Pairings.numeric_num ext l hl).2.1
  | numeric_none l hl =>
    exact cellFixed_of_lossless ext _ _ _ _ _ (Wire.num l hl) (Pairings.numeric_num ext l hl).2.2.1
  | auto_num l hl =>
    exact cellFixed_of_lossless ext _ _ _ _ _ (Wire.num l hl) (Pairings.numeric_num ext l hl).2.2.2.1
  | string_num l hl =>
    refine cellFixed_of_lossless ext _ _ _ (.str l) (.str l) (Wire.str_fixed hl) ⟨?_, ?_⟩
    · simp only [exportVal]; exact Pairings.exportFail_ok _ _ (Pairings.toString_num ext l)
    · simp only [importCell, importByFormat, importFrom,
        Pairings.importFail_ok _ _ (Pairings.castTo_num_str ext l)]
  | numeric_str s hs =>
    exact cellFixed_of_lossless ext _ _ _ _ _ (Wire.num s hs) (SelfReadable.numeric_text ext s).2.1
  | numeric_bytes s hs =>
    exact cellFixed_of_lossless ext _ _ _ _ _ (Wire.num s hs) (SelfReadable.numeric_text ext s).2.2
  | timestamp_num l =>
    obtain ⟨n, rfl, hfp⟩ := SelfReadable.timestamp_num_fixed_point ext l e he
    exact cellFixed_of_fixedPoint ext _ _ _ _ _ he (Wire.int .i64 n) hfp
  | binary_bytes b => exact cellFixed_of_lossless ext _ _ _ _ _ (wire_base64 b) (Pairings.binary_bytes ext b).1
  | binary_none b => exact cellFixed_of_lossless ext _ _ _ _ _ (wire_base64 b) (Pairings.binary_bytes ext b).2
  | binary_str s => exact cellFixed_of_lossless ext _ _ _ _ _ (wire_base64 s) (Pairings.binary_str ext s)
  | binary_num l => exact cellFixed_of_lossless ext _ _ _ _ _ (wire_base64 l) (Pairings.binary_num ext l)
  | binary_bool b => exact cellFixed_of_lossless ext _ _ _ _ _ (wire_base64 _) (Pairings.binary_bool ext b)
  | binary_f64 b hb =>
    exact cellFixed_of_lossless ext _ _ _ _ _ (wire_base64 _) ((Pairings.binary_float ext).1 b hb)
  | binary_f32 b hb =>
    exact cellFixed_of_lossless ext _ _ _ _ _ (wire_base64 _) ((Pairings.binary_float ext).2 b hb)
  | boolean _ _ hwt hh =>
    obtain ⟨hcl, hfp⟩ := SelfReadable.boolean_fixed_point ext raw ty e hwt hh he
    rcases hcl with rfl | ⟨b, rfl⟩
    · exact cellFixed_of_fixedPoint ext _ _ _ _ _ he Wire.nil hfp
    · exact cellFixed_of_fixedPoint ext _ _ _ _ _ he (Wire.bool b) hfp
  | auto_bool b => exact cellFixed_of_lossless ext _ _ _ _ _ (Wire.bool b) (Pairings.auto_bool ext b).1
  | auto_none _ hd => exact cellFixed_canon ext _ hd
  | string_bool b =>
    obtain ⟨h3, h4⟩ := toString_bool ext b
    refine cellFixed_of_lossless ext _ _ _ _ _ (wire_formatBool b) ⟨?_, ?_⟩
    · simp only [exportVal, Pairings.exportFail_ok _ _ h3]
    · simp only [importCell, importByFormat, importFrom, Pairings.importFail_ok _ _ h4]
  | date _ _ hty =>
    rcases SelfReadable.date_fixed_point ext raw ty e hty he with ⟨rfl, hfp⟩ | ⟨d, rfl, _, _, hfp⟩
    · exact cellFixed_of_fixedPoint ext _ _ _ _ _ he Wire.nil hfp
    · exact cellFixed_of_fixedPoint ext _ _ _ _ _ he (Wire.str d) hfp
  | datetime_time t hy0 hy1 h60 hlo hhi =>
    obtain ⟨a, _⟩ := Pairings.datetime_time ext t hy0 hy1 h60 hlo hhi
    obtain ⟨⟨a3, _⟩, _⟩ := Pairings.datetime_time ext ⟨t.sec, 0, t.off⟩ hy0 hy1 h60 hlo hhi
    rw [Pairings.formatRFC3339_nsec] at a3
    exact cellFixed_of_pair ext _ _ _ _ _ _ (wire_rfc3339 t) a a3
  | datetime_none t hy0 hy1 h60 hlo hhi =>
    obtain ⟨_, a⟩ := Pairings.datetime_time ext t hy0 hy1 h60 hlo hhi
    obtain ⟨_, ⟨a3, _⟩⟩ := Pairings.datetime_time ext ⟨t.sec, 0, t.off⟩ hy0 hy1 h60 hlo hhi
    rw [Pairings.formatRFC3339_nsec] at a3
    exact cellFixed_of_pair ext _ _ _ _ _ _ (wire_rfc3339 t) a a3
  | string_time t hy0 hy1 h60 hlo hhi =>
    have a := Pairings.string_time ext t hy0 hy1 h60 hlo hhi
    obtain ⟨a3, _⟩ := Pairings.string_time ext ⟨t.sec, 0, t.off⟩ hy0 hy1 h60 hlo hhi
    rw [Pairings.formatRFC3339_nsec] at a3
    exact cellFixed_of_pair ext _ _ _ _ _ _ (wire_rfc3339 t) a a3
  | datetime_text _ _ s hwt hzone hs =>
    obtain ⟨t, rfl, _, _, hfp⟩ := SelfReadable.datetime_fixed_point ext raw s ty e hwt hzone hs he
    exact cellFixed_of_fixedPoint ext _ _ _ _ _ he (Wire.str _) hfp
  | numeric_time t off hz hsec =>
    obtain ⟨a, _⟩ := Pairings.numeric_time ext t off hz hsec
    obtain ⟨⟨a3, _⟩, _⟩ := Pairings.numeric_time ext ⟨t.sec, 0, off⟩ off hz hsec
    exact cellFixed_of_pair ext _ _ _ _ _ _ (wire_formatInt_num _) a a3
  | timestamp_time t off hz hsec =>
    obtain ⟨_, a⟩ := Pairings.numeric_time ext t off hz hsec
    obtain ⟨_, ⟨a3, _⟩⟩ := Pairings.numeric_time ext ⟨t.sec, 0, off⟩ off hz hsec
    exact cellFixed_of_pair ext _ _ _ _ _ _ (Wire.int .i64 _) a a3
  | numeric_bool b law =>
    exact cellFixed_of_lossless ext _ _ _ _ _ (Wire.num _ (by cases b <;> decide))
      (Pairings.numeric_bool ext law b).1
  | timestamp_bool b law =>
    exact cellFixed_of_lossless ext _ _ _ _ _ (Wire.int .i64 _) (Pairings.numeric_bool ext law b).2


/-! ### The summary over the table of pairings -/

/-- The pairings covered (each with every well-typed value of `Tables.inDomain`). -/
def coveredB (f : Format) (ty : Ty) : Bool :=
  match f, ty with
  | .string, .int _ | .string, .str | .string, .none | .string, .num | .string, .bool
  | .string, .time => true
  | .numeric, .int _ | .numeric, .num | .numeric, .none | .numeric, .time | .numeric, .bool => true
  | .binary, .int _ | .binary, .bytes | .binary, .none | .binary, .str | .binary, .num
  | .binary, .bool | .binary, .f64 | .binary, .f32 => true
  | .timestamp, .int _ | .timestamp, .none | .timestamp, .num | .timestamp, .time
  | .timestamp, .bool => true
  | .boolean, _ => true
  | .date, .none | .date, .str | .date, .bytes | .date, .num => true
  | .datetime, .time | .datetime, .none | .datetime, .str | .datetime, .bytes => true
  | .auto, .int _ | .auto, .str | .auto, .num | .auto, .bool | .auto, .none => true
  | _, _ => false

/-- Every covered pairing is one of the table's self-readable pairings, on a visible column. -/
theorem coveredB_selfReadable (f : Format) (ty : Ty) (h : coveredB f ty = true) :
    Tables.selfReadable f ty = true ∧ f ≠ .hidden := by
  cases f <;> cases ty <;> simp [coveredB] at h <;>
    simp [Tables.selfReadable, Tables.lossless, Tables.isInt, Tables.isFlt]

/-- What some pairings need besides: answers of the standard-library parameter (the process
    zone, ParseFloat on "1" and "0") and, for datetime(string | []byte), a raw text without the
    offset ±24:60. -/
def ExtHyp (ext : Ext) (f : Format) (ty : Ty) (raw : Dyn) : Prop :=
  match f, ty with
  | .boolean, ty => SelfReadable.BooleanHyp ext ty
  | .datetime, .str | .datetime, .bytes =>
    (∀ v off, ext.zoneOffset v = some off → SelfReadable.OffsetOK off) ∧
    ∀ s, (raw = .str s ∨ raw = .bytes s) → ∀ t, Time.parseRFC3339 s = some t → t.off.natAbs ≠ 90000
  | .numeric, .time | .timestamp, .time => ∀ t, raw = .time t → ∃ off, ext.zoneOffset t.sec = some off
  | .numeric, .bool | .timestamp, .bool => Pairings.DigitLaw ext
  | .binary, .f64 => ∀ b, raw = .f64 b → b < 2 ^ 64      -- the model's floats are bit patterns
  | .binary, .f32 => ∀ b, raw = .f32 b → b < 2 ^ 32
  | _, _ => True

theorem typeOf_f64 {v : Dyn} (h : typeOf v = .f64) : ∃ x, v = .f64 x := by
  cases v <;> simp [typeOf] at h
  exact ⟨_, rfl⟩
theorem typeOf_f32 {v : Dyn} (h : typeOf v = .f32) : ∃ x, v = .f32 x := by
  cases v <;> simp [typeOf] at h
  exact ⟨_, rfl⟩

theorem wellTyped_cases {f : Format} {ty : Ty} {raw : Dyn} (h : SelfReadable.WellTyped f ty raw) :
    raw = .nil ∨ typeOf raw = RowRoundTrip.valueTy f ty := by
  rcases h with h | ⟨h1, h2⟩ | ⟨h1, h2⟩
  · exact .inl h
  · exact .inr (by rw [RowRoundTrip.valueTy, if_neg h1]; exact h2)
  · exact .inr (by rw [RowRoundTrip.valueTy, if_pos h1]; exact h2)

open RowRoundTrip in
/-- **Summary, in the words of the tables**: for every pairing of `coveredB` (a sub-table of
    `Tables.selfReadable`), every raw value that is well-typed for the descriptor and in the
    property's domain is `Covered` — hence (`covered_cellFixed`) its printed cell is `CellFixed`. -/
theorem covered_of_table (ext : Ext) (f : Format) (ty : Ty) (hc : coveredB f ty = true) (raw : Dyn)
    (hwt : SelfReadable.WellTyped f ty raw) (hd : Tables.inDomain f ty raw = true)
    (hx : ExtHyp ext f ty raw) :
    Tables.selfReadable f ty = true ∧ Covered ext f ty raw := by
  refine ⟨(coveredB_selfReadable f ty hc).1, ?_⟩
  by_cases hb : f = .boolean
  · subst hb; exact .boolean ty raw hwt hx
  by_cases hdt : f = .date
  · subst hdt
    refine .date ty raw ?_
    cases ty <;> simp [coveredB] at hc <;> simp
  rcases wellTyped_cases hwt with rfl | hty
  · exact .nil f ty
  cases f <;> cases ty <;> simp [coveredB] at hc <;> simp [valueTy, Tables.defaultTy] at hty <;>
    (try (exact absurd rfl hb)) <;> (try (exact absurd rfl hdt))
  case string.int t =>
    obtain ⟨x, rfl⟩ := typeOf_int hty
    simp [Tables.inDomain] at hd
    exact .string_int t x hd
  case string.str =>
    obtain ⟨x, rfl⟩ := typeOf_str hty
    simp [Tables.inDomain] at hd
    exact .string_str x hd
  case string.none =>
    obtain ⟨x, rfl⟩ := typeOf_str hty
    simp [Tables.inDomain] at hd
    exact .string_none x hd
  case string.num =>
    obtain ⟨x, rfl⟩ := typeOf_num hty
    simp [Tables.inDomain] at hd
    rcases hd with hd | hd
    · exact .string_num x (sanitize_valid x hd)
    · exact .string_num x (Pairings.sanitize_validNumber x hd)
  case string.bool =>
    obtain ⟨x, rfl⟩ := typeOf_bool hty
    exact .string_bool x
  case string.time =>
    obtain ⟨x, rfl⟩ := typeOf_time hty
    obtain ⟨hy0, hy1, h60, hlo, hhi⟩ := Pairings.time_inDomain _ _ x hd
    exact .string_time x hy0 hy1 h60 hlo hhi
  case numeric.int t =>
    obtain ⟨x, rfl⟩ := typeOf_int hty
    simp [Tables.inDomain] at hd
    exact .numeric_int t x hd
  case numeric.num =>
    obtain ⟨x, rfl⟩ := typeOf_num hty
    simp [Tables.inDomain] at hd
    exact .numeric_num x hd
  case numeric.none =>
    obtain ⟨x, rfl⟩ := typeOf_num hty
    simp [Tables.inDomain] at hd
    exact .numeric_none x hd
  case numeric.time =>
    obtain ⟨x, rfl⟩ := typeOf_time hty
    obtain ⟨hy0, hy1, _, hlo, hhi⟩ := Pairings.time_inDomain _ _ x hd
    obtain ⟨off, hz⟩ := hx x rfl
    exact .numeric_time x off hz (Pairings.sec_bounds_of_year x hy0 hy1 hlo hhi)
  case numeric.bool =>
    obtain ⟨x, rfl⟩ := typeOf_bool hty
    exact .numeric_bool x hx
  case binary.int t =>
    obtain ⟨x, rfl⟩ := typeOf_int hty
    simp [Tables.inDomain] at hd
    exact .binary_int t x hd
  case binary.bytes =>
    obtain ⟨x, rfl⟩ := typeOf_bytes hty
    exact .binary_bytes x
  case binary.none =>
    obtain ⟨x, rfl⟩ := typeOf_bytes hty
    exact .binary_none x
  case binary.str =>
    obtain ⟨x, rfl⟩ := typeOf_str hty
    exact .binary_str x
  case binary.num =>
    obtain ⟨x, rfl⟩ := typeOf_num hty
    exact .binary_num x
  case binary.bool =>
    obtain ⟨x, rfl⟩ := typeOf_bool hty
    exact .binary_bool x
  case binary.f64 =>
    obtain ⟨x, rfl⟩ := typeOf_f64 hty
    exact .binary_f64 x (hx x rfl)
  case binary.f32 =>
    obtain ⟨x, rfl⟩ := typeOf_f32 hty
    exact .binary_f32 x (hx x rfl)
  case timestamp.int t =>
    obtain ⟨x, rfl⟩ := typeOf_int hty
    simp [Tables.inDomain] at hd
    exact .timestamp_int t x hd.1 hd.2
  case timestamp.none =>
    obtain ⟨x, rfl⟩ := typeOf_int hty
    simp [Tables.inDomain] at hd
    exact .timestamp_none x hd.1
  case timestamp.num =>
    obtain ⟨x, rfl⟩ := typeOf_num hty
    exact .timestamp_num x
  case timestamp.time =>
    obtain ⟨x, rfl⟩ := typeOf_time hty
    obtain ⟨hy0, hy1, _, hlo, hhi⟩ := Pairings.time_inDomain _ _ x hd
    obtain ⟨off, hz⟩ := hx x rfl
    exact .timestamp_time x off hz (Pairings.sec_bounds_of_year x hy0 hy1 hlo hhi)
  case timestamp.bool =>
    obtain ⟨x, rfl⟩ := typeOf_bool hty
    exact .timestamp_bool x hx
  case datetime.time =>
    obtain ⟨x, rfl⟩ := typeOf_time hty
    obtain ⟨hy0, hy1, h60, hlo, hhi⟩ := Pairings.time_inDomain _ _ x hd
    exact .datetime_time x hy0 hy1 h60 hlo hhi
  case datetime.none =>
    obtain ⟨x, rfl⟩ := typeOf_time hty
    obtain ⟨hy0, hy1, h60, hlo, hhi⟩ := Pairings.time_inDomain _ _ x hd
    exact .datetime_none x hy0 hy1 h60 hlo hhi
  case datetime.str =>
    obtain ⟨x, rfl⟩ := typeOf_str hty
    exact .datetime_text .str _ x (.inl ⟨rfl, rfl⟩) hx.1 (hx.2 x (.inl rfl))
  case datetime.bytes =>
    obtain ⟨x, rfl⟩ := typeOf_bytes hty
    exact .datetime_text .bytes _ x (.inr ⟨rfl, rfl⟩) hx.1 (hx.2 x (.inr rfl))
  case auto.int t =>
    obtain ⟨x, rfl⟩ := typeOf_int hty
    simp [Tables.inDomain] at hd
    exact .auto_int t x hd
  case auto.str =>
    obtain ⟨x, rfl⟩ := typeOf_str hty
    simp [Tables.inDomain] at hd
    exact .auto_str x hd
  case auto.num =>
    obtain ⟨x, rfl⟩ := typeOf_num hty
    simp [Tables.inDomain] at hd
    exact .auto_num x hd
  case auto.bool =>
    obtain ⟨x, rfl⟩ := typeOf_bool hty
    exact .auto_bool x
  case auto.none =>
    -- (`WellTyped` knows only nil here; arrays, objects and scalars: `Covered.auto_none`)
    rw [CastTyped.typeOf_eq_none.mp hty]
    exact .nil _ _



/-! ### The line-level theorem for the regenerated tables -/

/-- In the row `CreateRow` makes, a declared column holds a cell with the column's descriptor. -/
theorem declared_shape (env : Env) (to : Tmpl) (r row' : List (Bytes × Val))
    (hto : (OMap.keys to).Nodup)
    (hcr : createRow env to (.val (.row (Members.ofList r))) = .ok (row', none))
    (k : Bytes) (v : Val) (hv : OMap.lookup to k = some v) :
    ∃ raw', OMap.lookup row' k = some (.cell raw' (Cells.format v) (Cells.rawType v)) := by
  obtain ⟨row0, h0, hfill, _⟩ := Order.createRow_row_ok env to r row' none hcr
  obtain ⟨c0, hc0, hl0⟩ := cloneRow_lookup env to row0 h0 hto k v hv
  obtain ⟨raw0, rfl⟩ := newValue_cell hc0
  exact fillPairs_desc env _ row0 row' hfill k raw0 _ _ hl0

theorem marshalMembers_cell_ok (env : Env) : ∀ (ms : List (Bytes × Val)) (parts : List Bytes),
    marshalMembers env (Members.ofList ms) = .ok parts →
    ∀ k c, (k, c) ∈ ms → Cells.format c ≠ .hidden → ∃ t, marshalVal env c = .ok t
  | [], _, _, k, c, hm, _ => by cases hm
  | (k0, c0) :: ms, parts, h, k, c, hm, hvis => by
    simp only [Members.ofList] at h
    rw [marshalMembers.eq_def] at h
    simp only at h
    split at h
    · rename_i hh
      rcases List.mem_cons.mp hm with hm | hm
      · cases hm
        exact absurd (by simpa using hh) hvis
      · exact marshalMembers_cell_ok env ms parts h k c hm hvis
    · split at h
      · rename_i b hb
        split at h
        · rename_i rest hrest
          rcases List.mem_cons.mp hm with hm | hm
          · cases hm; exact ⟨b, hb⟩
          · exact marshalMembers_cell_ok env ms rest hrest k c hm hvis
        · cases h
        · cases h
      · cases h
      · cases h

theorem export_of_marshal {env : Env} {raw : Dyn} {f : Format} {ty : Ty} {t : Bytes}
    (h : marshalVal env (.cell raw f ty) = .ok t) : ∃ e, exportVal env (.cell raw f ty) = .ok e := by
  rw [marshalVal.eq_def] at h
  simp only at h
  split at h
  · rename_i e he; exact ⟨e, he⟩
  · cases h
  · cases h

/-- **C05 at line level for the regenerated tables.**  Hypotheses, each excluding a known
    deviation or stating a domain:
    * `hto`: the output columns have distinct names; `hsan_*`: column names are delivered
      unchanged by the reader (ill-formed UTF-8 in a name is replaced by U+FFFD:
      `RowRoundTrip.route_key_not_fixed`);
    * `hx`: json.Marshal spells floats as JSON numbers;
    * `hcov`: every visible declared cell of the emitted row holds a `Covered` raw value — this
      excludes `swallowed_cast_counterexample` (a raw value kept uncast), `offset_24_60`, and
      strings that are not UTF-8; a cell under a name only `ti` declares is `FreeFixed`.
    Nothing is asked of the members no template declares (`gen_free_cells`): repeated names,
    nested objects and arrays included. -/
theorem gen_line_fixed_point (ext : Ext) (hx : FloatTextOK ext) (ti to : Tmpl) (line b : Bytes)
    (hto : (OMap.keys to).Nodup)
    (hsan_to : ∀ k ∈ OMap.keys to, sanitize k = k) (hsan_ti : ∀ k ∈ OMap.keys ti, sanitize k = k)
    (h : jlLine ⟨genTables, ext⟩ ti to line = .ok (b, none))
    (hcov : ∀ r row', getRow ⟨genTables, ext⟩ ti line = .ok (r, none) →
      createRow ⟨genTables, ext⟩ to (.val (.row (Members.ofList r))) = .ok (row', none) →
      (∀ k v raw, OMap.lookup to k = some v → Cells.format v ≠ .hidden →
        OMap.lookup row' k = some (.cell raw (Cells.format v) (Cells.rawType v)) →
        Covered ext (Cells.format v) (Cells.rawType v) raw) ∧
      (∀ k c, k ∈ OMap.keys ti → k ∉ OMap.keys to → OMap.lookup row' k = some c →
        FreeFixed ⟨genTables, ext⟩ c)) :
    ∃ body, b = body ++ [0x0A] ∧ jlLine ⟨genTables, ext⟩ to to body = .ok (b, none) := by
  refine line_fixed_point ⟨genTables, ext⟩ hx ti to line b hto hsan_to hsan_ti h
    (fun k v c0 _ _ hc => ⟨c0, gen_reclone ext v c0 hc⟩) ?_
  intro r row' body hget hcr hm
  obtain ⟨hc1, hc2⟩ := hcov r row' hget hcr
  constructor
  · intro k v c hv hvis hc
    obtain ⟨raw, hraw⟩ := declared_shape _ to r row' hto hcr k v hv
    rw [hc] at hraw
    cases hraw
    obtain ⟨parts, hparts, _⟩ := marshalRow_shape hm
    obtain ⟨t, ht⟩ := marshalMembers_cell_ok _ row' parts hparts k _ (mem_of_lookup hc)
      (by rw [format_cell]; exact hvis)
    obtain ⟨e, he⟩ := export_of_marshal ht
    exact covered_cellFixed ext _ _ raw (hc1 k v raw hv hvis hc) e he
  · intro k c hkto hc
    by_cases hkti : k ∈ OMap.keys ti
    · exact hc2 k c hkti hkto hc
    · exact gen_free_cells ext ti to line r row' hget hcr k c hkti hkto hc

/-- The same when every input column is also an output column. -/
theorem gen_line_fixed_point_same_columns (ext : Ext) (hx : FloatTextOK ext) (ti to : Tmpl)
    (line b : Bytes) (hto : (OMap.keys to).Nodup)
    (hsan_to : ∀ k ∈ OMap.keys to, sanitize k = k)
    (hsub : ∀ k ∈ OMap.keys ti, k ∈ OMap.keys to)
    (h : jlLine ⟨genTables, ext⟩ ti to line = .ok (b, none))
    (hcov : ∀ r row', getRow ⟨genTables, ext⟩ ti line = .ok (r, none) →
      createRow ⟨genTables, ext⟩ to (.val (.row (Members.ofList r))) = .ok (row', none) →
      ∀ k v raw, OMap.lookup to k = some v → Cells.format v ≠ .hidden →
        OMap.lookup row' k = some (.cell raw (Cells.format v) (Cells.rawType v)) →
        Covered ext (Cells.format v) (Cells.rawType v) raw) :
    ∃ body, b = body ++ [0x0A] ∧ jlLine ⟨genTables, ext⟩ to to body = .ok (b, none) :=
  gen_line_fixed_point ext hx ti to line b hto hsan_to (fun k hk => hsan_to k (hsub k hk)) h
    (fun r row' hget hcr => ⟨hcov r row' hget hcr, fun k _ hk hn => absurd (hsub k hk) hn⟩)

/-- The first form asked for, in ANY environment: a line all of whose member names are declared
    by `to` (and input columns that are output columns) needs `CellFixed` of the visible declared
    cells only. -/
theorem line_fixed_point_declared (env : Env) (hx : FloatTextOK env.ext) (ti to : Tmpl)
    (line b : Bytes) (hto : (OMap.keys to).Nodup)
    (hsan_to : ∀ k ∈ OMap.keys to, sanitize k = k)
    (hsub : ∀ k ∈ OMap.keys ti, k ∈ OMap.keys to)
    (hall : ∀ k ∈ Order.inputKeys line, k ∈ OMap.keys to)
    (h : jlLine env ti to line = .ok (b, none))
    (hhid : ∀ k v c0, OMap.lookup to k = some v → Cells.format v = .hidden →
      cloneValue env v = .ok c0 → ∃ c2, cloneValue env c0 = .ok c2)
    (hcells : ∀ r row' body, getRow env ti line = .ok (r, none) →
      createRow env to (.val (.row (Members.ofList r))) = .ok (row', none) →
      marshalRow env (Members.ofList row') = .ok body →
      ∀ k v c, OMap.lookup to k = some v → Cells.format v ≠ .hidden →
        OMap.lookup row' k = some c → CellFixed env (Cells.format v) (Cells.rawType v) c) :
    ∃ body, b = body ++ [0x0A] ∧ jlLine env to to body = .ok (b, none) := by
  refine line_fixed_point env hx ti to line b hto hsan_to (fun k hk => hsan_to k (hsub k hk)) h hhid ?_
  intro r row' body hget hcr hm
  refine ⟨hcells r row' body hget hcr hm, fun k c hkto hc => ?_⟩
  rcases emitted_key_cases env ti to line r row' hget hcr k (mem_keys_of_lookup hc) with h1 | h1 | h1
  · exact absurd h1 hkto
  · exact absurd (hsub k h1) hkto
  · exact absurd (hall k h1) hkto

/-! ### Cells under a name only the input template declares -/

/-- Raw values that an Auto cell prints and re-reads alike, in any environment: nil, bools,
    integers, strings the reader delivers unchanged, valid number literals. -/
inductive FreeScalar : Dyn → Prop
  | nil : FreeScalar .nil
  | bool (b : Bool) : FreeScalar (.bool b)
  | int (t : IntTy) (v : Int) : FreeScalar (.int t v)
  | str (s : Bytes) : sanitize s = s → FreeScalar (.str s)
  | num (l : Bytes) : JsonWrite.isValidNumber l = true → FreeScalar (.num l)

theorem freeFixed_scalar (env : Env) (raw : Dyn) (h : FreeScalar raw) :
    FreeFixed env (Cells.autoCell raw) := by
  unfold FreeFixed
  rw [Cells.autoCell, RoundTrip.treeVal_auto]
  cases h with
  | nil => exact ⟨.nil, by simp only [treeExported, ofJV], rfl⟩
  | bool b => exact ⟨.bool b, by simp only [treeExported, ofJV], rfl⟩
  | int t v =>
    refine ⟨.num (IntText.formatInt v), by simp only [treeExported, ofJV], ?_⟩
    rw [Cells.autoCell, marshalVal_auto, marshalVal_auto, marshalDyn_int,
      RoundTrip.marshalDyn_num env (IntText.isValidNumber_formatInt v)]
  | str s hs => exact ⟨.str s, by simp only [treeExported, ofJV, hs], rfl⟩
  | num l hl =>
    exact ⟨.num l, by simp only [treeExported, ofJV, RowRoundTrip.numText_valid hl], rfl⟩

/-! ### The line-level theorem in the words of the tables -/

/-- **Summary at line level.**  Output template: distinct `sanitize`-fixed names, every visible
    column a pairing of `coveredB` (⊆ `Tables.selfReadable`); every input column is an output
    column; undeclared members are free.  If every visible declared cell of the emitted row holds a
    raw value that is well-typed for its descriptor (this is what `swallowed-cast` violates), in
    the property's domain, with the standard-library answers the pairing needs (`ExtHyp`, which
    also excludes `offset-24-60`), then the emitted line is a fixed point of `(to, to)`. -/
theorem gen_line_fixed_point_table (ext : Ext) (hx : FloatTextOK ext) (ti to : Tmpl)
    (line b : Bytes) (hto : (OMap.keys to).Nodup)
    (hsan_to : ∀ k ∈ OMap.keys to, sanitize k = k)
    (hsub : ∀ k ∈ OMap.keys ti, k ∈ OMap.keys to)
    (hpair : ∀ k v, OMap.lookup to k = some v → Cells.format v ≠ .hidden →
      coveredB (Cells.format v) (Cells.rawType v) = true)
    (h : jlLine ⟨genTables, ext⟩ ti to line = .ok (b, none))
    (hval : ∀ r row', getRow ⟨genTables, ext⟩ ti line = .ok (r, none) →
      createRow ⟨genTables, ext⟩ to (.val (.row (Members.ofList r))) = .ok (row', none) →
      ∀ k v raw, OMap.lookup to k = some v → Cells.format v ≠ .hidden →
        OMap.lookup row' k = some (.cell raw (Cells.format v) (Cells.rawType v)) →
        SelfReadable.WellTyped (Cells.format v) (Cells.rawType v) raw ∧
        Tables.inDomain (Cells.format v) (Cells.rawType v) raw = true ∧
        ExtHyp ext (Cells.format v) (Cells.rawType v) raw) :
    (∀ k v, OMap.lookup to k = some v → Cells.format v ≠ .hidden →
      Tables.selfReadable (Cells.format v) (Cells.rawType v) = true) ∧
    ∃ body, b = body ++ [0x0A] ∧ jlLine ⟨genTables, ext⟩ to to body = .ok (b, none) := by
  refine ⟨fun k v hv hvis => (coveredB_selfReadable _ _ (hpair k v hv hvis)).1, ?_⟩
  refine gen_line_fixed_point_same_columns ext hx ti to line b hto hsan_to hsub h ?_
  intro r row' hget hcr k v raw hv hvis hc
  obtain ⟨h1, h2, h3⟩ := hval r row' hget hcr k v raw hv hvis hc
  exact (covered_of_table ext _ _ (hpair k v hv hvis) raw h1 h2 h3).2


/-! ### Templates of auto columns: no hypothesis on the line -/

/-- A whole class of templates for which nothing is asked of the line: every output column is
    `auto` or `hidden` without raw type (prototype nil: what `With(name, "auto")` and unknown
    descriptors give), the visible ones being declared `auto` by the input template too.  Every
    accepted line — scalars, arrays, nested objects, repeated names, absent columns — is emitted as
    a fixed point of `(to, to)`. -/
theorem gen_line_fixed_point_auto_columns (ext : Ext) (hx : FloatTextOK ext) (ti to : Tmpl)
    (line b : Bytes) (hti : (OMap.keys ti).Nodup) (hto : (OMap.keys to).Nodup)
    (hsan_to : ∀ k ∈ OMap.keys to, sanitize k = k)
    (hsub : ∀ k ∈ OMap.keys ti, k ∈ OMap.keys to)
    (hcols_to : ∀ k v, OMap.lookup to k = some v →
      v = .cell .nil .auto .none ∨ v = .cell .nil .hidden .none)
    (hcols_ti : ∀ k, OMap.lookup to k = some (.cell .nil .auto .none) →
      OMap.lookup ti k = some (.cell .nil .auto .none))
    (h : jlLine ⟨genTables, ext⟩ ti to line = .ok (b, none)) :
    ∃ body, b = body ++ [0x0A] ∧ jlLine ⟨genTables, ext⟩ to to body = .ok (b, none) := by
  refine gen_line_fixed_point_same_columns ext hx ti to line b hto hsan_to hsub h ?_
  intro r row' hget hcr k v raw hv hvis hc
  rcases hcols_to k v hv with rfl | rfl
  · have htik := hcols_ti k hv
    obtain ⟨h1, h2⟩ := gen_imported_auto_none ext ti line r hti hget k .nil htik
    obtain ⟨hc1, _⟩ := created_cell _ to r row' hto
      (Order.getRow_keys_nodup _ ti line r hget) hcr k _ hv
    simp only [format_cell, rawType_cell] at hc hc1 ⊢
    by_cases hin : k ∈ Order.inputKeys line
    · obtain ⟨d, hd, hrk⟩ := h1 hin
      obtain ⟨c', hc', hl'⟩ := hc1 _ hrk
      rw [raw_cell, RowRoundTrip.gen_newValue_none] at hc'
      cases hc'
      rw [hc] at hl'
      cases hl'
      exact .auto_none _ hd
    · obtain ⟨c', hc', hl'⟩ := hc1 _ (h2 hin)
      rw [raw_cell, RowRoundTrip.gen_newValue_none] at hc'
      cases hc'
      rw [hc] at hl'
      cases hl'
      exact .nil _ _
  · exact absurd rfl hvis

/-- In particular the untemplated pipeline (C02's fixed point, here with repeated member names
    allowed, for the regenerated tables). -/
theorem gen_untemplated_fixed_point (ext : Ext) (hx : FloatTextOK ext) (line b : Bytes)
    (h : jlLine ⟨genTables, ext⟩ [] [] line = .ok (b, none)) :
    ∃ body, b = body ++ [0x0A] ∧ jlLine ⟨genTables, ext⟩ [] [] body = .ok (b, none) :=
  gen_line_fixed_point_auto_columns ext hx [] [] line b List.nodup_nil List.nodup_nil
    (fun _ hk => (by cases hk)) (fun _ hk => hk) (fun _ _ hv => (by cases hv))
    (fun _ hv => (by cases hv)) h

/-! ### 3. The hypotheses are needed: `swallowed-cast` at line level -/

namespace Swallowed
open Json

def kc : Bytes := [0x63]
/-- one column `c`: string(int) -/
def tmpl : Tmpl := withCol [] kc .string (.int .int)
/-- `{"c":""}` -/
def line : Bytes := [0x7B, 0x22, 0x63, 0x22, 0x3A, 0x22, 0x22, 0x7D]

theorem tmpl_eq : tmpl = [(kc, .cell .nil .string (.int .int))] := rfl

theorem read_line : Json.unmarshal line = (.cons kc (.str []) .nil, true) := by
  simp [line, kc, unmarshal, token, tokenCore, skipSpace, isSpace, asClose, parseObject,
    parseArray, more, asKey, asTok, strBody, pre, handleDelim, scanScalar, scanNumber, scanInt, scanFracExp,
    scanExp, digits, isDigit, valueAllowed, valueEnd, isEof, hex4, hexVal, simpleEscape, isSurrogate,
    Utf8.encode, stripPrefix]

theorem cast_empty (ext : Ext) : castTo genTables ext (.int .int) (.str []) = .err .cast := by
  simp [castTo, callNamed, genTables, Gen.casters, Gen.dispatchTo, findClause, typeOf, evalBranch, evalE,
    runParse, IntText.parseInt0, failWith, Gen.sentinels, wrapsRoot]

theorem toString_empty (ext : Ext) : castNamed genTables ext "ToString" (.str []) = .ok (.str []) :=
  Pairings.toString_str ext []

theorem empty (ext : Ext) : createRowEmpty ⟨genTables, ext⟩ tmpl = .ok tmpl := by
  simp [createRowEmpty, cloneRow, cloneInto, cloneValue, newValue, tmpl_eq,
    RowRoundTrip.gen_castTo_nil, upsert, OMap.upsert, Cells.raw, Cells.format, Cells.rawType]

/-- The untemplated importer reads the line as the row `c : ""` (an Auto cell). -/
theorem getRow_untemplated (env : Env) :
    getRow env [] line = .ok ([(kc, .cell (.str []) .auto .none)], none) := by
  simp [getRow, createRowEmpty, cloneRow, cloneInto, unmarshalInto, read_line, ofJVMembers, ofJV,
    parseMembers, parseMember, lookup, upsert, OMap.lookup, OMap.upsert, Cells.autoCell]

/-- The exporter under string(int): `NewValue` swallows the failed cast and keeps the string. -/
theorem createRow_swallows (ext : Ext) :
    createRow ⟨genTables, ext⟩ tmpl (.val (.row (Members.ofList [(kc, .cell (.str []) .auto .none)]))) =
      .ok ([(kc, .cell (.str []) .string (.int .int))], none) := by
  have h0 := empty ext
  rw [createRowEmpty, tmpl_eq] at h0
  simp [createRow, h0, tmpl_eq, fillPairs, fill, lookup, upsert, OMap.lookup, OMap.upsert, newValue,
    cast_empty, Cells.raw, Cells.format, Cells.rawType, Members.ofList, Members.toList]

theorem marshal_swallowed (ext : Ext) :
    marshalRow ⟨genTables, ext⟩ (Members.ofList [(kc, .cell (.str []) .string (.int .int))]) = .ok line := by
  have he : exportVal ⟨genTables, ext⟩ (.cell (.str []) .string (.int .int)) = .ok (.str []) := by
    simp [exportVal, exportFail, toString_empty]
  have hv : marshalVal ⟨genTables, ext⟩ (.cell (.str []) .string (.int .int)) = .ok (JsonWrite.quote []) := by
    rw [marshalVal_cell he, marshalExported.eq_def]
  have := marshalRow_eq ⟨genTables, ext⟩ _
    (marshalMembers_cons ⟨genTables, ext⟩ kc _ .nil (by decide) hv (marshalMembers_nil _))
  simpa [Members.ofList, line, kc, joinComma, JsonWrite.quote, JsonWrite.quoteBody, JsonWrite.htmlSafe,
    Utf8.seqLen] using this

/-- **Known finding `swallowed-cast`, at line level.**  The line `{"c":""}` is accepted under
    (no input template, output column `c`: string(int)) and emitted as `{"c":""}` — the raw
    string, kept uncast by `NewValue`, is not `Covered` (it is not well-typed for the
    descriptor) — and that emitted line is REJECTED by the second pass under `(to, to)`: nothing
    is written and the line is reported with ErrUnsupportedImportType.  Every other hypothesis
    of `gen_line_fixed_point` holds here (`other_hypotheses`). -/
theorem swallowed_cast_line (ext : Ext) :
    jlLine ⟨genTables, ext⟩ [] tmpl line = .ok (line ++ [0x0A], none) ∧
    jlLine ⟨genTables, ext⟩ tmpl tmpl line = .ok ([], some .unsupportedImport) := by
  constructor
  · simp only [jlLine, getRow_untemplated, exportLine, createRow_swallows, marshal_swallowed]
  · have himp : importVal ⟨genTables, ext⟩ (.cell .nil .string (.int .int)) (.str []) =
        .ok (.cell .nil .string (.int .int), some .unsupportedImport) := by
      rw [importVal_cell]
      simp [importCell, importByFormat, importFrom, cast_empty, importFail]
    have hget : getRow ⟨genTables, ext⟩ tmpl line =
        .ok ([(kc, .cell .nil .string (.int .int))], some .unsupportedImport) := by
      simp only [getRow, empty, unmarshalInto, read_line]
      simp [tmpl_eq, ofJVMembers, ofJV, parseMembers, parseMember, himp, lookup, upsert, OMap.lookup,
        OMap.upsert]
    simp only [jlLine, hget]

/-- In particular no body `b'` with `line ++ "\n" = b' ++ "\n"` is re-emitted: the conclusion of
    the line-level theorem fails. -/
theorem not_fixed_point (ext : Ext) :
    ¬ ∃ body, line ++ [0x0A] = body ++ [0x0A] ∧
      jlLine ⟨genTables, ext⟩ tmpl tmpl body = .ok (line ++ [0x0A], none) := by
  rintro ⟨body, hb, hj⟩
  rw [← List.append_cancel_right hb, (swallowed_cast_line ext).2] at hj
  cases hj

/-- The other hypotheses hold: distinct `sanitize`-fixed names, no undeclared member. -/
theorem other_hypotheses :
    (OMap.keys tmpl).Nodup ∧ (∀ k ∈ OMap.keys tmpl, sanitize k = k) ∧
    (∀ k ∈ OMap.keys ([] : Tmpl), k ∈ OMap.keys tmpl) ∧
    (∀ k ∈ Order.inputKeys line, k ∈ OMap.keys tmpl) := by
  refine ⟨by decide, ?_, fun k hk => (by cases hk), ?_⟩
  · intro k hk
    have : k = kc := by simpa [tmpl_eq, OMap.keys] using hk
    subst this
    exact RowRoundTrip.key_ascii kc (by simp [Pairings.Ascii, kc])
  · intro k hk
    simp only [Order.inputKeys, read_line, JVMembers.toList, List.map_cons, List.map_nil,
      List.mem_cons, List.not_mem_nil, or_false] at hk
    subst hk
    simp [tmpl_eq, OMap.keys]

/-- …and the cell that breaks it is exactly the one `Covered` excludes: `""` is no int. -/
theorem not_covered (ext : Ext) : ¬ Covered ext .string (.int .int) (.str []) := by
  intro h
  cases h

end Swallowed

/-! ### 3b. …and ill-formed UTF-8 in the JSON transport, at line level -/

namespace IllFormed
open Json

def kc : Bytes := [0x63]
/-- input column `c`: binary(string); output column `c`: string(string) -/
def ti : Tmpl := withCol [] kc .binary .str
def to : Tmpl := withCol [] kc .string .str
/-- `{"c":"/w=="}` — the base64 text of the single byte FF -/
def line : Bytes := [0x7B, 0x22, 0x63, 0x22, 0x3A, 0x22, 0x2F, 0x77, 0x3D, 0x3D, 0x22, 0x7D]
/-- `{"c":"�"}` — the escape, six ASCII bytes -/
def body1 : Bytes := [0x7B, 0x22, 0x63, 0x22, 0x3A, 0x22, 0x5C, 0x75, 0x66, 0x66, 0x66, 0x64, 0x22, 0x7D]
/-- `{"c":"�"}` — the character U+FFFD itself, three bytes -/
def body2 : Bytes := [0x7B, 0x22, 0x63, 0x22, 0x3A, 0x22, 0xEF, 0xBF, 0xBD, 0x22, 0x7D]

theorem ti_eq : ti = [(kc, .cell .nil .binary .str)] := rfl
theorem to_eq : to = [(kc, .cell .nil .string .str)] := rfl

theorem read_line : Json.unmarshal line = (.cons kc (.str [0x2F, 0x77, 0x3D, 0x3D]) .nil, true) := by
  simp [line, kc, unmarshal, token, tokenCore, skipSpace, isSpace, asClose, parseObject,
    parseArray, more, asKey, asTok, strBody, pre, handleDelim, scanScalar, scanNumber, scanInt, scanFracExp,
    scanExp, digits, isDigit, valueAllowed, valueEnd, isEof, hex4, hexVal, simpleEscape, isSurrogate,
    Utf8.encode, stripPrefix]

theorem read_body1 : Json.unmarshal body1 = (.cons kc (.str [0xEF, 0xBF, 0xBD]) .nil, true) := by
  simp [body1, kc, unmarshal, token, tokenCore, skipSpace, isSpace, asClose, parseObject,
    parseArray, more, asKey, asTok, strBody, pre, handleDelim, scanScalar, scanNumber, scanInt, scanFracExp,
    scanExp, digits, isDigit, valueAllowed, valueEnd, isEof, hex4, hexVal, simpleEscape, isSurrogate,
    Utf8.encode, stripPrefix]

theorem empty (ext : Ext) (f : Format) :
    createRowEmpty ⟨genTables, ext⟩ [(kc, .cell .nil f .str)] = .ok [(kc, .cell .nil f .str)] := by
  simp [createRowEmpty, cloneRow, cloneInto, cloneValue, newValue,
    RowRoundTrip.gen_castTo_nil, upsert, OMap.upsert, Cells.raw, Cells.format, Cells.rawType]

theorem decode_ff : Base64.decode [0x2F, 0x77, 0x3D, 0x3D] = some [0xFF] := by decide

/-- binary(string) reads the base64 text as the one-byte string FF, which is not UTF-8. -/
theorem getRow_line (ext : Ext) :
    getRow ⟨genTables, ext⟩ ti line = .ok ([(kc, .cell (.str [0xFF]) .binary .str)], none) := by
  have himp : importVal ⟨genTables, ext⟩ (.cell .nil .binary .str) (.str [0x2F, 0x77, 0x3D, 0x3D]) =
      .ok (.cell (.str [0xFF]) .binary .str, none) := by
    rw [importVal_cell]
    simp only [importCell, importByFormat, importFromBinary,
      Pairings.importFail_ok _ _ (Pairings.toString_str ext _), decode_ff,
      Pairings.importFail_ok _ _ (Pairings.castTo_str_bytes ext [0xFF])]
  simp only [getRow, ti_eq, empty, unmarshalInto, read_line]
  simp [ofJVMembers, ofJV, parseMembers, parseMember, himp, lookup, upsert, OMap.lookup, OMap.upsert]

theorem createRow_str (ext : Ext) (f : Format) (ty : Ty) (s : Bytes) :
    createRow ⟨genTables, ext⟩ to (.val (.row (Members.ofList [(kc, .cell (.str s) f ty)]))) =
      .ok ([(kc, .cell (.str s) .string .str)], none) := by
  have h0 := empty ext .string
  rw [createRowEmpty] at h0
  simp [createRow, h0, to_eq, fillPairs, fill, lookup, upsert, OMap.lookup, OMap.upsert, newValue,
    Pairings.castTo_str_str, Cells.raw, Cells.format, Cells.rawType, Members.ofList, Members.toList]

theorem marshal_str (ext : Ext) (s : Bytes) :
    marshalRow ⟨genTables, ext⟩ (Members.ofList [(kc, .cell (.str s) .string .str)]) =
      .ok (0x7B :: (joinComma [JsonWrite.quote kc ++ 0x3A :: JsonWrite.quote s] ++ [0x7D])) := by
  have he : exportVal ⟨genTables, ext⟩ (.cell (.str s) .string .str) = .ok (.str s) := by
    simp only [exportVal]; exact Pairings.exportFail_ok _ _ (Pairings.toString_str ext s)
  have hv : marshalVal ⟨genTables, ext⟩ (.cell (.str s) .string .str) = .ok (JsonWrite.quote s) := by
    rw [marshalVal_cell he, marshalExported.eq_def]
  exact marshalRow_eq ⟨genTables, ext⟩ _
    (marshalMembers_cons ⟨genTables, ext⟩ kc _ .nil (by simp [Cells.format]) hv (marshalMembers_nil _))

theorem text1 :
    (0x7B :: (joinComma [JsonWrite.quote kc ++ 0x3A :: JsonWrite.quote [0xFF]] ++ [0x7D])) = body1 := by
  simp [body1, kc, joinComma, JsonWrite.quote, JsonWrite.quoteBody, JsonWrite.htmlSafe, Utf8.seqLen]

theorem text2 :
    (0x7B :: (joinComma [JsonWrite.quote kc ++ 0x3A :: JsonWrite.quote [0xEF, 0xBF, 0xBD]] ++ [0x7D])) = body2 := by
  simp [body2, kc, joinComma, JsonWrite.quote, JsonWrite.quoteBody, JsonWrite.htmlSafe, Utf8.seqLen,
    Utf8.isCont]

/-- **Known deviation, at line level**: the emitted line `{"c":"�"}` IS accepted by the
    second pass, but re-emitted as `{"c":"�"}` (the raw character): 11 bytes instead of 14.  The
    cell `string(string)` holding the byte FF is not `Covered` (`Utf8.valid` fails). -/
theorem ill_formed_line (ext : Ext) :
    jlLine ⟨genTables, ext⟩ ti to line = .ok (body1 ++ [0x0A], none) ∧
    jlLine ⟨genTables, ext⟩ to to body1 = .ok (body2 ++ [0x0A], none) ∧ body2 ≠ body1 := by
  refine ⟨?_, ?_, by decide⟩
  · simp only [jlLine, getRow_line, exportLine, createRow_str, marshal_str, text1]
  · have himp : importVal ⟨genTables, ext⟩ (.cell .nil .string .str) (.str [0xEF, 0xBF, 0xBD]) =
        .ok (.cell (.str [0xEF, 0xBF, 0xBD]) .string .str, none) := by
      rw [importVal_cell]
      exact (Pairings.string_str_any ext _).1
    have hget : getRow ⟨genTables, ext⟩ to body1 =
        .ok ([(kc, .cell (.str [0xEF, 0xBF, 0xBD]) .string .str)], none) := by
      simp only [getRow, to_eq, empty, unmarshalInto, read_body1]
      simp [ofJVMembers, ofJV, parseMembers, parseMember, himp, lookup, upsert, OMap.lookup, OMap.upsert]
    simp only [jlLine, hget, exportLine, createRow_str, marshal_str, text2]

theorem not_covered (ext : Ext) : ¬ Covered ext .string .str (.str [0xFF]) := by
  intro h
  cases h with
  | string_str _ hs => simp [Utf8.valid, Utf8.seqLen] at hs

end IllFormed

/-! ### 4. Non-vacuity: two columns, an undeclared member, both passes computed -/

namespace Demo
open Json

def kn : Bytes := [0x6E]
def kd : Bytes := [0x64]
def kx : Bytes := [0x78]
/-- `2020-01-02` -/
def date : Bytes := [0x32, 0x30, 0x32, 0x30, 0x2D, 0x30, 0x31, 0x2D, 0x30, 0x32]
def n300 : Bytes := [0x33, 0x30, 0x30]

/-- columns `n`: numeric(int16), `d`: date -/
def tmpl : Tmpl := withCol (withCol [] kn .numeric (.int .i16)) kd .date .none

/-- `{"d":"2020-01-02","n":300,"x":[1]}` -/
def line : Bytes :=
  [0x7B, 0x22, 0x64, 0x22, 0x3A, 0x22] ++ date ++ [0x22, 0x2C, 0x22, 0x6E, 0x22, 0x3A] ++ n300 ++
  [0x2C, 0x22, 0x78, 0x22, 0x3A, 0x5B, 0x31, 0x5D, 0x7D]

/-- `{"n":300,"d":"2020-01-02","x":[1]}` -/
def body : Bytes :=
  [0x7B, 0x22, 0x6E, 0x22, 0x3A] ++ n300 ++ [0x2C, 0x22, 0x64, 0x22, 0x3A, 0x22] ++ date ++
  [0x22, 0x2C, 0x22, 0x78, 0x22, 0x3A, 0x5B, 0x31, 0x5D, 0x7D]

def xval : Dyn := .arr (.cons (.num [0x31]) .nil)

def imported : List (Bytes × Val) :=
  [(kn, .cell (.int .i16 300) .numeric (.int .i16)), (kd, .cell (.str date) .date .none),
   (kx, .cell xval .auto .none)]

theorem tmpl_eq : tmpl = [(kn, .cell .nil .numeric (.int .i16)), (kd, .cell .nil .date .none)] := by
  simp [tmpl, withCol, upsert, OMap.upsert, kn, kd]

theorem read_line : Json.unmarshal line =
    (.cons kd (.str date) (.cons kn (.num n300) (.cons kx (.arr (.cons (.num [0x31]) .nil)) .nil)), true) := by
  simp [line, date, n300, kd, kn, kx, unmarshal, token, tokenCore, skipSpace, isSpace, asClose, parseObject,
    parseArray, more, asKey, asTok, strBody, pre, handleDelim, scanScalar, scanNumber, scanInt, scanFracExp,
    scanExp, digits, isDigit, valueAllowed, valueEnd, isEof, hex4, hexVal, simpleEscape, isSurrogate,
    Utf8.encode, stripPrefix]

theorem read_body : Json.unmarshal body =
    (.cons kn (.num n300) (.cons kd (.str date) (.cons kx (.arr (.cons (.num [0x31]) .nil)) .nil)), true) := by
  simp [body, date, n300, kd, kn, kx, unmarshal, token, tokenCore, skipSpace, isSpace, asClose, parseObject,
    parseArray, more, asKey, asTok, strBody, pre, handleDelim, scanScalar, scanNumber, scanInt, scanFracExp,
    scanExp, digits, isDigit, valueAllowed, valueEnd, isEof, hex4, hexVal, simpleEscape, isSurrogate,
    Utf8.encode, stripPrefix]

theorem date_ok : Time.parseDateOk date = true := by decide

theorem cast_nil (ext : Ext) (ty : Ty) (hty : ty ≠ .other) : castTo genTables ext ty .nil = .ok .nil :=
  RowRoundTrip.gen_castTo_nil ext ty hty

theorem cast_num (ext : Ext) : castTo genTables ext (.int .i16) (.num n300) = .ok (.int .i16 300) :=
  RowRoundTrip.Demo.cast_back ext

theorem empty (ext : Ext) : createRowEmpty ⟨genTables, ext⟩ tmpl = .ok tmpl := by
  simp [createRowEmpty, cloneRow, cloneInto, cloneValue, newValue, tmpl_eq, cast_nil,
    CastTyped.gen_castTo_none, upsert, OMap.upsert, Cells.raw, Cells.format, Cells.rawType, kn, kd]

theorem import_n (ext : Ext) (raw : Dyn) :
    importVal ⟨genTables, ext⟩ (.cell raw .numeric (.int .i16)) (.num n300) =
      .ok (.cell (.int .i16 300) .numeric (.int .i16), none) := by
  rw [importVal_cell]
  simp only [importCell, importByFormat, importFrom, Pairings.importFail_ok _ _ (cast_num ext)]

theorem import_d (ext : Ext) (raw : Dyn) :
    importVal ⟨genTables, ext⟩ (.cell raw .date .none) (.str date) =
      .ok (.cell (.str date) .date .none, none) := by
  rw [importVal_cell]
  exact (SelfReadable.date_reread ext date date_ok).1.1

theorem tree_dyn (env : Env) (a b c : Bytes) (va vb : JV) (da db : Dyn)
    (ha : ofJV env va = .ok da) (hb : ofJV env vb = .ok db) :
    ofJVMembers env (.cons a va (.cons b vb (.cons c (.arr (.cons (.num [0x31]) .nil)) .nil))) =
      .ok [(a, da), (b, db), (c, xval)] := by
  simp [ofJVMembers, ofJV, ofJVList, ha, hb, xval, DynList.ofList]

/-- First pass, import: `n` holds int16 300, `d` the date text, `x` the array as it was read. -/
theorem getRow_line (ext : Ext) : getRow ⟨genTables, ext⟩ tmpl line = .ok (imported, none) := by
  have ht := tree_dyn ⟨genTables, ext⟩ kd kn kx (.str date) (.num n300) (.str date) (.num n300)
    (by simp [ofJV]) (by simp [ofJV])
  simp only [getRow, empty, unmarshalInto, read_line, ht]
  simp [tmpl_eq, parseMembers, parseMember, import_n, import_d, lookup, upsert, OMap.lookup, OMap.upsert,
    Cells.autoCell, imported, kn, kd, kx]

/-- First pass, export: the same cells, re-created under the output template. -/
theorem createRow_imported (ext : Ext) :
    createRow ⟨genTables, ext⟩ tmpl (.val (.row (Members.ofList imported))) = .ok (imported, none) := by
  simp [createRow, cloneRow, cloneInto, cloneValue, newValue, tmpl_eq, cast_nil,
    CastTyped.gen_castTo_none, RowRoundTrip.castTo_int_int, imported, fillPairs, fill, lookup, upsert,
    OMap.lookup, OMap.upsert, Cells.raw, Cells.format, Cells.rawType, Cells.autoCell, Members.ofList,
    Members.toList, kn, kd, kx]

theorem toNumber_300 (ext : Ext) :
    castNamed genTables ext "ToNumber" (.int .i16 300) = .ok (.num n300) :=
  RowRoundTrip.Demo.toNumber_v ext

/-- The text of the row: `{"n":300,"d":"2020-01-02","x":[1]}`. -/
theorem marshal_imported (ext : Ext) :
    marshalRow ⟨genTables, ext⟩ (Members.ofList imported) = .ok body := by
  have hn : marshalVal ⟨genTables, ext⟩ (.cell (.int .i16 300) .numeric (.int .i16)) = .ok n300 := by
    have he : exportVal ⟨genTables, ext⟩ (.cell (.int .i16 300) .numeric (.int .i16)) = .ok (.num n300) := by
      simp [exportVal, exportFail, toNumber_300]
    rw [marshalVal_cell he, marshalExported.eq_def]
    simp [n300, JsonWrite.isValidNumber, JsonWrite.dropDigits, JsonWrite.isDigit]
  have hd : marshalVal ⟨genTables, ext⟩ (.cell (.str date) .date .none) = .ok (JsonWrite.quote date) := by
    rw [marshalVal_cell (SelfReadable.date_reread ext date date_ok).1.2, marshalExported.eq_def]
  have hx : marshalVal ⟨genTables, ext⟩ (.cell xval .auto .none) = .ok [0x5B, 0x31, 0x5D] := by
    rw [marshalVal_auto, xval]
    have h1 : marshalDyn ⟨genTables, ext⟩ (.num [0x31]) = .ok [0x31] :=
      RoundTrip.marshalDyn_num _ (by decide)
    rw [marshalDyn_arr _ _ (marshalList_cons _ _ _ h1 (marshalList_nil _))]
    rfl
  have := marshalRow_eq ⟨genTables, ext⟩ _
    (marshalMembers_cons ⟨genTables, ext⟩ kn _ _ (by decide) hn
      (marshalMembers_cons ⟨genTables, ext⟩ kd _ _ (by decide) hd
        (marshalMembers_cons ⟨genTables, ext⟩ kx _ .nil (by decide) hx (marshalMembers_nil _))))
  simpa [imported, Members.ofList, body, kn, kd, kx, date, n300, joinComma, JsonWrite.quote,
    JsonWrite.quoteBody, JsonWrite.htmlSafe, Utf8.seqLen] using this

/-- The first pass, computed. -/
theorem first_pass (ext : Ext) :
    jlLine ⟨genTables, ext⟩ tmpl tmpl line = .ok (body ++ [0x0A], none) := by
  simp only [jlLine, getRow_line, exportLine, createRow_imported, marshal_imported]

/-- Second pass, import: the members come in the emitted order, the cells are the same. -/
theorem getRow_body (ext : Ext) : getRow ⟨genTables, ext⟩ tmpl body = .ok (imported, none) := by
  have ht := tree_dyn ⟨genTables, ext⟩ kn kd kx (.num n300) (.str date) (.num n300) (.str date)
    (by simp [ofJV]) (by simp [ofJV])
  simp only [getRow, empty, unmarshalInto, read_body, ht]
  simp [tmpl_eq, parseMembers, parseMember, import_n, import_d, lookup, upsert, OMap.lookup, OMap.upsert,
    Cells.autoCell, imported, kn, kd, kx]

/-- The second pass, computed: the emitted body is re-emitted byte for byte. -/
theorem second_pass_computed (ext : Ext) :
    jlLine ⟨genTables, ext⟩ tmpl tmpl body = .ok (body ++ [0x0A], none) := by
  simp only [jlLine, getRow_body, exportLine, createRow_imported, marshal_imported]

theorem keys_tmpl : OMap.keys tmpl = [kn, kd] := by rw [tmpl_eq]; rfl

theorem keys_fixed : ∀ k ∈ OMap.keys tmpl, sanitize k = k := by
  intro k hk
  rw [keys_tmpl] at hk
  apply RowRoundTrip.key_ascii
  simp only [List.mem_cons, List.not_mem_nil, or_false] at hk
  rcases hk with rfl | rfl <;> simp [Pairings.Ascii, kn, kd]

/-- The undeclared member `x` occurs once and holds no object: the hypothesis of the
    any-environment variant (`line_fixed_point_reader`) holds here as well. -/
theorem free_unique : FreeMembersUnique tmpl tmpl line := by
  intro k v hm _ hk
  rw [read_line] at hm ⊢
  rw [keys_tmpl] at hk
  simp only [JVMembers.toList, List.mem_cons, Prod.mk.injEq, List.not_mem_nil, or_false] at hm
  rcases hm with ⟨rfl, _⟩ | ⟨rfl, _⟩ | ⟨rfl, rfl⟩
  · exact absurd (by simp) hk
  · exact absurd (by simp) hk
  · exact ⟨by decide, by decide⟩

/-- Every visible declared cell of the emitted row holds a covered raw value. -/
theorem cells_covered (ext : Ext) (r row' : List (Bytes × Val))
    (hget : getRow ⟨genTables, ext⟩ tmpl line = .ok (r, none))
    (hcr : createRow ⟨genTables, ext⟩ tmpl (.val (.row (Members.ofList r))) = .ok (row', none))
    (k : Bytes) (v : Val) (raw : Dyn) (hv : OMap.lookup tmpl k = some v) (_ : Cells.format v ≠ .hidden)
    (hc : OMap.lookup row' k = some (.cell raw (Cells.format v) (Cells.rawType v))) :
    Covered ext (Cells.format v) (Cells.rawType v) raw := by
  rw [getRow_line] at hget
  cases hget
  rw [createRow_imported] at hcr
  cases hcr
  rw [tmpl_eq] at hv
  by_cases h1 : kn = k
  · subst h1
    rw [lookup_cons_self] at hv
    cases hv
    rw [imported, lookup_cons_self] at hc
    cases hc
    exact .numeric_int .i16 300 (by decide)
  · rw [lookup_cons_ne _ _ h1] at hv
    by_cases h2 : kd = k
    · subst h2
      rw [lookup_cons_self] at hv
      cases hv
      exact .date .none raw (.inl rfl)
    · rw [lookup_cons_ne _ _ h2] at hv
      cases hv

/-- **Every hypothesis of the general theorem is discharged** for this line, and its conclusion
    is the computed second pass. -/
theorem general_applies (ext : Ext) (hx : FloatTextOK ext) :
    ∃ body', body ++ [0x0A] = body' ++ [0x0A] ∧
      jlLine ⟨genTables, ext⟩ tmpl tmpl body' = .ok (body ++ [0x0A], none) :=
  gen_line_fixed_point_same_columns ext hx tmpl tmpl line (body ++ [0x0A])
    (by rw [keys_tmpl]; decide) keys_fixed (fun _ hk => hk) (first_pass ext) (cells_covered ext)

/-- …for instance with the empty standard-library parameter (no float is ever spelled). -/
example : ∃ body', body ++ [0x0A] = body' ++ [0x0A] ∧
    jlLine ⟨genTables, Ext.empty⟩ tmpl tmpl body' = .ok (body ++ [0x0A], none) :=
  general_applies Ext.empty (by intro b sz s h; cases h)

/-- The body the general theorem speaks of is the computed one. -/
example (body' : Bytes) (h : body ++ [0x0A] = body' ++ [0x0A]) : body' = body :=
  (List.append_cancel_right h).symm

/-- The same through the summary in the words of the tables: both columns are pairings of
    `coveredB`, int16 300 and the date text are well-typed and in the domain. -/
theorem table_applies (ext : Ext) (hx : FloatTextOK ext) :
    (∀ k v, OMap.lookup tmpl k = some v → Cells.format v ≠ .hidden →
      Tables.selfReadable (Cells.format v) (Cells.rawType v) = true) ∧
    ∃ body', body ++ [0x0A] = body' ++ [0x0A] ∧
      jlLine ⟨genTables, ext⟩ tmpl tmpl body' = .ok (body ++ [0x0A], none) := by
  have hcols : ∀ k v, OMap.lookup tmpl k = some v →
      (k = kn ∧ v = .cell .nil .numeric (.int .i16)) ∨ (k = kd ∧ v = .cell .nil .date .none) := by
    intro k v hv
    rw [tmpl_eq] at hv
    by_cases h1 : kn = k
    · subst h1; rw [lookup_cons_self] at hv; cases hv; exact .inl ⟨rfl, rfl⟩
    · rw [lookup_cons_ne _ _ h1] at hv
      by_cases h2 : kd = k
      · subst h2; rw [lookup_cons_self] at hv; cases hv; exact .inr ⟨rfl, rfl⟩
      · rw [lookup_cons_ne _ _ h2] at hv; cases hv
  refine gen_line_fixed_point_table ext hx tmpl tmpl line (body ++ [0x0A])
    (by rw [keys_tmpl]; decide) keys_fixed (fun _ hk => hk) ?_ (first_pass ext) ?_
  · intro k v hv _
    rcases hcols k v hv with ⟨_, rfl⟩ | ⟨_, rfl⟩ <;> rfl
  · intro r row' hget hcr k v raw hv _ hc
    rw [getRow_line] at hget
    cases hget
    rw [createRow_imported] at hcr
    cases hcr
    rcases hcols k v hv with ⟨rfl, rfl⟩ | ⟨rfl, rfl⟩
    · rw [imported, lookup_cons_self] at hc
      cases hc
      exact ⟨.inr (.inl ⟨by decide, rfl⟩), by decide, trivial⟩
    · rw [imported, lookup_cons_ne _ _ (by decide), lookup_cons_self] at hc
      cases hc
      refine ⟨.inr (.inr ⟨rfl, rfl⟩), ?_, trivial⟩
      simp [Tables.inDomain, date, Utf8.valid]

end Demo

end Jl.LineFixedPoint
