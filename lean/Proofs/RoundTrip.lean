/-
  Proofs.RoundTrip — C02: untemplated read-then-write is lossless and a byte-level fixed point.

  The untemplated pipeline is `jlLine env [] [] line`.  For a line the reader accepts
  (`Json.unmarshal line = (t, true)`) whose objects have unique member names at every depth:
  * `row_of_tree`: the importer's row is `rowOfTree t` (every member an Auto cell without raw
    type; nested objects are Auto cells wrapping a row, objects inside arrays bare rows);
  * `exporter_recreates_row` / `exporter_keeps_tree`: the exporter re-creates exactly that row
    and its printed tree is `t`;
  * `lossless`: the written line, without its newline, is read back as `t`;
  * `fixed_point`: feeding the output back gives byte-identical output.
  No hypothesis on the cast tables or on the standard-library parameter is needed: the
  untemplated path never casts and never prints a float.  The facts about the reader that the
  task allowed as hypotheses (strings delivered by the reader are `sanitize`-fixed, number
  literals are valid numbers) are proved from the token machine (`reader_tree_ok`).
-/
import Model.Template
import Proofs.JsonLexical
import Proofs.JsonAccept
import Proofs.JsonPrint
import Model.CastGen
import Proofs.Order

namespace Jl.RoundTrip
open Jl Jl.Value Jl.Template Jl.RowPrint Jl.JsonPrint Jl.JsonQuote Jl.JsonLex Json

/-! ### 1. Unique member names at every depth -/

/-- `k` is the name of a member of `ms` (top level of `ms` only). -/
def hasKey (k : Bytes) : JVMembers → Bool
  | .nil => false
  | .cons k' _ ms => decide (k' = k) || hasKey k ms

mutual
  def uniqueV : JV → Bool
    | .null => true
    | .bool _ => true
    | .num _ => true
    | .str _ => true
    | .arr xs => uniqueL xs
    | .obj ms => uniqueM ms
  def uniqueL : JVList → Bool
    | .nil => true
    | .cons x xs => uniqueV x && uniqueL xs
  /-- No member name occurs twice in this object, nor in any object below it (objects inside
      arrays included). -/
  def uniqueM : JVMembers → Bool
    | .nil => true
    | .cons k v ms => !hasKey k ms && uniqueV v && uniqueM ms
end

/-- No member name occurs twice in an object, at every depth. -/
def UniqueKeys (t : JVMembers) : Prop := uniqueM t = true

instance (t : JVMembers) : Decidable (UniqueKeys t) := by unfold UniqueKeys; infer_instance

/-! ### 2. The row of a tree -/

mutual
  /-- What `handledelim` returns for a parsed value whose objects have unique names. -/
  def dynOf : JV → Dyn
    | .null => .nil
    | .bool b => .bool b
    | .num l => .num l
    | .str s => .str s
    | .arr xs => .arr (dynListOf xs)
    | .obj ms => .val (.row (membersOf ms))
  def dynListOf : JVList → DynList
    | .nil => .nil
    | .cons x xs => .cons (dynOf x) (dynListOf xs)
  /-- The members of an object as a row: in order, every one an Auto cell without raw type. -/
  def membersOf : JVMembers → Members
    | .nil => .nil
    | .cons k v ms => .cons k (.cell (dynOf v) .auto .none) (membersOf ms)
end

/-- The row of `t`: members in order; scalars as Auto cells holding nil / bool / json.Number
    literal / string; arrays as Auto cells holding `.arr` of values, with objects inside arrays
    as bare `.val (.row …)`; objects under an object as Auto cells wrapping a row. -/
def rowOfTree (t : JVMembers) : List (Bytes × Val) := (membersOf t).toList

theorem rowOfTree_nil : rowOfTree .nil = [] := rfl

theorem rowOfTree_cons (k : Bytes) (v : JV) (ms : JVMembers) :
    rowOfTree (.cons k v ms) = (k, .cell (dynOf v) .auto .none) :: rowOfTree ms := by
  simp [rowOfTree, membersOf, Members.toList]

theorem Members.ofList_toList : ∀ ms : Members, Members.ofList ms.toList = ms
  | .nil => rfl
  | .cons k v ms => by simp [Members.toList, Members.ofList, Members.ofList_toList ms]

theorem DynList.ofList_toList : ∀ xs : DynList, DynList.ofList xs.toList = xs
  | .nil => rfl
  | .cons x xs => by simp [DynList.toList, DynList.ofList, DynList.ofList_toList xs]

theorem ofList_rowOfTree (t : JVMembers) : Members.ofList (rowOfTree t) = membersOf t :=
  Members.ofList_toList _

/-- The member list `parseobject` hands to the row, one pair per member in text order. -/
def pairsOf : JVMembers → List (Bytes × Dyn)
  | .nil => []
  | .cons k v ms => (k, dynOf v) :: pairsOf ms

theorem rowOfTree_eq_map : ∀ t : JVMembers,
    rowOfTree t = (pairsOf t).map fun kx => (kx.1, Cells.autoCell kx.2)
  | .nil => rfl
  | .cons k v ms => by rw [rowOfTree_cons, pairsOf, List.map_cons, rowOfTree_eq_map ms]; rfl

theorem keys_pairsOf_mem {k : Bytes} : ∀ {ms : JVMembers},
    k ∈ (pairsOf ms).map Prod.fst → hasKey k ms = true
  | .nil, h => by simp [pairsOf] at h
  | .cons k' v ms, h => by
    simp only [pairsOf, List.map_cons, List.mem_cons] at h
    simp only [hasKey, Bool.or_eq_true, decide_eq_true_eq]
    rcases h with h | h
    · exact .inl h.symm
    · exact .inr (keys_pairsOf_mem h)

theorem nodup_keys_pairsOf : ∀ {ms : JVMembers}, uniqueM ms = true →
    ((pairsOf ms).map Prod.fst).Nodup
  | .nil, _ => by simp [pairsOf]
  | .cons k v ms, h => by
    simp only [uniqueM, Bool.and_eq_true, Bool.not_eq_true'] at h
    simp only [pairsOf, List.map_cons, List.nodup_cons]
    refine ⟨fun hm => ?_, nodup_keys_pairsOf h.2⟩
    have := keys_pairsOf_mem hm
    rw [h.1.1] at this
    cases this

theorem keys_pairsOf : ∀ t : JVMembers, (pairsOf t).map Prod.fst = t.toList.map Prod.fst
  | .nil => rfl
  | .cons k v ms => by simp [pairsOf, JVMembers.toList, keys_pairsOf ms]

/-- In particular the top-level names are pairwise distinct. -/
theorem UniqueKeys.top {t : JVMembers} (h : UniqueKeys t) : (t.toList.map Prod.fst).Nodup := by
  rw [← keys_pairsOf]; exact nodup_keys_pairsOf h

/-! ### Filling an empty row with fresh names appends Auto cells -/

theorem lookup_append_single (o : List (Bytes × Val)) (k k' : Bytes) (c : Val) (hne : k ≠ k')
    (h : lookup o k' = none) : lookup (o ++ [(k, c)]) k' = none := by
  induction o with
  | nil => simp [lookup, OMap.lookup, hne]
  | cons a o ih =>
    obtain ⟨ka, ca⟩ := a
    simp only [lookup, OMap.lookup, List.cons_append] at h ⊢
    split at h
    · cases h
    · rename_i hk
      simp only [hk, if_false]
      exact ih h

theorem upsert_fresh (o : List (Bytes × Val)) (k : Bytes) (c : Val) (h : lookup o k = none) :
    upsert o k c = o ++ [(k, c)] := by
  induction o with
  | nil => rfl
  | cons a o ih =>
    obtain ⟨ka, ca⟩ := a
    simp only [lookup, OMap.lookup] at h
    split at h
    · cases h
    · rename_i hk
      simp only [upsert, OMap.upsert, hk, if_false, List.cons_append]
      congr 1
      exact ih h

theorem parseMembers_fresh (env : Env) : ∀ (l : List (Bytes × Dyn)) (o : List (Bytes × Val)),
    (∀ k ∈ l.map Prod.fst, lookup o k = none) → (l.map Prod.fst).Nodup →
    parseMembers env o l = .ok (o ++ l.map (fun kx => (kx.1, Cells.autoCell kx.2)), none)
  | [], o, _, _ => by simp [parseMembers]
  | (k, x) :: l, o, hfresh, hnd => by
    have hk : lookup o k = none := hfresh k (by simp)
    simp only [List.map_cons, List.nodup_cons] at hnd
    have step : parseMember env o k x = .ok (o ++ [(k, Cells.autoCell x)], none) := by
      simp only [parseMember, hk, upsert_fresh o k _ hk]
    rw [parseMembers, step]
    simp only
    rw [parseMembers_fresh env l (o ++ [(k, Cells.autoCell x)]) ?_ hnd.2]
    · simp
    · intro k' hk'
      refine lookup_append_single o k k' _ ?_ (hfresh k' (by simp [hk']))
      intro e; subst e; exact hnd.1 hk'

theorem fillPairs_fresh (env : Env) : ∀ (l : List (Bytes × Dyn)) (o : List (Bytes × Val)),
    (∀ k ∈ l.map Prod.fst, lookup o k = none) → (l.map Prod.fst).Nodup →
    fillPairs env o l = .ok (o ++ l.map (fun kx => (kx.1, Cells.autoCell kx.2)))
  | [], o, _, _ => by simp [fillPairs]
  | (k, x) :: l, o, hfresh, hnd => by
    have hk : lookup o k = none := hfresh k (by simp)
    simp only [List.map_cons, List.nodup_cons] at hnd
    have step : fill env o k x = .ok (o ++ [(k, Cells.autoCell x)]) := by
      simp only [fill, hk, upsert_fresh o k _ hk]
    rw [fillPairs, step]
    simp only
    rw [fillPairs_fresh env l (o ++ [(k, Cells.autoCell x)]) ?_ hnd.2]
    · simp
    · intro k' hk'
      refine lookup_append_single o k k' _ ?_ (hfresh k' (by simp [hk']))
      intro e; subst e; exact hnd.1 hk'

theorem parseMembers_tree (env : Env) (ms : JVMembers) (h : uniqueM ms = true) :
    parseMembers env [] (pairsOf ms) = .ok (rowOfTree ms, none) := by
  rw [parseMembers_fresh env _ [] (fun _ _ => rfl) (nodup_keys_pairsOf h), rowOfTree_eq_map]
  simp

/-! ### What `handledelim` builds for a tree with unique names -/

mutual
  theorem ofJV_ok (env : Env) : ∀ v : JV, uniqueV v = true → ofJV env v = .ok (dynOf v)
    | .null, _ => by simp [ofJV, dynOf]
    | .bool _, _ => by simp [ofJV, dynOf]
    | .num _, _ => by simp [ofJV, dynOf]
    | .str _, _ => by simp [ofJV, dynOf]
    | .arr xs, h => by
      simp only [uniqueV] at h
      simp only [ofJV, ofJVList_ok env xs h, dynOf, DynList.ofList_toList]
    | .obj ms, h => by
      simp only [uniqueV] at h
      simp only [ofJV, ofJVMembers_ok env ms h, parseMembers_tree env ms h, dynOf,
        ofList_rowOfTree]
  theorem ofJVList_ok (env : Env) : ∀ xs : JVList, uniqueL xs = true →
      ofJVList env xs = .ok (dynListOf xs).toList
    | .nil, _ => by simp [ofJVList, dynListOf, DynList.toList]
    | .cons x xs, h => by
      simp only [uniqueL, Bool.and_eq_true] at h
      simp only [ofJVList, ofJV_ok env x h.1, ofJVList_ok env xs h.2, dynListOf, DynList.toList]
  theorem ofJVMembers_ok (env : Env) : ∀ ms : JVMembers, uniqueM ms = true →
      ofJVMembers env ms = .ok (pairsOf ms)
    | .nil, _ => by simp [ofJVMembers, pairsOf]
    | .cons k v ms, h => by
      simp only [uniqueM, Bool.and_eq_true] at h
      simp only [ofJVMembers, ofJV_ok env v h.1.2, ofJVMembers_ok env ms h.2, pairsOf]
end

/-- Target 2.  For an accepted text whose objects have unique member names, the importer's row
    under the empty template is the row of the tree.  (Without `UniqueKeys` a repeated name is
    imported into the cell of its first occurrence instead of appended: `row_of_tree_only_if`,
    `Dup.dup_imports_first`.) -/
theorem row_of_tree (env : Env) (line : Bytes) (t : JVMembers)
    (hread : Json.unmarshal line = (t, true)) (hu : UniqueKeys t) :
    getRow env [] line = .ok (rowOfTree t, none) := by
  simp only [getRow, createRowEmpty, cloneRow, cloneInto, unmarshalInto, hread,
    ofJVMembers_ok env t hu, parseMembers_tree env t hu]
  rfl

/-! ### 3. The exporter re-creates the same row -/

theorem raw_pairs (t : JVMembers) :
    ((rowOfTree t).map fun (k, c) => (k, Cells.raw c)) = pairsOf t := by
  rw [rowOfTree_eq_map, List.map_map]
  have : ((fun (x : Bytes × Val) => (x.1, Cells.raw x.2)) ∘
      fun (kx : Bytes × Dyn) => (kx.1, Cells.autoCell kx.2)) = id := by
    funext kx; cases kx; simp [Cells.autoCell, Cells.raw]
  exact (congrArg (fun f => List.map f (pairsOf t)) this).trans (List.map_id _)

/-- Target 3, first form.  Under the empty template the exporter's `CreateRow`, given the
    imported row, re-creates exactly that row (every member is stored again as an Auto cell
    holding the source cell's raw value; an Auto cell wrapping a row hands over the row itself,
    so nested objects keep their member order). -/
theorem exporter_recreates_row (env : Env) (t : JVMembers) (hu : UniqueKeys t) :
    createRow env [] (.val (.row (Members.ofList (rowOfTree t)))) = .ok (rowOfTree t, none) := by
  have h := fillPairs_fresh env (pairsOf t) [] (fun _ _ => rfl) (nodup_keys_pairsOf hu)
  simp only [createRow, cloneRow, cloneInto, Members.toList_ofList, raw_pairs, h,
    List.nil_append, ← rowOfTree_eq_map]

/-! ### Printing is a function of the tree -/

mutual
  /-- The text the writer produces for (the row of) a tree: a function of the tree alone. -/
  def printV : JV → Bytes
    | .null => RowPrint.null
    | .bool b => if b then tru else fls
    | .num l => l
    | .str s => JsonWrite.quote s
    | .arr xs => 0x5B :: (joinComma (printL xs) ++ [0x5D])
    | .obj ms => 0x7B :: (joinComma (printM ms) ++ [0x7D])
  def printL : JVList → List Bytes
    | .nil => []
    | .cons x xs => printV x :: printL xs
  def printM : JVMembers → List Bytes
    | .nil => []
    | .cons k v ms => (JsonWrite.quote k ++ 0x3A :: printV v) :: printM ms
end

/-- The line (without its newline) written for a tree. -/
def printTree (t : JVMembers) : Bytes := 0x7B :: (joinComma (printM t) ++ [0x7D])

/- `P` holds of every string and member name, `Q` of every number literal, at every depth. -/
mutual
  def AllV (P Q : Bytes → Prop) : JV → Prop
    | .null => True
    | .bool _ => True
    | .num l => Q l
    | .str s => P s
    | .arr xs => AllL P Q xs
    | .obj ms => AllM P Q ms
  def AllL (P Q : Bytes → Prop) : JVList → Prop
    | .nil => True
    | .cons x xs => AllV P Q x ∧ AllL P Q xs
  def AllM (P Q : Bytes → Prop) : JVMembers → Prop
    | .nil => True
    | .cons k v ms => P k ∧ AllV P Q v ∧ AllM P Q ms
end

/-- Every string and member name of the tree is a fixed point of `sanitize` (well-formed UTF-8
    after the reader's own U+FFFD replacements). -/
def ReaderStrings (t : JVMembers) : Prop := AllM (fun s => sanitize s = s) (fun _ => True) t

/-- Every number literal of the tree is a valid JSON number (what json.Number must be to be
    marshalled verbatim). -/
def ReaderNumbers (t : JVMembers) : Prop :=
  AllM (fun _ => True) (fun l => JsonWrite.isValidNumber l = true) t

def StrOK (s : Bytes) : Prop := sanitize s = s
def NumOK (l : Bytes) : Prop := JsonWrite.isValidNumber l = true
/-- Both at once. -/
def ReaderTree (t : JVMembers) : Prop := AllM StrOK NumOK t

mutual
  theorem allV_mono {P Q P' Q' : Bytes → Prop} (hP : ∀ s, P s → P' s) (hQ : ∀ s, Q s → Q' s) :
      ∀ v, AllV P Q v → AllV P' Q' v
    | .null, _ => by simp [AllV]
    | .bool _, _ => by simp [AllV]
    | .num l, h => by simp only [AllV] at h ⊢; exact hQ l h
    | .str s, h => by simp only [AllV] at h ⊢; exact hP s h
    | .arr xs, h => by simp only [AllV] at h ⊢; exact allL_mono hP hQ xs h
    | .obj ms, h => by simp only [AllV] at h ⊢; exact allM_mono hP hQ ms h
  theorem allL_mono {P Q P' Q' : Bytes → Prop} (hP : ∀ s, P s → P' s) (hQ : ∀ s, Q s → Q' s) :
      ∀ xs, AllL P Q xs → AllL P' Q' xs
    | .nil, _ => by simp [AllL]
    | .cons x xs, h => by
      simp only [AllL] at h ⊢; exact ⟨allV_mono hP hQ x h.1, allL_mono hP hQ xs h.2⟩
  theorem allM_mono {P Q P' Q' : Bytes → Prop} (hP : ∀ s, P s → P' s) (hQ : ∀ s, Q s → Q' s) :
      ∀ ms, AllM P Q ms → AllM P' Q' ms
    | .nil, _ => by simp [AllM]
    | .cons k v ms, h => by
      simp only [AllM] at h ⊢
      exact ⟨hP k h.1, allV_mono hP hQ v h.2.1, allM_mono hP hQ ms h.2.2⟩
end

mutual
  theorem allV_and {P Q P' Q' : Bytes → Prop} :
      ∀ v, AllV P Q v → AllV P' Q' v → AllV (fun s => P s ∧ P' s) (fun s => Q s ∧ Q' s) v
    | .null, _, _ => by simp [AllV]
    | .bool _, _, _ => by simp [AllV]
    | .num l, h, h' => by simp only [AllV] at h h' ⊢; exact ⟨h, h'⟩
    | .str s, h, h' => by simp only [AllV] at h h' ⊢; exact ⟨h, h'⟩
    | .arr xs, h, h' => by simp only [AllV] at h h' ⊢; exact allL_and xs h h'
    | .obj ms, h, h' => by simp only [AllV] at h h' ⊢; exact allM_and ms h h'
  theorem allL_and {P Q P' Q' : Bytes → Prop} :
      ∀ xs, AllL P Q xs → AllL P' Q' xs → AllL (fun s => P s ∧ P' s) (fun s => Q s ∧ Q' s) xs
    | .nil, _, _ => by simp [AllL]
    | .cons x xs, h, h' => by
      simp only [AllL] at h h' ⊢; exact ⟨allV_and x h.1 h'.1, allL_and xs h.2 h'.2⟩
  theorem allM_and {P Q P' Q' : Bytes → Prop} :
      ∀ ms, AllM P Q ms → AllM P' Q' ms → AllM (fun s => P s ∧ P' s) (fun s => Q s ∧ Q' s) ms
    | .nil, _, _ => by simp [AllM]
    | .cons k v ms, h, h' => by
      simp only [AllM] at h h' ⊢
      exact ⟨⟨h.1, h'.1⟩, allV_and v h.2.1 h'.2.1, allM_and ms h.2.2 h'.2.2⟩
end

theorem readerTree_iff (t : JVMembers) : ReaderTree t ↔ ReaderStrings t ∧ ReaderNumbers t := by
  constructor
  · intro h
    exact ⟨allM_mono (fun _ h => h) (fun _ _ => trivial) t h,
      allM_mono (fun _ _ => trivial) (fun _ h => h) t h⟩
  · intro ⟨h1, h2⟩
    exact allM_mono (fun _ h => h.1) (fun _ h => h.2) t (allM_and t h1 h2)

theorem marshalDyn_num (env : Env) {l : Bytes} (h : JsonWrite.isValidNumber l = true) :
    marshalDyn env (.num l) = .ok l := by
  obtain ⟨c, tl, rfl, _⟩ := validNumber_head h
  rw [marshalDyn.eq_def]
  simp [h]

theorem marshalDyn_bool (env : Env) (b : Bool) :
    marshalDyn env (.bool b) = .ok (if b then tru else fls) := by
  rw [marshalDyn.eq_def]

theorem marshalDyn_row (env : Env) (ms : Members) {parts : List Bytes}
    (h : marshalMembers env ms = .ok parts) :
    marshalDyn env (.val (.row ms)) = .ok (0x7B :: (joinComma parts ++ [0x7D])) := by
  rw [marshalDyn.eq_def]
  exact marshalRow_eq env ms h

/- The writer's output for the row of a tree is `print` of the tree, whatever the environment
    (no cast, no float): only number literals must be valid numbers. -/
mutual
  theorem marshalDyn_dynOf (env : Env) (Pk : Bytes → Prop) :
      ∀ v : JV, AllV Pk NumOK v → marshalDyn env (dynOf v) = .ok (printV v)
    | .null, _ => by simp only [dynOf, printV]; exact marshalDyn_nil env
    | .bool b, _ => by simp only [dynOf, printV]; exact marshalDyn_bool env b
    | .num l, h => by simp only [dynOf, printV]; exact marshalDyn_num env h
    | .str s, _ => by simp only [dynOf, printV]; exact marshalDyn_str env s
    | .arr xs, h => by
      simp only [dynOf, printV]
      exact marshalDyn_arr env _ (marshalList_dynOf env Pk xs h)
    | .obj ms, h => by
      simp only [dynOf, printV]
      exact marshalDyn_row env _ (marshalMembers_membersOf env Pk ms h)
  theorem marshalList_dynOf (env : Env) (Pk : Bytes → Prop) :
      ∀ xs : JVList, AllL Pk NumOK xs → marshalList env (dynListOf xs) = .ok (printL xs)
    | .nil, _ => by simp only [dynListOf, printL]; exact marshalList_nil env
    | .cons x xs, h => by
      simp only [AllL] at h
      simp only [dynListOf, printL]
      exact marshalList_cons env _ _ (marshalDyn_dynOf env Pk x h.1) (marshalList_dynOf env Pk xs h.2)
  theorem marshalMembers_membersOf (env : Env) (Pk : Bytes → Prop) :
      ∀ ms : JVMembers, AllM Pk NumOK ms → marshalMembers env (membersOf ms) = .ok (printM ms)
    | .nil, _ => by simp only [membersOf, printM]; exact marshalMembers_nil env
    | .cons k v ms, h => by
      simp only [AllM] at h
      simp only [membersOf, printM]
      refine marshalMembers_cons env _ _ _ (by simp [Cells.format]) ?_
        (marshalMembers_membersOf env Pk ms h.2.2)
      rw [marshalVal_auto]
      exact marshalDyn_dynOf env Pk v h.2.1
end

theorem marshalRow_rowOfTree (env : Env) (t : JVMembers) (hn : ReaderNumbers t) :
    marshalRow env (Members.ofList (rowOfTree t)) = .ok (printTree t) := by
  rw [ofList_rowOfTree]
  exact marshalRow_eq env _ (marshalMembers_membersOf env _ t hn)

/- The text printed for a tree is read back as that tree. -/
mutual
  theorem readsAs_printV : ∀ v : JV, AllV StrOK NumOK v → ReadsAs (printV v) v
    | .null, _ => by simp only [printV]; exact readsAs_null
    | .bool b, _ => by
      simp only [printV]
      cases b
      · exact readsAs_false
      · exact readsAs_true
    | .num l, h => by simp only [printV]; exact readsAs_number h
    | .str s, h => by
      simp only [AllV, StrOK] at h
      simp only [printV]
      have := readsAs_quote s
      rwa [h] at this
    | .arr xs, h => by simp only [printV]; exact readsAs_array (readsList_printL xs h)
    | .obj ms, h => by simp only [printV]; exact readsAs_object (readsMembers_printM ms h)
  theorem readsList_printL : ∀ xs : JVList, AllL StrOK NumOK xs → ReadsList (printL xs) xs
    | .nil, _ => by simp only [printL]; exact .nil
    | .cons x xs, h => by
      simp only [AllL] at h
      simp only [printL]
      exact .cons (readsAs_printV x h.1) (readsList_printL xs h.2)
  theorem readsMembers_printM : ∀ ms : JVMembers, AllM StrOK NumOK ms → ReadsMembers (printM ms) ms
    | .nil, _ => by simp only [printM]; exact .nil
    | .cons k v ms, h => by
      simp only [AllM, StrOK] at h
      simp only [printM]
      have := ReadsMembers.cons (k := k) (readsAs_printV v h.2.1) (readsMembers_printM ms h.2.2)
      rwa [h.1] at this
end

theorem unmarshal_printTree (t : JVMembers) (h : ReaderTree t) :
    Json.unmarshal (printTree t) = (t, true) :=
  unmarshal_object (readsMembers_printM t h)

/-! ### What the reader delivers: strings are `sanitize`-fixed, number literals valid numbers -/

/-- A byte string that can be put in front of well-formed UTF-8 (a whole number of encoded
    characters). -/
def Chunk (p : Bytes) : Prop := ∀ X, Utf8.valid (p ++ X) = Utf8.valid X

theorem pre_inv {p s r : Bytes} {o : Option (Bytes × Bytes)} (h : pre p o = some (s, r)) :
    ∃ s', o = some (s', r) ∧ s = p ++ s' := by
  cases o with
  | none => cases h
  | some q =>
    obtain ⟨a, b⟩ := q
    simp only [pre, Option.map_some, Option.some.injEq, Prod.mk.injEq] at h
    exact ⟨a, by rw [h.2], h.1.symm⟩

theorem chunk_ascii {c : UInt8} (h : c < 0x80) : Chunk [c] := fun X => valid_ascii X h

theorem chunk_replacement : Chunk Utf8.replacement := valid_replacement

theorem chunk_seq2 {c : UInt8} {rest : Bytes} (hc : ¬ c < 0x80)
    (hl : Utf8.seqLen (c :: rest) = some 2) : Chunk (c :: rest.take 1) := by
  obtain ⟨b1, tl, rfl, hX, _⟩ := seqLen_two hl
  intro X
  simp only [List.take_succ_cons, List.take_zero, List.cons_append, List.nil_append]
  rw [valid_seq (n := 0) hc (hX _) (by omega)]
  rfl

theorem chunk_seq3 {c : UInt8} {rest : Bytes} (hc : ¬ c < 0x80)
    (hl : Utf8.seqLen (c :: rest) = some 3) : Chunk (c :: rest.take 2) := by
  obtain ⟨b1, b2, tl, rfl, hX, _⟩ := seqLen_three hl
  intro X
  simp only [List.take_succ_cons, List.take_zero, List.cons_append, List.nil_append]
  rw [valid_seq (n := 1) hc (hX _) (by omega)]
  rfl

theorem chunk_seq4 {c : UInt8} {rest : Bytes} (hc : ¬ c < 0x80)
    (hl : Utf8.seqLen (c :: rest) = some 4) : Chunk (c :: rest.take 3) := by
  obtain ⟨b1, b2, b3, tl, rfl, hX, _⟩ := seqLen_four hl
  intro X
  simp only [List.take_succ_cons, List.take_zero, List.cons_append, List.nil_append]
  rw [valid_seq (n := 2) hc (hX _) (by omega)]
  rfl


theorem seqLen2_of {b0 b1 : UInt8} (X : Bytes) (h0 : (0xC2 ≤ b0 && b0 ≤ 0xDF) = true)
    (h1 : Utf8.isCont b1 = true) : Utf8.seqLen (b0 :: b1 :: X) = some 2 := by
  rw [seqLen_cons2]; simp only [h0, h1, if_true]

theorem seqLen3_of {b0 b1 b2 : UInt8} (X : Bytes) (h0 : (0xC2 ≤ b0 && b0 ≤ 0xDF) = false)
    (h1 : (0xE0 ≤ b0 && b0 ≤ 0xEF) = true) (h2 : ok3 b0 b1 b2 = true) :
    Utf8.seqLen (b0 :: b1 :: b2 :: X) = some 3 := by
  rw [seqLen_cons2]; simp only [h0, h1, h2, if_true]; rfl

theorem seqLen4_of {b0 b1 b2 b3 : UInt8} (X : Bytes) (h0 : (0xC2 ≤ b0 && b0 ≤ 0xDF) = false)
    (h1 : (0xE0 ≤ b0 && b0 ≤ 0xEF) = false) (h2 : (0xF0 ≤ b0 && b0 ≤ 0xF4) = true)
    (h3 : ok4 b0 b1 b2 b3 = true) :
    Utf8.seqLen (b0 :: b1 :: b2 :: b3 :: X) = some 4 := by
  rw [seqLen_cons2]; simp only [h0, h1, h2, h3, if_true]; rfl

theorem toNat_of_beq {a b : UInt8} (h : (a == b) = true) : a.toNat = b.toNat := by
  rw [eq_of_beq h]

theorem range_true {lo hi b : UInt8} (h1 : lo.toNat ≤ b.toNat) (h2 : b.toNat ≤ hi.toNat) :
    (lo ≤ b && b ≤ hi) = true := by
  simp only [Bool.and_eq_true, decide_eq_true_eq, UInt8.le_iff_toNat_le]; exact ⟨h1, h2⟩

theorem range_false {lo hi b : UInt8} (h : b.toNat < lo.toNat ∨ hi.toNat < b.toNat) :
    (lo ≤ b && b ≤ hi) = false := by
  simp only [Bool.and_eq_false_iff, decide_eq_false_iff_not, UInt8.le_iff_toNat_le]; omega

theorem isCont_of_nat {b : UInt8} (h1 : 0x80 ≤ b.toNat) (h2 : b.toNat ≤ 0xBF) :
    Utf8.isCont b = true := range_true h1 h2

theorem ok3_of_nat {b0 b1 b2 : UInt8} (ha : b0.toNat = 0xE0 → 0xA0 ≤ b1.toNat)
    (hb : b0.toNat = 0xED → b1.toNat ≤ 0x9F) (h1 : 0x80 ≤ b1.toNat) (h2 : b1.toNat ≤ 0xBF)
    (h3 : 0x80 ≤ b2.toNat) (h4 : b2.toNat ≤ 0xBF) : ok3 b0 b1 b2 = true := by
  simp only [ok3, Bool.and_eq_true, decide_eq_true_eq, UInt8.le_iff_toNat_le]
  refine ⟨⟨?_, ?_⟩, isCont_of_nat h3 h4⟩
  · split
    · rename_i h; exact ha (toNat_of_beq h)
    · exact h1
  · split
    · rename_i h; exact hb (toNat_of_beq h)
    · exact h2

theorem ok4_of_nat {b0 b1 b2 b3 : UInt8} (ha : b0.toNat = 0xF0 → 0x90 ≤ b1.toNat)
    (hb : b0.toNat = 0xF4 → b1.toNat ≤ 0x8F) (h1 : 0x80 ≤ b1.toNat) (h2 : b1.toNat ≤ 0xBF)
    (h3 : 0x80 ≤ b2.toNat) (h4 : b2.toNat ≤ 0xBF) (h5 : 0x80 ≤ b3.toNat) (h6 : b3.toNat ≤ 0xBF) :
    ok4 b0 b1 b2 b3 = true := by
  simp only [ok4, Bool.and_eq_true, decide_eq_true_eq, UInt8.le_iff_toNat_le]
  refine ⟨⟨⟨?_, ?_⟩, isCont_of_nat h3 h4⟩, isCont_of_nat h5 h6⟩
  · split
    · rename_i h; exact ha (toNat_of_beq h)
    · exact h1
  · split
    · rename_i h; exact hb (toNat_of_beq h)
    · exact h2

theorem chunk_encode {r : Nat} (h1 : r < 0x110000) (h2 : isSurrogate r = false) :
    Chunk (Utf8.encode r) := by
  intro X
  simp only [isSurrogate, Bool.and_eq_false_iff, decide_eq_false_iff_not] at h2
  unfold Utf8.encode
  split
  · refine valid_ascii X ?_
    simp [UInt8.lt_iff_toNat_lt]; omega
  · split
    · have hb : ¬ UInt8.ofNat (0xC0 + r / 64) < 0x80 := by
        simp [UInt8.lt_iff_toNat_lt]; omega
      have hl := seqLen2_of (b0 := UInt8.ofNat (0xC0 + r / 64)) (b1 := UInt8.ofNat (0x80 + r % 64)) X
        (range_true (by simp; omega) (by simp; omega))
        (isCont_of_nat (by simp; omega) (by simp; omega))
      exact valid_seq (n := 0) hb hl (by omega)
    · split
      · have hb : ¬ UInt8.ofNat (0xE0 + r / 4096) < 0x80 := by
          simp [UInt8.lt_iff_toNat_lt]; omega
        have hl := seqLen3_of (b0 := UInt8.ofNat (0xE0 + r / 4096))
          (b1 := UInt8.ofNat (0x80 + r / 64 % 64)) (b2 := UInt8.ofNat (0x80 + r % 64)) X
          (range_false (by simp; omega)) (range_true (by simp; omega) (by simp; omega))
          (ok3_of_nat (by simp; omega) (by simp; omega) (by simp; omega) (by simp; omega)
            (by simp; omega) (by simp; omega))
        exact valid_seq (n := 1) hb hl (by omega)
      · have hb : ¬ UInt8.ofNat (0xF0 + r / 262144) < 0x80 := by
          simp [UInt8.lt_iff_toNat_lt]; omega
        have hl := seqLen4_of (b0 := UInt8.ofNat (0xF0 + r / 262144))
          (b1 := UInt8.ofNat (0x80 + r / 4096 % 64))
          (b2 := UInt8.ofNat (0x80 + r / 64 % 64)) (b3 := UInt8.ofNat (0x80 + r % 64)) X
          (range_false (by simp; omega)) (range_false (by simp; omega))
          (range_true (by simp; omega) (by simp; omega))
          (ok4_of_nat (by simp; omega) (by simp; omega) (by simp; omega) (by simp; omega)
            (by simp; omega) (by simp; omega) (by simp; omega) (by simp; omega))
        exact valid_seq (n := 2) hb hl (by omega)

theorem hexVal_lt {c : UInt8} {n : Nat} (h : hexVal c = some n) : n < 16 := by
  unfold hexVal at h
  simp only [Bool.and_eq_true, decide_eq_true_eq, UInt8.le_iff_toNat_le] at h
  split at h
  · injection h with h; subst h; rename_i hc; have := hc.2; simp at this hc; omega
  · split at h
    · injection h with h; subst h; rename_i hc; have := hc.2; simp at this hc; omega
    · split at h
      · injection h with h; subst h; rename_i hc; have := hc.2; simp at this hc; omega
      · cases h

theorem hex4_lt {s : Bytes} {r : Nat} (h : hex4 s = some r) : r < 65536 := by
  match s, h with
  | a :: b :: c :: d :: s', h =>
    simp only [hex4] at h
    cases ea : hexVal a with
    | none => rw [ea] at h; simp at h
    | some va =>
      cases eb : hexVal b with
      | none => rw [ea, eb] at h; simp at h
      | some vb =>
        cases ec : hexVal c with
        | none => rw [ea, eb, ec] at h; simp at h
        | some vc =>
          cases ed : hexVal d with
          | none => rw [ea, eb, ec, ed] at h; simp at h
          | some vd =>
            rw [ea, eb, ec, ed] at h
            simp only [Option.some.injEq] at h
            have := hexVal_lt ea; have := hexVal_lt eb; have := hexVal_lt ec; have := hexVal_lt ed
            omega
  | [], h => cases h
  | [_], h => cases h
  | [_, _], h => cases h
  | [_, _, _], h => cases h

theorem simpleEscape_lt {e ch : UInt8} (h : simpleEscape e = some ch) : ch < 0x80 := by
  unfold simpleEscape at h
  repeat' split at h
  all_goals first | (cases h; done) | (injection h with h; subst h; decide)

/-- What the string scanner decodes is well-formed UTF-8. -/
theorem strBody_valid (bs : Bytes) : ∀ s r, strBody bs = some (s, r) → Utf8.valid s = true := by
  fun_induction strBody bs
  case case1 => intro s r h; cases h
  case case2 => intro s r h; injection h with h; injection h with h1 _; subst h1; rw [Utf8.valid.eq_def]
  case case3 => intro s r h; cases h
  case case4 => intro s r h; cases h
  case case5 r1 hr1 hs r2 hr2 hh ih =>
    intro s r h
    simp only [Bool.and_eq_true, isHighSurrogate, isLowSurrogate, decide_eq_true_eq] at hh
    generalize hn : (r1 - 55296) * 1024 + (r2 - 56320) + 65536 = n at h
    have hn1 : n < 0x110000 := by omega
    have hn2 : isSurrogate n = false := by simp [isSurrogate]; omega
    clear hn
    obtain ⟨s', hs', rfl⟩ := pre_inv h
    rw [chunk_encode hn1 hn2]
    exact ih _ _ hs'
  case case6 ih =>
    intro s r h
    obtain ⟨s', hs', rfl⟩ := pre_inv h
    rw [chunk_replacement]; exact ih _ _ hs'
  case case7 ih =>
    intro s r h
    obtain ⟨s', hs', rfl⟩ := pre_inv h
    rw [chunk_replacement]; exact ih _ _ hs'
  case case8 r1 hr1 hs ih =>
    intro s r h
    obtain ⟨s', hs', rfl⟩ := pre_inv h
    have := hex4_lt hr1
    rw [chunk_encode (by omega) (by simpa using hs)]
    exact ih _ _ hs'
  case case9 ch hch ih =>
    intro s r h
    obtain ⟨s', hs', rfl⟩ := pre_inv h
    rw [chunk_ascii (simpleEscape_lt hch)]; exact ih _ _ hs'
  case case10 => intro s r h; cases h
  case case11 => intro s r h; cases h
  case case12 hc ih =>
    intro s r h
    obtain ⟨s', hs', rfl⟩ := pre_inv h
    rw [chunk_ascii hc]; exact ih _ _ hs'
  case case13 hc hl ih =>
    intro s r h
    obtain ⟨s', hs', rfl⟩ := pre_inv h
    rw [chunk_seq2 hc hl]; exact ih _ _ hs'
  case case14 hc hl ih =>
    intro s r h
    obtain ⟨s', hs', rfl⟩ := pre_inv h
    rw [chunk_seq3 hc hl]; exact ih _ _ hs'
  case case15 hc hl ih =>
    intro s r h
    obtain ⟨s', hs', rfl⟩ := pre_inv h
    rw [chunk_seq4 hc hl]; exact ih _ _ hs'
  case case16 ih =>
    intro s r h
    obtain ⟨s', hs', rfl⟩ := pre_inv h
    rw [chunk_replacement]; exact ih _ _ hs'

theorem strBody_fixed {bs s r : Bytes} (h : strBody bs = some (s, r)) : sanitize s = s :=
  sanitize_valid s (strBody_valid bs s r h)

/-- The number literal the scanner returns is a valid `json.Number`. -/
theorem scanNumber_validNumber {bs l r : Bytes} (h : scanNumber bs = some (l, r)) :
    JsonWrite.isValidNumber l = true := by
  have hl := (scanNumber_sound h).1
  have := scanNumber_complete hl IntText.numberEnds_nil
  rw [List.append_nil] at this
  exact (IntText.isValidNumber_iff_scanNumber l).2 this

/-- A token whose payload (if any) is a `sanitize`-fixed string or a valid number. -/
def TokOK : Tok → Prop
  | .str s => StrOK s
  | .num l => NumOK l
  | _ => True

theorem scanScalar_tokOK {bs r : Bytes} {t : Tok} (h : scanScalar bs = some (t, r)) : TokOK t := by
  cases bs with
  | nil => cases h
  | cons c rest =>
    simp only [scanScalar] at h
    split at h
    · cases hs : strBody rest with
      | none => rw [hs] at h; cases h
      | some p =>
        obtain ⟨s, r'⟩ := p
        rw [hs] at h
        simp only [Option.map_some, Option.some.injEq, Prod.mk.injEq] at h
        rw [← h.1]
        exact strBody_fixed hs
    · split at h
      · cases hs : scanNumber (c :: rest) with
        | none => rw [hs] at h; cases h
        | some p =>
          obtain ⟨l, r'⟩ := p
          rw [hs] at h
          simp only [Option.map_some, Option.some.injEq, Prod.mk.injEq] at h
          rw [← h.1]
          exact scanNumber_validNumber hs
      · repeat' split at h
        all_goals
          first
          | (cases h; done)
          | (cases hs : stripPrefix _ (c :: rest) with
             | none => rw [hs] at h; cases h
             | some p =>
               rw [hs] at h
               simp only [Option.map_some, Option.some.injEq, Prod.mk.injEq] at h
               rw [← h.1]; trivial)

theorem tokenCore_tokOK {st : TokState} {stack : List TokState} {buf : Bytes} {t : Tok} {d : Dec}
    (h : tokenCore st stack buf = .tok t d) : TokOK t := by
  cases buf with
  | nil => cases h
  | cons c rest =>
    simp only [tokenCore] at h
    repeat' split at h
    all_goals first | (cases h; done) | skip
    all_goals
      first
      | (injection h with h1 _; rw [← h1]; trivial; done)
      | skip
    · rename_i hs
      injection h with h1 _; rw [← h1]; exact strBody_fixed hs
    · rename_i hs
      injection h with h1 _; rw [← h1]; exact scanScalar_tokOK hs

theorem token_tokOK {d d' : Dec} {t : Tok} (h : token d = .tok t d') : TokOK t := by
  unfold token at h
  repeat' split at h
  all_goals first | (cases h; done) | exact tokenCore_tokOK h


/-- The parser only assembles what the tokens carry. -/
def InvObj (fuel : Nat) : Prop :=
  ∀ d ms od, parseObject fuel d = (ms, od) → AllM StrOK NumOK ms
def InvArr (fuel : Nat) : Prop :=
  ∀ d xs d', parseArray fuel d = some (xs, d') → AllL StrOK NumOK xs
def InvVal (fuel : Nat) : Prop :=
  ∀ t d v d', TokOK t → handleDelim fuel t d = some (v, d') → AllV StrOK NumOK v

theorem invObj_succ {fuel : Nat} (hV : InvVal fuel) (hO : InvObj fuel) : InvObj (fuel + 1) := by
  intro d ms od h
  rw [parseObject] at h
  split at h
  · cases hk : asKey (token d) with
    | none => rw [hk] at h; injection h with h1 _; rw [← h1]; simp [AllM]
    | some p =>
      obtain ⟨key, d1⟩ := p
      rw [hk] at h
      simp only [] at h
      have hkey : TokOK (.str key) := token_tokOK (JsonAcc.asKey_some hk)
      cases ht : asTok (token d1) with
      | none => rw [ht] at h; injection h with h1 _; rw [← h1]; simp [AllM]
      | some p =>
        obtain ⟨t, d2⟩ := p
        rw [ht] at h
        simp only [] at h
        have htok : TokOK t := token_tokOK (JsonAcc.asTok_some ht)
        cases hh : handleDelim fuel t d2 with
        | none => rw [hh] at h; injection h with h1 _; rw [← h1]; simp [AllM]
        | some p =>
          obtain ⟨v, d3⟩ := p
          rw [hh] at h
          simp only [] at h
          injection h with h1 h2
          rw [← h1]
          simp only [AllM]
          exact ⟨hkey, hV _ _ _ _ htok hh, hO d3 _ _ rfl⟩
  · injection h with h1 _; rw [← h1]; simp [AllM]

theorem invArr_succ {fuel : Nat} (hV : InvVal fuel) (hA : InvArr fuel) : InvArr (fuel + 1) := by
  intro d xs d' h
  rw [parseArray] at h
  split at h
  · cases ht : asTok (token d) with
    | none => rw [ht] at h; cases h
    | some p =>
      obtain ⟨t, d1⟩ := p
      rw [ht] at h
      simp only [] at h
      have htok : TokOK t := token_tokOK (JsonAcc.asTok_some ht)
      cases hh : handleDelim fuel t d1 with
      | none => rw [hh] at h; cases h
      | some p =>
        obtain ⟨v, d2⟩ := p
        rw [hh] at h
        simp only [] at h
        cases hp : parseArray fuel d2 with
        | none => rw [hp] at h; cases h
        | some q =>
          obtain ⟨xs', d3⟩ := q
          rw [hp] at h
          simp only [Option.some.injEq, Prod.mk.injEq] at h
          rw [← h.1]
          simp only [AllL]
          exact ⟨hV _ _ _ _ htok hh, hA _ _ _ hp⟩
  · cases hc : asClose .rbrack (token d) with
    | none => rw [hc] at h; cases h
    | some d'' =>
      rw [hc] at h
      simp only [Option.map_some, Option.some.injEq, Prod.mk.injEq] at h
      rw [← h.1]; simp [AllL]

theorem invVal_succ {fuel : Nat} (hO : InvObj fuel) (hA : InvArr fuel) : InvVal (fuel + 1) := by
  intro t d v d' htok h
  cases t with
  | lbrace =>
    simp only [handleDelim] at h
    cases hp : parseObject fuel d with
    | mk ms od =>
      rw [hp] at h
      cases od with
      | none => cases h
      | some d'' =>
        simp only [Option.some.injEq, Prod.mk.injEq] at h
        rw [← h.1]; simp only [AllV]; exact hO _ _ _ hp
  | lbrack =>
    simp only [handleDelim] at h
    cases hp : parseArray fuel d with
    | none => rw [hp] at h; cases h
    | some q =>
      obtain ⟨xs, d''⟩ := q
      rw [hp] at h
      simp only [Option.some.injEq, Prod.mk.injEq] at h
      rw [← h.1]; simp only [AllV]; exact hA _ _ _ hp
  | rbrace => simp [handleDelim] at h
  | rbrack => simp [handleDelim] at h
  | str s =>
    simp only [handleDelim, Option.some.injEq, Prod.mk.injEq] at h
    rw [← h.1]; exact htok
  | num l =>
    simp only [handleDelim, Option.some.injEq, Prod.mk.injEq] at h
    rw [← h.1]; exact htok
  | tru => simp only [handleDelim, Option.some.injEq, Prod.mk.injEq] at h; rw [← h.1]; simp [AllV]
  | fls => simp only [handleDelim, Option.some.injEq, Prod.mk.injEq] at h; rw [← h.1]; simp [AllV]
  | null => simp only [handleDelim, Option.some.injEq, Prod.mk.injEq] at h; rw [← h.1]; simp [AllV]

theorem inv_all : ∀ fuel, InvObj fuel ∧ InvArr fuel ∧ InvVal fuel := by
  intro fuel
  induction fuel with
  | zero =>
    refine ⟨?_, ?_, ?_⟩
    · intro d ms od h; simp only [parseObject, Prod.mk.injEq] at h; rw [← h.1]; simp [AllM]
    · intro d xs d' h; simp [parseArray] at h
    · intro t d v d' _ h; simp [handleDelim] at h
  | succ f ih =>
    obtain ⟨hO, hA, hV⟩ := ih
    exact ⟨invObj_succ hV hO, invArr_succ hV hA, invVal_succ hO hA⟩

/-- Whatever `row.UnmarshalJSON` delivers (accepted or not): every string and member name is a
    fixed point of `sanitize`, every number literal a valid number. -/
theorem reader_tree_ok (line : Bytes) : ReaderTree (Json.unmarshal line).1 := by
  unfold Json.unmarshal
  split
  · simp [ReaderTree, AllM]
  · rename_i d _
    cases hp : parseObject (2 * line.length + 2) d with
    | mk ms od =>
      have := (inv_all _).1 _ _ _ hp
      cases od <;> exact this

theorem reader_tree_of_read {line : Bytes} {t : JVMembers} {b : Bool}
    (hread : Json.unmarshal line = (t, b)) : ReaderTree t := by
  have := reader_tree_ok line
  rwa [hread] at this

/-- `ReaderStrings` needs no assumption: it holds of everything the reader delivers (in
    particular for inputs that are not well-formed UTF-8: the string decoder has already put
    U+FFFD in place of every ill-formed byte). -/
theorem reader_strings {line : Bytes} {t : JVMembers} {b : Bool}
    (hread : Json.unmarshal line = (t, b)) : ReaderStrings t :=
  ((readerTree_iff t).1 (reader_tree_of_read hread)).1

theorem reader_numbers {line : Bytes} {t : JVMembers} {b : Bool}
    (hread : Json.unmarshal line = (t, b)) : ReaderNumbers t :=
  ((readerTree_iff t).1 (reader_tree_of_read hread)).2

/-! ### The printed tree of the re-created row -/

/- What reading back the print of `rowOfTree t` gives for an arbitrary tree `t`: strings and
   names after `sanitize`, an empty number literal as `0`.  The identity on reader trees. -/
mutual
  def canonV : JV → JV
    | .null => .null
    | .bool b => .bool b
    | .num l => .num (numText l)
    | .str s => .str (sanitize s)
    | .arr xs => .arr (canonL xs)
    | .obj ms => .obj (canon ms)
  def canonL : JVList → JVList
    | .nil => .nil
    | .cons x xs => .cons (canonV x) (canonL xs)
  def canon : JVMembers → JVMembers
    | .nil => .nil
    | .cons k v ms => .cons (sanitize k) (canonV v) (canon ms)
end

theorem treeVal_auto (env : Env) (raw : Dyn) :
    treeVal env (.cell raw .auto .none) = treeExported raw (treeDyn env raw) := by
  have he : exportVal env (.cell raw .auto .none) = .ok raw := by
    rw [exportVal.eq_def]; cases raw <;> rfl
  simp only [treeVal, he]

mutual
  theorem treeDyn_dynOf (env : Env) : ∀ v : JV, treeDyn env (dynOf v) = canonV v
    | .null => by simp [dynOf, treeDyn, canonV]
    | .bool _ => by simp [dynOf, treeDyn, canonV]
    | .num _ => by simp [dynOf, treeDyn, canonV]
    | .str _ => by simp [dynOf, treeDyn, canonV]
    | .arr xs => by simp only [dynOf, treeDyn, canonV, treeList_dynListOf env xs]
    | .obj ms => by simp only [dynOf, treeDyn, treeVal, canonV, treeMembers_membersOf env ms]
  theorem treeList_dynListOf (env : Env) : ∀ xs : JVList, treeList env (dynListOf xs) = canonL xs
    | .nil => by simp [dynListOf, treeList, canonL]
    | .cons x xs => by
      simp only [dynListOf, treeList, canonL, treeDyn_dynOf env x, treeList_dynListOf env xs]
  theorem treeMembers_membersOf (env : Env) : ∀ ms : JVMembers,
      treeMembers env (membersOf ms) = canon ms
    | .nil => by simp [membersOf, treeMembers, canon]
    | .cons k v ms => by
      have hv : treeExported (dynOf v) (treeDyn env (dynOf v)) = canonV v := by
        rw [treeDyn_dynOf env v]
        cases v <;> simp [dynOf, treeExported, canonV]
      simp only [membersOf, treeMembers, Cells.format, treeVal_auto, hv,
        treeMembers_membersOf env ms, canon]
      simp
end

mutual
  theorem canonV_id : ∀ v : JV, AllV StrOK NumOK v → canonV v = v
    | .null, _ => by simp [canonV]
    | .bool _, _ => by simp [canonV]
    | .num l, h => by
      simp only [AllV, NumOK] at h
      obtain ⟨c, tl, rfl, _⟩ := validNumber_head h
      simp [canonV, numText]
    | .str s, h => by simp only [AllV, StrOK] at h; simp only [canonV, h]
    | .arr xs, h => by simp only [AllV] at h; simp only [canonV, canonL_id xs h]
    | .obj ms, h => by simp only [AllV] at h; simp only [canonV, canon_id ms h]
  theorem canonL_id : ∀ xs : JVList, AllL StrOK NumOK xs → canonL xs = xs
    | .nil, _ => by simp [canonL]
    | .cons x xs, h => by
      simp only [AllL] at h; simp only [canonL, canonV_id x h.1, canonL_id xs h.2]
  theorem canon_id : ∀ ms : JVMembers, AllM StrOK NumOK ms → canon ms = ms
    | .nil, _ => by simp [canon]
    | .cons k v ms, h => by
      simp only [AllM, StrOK] at h
      simp only [canon, h.1, canonV_id v h.2.1, canon_id ms h.2.2]
end

/-- Target 3, second form.  The row the exporter creates from the imported row prints the tree
    that was read (`JsonPrint.treeMembers`: the tree `unmarshal_marshalRow` says the reader
    delivers for the printed row). -/
theorem exporter_keeps_tree (env : Env) (line : Bytes) (t : JVMembers)
    (hread : Json.unmarshal line = (t, true)) (hu : UniqueKeys t) :
    ∃ row', createRow env [] (.val (.row (Members.ofList (rowOfTree t)))) = .ok (row', none) ∧
      treeMembers env (Members.ofList row') = t :=
  ⟨rowOfTree t, exporter_recreates_row env t hu, by
    rw [ofList_rowOfTree, treeMembers_membersOf, canon_id t (reader_tree_of_read hread)]⟩

/-! ### 4./5. Main theorems -/

/-- The untemplated pipeline on an accepted line with unique member names: the written bytes are
    the print of the tree, a function of the tree alone. -/
theorem jlLine_untemplated (env : Env) (line : Bytes) (t : JVMembers)
    (hread : Json.unmarshal line = (t, true)) (hu : UniqueKeys t) :
    jlLine env [] [] line = .ok (printTree t ++ [0x0A], none) := by
  simp only [jlLine, row_of_tree env line t hread hu, exportLine,
    exporter_recreates_row env t hu, marshalRow_rowOfTree env t (reader_numbers hread)]

/-- Main 1 (lossless).  Reading an accepted object line whose objects have unique member names
    and writing it back with no template yields a line denoting the same ordered tree: same
    members in the same order at every depth, strings decoded to the same text, number literals
    verbatim.  Holds for every environment: neither the cast tables nor the float speller are
    consulted, and `ReaderStrings` is a theorem (`reader_strings`), not a hypothesis. -/
theorem lossless (env : Env) (line : Bytes) (t : JVMembers)
    (hread : Json.unmarshal line = (t, true)) (hu : UniqueKeys t) :
    ∃ out, jlLine env [] [] line = .ok (out ++ [0x0A], none) ∧ Json.unmarshal out = (t, true) :=
  ⟨printTree t, jlLine_untemplated env line t hread hu,
    unmarshal_printTree t (reader_tree_of_read hread)⟩

/-- Main 2 (fixed point).  Feeding the output back yields byte-identical output. -/
theorem fixed_point (env : Env) (line : Bytes) (t : JVMembers)
    (hread : Json.unmarshal line = (t, true)) (hu : UniqueKeys t) :
    ∃ out, jlLine env [] [] line = .ok (out ++ [0x0A], none) ∧
      jlLine env [] [] out = .ok (out ++ [0x0A], none) :=
  ⟨printTree t, jlLine_untemplated env line t hread hu,
    jlLine_untemplated env (printTree t) t (unmarshal_printTree t (reader_tree_of_read hread)) hu⟩

/-- Both at once, in the shape of the task statement (the hypotheses `ReaderStrings t` and
    `FloatTextOK env.ext` it allowed are not needed). -/
theorem lossless_fixed_point (env : Env) (line : Bytes) (t : JVMembers)
    (hread : Json.unmarshal line = (t, true)) (hu : UniqueKeys t) :
    ∃ out, jlLine env [] [] line = .ok (out ++ [0x0A], none) ∧ Json.unmarshal out = (t, true) ∧
      jlLine env [] [] out = .ok (out ++ [0x0A], none) ∧ (0x0A : UInt8) ∉ out := by
  have hok := reader_tree_of_read hread
  refine ⟨printTree t, jlLine_untemplated env line t hread hu, unmarshal_printTree t hok,
    jlLine_untemplated env (printTree t) t (unmarshal_printTree t hok) hu, ?_⟩
  have hfl : FloatTextOK Ext.empty := by intro b sz s h; cases h
  obtain ⟨bs, e, _, hn⟩ := jlLine_valid ⟨env.T, Ext.empty⟩ hfl [] [] line _
    (jlLine_untemplated ⟨env.T, Ext.empty⟩ line t hread hu)
  rw [List.append_cancel_right e]
  exact hn

/-! ### 6. Non-vacuity: a concrete line through every theorem -/

namespace Demo

/-- `{ "z" : {"b":1E+2, "a":"x\n\u00e9y"}, "l":[{"q":null,"p":true},-0.5e-3] }` -/
def line : Bytes :=
  [
   0x7B, 0x20, 0x22, 0x7A, 0x22, 0x20, 0x3A, 0x20, 0x7B, 0x22, 0x62, 0x22, 0x3A, 0x31, 0x45, 0x2B,
   0x32, 0x2C, 0x20, 0x22, 0x61, 0x22, 0x3A, 0x22, 0x78, 0x5C, 0x6E, 0x5C, 0x75, 0x30, 0x30, 0x65,
   0x39, 0x79, 0x22, 0x7D, 0x2C, 0x20, 0x22, 0x6C, 0x22, 0x3A, 0x5B, 0x7B, 0x22, 0x71, 0x22, 0x3A,
   0x6E, 0x75, 0x6C, 0x6C, 0x2C, 0x22, 0x70, 0x22, 0x3A, 0x74, 0x72, 0x75, 0x65, 0x7D, 0x2C, 0x2D,
   0x30, 0x2E, 0x35, 0x65, 0x2D, 0x33, 0x5D, 0x20, 0x7D]

def tree : JVMembers :=
  .cons [0x7A] (.obj
      (.cons [0x62] (.num [0x31, 0x45, 0x2B, 0x32])
      (.cons [0x61] (.str [0x78, 0x0A, 0xC3, 0xA9, 0x79]) .nil)))
  (.cons [0x6C] (.arr
      (.cons (.obj (.cons [0x71] .null (.cons [0x70] (.bool true) .nil)))
      (.cons (.num [0x2D, 0x30, 0x2E, 0x35, 0x65, 0x2D, 0x33]) .nil)))
  .nil)

/-- `{"z":{"b":1E+2,"a":"x\néy"},"l":[{"q":null,"p":true},-0.5e-3]}` -/
def out : Bytes :=
  [
   0x7B, 0x22, 0x7A, 0x22, 0x3A, 0x7B, 0x22, 0x62, 0x22, 0x3A, 0x31, 0x45, 0x2B, 0x32, 0x2C, 0x22,
   0x61, 0x22, 0x3A, 0x22, 0x78, 0x5C, 0x6E, 0xC3, 0xA9, 0x79, 0x22, 0x7D, 0x2C, 0x22, 0x6C, 0x22,
   0x3A, 0x5B, 0x7B, 0x22, 0x71, 0x22, 0x3A, 0x6E, 0x75, 0x6C, 0x6C, 0x2C, 0x22, 0x70, 0x22, 0x3A,
   0x74, 0x72, 0x75, 0x65, 0x7D, 0x2C, 0x2D, 0x30, 0x2E, 0x35, 0x65, 0x2D, 0x33, 0x5D, 0x7D]

theorem read_line : Json.unmarshal line = (tree, true) := by
  simp [line, tree, unmarshal, token, tokenCore, skipSpace, isSpace, asClose, parseObject, parseArray,
    more, asKey, asTok, strBody, pre, handleDelim, scanScalar, scanNumber, scanInt, scanFracExp,
    scanExp, digits, isDigit, valueAllowed, valueEnd, isEof, hex4, hexVal, simpleEscape, isSurrogate,
    Utf8.encode, stripPrefix]


theorem unique_tree : UniqueKeys tree := by decide

/-- The members of the nested object are not in alphabetical order (`b` before `a`, and `z`
    before `l` at top level): an alphabetically sorted writer would not give `out`. -/
theorem print_tree : printTree tree = out := by
  simp [printTree, tree, out, printM, printV, printL, joinComma, JsonWrite.quote, JsonWrite.quoteBody,
    JsonWrite.htmlSafe, JsonWrite.escapeAscii, Utf8.seqLen, Utf8.isCont, RowPrint.null, RowPrint.tru]

/-- The hypotheses the general development would have allowed, shown for this tree. -/
theorem reader_strings_tree : ReaderStrings tree := reader_strings read_line
theorem reader_numbers_tree : ReaderNumbers tree := reader_numbers read_line

/-- Both conclusions, instantiated (any environment). -/
theorem roundtrip (env : Env) :
    jlLine env [] [] line = .ok (out ++ [0x0A], none) ∧
    Json.unmarshal out = (tree, true) ∧
    jlLine env [] [] out = .ok (out ++ [0x0A], none) := by
  have h1 := jlLine_untemplated env line tree read_line unique_tree
  have h2 := unmarshal_printTree tree (reader_tree_of_read read_line)
  rw [print_tree] at h1 h2
  exact ⟨h1, h2, by simpa [print_tree] using jlLine_untemplated env out tree h2 unique_tree⟩

/-- The imported row, spelled out: the nested object under `z` is an Auto cell wrapping a row in
    text order; the object inside the array is a bare row. -/
theorem row_line (env : Env) : getRow env [] line = .ok (
    [([0x7A], .cell (.val (.row
        (.cons [0x62] (.cell (.num [0x31, 0x45, 0x2B, 0x32]) .auto .none)
        (.cons [0x61] (.cell (.str [0x78, 0x0A, 0xC3, 0xA9, 0x79]) .auto .none) .nil)))) .auto .none),
     ([0x6C], .cell (.arr
        (.cons (.val (.row (.cons [0x71] (.cell .nil .auto .none)
                           (.cons [0x70] (.cell (.bool true) .auto .none) .nil))))
        (.cons (.num [0x2D, 0x30, 0x2E, 0x35, 0x65, 0x2D, 0x33]) .nil))) .auto .none)], none) := by
  rw [row_of_tree env line tree read_line unique_tree]
  simp [rowOfTree, tree, membersOf, dynOf, dynListOf, Members.toList]

end Demo
/-! ### Why `UniqueKeys` is needed -/

theorem keys_rowOfTree (t : JVMembers) : OMap.keys (rowOfTree t) = (pairsOf t).map Prod.fst := by
  rw [rowOfTree_eq_map, OMap.keys, List.map_map]
  rfl

/-- Uniqueness of the top-level names is necessary for `row_of_tree`: a row never holds a name
    twice, whereas `rowOfTree t` lists every member of `t`. -/
theorem row_of_tree_only_if (env : Env) (line : Bytes) (t : JVMembers)
    (h : getRow env [] line = .ok (rowOfTree t, none)) : ((pairsOf t).map Prod.fst).Nodup := by
  rw [← keys_rowOfTree]
  exact Order.getRow_keys_nodup env [] line _ h

namespace Dup

/-- `{"a":1,"a":2}` -/
def line : Bytes := [0x7B, 0x22, 0x61, 0x22, 0x3A, 0x31, 0x2C, 0x22, 0x61, 0x22, 0x3A, 0x32, 0x7D]

def tree : JVMembers := .cons [0x61] (.num [0x31]) (.cons [0x61] (.num [0x32]) .nil)

theorem read_line : Json.unmarshal line = (tree, true) := by
  simp [line, tree, unmarshal, token, tokenCore, skipSpace, isSpace, asClose, parseObject, more, asKey,
    asTok, strBody, pre, handleDelim, scanScalar, scanNumber, scanInt, scanFracExp, digits, isDigit,
    valueAllowed, valueEnd, isEof]

theorem not_unique : ¬ UniqueKeys tree := by decide

/-- `cast.To(nil, v) = v` over the regenerated dispatch table (only its row for a nil target is
    looked at, so that this file does not depend on the whole-table check of `Proofs.CastTyped`). -/
theorem gen_castTo_none (ext : Ext) (v : Dyn) : Cast.castTo genTables ext .none v = .ok v := by
  simp [Cast.castTo, genTables, Gen.dispatchTo, Cast.evalBranch, Cast.evalE]

/-- A repeated name is imported into the cell of its first occurrence (with the generated cast
    tables: `cast.To(nil, v) = v`): one member, holding the last value; the written line is
    `{"a":2}`, not the input's tree. -/
theorem dup_imports_first (ext : Ext) :
    getRow ⟨genTables, ext⟩ [] line = .ok ([([0x61], .cell (.num [0x32]) .auto .none)], none) := by
  simp [getRow, createRowEmpty, cloneRow, cloneInto, unmarshalInto, read_line, tree, ofJVMembers, ofJV,
    parseMembers, parseMember, importVal, importInto, importCell, importByFormat, lookup, upsert,
    OMap.lookup, OMap.upsert, Cells.autoCell, gen_castTo_none]

end Dup

end Jl.RoundTrip
