/-
  Proofs.CastInt — the integer casters of the *regenerated* tables (Gen.CastTable).

  Part 1 (`*_branches_ok`): every branch (target × source type) of the current source has an
  accepted shape and its guard is exact — `cases` over the 10 × 13 pairs, table lookups by
  `simp`, the arithmetic by `omega`.  A changed constant, comparison, conversion, bit size or
  sentinel re-opens exactly the pair it belongs to.
  Part 2: what the interpreter computes on a branch that satisfies its specification.
-/
import Model.CastGen
import Model.CastSpec
import Proofs.IntText

set_option linter.unusedSimpArgs false

namespace Jl
open Cast

/-! ### Integer and float readings of guards -/

def evalEInt : E → Int → Int
  | .val, v => v
  | .toInt t e, v => t.wrap (evalEInt e v)
  | _, v => v

def intExprOK : E → Bool
  | .val => true
  | .toInt _ e => intExprOK e
  | _ => false

def evalGInt : G → Int → Bool
  | .cmp op l c, v => cmpInt op (evalEInt l v) c
  | .or a b, v => evalGInt a v || evalGInt b v
  | .and a b, v => evalGInt a v && evalGInt b v
  | .not a, v => !evalGInt a v

def intGuardOK : G → Bool
  | .cmp _ l _ => intExprOK l
  | .or a b => intGuardOK a && intGuardOK b
  | .and a b => intGuardOK a && intGuardOK b
  | .not a => intGuardOK a

/-- Float guards compare `val` itself. -/
def evalGF : G → FVal → Bool
  | .cmp op _ c, x => cmpF op x c
  | .or a b, x => evalGF a x || evalGF b x
  | .and a b, x => evalGF a x && evalGF b x
  | .not a, x => !evalGF a x

def floatGuardOK : G → Bool
  | .cmp _ l _ => l == .val
  | .or a b => floatGuardOK a && floatGuardOK b
  | .and a b => floatGuardOK a && floatGuardOK b
  | .not a => floatGuardOK a

theorem cmpInt_lt (x c : Int) : cmpInt .lt x c = decide (x < c) := rfl
theorem cmpInt_le (x c : Int) : cmpInt .le x c = decide (x ≤ c) := rfl
theorem cmpInt_gt (x c : Int) : cmpInt .gt x c = decide (x > c) := rfl
theorem cmpInt_ge (x c : Int) : cmpInt .ge x c = decide (x ≥ c) := rfl
theorem cmpInt_eq (x c : Int) : cmpInt .eq x c = (x == c) := rfl
theorem cmpInt_ne (x c : Int) : cmpInt .ne x c = (x != c) := rfl
theorem cmpF_lt (x : FVal) (c : Int) : cmpF .lt x c = x.lt c := rfl
theorem cmpF_le (x : FVal) (c : Int) : cmpF .le x c = x.le c := rfl
theorem cmpF_gt (x : FVal) (c : Int) : cmpF .gt x c = x.gt c := rfl
theorem cmpF_ge (x : FVal) (c : Int) : cmpF .ge x c = x.ge c := rfl
theorem cmpF_eq (x : FVal) (c : Int) : cmpF .eq x c = x.eq c := rfl
theorem cmpF_ne (x : FVal) (c : Int) : cmpF .ne x c = x.ne c := rfl

def casterOf (T : CastTables) (name : String) : Caster :=
  (T.casters.find? (fun c => c.name == name)).getD ⟨"", [], .unknown ""⟩

/-! ### What each branch of an integer caster must be -/

/-- Integer source. -/
def intBranchSpec (T : CastTables) (tgt src : IntTy) : Branch → Prop
  | .ret .val => src = tgt
  | .ret (.toInt t .val) => t = tgt ∧ ∀ v, src.inRange v → tgt.inRange v
  | .guarded g s (.toInt t .val) =>
    t = tgt ∧ wrapsRoot T.sentinels 4 s = true ∧ intGuardOK g = true ∧
      ∀ v, src.inRange v → (evalGInt g v = true ↔ ¬ tgt.inRange v)
  | _ => False

/-- Float source: the guard rejects NaN, ±Inf and every value whose truncation is out of
    range, and accepts every integral value in range. -/
def floatBranchSpec (T : CastTables) (tgt : IntTy) : Branch → Prop
  | .guarded g s (.toInt t .val) =>
    t = tgt ∧ wrapsRoot T.sentinels 4 s = true ∧ floatGuardOK g = true ∧
      evalGF g .nan = true ∧ (∀ n, evalGF g (.inf n) = true) ∧
      (∀ tr frac neg, (FVal.fin tr frac neg).WF → evalGF g (.fin tr frac neg) = false → tgt.inRange tr) ∧
      (∀ tr neg, (FVal.fin tr false neg).WF → tgt.inRange tr → evalGF g (.fin tr false neg) = false)
  | _ => False

/-- bool source: `if val { return T(1) }; return T(0)`. -/
def boolBranchSpec (tgt : IntTy) : Branch → Prop
  | .ifBool (.intLit t1 1) (.intLit t0 0) => t1 = tgt ∧ t0 = tgt
  | _ => False

/-- string source: strconv.ParseInt / ParseUint in base 0 with the target's bit size. -/
def textBranchSpec (T : CastTables) (tgt : IntTy) : Branch → Prop
  | .parse (.parseInt base bits) e s =>
    tgt.signed = true ∧ base = 0 ∧ (bits = tgt.bits ∨ (bits = 0 ∧ tgt.bits = 64)) ∧
      (e = .toInt tgt .parsed ∨ (e = .parsed ∧ tgt = .i64)) ∧ wrapsRoot T.sentinels 4 s = true
  | .parse (.parseUint base bits) e s =>
    tgt.signed = false ∧ base = 0 ∧ (bits = tgt.bits ∨ (bits = 0 ∧ tgt.bits = 64)) ∧
      (e = .toInt tgt .parsed ∨ (e = .parsed ∧ tgt = .u64)) ∧ wrapsRoot T.sentinels 4 s = true
  | _ => False

/-- json.Number source: the same caster on `string(val)`. -/
def numBranchSpec (tgt : IntTy) : Branch → Prop
  | .tail callee (.toStr .val) => callee = casterOfInt tgt
  | _ => False

/-! ### Part 1: the regenerated tables satisfy the specifications -/

set_option maxRecDepth 8192 in
set_option maxHeartbeats 1600000 in
theorem int_branches_ok : ∀ tgt src : IntTy,
    intBranchSpec genTables tgt src (findClause (casterOf genTables (casterOfInt tgt)) (.int src)) := by
  intro tgt src
  cases tgt <;> cases src <;>
  simp [casterOf, casterOfInt, genTables, Gen.casters, findClause, intBranchSpec, Gen.sentinels,
    wrapsRoot, evalGInt, evalEInt, cmpInt_lt, cmpInt_le, cmpInt_gt, cmpInt_ge, cmpInt_eq, cmpInt_ne,
    intGuardOK, intExprOK, IntTy.inRange, IntTy.min, IntTy.max, IntTy.signed, IntTy.bits, IntTy.wrap] <;>
  (intros; omega)

set_option maxRecDepth 8192 in
set_option maxHeartbeats 1600000 in
theorem bool_branches_ok : ∀ tgt : IntTy,
    boolBranchSpec tgt (findClause (casterOf genTables (casterOfInt tgt)) .bool) := by
  intro tgt
  cases tgt <;>
  simp [casterOf, casterOfInt, genTables, Gen.casters, findClause, boolBranchSpec]

set_option maxRecDepth 8192 in
set_option maxHeartbeats 1600000 in
theorem text_branches_ok : ∀ tgt : IntTy,
    textBranchSpec genTables tgt (findClause (casterOf genTables (casterOfInt tgt)) .str) := by
  intro tgt
  cases tgt <;>
  simp [casterOf, casterOfInt, genTables, Gen.casters, findClause, textBranchSpec, Gen.sentinels,
    wrapsRoot, IntTy.signed, IntTy.bits]

set_option maxRecDepth 8192 in
set_option maxHeartbeats 1600000 in
theorem num_branches_ok : ∀ tgt : IntTy,
    numBranchSpec tgt (findClause (casterOf genTables (casterOfInt tgt)) .num) := by
  intro tgt
  cases tgt <;>
  simp [casterOf, casterOfInt, genTables, Gen.casters, findClause, numBranchSpec]

end Jl

namespace Jl
open Cast

set_option linter.unusedSimpArgs false

set_option maxRecDepth 8192 in
set_option maxHeartbeats 3200000 in
theorem float64_branches_ok : ∀ tgt : IntTy,
    floatBranchSpec genTables tgt (findClause (casterOf genTables (casterOfInt tgt)) .f64) := by
  intro tgt
  cases tgt <;>
  simp only [casterOf, casterOfInt, genTables, Gen.casters, findClause, floatBranchSpec, Gen.sentinels,
    List.find?, List.contains, List.elem, wrapsRoot] <;>
  simp [floatGuardOK, evalGF, cmpF_lt, cmpF_le, cmpF_gt, cmpF_ge, cmpF_eq, cmpF_ne,
    FVal.lt, FVal.le, FVal.gt, FVal.ge, FVal.eq, FVal.ne, FVal.WF,
    IntTy.inRange, IntTy.min, IntTy.max, IntTy.signed, IntTy.bits] <;>
  (repeat' constructor) <;> (intros; omega)

set_option maxRecDepth 8192 in
set_option maxHeartbeats 3200000 in
theorem float32_branches_ok : ∀ tgt : IntTy,
    floatBranchSpec genTables tgt (findClause (casterOf genTables (casterOfInt tgt)) .f32) := by
  intro tgt
  cases tgt <;>
  simp only [casterOf, casterOfInt, genTables, Gen.casters, findClause, floatBranchSpec, Gen.sentinels,
    List.find?, List.contains, List.elem, wrapsRoot] <;>
  simp [floatGuardOK, evalGF, cmpF_lt, cmpF_le, cmpF_gt, cmpF_ge, cmpF_eq, cmpF_ne,
    FVal.lt, FVal.le, FVal.gt, FVal.ge, FVal.eq, FVal.ne, FVal.WF,
    IntTy.inRange, IntTy.min, IntTy.max, IntTy.signed, IntTy.bits] <;>
  (repeat' constructor) <;> (intros; omega)

/-- The caster of every integer target is present in the regenerated tables. -/
theorem caster_present : ∀ tgt : IntTy,
    genTables.casters.find? (fun c => c.name == casterOfInt tgt) =
      some (casterOf genTables (casterOfInt tgt)) := by
  intro tgt
  cases tgt <;> simp [casterOf, casterOfInt, genTables, Gen.casters]

/-! ### Part 2: what the interpreter computes on a branch that meets its specification -/

theorem wrap_of_inRange (t : IntTy) (v : Int) (h : t.inRange v) : t.wrap v = v := by
  cases t <;> simp [IntTy.inRange, IntTy.min, IntTy.max, IntTy.signed, IntTy.bits] at h <;>
    simp [IntTy.wrap, IntTy.signed, IntTy.bits] <;> omega

theorem evalE_int (T : CastTables) (ext : Ext) (s : IntTy) (v : Int) (p : Dyn) (e : E)
    (h : intExprOK e = true) :
    ∃ t, evalE T ext (.int s v) p e = .ok (.int t (evalEInt e v)) := by
  induction e with
  | val => exact ⟨s, rfl⟩
  | toInt t e ih =>
    obtain ⟨t', ht'⟩ := ih (by simpa [intExprOK] using h)
    exact ⟨t, by simp [evalE, ht', evalEInt]⟩
  | _ => simp [intExprOK] at h

theorem evalG_int (T : CastTables) (ext : Ext) (s : IntTy) (v : Int) (g : G)
    (h : intGuardOK g = true) :
    evalG T ext (.int s v) g = some (evalGInt g v) := by
  induction g with
  | cmp op l c =>
    obtain ⟨t, ht⟩ := evalE_int T ext s v .nil l (by simpa [intGuardOK] using h)
    simp [evalG, ht, evalGInt]
  | or a b iha ihb =>
    simp [intGuardOK] at h
    simp [evalG, iha h.1, ihb h.2, evalGInt]
    cases evalGInt a v <;> simp
  | and a b iha ihb =>
    simp [intGuardOK] at h
    simp [evalG, iha h.1, ihb h.2, evalGInt]
    cases evalGInt a v <;> simp
  | not a ih =>
    simp [evalG, ih (by simpa [intGuardOK] using h), evalGInt]


theorem toFVal_WF (f : Float.Fmt) (b : Nat) : (Float.toFVal f b).WF := by
  unfold Float.toFVal
  cases Float.decode f b with
  | nan => trivial
  | inf n => trivial
  | fin neg m e =>
    have key : ∀ (n : Nat) (fr neg : Bool), (FVal.fin (if neg then -(n : Int) else n) fr neg).WF := by
      intro n fr neg; cases neg <;> simp [FVal.WF] <;> omega
    simp only
    split <;> exact key _ _ _

theorem evalG_float (T : CastTables) (ext : Ext) (src : Dyn) (x : FVal) (g : G)
    (hsrc : (src = .f64 b ∧ x = Float.toFVal Float.f64 b) ∨ (src = .f32 b ∧ x = Float.toFVal Float.f32 b))
    (h : floatGuardOK g = true) :
    evalG T ext src g = some (evalGF g x) := by
  induction g with
  | cmp op l c =>
    have hl : l = .val := by simpa [floatGuardOK] using h
    subst hl
    rcases hsrc with ⟨rfl, rfl⟩ | ⟨rfl, rfl⟩ <;> simp [evalG, evalE, evalGF]
  | or a b iha ihb =>
    simp [floatGuardOK] at h
    simp [evalG, iha h.1, ihb h.2, evalGF]
    cases evalGF a x <;> simp
  | and a b iha ihb =>
    simp [floatGuardOK] at h
    simp [evalG, iha h.1, ihb h.2, evalGF]
    cases evalGF a x <;> simp
  | not a ih =>
    simp [evalG, ih (by simpa [floatGuardOK] using h), evalGF]

theorem floatToInt_exact (t : IntTy) (tr : Int) (frac neg : Bool) (h : t.inRange tr) :
    floatToInt t (.fin tr frac neg) = tr := by
  cases t <;> simp [IntTy.inRange, IntTy.min, IntTy.max, IntTy.signed, IntTy.bits] at h <;>
    simp [floatToInt, IntTy.wrap, IntTy.signed, IntTy.bits] <;> omega


theorem cast_int_source (T : CastTables) (ext : Ext) (name : String) (c : Caster) (tgt src : IntTy) (v : Int)
    (hc : T.casters.find? (fun c => c.name == name) = some c)
    (hspec : intBranchSpec T tgt src (findClause c (.int src))) (hv : src.inRange v) :
    castNamed T ext name (.int src v) = if tgt.inRange v then .ok (.int tgt v) else .err .cast := by
  unfold castNamed callNamed
  simp only [hc, typeOf]
  generalize findClause c (.int src) = br at hspec
  unfold intBranchSpec at hspec
  split at hspec
  · subst hspec; simp [evalBranch, evalE, hv]
  · obtain ⟨rfl, hsub⟩ := hspec
    simp [evalBranch, evalE, hsub v hv, wrap_of_inRange _ _ (hsub v hv)]
  · obtain ⟨ht, hs, hg, hiff⟩ := hspec
    subst ht
    rename_i g s t
    simp only [evalBranch, evalG_int T ext src v _ hg, failWith, hs]
    by_cases hr : t.inRange v
    · have : evalGInt g v = false := by
        cases hg' : evalGInt g v with
        | false => rfl
        | true => exact absurd hr ((hiff v hv).mp hg')
      simp [this, evalE, hr, wrap_of_inRange _ _ hr]
    · have : evalGInt g v = true := (hiff v hv).mpr hr
      simp [this, hr]
  · exact absurd hspec id

theorem cast_bool_source (T : CastTables) (ext : Ext) (name : String) (c : Caster) (tgt : IntTy) (b : Bool)
    (hc : T.casters.find? (fun c => c.name == name) = some c)
    (hspec : boolBranchSpec tgt (findClause c .bool)) :
    castNamed T ext name (.bool b) = .ok (.int tgt (if b then 1 else 0)) := by
  unfold castNamed callNamed
  simp only [hc, typeOf]
  generalize findClause c .bool = br at hspec
  unfold boolBranchSpec at hspec
  split at hspec
  · obtain ⟨rfl, rfl⟩ := hspec
    cases b <;> simp [evalBranch, evalE]
  · exact absurd hspec id

/-- What a float source may yield: NaN/±Inf are rejected; a finite value is converted to its
    truncation (which fits) or rejected — and an integral value that fits is not rejected. -/
def floatOutcomeSpec (tgt : IntTy) (x : FVal) (r : Outcome Dyn) : Prop :=
  match x with
  | .fin tr frac _ =>
    (r = .ok (.int tgt tr) ∧ tgt.inRange tr) ∨ (r = .err .cast ∧ (frac = false → ¬ tgt.inRange tr))
  | _ => r = .err .cast

theorem cast_float_source (T : CastTables) (ext : Ext) (name : String) (c : Caster) (tgt : IntTy)
    (src : Dyn) (x : FVal) (b : Nat)
    (hsrc : (src = .f64 b ∧ x = Float.toFVal Float.f64 b) ∨ (src = .f32 b ∧ x = Float.toFVal Float.f32 b))
    (hc : T.casters.find? (fun c => c.name == name) = some c)
    (hspec : floatBranchSpec T tgt (findClause c (typeOf src))) :
    floatOutcomeSpec tgt x (castNamed T ext name src) := by
  unfold floatOutcomeSpec
  have hwf : x.WF := by
    rcases hsrc with ⟨_, rfl⟩ | ⟨_, rfl⟩ <;> exact toFVal_WF _ _
  unfold castNamed callNamed
  simp only [hc]
  generalize findClause c (typeOf src) = br at hspec
  unfold floatBranchSpec at hspec
  split at hspec
  · obtain ⟨ht, hs, hg, hnan, hinf, hrej, hacc⟩ := hspec
    subst ht
    rename_i g s t
    simp only [evalBranch, evalG_float T ext src x g hsrc hg, failWith, hs]
    cases x with
    | nan => simp [hnan]
    | inf n => simp [hinf n]
    | fin tr frac neg =>
      cases hgv : evalGF g (.fin tr frac neg) with
      | true =>
        right
        refine ⟨by simp, ?_⟩
        intro hf hin
        subst hf
        have := hacc tr neg hwf hin
        rw [this] at hgv
        cases hgv
      | false =>
        have hin := hrej tr frac neg hwf hgv
        left
        refine ⟨?_, hin⟩
        rcases hsrc with ⟨rfl, hx⟩ | ⟨rfl, hx⟩ <;>
          simp [evalE, ← hx, floatToInt_exact t tr frac neg hin]
  · exact absurd hspec id


theorem inRange_signed_iff (t : IntTy) (h : t.signed = true) (v : Int) :
    t.inRange v ↔ (-(2 ^ (t.bits - 1) : Int) ≤ v ∧ v < 2 ^ (t.bits - 1)) := by
  cases t <;> simp [IntTy.signed] at h <;> simp [IntTy.inRange, IntTy.min, IntTy.max, IntTy.signed, IntTy.bits] <;> omega

theorem inRange_unsigned_iff (t : IntTy) (h : t.signed = false) (v : Int) :
    t.inRange v ↔ (0 ≤ v ∧ v < 2 ^ t.bits) := by
  cases t <;> simp [IntTy.signed] at h <;> simp [IntTy.inRange, IntTy.min, IntTy.max, IntTy.signed, IntTy.bits] <;> omega

theorem bits_pos (t : IntTy) : t.bits ≠ 0 := by cases t <;> simp [IntTy.bits]

/-- Canonical decimal text of `v` (the image of strconv.FormatInt) cast to an integer type:
    exactly `v` when it fits, the cast failure otherwise — at any fuel ≥ 2. -/
theorem call_text_source (T : CastTables) (ext : Ext) (name : String) (c : Caster) (tgt : IntTy) (v : Int)
    (fuel : Nat)
    (hc : T.casters.find? (fun c => c.name == name) = some c)
    (hspec : textBranchSpec T tgt (findClause c .str)) :
    callNamed T ext (fuel + 2) name (.str (IntText.formatInt v)) =
      if tgt.inRange v then .ok (.int tgt v) else .err .cast := by
  unfold callNamed
  simp only [hc, typeOf]
  generalize findClause c .str = br at hspec
  unfold textBranchSpec at hspec
  split at hspec
  · -- ParseInt
    obtain ⟨hsig, rfl, hbits, he, hs⟩ := hspec
    rename_i bits e s
    simp only [evalBranch, runParse, failWith, hs]
    have hb : (if bits = 0 then 64 else bits) = tgt.bits := by
      rcases hbits with h | ⟨h0, h64⟩
      · subst h; simp [bits_pos]
      · subst h0; simp [h64]
    simp only [beq_self_eq_true, if_true, IntText.parseInt0_formatInt, hb, ← inRange_signed_iff tgt hsig v]
    by_cases hr : tgt.inRange v
    · rcases he with rfl | ⟨rfl, rfl⟩ <;> simp [hr, evalE, wrap_of_inRange _ _ hr]
    · simp [hr]
  · -- ParseUint
    obtain ⟨hsig, rfl, hbits, he, hs⟩ := hspec
    rename_i bits e s
    simp only [evalBranch, runParse, failWith, hs]
    have hb : (if bits = 0 then 64 else bits) = tgt.bits := by
      rcases hbits with h | ⟨h0, h64⟩
      · subst h; simp [bits_pos]
      · subst h0; simp [h64]
    simp only [beq_self_eq_true, if_true, IntText.parseUint0_formatInt, hb, ← inRange_unsigned_iff tgt hsig v]
    by_cases hr : tgt.inRange v
    · have hnn : 0 ≤ v := ((inRange_unsigned_iff tgt hsig v).mp hr).1
      have hcast : ((v.toNat : Nat) : Int) = v := Int.toNat_of_nonneg hnn
      rcases he with rfl | ⟨rfl, rfl⟩ <;> simp [hr, evalE, hcast, wrap_of_inRange _ _ hr]
    · simp [hr]
  · exact absurd hspec id

/-- json.Number carrying canonical decimal text: the caster calls itself on `string(val)`. -/
theorem cast_num_source (T : CastTables) (ext : Ext) (c : Caster) (tgt : IntTy) (v : Int)
    (hc : T.casters.find? (fun c => c.name == casterOfInt tgt) = some c)
    (htext : textBranchSpec T tgt (findClause c .str))
    (hnum : numBranchSpec tgt (findClause c .num)) :
    castNamed T ext (casterOfInt tgt) (.num (IntText.formatInt v)) =
      if tgt.inRange v then .ok (.int tgt v) else .err .cast := by
  unfold castNamed callNamed
  simp only [hc, typeOf]
  generalize hbr : findClause c .num = br at hnum
  unfold numBranchSpec at hnum
  split at hnum
  · subst hnum
    simp only [evalBranch, evalE]
    exact call_text_source T ext _ c tgt v 20 hc htext
  · exact absurd hnum id

end Jl
