/-
  Proofs.FlowTieBuilders — the builders of template.go that go through `NewValue(nil, f, T)`: with the regenerated
  cast tables (`cast.To(T, nil)` is nil or fails) they declare the column `withCol` declares.
  (One of the files Proofs.FlowTie*; it is the only one that rests on the cast tables, so that a caster the
  translator cannot read re-opens the properties about casters only — the overview is in Proofs/FlowTie.lean.)
-/
import Proofs.FlowTieDefs
import Proofs.LineAccept

namespace Jl.FlowTie
open Jl Jl.Flow Jl.Value Jl.Template

/-- `WithMapped<Format>(name, rawtype)`, for each of the eight formats that have one, is
    `withCol t name f rawtype` (with the regenerated cast tables: `cast.To(T, nil)` is nil or fails). -/
theorem mapped_builder_is_withCol (ext : Ext) (f : Format) (hf : f ≠ .bad) (hh : f ≠ .hidden) (t : Tmpl)
    (name : Bytes) (fp : Format) (typ : Ty) (sub : Tmpl) :
    runBuilder ⟨genTables, ext⟩ ("WithMapped" ++ f.goName) t name fp typ sub = some (.ok (withCol t name f typ)) := by
  cases f <;> first | exact absurd rfl hf | exact absurd rfl hh |
    (show (some (match newValue ⟨genTables, ext⟩ .nil _ typ with
        | .ok c => Outcome.ok (upsert t name c) | .err e => .err e | .panic s => .panic s)) = _
     rw [LineAccept.gen_newValue_nil]; rfl)

/-- `With(name, format, rawtype)` is `withCol t name format rawtype`. -/
theorem with_is_withCol (ext : Ext) (t : Tmpl) (name : Bytes) (f : Format) (typ : Ty) (sub : Tmpl) :
    runBuilder ⟨genTables, ext⟩ "With" t name f typ sub = some (.ok (withCol t name f typ)) := by
  show (some (match newValue ⟨genTables, ext⟩ .nil f typ with
      | .ok c => Outcome.ok (upsert t name c) | .err e => .err e | .panic s => .panic s)) = _
  rw [LineAccept.gen_newValue_nil]; rfl

end Jl.FlowTie
