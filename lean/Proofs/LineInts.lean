/-
  Proofs.LineInts — C09 (and the last sentence of C10) at LINE level: integer columns on the emitted
  BYTES.

  C09: "Integer casts return the exact value or an error, never a wrapped one: converting a number
  carried by any supported Go type, by decimal text or by json.Number to an integer type yields
  exactly that mathematical integer when it fits the target and an error otherwise."
  C10, last sentence: "after a successful import the raw value of a column declared with raw type T
  is nil or a T."

  Seen through a jl line: a JSON integer literal under a column declared numeric(T) / string(T) /
  timestamp(T) / auto(T) with an integer raw type T is emitted as the same mathematical integer when
  it fits T, and the line is rejected otherwise — never a wrapped value.  The cell-level statements
  are in Props/C09, C10, C12 (over Proofs.CastInt, Proofs.IntText); here they are carried through
  `jlLine` (importer `GetRow`, exporter `CreateRow`, `row.MarshalJSON`) over the regenerated cast
  tables and EVERY `Ext`, in the manner of Proofs.LineTime (whose generic lemmas are reused).

  0.  cell facts about `genTables` at the fuel `cast.To` leaves: `castTo_int_num`, `castTo_int_str`,
      `castTo_int_int`, `castTo_int_nil`, `toNumber_int`, `toString_int`, `toTimestamp_int`
  1.  one column `k` on both sides, the line's only member being `k`:
        `jlLine_col`, `jlLine_col_import_rej`, `jlLine_col_export_rej`   the line's way, from cell steps
        `int_line_written`, `int_line_rejected`, `int_line_timestamp_rejected`,
        `int_line_exact_or_rejected`, `int_line_accepted_exact`          target 1, any two formats
        `numeric_line`, `numeric_line_rejected`, `numeric_line_literal`  target 1(a), 1(b)
        `string_line`, `auto_line`, `timestamp_line`, `timestamp_line_i64` (+ `_rejected`)
  2.  `carrier_independent_line`, `numeric_line_carrier_independent`, `numeric_line_string_input`
  3.  `emitted_line_ints_pointwise`, `emitted_line_ints_same_names`, `out_of_range_not_accepted`
      (+ `int_line_unparsed_rejected`: what lies outside `lit = formatInt v`)
  4.  `Demo`: `{"n":127}` ↦ `{"n":127}\n`, `{"n":128}` and `{"n":-129}` rejected under numeric(int8);
      `{"n":18446744073709551615}` accepted, `…616` rejected under numeric(uint64); `{"n":"127"}`;
      `{"n":1e2}` rejected; `{"n":"010"}` ↦ `{"n":8}`; a two-column line for target 3.

  "Rejected" is the outcome `.ok ([], some e)` of `jlLine`: the error reported for the line, nothing
  to write.  The input line is given by what the reader delivers for it
  (`Json.unmarshal line = (.cons k (.num lit) .nil, true)`: any spelling of the one-member object);
  `LineTime.lineOfInt` / `lineOfStr` are the literal spellings, for which that hypothesis is proved.
-/
import Proofs.LineTime
import Proofs.IntText
import Proofs.IntTextJson

namespace Jl.LineInts
open Jl Jl.Value Jl.Template Jl.Cast Jl.CastTyped
open Jl.JsonQuote (sanitize)
open Jl.JsonPrint (treeDyn treeVal treeMembers treeExported numText FloatTextOK)
open Jl.IntText
open Jl.LineTime (objText lineOfInt lineOfStr lastVal)

set_option linter.unusedSimpArgs false

/-! ### 0. Cell-level facts about the regenerated tables, at the fuel `cast.To` leaves -/

/-- `cast.To(sample of integer type t, x)` is the caster of that type (one unit of fuel spent). -/
theorem castTo_int (ext : Ext) (t : IntTy) (x : Dyn) :
    castTo genTables ext (.int t) x = callNamed genTables ext 23 (casterOfInt t) x := by
  cases t <;> simp [castTo, genTables, Gen.dispatchTo, evalBranch, evalE, casterOfInt]

/-- `Cast.cast_int_source` at any fuel ≥ 2. -/
theorem call_int_source (T : CastTables) (ext : Ext) (name : String) (c : Caster) (tgt src : IntTy)
    (v : Int) (fuel : Nat)
    (hc : T.casters.find? (fun c => c.name == name) = some c)
    (hspec : intBranchSpec T tgt src (findClause c (.int src))) (hv : src.inRange v) :
    callNamed T ext (fuel + 2) name (.int src v) =
      if tgt.inRange v then .ok (.int tgt v) else .err .cast := by
  unfold callNamed
  simp only [hc, typeOf]
  generalize findClause c (.int src) = br at hspec
  unfold intBranchSpec at hspec
  split at hspec
  · subst hspec; simp [evalBranch, evalE, hv]
  · obtain ⟨rfl, hsub⟩ := hspec
    simp [evalBranch, evalE, hsub v hv, wrap_of_inRange _ _ (hsub v hv)]
  · obtain ⟨ht, hs, hg, hiff⟩ := hspec
    subst ht
    rename_i g s t
    simp only [evalBranch, evalG_int T ext src v _ hg, failWith, hs]
    by_cases hr : t.inRange v
    · have : evalGInt g v = false := by
        cases hg' : evalGInt g v with
        | false => rfl
        | true => exact absurd hr ((hiff v hv).mp hg')
      simp [this, evalE, hr, wrap_of_inRange _ _ hr]
    · have : evalGInt g v = true := (hiff v hv).mpr hr
      simp [this, hr]
  · exact absurd hspec id

/-- json.Number carrying canonical decimal text, at any fuel ≥ 4. -/
theorem call_num_source (ext : Ext) (tgt : IntTy) (v : Int) (fuel : Nat) :
    callNamed genTables ext (fuel + 4) (casterOfInt tgt) (.num (formatInt v)) =
      if tgt.inRange v then .ok (.int tgt v) else .err .cast := by
  unfold callNamed
  simp only [caster_present tgt, typeOf]
  have hnum := num_branches_ok tgt
  generalize findClause (casterOf genTables (casterOfInt tgt)) .num = br at hnum
  unfold numBranchSpec at hnum
  split at hnum
  · subst hnum
    simp only [evalBranch, evalE]
    exact call_text_source genTables ext _ _ tgt v fuel (caster_present tgt) (text_branches_ok tgt)
  · exact absurd hnum id

theorem castTo_int_num (ext : Ext) (t : IntTy) (v : Int) :
    castTo genTables ext (.int t) (.num (formatInt v)) =
      if t.inRange v then .ok (.int t v) else .err .cast := by
  rw [castTo_int]; exact call_num_source ext t v 19

theorem castTo_int_str (ext : Ext) (t : IntTy) (v : Int) :
    castTo genTables ext (.int t) (.str (formatInt v)) =
      if t.inRange v then .ok (.int t v) else .err .cast := by
  rw [castTo_int]
  exact call_text_source genTables ext _ _ t v 21 (caster_present t) (text_branches_ok t)

theorem castTo_int_int (ext : Ext) (t src : IntTy) (v : Int) (hv : src.inRange v) :
    castTo genTables ext (.int t) (.int src v) =
      if t.inRange v then .ok (.int t v) else .err .cast := by
  rw [castTo_int]
  exact call_int_source genTables ext _ _ t src v 21 (caster_present t) (int_branches_ok t src) hv

theorem castTo_int_nil (ext : Ext) (t : IntTy) : castTo genTables ext (.int t) .nil = .ok .nil := by
  rw [castTo_int]
  cases t <;>
    simp [callNamed, genTables, Gen.casters, casterOfInt, findClause, typeOf, evalBranch, evalE]


/-- ToNumber of an integer of any type is the json.Number with the same decimal text
    (`C12.toNumber_int`, re-proved here: Props/ is not imported). -/
theorem toNumber_int (ext : Ext) (t : IntTy) (v : Int) (hv : t.inRange v) :
    castNamed genTables ext "ToNumber" (.int t v) = .ok (.num (formatInt v)) := by
  cases t <;>
  simp [castNamed, callNamed, genTables, Gen.casters, findClause, typeOf, evalBranch, evalE] <;>
  (congr 1; apply wrap_of_inRange;
   simp [IntTy.inRange, IntTy.min, IntTy.max, IntTy.signed, IntTy.bits] at hv ⊢; omega)

theorem toString_int (ext : Ext) (t : IntTy) (v : Int) (hv : t.inRange v) :
    castNamed genTables ext "ToString" (.int t v) = .ok (.str (formatInt v)) := by
  cases t <;>
  simp [castNamed, callNamed, genTables, Gen.casters, findClause, typeOf, evalBranch, evalE] <;>
  (congr 1; apply wrap_of_inRange;
   simp [IntTy.inRange, IntTy.min, IntTy.max, IntTy.signed, IntTy.bits] at hv ⊢; omega)

theorem toTimestamp_i64 (ext : Ext) (v : Int) :
    castNamed genTables ext "ToTimestamp" (.int .i64 v) = .ok (.int .i64 v) := by
  simp [castNamed, callNamed, genTables, Gen.casters, findClause, typeOf, evalBranch, evalE]

theorem toTimestamp_other (ext : Ext) (t : IntTy) (v : Int) (ht : t ≠ .i64) :
    castNamed genTables ext "ToTimestamp" (.int t v) =
      callNamed genTables ext 22 "ToInt64" (.int t v) := by
  have hf : genTables.casters.find? (fun c => c.name == "ToTimestamp") =
      some (casterOf genTables "ToTimestamp") := by
    simp [casterOf, genTables, Gen.casters]
  have hc : findClause (casterOf genTables "ToTimestamp") (.int t) = .tail "ToInt64" .val := by
    cases t <;> simp [casterOf, genTables, Gen.casters, findClause] at ht ⊢
  unfold castNamed
  rw [show (24 : Nat) = 22 + 1 + 1 from rfl]
  simp only [callNamed, hf, typeOf, hc, evalBranch, evalE]

/-- `ToTimestamp` of a Go integer is `ToInt64` of it: the value when it fits `int64`. -/
theorem toTimestamp_int (ext : Ext) (t : IntTy) (v : Int) (hv : t.inRange v) :
    castNamed genTables ext "ToTimestamp" (.int t v) =
      if IntTy.i64.inRange v then .ok (.int .i64 v) else .err .cast := by
  by_cases ht : t = .i64
  · subst ht
    rw [toTimestamp_i64, if_pos hv]
  · rw [toTimestamp_other ext t v ht]
    exact call_int_source genTables ext "ToInt64" _ .i64 t v 20 (caster_present .i64)
      (int_branches_ok .i64 t) hv


/-! ### 1. One column: the line's way through importer and exporter

  `LineTime.jlLine_col` asks for the raw types none / time.Time / int64 (`NilTy`); the same three
  steps for any raw type whose `cast.To(T, nil)` is nil, and the two ways a line is REJECTED
  (`Import` fails: nothing reaches the exporter; `Export` fails in `MarshalJSON`). -/

theorem cloneRow_col (ext : Ext) (k : Bytes) (f : Format) {ty : Ty}
    (h : castTo genTables ext ty .nil = .ok .nil) :
    cloneRow ⟨genTables, ext⟩ [(k, .cell .nil f ty)] = .ok [(k, .cell .nil f ty)] := by
  simp [cloneRow, cloneInto, cloneValue, newValue, Cells.raw, Cells.format, Cells.rawType, h, upsert,
    OMap.upsert]

theorem getRow_col (ext : Ext) (k : Bytes) (f : Format) {ty : Ty}
    (hty : castTo genTables ext ty .nil = .ok .nil) (line : Bytes) (jv : JV) (x : Dyn) (c : Val)
    (hline : Json.unmarshal line = (.cons k jv .nil, true))
    (hjv : ofJV ⟨genTables, ext⟩ jv = .ok x)
    (himp : importCell ⟨genTables, ext⟩ f ty x = .ok (c, none)) :
    getRow ⟨genTables, ext⟩ [(k, .cell .nil f ty)] line = .ok ([(k, c)], none) := by
  simp [getRow, createRowEmpty, cloneRow_col ext k f hty, unmarshalInto, hline, ofJVMembers, hjv,
    parseMembers, parseMember, lookup, OMap.lookup, importVal, importInto, himp, upsert, OMap.upsert]

/-- `GetRow` when `Import` of the one member fails: the error is the line's. -/
theorem getRow_col_rej (ext : Ext) (k : Bytes) (f : Format) {ty : Ty}
    (hty : castTo genTables ext ty .nil = .ok .nil) (line : Bytes) (jv : JV) (x : Dyn) (c : Val)
    (e : ErrClass)
    (hline : Json.unmarshal line = (.cons k jv .nil, true))
    (hjv : ofJV ⟨genTables, ext⟩ jv = .ok x)
    (himp : importCell ⟨genTables, ext⟩ f ty x = .ok (c, some e)) :
    getRow ⟨genTables, ext⟩ [(k, .cell .nil f ty)] line = .ok ([(k, c)], some e) := by
  simp [getRow, createRowEmpty, cloneRow_col ext k f hty, unmarshalInto, hline, ofJVMembers, hjv,
    parseMembers, parseMember, lookup, OMap.lookup, importVal, importInto, himp, upsert, OMap.upsert]

theorem createRow_col (ext : Ext) (k : Bytes) (f : Format) {ty : Ty}
    (hty : castTo genTables ext ty .nil = .ok .nil)
    (c c' : Val) (hnew : newValue ⟨genTables, ext⟩ (Cells.raw c) f ty = .ok c') :
    createRow ⟨genTables, ext⟩ [(k, .cell .nil f ty)] (.val (.row (Members.ofList [(k, c)]))) =
      .ok ([(k, c')], none) := by
  simp [createRow, cloneRow_col ext k f hty, fillPairs, fill, lookup, OMap.lookup, Cells.format,
    Cells.rawType, hnew, upsert, OMap.upsert]

/-- Accepted: the three cell steps (`Import`, `NewValue` on the exporter side, `MarshalJSON`). -/
theorem jlLine_col (ext : Ext) (k : Bytes) (fi fo : Format) {tyi tyo : Ty}
    (hi : castTo genTables ext tyi .nil = .ok .nil) (ho : castTo genTables ext tyo .nil = .ok .nil)
    (line : Bytes) (jv : JV) (x : Dyn) (c c' : Val) (txt : Bytes)
    (hline : Json.unmarshal line = (.cons k jv .nil, true))
    (hjv : ofJV ⟨genTables, ext⟩ jv = .ok x)
    (himp : importCell ⟨genTables, ext⟩ fi tyi x = .ok (c, none))
    (hnew : newValue ⟨genTables, ext⟩ (Cells.raw c) fo tyo = .ok c')
    (hvis : Cells.format c' ≠ .hidden)
    (hm : RowPrint.marshalVal ⟨genTables, ext⟩ c' = .ok txt) :
    jlLine ⟨genTables, ext⟩ (withCol [] k fi tyi) (withCol [] k fo tyo) line =
      .ok (objText k txt ++ [0x0A], none) := by
  simp only [LineTime.withCol_nil, jlLine, getRow_col ext k fi hi line jv x c hline hjv himp,
    exportLine, createRow_col ext k fo ho c c' hnew, LineTime.marshalRow_col _ k c' txt hvis hm]

/-- Rejected by the importer: nothing is written, the line's error is the cell's. -/
theorem jlLine_col_import_rej (ext : Ext) (k : Bytes) (fi fo : Format) {tyi tyo : Ty}
    (hi : castTo genTables ext tyi .nil = .ok .nil)
    (line : Bytes) (jv : JV) (x : Dyn) (c : Val) (e : ErrClass)
    (hline : Json.unmarshal line = (.cons k jv .nil, true))
    (hjv : ofJV ⟨genTables, ext⟩ jv = .ok x)
    (himp : importCell ⟨genTables, ext⟩ fi tyi x = .ok (c, some e)) :
    jlLine ⟨genTables, ext⟩ (withCol [] k fi tyi) (withCol [] k fo tyo) line = .ok ([], some e) := by
  simp only [LineTime.withCol_nil, jlLine, getRow_col_rej ext k fi hi line jv x c e hline hjv himp]

theorem marshalRow_col_err (env : Env) (k : Bytes) (c : Val) (e : ErrClass)
    (hvis : Cells.format c ≠ .hidden) (hm : RowPrint.marshalVal env c = .err e) :
    RowPrint.marshalRow env (Members.ofList [(k, c)]) = .err e := by
  have hb : (Cells.format c == Format.hidden) = false := by simpa using hvis
  unfold RowPrint.marshalRow
  rw [RowPrint.marshalVal.eq_def]
  simp only [Members.ofList]
  rw [RowPrint.marshalMembers.eq_def]
  simp only [hb, hm]
  rfl

/-- Rejected by the exporter (`Export` of the cell fails while the row is marshalled): nothing is
    written. -/
theorem jlLine_col_export_rej (ext : Ext) (k : Bytes) (fi fo : Format) {tyi tyo : Ty}
    (hi : castTo genTables ext tyi .nil = .ok .nil) (ho : castTo genTables ext tyo .nil = .ok .nil)
    (line : Bytes) (jv : JV) (x : Dyn) (c c' : Val) (e : ErrClass)
    (hline : Json.unmarshal line = (.cons k jv .nil, true))
    (hjv : ofJV ⟨genTables, ext⟩ jv = .ok x)
    (himp : importCell ⟨genTables, ext⟩ fi tyi x = .ok (c, none))
    (hnew : newValue ⟨genTables, ext⟩ (Cells.raw c) fo tyo = .ok c')
    (hvis : Cells.format c' ≠ .hidden) (he : e ≠ .ext)
    (hm : RowPrint.marshalVal ⟨genTables, ext⟩ c' = .err e) :
    jlLine ⟨genTables, ext⟩ (withCol [] k fi tyi) (withCol [] k fo tyo) line = .ok ([], some e) := by
  simp only [LineTime.withCol_nil, jlLine, getRow_col ext k fi hi line jv x c hline hjv himp,
    exportLine, createRow_col ext k fo ho c c' hnew, marshalRow_col_err _ k c' e hvis hm]


/-! #### The cell steps for an integer column -/

/-- The formats of target 1. -/
def IntFmt (f : Format) : Prop := f = .numeric ∨ f = .string ∨ f = .timestamp ∨ f = .auto

/-- The error class a failed `Import` leaves on the line: `Import` of an Auto column hands the cast
    error through, the other formats wrap it (`ErrUnsupportedImport`). -/
def rejClass (f : Format) : ErrClass := if f = .auto then .cast else .unsupportedImport

/-- What `MarshalJSON` writes for the Go integer `v` under format `f`: the decimal literal, between
    quotes under a string column. -/
def cellText (f : Format) (v : Int) : Bytes :=
  if f = .string then JsonWrite.quote (formatInt v) else formatInt v

/-- The member the reader delivers for `cellText f v`. -/
def cellJV (f : Format) (v : Int) : JV :=
  if f = .string then .str (formatInt v) else .num (formatInt v)

/-- The carriers of a decimal text on a line: the json.Number of a number literal, or the string. -/
def IsCarrier (x : Dyn) (lit : Bytes) : Prop := x = .num lit ∨ x = .str lit

theorem castTo_int_carrier (ext : Ext) (t : IntTy) (v : Int) {x : Dyn}
    (hx : IsCarrier x (formatInt v)) :
    castTo genTables ext (.int t) x = if t.inRange v then .ok (.int t v) else .err .cast := by
  rcases hx with rfl | rfl
  · exact castTo_int_num ext t v
  · exact castTo_int_str ext t v

theorem import_int_ok (ext : Ext) {f : Format} (hf : IntFmt f) (t : IntTy) (v : Int) {x : Dyn}
    (hx : IsCarrier x (formatInt v)) (hv : t.inRange v) :
    importCell ⟨genTables, ext⟩ f (.int t) x = .ok (.cell (.int t v) f (.int t), none) := by
  have hc := castTo_int_carrier ext t v hx
  rw [if_pos hv] at hc
  rcases hf with rfl | rfl | rfl | rfl <;> rcases hx with rfl | rfl <;>
    simp [importCell, importByFormat, importFrom, importFail, hc]

theorem import_int_rej (ext : Ext) {f : Format} (hf : IntFmt f) (t : IntTy) (v : Int) {x : Dyn}
    (hx : IsCarrier x (formatInt v)) (hv : ¬ t.inRange v) :
    importCell ⟨genTables, ext⟩ f (.int t) x = .ok (.cell .nil f (.int t), some (rejClass f)) := by
  have hc := castTo_int_carrier ext t v hx
  rw [if_neg hv] at hc
  rcases hf with rfl | rfl | rfl | rfl <;> rcases hx with rfl | rfl <;>
    simp [importCell, importByFormat, importFrom, importFail, hc, rejClass]

theorem newValue_int (ext : Ext) (f : Format) (t : IntTy) (v : Int) (hv : t.inRange v) :
    newValue ⟨genTables, ext⟩ (.int t v) f (.int t) = .ok (.cell (.int t v) f (.int t)) := by
  simp [newValue, castTo_int_int ext t t v hv, hv]

theorem formatInt_isEmpty (v : Int) : (formatInt v).isEmpty = false := by
  unfold formatInt
  split
  · rfl
  · cases h : natDigits v.toNat with
    | nil => exact absurd h (natDigits_ne_nil _)
    | cons _ _ => rfl

/-- `Export` of a cell holding the Go integer `v` of type `t`. -/
theorem export_int (ext : Ext) (t : IntTy) (v : Int) (ty : Ty) (hv : t.inRange v) :
    exportVal ⟨genTables, ext⟩ (.cell (.int t v) .numeric ty) = .ok (.num (formatInt v)) ∧
    exportVal ⟨genTables, ext⟩ (.cell (.int t v) .string ty) = .ok (.str (formatInt v)) ∧
    exportVal ⟨genTables, ext⟩ (.cell (.int t v) .auto ty) = .ok (.int t v) ∧
    exportVal ⟨genTables, ext⟩ (.cell (.int t v) .timestamp ty) =
      if IntTy.i64.inRange v then .ok (.int .i64 v) else .err .unsupportedExport := by
  refine ⟨?_, ?_, ?_, ?_⟩
  · simp [exportVal, toNumber_int ext t v hv, exportFail]
  · simp [exportVal, toString_int ext t v hv, exportFail]
  · simp [exportVal]
  · simp only [exportVal, toTimestamp_int ext t v hv]
    split <;> rfl

theorem marshal_of_export (env : Env) (raw : Dyn) (f : Format) (ty : Ty) (e : Dyn)
    (h : exportVal env (.cell raw f ty) = .ok e) :
    RowPrint.marshalVal env (.cell raw f ty) = RowPrint.marshalExported env e raw := by
  rw [RowPrint.marshalVal.eq_def]
  simp only [h]

theorem marshal_of_export_err (env : Env) (raw : Dyn) (f : Format) (ty : Ty) (e : ErrClass)
    (h : exportVal env (.cell raw f ty) = .err e) :
    RowPrint.marshalVal env (.cell raw f ty) = .err e := by
  rw [RowPrint.marshalVal.eq_def]
  simp only [h]

/-- `MarshalJSON` of the cell: the decimal literal (quoted under a string column).  Under a
    timestamp column `Export` is `ToTimestamp`, i.e. `ToInt64`: the value has to fit `int64`. -/
theorem marshal_int (ext : Ext) {f : Format} (hf : IntFmt f) (t : IntTy) (v : Int) (ty : Ty)
    (hv : t.inRange v) (hts : f = .timestamp → IntTy.i64.inRange v) :
    RowPrint.marshalVal ⟨genTables, ext⟩ (.cell (.int t v) f ty) = .ok (cellText f v) := by
  obtain ⟨h1, h2, h3, h4⟩ := export_int ext t v ty hv
  rcases hf with rfl | rfl | rfl | rfl
  · rw [marshal_of_export _ _ _ _ _ h1]
    rw [RowPrint.marshalExported.eq_def]
    simp [formatInt_isEmpty, isValidNumber_formatInt, cellText]
  · rw [marshal_of_export _ _ _ _ _ h2]
    rw [RowPrint.marshalExported.eq_def]
    simp [cellText]
  · rw [if_pos (hts rfl)] at h4
    rw [marshal_of_export _ _ _ _ _ h4]
    rw [RowPrint.marshalExported.eq_def]
    simp [cellText]
  · rw [marshal_of_export _ _ _ _ _ h3]
    rw [RowPrint.marshalExported.eq_def]
    simp [cellText]

/-- …and when the value does not fit `int64` (only possible for `uint` / `uint64`), a timestamp
    column cannot export it. -/
theorem marshal_timestamp_rej (ext : Ext) (t : IntTy) (v : Int) (ty : Ty)
    (hv : t.inRange v) (h64 : ¬ IntTy.i64.inRange v) :
    RowPrint.marshalVal ⟨genTables, ext⟩ (.cell (.int t v) .timestamp ty) =
      .err .unsupportedExport := by
  have h4 := (export_int ext t v ty hv).2.2.2
  rw [if_neg h64] at h4
  exact marshal_of_export_err _ _ _ _ _ h4


/-! ### Target 1: one integer column `k` on both sides

  `ti = withCol [] k fi (.int t)`, `to = withCol [] k fo (.int t)`, `fi`, `fo` among numeric / string /
  timestamp / auto (the task's case is `fi = fo`); the input line's only member is `k`, carrying the
  canonical decimal text of `v` as a number literal or as a string (`IsCarrierJV`). -/

/-- The member of the input line: the number literal `lit`, or the string `"lit"`. -/
def IsCarrierJV (jv : JV) (lit : Bytes) : Prop := jv = .num lit ∨ jv = .str lit

theorem ofJV_carrier (env : Env) {jv : JV} {lit : Bytes} (h : IsCarrierJV jv lit) :
    ∃ x, ofJV env jv = .ok x ∧ IsCarrier x lit := by
  rcases h with rfl | rfl
  · exact ⟨.num lit, by rw [ofJV], .inl rfl⟩
  · exact ⟨.str lit, by rw [ofJV], .inr rfl⟩

theorem intFmt_visible {f : Format} (hf : IntFmt f) : f ≠ .hidden := by
  rcases hf with rfl | rfl | rfl | rfl <;> decide

/-- **Accepted, and the bytes.**  `v` fits `T` (and `int64` when the exporter's column is a
    timestamp column): for EVERY `ext` the line is accepted and what is written is exactly
    `{"k":<decimal of v>}` (`{"k":"<decimal of v>"}` under a string column) and a newline. -/
theorem int_line_written (ext : Ext) (k : Bytes) {fi fo : Format} (hfi : IntFmt fi)
    (hfo : IntFmt fo) (t : IntTy) (v : Int) (line : Bytes) (jv : JV)
    (hline : Json.unmarshal line = (.cons k jv .nil, true)) (hjv : IsCarrierJV jv (formatInt v))
    (hv : t.inRange v) (hts : fo = .timestamp → IntTy.i64.inRange v) :
    jlLine ⟨genTables, ext⟩ (withCol [] k fi (.int t)) (withCol [] k fo (.int t)) line =
      .ok (objText k (cellText fo v) ++ [0x0A], none) := by
  obtain ⟨x, hx, hc⟩ := ofJV_carrier ⟨genTables, ext⟩ hjv
  exact jlLine_col ext k fi fo (castTo_int_nil ext t) (castTo_int_nil ext t) line jv x _ _ _ hline hx
    (import_int_ok ext hfi t v hc hv) (newValue_int ext fo t v hv)
    (by simpa [Cells.format] using intFmt_visible hfo) (marshal_int ext hfo t v _ hv hts)

/-- **Rejected.**  `v` does not fit `T`: for EVERY `ext` the line is rejected by the importer —
    nothing is written, whatever the exporter's template. -/
theorem int_line_rejected (ext : Ext) (k : Bytes) {fi : Format} (fo : Format) (tyo : Ty)
    (hfi : IntFmt fi) (t : IntTy) (v : Int) (line : Bytes) (jv : JV)
    (hline : Json.unmarshal line = (.cons k jv .nil, true)) (hjv : IsCarrierJV jv (formatInt v))
    (hv : ¬ t.inRange v) :
    jlLine ⟨genTables, ext⟩ (withCol [] k fi (.int t)) (withCol [] k fo tyo) line =
      .ok ([], some (rejClass fi)) := by
  obtain ⟨x, hx, hc⟩ := ofJV_carrier ⟨genTables, ext⟩ hjv
  exact jlLine_col_import_rej ext k fi fo (castTo_int_nil ext t) line jv x _ _ hline hx
    (import_int_rej ext hfi t v hc hv)

/-- What `ToTimestamp` does with the other integer types: it is `ToInt64`, so a `uint` / `uint64`
    value above `MaxInt64` is imported (it fits `T`) and then refused by the exporter's timestamp
    column — the line is rejected, not written with a wrapped value. -/
theorem int_line_timestamp_rejected (ext : Ext) (k : Bytes) {fi : Format} (hfi : IntFmt fi)
    (t : IntTy) (v : Int) (line : Bytes) (jv : JV)
    (hline : Json.unmarshal line = (.cons k jv .nil, true)) (hjv : IsCarrierJV jv (formatInt v))
    (hv : t.inRange v) (h64 : ¬ IntTy.i64.inRange v) :
    jlLine ⟨genTables, ext⟩ (withCol [] k fi (.int t)) (withCol [] k .timestamp (.int t)) line =
      .ok ([], some .unsupportedExport) := by
  obtain ⟨x, hx, hc⟩ := ofJV_carrier ⟨genTables, ext⟩ hjv
  exact jlLine_col_export_rej ext k fi .timestamp (castTo_int_nil ext t) (castTo_int_nil ext t) line
    jv x _ _ _ hline hx (import_int_ok ext hfi t v hc hv) (newValue_int ext .timestamp t v hv)
    (by simp [Cells.format]) (by decide) (marshal_timestamp_rej ext t v _ hv h64)

/-- Only `uint` and `uint64` hold values outside `int64`. -/
theorem inRange_i64_of (t : IntTy) (ht : t ≠ .uint ∧ t ≠ .u64) {v : Int} (hv : t.inRange v) :
    IntTy.i64.inRange v := by
  obtain ⟨h1, h2⟩ := ht
  cases t <;> simp [IntTy.inRange, IntTy.min, IntTy.max, IntTy.signed, IntTy.bits] at hv h1 h2 ⊢ <;>
    omega

/-! #### The reader's side of what was written -/

theorem asc_formatInt (v : Int) : ∀ b ∈ formatInt v, b < 0x80 := by
  intro b hb
  rcases formatInt_bytes v b hb with rfl | h
  · decide
  · have := h.2
    exact UInt8.lt_iff_toNat_lt.mpr (by simp; omega)

theorem sanitize_formatInt (v : Int) : sanitize (formatInt v) = formatInt v :=
  JsonPrint.sanitize_of_ascii _ (asc_formatInt v)

/-- What the reader delivers for the printed one-member object. -/
theorem unmarshal_cellText {k : Bytes} (hk : sanitize k = k) (f : Format) (v : Int) :
    Json.unmarshal (objText k (cellText f v)) = (.cons k (cellJV f v) .nil, true) := by
  unfold cellText cellJV
  split
  · rw [LineTime.unmarshal_objText (JsonPrint.readsAs_quote _), hk, sanitize_formatInt]
  · exact LineTime.unmarshal_int_out hk v

/-- The two literal spellings of the input line, `{"k":v}` and `{"k":"v"}`, are such lines. -/
theorem unmarshal_lineOfInt {k : Bytes} (hk : sanitize k = k) (v : Int) :
    Json.unmarshal (lineOfInt k v) = (.cons k (.num (formatInt v)) .nil, true) :=
  LineTime.unmarshal_lineOfInt hk v

theorem unmarshal_lineOfStr {k : Bytes} (hk : sanitize k = k) (v : Int) :
    Json.unmarshal (lineOfStr k (formatInt v)) = (.cons k (.str (formatInt v)) .nil, true) := by
  rw [lineOfStr, LineTime.unmarshal_objText (JsonPrint.readsAs_quote _), hk, sanitize_formatInt]

/-- **Target 1, general form (C09 on the line).**  Exact value or rejection, never a wrapped value:
    whatever `ext`, the outcome of the line is one of
    * accepted, `v` fits `T`, and the bytes are `{"k":<decimal of v>}` + newline (quoted under a
      string column), in which the reader finds, under `k`, exactly `cellJV fo v`;
    * rejected (nothing written), and then `v` does not fit `T` — or the exporter's column is a
      timestamp column and `v` does not fit `int64`.
    No `panic`, no `.err` outcome, no other bytes. -/
theorem int_line_exact_or_rejected (ext : Ext) (k : Bytes) (hk : sanitize k = k) {fi fo : Format}
    (hfi : IntFmt fi) (hfo : IntFmt fo) (t : IntTy) (v : Int) (line : Bytes) (jv : JV)
    (hline : Json.unmarshal line = (.cons k jv .nil, true)) (hjv : IsCarrierJV jv (formatInt v)) :
    (t.inRange v ∧ (fo = .timestamp → IntTy.i64.inRange v) ∧
      jlLine ⟨genTables, ext⟩ (withCol [] k fi (.int t)) (withCol [] k fo (.int t)) line =
        .ok (objText k (cellText fo v) ++ [0x0A], none) ∧
      Json.unmarshal (objText k (cellText fo v)) = (.cons k (cellJV fo v) .nil, true) ∧
      LineSpec.lookupJV (.cons k (cellJV fo v) .nil) k = some (cellJV fo v)) ∨
    ((¬ t.inRange v ∨ (fo = .timestamp ∧ ¬ IntTy.i64.inRange v)) ∧
      ∃ e, jlLine ⟨genTables, ext⟩ (withCol [] k fi (.int t)) (withCol [] k fo (.int t)) line =
        .ok ([], some e)) := by
  by_cases hv : t.inRange v
  · by_cases hts : fo = .timestamp → IntTy.i64.inRange v
    · exact .inl ⟨hv, hts, int_line_written ext k hfi hfo t v line jv hline hjv hv hts,
        unmarshal_cellText hk fo v, LineTime.lookupJV_single _ _⟩
    · have hf : fo = .timestamp := Classical.byContradiction fun h => hts fun h' => absurd h' h
      have h64 : ¬ IntTy.i64.inRange v := fun h => hts fun _ => h
      subst hf
      exact .inr ⟨.inr ⟨rfl, h64⟩, _,
        int_line_timestamp_rejected ext k hfi t v line jv hline hjv hv h64⟩
  · exact .inr ⟨.inl hv, _, int_line_rejected ext k fo _ hfi t v line jv hline hjv hv⟩

/-- **Never a wrapped value.**  Whatever was written for an accepted line carries, under `k`, exactly
    the integer of the input — and then that integer fits `T`. -/
theorem int_line_accepted_exact (ext : Ext) (k : Bytes) (hk : sanitize k = k) {fi fo : Format}
    (hfi : IntFmt fi) (hfo : IntFmt fo) (t : IntTy) (v : Int) (line : Bytes) (jv : JV)
    (hline : Json.unmarshal line = (.cons k jv .nil, true)) (hjv : IsCarrierJV jv (formatInt v))
    (b : Bytes)
    (hb : jlLine ⟨genTables, ext⟩ (withCol [] k fi (.int t)) (withCol [] k fo (.int t)) line =
      .ok (b, none)) :
    t.inRange v ∧ ∃ body tree, b = body ++ [0x0A] ∧ Json.unmarshal body = (tree, true) ∧
      LineSpec.lookupJV tree k = some (cellJV fo v) := by
  rcases int_line_exact_or_rejected ext k hk hfi hfo t v line jv hline hjv with
    ⟨hv, _, hw, hu, hl⟩ | ⟨_, e, he⟩
  · rw [hw] at hb
    simp only [Outcome.ok.injEq, Prod.mk.injEq, and_true] at hb
    subst hb
    exact ⟨hv, _, _, rfl, hu, hl⟩
  · rw [he] at hb
    simp at hb


/-! #### Target 1, format by format (`fi = fo = f`, the number-literal input) -/

/-- The shape of 1(a): accepted, and whatever was written has `want` under `k`. -/
def AcceptedWith (o : Outcome (Bytes × Option ErrClass)) (k : Bytes) (want : JV) : Prop :=
  (∃ b, o = .ok (b, none)) ∧
  ∀ b, o = .ok (b, none) → ∃ body tree, b = body ++ [0x0A] ∧ Json.unmarshal body = (tree, true) ∧
    LineSpec.lookupJV tree k = some want

theorem acceptedWith_of_written {o : Outcome (Bytes × Option ErrClass)} {k txt : Bytes} {want : JV}
    (hw : o = .ok (objText k txt ++ [0x0A], none))
    (hu : Json.unmarshal (objText k txt) = (.cons k want .nil, true)) : AcceptedWith o k want := by
  refine ⟨⟨_, hw⟩, ?_⟩
  intro b hb
  rw [hw] at hb
  simp only [Outcome.ok.injEq, Prod.mk.injEq, and_true] at hb
  subst hb
  exact ⟨_, _, rfl, hu, LineTime.lookupJV_single _ _⟩

/-- **1(a), numeric(T).**  `v` fits `T`: for every `ext` the line is accepted and the emitted member
    under `k` is the number literal `formatInt v` — the exact value, as a JSON number. -/
theorem numeric_line (ext : Ext) (k : Bytes) (hk : sanitize k = k) (t : IntTy) (v : Int)
    (line : Bytes) (hline : Json.unmarshal line = (.cons k (.num (formatInt v)) .nil, true))
    (hv : t.inRange v) :
    AcceptedWith (jlLine ⟨genTables, ext⟩ (withCol [] k .numeric (.int t))
      (withCol [] k .numeric (.int t)) line) k (.num (formatInt v)) :=
  acceptedWith_of_written
    (int_line_written ext k (.inl rfl) (.inl rfl) t v line _ hline (.inl rfl) hv (by simp))
    (unmarshal_cellText hk .numeric v)

/-- **1(b), numeric(T).**  `v` does not fit `T`: for every `ext` the line is REJECTED — an error
    outcome and nothing to write; never a wrapped value. -/
theorem numeric_line_rejected (ext : Ext) (k : Bytes) (t : IntTy) (v : Int)
    (line : Bytes) (hline : Json.unmarshal line = (.cons k (.num (formatInt v)) .nil, true))
    (hv : ¬ t.inRange v) :
    jlLine ⟨genTables, ext⟩ (withCol [] k .numeric (.int t)) (withCol [] k .numeric (.int t)) line =
      .ok ([], some .unsupportedImport) :=
  int_line_rejected ext k .numeric _ (.inl rfl) t v line _ hline (.inl rfl) hv

/-- **string(T), accepted**: the emitted member is the JSON STRING whose content is `formatInt v`.
    The input member may be the number literal or the string of the decimal text. -/
theorem string_line (ext : Ext) (k : Bytes) (hk : sanitize k = k) (t : IntTy) (v : Int)
    (line : Bytes) (jv : JV) (hline : Json.unmarshal line = (.cons k jv .nil, true))
    (hjv : IsCarrierJV jv (formatInt v)) (hv : t.inRange v) :
    AcceptedWith (jlLine ⟨genTables, ext⟩ (withCol [] k .string (.int t))
      (withCol [] k .string (.int t)) line) k (.str (formatInt v)) :=
  acceptedWith_of_written
    (int_line_written ext k (.inr (.inl rfl)) (.inr (.inl rfl)) t v line _ hline hjv hv (by simp))
    (unmarshal_cellText hk .string v)

theorem string_line_rejected (ext : Ext) (k : Bytes) (t : IntTy) (v : Int)
    (line : Bytes) (jv : JV) (hline : Json.unmarshal line = (.cons k jv .nil, true))
    (hjv : IsCarrierJV jv (formatInt v)) (hv : ¬ t.inRange v) :
    jlLine ⟨genTables, ext⟩ (withCol [] k .string (.int t)) (withCol [] k .string (.int t)) line =
      .ok ([], some .unsupportedImport) :=
  int_line_rejected ext k .string _ (.inr (.inl rfl)) t v line _ hline hjv hv

/-- **auto(T), accepted**: `Export` hands the typed Go integer to json.Marshal, which prints its
    decimal literal: the emitted member is the number literal `formatInt v`. -/
theorem auto_line (ext : Ext) (k : Bytes) (hk : sanitize k = k) (t : IntTy) (v : Int)
    (line : Bytes) (jv : JV) (hline : Json.unmarshal line = (.cons k jv .nil, true))
    (hjv : IsCarrierJV jv (formatInt v)) (hv : t.inRange v) :
    AcceptedWith (jlLine ⟨genTables, ext⟩ (withCol [] k .auto (.int t))
      (withCol [] k .auto (.int t)) line) k (.num (formatInt v)) :=
  acceptedWith_of_written
    (int_line_written ext k (.inr (.inr (.inr rfl))) (.inr (.inr (.inr rfl))) t v line _ hline hjv hv
      (by simp))
    (unmarshal_cellText hk .auto v)

/-- auto(T), rejected: `Import` of an Auto column returns the cast error itself. -/
theorem auto_line_rejected (ext : Ext) (k : Bytes) (t : IntTy) (v : Int)
    (line : Bytes) (jv : JV) (hline : Json.unmarshal line = (.cons k jv .nil, true))
    (hjv : IsCarrierJV jv (formatInt v)) (hv : ¬ t.inRange v) :
    jlLine ⟨genTables, ext⟩ (withCol [] k .auto (.int t)) (withCol [] k .auto (.int t)) line =
      .ok ([], some .cast) :=
  int_line_rejected ext k .auto _ (.inr (.inr (.inr rfl))) t v line _ hline hjv hv

/-- **timestamp(T), accepted**, for every `T` but `uint` / `uint64` (in particular `int64`): the
    emitted member is the number literal `formatInt v`. -/
theorem timestamp_line (ext : Ext) (k : Bytes) (hk : sanitize k = k) (t : IntTy)
    (ht : t ≠ .uint ∧ t ≠ .u64) (v : Int)
    (line : Bytes) (jv : JV) (hline : Json.unmarshal line = (.cons k jv .nil, true))
    (hjv : IsCarrierJV jv (formatInt v)) (hv : t.inRange v) :
    AcceptedWith (jlLine ⟨genTables, ext⟩ (withCol [] k .timestamp (.int t))
      (withCol [] k .timestamp (.int t)) line) k (.num (formatInt v)) :=
  acceptedWith_of_written
    (int_line_written ext k (.inr (.inr (.inl rfl))) (.inr (.inr (.inl rfl))) t v line _ hline hjv hv
      (fun _ => inRange_i64_of t ht hv))
    (unmarshal_cellText hk .timestamp v)

theorem timestamp_line_i64 (ext : Ext) (k : Bytes) (hk : sanitize k = k) (v : Int)
    (line : Bytes) (hline : Json.unmarshal line = (.cons k (.num (formatInt v)) .nil, true))
    (hv : IntTy.i64.inRange v) :
    AcceptedWith (jlLine ⟨genTables, ext⟩ (withCol [] k .timestamp (.int .i64))
      (withCol [] k .timestamp (.int .i64)) line) k (.num (formatInt v)) :=
  timestamp_line ext k hk .i64 (by decide) v line _ hline (.inl rfl) hv

theorem timestamp_line_rejected (ext : Ext) (k : Bytes) (t : IntTy) (v : Int)
    (line : Bytes) (jv : JV) (hline : Json.unmarshal line = (.cons k jv .nil, true))
    (hjv : IsCarrierJV jv (formatInt v)) (hv : ¬ t.inRange v) :
    jlLine ⟨genTables, ext⟩ (withCol [] k .timestamp (.int t)) (withCol [] k .timestamp (.int t))
      line = .ok ([], some .unsupportedImport) :=
  int_line_rejected ext k .timestamp _ (.inr (.inr (.inl rfl))) t v line _ hline hjv hv

/-- 1(a) and 1(b) for the input line written literally as `{"k":v}`. -/
theorem numeric_line_literal (ext : Ext) (k : Bytes) (hk : sanitize k = k) (t : IntTy) (v : Int) :
    (t.inRange v → AcceptedWith (jlLine ⟨genTables, ext⟩ (withCol [] k .numeric (.int t))
      (withCol [] k .numeric (.int t)) (lineOfInt k v)) k (.num (formatInt v))) ∧
    (¬ t.inRange v → jlLine ⟨genTables, ext⟩ (withCol [] k .numeric (.int t))
      (withCol [] k .numeric (.int t)) (lineOfInt k v) = .ok ([], some .unsupportedImport)) :=
  ⟨numeric_line ext k hk t v _ (unmarshal_lineOfInt hk v),
   numeric_line_rejected ext k t v _ (unmarshal_lineOfInt hk v)⟩

/-! ### Target 2: carrier independence on the line (C09 "by decimal text or by json.Number") -/

/-- The decimal text given as a JSON string has the same outcome as the number literal — the same
    bytes when accepted, the same rejection otherwise — under every pair of integer-column formats
    (numeric(T) on both sides is the task's case), for every `ext`. -/
theorem carrier_independent_line (ext : Ext) (k : Bytes) {fi fo : Format} (hfi : IntFmt fi)
    (hfo : IntFmt fo) (t : IntTy) (v : Int) (line₁ line₂ : Bytes)
    (h₁ : Json.unmarshal line₁ = (.cons k (.num (formatInt v)) .nil, true))
    (h₂ : Json.unmarshal line₂ = (.cons k (.str (formatInt v)) .nil, true)) :
    jlLine ⟨genTables, ext⟩ (withCol [] k fi (.int t)) (withCol [] k fo (.int t)) line₁ =
      jlLine ⟨genTables, ext⟩ (withCol [] k fi (.int t)) (withCol [] k fo (.int t)) line₂ := by
  by_cases hv : t.inRange v
  · by_cases hts : fo = .timestamp → IntTy.i64.inRange v
    · rw [int_line_written ext k hfi hfo t v line₁ _ h₁ (.inl rfl) hv hts,
        int_line_written ext k hfi hfo t v line₂ _ h₂ (.inr rfl) hv hts]
    · have hf : fo = .timestamp := Classical.byContradiction fun h => hts fun h' => absurd h' h
      have h64 : ¬ IntTy.i64.inRange v := fun h => hts fun _ => h
      subst hf
      rw [int_line_timestamp_rejected ext k hfi t v line₁ _ h₁ (.inl rfl) hv h64,
        int_line_timestamp_rejected ext k hfi t v line₂ _ h₂ (.inr rfl) hv h64]
  · rw [int_line_rejected ext k fo _ hfi t v line₁ _ h₁ (.inl rfl) hv,
      int_line_rejected ext k fo _ hfi t v line₂ _ h₂ (.inr rfl) hv]

/-- Target 2 for numeric(T), the two lines written literally: `{"k":v}` and `{"k":"v"}`. -/
theorem numeric_line_carrier_independent (ext : Ext) (k : Bytes) (hk : sanitize k = k) (t : IntTy)
    (v : Int) :
    jlLine ⟨genTables, ext⟩ (withCol [] k .numeric (.int t)) (withCol [] k .numeric (.int t))
        (lineOfStr k (formatInt v)) =
      jlLine ⟨genTables, ext⟩ (withCol [] k .numeric (.int t)) (withCol [] k .numeric (.int t))
        (lineOfInt k v) :=
  (carrier_independent_line ext k (.inl rfl) (.inl rfl) t v _ _ (unmarshal_lineOfInt hk v)
    (unmarshal_lineOfStr hk v)).symm

/-- …with the outcome spelled out: both are the exact value's line, or both the rejection. -/
theorem numeric_line_string_input (ext : Ext) (k : Bytes) (t : IntTy) (v : Int) (line : Bytes)
    (hline : Json.unmarshal line = (.cons k (.str (formatInt v)) .nil, true)) :
    jlLine ⟨genTables, ext⟩ (withCol [] k .numeric (.int t)) (withCol [] k .numeric (.int t)) line =
      if t.inRange v then .ok (objText k (formatInt v) ++ [0x0A], none)
      else .ok ([], some .unsupportedImport) := by
  split
  · rename_i hv
    exact int_line_written ext k (.inl rfl) (.inl rfl) t v line _ hline (.inr rfl) hv (by simp)
  · rename_i hv
    exact int_line_rejected ext k .numeric _ (.inl rfl) t v line _ hline (.inr rfl) hv


/-! ### Target 3: templates with any number of columns

  In the style of `LineTime.emitted_line_times_pointwise`, reusing its generic lemmas: the cell a
  column `k` holds is followed through `GetRow` (the LAST member of that name is the one that stays
  imported), `CreateRow` on the exporter side, and the printer. -/

theorem normDupV_carrier {v jv : JV} {lit : Bytes} (hjv : IsCarrierJV jv lit)
    (h : LineSpec.normDupV v = jv) : v = jv := by
  rcases hjv with rfl | rfl <;> cases v <;> simp [LineSpec.normDupV] at h ⊢ <;> exact h

/-- The member the oracle reads under `k` in the input (repeated names resolved) is a number literal
    / a string exactly when the LAST member of that name is. -/
theorem lastVal_of_normDup_carrier {ms : JVMembers} {k : Bytes} {jv : JV} {lit : Bytes}
    (hjv : IsCarrierJV jv lit)
    (h : LineSpec.lookupJV (LineSpec.normDup ms) k = some jv) :
    lastVal ms.toList k = some jv := by
  rw [LineSpec.normDup, LineTime.lookupJV_ofList, LineTime.normDupM_lookup] at h
  split at h
  · rename_i v hv
    rw [hv, normDupV_carrier hjv (Option.some.inj h)]
  · simp [LineTime.lookupL] at h

/-- `GetRow` under a template with distinct names: an integer column whose last input member carries
    the decimal text of `v` holds the Go integer `v` of the declared type afterwards — and `v` fits
    it (otherwise the line would have been rejected). -/
theorem getRow_int_cell (ext : Ext) (ti : Tmpl) (line : Bytes) (r : List (Bytes × Val))
    (hget : getRow ⟨genTables, ext⟩ ti line = .ok (r, none)) (hti : (OMap.keys ti).Nodup)
    (k : Bytes) (ci : Val) (hci : OMap.lookup ti k = some ci)
    (hf : IntFmt (Cells.format ci)) (t : IntTy) (hty : Cells.rawType ci = .int t)
    (jv : JV) (v : Int) (hjv : IsCarrierJV jv (formatInt v))
    (hlast : lastVal (Json.unmarshal line).1.toList k = some jv) :
    t.inRange v ∧ lookup r k = some (.cell (.int t v) (Cells.format ci) (.int t)) := by
  obtain ⟨row0, h0, h1⟩ := Order.getRow_ok _ ti line r none hget
  obtain ⟨l, hl, hpm, _⟩ := Order.unmarshalInto_ok _ row0 r line h1
  obtain ⟨d, hd, hlv⟩ := (LineTime.lastVal_ofJVMembers _ k _ l hl).2 _ hlast
  obtain ⟨x, hx, hc⟩ := ofJV_carrier ⟨genTables, ext⟩ hjv
  rw [hx] at hd
  cases hd
  obtain ⟨_, _, h3⟩ := LineTime.parseMembers_lookup _ k _ _ l row0 r
    (LineLevel.ofJVMembers_shape _ _ l hl) hpm (LineTime.cloneRow_desc _ ti row0 h0 hti k ci hci)
  obtain ⟨c', hi, hl'⟩ := h3 _ hlv
  rw [hty] at hi
  by_cases hv : t.inRange v
  · rw [import_int_ok ext hf t v hc hv] at hi
    simp only [Outcome.ok.injEq, Prod.mk.injEq, and_true] at hi
    exact ⟨hv, by rw [hl', ← hi]⟩
  · rw [import_int_rej ext hf t v hc hv] at hi
    simp at hi

theorem numText_formatInt (v : Int) : numText (formatInt v) = formatInt v := by
  simp [numText, formatInt_isEmpty]

/-- The tree of the printed cell. -/
theorem treeVal_int (ext : Ext) {f : Format} (hf : IntFmt f) (t : IntTy) (v : Int) (ty : Ty)
    (hv : t.inRange v) (hts : f = .timestamp → IntTy.i64.inRange v) :
    treeVal ⟨genTables, ext⟩ (.cell (.int t v) f ty) = cellJV f v := by
  obtain ⟨h1, h2, h3, h4⟩ := export_int ext t v ty hv
  rcases hf with rfl | rfl | rfl | rfl
  · rw [LineLevel.treeVal_cell h1]
    simp [treeExported, numText_formatInt, cellJV]
  · rw [LineLevel.treeVal_cell h2]
    simp [treeExported, sanitize_formatInt, cellJV]
  · rw [if_pos (hts rfl)] at h4
    rw [LineLevel.treeVal_cell h4]
    simp [treeExported, cellJV]
  · rw [LineLevel.treeVal_cell h3]
    simp [treeExported, cellJV]

/-- **Target 3, pointwise.**  One ACCEPTED line through `jlLine` over the regenerated tables,
    templates with distinct column names, every `ext`.  The written bytes are an object text and a
    newline; in the object the reader delivers, for EVERY column `k` declared with an integer raw
    type `T` and a format among numeric / string / timestamp / auto in both templates (numeric(T) on
    both sides is the task's case) and whose input member — the last of that name, as the oracle
    reads the input (`LineSpec.normDup`) — is the number literal `formatInt v` (or the string of that
    text): `v` fits `T` (and `int64` under a timestamp output column), and the member found under the
    column's written name is exactly `v` — `.num (formatInt v)`, `.str (formatInt v)` under a string
    column — whatever the other columns and members are.  The separation hypothesis is that of
    `LineTime.emitted_line_times_pointwise`; `FloatTextOK` is there because OTHER columns may print
    floats. -/
theorem emitted_line_ints_pointwise (ext : Ext) (ti to : Tmpl) (line b : Bytes)
    (h : jlLine ⟨genTables, ext⟩ ti to line = .ok (b, none)) (hx : FloatTextOK ext)
    (hti : (OMap.keys ti).Nodup) (hto : (OMap.keys to).Nodup) :
    ∃ body tree, b = body ++ [0x0A] ∧ Json.unmarshal body = (tree, true) ∧
      ∀ k ci co t v jv, OMap.lookup ti k = some ci → OMap.lookup to k = some co →
        IntFmt (Cells.format ci) → Cells.rawType ci = .int t →
        IntFmt (Cells.format co) → Cells.rawType co = .int t →
        (∀ k' ∈ OMap.keys to ++ OMap.keys ti ++ Order.inputKeys line,
          sanitize k' = sanitize k → k' = k) →
        LineSpec.lookupJV (LineSpec.normDup (Json.unmarshal line).1) k = some jv →
        IsCarrierJV jv (formatInt v) →
        t.inRange v ∧ (Cells.format co = .timestamp → IntTy.i64.inRange v) ∧
          LineSpec.lookupJV tree (sanitize k) = some (cellJV (Cells.format co) v) := by
  obtain ⟨r, row', body, hget, hcr, hm, hb, hu⟩ :=
    LineLevel.emitted_text ⟨genTables, ext⟩ ti to line b h hx
  refine ⟨body, _, hb, hu, ?_⟩
  intro k ci co t v jv hci hco hfi htyi hfo htyo hsep hlast hjv
  obtain ⟨hv, hr⟩ := getRow_int_cell ext ti line r hget hti k ci hci hfi t htyi jv v hjv
    (lastVal_of_normDup_carrier hjv hlast)
  obtain ⟨c', hnew, hl'⟩ := LineTime.createRow_cell _ to r row' hcr hto
    (Order.getRow_keys_nodup _ ti line r hget) k co _ hco hr
  simp only [Cells.raw] at hnew
  rw [htyo, newValue_int ext _ t v hv] at hnew
  cases hnew
  have hvis : Cells.format (Val.cell (.int t v) (Cells.format co) (.int t)) ≠ .hidden := by
    simpa [Cells.format] using intFmt_visible hfo
  -- the printed row was marshalled, hence this cell was: a timestamp column exported its value
  have hts : Cells.format co = .timestamp → IntTy.i64.inRange v := by
    intro hf
    apply Classical.byContradiction
    intro h64
    obtain ⟨parts, hparts, _⟩ := JsonPrint.marshalRow_shape hm
    obtain ⟨bs, hbs⟩ := LineLevel.marshalMembers_mem _ row' parts hparts k _
      (LineLevel.mem_of_lookup hl') hvis
    rw [hf, marshal_timestamp_rej ext t v _ hv h64] at hbs
    cases hbs
  have horigin := LineLevel.created_keys_origin _ ti to line r row' hget hcr
  have hsep' : ∀ k' ∈ RowPrint.visibleKeys row', sanitize k' = sanitize k → k' = k :=
    fun k' hk' => hsep k' (horigin k' (LineLevel.visibleKeys_subset row' k' hk'))
  have := LineTime.lookupJV_tree_of_lookup ⟨genTables, ext⟩ k _ hvis row' hsep' hl'
  rw [treeVal_int ext hfo t v _ hv hts] at this
  exact ⟨hv, hts, this⟩

/-- **Target 3 for templates declaring the same distinct, sanitize-fixed names** (as every `jl`
    definition does), the member names the reader delivered for the input being fixed by the escaper
    too: no separation hypothesis is left, and the member is found under the column's own name.
    Stated for numeric(T) columns and a number-literal member, as in the task. -/
theorem emitted_line_ints_same_names (ext : Ext) (ti to : Tmpl) (line b : Bytes)
    (h : jlLine ⟨genTables, ext⟩ ti to line = .ok (b, none)) (hx : FloatTextOK ext)
    (hto : (OMap.keys to).Nodup) (hperm : (OMap.keys ti).Perm (OMap.keys to))
    (hutf : ∀ k ∈ OMap.keys to, sanitize k = k)
    (hin : ∀ k ∈ Order.inputKeys line, sanitize k = k) :
    ∃ body tree, b = body ++ [0x0A] ∧ Json.unmarshal body = (tree, true) ∧
      ∀ k raw₁ raw₂ t v,
        (k, Val.cell raw₁ .numeric (.int t)) ∈ ti → (k, Val.cell raw₂ .numeric (.int t)) ∈ to →
        LineSpec.lookupJV (LineSpec.normDup (Json.unmarshal line).1) k =
          some (.num (formatInt v)) →
        t.inRange v ∧ LineSpec.lookupJV tree k = some (.num (formatInt v)) := by
  have hti : (OMap.keys ti).Nodup := hperm.nodup_iff.mpr hto
  obtain ⟨body, tree, hb, hu, hall⟩ := emitted_line_ints_pointwise ext ti to line b h hx hti hto
  refine ⟨body, tree, hb, hu, ?_⟩
  intro k raw₁ raw₂ t v hmi hmo hlast
  have hfix : ∀ k ∈ OMap.keys to ++ OMap.keys ti ++ Order.inputKeys line, sanitize k = k := by
    intro k' hk'
    rcases List.mem_append.1 hk' with hk' | hk'
    · rcases List.mem_append.1 hk' with hk' | hk'
      · exact hutf k' hk'
      · exact hutf k' (hperm.mem_iff.mp hk')
    · exact hin k' hk'
  have hko : k ∈ OMap.keys to := List.mem_map_of_mem (f := Prod.fst) hmo
  have := hall k _ _ t v _ (LineLevel.lookup_of_mem_nodup hti hmi)
    (LineLevel.lookup_of_mem_nodup hto hmo) (.inl rfl) rfl (.inl rfl) rfl
    (LineLevel.separated_of_fixed hfix k hko) hlast (.inl rfl)
  rw [hutf k hko] at this
  exact ⟨this.1, this.2.2⟩


/-! ### What the hypothesis `lit = formatInt v` leaves out

  The targets speak of the CANONICAL decimal literal.  For any other text the integer casters are
  `strconv.ParseInt(s, 0, bits)` / `ParseUint`: a JSON number in fraction or exponent form (`1.0`,
  `1e2`) is a syntax error for them, so the line is REJECTED even though the number denotes an
  integer that fits (never a wrapped or rounded value — but not "the mathematical integer" either);
  and base 0 means a STRING member `"010"` is read as octal 8, `"0x10"` as 16 (a JSON number literal
  cannot have a leading zero, so this only concerns string input).  See `Demo`. -/

/-- `strconv.ParseInt(s, 0, bits of T)` / `ParseUint` as the caster of `T` calls it. -/
def parseFor (t : IntTy) (s : Bytes) : Option Int :=
  if t.signed then parseInt0 s t.bits else (parseUint0 s t.bits).map Int.ofNat

theorem call_text_unparsed (ext : Ext) (tgt : IntTy) (s : Bytes) (fuel : Nat)
    (h : parseFor tgt s = none) :
    callNamed genTables ext (fuel + 2) (casterOfInt tgt) (.str s) = .err .cast := by
  unfold callNamed
  simp only [caster_present tgt, typeOf]
  have hspec := text_branches_ok tgt
  generalize findClause (casterOf genTables (casterOfInt tgt)) .str = br at hspec
  unfold textBranchSpec at hspec
  unfold parseFor at h
  split at hspec
  · obtain ⟨hsig, rfl, hbits, he, hs⟩ := hspec
    rename_i bits e s'
    rw [if_pos hsig] at h
    have hb : parseInt0 s bits = none := by
      rcases hbits with hb | ⟨h0, h64⟩
      · rw [hb]; exact h
      · rw [h0, show parseInt0 s 0 = parseInt0 s 64 from rfl, ← h64]; exact h
    simp [evalBranch, runParse, failWith, hs, hb]
  · obtain ⟨hsig, rfl, hbits, he, hs⟩ := hspec
    rename_i bits e s'
    rw [if_neg (by simp [hsig])] at h
    have h' : parseUint0 s tgt.bits = none := by
      cases hp : parseUint0 s tgt.bits with
      | none => rfl
      | some n => simp [hp] at h
    have hb : parseUint0 s bits = none := by
      rcases hbits with hb | ⟨h0, h64⟩
      · rw [hb]; exact h'
      · rw [h0, show parseUint0 s 0 = parseUint0 s 64 from rfl, ← h64]; exact h'
    simp [evalBranch, runParse, failWith, hs, hb]
  · exact absurd hspec id

theorem castTo_int_unparsed (ext : Ext) (t : IntTy) {x : Dyn} {lit : Bytes} (hx : IsCarrier x lit)
    (h : parseFor t lit = none) : castTo genTables ext (.int t) x = .err .cast := by
  rw [castTo_int]
  rcases hx with rfl | rfl
  · rw [show (23 : Nat) = 19 + 4 from rfl]
    unfold callNamed
    simp only [caster_present t, typeOf]
    have hnum := num_branches_ok t
    generalize findClause (casterOf genTables (casterOfInt t)) .num = br at hnum
    unfold numBranchSpec at hnum
    split at hnum
    · subst hnum
      simp only [evalBranch, evalE]
      exact call_text_unparsed ext t lit 19 h
    · exact absurd hnum id
  · exact call_text_unparsed ext t lit 21 h

/-- Any member text the caster's parser refuses — in particular a number literal in fraction or
    exponent form — has the line rejected, for every `ext`. -/
theorem int_line_unparsed_rejected (ext : Ext) (k : Bytes) {fi : Format} (fo : Format) (tyo : Ty)
    (hfi : IntFmt fi) (t : IntTy) (lit : Bytes) (line : Bytes) (jv : JV)
    (hline : Json.unmarshal line = (.cons k jv .nil, true)) (hjv : IsCarrierJV jv lit)
    (hp : parseFor t lit = none) :
    jlLine ⟨genTables, ext⟩ (withCol [] k fi (.int t)) (withCol [] k fo tyo) line =
      .ok ([], some (rejClass fi)) := by
  obtain ⟨x, hx, hc⟩ := ofJV_carrier ⟨genTables, ext⟩ hjv
  have hcast := castTo_int_unparsed ext t hc hp
  refine jlLine_col_import_rej ext k fi fo (castTo_int_nil ext t) line jv x (.cell .nil fi (.int t)) _
    hline hx ?_
  rcases hfi with rfl | rfl | rfl | rfl <;> rcases hc with rfl | rfl <;>
    simp [importCell, importByFormat, importFrom, importFail, hcast, rejClass]

/-- Target 3, the other half: a line whose member under an integer column of the importer (the last
    of that name) spells an integer that does not fit the column's type is NOT accepted — whatever
    the other columns, the other members and the exporter's template are; nothing is written. -/
theorem out_of_range_not_accepted (ext : Ext) (ti to : Tmpl) (line : Bytes)
    (hti : (OMap.keys ti).Nodup) (k : Bytes) (ci : Val) (hci : OMap.lookup ti k = some ci)
    (hf : IntFmt (Cells.format ci)) (t : IntTy) (hty : Cells.rawType ci = .int t)
    (jv : JV) (v : Int) (hjv : IsCarrierJV jv (formatInt v))
    (hlast : LineSpec.lookupJV (LineSpec.normDup (Json.unmarshal line).1) k = some jv)
    (hv : ¬ t.inRange v) (b : Bytes) :
    jlLine ⟨genTables, ext⟩ ti to line ≠ .ok (b, none) := by
  intro h
  obtain ⟨r, _, _, hget, _⟩ := Order.jlLine_ok _ ti to line b h
  exact hv (getRow_int_cell ext ti line r hget hti k ci hci hf t hty jv v hjv
    (lastVal_of_normDup_carrier hjv hlast)).1

/-! ### Target 4: concrete lines, computed end to end over `genTables` and `Ext.empty`

  One numeric column `n`.  The input lines are given by their bytes; that they are the literal
  spellings `{"n":<decimal>}` is computed (`lineOfInt`), what the reader delivers for them is
  `LineTime.unmarshal_lineOfInt`. -/
namespace Demo
open RowPrint JsonWrite

def env : Env := ⟨genTables, Ext.empty⟩

/-- numeric(int8) column `n` -/
def tmpl8 : Tmpl := withCol [] [0x6E] .numeric (.int .i8)
/-- numeric(uint64) column `n` -/
def tmplU64 : Tmpl := withCol [] [0x6E] .numeric (.int .u64)

theorem sanitize_n : sanitize [0x6E] = [0x6E] := JsonPrint.sanitize_of_ascii _ (by decide)

/-- `{"n":` -/
def pre : Bytes := [0x7B, 0x22, 0x6E, 0x22, 0x3A]

/-- `{"n":127}` -/
def line127 : Bytes := pre ++ [0x31, 0x32, 0x37, 0x7D]
/-- `{"n":128}` -/
def line128 : Bytes := pre ++ [0x31, 0x32, 0x38, 0x7D]
/-- `{"n":-129}` -/
def lineM129 : Bytes := pre ++ [0x2D, 0x31, 0x32, 0x39, 0x7D]
/-- `{"n":-128}` -/
def lineM128 : Bytes := pre ++ [0x2D, 0x31, 0x32, 0x38, 0x7D]
/-- `{"n":18446744073709551615}` -/
def lineMaxU64 : Bytes := pre ++ [0x31, 0x38, 0x34, 0x34, 0x36, 0x37, 0x34, 0x34, 0x30, 0x37, 0x33,
  0x37, 0x30, 0x39, 0x35, 0x35, 0x31, 0x36, 0x31, 0x35, 0x7D]
/-- `{"n":18446744073709551616}` -/
def lineOverU64 : Bytes := pre ++ [0x31, 0x38, 0x34, 0x34, 0x36, 0x37, 0x34, 0x34, 0x30, 0x37, 0x33,
  0x37, 0x30, 0x39, 0x35, 0x35, 0x31, 0x36, 0x31, 0x36, 0x7D]
/-- `{"n":"127"}` -/
def lineS127 : Bytes := pre ++ [0x22, 0x31, 0x32, 0x37, 0x22, 0x7D]
/-- `{"n":"128"}` -/
def lineS128 : Bytes := pre ++ [0x22, 0x31, 0x32, 0x38, 0x22, 0x7D]

theorem fmt127 : formatInt 127 = [0x31, 0x32, 0x37] := by
  simp [formatInt, natDigits, digitChar]
theorem fmt128 : formatInt 128 = [0x31, 0x32, 0x38] := by
  simp [formatInt, natDigits, digitChar]
theorem fmtM129 : formatInt (-129) = [0x2D, 0x31, 0x32, 0x39] := by
  simp [formatInt, natDigits, digitChar]
theorem fmtM128 : formatInt (-128) = [0x2D, 0x31, 0x32, 0x38] := by
  simp [formatInt, natDigits, digitChar]
theorem fmtMaxU64 : formatInt 18446744073709551615 = [0x31, 0x38, 0x34, 0x34, 0x36, 0x37, 0x34, 0x34,
    0x30, 0x37, 0x33, 0x37, 0x30, 0x39, 0x35, 0x35, 0x31, 0x36, 0x31, 0x35] := by
  simp [formatInt, natDigits, digitChar]
theorem fmtOverU64 : formatInt 18446744073709551616 = [0x31, 0x38, 0x34, 0x34, 0x36, 0x37, 0x34, 0x34,
    0x30, 0x37, 0x33, 0x37, 0x30, 0x39, 0x35, 0x35, 0x31, 0x36, 0x31, 0x36] := by
  simp [formatInt, natDigits, digitChar]

theorem objText_n (txt : Bytes) : objText [0x6E] txt = pre ++ txt ++ [0x7D] := by
  simp [objText, joinComma, quote, quoteBody, htmlSafe, pre]

theorem quote127 : quote [0x31, 0x32, 0x37] = [0x22, 0x31, 0x32, 0x37, 0x22] := by
  simp [quote, quoteBody, htmlSafe]
theorem quote128 : quote [0x31, 0x32, 0x38] = [0x22, 0x31, 0x32, 0x38, 0x22] := by
  simp [quote, quoteBody, htmlSafe]

theorem line127_eq : lineOfInt [0x6E] 127 = line127 := by
  rw [lineOfInt, objText_n, fmt127]; rfl
theorem line128_eq : lineOfInt [0x6E] 128 = line128 := by
  rw [lineOfInt, objText_n, fmt128]; rfl
theorem lineM129_eq : lineOfInt [0x6E] (-129) = lineM129 := by
  rw [lineOfInt, objText_n, fmtM129]; rfl
theorem lineM128_eq : lineOfInt [0x6E] (-128) = lineM128 := by
  rw [lineOfInt, objText_n, fmtM128]; rfl
theorem lineMaxU64_eq : lineOfInt [0x6E] 18446744073709551615 = lineMaxU64 := by
  rw [lineOfInt, objText_n, fmtMaxU64]; rfl
theorem lineOverU64_eq : lineOfInt [0x6E] 18446744073709551616 = lineOverU64 := by
  rw [lineOfInt, objText_n, fmtOverU64]; rfl
theorem lineS127_eq : lineOfStr [0x6E] (formatInt 127) = lineS127 := by
  rw [lineOfStr, objText_n, fmt127, quote127]; rfl
theorem lineS128_eq : lineOfStr [0x6E] (formatInt 128) = lineS128 := by
  rw [lineOfStr, objText_n, fmt128, quote128]; rfl

/-- A numeric(T) column writes an accepted literal line back byte for byte. -/
theorem literal_accepted (t : IntTy) (v : Int) (hv : t.inRange v) :
    jlLine env (withCol [] [0x6E] .numeric (.int t)) (withCol [] [0x6E] .numeric (.int t))
      (lineOfInt [0x6E] v) = .ok (lineOfInt [0x6E] v ++ [0x0A], none) :=
  int_line_written Ext.empty [0x6E] (.inl rfl) (.inl rfl) t v _ _ (unmarshal_lineOfInt sanitize_n v)
    (.inl rfl) hv (by simp)

theorem literal_rejected (t : IntTy) (v : Int) (hv : ¬ t.inRange v) :
    jlLine env (withCol [] [0x6E] .numeric (.int t)) (withCol [] [0x6E] .numeric (.int t))
      (lineOfInt [0x6E] v) = .ok ([], some .unsupportedImport) :=
  numeric_line_rejected Ext.empty [0x6E] t v _ (unmarshal_lineOfInt sanitize_n v) hv

/-- **Target 4.**  `{"n":127}` ↦ `{"n":127}` and a newline under numeric(int8). -/
theorem int8_127 : jlLine env tmpl8 tmpl8 line127 = .ok (line127 ++ [0x0A], none) := by
  have h := literal_accepted .i8 127 (by decide)
  rwa [line127_eq] at h

/-- `{"n":-128}`, the other bound, is accepted too. -/
theorem int8_m128 : jlLine env tmpl8 tmpl8 lineM128 = .ok (lineM128 ++ [0x0A], none) := by
  have h := literal_accepted .i8 (-128) (by decide)
  rwa [lineM128_eq] at h

/-- `{"n":128}` is rejected under numeric(int8): nothing is written (not `{"n":-128}`). -/
theorem int8_128 : jlLine env tmpl8 tmpl8 line128 = .ok ([], some .unsupportedImport) := by
  have h := literal_rejected .i8 128 (by decide)
  rwa [line128_eq] at h

/-- `{"n":-129}` is rejected under numeric(int8) (not `{"n":127}`). -/
theorem int8_m129 : jlLine env tmpl8 tmpl8 lineM129 = .ok ([], some .unsupportedImport) := by
  have h := literal_rejected .i8 (-129) (by decide)
  rwa [lineM129_eq] at h

/-- `{"n":18446744073709551615}` (MaxUint64) is accepted and written back under numeric(uint64). -/
theorem uint64_max : jlLine env tmplU64 tmplU64 lineMaxU64 = .ok (lineMaxU64 ++ [0x0A], none) := by
  have h := literal_accepted .u64 18446744073709551615 (by decide)
  rwa [lineMaxU64_eq] at h

/-- `{"n":18446744073709551616}` is rejected under numeric(uint64) (not `{"n":0}`). -/
theorem uint64_over : jlLine env tmplU64 tmplU64 lineOverU64 = .ok ([], some .unsupportedImport) := by
  have h := literal_rejected .u64 18446744073709551616 (by decide)
  rwa [lineOverU64_eq] at h

/-- Target 2, computed: `{"n":"127"}` ↦ `{"n":127}` and a newline, `{"n":"128"}` rejected. -/
theorem int8_s127 : jlLine env tmpl8 tmpl8 lineS127 = .ok (line127 ++ [0x0A], none) := by
  have h := numeric_line_carrier_independent Ext.empty [0x6E] sanitize_n .i8 127
  rw [lineS127_eq, line127_eq] at h
  exact h.trans int8_127

theorem int8_s128 : jlLine env tmpl8 tmpl8 lineS128 = .ok ([], some .unsupportedImport) := by
  have h := numeric_line_carrier_independent Ext.empty [0x6E] sanitize_n .i8 128
  rw [lineS128_eq, line128_eq] at h
  exact h.trans int8_128

/-- The reader's side of `int8_127`: the emitted member under `n` is the number literal `127`. -/
example : ∃ tree, Json.unmarshal line127 = (tree, true) ∧
    LineSpec.lookupJV tree [0x6E] = some (.num [0x31, 0x32, 0x37]) := by
  have h := unmarshal_lineOfInt sanitize_n 127
  rw [line127_eq, fmt127] at h
  exact ⟨_, h, LineTime.lookupJV_single _ _⟩

/-- `ToTimestamp` is `ToInt64`: under timestamp(uint64) MaxUint64 is imported, then refused by the
    exporter — rejected, not written as `-1`. -/
example : jlLine env (withCol [] [0x6E] .timestamp (.int .u64)) (withCol [] [0x6E] .timestamp (.int .u64))
    lineMaxU64 = .ok ([], some .unsupportedExport) := by
  have h := int_line_timestamp_rejected Ext.empty [0x6E] (fi := .timestamp) (.inr (.inr (.inl rfl)))
    .u64 18446744073709551615 _ _ (unmarshal_lineOfInt sanitize_n _) (.inl rfl) (by decide)
    (by decide)
  rwa [lineMaxU64_eq] at h

/-! #### Outside the canonical literal -/

/-- `1e2` -/
def lit1e2 : Bytes := [0x31, 0x65, 0x32]
/-- `1.0` -/
def lit1p0 : Bytes := [0x31, 0x2E, 0x30]

theorem unmarshal_objText_num {lit : Bytes} (h : isValidNumber lit = true) :
    Json.unmarshal (objText [0x6E] lit) = (.cons [0x6E] (.num lit) .nil, true) := by
  rw [LineTime.unmarshal_objText (JsonPrint.readsAs_number h), sanitize_n]

/-- `{"n":1e2}` (one hundred, which fits int8) is REJECTED under numeric(int8), for every `ext`:
    `ParseInt("1e2", 0, 8)` is a syntax error. -/
theorem int8_1e2 (ext : Ext) : jlLine ⟨genTables, ext⟩ tmpl8 tmpl8 (pre ++ lit1e2 ++ [0x7D]) =
    .ok ([], some .unsupportedImport) := by
  rw [← objText_n]
  exact int_line_unparsed_rejected ext [0x6E] .numeric _ (.inl rfl) .i8 lit1e2 _ _
    (unmarshal_objText_num (by decide)) (.inl rfl) (by decide)

/-- `{"n":1.0}` is rejected as well. -/
theorem int8_1p0 (ext : Ext) : jlLine ⟨genTables, ext⟩ tmpl8 tmpl8 (pre ++ lit1p0 ++ [0x7D]) =
    .ok ([], some .unsupportedImport) := by
  rw [← objText_n]
  exact int_line_unparsed_rejected ext [0x6E] .numeric _ (.inl rfl) .i8 lit1p0 _ _
    (unmarshal_objText_num (by decide)) (.inl rfl) (by decide)

/-- `{"n":"010"}` ↦ `{"n":8}` under numeric(int8), for every `ext`: base 0 reads the string as octal. -/
theorem int8_octal (ext : Ext) :
    jlLine ⟨genTables, ext⟩ tmpl8 tmpl8 (pre ++ [0x22, 0x30, 0x31, 0x30, 0x22, 0x7D]) =
      .ok (pre ++ [0x38, 0x7D, 0x0A], none) := by
  have hq : quote [0x30, 0x31, 0x30] = [0x22, 0x30, 0x31, 0x30, 0x22] := by
    simp [quote, quoteBody, htmlSafe]
  have hline : Json.unmarshal (objText [0x6E] (quote [0x30, 0x31, 0x30])) =
      (.cons [0x6E] (.str [0x30, 0x31, 0x30]) .nil, true) := by
    rw [LineTime.unmarshal_objText (JsonPrint.readsAs_quote _), sanitize_n,
      JsonPrint.sanitize_of_ascii _ (by decide)]
  have hc : castTo genTables ext (.int .i8) (.str [0x30, 0x31, 0x30]) = .ok (.int .i8 8) := by rfl
  have hi : importCell ⟨genTables, ext⟩ .numeric (.int .i8) (.str [0x30, 0x31, 0x30]) =
      .ok (.cell (.int .i8 8) .numeric (.int .i8), none) := by
    simp [importCell, importByFormat, importFrom, importFail, hc]
  have h := jlLine_col ext [0x6E] .numeric .numeric (castTo_int_nil ext .i8) (castTo_int_nil ext .i8)
    _ _ _ _ _ _ hline (by rw [ofJV]) hi (newValue_int ext .numeric .i8 8 (by decide))
    (by simp [Cells.format])
    (marshal_int ext (f := .numeric) (.inl rfl) .i8 8 _ (by decide) (by simp))
  have h8 : cellText .numeric 8 = [0x38] := by simp [cellText, formatInt, natDigits, digitChar]
  rw [objText_n, hq, h8, objText_n] at h
  exact h

/-! #### Target 3 is not vacuous: two columns, a string one beside the numeric(int8) one

  `ti = to =` columns `s` (string) and `n` (numeric, int8); input `{"s":"x","n":127}`.  Every
  hypothesis of `emitted_line_ints_same_names` holds, the line is accepted, and the conclusion for
  column `n` is: 127 fits int8 and the emitted member is the literal `127`. -/

def ti2 : Tmpl := withCol (withCol [] [0x73] .string .none) [0x6E] .numeric (.int .i8)

/-- `{"s":"x","n":127}` -/
def line2 : Bytes :=
  [0x7B, 0x22, 0x73, 0x22, 0x3A, 0x22, 0x78, 0x22, 0x2C, 0x22, 0x6E, 0x22, 0x3A, 0x31, 0x32, 0x37, 0x7D]

theorem ti2_eq :
    ti2 = [([0x73], .cell .nil .string .none), ([0x6E], .cell .nil .numeric (.int .i8))] := rfl

open Json in
theorem unmarshal_line2 : Json.unmarshal line2 =
    (.cons [0x73] (.str [0x78]) (.cons [0x6E] (.num [0x31, 0x32, 0x37]) .nil), true) := by
  simp [line2, unmarshal, token, tokenCore, skipSpace, isSpace, asClose, parseObject, more,
    asKey, asTok, strBody, Json.pre, handleDelim, scanScalar, scanNumber, scanInt, scanFracExp, digits,
    Json.isDigit, valueAllowed, valueEnd, isEof]

theorem inputKeys_line2 : Order.inputKeys line2 = [[0x73], [0x6E]] := by
  simp [Order.inputKeys, unmarshal_line2, JVMembers.toList]

def imported2 : List (Bytes × Val) :=
  [([0x73], .cell (.str [0x78]) .string .none), ([0x6E], .cell (.int .i8 127) .numeric (.int .i8))]

theorem import_s : importCell env .string .none (.str [0x78]) =
    .ok (.cell (.str [0x78]) .string .none, none) := rfl

theorem import_n : importCell env .numeric (.int .i8) (.num [0x31, 0x32, 0x37]) =
    .ok (.cell (.int .i8 127) .numeric (.int .i8), none) := by
  have h := import_int_ok Ext.empty (f := .numeric) (.inl rfl) .i8 127 (x := .num (formatInt 127))
    (.inl rfl) (by decide)
  rwa [fmt127] at h

theorem cloneRow_ti2 : cloneRow env ti2 = .ok ti2 := by
  simp [cloneRow, cloneInto, cloneValue, newValue, Cells.raw, Cells.format, Cells.rawType, ti2_eq,
    env, castTo_int_nil, gen_castTo_none, upsert, OMap.upsert]

theorem getRow_line2 : getRow env ti2 line2 = .ok (imported2, none) := by
  unfold getRow createRowEmpty
  rw [cloneRow_ti2]
  simp only [unmarshalInto, unmarshal_line2]
  simp [ti2_eq, ofJVMembers, ofJV, parseMembers, parseMember, lookup, OMap.lookup, importVal,
    importInto, upsert, OMap.upsert, import_n, import_s, imported2]

theorem createRow_imported2 :
    createRow env ti2 (.val (.row (Members.ofList imported2))) = .ok (imported2, none) := by
  have hs : newValue env (.str [0x78]) .string .none = .ok (.cell (.str [0x78]) .string .none) := by
    simp [newValue, env, gen_castTo_none]
  have hn := newValue_int Ext.empty .numeric .i8 127 (by decide)
  simp [createRow, cloneRow_ti2, Members.toList_ofList, imported2]
  simp [ti2_eq, fillPairs, fill, lookup, OMap.lookup, Cells.raw, Cells.format, Cells.rawType, hs,
    show newValue env (.int .i8 127) .numeric (.int .i8) = _ from hn, upsert, OMap.upsert]

theorem marshal_s : marshalVal env (.cell (.str [0x78]) .string .none) = .ok (quote [0x78]) := by
  have he : exportVal env (.cell (.str [0x78]) .string .none) = .ok (.str [0x78]) := rfl
  rw [marshal_of_export _ _ _ _ _ he, marshalExported.eq_def]

theorem jlLine_line2 : ∃ body, jlLine env ti2 ti2 line2 = .ok (body ++ [0x0A], none) := by
  have hm : marshalMembers env (Members.ofList imported2) =
      .ok [quote [0x73] ++ 0x3A :: quote [0x78], quote [0x6E] ++ 0x3A :: cellText .numeric 127] :=
    JsonPrint.marshalMembers_cons env _ _ _ (by decide) marshal_s
      (JsonPrint.marshalMembers_cons env _ _ _ (by decide)
        (marshal_int Ext.empty (f := .numeric) (.inl rfl) .i8 127 _ (by decide) (by simp))
        (JsonPrint.marshalMembers_nil env))
  refine ⟨0x7B :: (joinComma [quote [0x73] ++ 0x3A :: quote [0x78],
    quote [0x6E] ++ 0x3A :: cellText .numeric 127] ++ [0x7D]), ?_⟩
  simp only [jlLine, getRow_line2, exportLine, createRow_imported2,
    JsonPrint.marshalRow_eq env _ hm]

theorem floatOK : FloatTextOK env.ext := by
  intro b sz s h; cases h

theorem sanitize_s : sanitize [0x73] = [0x73] := JsonPrint.sanitize_of_ascii _ (by decide)

example : ∃ body tree, jlLine env ti2 ti2 line2 = .ok (body ++ [0x0A], none) ∧
    Json.unmarshal body = (tree, true) ∧ IntTy.i8.inRange 127 ∧
    LineSpec.lookupJV tree [0x6E] = some (.num [0x31, 0x32, 0x37]) := by
  obtain ⟨body0, hj⟩ := jlLine_line2
  obtain ⟨body, tree, hb, hu, hall⟩ :=
    emitted_line_ints_same_names Ext.empty ti2 ti2 line2 _ hj floatOK (by rw [ti2_eq]; decide)
      (List.Perm.refl _)
      (by
        intro k hk
        rw [ti2_eq] at hk
        simp only [OMap.keys, List.map_cons, List.map_nil, List.mem_cons, List.not_mem_nil,
          or_false] at hk
        rcases hk with rfl | rfl
        · exact sanitize_s
        · exact sanitize_n)
      (by
        intro k hk
        rw [inputKeys_line2] at hk
        simp only [List.mem_cons, List.not_mem_nil, or_false] at hk
        rcases hk with rfl | rfl
        · exact sanitize_s
        · exact sanitize_n)
  have : body = body0 := (List.append_cancel_right hb).symm
  subst this
  have hlast : LineSpec.lookupJV (LineSpec.normDup (Json.unmarshal line2).1) [0x6E] =
      some (.num (formatInt 127)) := by
    rw [unmarshal_line2, fmt127]
    simp [LineSpec.normDup, LineSpec.normDupM, LineSpec.normDupV, LineSpec.upsertKV,
      JVMembers.ofList, LineLevel.lookupJV_cons]
  have := hall [0x6E] .nil .nil .i8 127 (by rw [ti2_eq]; simp) (by rw [ti2_eq]; simp) hlast
  rw [fmt127] at this
  exact ⟨body, tree, hj, hu, this.1, this.2⟩

/-- …and `{"s":"x","n":128}` is not accepted under the same templates. -/
def line2' : Bytes :=
  [0x7B, 0x22, 0x73, 0x22, 0x3A, 0x22, 0x78, 0x22, 0x2C, 0x22, 0x6E, 0x22, 0x3A, 0x31, 0x32, 0x38, 0x7D]

open Json in
theorem unmarshal_line2' : Json.unmarshal line2' =
    (.cons [0x73] (.str [0x78]) (.cons [0x6E] (.num [0x31, 0x32, 0x38]) .nil), true) := by
  simp [line2', unmarshal, token, tokenCore, skipSpace, isSpace, asClose, parseObject, more,
    asKey, asTok, strBody, Json.pre, handleDelim, scanScalar, scanNumber, scanInt, scanFracExp, digits,
    Json.isDigit, valueAllowed, valueEnd, isEof]

example (b : Bytes) : jlLine env ti2 ti2 line2' ≠ .ok (b, none) := by
  refine out_of_range_not_accepted Ext.empty ti2 ti2 line2' (by rw [ti2_eq]; decide) [0x6E]
    (.cell .nil .numeric (.int .i8)) (by rw [ti2_eq]; simp [OMap.lookup]) (.inl rfl) .i8 rfl
    (.num (formatInt 128)) 128 (.inl rfl) ?_ (by decide) b
  rw [unmarshal_line2', fmt128]
  simp [LineSpec.normDup, LineSpec.normDupM, LineSpec.normDupV, LineSpec.upsertKV,
    JVMembers.ofList, LineLevel.lookupJV_cons]

end Demo

end Jl.LineInts
