/-
  Proofs.Time — C14: RFC 3339 date-time text preserves the instant and the explicit offset.

  Over Model.Time (the port of package time), with Proofs.Civil for the calendar:
    2  civilOf_seconds / seconds_civilOf   civilOf and the seconds computation are inverse
    3  num2_pad, num12_pad, num4_appendInt fixed-width numbers read back
    4  parseZone_formatZone                whole-minute offsets below 24 h read back
    5  C14_parse_format                    parse (format t) = ⟨t.sec, 0, t.off⟩, years 0..9999
    6  parseFrac_digits, fracNanos_lt, C14_fraction_general, C14_fraction_format
                                           a fraction changes nsec only, and nsec < 10^9
    7  C14_offset_independent              the instant read back does not depend on the offset
  The hypotheses of 5 are needed; see the examples at the end (year 10000, year -1, an offset
  with seconds, an offset of 25 h).
-/
import Proofs.Civil

namespace Jl.Time
open IntText

/-! ### Item 2: `civilOf` inverts the seconds computation -/

theorem civilOf_eq (t : GoTime) :
    civilOf t =
      ⟨(civilFromDays ((t.sec + t.off) / 86400)).1,
       (civilFromDays ((t.sec + t.off) / 86400)).2.1,
       (civilFromDays ((t.sec + t.off) / 86400)).2.2,
       ((t.sec + t.off) - (t.sec + t.off) / 86400 * 86400).toNat / 3600,
       ((t.sec + t.off) - (t.sec + t.off) / 86400 * 86400).toNat % 3600 / 60,
       ((t.sec + t.off) - (t.sec + t.off) / 86400 * 86400).toNat % 60⟩ := rfl

theorem civilOf_seconds {y : Int} {m d h mi s : Nat} (ns : Nat) (off : Int)
    (hv : ValidDate y m d) (hh : h < 24) (hmi : mi < 60) (hs : s < 60) :
    civilOf ⟨daysFromCivil y m d * 86400 + ((h * 3600 + mi * 60 + s : Nat) : Int) - off, ns, off⟩
      = ⟨y, m, d, h, mi, s⟩ := by
  rw [civilOf_eq]
  simp only
  have e1 : (daysFromCivil y m d * 86400 + ((h * 3600 + mi * 60 + s : Nat) : Int) - off + off)
      / 86400 = daysFromCivil y m d := by omega
  rw [e1, civilFromDays_daysFromCivil hv]
  have e2 : (daysFromCivil y m d * 86400 + ((h * 3600 + mi * 60 + s : Nat) : Int) - off + off
      - daysFromCivil y m d * 86400).toNat = h * 3600 + mi * 60 + s := by omega
  rw [e2]
  congr 1 <;> omega

/-- The same with the time of day written as a sum of integers. -/
theorem civilOf_seconds' {y : Int} {m d h mi s : Nat} (ns : Nat) (off : Int)
    (hv : ValidDate y m d) (hh : h < 24) (hmi : mi < 60) (hs : s < 60) :
    civilOf ⟨daysFromCivil y m d * 86400 + ((h : Int) * 3600 + (mi : Int) * 60 + (s : Int)) - off,
      ns, off⟩ = ⟨y, m, d, h, mi, s⟩ := by
  have e : ((h : Int) * 3600 + (mi : Int) * 60 + (s : Int)) = ((h * 3600 + mi * 60 + s : Nat) : Int) := by
    omega
  rw [e]; exact civilOf_seconds ns off hv hh hmi hs

/-! ### Item 3: fixed-width numbers -/

theorem isDigit_digitChar {k : Nat} (h : k < 10) : isDigit (digitChar k) = true := by
  have : ∀ k : Fin 10, isDigit (digitChar k) = true := by decide
  exact this ⟨k, h⟩

theorem dval_digitChar {k : Nat} (h : k < 10) : dval (digitChar k) = k := by
  have : ∀ k : Fin 10, dval (digitChar k) = k := by decide
  exact this ⟨k, h⟩

theorem natDigits_lt {n : Nat} (h : n < 10) : natDigits n = [digitChar n] := by
  rw [natDigits]; simp [h]

theorem natDigits_ge {n : Nat} (h : 10 ≤ n) :
    natDigits n = natDigits (n / 10) ++ [digitChar (n % 10)] := by
  rw [natDigits]; simp [Nat.not_lt.mpr h]

theorem pad2 {n : Nat} (h : n < 100) : pad n 2 = [digitChar (n / 10), digitChar (n % 10)] := by
  unfold pad
  by_cases h10 : n < 10
  · rw [natDigits_lt h10]
    have e1 : n / 10 = 0 := by omega
    have e2 : n % 10 = n := by omega
    rw [e1, e2]; rfl
  · rw [natDigits_ge (by omega), natDigits_lt (show n / 10 < 10 by omega)]; rfl

theorem pad4 {n : Nat} (h : n < 10000) :
    pad n 4 = [digitChar (n / 1000), digitChar (n / 100 % 10), digitChar (n / 10 % 10),
      digitChar (n % 10)] := by
  unfold pad
  by_cases h10 : n < 10
  · rw [natDigits_lt h10]
    have e1 : n / 1000 = 0 := by omega
    have e2 : n / 100 % 10 = 0 := by omega
    have e3 : n / 10 % 10 = 0 := by omega
    have e4 : n % 10 = n := by omega
    rw [e1, e2, e3, e4]; rfl
  · by_cases h100 : n < 100
    · rw [natDigits_ge (by omega), natDigits_lt (show n / 10 < 10 by omega)]
      have e1 : n / 1000 = 0 := by omega
      have e2 : n / 100 % 10 = 0 := by omega
      have e3 : n / 10 % 10 = n / 10 := by omega
      rw [e1, e2, e3]; rfl
    · by_cases h1000 : n < 1000
      · rw [natDigits_ge (by omega), natDigits_ge (show 10 ≤ n / 10 by omega),
          natDigits_lt (show n / 10 / 10 < 10 by omega)]
        have e1 : n / 1000 = 0 := by omega
        have e2 : n / 100 % 10 = n / 10 / 10 := by omega
        rw [e1, e2]; rfl
      · rw [natDigits_ge (by omega), natDigits_ge (show 10 ≤ n / 10 by omega),
          natDigits_ge (show 10 ≤ n / 10 / 10 by omega),
          natDigits_lt (show n / 10 / 10 / 10 < 10 by omega)]
        have e1 : n / 1000 = n / 10 / 10 / 10 := by omega
        have e2 : n / 100 % 10 = n / 10 / 10 % 10 := by omega
        rw [e1, e2]; rfl

theorem num2_pad {n : Nat} (h : n < 100) (rest : Bytes) :
    num2 (pad n 2 ++ rest) = some (n, rest) := by
  rw [pad2 h]
  simp only [List.cons_append, List.nil_append, num2,
    isDigit_digitChar (show n / 10 < 10 by omega), isDigit_digitChar (show n % 10 < 10 by omega),
    dval_digitChar (show n / 10 < 10 by omega), dval_digitChar (show n % 10 < 10 by omega),
    Bool.and_self, if_true]
  congr 2; omega

theorem num12_pad {n : Nat} (h : n < 100) (rest : Bytes) :
    num12 (pad n 2 ++ rest) = some (n, rest) := by
  rw [pad2 h]
  simp only [List.cons_append, List.nil_append, num12,
    isDigit_digitChar (show n / 10 < 10 by omega), isDigit_digitChar (show n % 10 < 10 by omega),
    dval_digitChar (show n / 10 < 10 by omega), dval_digitChar (show n % 10 < 10 by omega),
    if_true]
  congr 2; omega

theorem num4_appendInt {y : Int} (h0 : 0 ≤ y) (h1 : y ≤ 9999) (rest : Bytes) :
    num4 (appendInt y 4 ++ rest) = some (y.toNat, rest) := by
  have hn : y.toNat < 10000 := by omega
  unfold appendInt
  rw [if_neg (by omega), pad4 hn]
  generalize y.toNat = n at hn
  simp only [List.cons_append, List.nil_append, num4,
    isDigit_digitChar (show n / 1000 < 10 by omega),
    isDigit_digitChar (show n / 100 % 10 < 10 by omega),
    isDigit_digitChar (show n / 10 % 10 < 10 by omega),
    isDigit_digitChar (show n % 10 < 10 by omega),
    dval_digitChar (show n / 1000 < 10 by omega),
    dval_digitChar (show n / 100 % 10 < 10 by omega),
    dval_digitChar (show n / 10 % 10 < 10 by omega),
    dval_digitChar (show n % 10 < 10 by omega),
    Bool.and_self, if_true]
  congr 2; omega

/-! ### Item 4: the zone element -/

theorem formatZone_eq (off : Int) :
    formatZone off =
      if off = 0 then [0x5A]
      else if off.tdiv 60 < 0 then
        0x2D :: (pad ((-(off.tdiv 60)).toNat / 60) 2 ++ [0x3A] ++ pad ((-(off.tdiv 60)).toNat % 60) 2)
      else 0x2B :: (pad ((off.tdiv 60).toNat / 60) 2 ++ [0x3A] ++ pad ((off.tdiv 60).toNat % 60) 2) := by
  unfold formatZone
  by_cases h0 : off = 0
  · simp [h0]
  · by_cases hneg : off.tdiv 60 < 0 <;> simp [h0, hneg]

/-- The zone parser on `sign hh:mm` with a sign that is `+` or `-`. -/
theorem parseZone_signed {sign : UInt8} {hr mm : Nat} (hs : sign = 0x2B ∨ sign = 0x2D)
    (hhr : hr < 24) (hmm : mm < 60) (rest : Bytes) :
    parseZone (sign :: (pad hr 2 ++ [0x3A] ++ pad mm 2) ++ rest) =
      some (if sign = 0x2B then (((hr * 60 + mm) * 60 : Nat) : Int)
            else -(((hr * 60 + mm) * 60 : Nat) : Int), rest) := by
  rw [pad2 (show hr < 100 by omega), pad2 (show mm < 100 by omega)]
  have d1 := isDigit_digitChar (show hr / 10 < 10 by omega)
  have d2 := isDigit_digitChar (show hr % 10 < 10 by omega)
  have d3 := isDigit_digitChar (show mm / 10 < 10 by omega)
  have d4 := isDigit_digitChar (show mm % 10 < 10 by omega)
  have v1 := dval_digitChar (show hr / 10 < 10 by omega)
  have v2 := dval_digitChar (show hr % 10 < 10 by omega)
  have v3 := dval_digitChar (show mm / 10 < 10 by omega)
  have v4 := dval_digitChar (show mm % 10 < 10 by omega)
  have e1 : hr / 10 * 10 + hr % 10 = hr := by omega
  have e2 : mm / 10 * 10 + mm % 10 = mm := by omega
  rcases hs with rfl | rfl
  · simp [parseZone, d1, d2, d3, d4, v1, v2, v3, v4, e1, e2]
    omega
  · simp [parseZone, d1, d2, d3, d4, v1, v2, v3, v4, e1, e2]
    omega

theorem parseZone_formatZone {off : Int} (h60 : off % 60 = 0) (hlo : -86400 < off)
    (hhi : off < 86400) (rest : Bytes) :
    parseZone (formatZone off ++ rest) = some (off, rest) := by
  have htd : off.tdiv 60 = off / 60 := Int.tdiv_eq_ediv_of_dvd (Int.dvd_of_emod_eq_zero h60)
  rw [formatZone_eq, htd]
  by_cases h0 : off = 0
  · subst h0; simp [parseZone]
  · rw [if_neg h0]
    by_cases hneg : off / 60 < 0
    · rw [if_pos hneg,
        parseZone_signed (Or.inr rfl) (show (-(off / 60)).toNat / 60 < 24 by omega)
          (Nat.mod_lt _ (by decide))]
      simp only [show ¬ ((0x2D : UInt8) = 0x2B) by decide, if_false]
      congr 2; omega
    · rw [if_neg hneg,
        parseZone_signed (Or.inl rfl) (show (off / 60).toNat / 60 < 24 by omega)
          (Nat.mod_lt _ (by decide))]
      simp only [if_true]
      congr 2; omega

/-! ### The parser, factored at the end of the seconds field -/

/-- The six civil fields read by the parser. -/
abbrev Fields := Int × Nat × Nat × Nat × Nat × Nat

/-- The part of `parseRFC3339` up to and including the seconds field. -/
def parseHead (s : Bytes) : Option (Fields × Bytes) := do
  let (y, m, d, s) ← parseDatePart s
  let s ← expect 0x54 s
  let (hh, s) ← num12 s
  let s ← expect 0x3A s
  let (mi, s) ← num2 s
  let s ← expect 0x3A s
  let (ss, s) ← num2 s
  some ((y, m, d, hh, mi, ss), s)

/-- The part of `parseRFC3339` after the seconds field: optional fraction, zone, end of text,
    range checks, the instant. -/
def parseTail (f : Fields) (s : Bytes) : Option GoTime :=
  match f with
  | (y, m, d, hh, mi, ss) =>
    match parseZone (parseFrac s).2 with
    | none => none
    | some (off, r) =>
      if !r.isEmpty then none
      else if hh ≥ 24 || mi ≥ 60 || ss ≥ 60 then none
      else some ⟨daysFromCivil y m d * 86400 + ((hh * 3600 + mi * 60 + ss : Nat) : Int) - off,
        (parseFrac s).1, off⟩

theorem parseRFC3339_eq (s : Bytes) :
    parseRFC3339 s = (parseHead s).bind (fun p => parseTail p.1 p.2) := by
  unfold parseRFC3339 parseHead
  cases parseDatePart s with
  | none => rfl
  | some x =>
    obtain ⟨y, m, d, s⟩ := x
    simp only [Option.bind_eq_bind, Option.bind_some]
    cases expect 0x54 s with
    | none => rfl
    | some s =>
      simp only [Option.bind_some]
      cases num12 s with
      | none => rfl
      | some x =>
        obtain ⟨hh, s⟩ := x
        simp only [Option.bind_some]
        cases expect 0x3A s with
        | none => rfl
        | some s =>
          simp only [Option.bind_some]
          cases num2 s with
          | none => rfl
          | some x =>
            obtain ⟨mi, s⟩ := x
            simp only [Option.bind_some]
            cases expect 0x3A s with
            | none => rfl
            | some s =>
              simp only [Option.bind_some]
              cases num2 s with
              | none => rfl
              | some x =>
                obtain ⟨ss, s⟩ := x
                simp only [Option.bind_some, parseTail]
                cases parseZone (parseFrac s).2 with
                | none => rfl
                | some x => rfl

/-! ### Item 5: parse ∘ format -/

/-- The text of the fields up to the seconds, as `formatRFC3339` writes it. -/
def headText (c : Civil) : Bytes :=
  appendInt c.year 4 ++ [0x2D] ++ pad c.month 2 ++ [0x2D] ++ pad c.day 2 ++ [0x54]
    ++ pad c.hour 2 ++ [0x3A] ++ pad c.min 2 ++ [0x3A] ++ pad c.sec 2

theorem formatRFC3339_eq (t : GoTime) :
    formatRFC3339 t = headText (civilOf t) ++ formatZone t.off := rfl

theorem expect_cons (c : UInt8) (r : Bytes) : expect c (c :: r) = some r := by simp [expect]

theorem daysIn_le (m : Nat) (y : Int) : daysIn m y ≤ 31 := by
  unfold daysIn; split <;> try split
  all_goals omega

/-- A civil time whose fields are in range (what `civilOf` always produces). -/
def ValidCivil (c : Civil) : Prop :=
  ValidDate c.year c.month c.day ∧ c.hour < 24 ∧ c.min < 60 ∧ c.sec < 60

theorem parseDatePart_format {y : Int} {m d : Nat} (h0 : 0 ≤ y) (h1 : y ≤ 9999)
    (hv : ValidDate y m d) (rest : Bytes) :
    parseDatePart (appendInt y 4 ++ [0x2D] ++ pad m 2 ++ [0x2D] ++ pad d 2 ++ rest)
      = some (y, m, d, rest) := by
  obtain ⟨hm1, hm12, hd1, hd⟩ := hv
  have hd31 := daysIn_le m y
  unfold parseDatePart
  simp only [List.append_assoc, List.cons_append, List.nil_append, num4_appendInt h0 h1,
    Option.bind_eq_bind, Option.bind_some, expect_cons, num2_pad (show m < 100 by omega),
    num2_pad (show d < 100 by omega)]
  have e : ((y.toNat : Nat) : Int) = y := by omega
  rw [e]
  have c1 : (decide (m < 1) || decide (m > 12)) = false := by simp; omega
  have c2 : (decide (d < 1) || decide (d > daysIn m y)) = false := by simp; omega
  simp only [c1, c2, Bool.false_eq_true, if_false]

theorem parseHead_headText {c : Civil} (h0 : 0 ≤ c.year) (h1 : c.year ≤ 9999)
    (hv : ValidCivil c) (rest : Bytes) :
    parseHead (headText c ++ rest) = some ((c.year, c.month, c.day, c.hour, c.min, c.sec), rest) := by
  obtain ⟨hd, hh, hmi, hs⟩ := hv
  unfold parseHead headText
  have e : appendInt c.year 4 ++ [0x2D] ++ pad c.month 2 ++ [0x2D] ++ pad c.day 2 ++ [0x54]
      ++ pad c.hour 2 ++ [0x3A] ++ pad c.min 2 ++ [0x3A] ++ pad c.sec 2 ++ rest
      = appendInt c.year 4 ++ [0x2D] ++ pad c.month 2 ++ [0x2D] ++ pad c.day 2 ++
        (0x54 :: (pad c.hour 2 ++ (0x3A :: (pad c.min 2 ++ (0x3A :: (pad c.sec 2 ++ rest)))))) := by
    simp only [List.append_assoc, List.cons_append, List.nil_append]
  rw [e, parseDatePart_format h0 h1 hd]
  simp only [Option.bind_eq_bind, Option.bind_some, expect_cons,
    num12_pad (show c.hour < 100 by omega), num2_pad (show c.min < 100 by omega),
    num2_pad (show c.sec < 100 by omega)]

/-- `civilOf` always produces in-range fields. -/
theorem civilOf_valid (t : GoTime) : ValidCivil (civilOf t) := by
  rw [civilOf_eq]
  refine ⟨(daysFromCivil_civilFromDays _).1, ?_, ?_, ?_⟩ <;> simp only <;> omega

/-- The seconds computation inverts `civilOf` (the converse of `civilOf_seconds`). -/
theorem seconds_civilOf (t : GoTime) :
    daysFromCivil (civilOf t).year (civilOf t).month (civilOf t).day * 86400
      + (((civilOf t).hour * 3600 + (civilOf t).min * 60 + (civilOf t).sec : Nat) : Int) - t.off
      = t.sec := by
  rw [civilOf_eq]
  simp only
  rw [(daysFromCivil_civilFromDays _).2]
  omega

/-- No fraction where the text does not continue with `.` or `,`. -/
theorem parseFrac_none {s : Bytes} (h : ∀ p r, s = p :: r → p ≠ 0x2E ∧ p ≠ 0x2C) :
    parseFrac s = (0, s) := by
  unfold parseFrac
  split
  · rename_i p d rest
    obtain ⟨h1, h2⟩ := h p (d :: rest) rfl
    simp [h1, h2]
  · rfl

theorem formatZone_head (off : Int) :
    ∃ c r, formatZone off = c :: r ∧ (c = 0x5A ∨ c = 0x2D ∨ c = 0x2B) := by
  rw [formatZone_eq]
  split
  · exact ⟨_, _, rfl, Or.inl rfl⟩
  · split
    · exact ⟨_, _, rfl, Or.inr (Or.inl rfl)⟩
    · exact ⟨_, _, rfl, Or.inr (Or.inr rfl)⟩

theorem parseFrac_formatZone (off : Int) : parseFrac (formatZone off) = (0, formatZone off) := by
  obtain ⟨c, r, e, hc⟩ := formatZone_head off
  apply parseFrac_none
  intro p r' hp
  rw [e] at hp
  injection hp with hp _
  subst hp
  rcases hc with rfl | rfl | rfl <;> decide

/-- What the tail parser does on a zone written by `formatZone`, after any text `mid` that
    `parseFrac` consumes completely. -/
theorem parseTail_zone {y : Int} {m d hh mi ss : Nat} {off : Int} (mid : Bytes) (ns : Nat)
    (hmid : parseFrac (mid ++ formatZone off) = (ns, formatZone off))
    (hh24 : hh < 24) (hmi : mi < 60) (hss : ss < 60)
    (h60 : off % 60 = 0) (hlo : -86400 < off) (hhi : off < 86400) :
    parseTail (y, m, d, hh, mi, ss) (mid ++ formatZone off) =
      some ⟨daysFromCivil y m d * 86400 + ((hh * 3600 + mi * 60 + ss : Nat) : Int) - off, ns, off⟩ := by
  unfold parseTail
  simp only [hmid]
  have hz := parseZone_formatZone h60 hlo hhi []
  rw [List.append_nil] at hz
  rw [hz]
  have c : (decide (hh ≥ 24) || decide (mi ≥ 60) || decide (ss ≥ 60)) = false := by simp; omega
  simp [c]

/-- **C14, parse ∘ format**: for a time whose year (at its own offset) is in 0..9999 and whose
    offset is a whole number of minutes of magnitude below 24 h, parsing the RFC 3339 text
    gives back the same instant and the same offset; sub-second digits are dropped (truncated,
    never rounded up into the seconds). -/
theorem C14_parse_format (t : GoTime) (hy0 : 0 ≤ year t) (hy1 : year t ≤ 9999)
    (h60 : t.off % 60 = 0) (hlo : -86400 < t.off) (hhi : t.off < 86400) :
    parseRFC3339 (formatRFC3339 t) = some ⟨t.sec, 0, t.off⟩ := by
  have hv := civilOf_valid t
  rw [parseRFC3339_eq, formatRFC3339_eq, parseHead_headText hy0 hy1 hv]
  simp only [Option.bind_some]
  have := parseTail_zone (y := (civilOf t).year) (m := (civilOf t).month) (d := (civilOf t).day)
    [] 0 (by rw [List.nil_append]; exact parseFrac_formatZone t.off) hv.2.1 hv.2.2.1 hv.2.2.2
    h60 hlo hhi
  rw [List.nil_append] at this
  rw [this, seconds_civilOf]

/-- The date layout "2006-01-02" reads back what `formatDate` wrote (years 0..9999). -/
theorem parseDatePart_formatDate (t : GoTime) (hy0 : 0 ≤ year t) (hy1 : year t ≤ 9999) :
    parseDatePart (formatDate t) = some ((civilOf t).year, (civilOf t).month, (civilOf t).day, [])
      ∧ parseDateOk (formatDate t) = true := by
  have h := parseDatePart_format (y := (civilOf t).year) hy0 hy1 (civilOf_valid t).1 []
  simp only [List.append_nil] at h
  have e : formatDate t = appendInt (civilOf t).year 4 ++ [0x2D] ++ pad (civilOf t).month 2
      ++ [0x2D] ++ pad (civilOf t).day 2 := rfl
  refine ⟨by rw [e]; exact h, ?_⟩
  unfold parseDateOk
  rw [e, h]

/-! ### Item 6: sub-second digits never change the second -/

/-- Value in nanoseconds of a fraction's digit string: the first nine digits, truncated. -/
def fracNanos (ds : Bytes) : Nat :=
  (ds.take 9).foldl (fun acc c => acc * 10 + dval c) 0 * 10 ^ (9 - (ds.take 9).length)

/-- `parseFrac` on `.`/`,` + a non-empty digit string consumes exactly that, whatever the
    digits are, when the text does not continue with a digit. -/
theorem parseFrac_digits {p : UInt8} (hp : p = 0x2E ∨ p = 0x2C) {ds z : Bytes} (hne : ds ≠ [])
    (hdig : ∀ c ∈ ds, isDigit c = true) (hz : ∀ c r, z = c :: r → isDigit c = false) :
    parseFrac (p :: ds ++ z) = (fracNanos ds, z) := by
  cases ds with
  | nil => exact absurd rfl hne
  | cons d ds' =>
    have hd : isDigit d = true := hdig d (List.mem_cons_self ..)
    have hp' : (p == 0x2E || p == 0x2C) = true := by rcases hp with rfl | rfl <;> decide
    have htw : List.takeWhile isDigit z = [] := by
      cases z with
      | nil => rfl
      | cons c r => exact List.takeWhile_cons_of_neg (by rw [hz c r rfl]; decide)
    have hdw : List.dropWhile isDigit z = z := by
      cases z with
      | nil => rfl
      | cons c r => exact List.dropWhile_cons_of_neg (by rw [hz c r rfl]; decide)
    have e1 : List.takeWhile isDigit (d :: (ds' ++ z)) = d :: ds' := by
      have := List.takeWhile_append_of_pos (p := isDigit) (l₁ := d :: ds') (l₂ := z) hdig
      rw [htw, List.append_nil] at this
      exact this
    have e2 : List.dropWhile isDigit (d :: (ds' ++ z)) = z := by
      have := List.dropWhile_append_of_pos (p := isDigit) (l₁ := d :: ds') (l₂ := z) hdig
      rw [hdw] at this
      exact this
    show parseFrac (p :: d :: (ds' ++ z)) = _
    unfold parseFrac
    simp only [hp', hd, Bool.and_self, if_true, e1, e2, fracNanos]

theorem dval_le {c : UInt8} (h : isDigit c = true) : dval c ≤ 9 := by
  unfold isDigit at h
  unfold dval
  have h2 : c ≤ 0x39 := by simp at h; exact h.2
  have := UInt8.le_iff_toNat_le.mp h2
  have e : (0x39 : UInt8).toNat = 57 := by decide
  omega

theorem foldl_digits_lt : ∀ (ds : Bytes) (acc : Nat), (∀ c ∈ ds, isDigit c = true) →
    ds.foldl (fun acc c => acc * 10 + dval c) acc < (acc + 1) * 10 ^ ds.length := by
  intro ds
  induction ds with
  | nil => intro acc _; simp
  | cons d ds ih =>
    intro acc h
    have hd := dval_le (h d (List.mem_cons_self ..))
    have := ih (acc * 10 + dval d) (fun c hc => h c (List.mem_cons_of_mem _ hc))
    simp only [List.foldl_cons, List.length_cons]
    calc _ < (acc * 10 + dval d + 1) * 10 ^ ds.length := this
      _ ≤ ((acc + 1) * 10) * 10 ^ ds.length := Nat.mul_le_mul_right _ (by omega)
      _ = (acc + 1) * 10 ^ (ds.length + 1) := by rw [Nat.mul_assoc, Nat.pow_succ, Nat.mul_comm 10]

/-- The nanoseconds stay below one second: digits are truncated, never carried into `sec`. -/
theorem fracNanos_lt {ds : Bytes} (hdig : ∀ c ∈ ds, isDigit c = true) : fracNanos ds < 10 ^ 9 := by
  unfold fracNanos
  have h9 : (ds.take 9).length ≤ 9 := by simp [List.length_take]; omega
  have := foldl_digits_lt (ds.take 9) 0 (fun c hc => hdig c (List.mem_of_mem_take hc))
  simp only [Nat.zero_add, Nat.one_mul] at this
  calc _ < 10 ^ (ds.take 9).length * 10 ^ (9 - (ds.take 9).length) :=
        Nat.mul_lt_mul_of_pos_right this (Nat.pow_pos (by decide))
    _ = 10 ^ 9 := by rw [← Nat.pow_add]; congr 1; omega

theorem parseZone_head {z : Bytes} {x : Int × Bytes} (h : parseZone z = some x) :
    ∃ c r, z = c :: r ∧ (c = 0x5A ∨ c = 0x2B ∨ c = 0x2D) := by
  unfold parseZone at h
  split at h
  · exact ⟨_, _, rfl, Or.inl rfl⟩
  · rename_i sign h1 h2 colon m1 m2 rest _
    refine ⟨sign, _, rfl, ?_⟩
    split at h
    · cases h
    · split at h
      · cases h
      · simp only at h
        split at h
        · cases h
        · split at h
          · rename_i hs; exact Or.inr (Or.inl (by simpa using hs))
          · split at h
            · rename_i hs; exact Or.inr (Or.inr (by simpa using hs))
            · cases h
  · cases h

/-- Tail level: if the text after the seconds field is accepted and holds no fraction, then
    with a fraction inserted it is accepted with the same second and the same offset. -/
theorem parseTail_frac {f : Fields} {z : Bytes} {t : GoTime} {p : UInt8} {ds : Bytes}
    (hp : p = 0x2E ∨ p = 0x2C) (hne : ds ≠ []) (hdig : ∀ c ∈ ds, isDigit c = true)
    (hnf : (parseFrac z).2 = z) (ht : parseTail f z = some t) :
    parseTail f (p :: ds ++ z) = some ⟨t.sec, fracNanos ds, t.off⟩ := by
  obtain ⟨y, m, d, hh, mi, ss⟩ := f
  unfold parseTail at ht ⊢
  simp only [hnf] at ht
  cases hz : parseZone z with
  | none => rw [hz] at ht; cases ht
  | some x =>
    obtain ⟨c, r, rfl, hc⟩ := parseZone_head hz
    have hfr : parseFrac (p :: ds ++ c :: r) = (fracNanos ds, c :: r) := by
      apply parseFrac_digits hp hne hdig
      intro c' r' e
      injection e with e _
      subst e
      rcases hc with rfl | rfl | rfl <;> decide
    rw [hz] at ht
    simp only [hfr, hz]
    obtain ⟨off, r'⟩ := x
    simp only at ht ⊢
    split at ht
    · cases ht
    · rename_i h1
      rw [if_neg h1]
      split at ht
      · cases ht
      · rename_i h2
        rw [if_neg h2]
        cases ht
        rfl

/-- **C14, fractions (general form)**: let `s` be accepted by `parseRFC3339` with no fraction
    after its seconds field (`z` is what follows the seconds field), and let `s'` have the
    same fields and, after the seconds field, `.` or `,` + a non-empty digit string + `z`.
    Then `s'` is accepted with the same second and the same offset; only `nsec` differs. -/
theorem C14_fraction_general {s s' : Bytes} {f : Fields} {z : Bytes} {t : GoTime} {p : UInt8}
    {ds : Bytes} (h1 : parseHead s = some (f, z)) (h2 : parseHead s' = some (f, p :: ds ++ z))
    (hp : p = 0x2E ∨ p = 0x2C) (hne : ds ≠ []) (hdig : ∀ c ∈ ds, isDigit c = true)
    (hnf : (parseFrac z).2 = z) (ht : parseRFC3339 s = some t) :
    parseRFC3339 s' = some ⟨t.sec, fracNanos ds, t.off⟩ := by
  rw [parseRFC3339_eq, h1] at ht
  rw [parseRFC3339_eq, h2]
  exact parseTail_frac hp hne hdig hnf ht

/-- **C14, fractions (formatted text)**: sub-second digits inserted after the seconds field of
    a formatted time are read as nanoseconds below one second; second and offset are those of
    the time. -/
theorem C14_fraction_format (t : GoTime) (hy0 : 0 ≤ year t) (hy1 : year t ≤ 9999)
    (h60 : t.off % 60 = 0) (hlo : -86400 < t.off) (hhi : t.off < 86400)
    {p : UInt8} (hp : p = 0x2E ∨ p = 0x2C) {ds : Bytes} (hne : ds ≠ [])
    (hdig : ∀ c ∈ ds, isDigit c = true) :
    parseRFC3339 (headText (civilOf t) ++ (p :: ds ++ formatZone t.off))
      = some ⟨t.sec, fracNanos ds, t.off⟩ ∧ fracNanos ds < 10 ^ 9 := by
  refine ⟨?_, fracNanos_lt hdig⟩
  have h5 := C14_parse_format t hy0 hy1 h60 hlo hhi
  have hv := civilOf_valid t
  exact C14_fraction_general (s := formatRFC3339 t) (t := ⟨t.sec, 0, t.off⟩)
    (by rw [formatRFC3339_eq]; exact parseHead_headText hy0 hy1 hv _)
    (parseHead_headText hy0 hy1 hv _) hp hne hdig
    (by rw [parseFrac_formatZone]) h5

/-! ### Item 7: the instant does not depend on the rendering offset -/

theorem C14_offset_independent (sec : Int) (n : Nat) (off₁ off₂ : Int)
    (hy₁ : 0 ≤ year ⟨sec, n, off₁⟩ ∧ year ⟨sec, n, off₁⟩ ≤ 9999)
    (hy₂ : 0 ≤ year ⟨sec, n, off₂⟩ ∧ year ⟨sec, n, off₂⟩ ≤ 9999)
    (h₁ : off₁ % 60 = 0 ∧ -86400 < off₁ ∧ off₁ < 86400)
    (h₂ : off₂ % 60 = 0 ∧ -86400 < off₂ ∧ off₂ < 86400) :
    ∃ t₁ t₂, parseRFC3339 (formatRFC3339 ⟨sec, n, off₁⟩) = some t₁ ∧
      parseRFC3339 (formatRFC3339 ⟨sec, n, off₂⟩) = some t₂ ∧
      t₁.sec = sec ∧ t₂.sec = sec ∧ t₁.sec = t₂.sec ∧ t₁.off = off₁ ∧ t₂.off = off₂ :=
  ⟨_, _, C14_parse_format ⟨sec, n, off₁⟩ hy₁.1 hy₁.2 h₁.1 h₁.2.1 h₁.2.2,
    C14_parse_format ⟨sec, n, off₂⟩ hy₂.1 hy₂.2 h₂.1 h₂.2.1 h₂.2.2, rfl, rfl, rfl, rfl, rfl⟩

/-! ### Non-vacuity: concrete values (kernel-evaluated) -/

example : formatRFC3339 ⟨0, 0, 0⟩ = ofString "1970-01-01T00:00:00Z" := by decide +kernel
example : parseRFC3339 (ofString "1970-01-01T00:00:00Z") = some ⟨0, 0, 0⟩ := by decide +kernel
-- a leap day, rendered at +05:30
example : formatRFC3339 ⟨951786061, 5, 19800⟩ = ofString "2000-02-29T06:31:01+05:30" := by
  decide +kernel
example : parseRFC3339 (ofString "2000-02-29T06:31:01+05:30") = some ⟨951786061, 0, 19800⟩ := by
  decide +kernel
-- the same instant at another offset
example : formatRFC3339 ⟨951786061, 5, -28800⟩ = ofString "2000-02-28T17:01:01-08:00" := by
  decide +kernel
example : parseRFC3339 (ofString "2000-02-28T17:01:01-08:00") = some ⟨951786061, 0, -28800⟩ := by
  decide +kernel
-- fractions are truncated into nsec, never rounded into sec
example : parseRFC3339 (ofString "2000-02-29T06:31:01.9999999999+05:30")
    = some ⟨951786061, 999999999, 19800⟩ := by decide +kernel
example : parseRFC3339 (ofString "2000-02-29T06:31:01,5+05:30")
    = some ⟨951786061, 500000000, 19800⟩ := by decide +kernel
-- the ends of the year range
example : formatRFC3339 ⟨253402300799, 999999999, 0⟩ = ofString "9999-12-31T23:59:59Z" := by
  decide +kernel
example : parseRFC3339 (ofString "9999-12-31T23:59:59Z") = some ⟨253402300799, 0, 0⟩ := by
  decide +kernel
example : formatRFC3339 ⟨-62167219200, 0, 0⟩ = ofString "0000-01-01T00:00:00Z" := by
  decide +kernel
example : parseRFC3339 (ofString "0000-01-01T00:00:00Z") = some ⟨-62167219200, 0, 0⟩ := by
  decide +kernel
-- a date that does not exist is rejected
example : parseRFC3339 (ofString "2001-02-29T00:00:00Z") = none := by decide +kernel
-- the hypotheses are needed: outside them the text does not read back to the same time
example : formatRFC3339 ⟨253402300800, 0, 0⟩ = ofString "10000-01-01T00:00:00Z" := by
  decide +kernel
example : parseRFC3339 (formatRFC3339 ⟨253402300800, 0, 0⟩) = none := by decide +kernel
example : formatRFC3339 ⟨-62167219201, 0, 0⟩ = ofString "-0001-12-31T23:59:59Z" := by
  decide +kernel
example : parseRFC3339 (formatRFC3339 ⟨-62167219201, 0, 0⟩) = none := by decide +kernel
example : formatRFC3339 ⟨0, 0, -30⟩ = ofString "1969-12-31T23:59:30+00:00" := by decide +kernel
example : parseRFC3339 (formatRFC3339 ⟨0, 0, -30⟩) = some ⟨-30, 0, 0⟩ := by decide +kernel
example : parseRFC3339 (formatRFC3339 ⟨0, 0, 90000⟩) = none := by decide +kernel
example : ValidDate 2000 2 29 ∧ ¬ ValidDate 1900 2 29 ∧ ¬ ValidDate 2001 2 29 := by decide
example : daysFromCivil 1970 1 1 = 0 ∧ daysFromCivil 2000 2 29 = 11016 ∧
    civilFromDays 11016 = (2000, 2, 29) ∧ civilFromDays (-719468) = (0, 3, 1) := by decide +kernel

end Jl.Time

