/-
  Proofs.LineTimeMore — C14 at LINE level, the remaining descriptors of the harness's C14 column pairs:
  `string(time.Time)` and `auto(time.Time)` columns, and output columns whose declared raw type cannot
  hold a time (an integer or float type: the cast fails and `NewValue` keeps the `time.Time`).

  Setting as in Proofs.LineTime (whose lemmas are reused): one column `k` on both sides, the input
  line's only member is `k` with an RFC 3339 text `s`, `Time.parseRFC3339 s = some t`; regenerated cast
  tables, EVERY `Ext`.

  0.  cell facts: `castTo_num_time` (cast.To(T, time.Time) FAILS for every integer / float `T`),
      `newValue_time_keep` (so the cell keeps the time.Time); `fracNano_spec`, `parse_timeBody`
      (parse ∘ time.Time.MarshalJSON = id in the domain, nanoseconds included), `parsed_nsec_lt`
  1.  `jlLine_col` for every raw type with cast.To(T, nil) = nil; `IsDTin`, `import_in_string`
      (target 1: the cell holds `.time t` under string(time) / auto(time) too); the output families
      `IsDTout`, `IsStrOut`, `IsAutoOut`, `IsTextOut`, `IsTSout`
  2.  `text_line_written`, `text_line`, `datetime_line` (targets 1a, 2 string(time), 3);
      `ts_line_written`, `ts_line`, `timestamp_line` (targets 1b, 4);
      `auto_line_written`, `auto_line`, `auto_line_same_bytes_iff` (target 2 auto(time): the fraction
      of the input is written back)
  3.  `line_zone_independent`, `harnessIns`, `harnessOuts`, `offset_kept`, `timestamp_written`: the
      table — every one of the 14 output descriptors keeps the offset / writes the Unix second
  4.  `line_oracle`, `harness_oracle` (target 5: `LineTime.c14Violation` finds nothing),
      `auto_line_oracle` (…and finds `subsecond-not-dropped` under an auto(time.Time) OUTPUT column
      exactly when the input had a non-zero fraction)
  5.  `Demo`: target 6 (`jlLine_lineK`, `_empty`, `_plus1`), timestamp(int16) not rejecting,
      `jlLine_auto_out`, `auto_out_violation`
  6.  `num_line_written`, `num_line_oracle`, `Demo.jlLine_lineK_num_plus1`: datetime(json.Number) —
      outside the harness's list — is where the cast succeeds and the offset is lost.
-/
import Proofs.LineTime
import Proofs.LineKeys
import Proofs.LineLevel
import Proofs.Order
import Proofs.JsonPrint
import Proofs.TimeShape
import Proofs.Time
import Proofs.CastTyped

namespace Jl.LineTimeMore
open Jl Jl.Value Jl.Template Jl.Cast Jl.CastTyped
open Jl.JsonQuote (sanitize)
open Jl.JsonPrint (timeBody)
open Jl.IntText
open Jl.LineTime (objText lineOfStr IsDT IsTS c14Step c14Trees c14Accepted c14Rejected c14Violation)

set_option linter.unusedSimpArgs false

/-! ### 0. Cell-level facts about the regenerated tables -/

/-- The numeric raw types: the ten integer types and the two float types. -/
def NumTy (ty : Ty) : Prop := (∃ T, ty = .int T) ∨ ty = .f64 ∨ ty = .f32

/-- **`cast.To(T, time.Time)` FAILS for every integer and float type `T`**: no `ToIntN` / `ToUintN` /
    `ToFloatN` has a `time.Time` case (only `ToTimestamp`, `ToNumber`, `ToBool`, `ToBinary`, `ToString`,
    `ToDate`, `ToTime` do), so the default branch `ErrUnableToCastToX` is taken, whatever the instant
    is (in particular also when its Unix second would fit `T`). -/
theorem castTo_num_time (ext : Ext) {ty : Ty} (h : NumTy ty) (t : GoTime) :
    castTo genTables ext ty (.time t) = .err .cast := by
  rcases h with ⟨T, rfl⟩ | rfl | rfl
  · cases T <;>
    simp [castTo, callNamed, genTables, Gen.dispatchTo, Gen.casters, findClause, typeOf, evalBranch, evalE,
      failWith, Gen.sentinels, wrapsRoot]
  · simp [castTo, callNamed, genTables, Gen.dispatchTo, Gen.casters, findClause, typeOf, evalBranch, evalE,
      failWith, Gen.sentinels, wrapsRoot]
  · simp [castTo, callNamed, genTables, Gen.dispatchTo, Gen.casters, findClause, typeOf, evalBranch, evalE,
      failWith, Gen.sentinels, wrapsRoot]

theorem castTo_num_nil (ext : Ext) {ty : Ty} (h : NumTy ty) :
    castTo genTables ext ty .nil = .ok .nil := by
  rcases h with ⟨T, rfl⟩ | rfl | rfl
  · cases T <;>
    simp [castTo, callNamed, genTables, Gen.dispatchTo, Gen.casters, findClause, typeOf, evalBranch, evalE]
  · simp [castTo, callNamed, genTables, Gen.dispatchTo, Gen.casters, findClause, typeOf, evalBranch, evalE]
  · simp [castTo, callNamed, genTables, Gen.dispatchTo, Gen.casters, findClause, typeOf, evalBranch, evalE]

/-- The raw types under which a cell given a `time.Time` HOLDS that `time.Time` afterwards: no raw
    type, `time.Time` (the cast is the identity), or a numeric type (the cast fails, `NewValue` keeps
    the value uncast). -/
def KeepTy (ty : Ty) : Prop := ty = .none ∨ ty = .time ∨ NumTy ty

theorem castTo_keep_nil (ext : Ext) {ty : Ty} (h : KeepTy ty) :
    castTo genTables ext ty .nil = .ok .nil := by
  rcases h with rfl | rfl | h
  · exact gen_castTo_none ext _
  · rw [LineLevel.castTo_time, LineTime.toTime23_nil]
  · exact castTo_num_nil ext h

/-- `NewValue(time.Time, f, T)` for `T` none, `time.Time` or numeric: the cell holds the `time.Time`
    itself, with its offset and its nanoseconds. -/
theorem newValue_time_keep (ext : Ext) (f : Format) {ty : Ty} (h : KeepTy ty) (t : GoTime) :
    newValue ⟨genTables, ext⟩ (.time t) f ty = .ok (.cell (.time t) f ty) := by
  rcases h with rfl | rfl | h
  · simp [newValue, gen_castTo_none]
  · simp [newValue, LineLevel.castTo_time, LineTime.toTime23_time]
  · simp [newValue, castTo_num_time ext h]

/-! ### 0b. The digits `time.Time.MarshalJSON` writes after the seconds, read back -/

/-- The digit loop of `parseFrac` (and of `Time.fracNanos`). -/
def dv (l : Bytes) (acc : Nat) : Nat := l.foldl (fun acc c => acc * 10 + Time.dval c) acc

theorem dv_nil (acc : Nat) : dv [] acc = acc := rfl
theorem dv_cons (c : UInt8) (l : Bytes) (acc : Nat) : dv (c :: l) acc = dv l (acc * 10 + Time.dval c) := by
  unfold dv; rw [List.foldl_cons]
theorem dv_append (l₁ l₂ : Bytes) (acc : Nat) : dv (l₁ ++ l₂) acc = dv l₂ (dv l₁ acc) := by
  unfold dv; rw [List.foldl_append]

theorem dv_natDigits (n acc : Nat) : dv (natDigits n) acc = acc * 10 ^ (natDigits n).length + n := by
  induction n using natDigits.induct generalizing acc with
  | case1 n h =>
    rw [IntText.natDigits_lt h, dv_cons, dv_nil, Time.dval_digitChar h]
    simp
  | case2 n h ih =>
    rw [IntText.natDigits_ge h, dv_append, ih, dv_cons, dv_nil,
      Time.dval_digitChar (show n % 10 < 10 by omega), List.length_append, List.length_singleton,
      Nat.pow_succ]
    have : (acc * 10 ^ (natDigits (n / 10)).length + n / 10) * 10 + n % 10 =
        acc * (10 ^ (natDigits (n / 10)).length * 10) + n := by
      rw [Nat.add_mul, Nat.mul_assoc]; omega
    exact this

theorem dv_zeros (k acc : Nat) : dv (List.replicate k 0x30) acc = acc * 10 ^ k := by
  induction k generalizing acc with
  | zero => simp [dv_nil]
  | succ k ih =>
    rw [List.replicate_succ, dv_cons, ih, show Time.dval 0x30 = 0 by decide, Nat.pow_succ,
      Nat.add_zero, Nat.mul_assoc, Nat.mul_comm 10]

theorem dv_pad (n w : Nat) : dv (Time.pad n w) 0 = n := by
  unfold Time.pad
  rw [dv_append, dv_zeros, dv_natDigits]
  simp

theorem natDigits_length_le (n : Nat) : ∀ k, 1 ≤ k → n < 10 ^ k → (natDigits n).length ≤ k := by
  induction n using natDigits.induct with
  | case1 n h => intro k hk _; rw [IntText.natDigits_lt h]; simpa using hk
  | case2 n h ih =>
    intro k hk hn
    rw [IntText.natDigits_ge h, List.length_append, List.length_singleton]
    cases k with
    | zero => omega
    | succ k =>
      have hk1 : 1 ≤ k := by
        cases k with
        | zero => simp at hn; omega
        | succ k => omega
      have := ih k hk1 (by rw [Nat.pow_succ] at hn; omega)
      omega

theorem pad9_length {n : Nat} (h : n < 10 ^ 9) : (Time.pad n 9).length = 9 := by
  have := natDigits_length_le n 9 (by omega) h
  unfold Time.pad
  rw [List.length_append, List.length_replicate]
  omega

theorem isDigit_of_isDig {c : UInt8} (h : IsDig c) : Time.isDigit c = true := by
  have := (isDig_iff c).1 h
  simp [Time.isDigit, this.1, this.2]

theorem pad_digits (n w : Nat) : ∀ c ∈ Time.pad n w, Time.isDigit c = true := by
  intro c hc
  simp only [Time.pad, List.mem_append, List.mem_replicate] at hc
  rcases hc with ⟨_, rfl⟩ | hc
  · decide
  · exact isDigit_of_isDig (natDigits_all_isDig n c hc)

/-- Dropping the trailing zeros of a digit string divides its value by the power of ten dropped. -/
theorem trim_spec (r : Bytes) :
    dv r.reverse 0 =
        dv (r.dropWhile (· == 0x30)).reverse 0 * 10 ^ (r.length - (r.dropWhile (· == 0x30)).reverse.length) ∧
      (r.dropWhile (· == 0x30)).reverse.length ≤ r.length := by
  induction r with
  | nil => simp [dv_nil]
  | cons c r ih =>
    by_cases hc : (fun x : UInt8 => x == 0x30) c = true
    · rw [List.dropWhile_cons_of_pos (p := fun x : UInt8 => x == 0x30) hc, List.reverse_cons, dv_append, dv_cons, dv_nil, ih.1]
      have e : c = 0x30 := by simpa using hc
      subst e
      have hl := ih.2
      refine ⟨?_, by simp only [List.length_cons]; omega⟩
      rw [show Time.dval 0x30 = 0 by decide, Nat.add_zero, Nat.mul_assoc, ← Nat.pow_succ]
      congr 2
      simp only [List.length_cons]
      omega
    · rw [List.dropWhile_cons_of_neg (p := fun x : UInt8 => x == 0x30) hc]
      simp

/-- What `parseFrac` reads of the digits `fracNano` writes is the nanoseconds written. -/
theorem fracNano_spec {ns : Nat} (h0 : ns ≠ 0) (h9 : ns < 10 ^ 9) :
    ∃ ds, RowPrint.fracNano ns = 0x2E :: ds ∧ ds ≠ [] ∧ (∀ c ∈ ds, Time.isDigit c = true) ∧
      Time.fracNanos ds = ns := by
  have hb : (ns == 0) = false := by simpa using h0
  refine ⟨(((Time.pad ns 9).reverse.dropWhile (· == 0x30)).reverse), ?_, ?_, ?_, ?_⟩
  · simp only [RowPrint.fracNano, hb, Bool.false_eq_true, if_false]
  · intro he
    have := (trim_spec (Time.pad ns 9).reverse).1
    rw [List.reverse_reverse, dv_pad, he, dv_nil] at this
    omega
  · intro c hc
    have := (List.dropWhile_sublist _).subset (List.mem_reverse.1 hc)
    exact pad_digits ns 9 c (List.mem_reverse.1 this)
  · have hs := trim_spec (Time.pad ns 9).reverse
    rw [List.reverse_reverse, dv_pad, List.length_reverse, pad9_length h9] at hs
    obtain ⟨h1, h2⟩ := hs
    unfold Time.fracNanos
    rw [List.take_of_length_le h2]
    exact h1.symm

/-! ### 0c. `time.Time.MarshalJSON`'s text, read back by the RFC 3339 parser -/

theorem timeBody_eq (t : GoTime) :
    timeBody t = Time.headText (Time.civilOf t) ++ (RowPrint.fracNano t.nsec ++ Time.formatZone t.off) := by
  simp only [timeBody, Time.headText, Time.formatDate, List.append_assoc]

/-- Without nanoseconds `MarshalJSON` writes the RFC 3339 text `Format` writes. -/
theorem timeBody_nsec0 (t : GoTime) (h : t.nsec = 0) : timeBody t = Time.formatRFC3339 t := by
  rw [timeBody_eq, Time.formatRFC3339_eq, h]
  simp [RowPrint.fracNano]

/-- With nanoseconds it does not: the text is longer. -/
theorem timeBody_ne (t : GoTime) (h : t.nsec ≠ 0) : timeBody t ≠ Time.formatRFC3339 t := by
  intro he
  rw [timeBody_eq, Time.formatRFC3339_eq] at he
  have hl := congrArg List.length (List.append_cancel_left he)
  have hb : (t.nsec == 0) = false := by simpa using h
  simp [RowPrint.fracNano, hb] at hl
  omega

/-- **parse ∘ MarshalJSON**: for a time in the domain (year 0..9999 at its offset, whole-minute offset
    below 24 h, nanoseconds below one second) the text `time.Time.MarshalJSON` writes (RFC3339Nano)
    parses back to exactly that time — second, offset AND nanoseconds. -/
theorem parse_timeBody (t : GoTime) (hy0 : 0 ≤ Time.year t) (hy1 : Time.year t ≤ 9999)
    (h60 : t.off % 60 = 0) (hlo : -86400 < t.off) (hhi : t.off < 86400) (hns : t.nsec < 10 ^ 9) :
    Time.parseRFC3339 (timeBody t) = some t := by
  by_cases h0 : t.nsec = 0
  · rw [timeBody_nsec0 t h0, Time.C14_parse_format t hy0 hy1 h60 hlo hhi, ← h0]
  · obtain ⟨ds, hds, hne, hdig, hval⟩ := fracNano_spec h0 hns
    rw [timeBody_eq, hds,
      (Time.C14_fraction_format t hy0 hy1 h60 hlo hhi (p := 0x2E) (.inl rfl) hne hdig).1, hval]

theorem takeWhile_all (p : UInt8 → Bool) (l : Bytes) : ∀ x ∈ l.takeWhile p, p x = true := by
  induction l with
  | nil => intro x hx; cases hx
  | cons a l ih =>
    intro x hx
    by_cases ha : p a = true
    · rw [List.takeWhile_cons_of_pos ha] at hx
      rcases List.mem_cons.1 hx with rfl | hx
      · exact ha
      · exact ih x hx
    · rw [List.takeWhile_cons_of_neg ha] at hx
      cases hx

/-- The nanoseconds the parser delivers are below one second. -/
theorem parseFrac_lt (s : Bytes) : (Time.parseFrac s).1 < 10 ^ 9 := by
  unfold Time.parseFrac
  split
  · rename_i p d rest
    split
    · have h := Time.fracNanos_lt (ds := (d :: rest).takeWhile Time.isDigit)
        (takeWhile_all _ _)
      simpa [Time.fracNanos] using h
    · simp
  · simp

theorem parsed_nsec_lt {s : Bytes} {t : GoTime} (h : Time.parseRFC3339 s = some t) :
    t.nsec < 10 ^ 9 := by
  rw [Time.parseRFC3339_eq] at h
  cases hh : Time.parseHead s with
  | none => simp [hh] at h
  | some p =>
    obtain ⟨⟨y, m, d, hh', mi, ss⟩, rest⟩ := p
    simp only [hh, Option.bind_some, Time.parseTail] at h
    split at h
    · cases h
    · split at h
      · cases h
      · split at h
        · cases h
        · simp only [Option.some.injEq] at h
          subst h
          exact parseFrac_lt rest

theorem marshalTime_ok (t : GoTime) (hy0 : 0 ≤ Time.year t) (hy1 : Time.year t ≤ 9999)
    (hlo : -86400 < t.off) (hhi : t.off < 86400) :
    RowPrint.marshalTime t = some (JsonWrite.quote (timeBody t)) := by
  have h : ∃ s, RowPrint.marshalTime t = some s := by
    unfold RowPrint.marshalTime
    unfold Time.year at hy0 hy1
    have c1 : (decide ((Time.civilOf t).year < 0) || decide ((Time.civilOf t).year > 9999)) = false := by
      simp; omega
    have c2 : ¬ (t.off.natAbs / 3600 ≥ 24) := by omega
    simp only [c1, Bool.false_eq_true, if_false, if_neg c2]
    exact ⟨_, rfl⟩
  obtain ⟨s, hs⟩ := h
  rw [hs, JsonPrint.marshalTime_eq hs]

/-! ### 1. One column: the line's way through importer and exporter

  `LineTime.jlLine_col` with the raw types widened from {none, time.Time, int64} to every raw type `T`
  with `cast.To(T, nil) = nil`. -/

theorem cloneRow_col (ext : Ext) (k : Bytes) (f : Format) {ty : Ty}
    (h : castTo genTables ext ty .nil = .ok .nil) :
    cloneRow ⟨genTables, ext⟩ [(k, .cell .nil f ty)] = .ok [(k, .cell .nil f ty)] := by
  simp [cloneRow, cloneInto, cloneValue, newValue, Cells.raw, Cells.format, Cells.rawType, h, upsert,
    OMap.upsert]

theorem getRow_col (ext : Ext) (k : Bytes) (f : Format) {ty : Ty}
    (hty : castTo genTables ext ty .nil = .ok .nil) (line : Bytes)
    (jv : JV) (x : Dyn) (c : Val)
    (hline : Json.unmarshal line = (.cons k jv .nil, true))
    (hjv : ofJV ⟨genTables, ext⟩ jv = .ok x)
    (himp : importCell ⟨genTables, ext⟩ f ty x = .ok (c, none)) :
    getRow ⟨genTables, ext⟩ [(k, .cell .nil f ty)] line = .ok ([(k, c)], none) := by
  simp [getRow, createRowEmpty, cloneRow_col ext k f hty, unmarshalInto, hline, ofJVMembers, hjv,
    parseMembers, parseMember, lookup, OMap.lookup, importVal, importInto, himp, upsert, OMap.upsert]

theorem createRow_col (ext : Ext) (k : Bytes) (f : Format) {ty : Ty}
    (hty : castTo genTables ext ty .nil = .ok .nil)
    (c c' : Val) (hnew : newValue ⟨genTables, ext⟩ (Cells.raw c) f ty = .ok c') :
    createRow ⟨genTables, ext⟩ [(k, .cell .nil f ty)] (.val (.row (Members.ofList [(k, c)]))) =
      .ok ([(k, c')], none) := by
  simp [createRow, cloneRow_col ext k f hty, fillPairs, fill, lookup, OMap.lookup, Cells.format,
    Cells.rawType, hnew, upsert, OMap.upsert]

/-- One line through `jlLine` for one-column templates of the same name, from the three cell
    steps: `Import`, `NewValue` on the exporter side, `MarshalJSON` of the cell. -/
theorem jlLine_col (ext : Ext) (k : Bytes) (fi fo : Format) {tyi tyo : Ty}
    (hi : castTo genTables ext tyi .nil = .ok .nil) (ho : castTo genTables ext tyo .nil = .ok .nil)
    (line : Bytes) (jv : JV) (x : Dyn) (c c' : Val) (txt : Bytes)
    (hline : Json.unmarshal line = (.cons k jv .nil, true))
    (hjv : ofJV ⟨genTables, ext⟩ jv = .ok x)
    (himp : importCell ⟨genTables, ext⟩ fi tyi x = .ok (c, none))
    (hnew : newValue ⟨genTables, ext⟩ (Cells.raw c) fo tyo = .ok c')
    (hvis : Cells.format c' ≠ .hidden)
    (hm : RowPrint.marshalVal ⟨genTables, ext⟩ c' = .ok txt) :
    jlLine ⟨genTables, ext⟩ (withCol [] k fi tyi) (withCol [] k fo tyo) line =
      .ok (objText k txt ++ [0x0A], none) := by
  simp only [LineTime.withCol_nil, jlLine, getRow_col ext k fi hi line jv x c hline hjv himp, exportLine,
    createRow_col ext k fo ho c c' hnew, LineTime.marshalRow_col _ k c' txt hvis hm]

/-! #### Target 1: the input side -/

/-- The input descriptors of the harness's C14 pairs: `datetime(none)`, `datetime(time.Time)`,
    `string(time.Time)`, `auto(time.Time)`. -/
def IsDTin (fi : Format) (tyi : Ty) : Prop :=
  (fi = .datetime ∧ (tyi = .none ∨ tyi = .time)) ∨ ((fi = .string ∨ fi = .auto) ∧ tyi = .time)

theorem IsDTin.of_isDT {fi : Format} {tyi : Ty} (h : IsDT fi tyi) : IsDTin fi tyi := .inl h

theorem IsDTin.keep {fi : Format} {tyi : Ty} (h : IsDTin fi tyi) : KeepTy tyi := by
  rcases h with ⟨_, rfl | rfl⟩ | ⟨_, rfl⟩
  · exact .inl rfl
  · exact .inr (.inl rfl)
  · exact .inr (.inl rfl)

/-- **Target 1, the cell.**  Under `string(time.Time)` and `auto(time.Time)` — as under a date-time
    column — `Import` of an RFC 3339 text leaves the cell holding the `time.Time` the text denotes
    (`cast.To(time.Time, text)` = `ToTime`), nanoseconds included, format and raw type unchanged. -/
theorem import_in_string (ext : Ext) {fi : Format} {tyi : Ty} (hi : IsDTin fi tyi) (s : Bytes)
    (t : GoTime) (h : Time.parseRFC3339 s = some t) :
    importCell ⟨genTables, ext⟩ fi tyi (.str s) = .ok (.cell (.time t) fi tyi, none) := by
  rcases hi with ⟨rfl, hty⟩ | ⟨rfl | rfl, rfl⟩
  · exact LineTime.import_datetime_string ext hty s t h
  · simp [importCell, importByFormat, importFrom, importFail, LineLevel.castTo_time,
      LineTime.toTime23_of_string ext s t h]
  · simp [importCell, importByFormat, importFrom, importFail, LineLevel.castTo_time,
      LineTime.toTime23_of_string ext s t h]

/-- The line, from the exporter's cell on: whatever the input descriptor of target 1 is, an output
    column whose raw type keeps a `time.Time` holds `t` and the line is `{"k":<its MarshalJSON>}`. -/
theorem line_of_marshal (ext : Ext) (k : Bytes) {fi fo : Format} {tyi tyo : Ty}
    (hi : IsDTin fi tyi) (ho : KeepTy tyo) (hvis : fo ≠ .hidden) (line s : Bytes) (t : GoTime)
    (txt : Bytes)
    (hline : Json.unmarshal line = (.cons k (.str s) .nil, true))
    (hp : Time.parseRFC3339 s = some t)
    (hm : RowPrint.marshalVal ⟨genTables, ext⟩ (.cell (.time t) fo tyo) = .ok txt) :
    jlLine ⟨genTables, ext⟩ (withCol [] k fi tyi) (withCol [] k fo tyo) line =
      .ok (objText k txt ++ [0x0A], none) :=
  jlLine_col ext k fi fo (castTo_keep_nil ext hi.keep) (castTo_keep_nil ext ho) line (.str s) (.str s)
    _ _ _ hline (by rw [ofJV]) (import_in_string ext hi s t hp) (newValue_time_keep ext fo ho t)
    (by simpa [Cells.format] using hvis) hm

/-! #### The output descriptors -/

/-- Date-time output column whose raw type keeps the `time.Time`: `datetime(none)`,
    `datetime(time.Time)` and `datetime(T)` for EVERY integer and float type `T` (the harness uses
    int64, int, float64, uint32). -/
def IsDTout (fo : Format) (tyo : Ty) : Prop := fo = .datetime ∧ KeepTy tyo

/-- `string(time.Time)` on the output side. -/
def IsStrOut (fo : Format) (tyo : Ty) : Prop := fo = .string ∧ tyo = .time

/-- `auto(time.Time)` on the output side. -/
def IsAutoOut (fo : Format) (tyo : Ty) : Prop := fo = .auto ∧ tyo = .time

/-- The output descriptors that write the RFC 3339 text of the time. -/
def IsTextOut (fo : Format) (tyo : Ty) : Prop := IsDTout fo tyo ∨ IsStrOut fo tyo

/-- Timestamp output column whose raw type keeps the `time.Time`: `timestamp(none)`,
    `timestamp(time.Time)` and `timestamp(T)` for every integer and float type `T` (the harness uses
    int64, float32, float64, int, uint64, int16). -/
def IsTSout (fo : Format) (tyo : Ty) : Prop := fo = .timestamp ∧ KeepTy tyo

theorem IsTextOut.of_isDT {fo : Format} {tyo : Ty} (h : IsDT fo tyo) : IsTextOut fo tyo := by
  obtain ⟨hf, hty⟩ := h
  refine .inl ⟨hf, ?_⟩
  rcases hty with e | e
  · exact .inl e
  · exact .inr (.inl e)

theorem IsTSout.of_isTS {fo : Format} {tyo : Ty} (h : IsTS fo tyo) : IsTSout fo tyo := by
  obtain ⟨hf, hty⟩ := h
  refine ⟨hf, ?_⟩
  rcases hty with e | e
  · exact .inl e
  · exact .inr (.inr (.inl ⟨_, e⟩))

theorem IsTextOut.keep {fo : Format} {tyo : Ty} (h : IsTextOut fo tyo) : KeepTy tyo := by
  rcases h with ⟨_, h⟩ | ⟨_, rfl⟩
  · exact h
  · exact .inr (.inl rfl)

theorem marshal_string_time (ext : Ext) (t : GoTime) (ty : Ty)
    (h0 : 0 ≤ Time.year t) (h1 : Time.year t ≤ 9999) :
    RowPrint.marshalVal ⟨genTables, ext⟩ (.cell (.time t) .string ty) =
      .ok (JsonWrite.quote (Time.formatRFC3339 t)) := by
  have he : exportVal ⟨genTables, ext⟩ (.cell (.time t) .string ty) =
      .ok (.str (Time.formatRFC3339 t)) := by
    simp [exportVal, TimeShape.toString_of_time ext t h0 h1, exportFail]
  rw [RowPrint.marshalVal.eq_def]
  simp only [he]
  rw [RowPrint.marshalExported.eq_def]

theorem marshal_text_time (ext : Ext) (t : GoTime) {fo : Format} {tyo : Ty} (ho : IsTextOut fo tyo)
    (h0 : 0 ≤ Time.year t) (h1 : Time.year t ≤ 9999) :
    RowPrint.marshalVal ⟨genTables, ext⟩ (.cell (.time t) fo tyo) =
      .ok (JsonWrite.quote (Time.formatRFC3339 t)) := by
  rcases ho with ⟨rfl, _⟩ | ⟨rfl, _⟩
  · exact LineTime.marshal_datetime_time ext t tyo h0 h1
  · exact marshal_string_time ext t tyo h0 h1

/-- An `auto` cell holding a `time.Time` is written by `time.Time.MarshalJSON`. -/
theorem marshal_auto_time (ext : Ext) (t : GoTime) (ty : Ty)
    (h0 : 0 ≤ Time.year t) (h1 : Time.year t ≤ 9999) (hlo : -86400 < t.off) (hhi : t.off < 86400) :
    RowPrint.marshalVal ⟨genTables, ext⟩ (.cell (.time t) .auto ty) =
      .ok (JsonWrite.quote (timeBody t)) := by
  have he : exportVal ⟨genTables, ext⟩ (.cell (.time t) .auto ty) = .ok (.time t) := by
    simp [exportVal]
  rw [RowPrint.marshalVal.eq_def]
  simp only [he]
  rw [RowPrint.marshalExported.eq_def]
  simp only
  rw [RowPrint.marshalDyn.eq_def]
  simp only [marshalTime_ok t h0 h1 hlo hhi]

/-! ### 2. The lines

  In every statement: one column `k` on both sides, the input line's only member is `k` with an
  RFC 3339 text `s` denoting `t` (`Json.unmarshal line = {k: s}`, `Time.parseRFC3339 s = some t`),
  EVERY `ext` — no hypothesis on the process zone, which is never asked.  The year range and the
  whole-minute offset hold of every parsed time (`LineTime.parsed_domain`), the nanosecond bound too
  (`parsed_nsec_lt`); the only hypothesis left, where reading back is claimed, is that the offset read
  is below 24 h (`LineTime.Demo.offset_bound_needed`). -/

/-- **Targets 1, 2 (`string(time.Time)`) and 3, the bytes.**  Input descriptor any of target 1, output
    descriptor `datetime(T)` for `T` none, `time.Time` or ANY integer / float type, or
    `string(time.Time)`: the line is accepted for every `ext` and what is written is exactly
    `{"k":"<text>"}` and a newline, `<text>` = `t.Format(time.RFC3339)`: the instant read at the offset
    read, no fraction.  No domain hypothesis at all. -/
theorem text_line_written (ext : Ext) (k : Bytes) {fi fo : Format} {tyi tyo : Ty}
    (hi : IsDTin fi tyi) (ho : IsTextOut fo tyo) (line s : Bytes) (t : GoTime)
    (hline : Json.unmarshal line = (.cons k (.str s) .nil, true))
    (hp : Time.parseRFC3339 s = some t) :
    jlLine ⟨genTables, ext⟩ (withCol [] k fi tyi) (withCol [] k fo tyo) line =
      .ok (objText k (JsonWrite.quote (Time.formatRFC3339 t)) ++ [0x0A], none) := by
  have hd := LineTime.parsed_domain hp
  refine line_of_marshal ext k hi ho.keep ?_ line s t _ hline hp
    (marshal_text_time ext t ho hd.1 hd.2.1)
  rcases ho with ⟨rfl, _⟩ | ⟨rfl, _⟩ <;> simp

/-- The conclusion of `LineTime.datetime_line` on the bytes `b`: an object text and a newline whose
    member `k`, as the reader delivers it, is a string that parses to the same second and the same
    offset with no sub-second part. -/
def SameTimeText (k : Bytes) (t : GoTime) (b : Bytes) : Prop :=
  ∃ body tree, b = body ++ [0x0A] ∧ Json.unmarshal body = (tree, true) ∧
    ∃ s', LineSpec.lookupJV tree k = some (.str s') ∧
      ∃ t', Time.parseRFC3339 s' = some t' ∧ t'.sec = t.sec ∧ t'.off = t.off ∧ t'.nsec = 0

/-- **Targets 1(a), 2 (`string(time.Time)`) and 3.**  For every input descriptor of target 1 and every
    text-writing output descriptor (date-time with raw type none, `time.Time` or any numeric type;
    `string(time.Time)`), every `ext`: the line is accepted, and the emitted member `k` is a string
    that parses to the same instant AND the same offset, with no sub-second part. -/
theorem text_line (ext : Ext) (k : Bytes) (hk : sanitize k = k) {fi fo : Format} {tyi tyo : Ty}
    (hi : IsDTin fi tyi) (ho : IsTextOut fo tyo) (line s : Bytes) (t : GoTime)
    (hline : Json.unmarshal line = (.cons k (.str s) .nil, true))
    (hp : Time.parseRFC3339 s = some t) (hlo : -86400 < t.off) (hhi : t.off < 86400) :
    (∃ b, jlLine ⟨genTables, ext⟩ (withCol [] k fi tyi) (withCol [] k fo tyo) line = .ok (b, none)) ∧
    ∀ b, jlLine ⟨genTables, ext⟩ (withCol [] k fi tyi) (withCol [] k fo tyo) line = .ok (b, none) →
      SameTimeText k t b := by
  have hw := text_line_written ext k hi ho line s t hline hp
  have hd := LineTime.parsed_domain hp
  refine ⟨⟨_, hw⟩, ?_⟩
  intro b hb
  rw [hw] at hb
  simp only [Outcome.ok.injEq, Prod.mk.injEq, and_true] at hb
  subst hb
  exact ⟨_, _, rfl, LineTime.unmarshal_datetime_out hk t, _, LineTime.lookupJV_single _ _, _,
    Time.C14_parse_format t hd.1 hd.2.1 hd.2.2 hlo hhi, rfl, rfl, rfl⟩

/-- **Target 1(a) restated** (`LineTime.datetime_line` with the importers `string(time.Time)` and
    `auto(time.Time)` added; the hypotheses on the year and on whole minutes are gone, they hold of
    every parsed time). -/
theorem datetime_line (ext : Ext) (k : Bytes) (hk : sanitize k = k) {fi fo : Format} {tyi tyo : Ty}
    (hi : IsDTin fi tyi) (ho : IsDT fo tyo) (line s : Bytes) (t : GoTime)
    (hline : Json.unmarshal line = (.cons k (.str s) .nil, true))
    (hp : Time.parseRFC3339 s = some t) (hlo : -86400 < t.off) (hhi : t.off < 86400) :
    (∃ b, jlLine ⟨genTables, ext⟩ (withCol [] k fi tyi) (withCol [] k fo tyo) line = .ok (b, none)) ∧
    ∀ b, jlLine ⟨genTables, ext⟩ (withCol [] k fi tyi) (withCol [] k fo tyo) line = .ok (b, none) →
      ∃ body tree, b = body ++ [0x0A] ∧ Json.unmarshal body = (tree, true) ∧
        ∃ s', LineSpec.lookupJV tree k = some (.str s') ∧
          ∃ t', Time.parseRFC3339 s' = some t' ∧ t'.sec = t.sec ∧ t'.off = t.off ∧ t'.nsec = 0 :=
  text_line ext k hk hi (.of_isDT ho) line s t hline hp hlo hhi

/-! #### Timestamp outputs (targets 1(b) and 4) -/

/-- **Target 4, the bytes.**  `timestamp(T)` for `T` none, `time.Time` or ANY integer / float type —
    whether or not the second fits `T` (`cast.To(T, time.Time)` fails before looking at the value:
    `timestamp(int16)` does NOT reject a 2021 instant): the cell keeps the `time.Time`, `ToTimestamp`
    of it is `Unix()`, and exactly `{"k":<seconds>}` and a newline is written, always. -/
theorem ts_line_written (ext : Ext) (k : Bytes) {fi fo : Format} {tyi tyo : Ty}
    (hi : IsDTin fi tyi) (ho : IsTSout fo tyo) (line s : Bytes) (t : GoTime)
    (hline : Json.unmarshal line = (.cons k (.str s) .nil, true))
    (hp : Time.parseRFC3339 s = some t) :
    jlLine ⟨genTables, ext⟩ (withCol [] k fi tyi) (withCol [] k fo tyo) line =
      .ok (objText k (formatInt t.sec) ++ [0x0A], none) := by
  obtain ⟨rfl, hty⟩ := ho
  exact line_of_marshal ext k hi hty (by simp) line s t _ hline hp
    (LineTime.marshal_timestamp_time ext t tyo)

/-- **Targets 1(b) and 4.**  The line is accepted for every `ext` and member `k` of the emitted object
    is the number literal `formatInt t.sec`. -/
theorem ts_line (ext : Ext) (k : Bytes) (hk : sanitize k = k) {fi fo : Format} {tyi tyo : Ty}
    (hi : IsDTin fi tyi) (ho : IsTSout fo tyo) (line s : Bytes) (t : GoTime)
    (hline : Json.unmarshal line = (.cons k (.str s) .nil, true))
    (hp : Time.parseRFC3339 s = some t) :
    (∃ b, jlLine ⟨genTables, ext⟩ (withCol [] k fi tyi) (withCol [] k fo tyo) line = .ok (b, none)) ∧
    ∀ b, jlLine ⟨genTables, ext⟩ (withCol [] k fi tyi) (withCol [] k fo tyo) line = .ok (b, none) →
      ∃ body tree, b = body ++ [0x0A] ∧ Json.unmarshal body = (tree, true) ∧
        LineSpec.lookupJV tree k = some (.num (formatInt t.sec)) := by
  have hw := ts_line_written ext k hi ho line s t hline hp
  refine ⟨⟨_, hw⟩, ?_⟩
  intro b hb
  rw [hw] at hb
  simp only [Outcome.ok.injEq, Prod.mk.injEq, and_true] at hb
  subst hb
  exact ⟨_, _, rfl, LineTime.unmarshal_int_out hk t.sec, LineTime.lookupJV_single _ _⟩

/-- **Target 1(b) restated** (`LineTime.timestamp_line` with the importers `string(time.Time)` and
    `auto(time.Time)` added). -/
theorem timestamp_line (ext : Ext) (k : Bytes) (hk : sanitize k = k) {fi fo : Format} {tyi tyo : Ty}
    (hi : IsDTin fi tyi) (ho : IsTS fo tyo) (line s : Bytes) (t : GoTime)
    (hline : Json.unmarshal line = (.cons k (.str s) .nil, true))
    (hp : Time.parseRFC3339 s = some t) :
    (∃ b, jlLine ⟨genTables, ext⟩ (withCol [] k fi tyi) (withCol [] k fo tyo) line = .ok (b, none)) ∧
    ∀ b, jlLine ⟨genTables, ext⟩ (withCol [] k fi tyi) (withCol [] k fo tyo) line = .ok (b, none) →
      ∃ body tree, b = body ++ [0x0A] ∧ Json.unmarshal body = (tree, true) ∧
        LineSpec.lookupJV tree k = some (.num (formatInt t.sec)) :=
  ts_line ext k hk hi (.of_isTS ho) line s t hline hp

/-! #### `auto(time.Time)` on the output side (target 2) -/

theorem unmarshal_time_out {k : Bytes} (hk : sanitize k = k) (t : GoTime) :
    Json.unmarshal (objText k (JsonWrite.quote (timeBody t))) =
      (.cons k (.str (timeBody t)) .nil, true) := by
  rw [LineTime.unmarshal_objText (JsonPrint.readsAs_quote _), hk,
    JsonPrint.sanitize_of_ascii _ fun b hb => JsonPrint.htmlSafe_lt (JsonPrint.allSafe_timeBody t b hb)]

/-- **Target 2, `auto(time.Time)`, the bytes.**  The cell holds the `time.Time` with the nanoseconds
    the input had (`ToTime` = `time.Parse` keeps them); `Export` hands it to `json.Marshal`, i.e.
    `time.Time.MarshalJSON` (RFC3339Nano): `{"k":"<timeBody t>"}` — the date-time text with
    `.` + the nanoseconds without trailing zeros after the seconds when they are not 0.  Accepted when
    the offset read is below 24 h (`MarshalJSON` refuses the others). -/
theorem auto_line_written (ext : Ext) (k : Bytes) {fi fo : Format} {tyi tyo : Ty}
    (hi : IsDTin fi tyi) (ho : IsAutoOut fo tyo) (line s : Bytes) (t : GoTime)
    (hline : Json.unmarshal line = (.cons k (.str s) .nil, true))
    (hp : Time.parseRFC3339 s = some t) (hlo : -86400 < t.off) (hhi : t.off < 86400) :
    jlLine ⟨genTables, ext⟩ (withCol [] k fi tyi) (withCol [] k fo tyo) line =
      .ok (objText k (JsonWrite.quote (timeBody t)) ++ [0x0A], none) := by
  obtain ⟨rfl, rfl⟩ := ho
  have hd := LineTime.parsed_domain hp
  exact line_of_marshal ext k hi (.inr (.inl rfl)) (by simp) line s t _ hline hp
    (marshal_auto_time ext t .time hd.1 hd.2.1 hlo hhi)

/-- **Target 2, `auto(time.Time)`.**  The emitted member `k` is a string that parses to EXACTLY the
    time read: same second, same offset, and `nsec` = the input's (NOT dropped). -/
theorem auto_line (ext : Ext) (k : Bytes) (hk : sanitize k = k) {fi fo : Format} {tyi tyo : Ty}
    (hi : IsDTin fi tyi) (ho : IsAutoOut fo tyo) (line s : Bytes) (t : GoTime)
    (hline : Json.unmarshal line = (.cons k (.str s) .nil, true))
    (hp : Time.parseRFC3339 s = some t) (hlo : -86400 < t.off) (hhi : t.off < 86400) :
    (∃ b, jlLine ⟨genTables, ext⟩ (withCol [] k fi tyi) (withCol [] k fo tyo) line = .ok (b, none)) ∧
    ∀ b, jlLine ⟨genTables, ext⟩ (withCol [] k fi tyi) (withCol [] k fo tyo) line = .ok (b, none) →
      ∃ body tree, b = body ++ [0x0A] ∧ Json.unmarshal body = (tree, true) ∧
        ∃ s', LineSpec.lookupJV tree k = some (.str s') ∧
          ∃ t', Time.parseRFC3339 s' = some t' ∧ t'.sec = t.sec ∧ t'.off = t.off ∧ t'.nsec = t.nsec := by
  have hw := auto_line_written ext k hi ho line s t hline hp hlo hhi
  have hd := LineTime.parsed_domain hp
  refine ⟨⟨_, hw⟩, ?_⟩
  intro b hb
  rw [hw] at hb
  simp only [Outcome.ok.injEq, Prod.mk.injEq, and_true] at hb
  subst hb
  exact ⟨_, _, rfl, unmarshal_time_out hk t, _, LineTime.lookupJV_single _ _, _,
    parse_timeBody t hd.1 hd.2.1 hd.2.2 hlo hhi (parsed_nsec_lt hp), rfl, rfl, rfl⟩

/-- `auto(time.Time)` writes the bytes a date-time column writes exactly when the input had no
    sub-second digits (or only zeros). -/
theorem auto_line_same_bytes_iff (ext : Ext) (k : Bytes) {fi fo fo' : Format} {tyi tyo tyo' : Ty}
    (hi : IsDTin fi tyi) (ho : IsAutoOut fo tyo) (ho' : IsTextOut fo' tyo') (line s : Bytes)
    (t : GoTime) (hline : Json.unmarshal line = (.cons k (.str s) .nil, true))
    (hp : Time.parseRFC3339 s = some t) (hlo : -86400 < t.off) (hhi : t.off < 86400) :
    jlLine ⟨genTables, ext⟩ (withCol [] k fi tyi) (withCol [] k fo tyo) line =
      jlLine ⟨genTables, ext⟩ (withCol [] k fi tyi) (withCol [] k fo' tyo') line ↔ t.nsec = 0 := by
  rw [auto_line_written ext k hi ho line s t hline hp hlo hhi,
    text_line_written ext k hi ho' line s t hline hp]
  constructor
  · intro h
    by_cases h0 : t.nsec = 0
    · exact h0
    · exfalso
      apply timeBody_ne t h0
      simpa [objText, RowPrint.joinComma, JsonWrite.quote,
        JsonPrint.quoteBody_safe _ (JsonPrint.allSafe_timeBody t),
        JsonPrint.quoteBody_safe _ (LineTime.allSafe_formatRFC3339 t)] using h
  · intro h0
    rw [timeBody_nsec0 t h0]

/-! ### 3. Which output descriptors keep the offset: all of them

  Target 3 asked for the output raw types `T` under which `cast.To(T, time.Time)` SUCCEEDS (the cell
  would then hold Unix seconds and a date-time column would write them back in the PROCESS zone,
  losing the offset).  Among the integer and float types there is NONE: `castTo_num_time`.  So
  `NewValue` keeps the `time.Time` (`newValue_time_keep`) and the offset survives under every one of
  the harness's output descriptors, in every process zone. -/

/-- The written line does not depend on `ext` (the process zone, the float texts): for every input
    descriptor of target 1 and every output descriptor of targets 2–4. -/
theorem line_zone_independent (ext₁ ext₂ : Ext) (k : Bytes) {fi fo : Format} {tyi tyo : Ty}
    (hi : IsDTin fi tyi) (ho : IsTextOut fo tyo ∨ IsTSout fo tyo ∨ IsAutoOut fo tyo)
    (line s : Bytes) (t : GoTime)
    (hline : Json.unmarshal line = (.cons k (.str s) .nil, true))
    (hp : Time.parseRFC3339 s = some t) (hlo : -86400 < t.off) (hhi : t.off < 86400) :
    jlLine ⟨genTables, ext₁⟩ (withCol [] k fi tyi) (withCol [] k fo tyo) line =
      jlLine ⟨genTables, ext₂⟩ (withCol [] k fi tyi) (withCol [] k fo tyo) line := by
  rcases ho with ho | ho | ho
  · rw [text_line_written ext₁ k hi ho line s t hline hp, text_line_written ext₂ k hi ho line s t hline hp]
  · rw [ts_line_written ext₁ k hi ho line s t hline hp, ts_line_written ext₂ k hi ho line s t hline hp]
  · rw [auto_line_written ext₁ k hi ho line s t hline hp hlo hhi,
      auto_line_written ext₂ k hi ho line s t hline hp hlo hhi]

/-- The input descriptors of the harness's C14 column pairs. -/
def harnessIns : List (Format × Ty) :=
  [(.datetime, .none), (.datetime, .time), (.auto, .time), (.string, .time)]

/-- The output descriptors of the harness's C14 column pairs. -/
def harnessOuts : List (Format × Ty) :=
  [(.datetime, .none), (.timestamp, .none), (.string, .time), (.datetime, .time),
   (.timestamp, .int .i64), (.datetime, .int .i64), (.datetime, .int .int), (.datetime, .f64),
   (.datetime, .int .u32), (.timestamp, .f32), (.timestamp, .f64), (.timestamp, .int .int),
   (.timestamp, .int .u64), (.timestamp, .int .i16)]

theorem harnessIns_spec : ∀ d ∈ harnessIns, IsDTin d.1 d.2 := by
  intro d hd
  simp only [harnessIns, List.mem_cons, List.not_mem_nil, or_false] at hd
  rcases hd with rfl | rfl | rfl | rfl <;> simp [IsDTin]

/-- Each of the 14 output descriptors either writes the RFC 3339 text of the `time.Time` it keeps
    (the 8 non-timestamp ones) or its Unix second (the 6 timestamp ones). -/
theorem harnessOuts_spec : ∀ d ∈ harnessOuts,
    (d.1 ≠ .timestamp ∧ IsTextOut d.1 d.2) ∨ (d.1 = .timestamp ∧ IsTSout d.1 d.2) := by
  intro d hd
  simp only [harnessOuts, List.mem_cons, List.not_mem_nil, or_false] at hd
  rcases hd with rfl | rfl | rfl | rfl | rfl | rfl | rfl | rfl | rfl | rfl | rfl | rfl | rfl | rfl <;>
    simp [IsTextOut, IsDTout, IsStrOut, IsTSout, KeepTy, NumTy]

/-- **Target 3, the table.**  For EVERY pair (input descriptor, output descriptor) of the harness whose
    output is not a timestamp — `datetime(none)`, `string(time.Time)`, `datetime(time.Time)`,
    `datetime(int64)`, `datetime(int)`, `datetime(float64)`, `datetime(uint32)` — and every `ext`: the
    line is accepted and the emitted member parses to the same instant AND THE SAME OFFSET.  No output
    descriptor of the list loses the offset. -/
theorem offset_kept (ext : Ext) (k : Bytes) (hk : sanitize k = k) (di do_ : Format × Ty)
    (hi : di ∈ harnessIns) (ho : do_ ∈ harnessOuts) (hts : do_.1 ≠ .timestamp) (line s : Bytes)
    (t : GoTime) (hline : Json.unmarshal line = (.cons k (.str s) .nil, true))
    (hp : Time.parseRFC3339 s = some t) (hlo : -86400 < t.off) (hhi : t.off < 86400) :
    (∃ b, jlLine ⟨genTables, ext⟩ (withCol [] k di.1 di.2) (withCol [] k do_.1 do_.2) line =
      .ok (b, none)) ∧
    ∀ b, jlLine ⟨genTables, ext⟩ (withCol [] k di.1 di.2) (withCol [] k do_.1 do_.2) line =
      .ok (b, none) → SameTimeText k t b := by
  rcases harnessOuts_spec do_ ho with ⟨_, h⟩ | ⟨h, _⟩
  · exact text_line ext k hk (harnessIns_spec di hi) h line s t hline hp hlo hhi
  · exact absurd h hts

/-- …and for every pair whose output is a timestamp — `timestamp(none)`, `timestamp(int64)`,
    `timestamp(float32)`, `timestamp(float64)`, `timestamp(int)`, `timestamp(uint64)`,
    `timestamp(int16)` — the member is the integer literal of the instant's Unix second: always
    written, never rejected. -/
theorem timestamp_written (ext : Ext) (k : Bytes) (hk : sanitize k = k) (di do_ : Format × Ty)
    (hi : di ∈ harnessIns) (ho : do_ ∈ harnessOuts) (hts : do_.1 = .timestamp) (line s : Bytes)
    (t : GoTime) (hline : Json.unmarshal line = (.cons k (.str s) .nil, true))
    (hp : Time.parseRFC3339 s = some t) :
    (∃ b, jlLine ⟨genTables, ext⟩ (withCol [] k di.1 di.2) (withCol [] k do_.1 do_.2) line =
      .ok (b, none)) ∧
    ∀ b, jlLine ⟨genTables, ext⟩ (withCol [] k di.1 di.2) (withCol [] k do_.1 do_.2) line =
      .ok (b, none) →
      ∃ body tree, b = body ++ [0x0A] ∧ Json.unmarshal body = (tree, true) ∧
        LineSpec.lookupJV tree k = some (.num (formatInt t.sec)) := by
  rcases harnessOuts_spec do_ ho with ⟨h, _⟩ | ⟨_, h⟩
  · exact absurd hts h
  · exact ts_line ext k hk (harnessIns_spec di hi) h line s t hline hp

/-! ### 4. The oracle (target 5) -/

/-- **Target 5.**  `LineTime.c14Violation` — the logic of the harness's `c14LineViolation` — finds
    nothing on the model's line for every input descriptor of target 1 and every output descriptor
    that writes the RFC 3339 text or the timestamp, whatever `ext`. -/
theorem line_oracle (ext : Ext) (k : Bytes) (hk : sanitize k = k) {fi fo : Format} {tyi tyo : Ty}
    (hi : IsDTin fi tyi) (ho : IsTextOut fo tyo ∨ IsTSout fo tyo) (line s : Bytes) (t : GoTime)
    (hline : Json.unmarshal line = (.cons k (.str s) .nil, true))
    (hp : Time.parseRFC3339 s = some t) (hlo : -86400 < t.off) (hhi : t.off < 86400) :
    c14Violation line
      (jlLine ⟨genTables, ext⟩ (withCol [] k fi tyi) (withCol [] k fo tyo) line) = none := by
  have hd := LineTime.parsed_domain hp
  rcases ho with ho | ho
  · rw [text_line_written ext k hi ho line s t hline hp]
    simp only [c14Violation]
    rw [LineTime.c14Accepted_of_trees line _ _ _ hline (LineTime.unmarshal_datetime_out hk t), c14Trees,
      LineTime.normDup_single k (.str s) (by simp [LineSpec.normDupV]), List.foldl_cons, List.foldl_nil]
    exact LineTime.c14Step_datetime k s t hp hd.1 hd.2.1 hd.2.2 hlo hhi
  · rw [ts_line_written ext k hi ho line s t hline hp]
    simp only [c14Violation]
    rw [LineTime.c14Accepted_of_trees line _ _ _ hline (LineTime.unmarshal_int_out hk t.sec), c14Trees,
      LineTime.normDup_single k (.str s) (by simp [LineSpec.normDupV]), List.foldl_cons, List.foldl_nil]
    exact LineTime.c14Step_timestamp k s t hp hd.1 hd.2.1 hlo hhi

/-- The oracle on every pair of the harness's lists. -/
theorem harness_oracle (ext : Ext) (k : Bytes) (hk : sanitize k = k) (di do_ : Format × Ty)
    (hi : di ∈ harnessIns) (ho : do_ ∈ harnessOuts) (line s : Bytes) (t : GoTime)
    (hline : Json.unmarshal line = (.cons k (.str s) .nil, true))
    (hp : Time.parseRFC3339 s = some t) (hlo : -86400 < t.off) (hhi : t.off < 86400) :
    c14Violation line
      (jlLine ⟨genTables, ext⟩ (withCol [] k di.1 di.2) (withCol [] k do_.1 do_.2) line) = none := by
  refine line_oracle ext k hk (harnessIns_spec di hi) ?_ line s t hline hp hlo hhi
  rcases harnessOuts_spec do_ ho with ⟨_, h⟩ | ⟨_, h⟩
  · exact .inl h
  · exact .inr h

/-- **Target 5, the pair where the oracle DOES find something.**  Output `auto(time.Time)`: the
    instant and the offset are those read, but the sub-second digits of the input are written back,
    and C14's "sub-second digits are dropped" is what the oracle checks last: on the model's own line
    it answers `subsecond-not-dropped` exactly when the input had a non-zero fraction. -/
theorem auto_line_oracle (ext : Ext) (k : Bytes) (hk : sanitize k = k) {fi fo : Format} {tyi tyo : Ty}
    (hi : IsDTin fi tyi) (ho : IsAutoOut fo tyo) (line s : Bytes) (t : GoTime)
    (hline : Json.unmarshal line = (.cons k (.str s) .nil, true))
    (hp : Time.parseRFC3339 s = some t) (hlo : -86400 < t.off) (hhi : t.off < 86400) :
    c14Violation line
      (jlLine ⟨genTables, ext⟩ (withCol [] k fi tyi) (withCol [] k fo tyo) line) =
      if t.nsec = 0 then none else some "subsecond-not-dropped" := by
  have hd := LineTime.parsed_domain hp
  rw [auto_line_written ext k hi ho line s t hline hp hlo hhi]
  simp only [c14Violation]
  rw [LineTime.c14Accepted_of_trees line _ _ _ hline (unmarshal_time_out hk t), c14Trees,
    LineTime.normDup_single k (.str s) (by simp [LineSpec.normDupV]), List.foldl_cons, List.foldl_nil]
  simp [c14Step, hp, LineTime.lookupJV_single,
    parse_timeBody t hd.1 hd.2.1 hd.2.2 hlo hhi (parsed_nsec_lt hp)]

/-! ### 5. Concrete lines, computed (target 6 and the examples of target 5) -/
namespace Demo
open RowPrint JsonWrite
open Jl.LineTime.Demo (inS outS tm)

/-- `{"k":"2021-09-24T21:21:00+05:30"}` -/
def lineK : Bytes := [0x7B, 0x22, 0x6B, 0x22, 0x3A, 0x22] ++ outS ++ [0x22, 0x7D]

/-- 2021-09-24T15:51:00Z, rendered at +05:30 -/
def tmK : GoTime := ⟨1632498660, 0, 19800⟩

open Json in
theorem unmarshal_lineK : Json.unmarshal lineK = (.cons [0x6B] (.str outS) .nil, true) := by
  simp [lineK, outS, unmarshal, token, tokenCore, skipSpace, isSpace, asClose, parseObject, more,
    asKey, asTok, strBody, pre, handleDelim, scanScalar, valueAllowed, valueEnd, isEof]

theorem civilOf_tmK : Time.civilOf tmK = ⟨2021, 9, 24, 21, 21, 0⟩ := by decide

theorem format_tmK : Time.formatRFC3339 tmK = outS := by
  have e : tmK.off = 19800 := rfl
  rw [Time.formatRFC3339_eq, civilOf_tmK, Time.formatZone_eq, e]
  simp [Time.headText, Time.appendInt, Time.pad4, Time.pad2, Int.tdiv, outS]
  decide

theorem sanitize_k : sanitize [0x6B] = [0x6B] := JsonPrint.sanitize_of_ascii _ (by decide)

theorem objText_lineK : objText [0x6B] (quote outS) = lineK := by
  simp [objText, joinComma, quote, quoteBody, htmlSafe, outS, lineK]

/-- **Target 6.**  `string(time.Time)` in, `datetime(int64)` out, `{"k":"2021-09-24T21:21:00+05:30"}`:
    for EVERY `ext` the emitted line is the input line and a newline — `+05:30` is kept (the cast to
    int64 fails, the cell keeps the `time.Time`, the process zone is never asked). -/
theorem jlLine_lineK (ext : Ext) :
    jlLine ⟨genTables, ext⟩ (withCol [] [0x6B] .string .time) (withCol [] [0x6B] .datetime (.int .i64))
      lineK = .ok (lineK ++ [0x0A], none) := by
  have h := text_line_written ext [0x6B] (fi := .string) (fo := .datetime) (tyi := .time)
    (tyo := .int .i64) (.inr ⟨.inl rfl, rfl⟩) (.inl ⟨rfl, .inr (.inr (.inl ⟨_, rfl⟩))⟩) lineK outS tmK
    unmarshal_lineK LineTime.Demo.parse_outS
  rw [format_tmK, objText_lineK] at h
  exact h

/-- …under the empty stdlib oracle (no process zone known)… -/
theorem jlLine_lineK_empty :
    jlLine ⟨genTables, Ext.empty⟩ (withCol [] [0x6B] .string .time)
      (withCol [] [0x6B] .datetime (.int .i64)) lineK = .ok (lineK ++ [0x0A], none) :=
  jlLine_lineK Ext.empty

/-- …and in a process zone one hour east of UTC: the same bytes, `+05:30`, not `+01:00`. -/
theorem jlLine_lineK_plus1 :
    jlLine ⟨genTables, TimeShape.extPlus1⟩ (withCol [] [0x6B] .string .time)
      (withCol [] [0x6B] .datetime (.int .i64)) lineK = .ok (lineK ++ [0x0A], none) :=
  jlLine_lineK TimeShape.extPlus1

/-- The bytes, spelled out. -/
example : lineK ++ [0x0A] =
    [0x7B, 0x22, 0x6B, 0x22, 0x3A, 0x22,
      0x32, 0x30, 0x32, 0x31, 0x2D, 0x30, 0x39, 0x2D, 0x32, 0x34, 0x54, 0x32, 0x31, 0x3A, 0x32, 0x31,
      0x3A, 0x30, 0x30, 0x2B, 0x30, 0x35, 0x3A, 0x33, 0x30, 0x22, 0x7D, 0x0A] := by decide

/-- The conclusion of `offset_kept` on it: the member reads back as second 1632498660 at +05:30. -/
example : ∃ tree s' t', Json.unmarshal lineK = (tree, true) ∧
    LineSpec.lookupJV tree [0x6B] = some (.str s') ∧ Time.parseRFC3339 s' = some t' ∧
    t'.sec = 1632498660 ∧ t'.off = 19800 ∧ t'.nsec = 0 := by
  obtain ⟨_, hall⟩ := offset_kept TimeShape.extPlus1 [0x6B] sanitize_k (.string, .time)
    (.datetime, .int .i64) (by decide) (by decide) (by decide) lineK outS tmK unmarshal_lineK
    LineTime.Demo.parse_outS (by decide) (by decide)
  obtain ⟨body, tree, hb, hu, s', hl, t', ht', h1, h2, h3⟩ := hall _ jlLine_lineK_plus1
  have : body = lineK := (List.append_cancel_right hb).symm
  subst this
  exact ⟨tree, s', t', hu, hl, ht', h1, h2, h3⟩

/-- The oracle on it, in both zones. -/
example : c14Violation lineK (jlLine ⟨genTables, Ext.empty⟩ (withCol [] [0x6B] .string .time)
      (withCol [] [0x6B] .datetime (.int .i64)) lineK) = none ∧
    c14Violation lineK (jlLine ⟨genTables, TimeShape.extPlus1⟩ (withCol [] [0x6B] .string .time)
      (withCol [] [0x6B] .datetime (.int .i64)) lineK) = none :=
  ⟨harness_oracle _ [0x6B] sanitize_k (.string, .time) (.datetime, .int .i64) (by decide) (by decide)
      lineK outS tmK unmarshal_lineK LineTime.Demo.parse_outS (by decide) (by decide),
    harness_oracle _ [0x6B] sanitize_k (.string, .time) (.datetime, .int .i64) (by decide) (by decide)
      lineK outS tmK unmarshal_lineK LineTime.Demo.parse_outS (by decide) (by decide)⟩

/-- `timestamp(int16)` does not reject it either: `{"k":1632498660}`, a second far outside int16. -/
example (ext : Ext) :
    jlLine ⟨genTables, ext⟩ (withCol [] [0x6B] .auto .time) (withCol [] [0x6B] .timestamp (.int .i16))
      lineK = .ok ([0x7B, 0x22, 0x6B, 0x22, 0x3A, 0x31, 0x36, 0x33, 0x32, 0x34, 0x39, 0x38, 0x36, 0x36,
        0x30, 0x7D, 0x0A], none) := by
  have h := ts_line_written ext [0x6B] (fi := .auto) (fo := .timestamp) (tyi := .time)
    (tyo := .int .i16) (.inr ⟨.inr rfl, rfl⟩) ⟨rfl, .inr (.inr (.inl ⟨_, rfl⟩))⟩ lineK outS tmK
    unmarshal_lineK LineTime.Demo.parse_outS
  have e : tmK.sec = 1632498660 := rfl
  refine h.trans ?_
  rw [e]
  simp [objText, joinComma, quote, quoteBody, htmlSafe, formatInt, natDigits, digitChar]

/-! #### `auto(time.Time)` out: the fraction comes back, and the oracle says so

  `LineTime.Demo.line` = `{"t":"2021-09-24T21:21:00.999+05:30"}` through a date-time column in and an
  `auto(time.Time)` column out is written back UNCHANGED (`.999` included), where a date-time column
  writes `…:00+05:30`. -/

theorem fracNano_999 : fracNano 999000000 = [0x2E, 0x39, 0x39, 0x39] := by
  simp [fracNano, Time.pad, natDigits, digitChar]

theorem timeBody_tm : timeBody tm = inS := by
  have e : tm.off = 19800 := rfl
  have e2 : tm.nsec = 999000000 := rfl
  rw [timeBody_eq, LineTime.Demo.civilOf_tm, Time.formatZone_eq, e, e2, fracNano_999]
  simp [Time.headText, Time.appendInt, Time.pad4, Time.pad2, Int.tdiv, inS]
  decide

theorem objText_line : objText [0x74] (quote inS) = LineTime.Demo.line := by
  simp [objText, joinComma, quote, quoteBody, htmlSafe, inS, LineTime.Demo.line]

theorem jlLine_auto_out (ext : Ext) :
    jlLine ⟨genTables, ext⟩ (withCol [] [0x74] .datetime .none) (withCol [] [0x74] .auto .time)
      LineTime.Demo.line = .ok (LineTime.Demo.line ++ [0x0A], none) := by
  have h := auto_line_written ext [0x74] (fi := .datetime) (fo := .auto) (tyi := .none) (tyo := .time)
    (.inl ⟨rfl, .inl rfl⟩) ⟨rfl, rfl⟩ LineTime.Demo.line inS tm LineTime.Demo.unmarshal_line
    LineTime.Demo.parse_inS (by decide) (by decide)
  rw [timeBody_tm, objText_line] at h
  exact h

/-- **The oracle on the model's own line finds `subsecond-not-dropped`** — a limitation of C14 as
    worded ("sub-second digits are dropped") on which model and code agree for an `auto(time.Time)`
    OUTPUT column (not one of the harness's 14 output descriptors: there `auto(time.Time)` is an input
    descriptor only). -/
theorem auto_out_violation (ext : Ext) :
    c14Violation LineTime.Demo.line
      (jlLine ⟨genTables, ext⟩ (withCol [] [0x74] .datetime .none) (withCol [] [0x74] .auto .time)
        LineTime.Demo.line) = some "subsecond-not-dropped" := by
  have h := auto_line_oracle ext [0x74] LineTime.Demo.sanitize_t (fi := .datetime) (fo := .auto)
    (tyi := .none) (tyo := .time) (.inl ⟨rfl, .inl rfl⟩) ⟨rfl, rfl⟩ LineTime.Demo.line inS tm
    LineTime.Demo.unmarshal_line LineTime.Demo.parse_inS (by decide) (by decide)
  rw [h]
  decide

end Demo

/-! ### 6. Where the offset IS lost: an output raw type to which a `time.Time` CAN be cast

  Target 3's scenario (the cast succeeds, the cell holds Unix seconds, the date-time export reads them
  back in the process zone) does not occur for the integer and float raw types, but it does for the
  raw type `json.Number` (`ToNumber(time.Time)` = the text of `Unix()`): `datetime(json.Number)` keeps
  the instant and REPLACES the offset read by the process zone's.  Not one of the harness's
  descriptors; stated to document the boundary of `offset_kept`. -/

theorem castTo_numty_nil (ext : Ext) : castTo genTables ext .num .nil = .ok .nil := by
  simp [castTo, callNamed, genTables, Gen.dispatchTo, Gen.casters, findClause, typeOf, evalBranch, evalE]

theorem castTo_numty_time (ext : Ext) (t : GoTime) :
    castTo genTables ext .num (.time t) = .ok (.num (formatInt t.sec)) := by
  simp [castTo, callNamed, genTables, Gen.dispatchTo, Gen.casters, findClause, typeOf, evalBranch, evalE]

theorem toTime_of_numlit (ext : Ext) (n off : Int) (hn : parseInt0 (formatInt n) 64 = some n)
    (hz : ext.zoneOffset n = some off) (hlo : -(2 ^ 62 : Int) < n) (hhi : n < 2 ^ 62) :
    castNamed genTables ext "ToTime" (.num (formatInt n)) = .ok (.time ⟨n, 0, off⟩) := by
  simp [castNamed, callNamed, genTables, Gen.casters, findClause, typeOf, evalBranch, evalE, special,
    runParse, hn, hz]
  omega

/-- **The line under `datetime(json.Number)`.**  Accepted; the text written is the instant read,
    rendered at the PROCESS ZONE's offset `off` — not at the offset read. -/
theorem num_line_written (ext : Ext) (k : Bytes) {fi : Format} {tyi : Ty} (hi : IsDTin fi tyi)
    (line s : Bytes) (t : GoTime) (off : Int)
    (hline : Json.unmarshal line = (.cons k (.str s) .nil, true))
    (hp : Time.parseRFC3339 s = some t) (hlo : -86400 < t.off) (hhi : t.off < 86400)
    (hz : ext.zoneOffset t.sec = some off)
    (hy0 : 0 ≤ Time.year ⟨t.sec, 0, off⟩) (hy1 : Time.year ⟨t.sec, 0, off⟩ ≤ 9999) :
    jlLine ⟨genTables, ext⟩ (withCol [] k fi tyi) (withCol [] k .datetime .num) line =
      .ok (objText k (JsonWrite.quote (Time.formatRFC3339 ⟨t.sec, 0, off⟩)) ++ [0x0A], none) := by
  have hd := LineTime.parsed_domain hp
  have hb := LineTime.sec_bound t hd.1 hd.2.1 hlo hhi
  have hn : parseInt0 (formatInt t.sec) 64 = some t.sec := by
    rw [parseInt0_formatInt, if_pos]
    constructor <;> simp <;> omega
  have he : exportVal ⟨genTables, ext⟩ (.cell (.num (formatInt t.sec)) .datetime .num) =
      .ok (.str (Time.formatRFC3339 ⟨t.sec, 0, off⟩)) := by
    simp [exportVal, toTime_of_numlit ext t.sec off hn hz (by omega) (by omega),
      TimeShape.toString_of_time ext _ hy0 hy1, exportFail]
  refine jlLine_col ext k fi .datetime (castTo_keep_nil ext hi.keep) (castTo_numty_nil ext) line
    (.str s) (.str s) _ (.cell (.num (formatInt t.sec)) .datetime .num) _ hline (by rw [ofJV])
    (import_in_string ext hi s t hp) ?_ (by simp [Cells.format]) ?_
  · simp [newValue, Cells.raw, castTo_numty_time]
  · rw [RowPrint.marshalVal.eq_def]
    simp only [he]
    rw [RowPrint.marshalExported.eq_def]

/-- The emitted member parses to the same INSTANT, at the zone's offset; and the oracle answers
    `offset-changed` exactly when the process zone's offset at that instant differs from the offset
    read. -/
theorem num_line_oracle (ext : Ext) (k : Bytes) (hk : sanitize k = k) {fi : Format} {tyi : Ty}
    (hi : IsDTin fi tyi) (line s : Bytes) (t : GoTime) (off : Int)
    (hline : Json.unmarshal line = (.cons k (.str s) .nil, true))
    (hp : Time.parseRFC3339 s = some t) (hlo : -86400 < t.off) (hhi : t.off < 86400)
    (hz : ext.zoneOffset t.sec = some off)
    (hy0 : 0 ≤ Time.year ⟨t.sec, 0, off⟩) (hy1 : Time.year ⟨t.sec, 0, off⟩ ≤ 9999)
    (h60 : off % 60 = 0) (hlo' : -86400 < off) (hhi' : off < 86400) :
    (∃ body tree s', jlLine ⟨genTables, ext⟩ (withCol [] k fi tyi) (withCol [] k .datetime .num) line =
        .ok (body ++ [0x0A], none) ∧ Json.unmarshal body = (tree, true) ∧
      LineSpec.lookupJV tree k = some (.str s') ∧ Time.parseRFC3339 s' = some ⟨t.sec, 0, off⟩) ∧
    c14Violation line
      (jlLine ⟨genTables, ext⟩ (withCol [] k fi tyi) (withCol [] k .datetime .num) line) =
      if off = t.off then none else some "offset-changed" := by
  have hw := num_line_written ext k hi line s t off hline hp hlo hhi hz hy0 hy1
  have hpf := Time.C14_parse_format ⟨t.sec, 0, off⟩ hy0 hy1 h60 hlo' hhi'
  refine ⟨⟨_, _, _, hw, LineTime.unmarshal_datetime_out hk _, LineTime.lookupJV_single _ _, hpf⟩, ?_⟩
  rw [hw]
  simp only [c14Violation]
  rw [LineTime.c14Accepted_of_trees line _ _ _ hline (LineTime.unmarshal_datetime_out hk _), c14Trees,
    LineTime.normDup_single k (.str s) (by simp [LineSpec.normDupV]), List.foldl_cons, List.foldl_nil]
  simp [c14Step, hp, LineTime.lookupJV_single, hpf]


namespace Demo
open RowPrint JsonWrite
open Jl.LineTime.Demo (outS)

/-- `{"k":"2021-09-24T16:51:00+01:00"}` -/
def lineKplus1 : Bytes :=
  [0x7B, 0x22, 0x6B, 0x22, 0x3A, 0x22,
    0x32, 0x30, 0x32, 0x31, 0x2D, 0x30, 0x39, 0x2D, 0x32, 0x34, 0x54, 0x31, 0x36, 0x3A, 0x35, 0x31,
    0x3A, 0x30, 0x30, 0x2B, 0x30, 0x31, 0x3A, 0x30, 0x30, 0x22, 0x7D]

theorem civilOf_plus1 : Time.civilOf ⟨1632498660, 0, 3600⟩ = ⟨2021, 9, 24, 16, 51, 0⟩ := by decide

theorem objText_plus1 :
    objText [0x6B] (quote (Time.formatRFC3339 ⟨1632498660, 0, 3600⟩)) = lineKplus1 := by
  rw [Time.formatRFC3339_eq, civilOf_plus1, Time.formatZone_eq]
  simp [Time.headText, Time.appendInt, Time.pad4, Time.pad2, Int.tdiv, objText, joinComma, quote,
    quoteBody, htmlSafe, lineKplus1]
  decide

/-- **A descriptor that does lose the offset** (outside the harness's list): `string(time.Time)` in,
    `datetime(json.Number)` out, `{"k":"2021-09-24T21:21:00+05:30"}` in a process zone at +01:00 comes
    out as `{"k":"2021-09-24T16:51:00+01:00"}` — the same instant, the offset read replaced by the
    zone's — and the oracle says `offset-changed` on the model's own line. -/
theorem jlLine_lineK_num_plus1 :
    jlLine ⟨genTables, TimeShape.extPlus1⟩ (withCol [] [0x6B] .string .time)
      (withCol [] [0x6B] .datetime .num) lineK = .ok (lineKplus1 ++ [0x0A], none) ∧
    c14Violation lineK (jlLine ⟨genTables, TimeShape.extPlus1⟩ (withCol [] [0x6B] .string .time)
      (withCol [] [0x6B] .datetime .num) lineK) = some "offset-changed" := by
  have hi : IsDTin .string .time := .inr ⟨.inl rfl, rfl⟩
  have hw := num_line_written TimeShape.extPlus1 [0x6B] hi lineK outS tmK 3600 unmarshal_lineK
    LineTime.Demo.parse_outS (by decide) (by decide) rfl
    (by simp [Time.year, tmK, civilOf_plus1]) (by simp [Time.year, tmK, civilOf_plus1])
  have ho := (num_line_oracle TimeShape.extPlus1 [0x6B] sanitize_k hi lineK outS tmK 3600
    unmarshal_lineK LineTime.Demo.parse_outS (by decide) (by decide) rfl
    (by simp [Time.year, tmK, civilOf_plus1]) (by simp [Time.year, tmK, civilOf_plus1])
    (by decide) (by decide) (by decide)).2
  have e : tmK.sec = 1632498660 := rfl
  rw [e, objText_plus1] at hw
  refine ⟨hw, ?_⟩
  rw [ho]
  decide

end Demo

end Jl.LineTimeMore
