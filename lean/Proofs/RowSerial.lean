/-
  Proofs.RowSerial — C06, last clause: SERIALISATION FOLLOWS THE ROW'S ITERATION ORDER, at every
  depth, after any history.

  1. Top level (`serial_follows_iteration`, `vops_serial_follows_iteration`,
     `serial_first_insertion`): whatever the history and whatever the cells do, the text
     `row.MarshalJSON` writes is one object whose member names, as the reader delivers them, are
     the keys of `LRow.iter` whose cell is not hidden, in that order = the key order of the
     specification `OMap` = first-insertion order.
  2. Every depth (`deepVal` = deepNames, `skel_treeVal`, `printed_val_deep`, `printed_row_deep`,
     `serial_deep`): the skeleton (member names at every depth, array lengths) of the tree the
     reader delivers is computed from the VALUE alone: a nested row prints its visible keys in ITS
     order (`nested_row_names`), arrays keep element order (`array_keeps_order`), a Go map prints
     its keys in the order the map value holds them (`gomap_prints_stored_order`) — SORTED
     (`sortKV_sorted`, `raw_row_prints_sorted`): the one place where the order is not insertion
     order.  The only hypothesis, `ScalarExport` (formatted cells export scalars), is proved for
     the regenerated tables (`gen_scalarExport`).
  3. Replacing or re-importing an existing key never moves it (`existing_key_keeps_place`,
     `existing_key_never_moves`, `reimport_same_order`, `reimport_same_names`,
     `replace_same_names`, `vops_reimport_same_names`); the unconditional statement is false:
     counterexamples (a), (b), (c) below.
  4. Non-vacuity: one history computed end to end (`Demo.end_to_end`).
-/
import Proofs.Row
import Proofs.JsonPrint
import Proofs.LineKeys
import Proofs.LineLevel
import Proofs.Order
import Proofs.CastTyped
import Model.CastGen
import Model.RowPrint
import Model.LineSpec
import Model.Cells
import Model.Value

namespace Jl.RowSerial
open Jl Jl.Value
open Jl.JsonQuote (sanitize)
open Jl.JsonPrint (treeDyn treeVal treeMembers treeList treeMap treeExported FloatTextOK)
open Jl.RowPrint (marshalRow marshalVal visibleKeys)

/-! ## 0. Histories: small facts about `run` -/

section Generic
variable {C V E : Type}

theorem run_append (ops : CellOps C V E) (r : LRow C) (h₁ h₂ : List (RowOp C V)) :
    r.run ops (h₁ ++ h₂) = (r.run ops h₁).run ops h₂ := by
  induction h₁ generalizing r with
  | nil => rfl
  | cons op rest ih => exact ih _

theorem orun_append (ops : CellOps C V E) (o : OMap C) (h₁ h₂ : List (RowOp C V)) :
    OMap.run ops o (h₁ ++ h₂) = OMap.run ops (OMap.run ops o h₁) h₂ := by
  induction h₁ generalizing o with
  | nil => rfl
  | cons op rest ih => exact ih _

/-- Every reachable row is coherent and is the specification's ordered map (C06.refines_omap). -/
theorem reach (ops : CellOps C V E) (hist : List (RowOp C V)) :
    (LRow.empty.run ops hist).abs = OMap.run ops [] hist ∧ (LRow.empty.run ops hist).Inv :=
  LRow.run_refines ops hist LRow.empty LRow.inv_empty

theorem spec_keys (ops : CellOps C V E) (hist : List (RowOp C V)) :
    OMap.keys (OMap.run ops [] hist) = (LRow.empty.run ops hist).l := by
  obtain ⟨ha, hi⟩ := reach ops hist
  rw [← ha, LRow.abs_keys _ hi]

theorem spec_keys_nodup (ops : CellOps C V E) (hist : List (RowOp C V)) :
    (OMap.keys (OMap.run ops [] hist)).Nodup := by
  rw [spec_keys]; exact (reach ops hist).2.1

/-- No step moves, duplicates or drops a key (C06.keys_only_appended, restated here because
    `Proofs` does not import `Props`). -/
theorem step_prefix (ops : CellOps C V E) (r : LRow C) (op : RowOp C V) :
    r.l <+: (r.step ops op).1.l := by
  have hens : ∀ (r : LRow C) k, r.l <+: r.ensure k := by
    intro r k; unfold LRow.ensure; split
    · exact List.prefix_refl _
    · exact List.prefix_append _ _
  have hset : ∀ (r : LRow C) k x, r.l <+: (r.set ops k x).l := by
    intro r k x; unfold LRow.set; cases r.m k <;> exact hens r k
  have himp : ∀ (r : LRow C) k x, r.l <+: (r.importAtKey ops k x).1.l := by
    intro r k x; unfold LRow.importAtKey; cases r.m k <;> exact hens r k
  have hpm : ∀ (r : LRow C) k x, r.l <+: (r.parseMember ops k x).1.l := by
    intro r k x; unfold LRow.parseMember
    cases r.m k
    · exact List.prefix_append _ _
    · exact List.prefix_refl _
  cases op with
  | set k x => exact hset r k x
  | setAt i x => exact hset r _ x
  | setValue k c => exact hens r k
  | setValueAt i c => exact hens r _
  | importAtKey k x => exact himp r k x
  | importAtIndex i x => exact himp r _ x
  | importSlice xs =>
    simp only [LRow.step]
    generalize 0 = i
    induction xs generalizing r i with
    | nil => exact List.prefix_refl _
    | cons x xs ih =>
      unfold LRow.importSliceFrom
      have h1 := himp r (r.keyAt i) x
      rcases hc : r.importAtKey ops (r.keyAt ↑i) x with ⟨r', e⟩
      rw [hc] at h1
      cases e with
      | some e => exact h1
      | none => exact List.IsPrefix.trans h1 (ih r' (i + 1))
  | importMap kvs =>
    simp only [LRow.step]
    induction kvs generalizing r with
    | nil => exact List.prefix_refl _
    | cons kv kvs ih =>
      obtain ⟨k, x⟩ := kv
      unfold LRow.importMap
      have h1 := himp r k x
      rcases hc : r.importAtKey ops k x with ⟨r', e⟩
      rw [hc] at h1
      cases e with
      | some e => exact h1
      | none => exact List.IsPrefix.trans h1 (ih r')
  | unmarshal ms =>
    simp only [LRow.step]
    induction ms generalizing r with
    | nil => exact List.prefix_refl _
    | cons kv ms ih =>
      obtain ⟨k, x⟩ := kv
      unfold LRow.parseMembers
      have h1 := hpm r k x
      rcases hc : r.parseMember ops k x with ⟨r', e⟩
      rw [hc] at h1
      cases e with
      | some e => exact h1
      | none => exact List.IsPrefix.trans h1 (ih r')

/-- Over a whole history the order of earlier keys is kept (C06.history_keeps_order). -/
theorem run_prefix (ops : CellOps C V E) (hist : List (RowOp C V)) (r : LRow C) :
    r.l <+: (r.run ops hist).l := by
  induction hist generalizing r with
  | nil => exact List.prefix_refl _
  | cons op rest ih => exact List.IsPrefix.trans (step_prefix ops r op) (ih _)

end Generic

/-! ## 1. Top level: serialisation order = iteration order = first-insertion order -/

/-- What `IterValues` delivers, as (key, cell) pairs (a key without a cell — impossible in a
    reachable row — delivers a nil Value, which has nothing to print: dropped, as the driver's
    `deepOrder` does). -/
def entries (r : LRow Val) : List (Bytes × Val) :=
  r.iter.filterMap fun kv => kv.2.map fun v => (kv.1, v)

/-- Does `row.MarshalJSON` print what `IterValues` delivered for a key: a cell that is not hidden. -/
def cellShown : Option Val → Bool
  | some v => Cells.format v != .hidden
  | none => false

theorem cellShown_none : cellShown none = false := rfl
theorem cellShown_some (v : Val) : cellShown (some v) = (Cells.format v != .hidden) := rfl

/-- The keys of `LRow.iter` whose cell is not hidden, in iteration order. -/
def iterVisibleKeys (r : LRow Val) : List Bytes :=
  (r.iter.filter fun kv => cellShown kv.2).map Prod.fst

theorem entries_eq_abs (r : LRow Val) : entries r = r.abs := by
  unfold entries LRow.iter LRow.abs
  rw [List.filterMap_map]
  rfl

theorem iterVisibleKeys_eq (r : LRow Val) : iterVisibleKeys r = visibleKeys (entries r) := by
  unfold iterVisibleKeys entries visibleKeys LRow.iter
  induction r.l with
  | nil => rfl
  | cons k l ih =>
    simp only [List.map_cons, List.filter_cons, List.filterMap_cons]
    cases hk : r.m k with
    | none => simpa [cellShown_none] using ih
    | some v =>
      simp only [Option.map_some, cellShown_some]
      by_cases hv : Cells.format v = .hidden
      · simpa [hv] using ih
      · have h2 : (Cells.format v != Format.hidden) = true := by simpa using hv
        simp only [h2, if_true, List.map_cons, List.filter_cons]
        exact congrArg (k :: ·) ih

/-- The entries of a reachable row are the specification's ordered map. -/
theorem entries_is_spec {E : Type} (ops : CellOps Val Dyn E) (hist : List (RowOp Val Dyn)) :
    entries (LRow.empty.run ops hist) = OMap.run ops [] hist := by
  rw [entries_eq_abs]; exact (reach ops hist).1

/-- Iteration enumerates the specification's entries in its order (C06.iter_is_spec). -/
theorem iter_is_spec {C V E : Type} (ops : CellOps C V E) (hist : List (RowOp C V)) :
    (LRow.empty.run ops hist).iter =
      (OMap.run ops [] hist).map fun kc => (kc.1, some kc.2) := by
  obtain ⟨ha, hi⟩ := reach ops hist
  generalize LRow.empty.run ops hist = r at ha hi
  rw [← ha]
  obtain ⟨_, hm⟩ := hi
  unfold LRow.iter LRow.abs
  have : ∀ l : List Bytes, (∀ k ∈ l, (r.m k).isSome = true) →
      l.map (fun k => (k, r.m k)) =
      (l.filterMap fun k => (r.m k).map fun c => (k, c)).map fun kc => (kc.1, some kc.2) := by
    intro l
    induction l with
    | nil => intro _; rfl
    | cons a t ih =>
      intro hl
      obtain ⟨c, hc⟩ := Option.isSome_iff_exists.mp (hl a (by simp))
      simp [hc, ih (fun k hk => hl k (by simp [hk]))]
  exact this r.l fun k hk => (hm k).mp hk

theorem visibleKeys_sublist (o : List (Bytes × Val)) : (visibleKeys o).Sublist (OMap.keys o) := by
  unfold visibleKeys OMap.keys
  exact List.Sublist.map _ List.filter_sublist

/-- Printed member names of any entry list: the visible keys, sanitized, in order. -/
theorem printed_names (env : Env) (hx : FloatTextOK env.ext) (row : List (Bytes × Val)) (bs : Bytes)
    (hm : marshalRow env (Members.ofList row) = .ok bs) :
    Json.unmarshal bs = (treeMembers env (Members.ofList row), true) ∧
      LineSpec.keysOf (treeMembers env (Members.ofList row)) = (visibleKeys row).map sanitize :=
  ⟨JsonPrint.unmarshal_marshalRow env hx _ bs hm, LineLevel.keysOf_tree env row⟩

/-- TARGET 1.  For EVERY history, EVERY behaviour of the cells (`ops`: in particular the
    Value-level operations `vops env'` below, over any tables) and every environment of the
    printer: when `row.MarshalJSON` of the final row succeeds, its text `bs`
    * is accepted by the reader as exactly one object (`Json.unmarshal bs = (t, true)`), opening
      with `{`;
    * the member names the reader delivers (`keysOf t`) are the keys of `LRow.iter` whose cell is
      not hidden, in iteration order, each after the escaper's `sanitize`;
    * this is the key order of the SPECIFICATION `OMap.run ops [] hist` (hidden cells skipped):
      an association list without repeated key in which a key keeps the place of its first
      insertion (`serial_first_insertion`). -/
theorem serial_follows_iteration {E : Type} (env : Env) (hx : FloatTextOK env.ext)
    (ops : CellOps Val Dyn E) (hist : List (RowOp Val Dyn)) (bs : Bytes)
    (hm : marshalRow env (Members.ofList (entries (LRow.empty.run ops hist))) = .ok bs) :
    ∃ t, Json.unmarshal bs = (t, true) ∧ bs.head? = some 0x7B ∧
      LineSpec.keysOf t = (iterVisibleKeys (LRow.empty.run ops hist)).map sanitize ∧
      LineSpec.keysOf t = (visibleKeys (OMap.run ops [] hist)).map sanitize ∧
      (OMap.keys (OMap.run ops [] hist)).Nodup ∧
      (visibleKeys (OMap.run ops [] hist)).Sublist (OMap.keys (OMap.run ops [] hist)) := by
  obtain ⟨hu, hk⟩ := printed_names env hx _ bs hm
  refine ⟨_, hu, ?_, ?_, ?_, spec_keys_nodup ops hist, visibleKeys_sublist _⟩
  · obtain ⟨parts, _, rfl⟩ := JsonPrint.marshalRow_shape hm
    rfl
  · rw [hk, iterVisibleKeys_eq]
  · rw [hk, entries_is_spec]

/-- Is the cell at `k` printed (present and not hidden)? -/
def shown (o : List (Bytes × Val)) (k : Bytes) : Bool := Order.formatAt o k != some .hidden

theorem visibleKeys_shown (o : List (Bytes × Val)) (hnd : (OMap.keys o).Nodup) :
    visibleKeys o = (OMap.keys o).filter (shown o) := Order.visibleKeys_eq o hnd

/-- TARGET 1, first-insertion order spelled out: cut the history anywhere (`pre ++ post`).  The
    keys the row had after `pre` come first in the final text, in the order they had then (those
    whose final cell is hidden skipped); every key inserted by `post` comes after them. -/
theorem serial_first_insertion {E : Type} (env : Env) (hx : FloatTextOK env.ext)
    (ops : CellOps Val Dyn E) (pre post : List (RowOp Val Dyn)) (bs : Bytes)
    (hm : marshalRow env (Members.ofList (entries (LRow.empty.run ops (pre ++ post)))) = .ok bs) :
    ∃ t later, Json.unmarshal bs = (t, true) ∧
      OMap.keys (OMap.run ops [] (pre ++ post)) = OMap.keys (OMap.run ops [] pre) ++ later ∧
      LineSpec.keysOf t =
        ((OMap.keys (OMap.run ops [] pre)).filter (shown (OMap.run ops [] (pre ++ post)))).map sanitize
          ++ (later.filter (shown (OMap.run ops [] (pre ++ post)))).map sanitize := by
  obtain ⟨t, hu, _, _, hk, hnd, _⟩ := serial_follows_iteration env hx ops (pre ++ post) bs hm
  have hp : (LRow.empty.run ops pre).l <+: (LRow.empty.run ops (pre ++ post)).l := by
    rw [run_append]; exact run_prefix ops post _
  obtain ⟨later, hl⟩ := hp
  rw [← spec_keys, ← spec_keys] at hl
  refine ⟨t, later, hu, hl.symm, ?_⟩
  rw [hk, visibleKeys_shown _ hnd, ← hl, List.filter_append, List.map_append]

/-! ## 2. Every depth -/

mutual
  /-- The member names of a JSON value at every depth, in order, and the lengths of its arrays
      (the structured form of the driver's `skelJV` string `{6b{…},6b2}` / `[…,…]` / nothing). -/
  inductive Skel
    | leaf
    | arr (xs : SkelList)
    | obj (ms : SkelMembers)
  inductive SkelList
    | nil
    | cons (x : Skel) (xs : SkelList)
  inductive SkelMembers
    | nil
    | cons (k : Bytes) (v : Skel) (ms : SkelMembers)
end

def SkelList.toList : SkelList → List Skel
  | .nil => []
  | .cons x xs => x :: xs.toList

def SkelMembers.toList : SkelMembers → List (Bytes × Skel)
  | .nil => []
  | .cons k v ms => (k, v) :: ms.toList

/-- The member names of one object level. -/
def SkelMembers.names (ms : SkelMembers) : List Bytes := ms.toList.map Prod.fst

/-- `n` scalars. -/
def leaves : Nat → SkelList
  | 0 => .nil
  | n + 1 => .cons .leaf (leaves n)

mutual
  /-- Skeleton of a tree delivered by the reader (Driver.C06 `skelJV`, restated). -/
  def skelJV : JV → Skel
    | .null => .leaf
    | .bool _ => .leaf
    | .num _ => .leaf
    | .str _ => .leaf
    | .arr xs => .arr (skelList xs)
    | .obj ms => .obj (skelMembers ms)
  def skelList : JVList → SkelList
    | .nil => .nil
    | .cons x xs => .cons (skelJV x) (skelList xs)
  def skelMembers : JVMembers → SkelMembers
    | .nil => .nil
    | .cons k v ms => .cons k (skelJV v) (skelMembers ms)
end

mutual
  /-- `deepNames`: what the VALUE says the printed skeleton is — no table, no environment.
      * a row (bare, or held by a cell as `.val (.row ms)`): an object of its cells that are not
        hidden, in the row's own key order, names after `sanitize`, each cell recursively;
      * `[]interface{}`: an array, element order kept; `[N]byte`: an array of N numbers;
      * a Go map: an object in the order the map value holds its keys — the model keeps maps
        canonical, keys SORTED (`Cells.sortKV`; see `sortKV_sorted`, `raw_row_prints_sorted`):
        here, and only here, the order is not insertion order — as in Go, whose `json.Marshal`
        sorts map keys;
      * an Auto or Hidden cell: what it holds; a cell of any other format: a scalar. -/
  def deepDyn : Dyn → Skel
    | .nil => .leaf
    | .int _ _ => .leaf
    | .f64 _ => .leaf
    | .f32 _ => .leaf
    | .bool _ => .leaf
    | .str _ => .leaf
    | .bytes _ => .leaf
    | .num _ => .leaf
    | .time _ => .leaf
    | .barr s => .arr (leaves s.length)
    | .arr xs => .arr (deepList xs)
    | .gomap kvs => .obj (deepMap kvs)
    | .val v => deepVal v
    | .other _ => .leaf
  def deepList : DynList → SkelList
    | .nil => .nil
    | .cons x xs => .cons (deepDyn x) (deepList xs)
  def deepMap : DynMap → SkelMembers
    | .nil => .nil
    | .cons k x m => .cons (sanitize k) (deepDyn x) (deepMap m)
  def deepVal : Val → Skel
    | .cell raw f _ => if f = .auto ∨ f = .hidden then deepDyn raw else .leaf
    | .row ms => .obj (deepMembers ms)
  def deepMembers : Members → SkelMembers
    | .nil => .nil
    | .cons k v ms =>
      if Cells.format v == .hidden then deepMembers ms
      else .cons (sanitize k) (deepVal v) (deepMembers ms)
end

/-- The kinds `Export` returns for a formatted cell and `json.Marshal` writes as a scalar. -/
def ScalarKind : Dyn → Prop
  | .nil => True
  | .bool _ => True
  | .int _ _ => True
  | .str _ => True
  | .num _ => True
  | _ => False

/-- Hypothesis on the cast tables: a cell whose format is neither Auto nor Hidden exports a
    scalar (nil, bool, integer, string, json.Number).  Proved for the regenerated tables
    (`gen_scalarExport`).  Without it the model's `marshalExported` falls back on printing the
    RAW value of the cell (see the report). -/
def ScalarExport (env : Env) : Prop :=
  ∀ raw f typ e, f ≠ .auto → f ≠ .hidden → exportVal env (.cell raw f typ) = .ok e → ScalarKind e

theorem skel_treeExported_scalar {e : Dyn} (h : ScalarKind e) (t : JV) :
    skelJV (treeExported e t) = .leaf := by
  cases e <;> simp [ScalarKind] at h <;> simp [treeExported, skelJV]

theorem treeExported_self (env : Env) (raw : Dyn) :
    treeExported raw (treeDyn env raw) = treeDyn env raw := by
  cases raw <;> simp [treeExported, treeDyn, JsonPrint.numText]

theorem export_auto (env : Env) (raw : Dyn) (f : Format) (typ : Ty) (hf : f = .auto ∨ f = .hidden) :
    exportVal env (.cell raw f typ) = .ok raw := by
  rcases hf with rfl | rfl <;> cases raw <;> simp [exportVal]

theorem skelList_ofList_num (l : List Bytes) :
    skelList (JVList.ofList (l.map fun b => JV.num b)) = leaves l.length := by
  induction l with
  | nil => simp [JVList.ofList, skelList, leaves]
  | cons a l ih => simp [JVList.ofList, skelList, skelJV, leaves, ih]

mutual
  /-- TARGET 2 (tree side).  The skeleton of the tree a printed value denotes is `deepNames` of
      the value: at every depth. -/
  theorem skel_treeDyn (env : Env) (hs : ScalarExport env) :
      ∀ x : Dyn, skelJV (treeDyn env x) = deepDyn x
    | .nil => by simp [treeDyn, skelJV, deepDyn]
    | .int _ _ => by simp [treeDyn, skelJV, deepDyn]
    | .f64 b => by
      simp only [treeDyn, deepDyn]
      split <;> simp [skelJV]
    | .f32 b => by
      simp only [treeDyn, deepDyn]
      split <;> simp [skelJV]
    | .bool _ => by simp [treeDyn, skelJV, deepDyn]
    | .str _ => by simp [treeDyn, skelJV, deepDyn]
    | .bytes _ => by simp [treeDyn, skelJV, deepDyn]
    | .num _ => by simp [treeDyn, skelJV, deepDyn]
    | .time _ => by simp [treeDyn, skelJV, deepDyn]
    | .barr s => by
      have := skelList_ofList_num (s.map fun b => IntText.formatInt b.toNat)
      simp only [List.map_map, List.length_map] at this
      simp only [treeDyn, skelJV, deepDyn]
      exact congrArg Skel.arr this
    | .arr xs => by
      simp only [treeDyn, skelJV, deepDyn]
      exact congrArg Skel.arr (skel_treeList env hs xs)
    | .gomap kvs => by
      simp only [treeDyn, skelJV, deepDyn]
      exact congrArg Skel.obj (skel_treeMap env hs kvs)
    | .val v => by
      simp only [treeDyn, deepDyn]
      exact skel_treeVal env hs v
    | .other _ => by simp [treeDyn, skelJV, deepDyn]
  theorem skel_treeList (env : Env) (hs : ScalarExport env) :
      ∀ xs : DynList, skelList (treeList env xs) = deepList xs
    | .nil => by simp [treeList, skelList, deepList]
    | .cons x xs => by
      simp only [treeList, skelList, deepList]
      rw [skel_treeDyn env hs x, skel_treeList env hs xs]
  theorem skel_treeMap (env : Env) (hs : ScalarExport env) :
      ∀ m : DynMap, skelMembers (treeMap env m) = deepMap m
    | .nil => by simp [treeMap, skelMembers, deepMap]
    | .cons k x m => by
      simp only [treeMap, skelMembers, deepMap]
      rw [skel_treeDyn env hs x, skel_treeMap env hs m]
  theorem skel_treeVal (env : Env) (hs : ScalarExport env) :
      ∀ v : Val, skelJV (treeVal env v) = deepVal v
    | .cell raw f typ => by
      by_cases hf : f = .auto ∨ f = .hidden
      · simp only [treeVal, export_auto env raw f typ hf, deepVal, hf, if_true, treeExported_self]
        exact skel_treeDyn env hs raw
      · have h1 : f ≠ .auto := fun h => hf (.inl h)
        have h2 : f ≠ .hidden := fun h => hf (.inr h)
        simp only [deepVal, hf, if_false]
        cases he : exportVal env (.cell raw f typ) with
        | ok e =>
          simp only [treeVal, he]
          exact skel_treeExported_scalar (hs raw f typ e h1 h2 he) _
        | err e => simp [treeVal, he, skelJV]
        | panic s => simp [treeVal, he, skelJV]
    | .row ms => by
      simp only [treeVal, skelJV, deepVal]
      exact congrArg Skel.obj (skel_treeMembers env hs ms)
  theorem skel_treeMembers (env : Env) (hs : ScalarExport env) :
      ∀ ms : Members, skelMembers (treeMembers env ms) = deepMembers ms
    | .nil => by simp [treeMembers, skelMembers, deepMembers]
    | .cons k v ms => by
      by_cases hh : Cells.format v = .hidden
      · simp only [treeMembers, deepMembers, hh, beq_self_eq_true, if_true]
        exact skel_treeMembers env hs ms
      · simp only [treeMembers, deepMembers, beq_iff_eq, hh, if_false, skelMembers]
        rw [skel_treeVal env hs v, skel_treeMembers env hs ms]
end

/-! ### The regenerated tables satisfy `ScalarExport` -/

theorem scalarKind_of_typeOf {e : Dyn}
    (h : e = .nil ∨ Cast.typeOf e = .str ∨ Cast.typeOf e = .num ∨ Cast.typeOf e = .bool ∨
      Cast.typeOf e = .int .i64) : ScalarKind e := by
  cases e <;> simp [Cast.typeOf, ScalarKind] at h ⊢

theorem scalarKind_of_caster (ext : Ext) (name : String) (hn : name ∈ CastTyped.casterNames) (want : Ty)
    (hw : resultTyOfCaster? name = some want)
    (hwant : want = .str ∨ want = .num ∨ want = .bool ∨ want = .int .i64) (v e : Dyn)
    (h : Cast.castNamed genTables ext name v = .ok e) : ScalarKind e := by
  obtain ⟨hnil, hty⟩ := CastTyped.gen_cast_typed ext name hn v e h
  by_cases hv : v = .nil
  · exact scalarKind_of_typeOf (.inl (hnil.2 hv))
  · have := hty hv
    rw [hw] at this
    have ht : Cast.typeOf e = want := Option.some.inj this
    apply scalarKind_of_typeOf
    rw [ht]
    rcases hwant with h | h | h | h <;> simp [h]

theorem gen_scalarExport (ext : Ext) : ScalarExport ⟨genTables, ext⟩ := by
  intro raw f typ e h1 h2 he
  by_cases hraw : raw = .nil
  · subst hraw
    rw [LineLevel.nil_exports_nil] at he
    cases he
    trivial
  · obtain ⟨e1, e2, e3, e4⟩ := LineLevel.export_scalar_formats ⟨genTables, ext⟩ raw typ hraw
    cases f with
    | string =>
      rw [e1] at he
      exact scalarKind_of_caster ext "ToString" (by decide) .str rfl (by simp) raw e
        (TimeShape.exportFail_ok he)
    | numeric =>
      rw [e2] at he
      exact scalarKind_of_caster ext "ToNumber" (by decide) .num rfl (by simp) raw e
        (TimeShape.exportFail_ok he)
    | boolean =>
      rw [e3] at he
      exact scalarKind_of_caster ext "ToBool" (by decide) .bool rfl (by simp) raw e
        (TimeShape.exportFail_ok he)
    | timestamp =>
      rw [e4] at he
      exact scalarKind_of_caster ext "ToTimestamp" (by decide) (.int .i64) rfl (by simp) raw e
        (TimeShape.exportFail_ok he)
    | binary =>
      rcases LineLevel.binary_export _ raw typ e he with rfl | ⟨b, rfl⟩ <;> trivial
    | date =>
      obtain ⟨t, _, h⟩ := TimeShape.export_date_inv hraw he
      exact scalarKind_of_caster ext "ToString" (by decide) .str rfl (by simp) t e h
    | datetime =>
      obtain ⟨t, _, h⟩ := TimeShape.export_datetime_inv hraw he
      exact scalarKind_of_caster ext "ToString" (by decide) .str rfl (by simp) t e h
    | auto => exact absurd rfl h1
    | hidden => exact absurd rfl h2
    | bad =>
      exfalso
      cases raw <;> simp [exportVal] at hraw he

/-! ### What is printed, at every depth -/

/-- TARGET 2.  Any Value that marshals: the text is read as a tree whose skeleton — member names
    at every depth, in order — is `deepVal v`, a function of the value alone. -/
theorem printed_val_deep (env : Env) (hx : FloatTextOK env.ext) (hs : ScalarExport env)
    (v : Val) (t : Bytes) (h : marshalVal env v = .ok t) :
    ∃ tree, JsonPrint.ReadsAs t tree ∧ skelJV tree = deepVal v :=
  ⟨_, JsonPrint.marshalVal_tree env hx v t h, skel_treeVal env hs v⟩

/-- TARGET 2 for a whole line: `Json.unmarshal` of the printed row delivers a tree whose skeleton
    is `deepMembers` of the row. -/
theorem printed_row_deep (env : Env) (hx : FloatTextOK env.ext) (hs : ScalarExport env)
    (ms : Members) (bs : Bytes) (h : marshalRow env ms = .ok bs) :
    ∃ tree, Json.unmarshal bs = (tree, true) ∧ skelMembers tree = deepMembers ms :=
  ⟨_, JsonPrint.unmarshal_marshalRow env hx ms bs h, skel_treeMembers env hs ms⟩

/-- TARGET 1 + 2 together: after any history, at every depth. -/
theorem serial_deep {E : Type} (env : Env) (hx : FloatTextOK env.ext) (hs : ScalarExport env)
    (ops : CellOps Val Dyn E) (hist : List (RowOp Val Dyn)) (bs : Bytes)
    (hm : marshalRow env (Members.ofList (entries (LRow.empty.run ops hist))) = .ok bs) :
    ∃ tree, Json.unmarshal bs = (tree, true) ∧
      skelMembers tree = deepMembers (Members.ofList (OMap.run ops [] hist)) := by
  rw [entries_is_spec] at hm
  exact printed_row_deep env hx hs _ bs hm

/-! ### Reading `deepNames`: one object level, arrays, maps -/

/-- One object level of a row: its visible keys in the row's own order, sanitized. -/
theorem deepMembers_names : ∀ ms : Members,
    (deepMembers ms).names = (visibleKeys ms.toList).map sanitize
  | .nil => by simp [deepMembers, SkelMembers.names, SkelMembers.toList, Members.toList, visibleKeys]
  | .cons k v ms => by
    have ih := deepMembers_names ms
    unfold SkelMembers.names at ih ⊢
    by_cases hh : Cells.format v = .hidden
    · simp only [deepMembers, hh, beq_self_eq_true, if_true, Members.toList]
      rw [ih, LineLevel.visibleKeys_cons, if_pos hh]
    · simp only [deepMembers, beq_iff_eq, hh, if_false, Members.toList, SkelMembers.toList,
        List.map_cons]
      rw [ih, LineLevel.visibleKeys_cons, if_neg hh, List.map_cons]

/-- …and what sits under each name is the cell's own skeleton. -/
theorem deepMembers_toList : ∀ ms : Members,
    (deepMembers ms).toList =
      (ms.toList.filter fun kv => Cells.format kv.2 != .hidden).map
        fun kv => (sanitize kv.1, deepVal kv.2)
  | .nil => by simp [deepMembers, SkelMembers.toList, Members.toList]
  | .cons k v ms => by
    have ih := deepMembers_toList ms
    by_cases hh : Cells.format v = .hidden
    · simp only [deepMembers, hh, beq_self_eq_true, if_true, Members.toList, List.filter_cons]
      simpa using ih
    · have h2 : (Cells.format v != Format.hidden) = true := by simpa using hh
      simp only [deepMembers, beq_iff_eq, hh, if_false, Members.toList, SkelMembers.toList,
        List.filter_cons, h2, if_true, List.map_cons]
      rw [ih]

/-- A nested row, bare. -/
theorem deep_row (ms : Members) : deepVal (.row ms) = .obj (deepMembers ms) := by
  simp [deepVal]

/-- A nested row held by an Auto cell (what `parseobject` stores for a nested object) — or by
    a Hidden cell that is itself printed because it sits in an array. -/
theorem deep_cell_row (ms : Members) (f : Format) (typ : Ty) (hf : f = .auto ∨ f = .hidden) :
    deepVal (.cell (.val (.row ms)) f typ) = .obj (deepMembers ms) := by
  simp [deepVal, deepDyn, hf]

/-- Arrays keep element order. -/
theorem deepList_toList : ∀ xs : DynList, (deepList xs).toList = xs.toList.map deepDyn
  | .nil => by simp [deepList, SkelList.toList, DynList.toList]
  | .cons x xs => by
    simp [deepList, SkelList.toList, DynList.toList, deepList_toList xs]

theorem deep_arr (xs : DynList) : deepDyn (.arr xs) = .arr (deepList xs) := by simp [deepDyn]

/-- A Go map prints its keys in the order the map value holds them. -/
theorem deepMap_names : ∀ m : DynMap, (deepMap m).names = m.toList.map fun kv => sanitize kv.1
  | .nil => by simp [deepMap, SkelMembers.names, SkelMembers.toList, DynMap.toList]
  | .cons k x m => by
    have ih := deepMap_names m
    unfold SkelMembers.names at ih ⊢
    simp [deepMap, SkelMembers.toList, DynMap.toList, ih]

theorem deep_gomap (m : DynMap) : deepDyn (.gomap m) = .obj (deepMap m) := by simp [deepDyn]

/-! ### Go maps: the one place where the order is not insertion order -/

theorem bytesLt_asymm : ∀ (a b : Bytes), Cells.bytesLt a b = true → Cells.bytesLt b a = false
  | [], [] => by simp [Cells.bytesLt]
  | [], _ :: _ => by simp [Cells.bytesLt]
  | _ :: _, [] => by simp [Cells.bytesLt]
  | x :: xs, y :: ys => by
    intro h
    simp only [Cells.bytesLt, UInt8.lt_iff_toNat_lt] at h ⊢
    by_cases h1 : x.toNat < y.toNat
    · have : ¬ y.toNat < x.toNat := by omega
      simp only [this, h1, if_true, if_false]
    · by_cases h2 : y.toNat < x.toNat
      · simp [h1, h2] at h
      · simp only [h1, h2, if_false] at h ⊢
        exact bytesLt_asymm xs ys h

theorem bytesLt_trans : ∀ (a b c : Bytes), Cells.bytesLt a b = true → Cells.bytesLt b c = true →
    Cells.bytesLt a c = true
  | [], [], _ => by simp [Cells.bytesLt]
  | [], _ :: _, [] => by simp [Cells.bytesLt]
  | [], _ :: _, _ :: _ => by simp [Cells.bytesLt]
  | _ :: _, [], _ => by simp [Cells.bytesLt]
  | _ :: _, _ :: _, [] => by simp [Cells.bytesLt]
  | x :: xs, y :: ys, z :: zs => by
    intro h1 h2
    simp only [Cells.bytesLt, UInt8.lt_iff_toNat_lt] at h1 h2 ⊢
    by_cases a1 : x.toNat < y.toNat
    · by_cases b1 : y.toNat < z.toNat
      · have : x.toNat < z.toNat := by omega
        simp only [this, if_true]
      · by_cases b2 : z.toNat < y.toNat
        · simp [b1, b2] at h2
        · have : x.toNat < z.toNat := by omega
          simp only [this, if_true]
    · by_cases a2 : y.toNat < x.toNat
      · simp [a1, a2] at h1
      · simp only [a1, a2, if_false] at h1
        by_cases b1 : y.toNat < z.toNat
        · have : x.toNat < z.toNat := by omega
          simp only [this, if_true]
        · by_cases b2 : z.toNat < y.toNat
          · simp [b1, b2] at h2
          · simp only [b1, b2, if_false] at h2
            have c1 : ¬ x.toNat < z.toNat := by omega
            have c2 : ¬ z.toNat < x.toNat := by omega
            simp only [c1, c2, if_false]
            exact bytesLt_trans xs ys zs h1 h2

/-- Non-decreasing for the byte-wise order of Go strings. -/
def KeysSorted {α : Type} (l : List (Bytes × α)) : Prop :=
  l.Pairwise fun a b => Cells.bytesLt b.1 a.1 = false

theorem mem_insertKV {α : Type} (kv : Bytes × α) : ∀ (l : List (Bytes × α)) (z : Bytes × α),
    z ∈ Cells.insertKV kv l ↔ z = kv ∨ z ∈ l
  | [], z => by simp [Cells.insertKV]
  | x :: xs, z => by
    simp only [Cells.insertKV]
    split
    · simp
    · simp only [List.mem_cons, mem_insertKV kv xs z]
      constructor
      · rintro (h | h | h)
        · exact .inr (.inl h)
        · exact .inl h
        · exact .inr (.inr h)
      · rintro (h | h | h)
        · exact .inr (.inl h)
        · exact .inl h
        · exact .inr (.inr h)

theorem insertKV_sorted {α : Type} (kv : Bytes × α) : ∀ (l : List (Bytes × α)),
    KeysSorted l → KeysSorted (Cells.insertKV kv l)
  | [], _ => by simp [Cells.insertKV, KeysSorted]
  | x :: xs, h => by
    unfold KeysSorted at h ⊢
    simp only [Cells.insertKV]
    have hx := List.pairwise_cons.1 h
    split
    · rename_i hlt
      refine List.pairwise_cons.2 ⟨?_, h⟩
      intro z hz
      rcases List.mem_cons.1 hz with rfl | hz
      · exact bytesLt_asymm _ _ hlt
      · cases hzk : Cells.bytesLt z.1 kv.1 with
        | false => rfl
        | true =>
          have := bytesLt_trans _ _ _ hzk hlt
          rw [hx.1 z hz] at this
          cases this
    · rename_i hlt
      refine List.pairwise_cons.2 ⟨?_, insertKV_sorted kv xs hx.2⟩
      intro z hz
      rcases (mem_insertKV kv xs z).1 hz with rfl | hz
      · simpa using hlt
      · exact hx.1 z hz

theorem sortKV_sorted {α : Type} (l : List (Bytes × α)) : KeysSorted (Cells.sortKV l) := by
  unfold Cells.sortKV
  induction l with
  | nil => simp [KeysSorted]
  | cons a l ih => exact insertKV_sorted a _ ih

theorem insertKV_perm {α : Type} (kv : Bytes × α) : ∀ (l : List (Bytes × α)),
    (Cells.insertKV kv l).Perm (kv :: l)
  | [] => by simp [Cells.insertKV]
  | x :: xs => by
    simp only [Cells.insertKV]
    split
    · exact List.Perm.refl _
    · exact ((insertKV_perm kv xs).cons x).trans (List.Perm.swap kv x xs)

theorem sortKV_perm {α : Type} (l : List (Bytes × α)) : (Cells.sortKV l).Perm l := by
  unfold Cells.sortKV
  induction l with
  | nil => exact List.Perm.refl _
  | cons a l ih => exact (insertKV_perm a _).trans (ih.cons a)


theorem dynMap_toList_ofList (l : List (Bytes × Dyn)) : (DynMap.ofList l).toList = l := by
  induction l with
  | nil => rfl
  | cons a l ih => cases a; simp [DynMap.ofList, DynMap.toList, ih]

theorem rawList_keys : ∀ ms : Members, (Cells.rawList ms).map Prod.fst = ms.toList.map Prod.fst
  | .nil => by simp [Cells.rawList, Members.toList]
  | .cons k v ms => by simp [Cells.rawList, Members.toList, rawList_keys ms]

/-- A row's `Raw()` — what a cloned row cell holds (`cloneValue`) — is a Go map: it prints ALL
    the row's keys (the hidden ones too), SORTED byte-wise, not in insertion order. -/
theorem raw_row_prints_sorted (ms : Members) :
    ∃ m : DynMap, Cells.raw (.row ms) = .gomap m ∧ deepDyn (Cells.raw (.row ms)) = .obj (deepMap m) ∧
      (deepMap m).names = m.toList.map (fun kv => sanitize kv.1) ∧
      KeysSorted m.toList ∧ (m.toList.map Prod.fst).Perm (ms.toList.map Prod.fst) := by
  refine ⟨DynMap.ofList (Cells.sortKV (Cells.rawList ms)), by simp [Cells.raw], by simp [Cells.raw, deepDyn],
    deepMap_names _, ?_, ?_⟩
  · rw [dynMap_toList_ofList]; exact sortKV_sorted _
  · rw [dynMap_toList_ofList, ← rawList_keys]
    exact (sortKV_perm _).map _

/-! ## 3. Replacing or re-importing an existing key never moves it -/

section Place
variable {C V E : Type}

/-- The errors a history reports, step by step. -/
def runErrs (ops : CellOps C V E) (r : LRow C) : List (RowOp C V) → List (Option E)
  | [] => []
  | op :: rest => (r.step ops op).2 :: runErrs ops (r.step ops op).1 rest

/-- No step of the history reports an error (a multi-element import or an unmarshal stops at its
    first error: what it does afterwards depends on WHERE it stopped). -/
def NoErr (ops : CellOps C V E) (r : LRow C) (hist : List (RowOp C V)) : Prop :=
  ∀ e ∈ runErrs ops r hist, e = none

/-- The cell operations respect an observation `p` of cells (for serialisation: "is hidden"):
    cells that look the same keep looking the same after the same `Set` / error-free `Import`. -/
structure Respects (ops : CellOps C V E) (p : C → Bool) : Prop where
  set : ∀ c₁ c₂ x, p c₁ = p c₂ → p (ops.setExisting c₁ x) = p (ops.setExisting c₂ x)
  imp : ∀ c₁ c₂ x, p c₁ = p c₂ → (ops.importInto c₁ x).2 = none → (ops.importInto c₂ x).2 = none →
    p (ops.importInto c₁ x).1 = p (ops.importInto c₂ x).1

theorem respects_trivial (ops : CellOps C V E) : Respects ops (fun _ => true) :=
  ⟨fun _ _ _ _ => rfl, fun _ _ _ _ _ _ => rfl⟩

/-- Same key list, and cell by cell the same observation. -/
def Sim (p : C → Bool) (r₁ r₂ : LRow C) : Prop :=
  r₁.l = r₂.l ∧ ∀ k, (r₁.m k).map p = (r₂.m k).map p

theorem Sim.isSome {p : C → Bool} {r₁ r₂ : LRow C} (h : Sim p r₁ r₂) (k : Bytes) :
    (r₁.m k).isSome = (r₂.m k).isSome := by
  have := congrArg Option.isSome (h.2 k)
  simpa using this

theorem Sim.ensure {p : C → Bool} {r₁ r₂ : LRow C} (h : Sim p r₁ r₂) (k : Bytes) :
    r₁.ensure k = r₂.ensure k := by
  unfold LRow.ensure
  rw [h.isSome k, h.1]

theorem Sim.keyAt {p : C → Bool} {r₁ r₂ : LRow C} (h : Sim p r₁ r₂) (i : Int) :
    r₁.keyAt i = r₂.keyAt i := by
  unfold LRow.keyAt
  rw [h.1]

theorem sim_mset {p : C → Bool} {r₁ r₂ : LRow C} (h : Sim p r₁ r₂) (k : Bytes) {c₁ c₂ : C}
    (hc : p c₁ = p c₂) {l₁ l₂ : List Bytes} (hl : l₁ = l₂) :
    Sim p ⟨l₁, LRow.mset r₁.m k c₁⟩ ⟨l₂, LRow.mset r₂.m k c₂⟩ := by
  refine ⟨hl, fun k' => ?_⟩
  unfold LRow.mset
  by_cases e : k' = k
  · simp [e, hc]
  · simpa [e] using h.2 k'

theorem sim_set {p : C → Bool} {ops : CellOps C V E} (hr : Respects ops p) {r₁ r₂ : LRow C}
    (h : Sim p r₁ r₂) (k : Bytes) (x : V) : Sim p (r₁.set ops k x) (r₂.set ops k x) := by
  have hk := h.2 k
  unfold LRow.set
  cases h1 : r₁.m k <;> cases h2 : r₂.m k <;> rw [h1, h2] at hk <;> simp at hk
  · exact sim_mset h k rfl (h.ensure k)
  · exact sim_mset h k (hr.set _ _ x hk) (h.ensure k)

theorem sim_setValue {p : C → Bool} {r₁ r₂ : LRow C} (h : Sim p r₁ r₂) (k : Bytes) {c₁ c₂ : C}
    (hc : p c₁ = p c₂) : Sim p (r₁.setValue k c₁) (r₂.setValue k c₂) :=
  sim_mset h k hc (h.ensure k)

theorem sim_importAtKey {p : C → Bool} {ops : CellOps C V E} (hr : Respects ops p) {r₁ r₂ : LRow C}
    (h : Sim p r₁ r₂) (k : Bytes) (x : V)
    (e₁ : (r₁.importAtKey ops k x).2 = none) (e₂ : (r₂.importAtKey ops k x).2 = none) :
    Sim p (r₁.importAtKey ops k x).1 (r₂.importAtKey ops k x).1 := by
  have hk := h.2 k
  unfold LRow.importAtKey at e₁ e₂ ⊢
  cases h1 : r₁.m k <;> cases h2 : r₂.m k <;> rw [h1, h2] at hk <;> simp at hk
  · exact sim_mset h k rfl (h.ensure k)
  · rw [h1] at e₁; rw [h2] at e₂
    exact sim_mset h k (hr.imp _ _ x hk e₁ e₂) (h.ensure k)

theorem sim_parseMember {p : C → Bool} {ops : CellOps C V E} (hr : Respects ops p) {r₁ r₂ : LRow C}
    (h : Sim p r₁ r₂) (k : Bytes) (x : V)
    (e₁ : (r₁.parseMember ops k x).2 = none) (e₂ : (r₂.parseMember ops k x).2 = none) :
    Sim p (r₁.parseMember ops k x).1 (r₂.parseMember ops k x).1 := by
  have hk := h.2 k
  unfold LRow.parseMember at e₁ e₂ ⊢
  cases h1 : r₁.m k <;> cases h2 : r₂.m k <;> rw [h1, h2] at hk <;> simp at hk
  · exact sim_mset h k rfl (by rw [h.1])
  · rw [h1] at e₁; rw [h2] at e₂
    exact sim_mset h k (hr.imp _ _ x hk e₁ e₂) h.1

theorem sim_importSlice {p : C → Bool} {ops : CellOps C V E} (hr : Respects ops p) (xs : List V) :
    ∀ (r₁ r₂ : LRow C) (i : Nat), Sim p r₁ r₂ →
      (r₁.importSliceFrom ops i xs).2 = none → (r₂.importSliceFrom ops i xs).2 = none →
      Sim p (r₁.importSliceFrom ops i xs).1 (r₂.importSliceFrom ops i xs).1 := by
  induction xs with
  | nil => intro r₁ r₂ i h _ _; exact h
  | cons x xs ih =>
    intro r₁ r₂ i h e₁ e₂
    unfold LRow.importSliceFrom at e₁ e₂ ⊢
    rw [← h.keyAt] at e₂ ⊢
    have hs := sim_importAtKey hr h (r₁.keyAt i) x
    rcases c1 : r₁.importAtKey ops (r₁.keyAt ↑i) x with ⟨a₁, _ | err₁⟩
    · rcases c2 : r₂.importAtKey ops (r₁.keyAt ↑i) x with ⟨a₂, _ | err₂⟩
      · rw [c1] at e₁; rw [c2] at e₂; rw [c1, c2] at hs
        exact ih a₁ a₂ (i + 1) (hs rfl rfl) e₁ e₂
      · rw [c2] at e₂; cases e₂
    · rw [c1] at e₁; cases e₁

theorem sim_importMap {p : C → Bool} {ops : CellOps C V E} (hr : Respects ops p)
    (kvs : List (Bytes × V)) :
    ∀ (r₁ r₂ : LRow C), Sim p r₁ r₂ →
      (r₁.importMap ops kvs).2 = none → (r₂.importMap ops kvs).2 = none →
      Sim p (r₁.importMap ops kvs).1 (r₂.importMap ops kvs).1 := by
  induction kvs with
  | nil => intro r₁ r₂ h _ _; exact h
  | cons kv kvs ih =>
    intro r₁ r₂ h e₁ e₂
    obtain ⟨k, x⟩ := kv
    unfold LRow.importMap at e₁ e₂ ⊢
    have hs := sim_importAtKey hr h k x
    rcases c1 : r₁.importAtKey ops k x with ⟨a₁, _ | err₁⟩
    · rcases c2 : r₂.importAtKey ops k x with ⟨a₂, _ | err₂⟩
      · rw [c1] at e₁; rw [c2] at e₂; rw [c1, c2] at hs
        exact ih a₁ a₂ (hs rfl rfl) e₁ e₂
      · rw [c2] at e₂; cases e₂
    · rw [c1] at e₁; cases e₁

theorem sim_parseMembers {p : C → Bool} {ops : CellOps C V E} (hr : Respects ops p)
    (ms : List (Bytes × V)) :
    ∀ (r₁ r₂ : LRow C), Sim p r₁ r₂ →
      (r₁.parseMembers ops ms).2 = none → (r₂.parseMembers ops ms).2 = none →
      Sim p (r₁.parseMembers ops ms).1 (r₂.parseMembers ops ms).1 := by
  induction ms with
  | nil => intro r₁ r₂ h _ _; exact h
  | cons kv ms ih =>
    intro r₁ r₂ h e₁ e₂
    obtain ⟨k, x⟩ := kv
    unfold LRow.parseMembers at e₁ e₂ ⊢
    have hs := sim_parseMember hr h k x
    rcases c1 : r₁.parseMember ops k x with ⟨a₁, _ | err₁⟩
    · rcases c2 : r₂.parseMember ops k x with ⟨a₂, _ | err₂⟩
      · rw [c1] at e₁; rw [c2] at e₂; rw [c1, c2] at hs
        exact ih a₁ a₂ (hs rfl rfl) e₁ e₂
      · rw [c2] at e₂; cases e₂
    · rw [c1] at e₁; cases e₁

/-- One step of a history, run on two rows that look the same, without error on either. -/
theorem sim_step {p : C → Bool} {ops : CellOps C V E} (hr : Respects ops p) {r₁ r₂ : LRow C}
    (h : Sim p r₁ r₂) (op : RowOp C V)
    (e₁ : (r₁.step ops op).2 = none) (e₂ : (r₂.step ops op).2 = none) :
    Sim p (r₁.step ops op).1 (r₂.step ops op).1 := by
  cases op with
  | set k x => exact sim_set hr h k x
  | setAt i x => simp only [LRow.step, ← h.keyAt]; exact sim_set hr h _ x
  | setValue k c => exact sim_setValue h k rfl
  | setValueAt i c => simp only [LRow.step, ← h.keyAt]; exact sim_setValue h _ rfl
  | importAtKey k x => exact sim_importAtKey hr h k x e₁ e₂
  | importAtIndex i x =>
    simp only [LRow.step, ← h.keyAt] at e₁ e₂ ⊢
    exact sim_importAtKey hr h _ x e₁ e₂
  | importSlice xs => exact sim_importSlice hr xs r₁ r₂ 0 h e₁ e₂
  | importMap kvs => exact sim_importMap hr kvs r₁ r₂ h e₁ e₂
  | unmarshal ms => exact sim_parseMembers hr ms r₁ r₂ h e₁ e₂

theorem sim_run {p : C → Bool} {ops : CellOps C V E} (hr : Respects ops p) (hist : List (RowOp C V)) :
    ∀ (r₁ r₂ : LRow C), Sim p r₁ r₂ → NoErr ops r₁ hist → NoErr ops r₂ hist →
      Sim p (r₁.run ops hist) (r₂.run ops hist) := by
  induction hist with
  | nil => intro r₁ r₂ h _ _; exact h
  | cons op rest ih =>
    intro r₁ r₂ h n₁ n₂
    have e₁ : (r₁.step ops op).2 = none := n₁ _ (by simp [runErrs])
    have e₂ : (r₂.step ops op).2 = none := n₂ _ (by simp [runErrs])
    exact ih _ _ (sim_step hr h op e₁ e₂)
      (fun e he => n₁ e (by simp [runErrs, he])) (fun e he => n₂ e (by simp [runErrs, he]))

/-- The key a single-key operation addresses (`Set`, `SetValue`, `ImportAtKey` and their
    positional forms). -/
def singleKey (r : LRow C) : RowOp C V → Option Bytes
  | .set k _ => some k
  | .setValue k _ => some k
  | .importAtKey k _ => some k
  | .setAt i _ => some (r.keyAt i)
  | .setValueAt i _ => some (r.keyAt i)
  | .importAtIndex i _ => some (r.keyAt i)
  | .importSlice _ => none
  | .importMap _ => none
  | .unmarshal _ => none

/-- TARGET 3, one step.  `Set`, `SetValue`, `ImportAtKey` (by key or by position) on a key the
    row already has: the key list is untouched — the key is not moved, duplicated or dropped —
    and no other cell changes. -/
theorem existing_key_keeps_place (ops : CellOps C V E) (r : LRow C) (op : RowOp C V) (k : Bytes)
    (c : C) (hk : singleKey r op = some k) (hc : r.m k = some c) :
    (r.step ops op).1.l = r.l ∧ ∃ c', (r.step ops op).1.m = LRow.mset r.m k c' := by
  have hens : r.ensure k = r.l := by simp [LRow.ensure, hc]
  cases op <;> simp only [singleKey, Option.some.injEq] at hk <;> try (cases hk)
  all_goals simp only [LRow.step, LRow.set, LRow.setValue, LRow.importAtKey, hc, hens]
  all_goals exact ⟨trivial, _, rfl⟩

end Place

section Place2
variable {C V E : Type}

theorem sim_after_touch (p : C → Bool) (ops : CellOps C V E) (r : LRow C) (op : RowOp C V)
    (k : Bytes) (c : C) (hk : singleKey r op = some k) (hc : r.m k = some c)
    (hp : ∀ c', (r.step ops op).1.m k = some c' → p c' = p c) :
    Sim p r (r.step ops op).1 := by
  obtain ⟨hl, c', hm⟩ := existing_key_keeps_place ops r op k c hk hc
  refine ⟨hl.symm, fun k' => ?_⟩
  rw [hm]
  unfold LRow.mset
  by_cases e : k' = k
  · subst e
    have := hp c' (by rw [hm]; simp [LRow.mset])
    simp [hc, this]
  · simp [e]

/-- TARGET 3, the key list — for ANY cell behaviour.  Two histories that differ by one extra
    `Set` / `SetValue` / `ImportAtKey` (by key or position) on a key that exists at that point:
    as long as the common continuation `post` reports no error in either run, both final rows
    have the SAME key list: the extra operation moved nothing, then or later. -/
theorem existing_key_never_moves (ops : CellOps C V E) (pre post : List (RowOp C V))
    (op : RowOp C V) (k : Bytes) (c : C)
    (hk : singleKey (LRow.empty.run ops pre) op = some k)
    (hc : (LRow.empty.run ops pre).m k = some c)
    (n₁ : NoErr ops (LRow.empty.run ops pre) post)
    (n₂ : NoErr ops ((LRow.empty.run ops pre).step ops op).1 post) :
    (LRow.empty.run ops (pre ++ op :: post)).l = (LRow.empty.run ops (pre ++ post)).l := by
  rw [run_append, run_append]
  have h0 := sim_after_touch (fun _ => true) ops _ op k c hk hc (fun _ _ => rfl)
  exact (sim_run (respects_trivial ops) post _ _ h0 n₁ n₂).1.symm

end Place2

/-! ### …and in the serialisation -/

/-- Is the cell hidden (left out by `row.MarshalJSON`)? -/
def hid (c : Val) : Bool := Cells.format c == .hidden

/-- Is the key printed: present with a cell that is not hidden. -/
def printedAt (r : LRow Val) (k : Bytes) : Bool := (r.m k).map hid == some false

theorem iterVisibleKeys_filter (r : LRow Val) : iterVisibleKeys r = r.l.filter (printedAt r) := by
  unfold iterVisibleKeys LRow.iter
  induction r.l with
  | nil => rfl
  | cons k l ih =>
    simp only [List.map_cons, List.filter_cons]
    have : cellShown (r.m k) = printedAt r k := by
      unfold printedAt hid
      cases r.m k with
      | none => rfl
      | some v => by_cases hv : Cells.format v = .hidden <;> simp [hv, bne, cellShown_some]
    rw [this]
    split
    · rw [List.map_cons, ih]
    · exact ih

theorem sim_printed {r₁ r₂ : LRow Val} (h : Sim hid r₁ r₂) :
    iterVisibleKeys r₁ = iterVisibleKeys r₂ := by
  rw [iterVisibleKeys_filter, iterVisibleKeys_filter, h.1]
  congr 1
  funext k
  unfold printedAt
  rw [h.2 k]

/-- What is printed for a reachable row, in the words of the code-shaped row. -/
theorem printed_of_run {E : Type} (env : Env) (hx : FloatTextOK env.ext)
    (ops : CellOps Val Dyn E) (hist : List (RowOp Val Dyn)) (bs : Bytes)
    (hm : marshalRow env (Members.ofList (entries (LRow.empty.run ops hist))) = .ok bs) :
    ∃ t, Json.unmarshal bs = (t, true) ∧
      LineSpec.keysOf t = (((LRow.empty.run ops hist).l.filter
        (printedAt (LRow.empty.run ops hist))).map sanitize) := by
  obtain ⟨t, hu, _, hk, _⟩ := serial_follows_iteration env hx ops hist bs hm
  exact ⟨t, hu, by rw [hk, iterVisibleKeys_filter]⟩

/-- TARGET 3, the order of the two serialisations — for ANY cell behaviour: both texts list
    their members along ONE common key list `l`; they can differ only in which keys are shown
    (a cell may have become hidden or visible), never in the relative order of two names. -/
theorem reimport_same_order {E : Type} (env : Env) (hx : FloatTextOK env.ext)
    (ops : CellOps Val Dyn E) (pre post : List (RowOp Val Dyn)) (op : RowOp Val Dyn)
    (k : Bytes) (c : Val)
    (hk : singleKey (LRow.empty.run ops pre) op = some k)
    (hc : (LRow.empty.run ops pre).m k = some c)
    (n₁ : NoErr ops (LRow.empty.run ops pre) post)
    (n₂ : NoErr ops ((LRow.empty.run ops pre).step ops op).1 post)
    (bs₁ bs₂ : Bytes)
    (hm₁ : marshalRow env (Members.ofList (entries (LRow.empty.run ops (pre ++ post)))) = .ok bs₁)
    (hm₂ : marshalRow env (Members.ofList (entries (LRow.empty.run ops (pre ++ op :: post)))) =
      .ok bs₂) :
    ∃ t₁ t₂ l, Json.unmarshal bs₁ = (t₁, true) ∧ Json.unmarshal bs₂ = (t₂, true) ∧
      l = (LRow.empty.run ops (pre ++ post)).l ∧ l = (LRow.empty.run ops (pre ++ op :: post)).l ∧
      LineSpec.keysOf t₁ = (l.filter (printedAt (LRow.empty.run ops (pre ++ post)))).map sanitize ∧
      LineSpec.keysOf t₂ =
        (l.filter (printedAt (LRow.empty.run ops (pre ++ op :: post)))).map sanitize := by
  obtain ⟨t₁, u₁, k₁⟩ := printed_of_run env hx ops _ bs₁ hm₁
  obtain ⟨t₂, u₂, k₂⟩ := printed_of_run env hx ops _ bs₂ hm₂
  have hl := existing_key_never_moves ops pre post op k c hk hc n₁ n₂
  refine ⟨t₁, t₂, _, u₁, u₂, rfl, hl.symm, k₁, ?_⟩
  rw [k₂, hl]

/-- TARGET 3, the member names.  If moreover the cell operations respect hidden-ness
    (`Respects ops hid`: true of the Value-level operations, `vops_respects`) and the extra
    operation leaves the cell at `k` hidden or visible as it was, both texts have the SAME
    top-level member-name list. -/
theorem reimport_same_names {E : Type} (env : Env) (hx : FloatTextOK env.ext)
    (ops : CellOps Val Dyn E) (hr : Respects ops hid) (pre post : List (RowOp Val Dyn))
    (op : RowOp Val Dyn) (k : Bytes) (c : Val)
    (hk : singleKey (LRow.empty.run ops pre) op = some k)
    (hc : (LRow.empty.run ops pre).m k = some c)
    (hp : ∀ c', ((LRow.empty.run ops pre).step ops op).1.m k = some c' → hid c' = hid c)
    (n₁ : NoErr ops (LRow.empty.run ops pre) post)
    (n₂ : NoErr ops ((LRow.empty.run ops pre).step ops op).1 post)
    (bs₁ bs₂ : Bytes)
    (hm₁ : marshalRow env (Members.ofList (entries (LRow.empty.run ops (pre ++ post)))) = .ok bs₁)
    (hm₂ : marshalRow env (Members.ofList (entries (LRow.empty.run ops (pre ++ op :: post)))) =
      .ok bs₂) :
    ∃ t₁ t₂, Json.unmarshal bs₁ = (t₁, true) ∧ Json.unmarshal bs₂ = (t₂, true) ∧
      LineSpec.keysOf t₁ = LineSpec.keysOf t₂ := by
  obtain ⟨t₁, u₁, _, k₁, _⟩ := serial_follows_iteration env hx ops _ bs₁ hm₁
  obtain ⟨t₂, u₂, _, k₂, _⟩ := serial_follows_iteration env hx ops _ bs₂ hm₂
  refine ⟨t₁, t₂, u₁, u₂, ?_⟩
  rw [k₁, k₂, run_append, run_append]
  have h0 := sim_after_touch hid ops _ op k c hk hc hp
  rw [sim_printed (sim_run hr post _ _ h0 n₁ n₂)]
  rfl

/-- The same immediately after the operation (`post = []`), where nothing else is needed. -/
theorem replace_same_names {E : Type} (env : Env) (hx : FloatTextOK env.ext)
    (ops : CellOps Val Dyn E) (pre : List (RowOp Val Dyn))
    (op : RowOp Val Dyn) (k : Bytes) (c : Val)
    (hk : singleKey (LRow.empty.run ops pre) op = some k)
    (hc : (LRow.empty.run ops pre).m k = some c)
    (hp : ∀ c', ((LRow.empty.run ops pre).step ops op).1.m k = some c' → hid c' = hid c)
    (bs₁ bs₂ : Bytes)
    (hm₁ : marshalRow env (Members.ofList (entries (LRow.empty.run ops pre))) = .ok bs₁)
    (hm₂ : marshalRow env (Members.ofList (entries (LRow.empty.run ops (pre ++ [op])))) = .ok bs₂) :
    ∃ t₁ t₂, Json.unmarshal bs₁ = (t₁, true) ∧ Json.unmarshal bs₂ = (t₂, true) ∧
      LineSpec.keysOf t₁ = LineSpec.keysOf t₂ := by
  obtain ⟨t₁, u₁, _, k₁, _⟩ := serial_follows_iteration env hx ops _ bs₁ hm₁
  obtain ⟨t₂, u₂, _, k₂, _⟩ := serial_follows_iteration env hx ops _ bs₂ hm₂
  refine ⟨t₁, t₂, u₁, u₂, ?_⟩
  rw [k₁, k₂, run_append]
  rw [sim_printed (sim_after_touch hid ops _ op k c hk hc hp)]
  rfl


/-! ### The Value-level cell operations -/

/-- The cell operations of `Model.Value` over any environment, as Driver.C06 instantiates them
    (`vops`), without the `poison` device: when the model has no answer (`.err`/`.panic`: over the
    regenerated tables only `.err .ext`, a standard-library answer that was not supplied —
    `gen_setExisting_total`) the cell is left as it is, and `Import` reports the error. -/
def vops (env : Env) : CellOps Val Dyn ErrClass :=
  { newCell := Cells.newCell, autoCell := Cells.autoCell,
    setExisting := fun c x =>
      match Value.setExisting env c x with
      | .ok c' => c'
      | _ => c,
    importInto := fun c x =>
      match Value.importVal env c x with
      | .ok r => r
      | .err e => (c, some e)
      | .panic _ => (c, some .other) }

theorem gen_setExisting_total (ext : Ext) (c : Val) (x : Dyn) :
    (∃ c', Value.setExisting ⟨genTables, ext⟩ c x = .ok c') ∨
      Value.setExisting ⟨genTables, ext⟩ c x = .err .ext := by
  have nv : ∀ v f typ, (∃ c', newValue ⟨genTables, ext⟩ v f typ = .ok c') ∨
      newValue ⟨genTables, ext⟩ v f typ = .err .ext := by
    intro v f typ
    unfold newValue
    split
    · exact .inl ⟨_, rfl⟩
    · exact .inr rfl
    · exact .inl ⟨_, rfl⟩
    · rename_i s h; exact absurd h (CastTyped.gen_castTo_no_panic ext _ _ s)
  unfold Value.setExisting
  simp only
  split
  · exact nv _ _ _
  · exact .inr rfl
  · exact nv _ _ _
  · rename_i s h; exact absurd h (CastTyped.gen_castTo_no_panic ext _ _ s)

/-- `Set` on an existing key keeps the cell's format (`NewValue(x, f, typ)` with the old `f`). -/
theorem setExisting_format (env : Env) (c : Val) (x : Dyn) (c' : Val)
    (h : Value.setExisting env c x = .ok c') : Cells.format c' = Cells.format c := by
  unfold Value.setExisting at h
  simp only at h
  split at h
  · exact (Order.newValue_format env _ _ _ _ h).1
  · cases h
  · exact (Order.newValue_format env _ _ _ _ h).1
  · cases h

theorem vops_set_hid (env : Env) (c : Val) (x : Dyn) : hid ((vops env).setExisting c x) = hid c := by
  simp only [vops]
  split
  · rename_i c' h; unfold hid; rw [setExisting_format env c x c' h]
  · rfl

/-- The format an incoming argument brings with it: a Value cell imposes its own. -/
def incomingFormat : Dyn → Option Format
  | .val (.cell _ f _) => some f
  | _ => none

theorem importByFormat_format (env : Env) (f : Format) (typ : Ty) (x : Dyn) (c' : Val)
    (e : Option ErrClass) (h : importByFormat env f typ x = .ok (c', e)) : Cells.format c' = f := by
  unfold importByFormat at h
  simp only at h
  split at h
  · cases h; rfl
  · cases h
  · cases h; rfl
  · cases h

theorem importCell_format (env : Env) (f : Format) (typ : Ty) (x : Dyn) (c' : Val)
    (e : Option ErrClass) (h : importCell env f typ x = .ok (c', e)) :
    Cells.format c' = (incomingFormat x).getD f := by
  unfold importCell at h
  split at h
  · cases h; rfl
  · split at h
    · cases h; rfl
    · exact importByFormat_format env f typ _ c' e h
  · rename_i v hv
    cases h
    cases v with
    | cell r f' t' => rfl
    | row ms => exact absurd rfl (hv ms)
  · rename_i h1 h2 h3
    rw [importByFormat_format env f typ _ c' e h]
    cases x with
    | val v =>
      cases v with
      | cell r f' t' => exact absurd rfl (h3 _)
      | row ms => exact absurd rfl (h2 ms)
    | _ => rfl

/-- `Import` into a row used as a cell: the result is a row; it succeeds only for slices and maps. -/
theorem importInto_row (env : Env) (fuel : Nat) (ms : Members) (x : Dyn) (c' : Val)
    (e : Option ErrClass) (h : importInto env fuel (.row ms) x = .ok (c', e)) :
    Cells.format c' = .auto ∧ (e = none → incomingFormat x = none) := by
  cases fuel with
  | zero => simp [importInto] at h
  | succ fuel =>
    simp only [importInto] at h
    split at h
    · split at h
      · cases h; exact ⟨rfl, fun _ => rfl⟩
      · cases h
      · cases h
    · split at h
      · cases h; exact ⟨rfl, fun _ => rfl⟩
      · cases h
      · cases h
    · cases h; exact ⟨rfl, fun h => by cases h⟩

/-- The format after an `Import` without error: the incoming Value cell's, else the old one. -/
theorem importInto_format (env : Env) (fuel : Nat) (c : Val) (x : Dyn) (c' : Val)
    (h : importInto env fuel c x = .ok (c', none)) :
    Cells.format c' = (incomingFormat x).getD (Cells.format c) := by
  cases c with
  | row ms =>
    obtain ⟨h1, h2⟩ := importInto_row env fuel ms x c' none h
    rw [h1, h2 rfl]; rfl
  | cell raw f typ =>
    cases fuel with
    | zero => simp [importInto] at h
    | succ fuel =>
      simp only [importInto] at h
      exact importCell_format env f typ x c' none h

/-- …and with or without error when the argument is not a Value cell: the old format. -/
theorem importInto_format_plain (env : Env) (fuel : Nat) (c : Val) (x : Dyn) (c' : Val)
    (e : Option ErrClass) (hx : incomingFormat x = none)
    (h : importInto env fuel c x = .ok (c', e)) : Cells.format c' = Cells.format c := by
  cases c with
  | row ms => exact (importInto_row env fuel ms x c' e h).1
  | cell raw f typ =>
    cases fuel with
    | zero => simp [importInto] at h
    | succ fuel =>
      simp only [importInto] at h
      rw [importCell_format env f typ x c' e h, hx]; rfl

theorem vops_import_ok (env : Env) (c : Val) (x : Dyn) (h : ((vops env).importInto c x).2 = none) :
    importVal env c x = .ok (((vops env).importInto c x).1, none) := by
  simp only [vops] at h ⊢
  split at h
  · rename_i r hr
    obtain ⟨a, b⟩ := r
    simp only at h
    subst h
    exact hr
  · cases h
  · cases h

/-- The Value-level operations respect hidden-ness. -/
theorem vops_respects (env : Env) : Respects (vops env) hid := by
  refine ⟨fun c₁ c₂ x h => ?_, fun c₁ c₂ x h e₁ e₂ => ?_⟩
  · rw [vops_set_hid, vops_set_hid, h]
  · have h1 := importInto_format env 64 c₁ x _ (vops_import_ok env c₁ x e₁)
    have h2 := importInto_format env 64 c₂ x _ (vops_import_ok env c₂ x e₂)
    unfold hid at h ⊢
    rw [h1, h2]
    cases incomingFormat x with
    | some f' => rfl
    | none => exact h

theorem vops_import_hid_plain (env : Env) (c : Val) (x : Dyn) (hx : incomingFormat x = none) :
    hid ((vops env).importInto c x).1 = hid c := by
  simp only [vops]
  split
  · rename_i r hr
    obtain ⟨c', e⟩ := r
    unfold hid
    rw [importInto_format_plain env 64 c x c' e hx hr]
  · rfl
  · rfl

/-- Does a single-key operation leave the existing cell `c` hidden or visible as it was?
    `Set`: always (the format is kept); `ImportAtKey`: unless the argument is itself a Value cell,
    whose format the cell takes over; `SetValue`: when the new cell is hidden iff the old one is. -/
def keepsVisibility (c : Val) : RowOp Val Dyn → Prop
  | .set _ _ => True
  | .setAt _ _ => True
  | .importAtKey _ x => incomingFormat x = none
  | .importAtIndex _ x => incomingFormat x = none
  | .setValue _ c' => hid c' = hid c
  | .setValueAt _ c' => hid c' = hid c
  | .importSlice _ => False
  | .importMap _ => False
  | .unmarshal _ => False

theorem vops_touch_hid (env : Env) (r : LRow Val) (op : RowOp Val Dyn) (k : Bytes) (c : Val)
    (hk : singleKey r op = some k) (hc : r.m k = some c) (hv : keepsVisibility c op) :
    ∀ c', (r.step (vops env) op).1.m k = some c' → hid c' = hid c := by
  intro c' h
  have hens : r.ensure k = r.l := by simp [LRow.ensure, hc]
  cases op <;> simp only [singleKey, Option.some.injEq] at hk <;> try (cases hk)
  all_goals simp only [LRow.step, LRow.set, LRow.setValue, LRow.importAtKey, hc, hens, LRow.mset,
    if_true, Option.some.injEq] at h
  all_goals subst h
  all_goals simp only [keepsVisibility] at hv
  · exact vops_set_hid env c _
  · exact vops_set_hid env c _
  · exact hv
  · exact hv
  · exact vops_import_hid_plain env c _ hv
  · exact vops_import_hid_plain env c _ hv

/-- TARGET 3 for the Value-level operations (any tables for the cells: `cenv`; any environment
    for the printer: `env`).  Two histories that differ by one extra `Set` (any argument),
    `ImportAtKey` (of anything but a Value cell) or `SetValue` (of a cell hidden iff the old one
    is), by key or by position, on a key that EXISTS at that point; the common continuation
    reports no error in either run; both final rows marshal.  Then both texts have the same
    top-level member-name list. -/
theorem vops_reimport_same_names (env : Env) (hx : FloatTextOK env.ext) (cenv : Env)
    (pre post : List (RowOp Val Dyn)) (op : RowOp Val Dyn) (k : Bytes) (c : Val)
    (hk : singleKey (LRow.empty.run (vops cenv) pre) op = some k)
    (hc : (LRow.empty.run (vops cenv) pre).m k = some c)
    (hv : keepsVisibility c op)
    (n₁ : NoErr (vops cenv) (LRow.empty.run (vops cenv) pre) post)
    (n₂ : NoErr (vops cenv) ((LRow.empty.run (vops cenv) pre).step (vops cenv) op).1 post)
    (bs₁ bs₂ : Bytes)
    (hm₁ : marshalRow env
      (Members.ofList (entries (LRow.empty.run (vops cenv) (pre ++ post)))) = .ok bs₁)
    (hm₂ : marshalRow env
      (Members.ofList (entries (LRow.empty.run (vops cenv) (pre ++ op :: post)))) = .ok bs₂) :
    ∃ t₁ t₂, Json.unmarshal bs₁ = (t₁, true) ∧ Json.unmarshal bs₂ = (t₂, true) ∧
      LineSpec.keysOf t₁ = LineSpec.keysOf t₂ :=
  reimport_same_names env hx (vops cenv) (vops_respects cenv) pre post op k c hk hc
    (vops_touch_hid cenv _ op k c hk hc hv) n₁ n₂ bs₁ bs₂ hm₁ hm₂


/-! ### Restatements on the printed text itself (no hypothesis on the tables) -/

/-- TARGET 1 for the Value-level operations over any tables (`cenv`), printed in any
    environment (`env`): an instance of `serial_follows_iteration`. -/
theorem vops_serial_follows_iteration (env : Env) (hx : FloatTextOK env.ext) (cenv : Env)
    (hist : List (RowOp Val Dyn)) (bs : Bytes)
    (hm : marshalRow env (Members.ofList (entries (LRow.empty.run (vops cenv) hist))) = .ok bs) :
    ∃ t, Json.unmarshal bs = (t, true) ∧ bs.head? = some 0x7B ∧
      LineSpec.keysOf t = (iterVisibleKeys (LRow.empty.run (vops cenv) hist)).map sanitize ∧
      LineSpec.keysOf t = (visibleKeys (OMap.run (vops cenv) [] hist)).map sanitize ∧
      (OMap.keys (OMap.run (vops cenv) [] hist)).Nodup ∧
      (visibleKeys (OMap.run (vops cenv) [] hist)).Sublist (OMap.keys (OMap.run (vops cenv) [] hist)) :=
  serial_follows_iteration env hx (vops cenv) hist bs hm

/-- A nested row — bare, or held by an Auto/Hidden cell as `parseobject` stores it — prints as
    an object whose member names are THAT row's visible keys, in its own order. -/
theorem nested_row_names (env : Env) (hx : FloatTextOK env.ext) (ms : Members) (v : Val)
    (hv : v = .row ms ∨ ∃ f typ, (f = .auto ∨ f = .hidden) ∧ v = .cell (.val (.row ms)) f typ)
    (t : Bytes) (h : marshalVal env v = .ok t) :
    ∃ tree, JsonPrint.ReadsAs t (.obj tree) ∧
      LineSpec.keysOf tree = (visibleKeys ms.toList).map sanitize := by
  have ht := JsonPrint.marshalVal_tree env hx v t h
  have : treeVal env v = .obj (treeMembers env ms) := by
    rcases hv with rfl | ⟨f, typ, hf, rfl⟩
    · simp [treeVal]
    · simp only [treeVal, export_auto env _ f typ hf, treeDyn]
      rfl
  rw [this] at ht
  exact ⟨_, ht, LineLevel.tree_keys env ms⟩

theorem treeList_toList (env : Env) : ∀ xs : DynList,
    (treeList env xs).toList = xs.toList.map (treeDyn env)
  | .nil => by simp [treeList, JVList.toList, DynList.toList]
  | .cons x xs => by simp [treeList, JVList.toList, DynList.toList, treeList_toList env xs]

/-- `[]interface{}` prints as an array of its elements, in order. -/
theorem array_keeps_order (env : Env) (hx : FloatTextOK env.ext) (xs : DynList) (t : Bytes)
    (h : RowPrint.marshalDyn env (.arr xs) = .ok t) :
    ∃ elems, JsonPrint.ReadsAs t (.arr elems) ∧ elems.toList = xs.toList.map (treeDyn env) := by
  have ht := JsonPrint.marshalDyn_tree env hx _ t h
  simp only [treeDyn] at ht
  exact ⟨_, ht, treeList_toList env xs⟩

theorem treeMap_keys (env : Env) : ∀ m : DynMap,
    LineSpec.keysOf (treeMap env m) = m.toList.map fun kv => sanitize kv.1
  | .nil => by simp [treeMap, LineSpec.keysOf, JVMembers.toList, DynMap.toList]
  | .cons k x m => by
    have ih := treeMap_keys env m
    unfold LineSpec.keysOf at ih ⊢
    simp [treeMap, JVMembers.toList, DynMap.toList, ih]

/-- A Go map prints its keys in the order the map VALUE holds them; the model keeps map values
    canonical — keys sorted byte-wise, as `json.Marshal` sorts them — so when `KeysSorted` holds of
    the value (it does for every map the model itself builds: `sortKV_sorted`) the printed names
    are sorted, whatever order the entries were inserted in. -/
theorem gomap_prints_stored_order (env : Env) (hx : FloatTextOK env.ext) (m : DynMap) (t : Bytes)
    (h : RowPrint.marshalDyn env (.gomap m) = .ok t) :
    ∃ tree, JsonPrint.ReadsAs t (.obj tree) ∧
      LineSpec.keysOf tree = m.toList.map fun kv => sanitize kv.1 := by
  have ht := JsonPrint.marshalDyn_tree env hx _ t h
  simp only [treeDyn] at ht
  exact ⟨_, ht, treeMap_keys env m⟩

/-! ### Why Target 3 carries hypotheses: counterexamples to the unconditional statement -/

def hiddenOne : Val := .cell (.int .int 1) .hidden .none
def autoOne : Val := .cell (.int .int 1) .auto .none

/-- (a) `SetValue` of a HIDDEN cell on an existing visible key: the key keeps its place in the
    row (`existing_key_keeps_place`) but leaves the text. -/
example (env : Env) :
    iterVisibleKeys (LRow.empty.run (vops env) [.setValue [0x61] autoOne]) = [[0x61]] ∧
    iterVisibleKeys (LRow.empty.run (vops env) [.setValue [0x61] autoOne, .setValue [0x61] hiddenOne])
      = [] := by
  constructor <;> rfl

/-- (b) Even an extra operation that keeps the cell visible (`keepsVisibility`) can change the
    names LATER when the continuation reports an error in one run: a row used as a cell refuses
    the Value cell that an ordinary cell takes over, format included. -/
example (env : Env) :
    iterVisibleKeys (LRow.empty.run (vops env)
      [.setValue [0x61] (.row .nil), .importAtKey [0x61] (.val hiddenOne)]) = [[0x61]] ∧
    iterVisibleKeys (LRow.empty.run (vops env)
      [.setValue [0x61] (.row .nil), .setValue [0x61] autoOne, .importAtKey [0x61] (.val hiddenOne)])
      = [] ∧
    runErrs (vops env) (LRow.empty.run (vops env) [.setValue [0x61] (.row .nil)])
      [.importAtKey [0x61] (.val hiddenOne)] = [some .unsupportedImport] := by
  refine ⟨?_, ?_, ?_⟩ <;> rfl

/-- (c) …and even the KEY LISTS can differ later: `Import(map)` stops at its first error, so the
    keys it would have inserted afterwards are inserted later, or never (hence `NoErr` in
    `existing_key_never_moves`). -/
example (env : Env) :
    (LRow.empty.run (vops env)
      [.setValue [0x61] (.row .nil),
       .importMap [([0x61], .nil), ([0x78], .nil)], .setValue [0x79] autoOne, .setValue [0x78] autoOne]).l
      = [[0x61], [0x79], [0x78]] ∧
    (LRow.empty.run (vops env)
      [.setValue [0x61] (.row .nil), .setValue [0x61] autoOne,
       .importMap [([0x61], .nil), ([0x78], .nil)], .setValue [0x79] autoOne, .setValue [0x78] autoOne]).l
      = [[0x61], [0x78], [0x79]] := by
  constructor <;> rfl

/-! ## 4. Non-vacuity: one history, end to end -/
namespace Demo
open RowPrint JsonWrite JsonPrint

def env : Env := ⟨genTables, Ext.empty⟩

def kb : Bytes := [0x62]
def ka : Bytes := [0x61]
def kq : Bytes := [0x71]
def kzq : Bytes := [0x7A, 0x71]
def ky : Bytes := [0x79]
def kx : Bytes := [0x78]
def kk : Bytes := [0x6B]

def one : Val := .cell (.int .int 1) .auto .none
def two : Val := .cell (.int .int 2) .auto .none

/-- the row value `{q, b}` handed to `Set("a", …)` -/
def rowQB : Val := .row (.cons kq one (.cons kb two .nil))

/-- `{"zq":{"y":1,"x":[1,{"k":2}]},"a":2}` -/
def text : Bytes :=
  0x7B :: (joinComma
    [quote kzq ++ 0x3A :: (0x7B :: (joinComma
        [quote ky ++ 0x3A :: [0x31],
         quote kx ++ 0x3A :: (0x5B :: (joinComma
            [[0x31], 0x7B :: (joinComma [quote kk ++ 0x3A :: [0x32]] ++ [0x7D])] ++ [0x5D]))]
        ++ [0x7D])),
     quote ka ++ 0x3A :: [0x32]] ++ [0x7D])

theorem text_bytes : text =
    [0x7B, 0x22, 0x7A, 0x71, 0x22, 0x3A, 0x7B, 0x22, 0x79, 0x22, 0x3A, 0x31, 0x2C, 0x22, 0x78, 0x22,
     0x3A, 0x5B, 0x31, 0x2C, 0x7B, 0x22, 0x6B, 0x22, 0x3A, 0x32, 0x7D, 0x5D, 0x7D, 0x2C, 0x22, 0x61,
     0x22, 0x3A, 0x32, 0x7D] := by
  simp [text, joinComma, quote, quoteBody, htmlSafe, kzq, ky, kx, kk, ka]

theorem san (k : Bytes) (h : ∀ b ∈ k, b < 0x80) : sanitize k = k := JsonPrint.sanitize_of_ascii k h

/-- what the reader delivers for the text -/
def tree : JVMembers :=
  .cons kzq (.obj (.cons ky (.num [0x31]) (.cons kx (.arr (.cons (.num [0x31])
      (.cons (.obj (.cons kk (.num [0x32]) .nil)) .nil))) .nil)))
    (.cons ka (.num [0x32]) .nil)

theorem unmarshal_text : Json.unmarshal text = (tree, true) := by
  have n1 : ReadsAs [0x31] (.num [0x31]) := readsAs_number (by decide)
  have n2 : ReadsAs [0x32] (.num [0x32]) := readsAs_number (by decide)
  have h : ReadsMembers _ _ :=
    ReadsMembers.cons (k := kzq) (readsAs_object
      (.cons (k := ky) n1 (.cons (k := kx) (readsAs_array (.cons n1 (.cons (readsAs_object
        (.cons (k := kk) n2 .nil)) .nil))) .nil)))
      (.cons (k := ka) n2 .nil)
  rw [text, unmarshal_object h]
  simp only [tree, san kzq (by decide), san ky (by decide), san kx (by decide), san kk (by decide),
    san ka (by decide)]

/-- the member events of the `unmarshal` step, as Driver.C06 builds them from the text -/
def members : List (Bytes × Dyn) :=
  (Json.unmarshal text).1.toList.map fun kv => (kv.1, Cells.ofJV kv.2)

def inner : Val :=
  .row (.cons ky (.cell (.num [0x31]) .auto .none)
    (.cons kx (.cell (.arr (.cons (.num [0x31])
      (.cons (.val (.row (.cons kk (.cell (.num [0x32]) .auto .none) .nil))) .nil))) .auto .none) .nil))

theorem members_eq : members = [(kzq, .val inner), (ka, .num [0x32])] := by
  rw [members, unmarshal_text]
  rfl

/-- [set "b" 1; set "a" {row q,b}; set "b" "x"; unmarshal {"zq":{"y":1,"x":[1,{"k":2}]},"a":2}] -/
def hist : List (RowOp Val Dyn) :=
  [.set kb (.int .int 1), .set ka (.val rowQB), .set kb (.str [0x78]), .unmarshal members]

def final : List (Bytes × Val) :=
  [(kb, .cell (.str [0x78]) .auto .none), (ka, rowQB), (kzq, .cell (.val inner) .auto .none)]

theorem vops_set_gen (ext : Ext) (c : Val) (x : Dyn) (h : Cells.rawType c = .none) :
    (vops ⟨genTables, ext⟩).setExisting c x = .cell x (Cells.format c) .none := by
  simp [vops, Value.setExisting, newValue, h, CastTyped.gen_castTo_none]

theorem vops_import_row (e : Env) (ms : Members) (l : Bytes) :
    (vops e).importInto (.row ms) (.num l) = (.row ms, some .unsupportedImport) := by
  have : importVal e (.row ms) (.num l) = .ok (.row ms, some .unsupportedImport) := rfl
  simp only [vops, this]

theorem spec_run : OMap.run (vops env) [] hist = final := by
  have e1 : (vops env).newCell = Cells.newCell := rfl
  have e2 : (vops env).autoCell = Cells.autoCell := rfl
  have ne1 : kb ≠ ka := by decide
  have ne2 : ka ≠ kb := by decide
  have ne3 : kb ≠ kzq := by decide
  have ne4 : ka ≠ kzq := by decide
  simp only [hist, members_eq, OMap.run, OMap.step, OMap.set, OMap.lookup, OMap.upsert,
    OMap.parseMembers, OMap.parseMember, e1, e2, Cells.newCell, Cells.autoCell, ne1, ne2, ne3, ne4,
    if_true, if_false, rowQB, vops_import_row]
  rw [env, vops_set_gen _ _ _ rfl]
  rfl

/-! the printer on the final row -/

theorem marshalDyn_num1 (e : Env) (l : Bytes) (h1 : l.isEmpty = false) (h2 : isValidNumber l = true) :
    marshalDyn e (.num l) = .ok l := by
  rw [marshalDyn.eq_def]; simp [h1, h2]

theorem marshalDyn_val (e : Env) (v : Val) : marshalDyn e (.val v) = marshalVal e v := by
  rw [marshalDyn.eq_def]

theorem marshalVal_row (e : Env) (ms : Members) {parts : List Bytes}
    (h : marshalMembers e ms = .ok parts) :
    marshalVal e (.row ms) = .ok (0x7B :: (joinComma parts ++ [0x7D])) :=
  marshalRow_eq e ms h

/-- `{"q":1,"b":2}` -/
def aText : Bytes :=
  0x7B :: (joinComma
    [quote kq ++ 0x3A :: IntText.formatInt 1, quote kb ++ 0x3A :: IntText.formatInt 2] ++ [0x7D])

/-- `{"y":1,"x":[1,{"k":2}]}` -/
def zqText : Bytes :=
  0x7B :: (joinComma
    [quote ky ++ 0x3A :: [0x31],
     quote kx ++ 0x3A :: (0x5B :: (joinComma
        [[0x31], 0x7B :: (joinComma [quote kk ++ 0x3A :: [0x32]] ++ [0x7D])] ++ [0x5D]))]
    ++ [0x7D])

/-- `{"b":"x","a":{"q":1,"b":2},"zq":{"y":1,"x":[1,{"k":2}]}}` -/
def out : Bytes :=
  0x7B :: (joinComma
    [quote kb ++ 0x3A :: quote [0x78], quote ka ++ 0x3A :: aText, quote kzq ++ 0x3A :: zqText]
    ++ [0x7D])

theorem out_bytes : out =
    [0x7B, 0x22, 0x62, 0x22, 0x3A, 0x22, 0x78, 0x22, 0x2C,
     0x22, 0x61, 0x22, 0x3A, 0x7B, 0x22, 0x71, 0x22, 0x3A, 0x31, 0x2C, 0x22, 0x62, 0x22, 0x3A, 0x32, 0x7D,
     0x2C, 0x22, 0x7A, 0x71, 0x22, 0x3A, 0x7B, 0x22, 0x79, 0x22, 0x3A, 0x31, 0x2C, 0x22, 0x78, 0x22,
     0x3A, 0x5B, 0x31, 0x2C, 0x7B, 0x22, 0x6B, 0x22, 0x3A, 0x32, 0x7D, 0x5D, 0x7D, 0x7D] := by
  simp [out, aText, zqText, joinComma, quote, quoteBody, htmlSafe, kzq, ky, kx, kk, ka, kb, kq, IntText.formatInt,
    IntText.natDigits, IntText.digitChar]

theorem marshal_final : marshalRow env (Members.ofList final) = .ok out := by
  have hk : marshalVal env (.row (.cons kk (.cell (.num [0x32]) .auto .none) .nil)) =
      .ok (0x7B :: (joinComma [quote kk ++ 0x3A :: [0x32]] ++ [0x7D])) :=
    marshalVal_row env _ (marshalMembers_cons env _ _ _ (by decide)
      (by rw [marshalVal_auto]; exact marshalDyn_num1 env _ rfl (by decide)) (marshalMembers_nil env))
  have hx : marshalVal env (.cell (.arr (.cons (.num [0x31])
      (.cons (.val (.row (.cons kk (.cell (.num [0x32]) .auto .none) .nil))) .nil))) .auto .none) =
      .ok (0x5B :: (joinComma
            [[0x31], 0x7B :: (joinComma [quote kk ++ 0x3A :: [0x32]] ++ [0x7D])] ++ [0x5D])) := by
    rw [marshalVal_auto]
    exact marshalDyn_arr env _ (marshalList_cons env _ _ (marshalDyn_num1 env _ rfl (by decide))
      (marshalList_cons env _ _ (by rw [marshalDyn_val]; exact hk) (marshalList_nil env)))
  have hzq : marshalVal env (.cell (.val inner) .auto .none) = .ok zqText := by
    rw [marshalVal_auto, marshalDyn_val]
    exact marshalVal_row env _ (marshalMembers_cons env _ _ _ (by decide)
      (by rw [marshalVal_auto]; exact marshalDyn_num1 env _ rfl (by decide))
      (marshalMembers_cons env _ _ _ (by decide) hx (marshalMembers_nil env)))
  have ha : marshalVal env rowQB = .ok aText :=
    marshalVal_row env _ (marshalMembers_cons env _ _ _ (by decide)
      (by rw [one, marshalVal_auto]; exact marshalDyn_int env _ _)
      (marshalMembers_cons env _ _ _ (by decide)
        (by rw [two, marshalVal_auto]; exact marshalDyn_int env _ _) (marshalMembers_nil env)))
  have hb : marshalVal env (.cell (.str [0x78]) .auto .none) = .ok (quote [0x78]) := by
    rw [marshalVal_auto, marshalDyn_str]
  exact marshalRow_eq env _ (marshalMembers_cons env _ _ _ (by decide) hb
    (marshalMembers_cons env _ _ _ (by decide) ha
      (marshalMembers_cons env _ _ _ (by decide) hzq (marshalMembers_nil env))))

theorem floatOK : FloatTextOK env.ext := by
  intro b sz s h; cases h

/-- the names at every depth that the history must produce -/
def skeleton : SkelMembers :=
  .cons kb .leaf
    (.cons ka (.obj (.cons kq .leaf (.cons kb .leaf .nil)))
      (.cons kzq (.obj (.cons ky .leaf
        (.cons kx (.arr (.cons .leaf (.cons (.obj (.cons kk .leaf .nil)) .nil))) .nil))) .nil))

theorem deep_final : deepMembers (Members.ofList final) = skeleton := by
  simp [final, Members.ofList, deepMembers, deepVal, deepDyn, deepList, Cells.format, rowQB, inner,
    one, two, skeleton, san kzq (by decide), san ky (by decide), san kx (by decide),
    san kk (by decide), san ka (by decide), san kb (by decide), san kq (by decide)]

/-- TARGET 4.  From the history to the bytes and back: "b" was set first and replaced later (it
    stays first), "a" holds a row (its keys q, b in ITS order — not sorted), the unmarshal appends
    "zq" (a nested object with an array holding an object) and fails on "a" (a row refuses a
    number) without moving it. -/
theorem end_to_end :
    ∃ bs tree,
      marshalRow env (Members.ofList (entries (LRow.empty.run (vops env) hist))) = .ok bs ∧
      bs = out ∧ Json.unmarshal bs = (tree, true) ∧
      LineSpec.keysOf tree = [kb, ka, kzq] ∧
      skelMembers tree = skeleton ∧
      (LRow.empty.run (vops env) hist).l = [kb, ka, kzq] ∧
      runErrs (vops env) LRow.empty hist = [none, none, none, some .unsupportedImport] := by
  have hm : marshalRow env (Members.ofList (entries (LRow.empty.run (vops env) hist))) = .ok out := by
    rw [entries_is_spec, spec_run]; exact marshal_final
  obtain ⟨t, hu, _, _, hk, _⟩ := serial_follows_iteration env floatOK (vops env) hist out hm
  obtain ⟨t', hu', hs⟩ := serial_deep env floatOK (gen_scalarExport _) (vops env) hist out hm
  have : t' = t := by rw [hu] at hu'; exact (Prod.mk.inj hu').1.symm
  subst this
  refine ⟨out, t', hm, rfl, hu, ?_, ?_, ?_, ?_⟩
  · rw [hk, spec_run]
    simp [final, visibleKeys, Cells.format, rowQB, san kzq (by decide), san ka (by decide),
      san kb (by decide)]
  · rw [hs, spec_run, deep_final]
  · rw [← spec_keys, spec_run]; rfl
  · rw [hist, members_eq]; rfl

end Demo

end Jl.RowSerial
