/-
  Proofs.LineTime — C14 at LINE level: date-time handling on the emitted BYTES.

  C14: "A date-time string with an explicit offset is read as exactly that instant and written back
  with the same instant and the same offset whatever the process time zone; an integer is read as
  Unix seconds; and converting between date-time and timestamp columns preserves the instant
  exactly.  Sub-second digits are dropped, never rounded up, and the result of reading a timestamp as
  a date-time denotes the same instant in every time zone."

  The cell-level statements are in Props/C14 (over Proofs.Time); here they are carried through
  `jlLine` (importer `GetRow`, exporter `CreateRow`, `row.MarshalJSON`) and stated on what the model
  of the reader delivers for the bytes written, over the regenerated cast tables and EVERY `Ext`.

  0.  cell facts about `genTables` (ToTime / ToTimestamp / ToInt64 / cast.To on the values in play)
  1.  one column `k` on both sides, the line's only member being `k`:
        `jlLine_col`                    the line's way through importer and exporter, from 3 cell steps
        `parseRFC3339_asc`              a text the parser accepts is ASCII (the reader keeps it)
        `parsed_domain`                 …and already has year 0..9999 and a whole-minute offset
        `datetime_line_written`, `datetime_line`, `datetime_line_literal`, `datetime_line_accepted`,
        `datetime_line_of_offset`, `datetime_line_zone_independent`                     target 1(a)
        `timestamp_line_written`, `timestamp_line`                                      target 1(b)
        `unix_line_written`, `unix_line`, `unix_line_same_instant`, `unix_line_literal` target 1(c)
  2.  `c14Step`, `c14Trees`, `c14Accepted`, `c14Rejected`, `c14Violation`: the logic of
      `Driver.Line.c14LineViolation`; `datetime_line_oracle`, `timestamp_line_oracle`     target 2
  3.  several columns: `emitted_line_times_pointwise`, `emitted_line_times_same_names` (target 3) and
      `emitted_line_oracle` (targets 2 and 3 together)
  4.  `Demo`: `{"t":"2021-09-24T21:21:00.999+05:30"}` ↦ `{"t":"2021-09-24T21:21:00+05:30"}\n`
      computed end to end (target 4); `offset_bound_needed` (the one hypothesis of 1(a) that is not
      automatic cannot be dropped); a two-column line; `{"t":0}` in a zone at +01:00.

  The input line is given by what the reader delivers for it
  (`Json.unmarshal line = (.cons k (.str s) .nil, true)`: any spelling of the one-member object);
  `lineOfStr` / `lineOfInt` are the literal spellings `{"k":"s"}` / `{"k":n}`, for which that
  hypothesis is proved.
-/
import Proofs.TimeShape
import Proofs.LineKeys
import Proofs.LineLevel
import Proofs.Order
import Proofs.JsonPrint
import Proofs.Time
import Proofs.CastTyped
import Proofs.CastInt

namespace Jl.LineTime
open Jl Jl.Value Jl.Template Jl.Cast Jl.CastTyped
open Jl.JsonQuote (sanitize)
open Jl.JsonPrint (treeDyn treeVal treeMembers treeExported numText FloatTextOK)
open Jl.IntText

set_option linter.unusedSimpArgs false

/-! ### 0. Cell-level facts about the regenerated tables -/

theorem toTime_of_string (ext : Ext) (s : Bytes) (t : GoTime) (h : Time.parseRFC3339 s = some t) :
    castNamed genTables ext "ToTime" (.str s) = .ok (.time t) := by
  simp [castNamed, callNamed, genTables, Gen.casters, findClause, typeOf, evalBranch, special,
    Gen.timeStringFormat, h]

theorem toTime23_of_string (ext : Ext) (s : Bytes) (t : GoTime) (h : Time.parseRFC3339 s = some t) :
    callNamed genTables ext 23 "ToTime" (.str s) = .ok (.time t) := by
  simp [callNamed, genTables, Gen.casters, findClause, typeOf, evalBranch, special,
    Gen.timeStringFormat, h]

theorem toTime23_nil (ext : Ext) : callNamed genTables ext 23 "ToTime" .nil = .ok .nil := by
  rw [show (23 : Nat) = 22 + 1 from rfl, TimeShape.toTime_call]
  simp [typeOf, TimeShape.toTimeBranch, evalBranch, evalE]

theorem toTime23_time (ext : Ext) (t : GoTime) :
    callNamed genTables ext 23 "ToTime" (.time t) = .ok (.time t) := by
  rw [show (23 : Nat) = 22 + 1 from rfl, TimeShape.toTime_call]
  simp [typeOf, TimeShape.toTimeBranch, evalBranch, evalE]

theorem timestamp_of_time (ext : Ext) (t : GoTime) :
    castNamed genTables ext "ToTimestamp" (.time t) = .ok (.int .i64 t.sec) := by
  simp [castNamed, callNamed, genTables, Gen.casters, findClause, typeOf, evalBranch, evalE]

theorem castTo_i64_nil (ext : Ext) : castTo genTables ext (.int .i64) .nil = .ok .nil := by
  simp [castTo, callNamed, genTables, Gen.dispatchTo, Gen.casters, findClause, typeOf, evalBranch, evalE]

theorem castTo_i64_time (ext : Ext) (t : GoTime) :
    castTo genTables ext (.int .i64) (.time t) = .err .cast := by
  simp [castTo, callNamed, genTables, Gen.dispatchTo, Gen.casters, findClause, typeOf, evalBranch, evalE,
    failWith, Gen.sentinels, wrapsRoot]


/-! ### 1. One column: the line's way through importer and exporter, computed -/

/-- The (format, raw type) descriptors of a date-time column in target 1. -/
def IsDT (f : Format) (ty : Ty) : Prop := f = .datetime ∧ (ty = .none ∨ ty = .time)

/-- The descriptors of a timestamp column on the output side in target 1(b). -/
def IsTS (f : Format) (ty : Ty) : Prop := f = .timestamp ∧ (ty = .none ∨ ty = .int .i64)

theorem withCol_nil (k : Bytes) (f : Format) (ty : Ty) :
    withCol [] k f ty = [(k, .cell .nil f ty)] := rfl

/-- `cast.To(T, nil) = nil` for the raw types in play. -/
def NilTy (ty : Ty) : Prop := ty = .none ∨ ty = .time ∨ ty = .int .i64

theorem castTo_nil (ext : Ext) {ty : Ty} (h : NilTy ty) : castTo genTables ext ty .nil = .ok .nil := by
  rcases h with rfl | rfl | rfl
  · exact gen_castTo_none ext _
  · rw [LineLevel.castTo_time, toTime23_nil]
  · exact castTo_i64_nil ext

theorem cloneRow_col (ext : Ext) (k : Bytes) (f : Format) {ty : Ty} (h : NilTy ty) :
    cloneRow ⟨genTables, ext⟩ [(k, .cell .nil f ty)] = .ok [(k, .cell .nil f ty)] := by
  simp [cloneRow, cloneInto, cloneValue, newValue, Cells.raw, Cells.format, Cells.rawType,
    castTo_nil ext h, upsert, OMap.upsert]

/-- `GetRow` on a one-member line under a one-column template, given what `Import` makes of the
    member's value. -/
theorem getRow_col (ext : Ext) (k : Bytes) (f : Format) {ty : Ty} (hty : NilTy ty) (line : Bytes)
    (jv : JV) (x : Dyn) (c : Val)
    (hline : Json.unmarshal line = (.cons k jv .nil, true))
    (hjv : ofJV ⟨genTables, ext⟩ jv = .ok x)
    (himp : importCell ⟨genTables, ext⟩ f ty x = .ok (c, none)) :
    getRow ⟨genTables, ext⟩ [(k, .cell .nil f ty)] line = .ok ([(k, c)], none) := by
  simp [getRow, createRowEmpty, cloneRow_col ext k f hty, unmarshalInto, hline, ofJVMembers, hjv,
    parseMembers, parseMember, lookup, OMap.lookup, importVal, importInto, himp, upsert, OMap.upsert]

/-- `CreateRow` given a one-cell row under a one-column template of the same name. -/
theorem createRow_col (ext : Ext) (k : Bytes) (f : Format) {ty : Ty} (hty : NilTy ty)
    (c c' : Val) (hnew : newValue ⟨genTables, ext⟩ (Cells.raw c) f ty = .ok c') :
    createRow ⟨genTables, ext⟩ [(k, .cell .nil f ty)] (.val (.row (Members.ofList [(k, c)]))) =
      .ok ([(k, c')], none) := by
  simp [createRow, cloneRow_col ext k f hty, fillPairs, fill, lookup, OMap.lookup, Cells.format,
    Cells.rawType, hnew, upsert, OMap.upsert]


/-- The text of a one-member object `{"k":txt}` as the printer writes it. -/
def objText (k txt : Bytes) : Bytes :=
  0x7B :: (RowPrint.joinComma [JsonWrite.quote k ++ 0x3A :: txt] ++ [0x7D])

theorem marshalRow_col (env : Env) (k : Bytes) (c : Val) (txt : Bytes)
    (hvis : Cells.format c ≠ .hidden) (hm : RowPrint.marshalVal env c = .ok txt) :
    RowPrint.marshalRow env (Members.ofList [(k, c)]) = .ok (objText k txt) :=
  JsonPrint.marshalRow_eq env _
    (JsonPrint.marshalMembers_cons env _ _ _ hvis hm (JsonPrint.marshalMembers_nil env))

/-- One line through `jlLine` for one-column templates of the same name, from the three cell
    steps: `Import`, `NewValue` on the exporter side, `MarshalJSON` of the cell. -/
theorem jlLine_col (ext : Ext) (k : Bytes) (fi fo : Format) {tyi tyo : Ty} (hi : NilTy tyi)
    (ho : NilTy tyo) (line : Bytes) (jv : JV) (x : Dyn) (c c' : Val) (txt : Bytes)
    (hline : Json.unmarshal line = (.cons k jv .nil, true))
    (hjv : ofJV ⟨genTables, ext⟩ jv = .ok x)
    (himp : importCell ⟨genTables, ext⟩ fi tyi x = .ok (c, none))
    (hnew : newValue ⟨genTables, ext⟩ (Cells.raw c) fo tyo = .ok c')
    (hvis : Cells.format c' ≠ .hidden)
    (hm : RowPrint.marshalVal ⟨genTables, ext⟩ c' = .ok txt) :
    jlLine ⟨genTables, ext⟩ (withCol [] k fi tyi) (withCol [] k fo tyo) line =
      .ok (objText k txt ++ [0x0A], none) := by
  simp only [withCol_nil, jlLine, getRow_col ext k fi hi line jv x c hline hjv himp, exportLine,
    createRow_col ext k fo ho c c' hnew, marshalRow_col _ k c' txt hvis hm]

/-! #### The cell steps for a date-time string -/

theorem import_datetime_string (ext : Ext) {tyi : Ty} (hty : tyi = .none ∨ tyi = .time) (s : Bytes)
    (t : GoTime) (h : Time.parseRFC3339 s = some t) :
    importCell ⟨genTables, ext⟩ .datetime tyi (.str s) = .ok (.cell (.time t) .datetime tyi, none) := by
  rcases hty with rfl | rfl
  · simp [importCell, importByFormat, importFrom, importFail, toTime_of_string ext s t h]
  · simp [importCell, importByFormat, importFrom, importFail, LineLevel.castTo_time,
      toTime23_of_string ext s t h]

theorem newValue_time (ext : Ext) (f : Format) {ty : Ty} (hty : NilTy ty) (t : GoTime) :
    newValue ⟨genTables, ext⟩ (.time t) f ty = .ok (.cell (.time t) f ty) := by
  rcases hty with rfl | rfl | rfl
  · simp [newValue, gen_castTo_none]
  · simp [newValue, LineLevel.castTo_time, toTime23_time]
  · simp [newValue, castTo_i64_time]

theorem export_timestamp_time (ext : Ext) (t : GoTime) (ty : Ty) :
    exportVal ⟨genTables, ext⟩ (.cell (.time t) .timestamp ty) = .ok (.int .i64 t.sec) := by
  simp [exportVal, timestamp_of_time, exportFail]

theorem marshal_datetime_time (ext : Ext) (t : GoTime) (ty : Ty)
    (h0 : 0 ≤ Time.year t) (h1 : Time.year t ≤ 9999) :
    RowPrint.marshalVal ⟨genTables, ext⟩ (.cell (.time t) .datetime ty) =
      .ok (JsonWrite.quote (Time.formatRFC3339 t)) := by
  rw [RowPrint.marshalVal.eq_def]
  simp only [TimeShape.datetime_column_of_time ext t ty h0 h1]
  rw [RowPrint.marshalExported.eq_def]

theorem marshal_timestamp_time (ext : Ext) (t : GoTime) (ty : Ty) :
    RowPrint.marshalVal ⟨genTables, ext⟩ (.cell (.time t) .timestamp ty) =
      .ok (formatInt t.sec) := by
  rw [RowPrint.marshalVal.eq_def]
  simp only [export_timestamp_time ext t ty]
  rw [RowPrint.marshalExported.eq_def]


/-! #### A text the RFC 3339 parser accepts is ASCII (so the reader delivers it unchanged) -/

def Asc (s : Bytes) : Prop := ∀ b ∈ s, b < 0x80

theorem asc_nil : Asc [] := fun _ h => by cases h

theorem asc_cons {c : UInt8} {s : Bytes} (hc : c < 0x80) (hs : Asc s) : Asc (c :: s) := by
  intro b hb
  rcases List.mem_cons.1 hb with rfl | hb
  · exact hc
  · exact hs b hb

theorem asc_append {s t : Bytes} (hs : Asc s) (ht : Asc t) : Asc (s ++ t) := by
  intro b hb
  rcases List.mem_append.1 hb with hb | hb
  · exact hs b hb
  · exact ht b hb

theorem asc_digit {c : UInt8} (h : Time.isDigit c = true) : c < 0x80 :=
  LineLevel.digit_ascii (c := c) h

theorem num12_some {s : Bytes} {n : Nat} {r : Bytes} (h : Time.num12 s = some (n, r)) :
    ∃ pre, s = pre ++ r ∧ Asc pre := by
  unfold Time.num12 at h
  split at h
  · rename_i a b rest
    split at h
    · rename_i ha
      split at h
      · rename_i hb
        simp only [Option.some.injEq, Prod.mk.injEq] at h
        obtain ⟨_, rfl⟩ := h
        exact ⟨[a, b], rfl, asc_cons (asc_digit ha) (asc_cons (asc_digit hb) asc_nil)⟩
      · simp only [Option.some.injEq, Prod.mk.injEq] at h
        obtain ⟨_, rfl⟩ := h
        exact ⟨[a], rfl, asc_cons (asc_digit ha) asc_nil⟩
    · cases h
  · rename_i a
    split at h
    · rename_i ha
      simp only [Option.some.injEq, Prod.mk.injEq] at h
      obtain ⟨_, rfl⟩ := h
      exact ⟨[a], rfl, asc_cons (asc_digit ha) asc_nil⟩
    · cases h
  · cases h

theorem num2_asc {s : Bytes} {n : Nat} {r : Bytes} (h : Time.num2 s = some (n, r)) :
    ∃ pre, s = pre ++ r ∧ Asc pre := by
  obtain ⟨a, b, rfl, ha, hb⟩ := TimeShape.num2_some h
  exact ⟨[a, b], rfl, asc_cons (asc_digit ha) (asc_cons (asc_digit hb) asc_nil)⟩

theorem parseHead_asc {s : Bytes} {f : Time.Fields} {r : Bytes}
    (h : Time.parseHead s = some (f, r)) : ∃ pre, s = pre ++ r ∧ Asc pre := by
  unfold Time.parseHead at h
  simp only [Option.bind_eq_bind] at h
  cases h1 : Time.parseDatePart s with
  | none => simp [h1] at h
  | some p1 =>
    obtain ⟨y, m, d, s1⟩ := p1
    obtain ⟨dt, rfl, hdt⟩ := TimeShape.parseDatePart_some h1
    simp only [h1, Option.bind_some] at h
    cases h2 : Time.expect 0x54 s1 with
    | none => simp [h2] at h
    | some s2 =>
      have e2 := TimeShape.expect_some h2
      subst e2
      simp only [h2, Option.bind_some] at h
      cases h3 : Time.num12 s2 with
      | none => simp [h3] at h
      | some p3 =>
        obtain ⟨hh, s3⟩ := p3
        obtain ⟨pre3, rfl, a3⟩ := num12_some h3
        simp only [h3, Option.bind_some] at h
        cases h4 : Time.expect 0x3A s3 with
        | none => simp [h4] at h
        | some s4 =>
          have e4 := TimeShape.expect_some h4
          subst e4
          simp only [h4, Option.bind_some] at h
          cases h5 : Time.num2 s4 with
          | none => simp [h5] at h
          | some p5 =>
            obtain ⟨mi, s5⟩ := p5
            obtain ⟨pre5, rfl, a5⟩ := num2_asc h5
            simp only [h5, Option.bind_some] at h
            cases h6 : Time.expect 0x3A s5 with
            | none => simp [h6] at h
            | some s6 =>
              have e6 := TimeShape.expect_some h6
              subst e6
              simp only [h6, Option.bind_some] at h
              cases h7 : Time.num2 s6 with
              | none => simp [h7] at h
              | some p7 =>
                obtain ⟨ss, s7⟩ := p7
                obtain ⟨pre7, rfl, a7⟩ := num2_asc h7
                simp only [h7, Option.bind_some, Option.some.injEq, Prod.mk.injEq] at h
                obtain ⟨_, rfl⟩ := h
                refine ⟨dt ++ (0x54 :: (pre3 ++ (0x3A :: (pre5 ++ (0x3A :: pre7))))), by simp, ?_⟩
                exact asc_append (LineLevel.isDateText_ascii hdt)
                  (asc_cons (by decide) (asc_append a3 (asc_cons (by decide)
                    (asc_append a5 (asc_cons (by decide) a7)))))

theorem parseZone_asc {z : Bytes} {off : Int} (h : Time.parseZone z = some (off, [])) : Asc z := by
  unfold Time.parseZone at h
  split at h
  · simp only [Option.some.injEq, Prod.mk.injEq] at h
    obtain ⟨_, rfl⟩ := h
    exact asc_cons (by decide) asc_nil
  · rename_i sign h1 h2 colon m1 m2 rest _
    split at h
    · cases h
    · rename_i hcol
      split at h
      · cases h
      · rename_i hdig
        simp only [Bool.not_eq_true', Bool.not_eq_false, Bool.and_eq_true] at hdig
        have hc : colon = 0x3A := by simpa using hcol
        simp only at h
        split at h
        · cases h
        · split at h
          · rename_i hs
            simp only [Option.some.injEq, Prod.mk.injEq] at h
            obtain ⟨_, rfl⟩ := h
            have : sign = 0x2B := by simpa using hs
            subst this hc
            exact asc_cons (by decide) (asc_cons (asc_digit hdig.1.1.1) (asc_cons (asc_digit hdig.1.1.2)
              (asc_cons (by decide) (asc_cons (asc_digit hdig.1.2) (asc_cons (asc_digit hdig.2) asc_nil)))))
          · split at h
            · rename_i hs
              simp only [Option.some.injEq, Prod.mk.injEq] at h
              obtain ⟨_, rfl⟩ := h
              have : sign = 0x2D := by simpa using hs
              subst this hc
              exact asc_cons (by decide) (asc_cons (asc_digit hdig.1.1.1) (asc_cons (asc_digit hdig.1.1.2)
                (asc_cons (by decide) (asc_cons (asc_digit hdig.1.2) (asc_cons (asc_digit hdig.2) asc_nil)))))
            · cases h
  · cases h

theorem parseFrac_asc {s : Bytes} (h : Asc (Time.parseFrac s).2) : Asc s := by
  unfold Time.parseFrac at h
  split at h
  · rename_i p d rest
    split at h
    · rename_i hc
      simp only [Bool.and_eq_true, Bool.or_eq_true, beq_iff_eq] at hc
      simp only at h
      have hp : p < 0x80 := by rcases hc.1 with rfl | rfl <;> decide
      exact asc_cons hp (LineLevel.dropWhile_digit_ascii (d :: rest) h)
    · exact h
  · exact h

/-- Every byte of a text accepted by `time.Parse(time.RFC3339, ·)` is ASCII. -/
theorem parseRFC3339_asc {s : Bytes} {t : GoTime} (h : Time.parseRFC3339 s = some t) : Asc s := by
  rw [Time.parseRFC3339_eq] at h
  cases hh : Time.parseHead s with
  | none => simp [hh] at h
  | some p =>
    obtain ⟨f, rest⟩ := p
    obtain ⟨pre, rfl, hpre⟩ := parseHead_asc hh
    refine asc_append hpre (parseFrac_asc ?_)
    obtain ⟨y, m, d, hh', mi, ss⟩ := f
    simp only [hh, Option.bind_some, Time.parseTail] at h
    split at h
    · cases h
    · rename_i off r hz
      split at h
      · cases h
      · rename_i hr
        have : r = [] := by simpa using hr
        subst this
        exact parseZone_asc hz

theorem sanitize_parsed {s : Bytes} {t : GoTime} (h : Time.parseRFC3339 s = some t) :
    sanitize s = s :=
  JsonPrint.sanitize_of_ascii s (parseRFC3339_asc h)


/-! #### What the parser accepts is already in most of the domain

  The hypotheses "year in 0..9999" and "whole-minute offset" of the cell theorems hold of EVERY time
  the RFC 3339 parser delivers (four year digits; `±hh:mm`).  Only "offset below 24 h" is a genuine
  restriction: the parser takes `+24:60` (25 h), which `Format` writes as `+25:00`, which the parser
  refuses. -/

theorem num4_lt {s : Bytes} {n : Nat} {r : Bytes} (h : Time.num4 s = some (n, r)) : n < 10000 := by
  unfold Time.num4 at h
  split at h
  · rename_i a b c d rest
    split at h
    · rename_i hd
      simp only [Bool.and_eq_true] at hd
      simp only [Option.some.injEq, Prod.mk.injEq] at h
      have h1 := Time.dval_le hd.1.1.1
      have h2 := Time.dval_le hd.1.1.2
      have h3 := Time.dval_le hd.1.2
      have h4 := Time.dval_le hd.2
      omega
    · cases h
  · cases h

theorem parseDatePart_valid {s : Bytes} {y : Int} {m d : Nat} {r : Bytes}
    (h : Time.parseDatePart s = some (y, m, d, r)) :
    0 ≤ y ∧ y ≤ 9999 ∧ Time.ValidDate y m d := by
  unfold Time.parseDatePart at h
  simp only [Option.bind_eq_bind] at h
  cases h4 : Time.num4 s with
  | none => simp [h4] at h
  | some p4 =>
    obtain ⟨yy, s1⟩ := p4
    have hyy := num4_lt h4
    simp only [h4, Option.bind_some] at h
    cases he1 : Time.expect 0x2D s1 with
    | none => simp [he1] at h
    | some s2 =>
      simp only [he1, Option.bind_some] at h
      cases hm : Time.num2 s2 with
      | none => simp [hm] at h
      | some pm =>
        obtain ⟨mm, s3⟩ := pm
        simp only [hm, Option.bind_some] at h
        cases he2 : Time.expect 0x2D s3 with
        | none => simp [he2] at h
        | some s4 =>
          simp only [he2, Option.bind_some] at h
          cases hdd : Time.num2 s4 with
          | none => simp [hdd] at h
          | some pd =>
            obtain ⟨dd, s5⟩ := pd
            simp only [hdd, Option.bind_some] at h
            split at h
            · cases h
            · rename_i hc1
              split at h
              · cases h
              · rename_i hc2
                simp only [Option.some.injEq, Prod.mk.injEq] at h
                obtain ⟨rfl, rfl, rfl, _⟩ := h
                simp only [Bool.or_eq_true, decide_eq_true_eq, not_or, Nat.not_lt] at hc1 hc2
                refine ⟨by omega, by omega, ?_⟩
                unfold Time.ValidDate
                omega

theorem parseHead_date {s : Bytes} {y : Int} {m d hh mi ss : Nat} {r : Bytes}
    (h : Time.parseHead s = some ((y, m, d, hh, mi, ss), r)) :
    ∃ s1, Time.parseDatePart s = some (y, m, d, s1) := by
  unfold Time.parseHead at h
  simp only [Option.bind_eq_bind] at h
  cases h1 : Time.parseDatePart s with
  | none => simp [h1] at h
  | some p1 =>
    obtain ⟨y', m', d', s1⟩ := p1
    simp only [h1, Option.bind_some] at h
    cases h2 : Time.expect 0x54 s1 with
    | none => simp [h2] at h
    | some s2 =>
      simp only [h2, Option.bind_some] at h
      cases h3 : Time.num12 s2 with
      | none => simp [h3] at h
      | some p3 =>
        obtain ⟨hh', s3⟩ := p3
        simp only [h3, Option.bind_some] at h
        cases h4 : Time.expect 0x3A s3 with
        | none => simp [h4] at h
        | some s4 =>
          simp only [h4, Option.bind_some] at h
          cases h5 : Time.num2 s4 with
          | none => simp [h5] at h
          | some p5 =>
            obtain ⟨mi', s5⟩ := p5
            simp only [h5, Option.bind_some] at h
            cases h6 : Time.expect 0x3A s5 with
            | none => simp [h6] at h
            | some s6 =>
              simp only [h6, Option.bind_some] at h
              cases h7 : Time.num2 s6 with
              | none => simp [h7] at h
              | some p7 =>
                obtain ⟨ss', s7⟩ := p7
                simp only [h7, Option.bind_some, Option.some.injEq, Prod.mk.injEq] at h
                obtain ⟨⟨rfl, rfl, rfl, _⟩, _⟩ := h
                exact ⟨s1, rfl⟩

theorem parseZone_minutes {z : Bytes} {off : Int} {r : Bytes}
    (h : Time.parseZone z = some (off, r)) : off % 60 = 0 := by
  unfold Time.parseZone at h
  split at h
  · simp only [Option.some.injEq, Prod.mk.injEq] at h
    obtain ⟨rfl, _⟩ := h
    decide
  · split at h
    · cases h
    · split at h
      · cases h
      · simp only at h
        split at h
        · cases h
        · split at h
          · simp only [Option.some.injEq, Prod.mk.injEq] at h
            obtain ⟨rfl, _⟩ := h
            omega
          · split at h
            · simp only [Option.some.injEq, Prod.mk.injEq] at h
              obtain ⟨rfl, _⟩ := h
              omega
            · cases h
  · cases h

/-- Every time the parser delivers has its year (at its own offset) in 0..9999 and a whole-minute
    offset (of at most 25 h: `TimeShape.parseRFC3339_off`). -/
theorem parsed_domain {s : Bytes} {t : GoTime} (h : Time.parseRFC3339 s = some t) :
    0 ≤ Time.year t ∧ Time.year t ≤ 9999 ∧ t.off % 60 = 0 := by
  rw [Time.parseRFC3339_eq] at h
  cases hh : Time.parseHead s with
  | none => simp [hh] at h
  | some p =>
    obtain ⟨⟨y, m, d, hh', mi, ss⟩, rest⟩ := p
    obtain ⟨s1, hd⟩ := parseHead_date hh
    obtain ⟨hy0, hy1, hv⟩ := parseDatePart_valid hd
    simp only [hh, Option.bind_some, Time.parseTail] at h
    split at h
    · cases h
    · rename_i off r hz
      split at h
      · cases h
      · split at h
        · cases h
        · rename_i hc
          simp only [Bool.or_eq_true, decide_eq_true_eq, not_or, Nat.not_le] at hc
          simp only [Option.some.injEq] at h
          subst h
          have hc' := Time.civilOf_seconds (y := y) (m := m) (d := d) (Time.parseFrac rest).1 off hv
            hc.1.1 hc.1.2 hc.2
          refine ⟨?_, ?_, parseZone_minutes hz⟩
          · unfold Time.year; rw [hc']; exact hy0
          · unfold Time.year; rw [hc']; exact hy1

/-! #### The reader's side -/

theorem unmarshal_objText {k txt : Bytes} {v : JV} (h : JsonPrint.ReadsAs txt v) :
    Json.unmarshal (objText k txt) = (.cons (sanitize k) v .nil, true) :=
  JsonPrint.unmarshal_object (.cons h .nil)

theorem asc_of_allSafe {s : Bytes} (h : JsonPrint.AllSafe s) : Asc s :=
  fun b hb => JsonPrint.htmlSafe_lt (h b hb)

theorem allSafe_formatRFC3339 (t : GoTime) : JsonPrint.AllSafe (Time.formatRFC3339 t) := by
  have c1 : ∀ c : UInt8, JsonWrite.htmlSafe c = true → JsonPrint.AllSafe [c] :=
    fun c hc => JsonPrint.allSafe_cons hc JsonPrint.allSafe_nil
  open JsonPrint in
  exact allSafe_append (allSafe_append (allSafe_append (allSafe_append (allSafe_append
    (allSafe_append (allSafe_append (allSafe_formatDate t) (c1 _ (by decide)))
    (allSafe_pad _ _)) (c1 _ (by decide))) (allSafe_pad _ _)) (c1 _ (by decide)))
    (allSafe_pad _ _)) (allSafe_formatZone _)

theorem sanitize_formatRFC3339 (t : GoTime) :
    sanitize (Time.formatRFC3339 t) = Time.formatRFC3339 t :=
  JsonPrint.sanitize_of_ascii _ (asc_of_allSafe (allSafe_formatRFC3339 t))

theorem lookupJV_single (k : Bytes) (v : JV) : LineSpec.lookupJV (.cons k v .nil) k = some v := by
  rw [LineLevel.lookupJV_cons, if_pos rfl]

/-- What the reader delivers for the printed one-member object with a date-time text. -/
theorem unmarshal_datetime_out {k : Bytes} (hk : sanitize k = k) (t : GoTime) :
    Json.unmarshal (objText k (JsonWrite.quote (Time.formatRFC3339 t))) =
      (.cons k (.str (Time.formatRFC3339 t)) .nil, true) := by
  rw [unmarshal_objText (JsonPrint.readsAs_quote _), hk, sanitize_formatRFC3339]

/-- …and with an integer literal. -/
theorem unmarshal_int_out {k : Bytes} (hk : sanitize k = k) (n : Int) :
    Json.unmarshal (objText k (formatInt n)) = (.cons k (.num (formatInt n)) .nil, true) := by
  rw [unmarshal_objText (JsonPrint.readsAs_number (isValidNumber_formatInt n)), hk]

/-- The input line `{"k":"s"}` written literally (the name and the text between quotes, with Go's
    escaping — none is needed for an RFC 3339 text). -/
def lineOfStr (k s : Bytes) : Bytes := objText k (JsonWrite.quote s)

/-- The input line `{"k":n}`. -/
def lineOfInt (k : Bytes) (n : Int) : Bytes := objText k (formatInt n)

theorem unmarshal_lineOfStr {k s : Bytes} {t : GoTime} (hk : sanitize k = k)
    (hp : Time.parseRFC3339 s = some t) :
    Json.unmarshal (lineOfStr k s) = (.cons k (.str s) .nil, true) := by
  rw [lineOfStr, unmarshal_objText (JsonPrint.readsAs_quote _), hk, sanitize_parsed hp]

theorem unmarshal_lineOfInt {k : Bytes} (hk : sanitize k = k) (n : Int) :
    Json.unmarshal (lineOfInt k n) = (.cons k (.num (formatInt n)) .nil, true) :=
  unmarshal_int_out hk n

/-! ### Target 1(a): date-time in, date-time out -/

/-- The line IS accepted, for every `ext`, and what is written is exactly `{"k":"<text>"}` and a
    newline, `<text>` the RFC 3339 rendering of the instant read at the offset read.  Only the year
    range is needed here (outside it `ToString` refuses the time). -/
theorem datetime_line_written (ext : Ext) (k : Bytes) {fi fo : Format} {tyi tyo : Ty}
    (hi : IsDT fi tyi) (ho : IsDT fo tyo) (line s : Bytes) (t : GoTime)
    (hline : Json.unmarshal line = (.cons k (.str s) .nil, true))
    (hp : Time.parseRFC3339 s = some t) (hy0 : 0 ≤ Time.year t) (hy1 : Time.year t ≤ 9999) :
    jlLine ⟨genTables, ext⟩ (withCol [] k fi tyi) (withCol [] k fo tyo) line =
      .ok (objText k (JsonWrite.quote (Time.formatRFC3339 t)) ++ [0x0A], none) := by
  obtain ⟨rfl, hti⟩ := hi
  obtain ⟨rfl, hto⟩ := ho
  have hni : NilTy tyi := by rcases hti with h | h <;> simp [NilTy, h]
  have hno : NilTy tyo := by rcases hto with h | h <;> simp [NilTy, h]
  exact jlLine_col ext k .datetime .datetime hni hno line (.str s) (.str s) _ _ _ hline
    (by rw [ofJV]) (import_datetime_string ext hti s t hp) (newValue_time ext .datetime hno t)
    (by simp [Cells.format]) (marshal_datetime_time ext t tyo hy0 hy1)

/-- **Target 1(a).**  One date-time column `k` on both sides (raw type none or `time.Time`), an
    input line whose only member is `k` with an RFC 3339 text `s` denoting `t` (year 0..9999,
    whole-minute offset below 24 h): for EVERY `ext` (no hypothesis on the process zone) the line is
    accepted, and whatever `jlLine` wrote is an object text and a newline whose member `k`, as the
    reader delivers it, is a string that parses to the same instant and the same offset, with no
    sub-second part. -/
theorem datetime_line (ext : Ext) (k : Bytes) (hk : sanitize k = k) {fi fo : Format} {tyi tyo : Ty}
    (hi : IsDT fi tyi) (ho : IsDT fo tyo) (line s : Bytes) (t : GoTime)
    (hline : Json.unmarshal line = (.cons k (.str s) .nil, true))
    (hp : Time.parseRFC3339 s = some t) (hy0 : 0 ≤ Time.year t) (hy1 : Time.year t ≤ 9999)
    (h60 : t.off % 60 = 0) (hlo : -86400 < t.off) (hhi : t.off < 86400) :
    (∃ b, jlLine ⟨genTables, ext⟩ (withCol [] k fi tyi) (withCol [] k fo tyo) line = .ok (b, none)) ∧
    ∀ b, jlLine ⟨genTables, ext⟩ (withCol [] k fi tyi) (withCol [] k fo tyo) line = .ok (b, none) →
      ∃ body tree, b = body ++ [0x0A] ∧ Json.unmarshal body = (tree, true) ∧
        ∃ s', LineSpec.lookupJV tree k = some (.str s') ∧
          ∃ t', Time.parseRFC3339 s' = some t' ∧ t'.sec = t.sec ∧ t'.off = t.off ∧ t'.nsec = 0 := by
  have hw := datetime_line_written ext k hi ho line s t hline hp hy0 hy1
  refine ⟨⟨_, hw⟩, ?_⟩
  intro b hb
  rw [hw] at hb
  simp only [Outcome.ok.injEq, Prod.mk.injEq, and_true] at hb
  subst hb
  exact ⟨_, _, rfl, unmarshal_datetime_out hk t, _, lookupJV_single _ _, _,
    Time.C14_parse_format t hy0 hy1 h60 hlo hhi, rfl, rfl, rfl⟩

/-- 1(a) for the input line written literally as `{"k":"s"}`. -/
theorem datetime_line_literal (ext : Ext) (k : Bytes) (hk : sanitize k = k) {fi fo : Format}
    {tyi tyo : Ty} (hi : IsDT fi tyi) (ho : IsDT fo tyo) (s : Bytes) (t : GoTime)
    (hp : Time.parseRFC3339 s = some t) (hy0 : 0 ≤ Time.year t) (hy1 : Time.year t ≤ 9999)
    (h60 : t.off % 60 = 0) (hlo : -86400 < t.off) (hhi : t.off < 86400) :
    ∃ body tree s' t',
      jlLine ⟨genTables, ext⟩ (withCol [] k fi tyi) (withCol [] k fo tyo) (lineOfStr k s) =
        .ok (body ++ [0x0A], none) ∧
      Json.unmarshal body = (tree, true) ∧ LineSpec.lookupJV tree k = some (.str s') ∧
      Time.parseRFC3339 s' = some t' ∧ t'.sec = t.sec ∧ t'.off = t.off ∧ t'.nsec = 0 := by
  obtain ⟨⟨b, hb⟩, hall⟩ := datetime_line ext k hk hi ho (lineOfStr k s) s t
    (unmarshal_lineOfStr hk hp) hp hy0 hy1 h60 hlo hhi
  obtain ⟨body, tree, rfl, hu, s', hl, t', ht', h1, h2, h3⟩ := hall b hb
  exact ⟨body, tree, s', t', hb, hu, hl, ht', h1, h2, h3⟩

/-- The same text is written whatever the process time zone. -/
theorem datetime_line_zone_independent (ext₁ ext₂ : Ext) (k : Bytes) {fi fo : Format} {tyi tyo : Ty}
    (hi : IsDT fi tyi) (ho : IsDT fo tyo) (line s : Bytes) (t : GoTime)
    (hline : Json.unmarshal line = (.cons k (.str s) .nil, true))
    (hp : Time.parseRFC3339 s = some t) (hy0 : 0 ≤ Time.year t) (hy1 : Time.year t ≤ 9999) :
    jlLine ⟨genTables, ext₁⟩ (withCol [] k fi tyi) (withCol [] k fo tyo) line =
      jlLine ⟨genTables, ext₂⟩ (withCol [] k fi tyi) (withCol [] k fo tyo) line := by
  rw [datetime_line_written ext₁ k hi ho line s t hline hp hy0 hy1,
    datetime_line_written ext₂ k hi ho line s t hline hp hy0 hy1]

/-- 1(a), acceptance with NO domain hypothesis: every text the RFC 3339 parser accepts is accepted by
    the line and written back, for every `ext` (`parsed_domain` supplies the year range). -/
theorem datetime_line_accepted (ext : Ext) (k : Bytes) {fi fo : Format} {tyi tyo : Ty}
    (hi : IsDT fi tyi) (ho : IsDT fo tyo) (line s : Bytes) (t : GoTime)
    (hline : Json.unmarshal line = (.cons k (.str s) .nil, true))
    (hp : Time.parseRFC3339 s = some t) :
    jlLine ⟨genTables, ext⟩ (withCol [] k fi tyi) (withCol [] k fo tyo) line =
      .ok (objText k (JsonWrite.quote (Time.formatRFC3339 t)) ++ [0x0A], none) :=
  datetime_line_written ext k hi ho line s t hline hp (parsed_domain hp).1 (parsed_domain hp).2.1

/-- 1(a) with the only hypothesis that is not automatic: the offset read is below 24 h. -/
theorem datetime_line_of_offset (ext : Ext) (k : Bytes) (hk : sanitize k = k) {fi fo : Format}
    {tyi tyo : Ty} (hi : IsDT fi tyi) (ho : IsDT fo tyo) (line s : Bytes) (t : GoTime)
    (hline : Json.unmarshal line = (.cons k (.str s) .nil, true))
    (hp : Time.parseRFC3339 s = some t) (hlo : -86400 < t.off) (hhi : t.off < 86400) :
    (∃ b, jlLine ⟨genTables, ext⟩ (withCol [] k fi tyi) (withCol [] k fo tyo) line = .ok (b, none)) ∧
    ∀ b, jlLine ⟨genTables, ext⟩ (withCol [] k fi tyi) (withCol [] k fo tyo) line = .ok (b, none) →
      ∃ body tree, b = body ++ [0x0A] ∧ Json.unmarshal body = (tree, true) ∧
        ∃ s', LineSpec.lookupJV tree k = some (.str s') ∧
          ∃ t', Time.parseRFC3339 s' = some t' ∧ t'.sec = t.sec ∧ t'.off = t.off ∧ t'.nsec = 0 :=
  datetime_line ext k hk hi ho line s t hline hp (parsed_domain hp).1 (parsed_domain hp).2.1
    (parsed_domain hp).2.2 hlo hhi

/-- **Sub-second digits are dropped, never rounded up — on the bytes.**  The RFC 3339 text of `t`
    with a fraction of any length (after `.` or `,`) put behind the seconds is written back exactly
    as the text of `t` without it: the same second, whatever the digits (`…:00.999` stays `…:00`). -/
theorem subsecond_line_written (ext : Ext) (k : Bytes) {fi fo : Format} {tyi tyo : Ty}
    (hi : IsDT fi tyi) (ho : IsDT fo tyo) (line : Bytes) (t : GoTime)
    (hy0 : 0 ≤ Time.year t) (hy1 : Time.year t ≤ 9999)
    (h60 : t.off % 60 = 0) (hlo : -86400 < t.off) (hhi : t.off < 86400)
    (p : UInt8) (hp : p = 0x2E ∨ p = 0x2C) (ds : Bytes) (hne : ds ≠ [])
    (hdig : ∀ c ∈ ds, Time.isDigit c = true)
    (hline : Json.unmarshal line =
      (.cons k (.str (Time.headText (Time.civilOf t) ++ (p :: ds ++ Time.formatZone t.off))) .nil,
        true)) :
    jlLine ⟨genTables, ext⟩ (withCol [] k fi tyi) (withCol [] k fo tyo) line =
      .ok (objText k (JsonWrite.quote (Time.formatRFC3339 t)) ++ [0x0A], none) :=
  datetime_line_written ext k hi ho line _ ⟨t.sec, Time.fracNanos ds, t.off⟩ hline
    (Time.C14_fraction_format t hy0 hy1 h60 hlo hhi hp hne hdig).1 hy0 hy1

/-! ### Target 1(b): date-time in, timestamp out -/

/-- Accepted for every `ext` and every parsed instant (no range hypothesis at all: `Unix()` is
    total); what is written is exactly `{"k":<seconds>}` and a newline. -/
theorem timestamp_line_written (ext : Ext) (k : Bytes) {fi fo : Format} {tyi tyo : Ty}
    (hi : IsDT fi tyi) (ho : IsTS fo tyo) (line s : Bytes) (t : GoTime)
    (hline : Json.unmarshal line = (.cons k (.str s) .nil, true))
    (hp : Time.parseRFC3339 s = some t) :
    jlLine ⟨genTables, ext⟩ (withCol [] k fi tyi) (withCol [] k fo tyo) line =
      .ok (objText k (formatInt t.sec) ++ [0x0A], none) := by
  obtain ⟨rfl, hti⟩ := hi
  obtain ⟨rfl, hto⟩ := ho
  have hni : NilTy tyi := by rcases hti with h | h <;> simp [NilTy, h]
  have hno : NilTy tyo := by rcases hto with h | h <;> simp [NilTy, h]
  exact jlLine_col ext k .datetime .timestamp hni hno line (.str s) (.str s) _ _ _ hline
    (by rw [ofJV]) (import_datetime_string ext hti s t hp) (newValue_time ext .timestamp hno t)
    (by simp [Cells.format]) (marshal_timestamp_time ext t tyo)

/-- **Target 1(b).**  Date-time column in, timestamp column out (raw type none or int64): for every
    `ext` the line is accepted and member `k` of the emitted object is the number literal
    `formatInt t.sec` — the instant's Unix second. -/
theorem timestamp_line (ext : Ext) (k : Bytes) (hk : sanitize k = k) {fi fo : Format} {tyi tyo : Ty}
    (hi : IsDT fi tyi) (ho : IsTS fo tyo) (line s : Bytes) (t : GoTime)
    (hline : Json.unmarshal line = (.cons k (.str s) .nil, true))
    (hp : Time.parseRFC3339 s = some t) :
    (∃ b, jlLine ⟨genTables, ext⟩ (withCol [] k fi tyi) (withCol [] k fo tyo) line = .ok (b, none)) ∧
    ∀ b, jlLine ⟨genTables, ext⟩ (withCol [] k fi tyi) (withCol [] k fo tyo) line = .ok (b, none) →
      ∃ body tree, b = body ++ [0x0A] ∧ Json.unmarshal body = (tree, true) ∧
        LineSpec.lookupJV tree k = some (.num (formatInt t.sec)) := by
  have hw := timestamp_line_written ext k hi ho line s t hline hp
  refine ⟨⟨_, hw⟩, ?_⟩
  intro b hb
  rw [hw] at hb
  simp only [Outcome.ok.injEq, Prod.mk.injEq, and_true] at hb
  subst hb
  exact ⟨_, _, rfl, unmarshal_int_out hk t.sec, lookupJV_single _ _⟩


/-! ### Target 1(c): Unix seconds in, date-time out -/

theorem days_bound {y : Int} {m d : Nat} (hy0 : 0 ≤ y) (hy1 : y ≤ 9999) (hv : Time.ValidDate y m d) :
    -800000 ≤ Time.daysFromCivil y m d ∧ Time.daysFromCivil y m d ≤ 3000000 := by
  obtain ⟨hm1, hm12, hd1, hd⟩ := hv
  have := Time.daysIn_le m y
  unfold Time.daysFromCivil
  simp only
  split <;> omega

/-- A time whose year (at its own offset, below 24 h) is in 0..9999 is far inside the range where
    the model of `time.Unix` answers (±2^62) and inside `int64`. -/
theorem sec_bound (t : GoTime) (hy0 : 0 ≤ Time.year t) (hy1 : Time.year t ≤ 9999)
    (hlo : -86400 < t.off) (hhi : t.off < 86400) :
    -70000000000 < t.sec ∧ t.sec < 260000000000 := by
  have hv := Time.civilOf_valid t
  have hs := Time.seconds_civilOf t
  have hd := days_bound (y := (Time.civilOf t).year) (m := (Time.civilOf t).month)
    (d := (Time.civilOf t).day) hy0 hy1 hv.1
  obtain ⟨_, h1, h2, h3⟩ := hv
  omega

theorem toInt64_of_num (ext : Ext) (lit : Bytes) (n : Int) (h : parseInt0 lit 64 = some n) :
    castNamed genTables ext "ToInt64" (.num lit) = .ok (.int .i64 n) := by
  simp [castNamed, callNamed, genTables, Gen.casters, findClause, typeOf, evalBranch, evalE,
    runParse, h]

theorem toInt64_23_of_num (ext : Ext) (lit : Bytes) (n : Int) (h : parseInt0 lit 64 = some n) :
    callNamed genTables ext 23 "ToInt64" (.num lit) = .ok (.int .i64 n) := by
  simp [callNamed, genTables, Gen.casters, findClause, typeOf, evalBranch, evalE, runParse, h]

theorem castTo_i64 (ext : Ext) (x : Dyn) :
    castTo genTables ext (.int .i64) x = callNamed genTables ext 23 "ToInt64" x := by
  simp [castTo, genTables, Gen.dispatchTo, evalBranch, evalE]

theorem import_timestamp_num (ext : Ext) {tyi : Ty} (hty : tyi = .none ∨ tyi = .int .i64)
    (lit : Bytes) (n : Int) (h : parseInt0 lit 64 = some n) :
    importCell ⟨genTables, ext⟩ .timestamp tyi (.num lit) =
      .ok (.cell (.int .i64 n) .timestamp tyi, none) := by
  rcases hty with rfl | rfl
  · simp [importCell, importByFormat, importFrom, importFail, toInt64_of_num ext lit n h]
  · simp [importCell, importByFormat, importFrom, importFail, castTo_i64,
      toInt64_23_of_num ext lit n h]

theorem toTime23_of_int64 (ext : Ext) (x off : Int) (hz : ext.zoneOffset x = some off)
    (hlo : -(2 ^ 62 : Int) < x) (hhi : x < 2 ^ 62) :
    callNamed genTables ext 23 "ToTime" (.int .i64 x) = .ok (.time ⟨x, 0, off⟩) := by
  rw [show (23 : Nat) = 22 + 1 from rfl, TimeShape.toTime_call]
  simp [typeOf, TimeShape.toTimeBranch, evalBranch, evalE, hz]
  omega

/-- The cell the exporter makes of Unix second `n` under a date-time column: the `int64` itself
    (raw type none) or `time.Unix(n, 0)` in the process zone (raw type `time.Time`). -/
def unixCell (n off : Int) (tyo : Ty) : Val :=
  if tyo = .time then .cell (.time ⟨n, 0, off⟩) .datetime tyo else .cell (.int .i64 n) .datetime tyo

theorem newValue_unix (ext : Ext) {tyo : Ty} (hty : tyo = .none ∨ tyo = .time) (n off : Int)
    (hz : ext.zoneOffset n = some off) (hlo : -(2 ^ 62 : Int) < n) (hhi : n < 2 ^ 62) :
    newValue ⟨genTables, ext⟩ (.int .i64 n) .datetime tyo = .ok (unixCell n off tyo) := by
  rcases hty with rfl | rfl
  · simp [newValue, gen_castTo_none, unixCell]
  · simp [newValue, LineLevel.castTo_time, toTime23_of_int64 ext n off hz hlo hhi, unixCell]

theorem marshal_datetime_int64 (ext : Ext) (n off : Int) (ty : Ty)
    (hz : ext.zoneOffset n = some off) (hlo : -(2 ^ 62 : Int) < n) (hhi : n < 2 ^ 62)
    (h0 : 0 ≤ Time.year ⟨n, 0, off⟩) (h1 : Time.year ⟨n, 0, off⟩ ≤ 9999) :
    RowPrint.marshalVal ⟨genTables, ext⟩ (.cell (.int .i64 n) .datetime ty) =
      .ok (JsonWrite.quote (Time.formatRFC3339 ⟨n, 0, off⟩)) := by
  have he : exportVal ⟨genTables, ext⟩ (.cell (.int .i64 n) .datetime ty) =
      .ok (.str (Time.formatRFC3339 ⟨n, 0, off⟩)) := by
    simp [exportVal, TimeShape.toTime_of_int64 ext n off hz hlo hhi,
      TimeShape.toString_of_time ext _ h0 h1, exportFail]
  rw [RowPrint.marshalVal.eq_def]
  simp only [he]
  rw [RowPrint.marshalExported.eq_def]

theorem marshal_unixCell (ext : Ext) (n off : Int) (tyo : Ty)
    (hz : ext.zoneOffset n = some off) (hlo : -(2 ^ 62 : Int) < n) (hhi : n < 2 ^ 62)
    (h0 : 0 ≤ Time.year ⟨n, 0, off⟩) (h1 : Time.year ⟨n, 0, off⟩ ≤ 9999) :
    RowPrint.marshalVal ⟨genTables, ext⟩ (unixCell n off tyo) =
      .ok (JsonWrite.quote (Time.formatRFC3339 ⟨n, 0, off⟩)) := by
  unfold unixCell
  split
  · exact marshal_datetime_time ext _ tyo h0 h1
  · exact marshal_datetime_int64 ext n off tyo hz hlo hhi h0 h1

/-- A timestamp column (raw type none or int64) reads the number `lit` = `n` as Unix seconds; a
    date-time column (raw type none or `time.Time`) writes it in the process zone: accepted, and
    exactly `{"k":"<text>"}`, `<text>` the RFC 3339 rendering of instant `n` at the zone's offset. -/
theorem unix_line_written (ext : Ext) (k : Bytes) {fi fo : Format} {tyi tyo : Ty}
    (hi : IsTS fi tyi) (ho : IsDT fo tyo) (line lit : Bytes) (n off : Int)
    (hline : Json.unmarshal line = (.cons k (.num lit) .nil, true))
    (hn : parseInt0 lit 64 = some n) (hz : ext.zoneOffset n = some off)
    (hy0 : 0 ≤ Time.year ⟨n, 0, off⟩) (hy1 : Time.year ⟨n, 0, off⟩ ≤ 9999)
    (hlo : -86400 < off) (hhi : off < 86400) :
    jlLine ⟨genTables, ext⟩ (withCol [] k fi tyi) (withCol [] k fo tyo) line =
      .ok (objText k (JsonWrite.quote (Time.formatRFC3339 ⟨n, 0, off⟩)) ++ [0x0A], none) := by
  obtain ⟨rfl, hti⟩ := hi
  obtain ⟨rfl, hto⟩ := ho
  have hni : NilTy tyi := by rcases hti with h | h <;> simp [NilTy, h]
  have hno : NilTy tyo := by rcases hto with h | h <;> simp [NilTy, h]
  have hb := sec_bound ⟨n, 0, off⟩ hy0 hy1 hlo hhi
  have hb1 : -(2 ^ 62 : Int) < n := by have := hb.1; simp only at this; omega
  have hb2 : n < 2 ^ 62 := by have := hb.2; simp only at this; omega
  refine jlLine_col ext k .timestamp .datetime hni hno line (.num lit) (.num lit) _
    (unixCell n off tyo) _ hline (by rw [ofJV]) (import_timestamp_num ext hti lit n hn)
    (newValue_unix ext hto n off hz hb1 hb2) ?_ (marshal_unixCell ext n off tyo hz hb1 hb2 hy0 hy1)
  unfold unixCell
  split <;> simp [Cells.format]

/-- **Target 1(c).**  Input member `k` a JSON number denoting the integer `n`, importer column
    timestamp, exporter column date-time, process zone at offset `off` at that instant (year of the
    instant there in 0..9999, whole-minute offset below 24 h): the line is accepted and the emitted
    member `k` is a string that parses to exactly `⟨n, 0, off⟩` — instant `n`, at the zone's offset. -/
theorem unix_line (ext : Ext) (k : Bytes) (hk : sanitize k = k) {fi fo : Format} {tyi tyo : Ty}
    (hi : IsTS fi tyi) (ho : IsDT fo tyo) (line lit : Bytes) (n off : Int)
    (hline : Json.unmarshal line = (.cons k (.num lit) .nil, true))
    (hn : parseInt0 lit 64 = some n) (hz : ext.zoneOffset n = some off)
    (hy0 : 0 ≤ Time.year ⟨n, 0, off⟩) (hy1 : Time.year ⟨n, 0, off⟩ ≤ 9999)
    (h60 : off % 60 = 0) (hlo : -86400 < off) (hhi : off < 86400) :
    (∃ b, jlLine ⟨genTables, ext⟩ (withCol [] k fi tyi) (withCol [] k fo tyo) line = .ok (b, none)) ∧
    ∀ b, jlLine ⟨genTables, ext⟩ (withCol [] k fi tyi) (withCol [] k fo tyo) line = .ok (b, none) →
      ∃ body tree, b = body ++ [0x0A] ∧ Json.unmarshal body = (tree, true) ∧
        ∃ s', LineSpec.lookupJV tree k = some (.str s') ∧
          Time.parseRFC3339 s' = some ⟨n, 0, off⟩ := by
  have hw := unix_line_written ext k hi ho line lit n off hline hn hz hy0 hy1 hlo hhi
  refine ⟨⟨_, hw⟩, ?_⟩
  intro b hb
  rw [hw] at hb
  simp only [Outcome.ok.injEq, Prod.mk.injEq, and_true] at hb
  subst hb
  exact ⟨_, _, rfl, unmarshal_datetime_out hk _, _, lookupJV_single _ _,
    Time.C14_parse_format ⟨n, 0, off⟩ hy0 hy1 h60 hlo hhi⟩

/-- **1(c), the same instant whatever the zone function**: two process zones (two `ext`), each with
    its own offset at instant `n`; both lines are accepted, and the two emitted members parse to
    times with the SAME second `n` (each at its own zone's offset, no sub-second part). -/
theorem unix_line_same_instant (ext₁ ext₂ : Ext) (k : Bytes) (hk : sanitize k = k) {fi fo : Format}
    {tyi tyo : Ty} (hi : IsTS fi tyi) (ho : IsDT fo tyo) (line lit : Bytes) (n off₁ off₂ : Int)
    (hline : Json.unmarshal line = (.cons k (.num lit) .nil, true))
    (hn : parseInt0 lit 64 = some n)
    (hz₁ : ext₁.zoneOffset n = some off₁) (hz₂ : ext₂.zoneOffset n = some off₂)
    (hy₁ : 0 ≤ Time.year ⟨n, 0, off₁⟩ ∧ Time.year ⟨n, 0, off₁⟩ ≤ 9999)
    (hy₂ : 0 ≤ Time.year ⟨n, 0, off₂⟩ ∧ Time.year ⟨n, 0, off₂⟩ ≤ 9999)
    (h₁ : off₁ % 60 = 0 ∧ -86400 < off₁ ∧ off₁ < 86400)
    (h₂ : off₂ % 60 = 0 ∧ -86400 < off₂ ∧ off₂ < 86400) :
    ∃ body₁ body₂ tree₁ tree₂ s₁ s₂ t₁ t₂,
      jlLine ⟨genTables, ext₁⟩ (withCol [] k fi tyi) (withCol [] k fo tyo) line =
        .ok (body₁ ++ [0x0A], none) ∧
      jlLine ⟨genTables, ext₂⟩ (withCol [] k fi tyi) (withCol [] k fo tyo) line =
        .ok (body₂ ++ [0x0A], none) ∧
      Json.unmarshal body₁ = (tree₁, true) ∧ Json.unmarshal body₂ = (tree₂, true) ∧
      LineSpec.lookupJV tree₁ k = some (.str s₁) ∧ LineSpec.lookupJV tree₂ k = some (.str s₂) ∧
      Time.parseRFC3339 s₁ = some t₁ ∧ Time.parseRFC3339 s₂ = some t₂ ∧
      t₁.sec = n ∧ t₂.sec = n ∧ t₁.sec = t₂.sec ∧ t₁.off = off₁ ∧ t₂.off = off₂ ∧
      t₁.nsec = 0 ∧ t₂.nsec = 0 := by
  have hw₁ := unix_line_written ext₁ k hi ho line lit n off₁ hline hn hz₁ hy₁.1 hy₁.2 h₁.2.1 h₁.2.2
  have hw₂ := unix_line_written ext₂ k hi ho line lit n off₂ hline hn hz₂ hy₂.1 hy₂.2 h₂.2.1 h₂.2.2
  exact ⟨_, _, _, _, _, _, _, _, hw₁, hw₂, unmarshal_datetime_out hk _, unmarshal_datetime_out hk _,
    lookupJV_single _ _, lookupJV_single _ _,
    Time.C14_parse_format ⟨n, 0, off₁⟩ hy₁.1 hy₁.2 h₁.1 h₁.2.1 h₁.2.2,
    Time.C14_parse_format ⟨n, 0, off₂⟩ hy₂.1 hy₂.2 h₂.1 h₂.2.1 h₂.2.2,
    rfl, rfl, rfl, rfl, rfl, rfl, rfl⟩

/-- 1(c) for the input line written literally as `{"k":n}` (`n` an `int64`). -/
theorem unix_line_literal (ext : Ext) (k : Bytes) (hk : sanitize k = k) {fi fo : Format}
    {tyi tyo : Ty} (hi : IsTS fi tyi) (ho : IsDT fo tyo) (n off : Int)
    (hz : ext.zoneOffset n = some off)
    (hy0 : 0 ≤ Time.year ⟨n, 0, off⟩) (hy1 : Time.year ⟨n, 0, off⟩ ≤ 9999)
    (h60 : off % 60 = 0) (hlo : -86400 < off) (hhi : off < 86400) :
    ∃ body tree s',
      jlLine ⟨genTables, ext⟩ (withCol [] k fi tyi) (withCol [] k fo tyo) (lineOfInt k n) =
        .ok (body ++ [0x0A], none) ∧
      Json.unmarshal body = (tree, true) ∧ LineSpec.lookupJV tree k = some (.str s') ∧
      Time.parseRFC3339 s' = some ⟨n, 0, off⟩ := by
  have hb := sec_bound ⟨n, 0, off⟩ hy0 hy1 hlo hhi
  have hn : parseInt0 (formatInt n) 64 = some n := by
    rw [parseInt0_formatInt, if_pos]
    have h1 := hb.1; have h2 := hb.2
    simp only at h1 h2
    constructor <;> simp <;> omega
  have hw := unix_line_written ext k hi ho (lineOfInt k n) (formatInt n) n off
    (unmarshal_lineOfInt hk n) hn hz hy0 hy1 hlo hhi
  exact ⟨_, _, _, hw, unmarshal_datetime_out hk _, lookupJV_single _ _,
    Time.C14_parse_format ⟨n, 0, off⟩ hy0 hy1 h60 hlo hhi⟩


/-! ### Target 2: the oracle's own words

  `Driver.Line.c14LineViolation` judges the implementation's observation (`panic` / rejected /
  accepted with bytes) against the input text.  The same logic, clause by clause, over a model
  outcome (`Driver` cannot be imported here): `c14Step` is the body of its fold, `c14Trees` the fold
  over the input tree with repeated names resolved, `c14Accepted` the accepted branch on the written
  bytes, `c14Rejected` the rejected branch, `c14Violation` the whole. -/

/-- The body of the oracle's fold: one input member against the output tree. -/
def c14Step (outMs : JVMembers) (acc : Option String) (kv : Bytes × JV) : Option String :=
  match acc with
  | some _ => acc
  | none =>
    match kv.2 with
    | .str s =>
      match Time.parseRFC3339 s with
      | some want =>
        match LineSpec.lookupJV outMs kv.1 with
        | some (.str out) =>
          (match Time.parseRFC3339 out with
           | some back =>
             if back.sec != want.sec then some "instant-changed"
             else if back.off != want.off then some "offset-changed"
             else if back.nsec != 0 then some "subsecond-not-dropped"
             else none
           | none => some "written-text-unreadable")
        | some (.num lit) =>
          (match IntText.parseInt0 lit 64 with
           | some v => if v == want.sec then none else some "timestamp-differs-from-instant"
           | none => some "timestamp-not-an-integer")
        | _ => some "member-missing-or-wrong-type"
      | none => none
    | _ => none

/-- The oracle on the two trees: every input member (repeated names resolved) that is an RFC 3339
    string against the output member of the same name. -/
def c14Trees (inMs outMs : JVMembers) : Option String :=
  (LineSpec.normDup inMs).toList.foldl (c14Step outMs) none

/-- The accepted branch: the written bytes end in a newline, both texts are objects for the reader,
    and the trees pass. -/
def c14Accepted (input bytes : Bytes) : Option String :=
  match bytes.reverse with
  | 0x0A :: revBody =>
    let (outMs, okOut) := Json.unmarshal revBody.reverse
    let (inMs, okIn) := Json.unmarshal input
    if !okOut || !okIn then some "invalid-json-object"
    else c14Trees inMs outMs
  | _ => some "no-trailing-newline"

/-- The rejected branch: a line all of whose members are readable date-times in the domain must not
    be rejected. -/
def c14Rejected (input : Bytes) : Option String :=
  let (inMs, okIn) := Json.unmarshal input
  if okIn && inMs.toList.all (fun kv => match kv.2 with
      | .str s => (match Time.parseRFC3339 s with
        | some t => let y := Time.year t; 0 ≤ y && y ≤ 9999 && t.off % 60 == 0 && t.off.natAbs < 86400
        | none => false)
      | _ => false) && !inMs.toList.isEmpty then some "explicit-offset-string-rejected"
  else none

/-- `c14LineViolation` over an outcome of `jlLine` (`none`: no violation). -/
def c14Violation (input : Bytes) (o : Outcome (Bytes × Option ErrClass)) : Option String :=
  match o with
  | .panic _ => some "panic"
  | .ok (b, none) => c14Accepted input b
  | _ => c14Rejected input

theorem normDup_single (k : Bytes) (v : JV) (hv : LineSpec.normDupV v = v) :
    (LineSpec.normDup (.cons k v .nil)).toList = [(k, v)] := by
  simp [LineSpec.normDup, LineSpec.normDupM, LineSpec.upsertKV, hv, JVMembers.ofList,
    JVMembers.toList]

theorem c14Accepted_of_trees (input body : Bytes) (inMs outMs : JVMembers)
    (hin : Json.unmarshal input = (inMs, true)) (hout : Json.unmarshal body = (outMs, true)) :
    c14Accepted input (body ++ [0x0A]) = c14Trees inMs outMs := by
  simp [c14Accepted, List.reverse_append, hin, hout]

theorem c14Step_datetime (k s : Bytes) (t : GoTime) (hp : Time.parseRFC3339 s = some t)
    (hy0 : 0 ≤ Time.year t) (hy1 : Time.year t ≤ 9999)
    (h60 : t.off % 60 = 0) (hlo : -86400 < t.off) (hhi : t.off < 86400) :
    c14Step (.cons k (.str (Time.formatRFC3339 t)) .nil) none (k, .str s) = none := by
  simp [c14Step, hp, lookupJV_single, Time.C14_parse_format t hy0 hy1 h60 hlo hhi]

theorem c14Step_timestamp (k s : Bytes) (t : GoTime) (hp : Time.parseRFC3339 s = some t)
    (hy0 : 0 ≤ Time.year t) (hy1 : Time.year t ≤ 9999) (hlo : -86400 < t.off) (hhi : t.off < 86400) :
    c14Step (.cons k (.num (formatInt t.sec)) .nil) none (k, .str s) = none := by
  have hb := sec_bound t hy0 hy1 hlo hhi
  have hn : parseInt0 (formatInt t.sec) 64 = some t.sec := by
    rw [parseInt0_formatInt, if_pos]
    constructor <;> simp <;> omega
  simp [c14Step, hp, lookupJV_single, hn]

/-- **Target 2 under 1(a).**  The oracle finds no violation in what `jlLine` does with the line. -/
theorem datetime_line_oracle (ext : Ext) (k : Bytes) (hk : sanitize k = k) {fi fo : Format}
    {tyi tyo : Ty} (hi : IsDT fi tyi) (ho : IsDT fo tyo) (line s : Bytes) (t : GoTime)
    (hline : Json.unmarshal line = (.cons k (.str s) .nil, true))
    (hp : Time.parseRFC3339 s = some t) (hy0 : 0 ≤ Time.year t) (hy1 : Time.year t ≤ 9999)
    (h60 : t.off % 60 = 0) (hlo : -86400 < t.off) (hhi : t.off < 86400) :
    c14Violation line
      (jlLine ⟨genTables, ext⟩ (withCol [] k fi tyi) (withCol [] k fo tyo) line) = none := by
  rw [datetime_line_written ext k hi ho line s t hline hp hy0 hy1]
  simp only [c14Violation]
  rw [c14Accepted_of_trees line _ _ _ hline (unmarshal_datetime_out hk t), c14Trees,
    normDup_single k (.str s) (by simp [LineSpec.normDupV]), List.foldl_cons, List.foldl_nil]
  exact c14Step_datetime k s t hp hy0 hy1 h60 hlo hhi

/-- **Target 2 under 1(b).** -/
theorem timestamp_line_oracle (ext : Ext) (k : Bytes) (hk : sanitize k = k) {fi fo : Format}
    {tyi tyo : Ty} (hi : IsDT fi tyi) (ho : IsTS fo tyo) (line s : Bytes) (t : GoTime)
    (hline : Json.unmarshal line = (.cons k (.str s) .nil, true))
    (hp : Time.parseRFC3339 s = some t) (hy0 : 0 ≤ Time.year t) (hy1 : Time.year t ≤ 9999)
    (hlo : -86400 < t.off) (hhi : t.off < 86400) :
    c14Violation line
      (jlLine ⟨genTables, ext⟩ (withCol [] k fi tyi) (withCol [] k fo tyo) line) = none := by
  rw [timestamp_line_written ext k hi ho line s t hline hp]
  simp only [c14Violation]
  rw [c14Accepted_of_trees line _ _ _ hline (unmarshal_int_out hk t.sec), c14Trees,
    normDup_single k (.str s) (by simp [LineSpec.normDupV]), List.foldl_cons, List.foldl_nil]
  exact c14Step_timestamp k s t hp hy0 hy1 hlo hhi

/-- The oracle is not vacuous on such a line: had the line been rejected, or the second changed,
    it would say so. -/
theorem c14Rejected_fires (line k s : Bytes) (t : GoTime)
    (hline : Json.unmarshal line = (.cons k (.str s) .nil, true))
    (hp : Time.parseRFC3339 s = some t) (hy0 : 0 ≤ Time.year t) (hy1 : Time.year t ≤ 9999)
    (h60 : t.off % 60 = 0) (hlo : -86400 < t.off) (hhi : t.off < 86400) (e : ErrClass) :
    c14Violation line (.ok ([], some e)) = some "explicit-offset-string-rejected" := by
  have hab : t.off.natAbs < 86400 := by omega
  simp [c14Violation, c14Rejected, hline, JVMembers.toList, hp, hy0, hy1, h60, hab]

theorem c14Step_fires (k s : Bytes) (t : GoTime) (hp : Time.parseRFC3339 s = some t) :
    c14Step (.cons k (.num (formatInt (t.sec + 1))) .nil) none (k, .str s) ≠ none := by
  simp only [c14Step, hp, lookupJV_single]
  rw [parseInt0_formatInt]
  by_cases hc : -(2 ^ ((if 64 = 0 then 64 else 64) - 1) : Int) ≤ t.sec + 1 ∧
      t.sec + 1 < 2 ^ ((if 64 = 0 then 64 else 64) - 1)
  · rw [if_pos hc]
    have : ¬ (t.sec + 1 = t.sec) := by omega
    simp [this]
  · rw [if_neg hc]
    simp


/-! ### Target 3: templates with several columns

  The cell a column `k` holds when the row is printed is followed through `GetRow` (the LAST member
  of that name in the input is the one that stays imported), `CreateRow` on the exporter side, and the
  printer; the other columns are left alone. -/

/-- The value a repeated name ends up with: that of its LAST occurrence. -/
def lastVal {α : Type} : List (Bytes × α) → Bytes → Option α
  | [], _ => none
  | (k', x) :: l, k =>
    match lastVal l k with
    | some y => some y
    | none => if k' = k then some x else none

theorem lookup_upsert_self (o : List (Bytes × Val)) (k : Bytes) (c : Val) :
    lookup (upsert o k c) k = some c := by
  rw [lookup, upsert, OMap.lookup_upsert, if_pos rfl]

theorem lookup_upsert_ne (o : List (Bytes × Val)) {k k' : Bytes} (c : Val) (h : k' ≠ k) :
    lookup (upsert o k' c) k = lookup o k := by
  rw [lookup, upsert, OMap.lookup_upsert, if_neg (fun e => h e.symm)]
  rfl

/-! #### `CloneRow` keeps the (format, raw type) of a column -/

theorem cloneInto_lookup (env : Env) (k : Bytes) (r : List (Bytes × Val)) :
    ∀ (acc r' : List (Bytes × Val)), cloneInto env acc r = .ok r' → (OMap.keys r).Nodup →
      (k ∉ OMap.keys r → lookup r' k = lookup acc k) ∧
      (∀ c0, lookup r k = some c0 → ∃ c, cloneValue env c0 = .ok c ∧ lookup r' k = some c) := by
  induction r with
  | nil =>
    intro acc r' h _
    simp only [cloneInto, Outcome.ok.injEq] at h
    subst h
    exact ⟨fun _ => rfl, fun c0 h0 => by simp [lookup, OMap.lookup] at h0⟩
  | cons kv rest ih =>
    intro acc r' h hnd
    obtain ⟨k0, v⟩ := kv
    rw [Order.keys_cons, List.nodup_cons] at hnd
    simp only [cloneInto] at h
    split at h
    · rename_i c hc
      obtain ⟨ihA, ihB⟩ := ih _ _ h hnd.2
      constructor
      · intro hk
        rw [Order.keys_cons, List.mem_cons, not_or] at hk
        rw [ihA hk.2, lookup_upsert_ne _ _ (fun e => hk.1 e.symm)]
      · intro c0 h0
        simp only [lookup, OMap.lookup] at h0
        split at h0
        · rename_i hk
          subst hk
          cases h0
          exact ⟨c, hc, by rw [ihA hnd.1, lookup_upsert_self]⟩
        · exact ihB c0 h0
    · cases h
    · cases h

/-- The clone of a template with distinct names holds, at a column's name, a cell of the column's
    format and raw type. -/
theorem cloneRow_desc (env : Env) (t row0 : List (Bytes × Val)) (h : cloneRow env t = .ok row0)
    (hnd : (OMap.keys t).Nodup) (k : Bytes) (c0 : Val) (hk : OMap.lookup t k = some c0) :
    ∃ raw, lookup row0 k = some (.cell raw (Cells.format c0) (Cells.rawType c0)) := by
  obtain ⟨c, hc, hl⟩ := (cloneInto_lookup env k t [] row0 h hnd).2 c0 hk
  unfold cloneValue newValue at hc
  split at hc
  · cases hc; exact ⟨_, hl⟩
  · cases hc
  · cases hc; exact ⟨_, hl⟩
  · cases hc

/-! #### `GetRow`: the last member of a name is the one imported -/

theorem importCell_shape (env : Env) (f : Format) (ty : Ty) (x : Dyn) (c : Val)
    (e : Option ErrClass) (hx : LineLevel.JsonShape x) (h : importCell env f ty x = .ok (c, e)) :
    ∃ raw, c = .cell raw f ty := by
  have hbf : ∀ y, importByFormat env f ty y = .ok (c, e) → ∃ raw, c = .cell raw f ty := by
    intro y hy
    unfold importByFormat at hy
    simp only at hy
    split at hy
    · simp only [Outcome.ok.injEq, Prod.mk.injEq] at hy
      exact ⟨_, hy.1.symm⟩
    · cases hy
    · simp only [Outcome.ok.injEq, Prod.mk.injEq] at hy
      exact ⟨_, hy.1.symm⟩
    · cases hy
  unfold importCell at h
  split at h
  · simp only [Outcome.ok.injEq, Prod.mk.injEq] at h
    exact ⟨_, h.1.symm⟩
  · split at h
    · simp only [Outcome.ok.injEq, Prod.mk.injEq] at h
      exact ⟨_, h.1.symm⟩
    · exact hbf _ h
  · rename_i v hnr
    cases v with
    | cell _ _ _ => exact absurd hx (by simp [LineLevel.JsonShape])
    | row ms => exact absurd rfl (hnr ms)
  · exact hbf _ h

theorem parseMember_lookup (env : Env) (k : Bytes) (f : Format) (ty : Ty)
    (o o1 : List (Bytes × Val)) (k' : Bytes) (x : Dyn)
    (h : parseMember env o k' x = .ok (o1, none))
    (hinv : ∃ raw, lookup o k = some (.cell raw f ty)) :
    (k' ≠ k → lookup o1 k = lookup o k) ∧
    (k' = k → ∃ c', importCell env f ty x = .ok (c', none) ∧ lookup o1 k = some c') := by
  unfold parseMember at h
  constructor
  · intro hne
    split at h
    · split at h
      · simp only [Outcome.ok.injEq, Prod.mk.injEq] at h
        rw [← h.1, lookup_upsert_ne _ _ hne]
      · cases h
      · cases h
    · simp only [Outcome.ok.injEq, Prod.mk.injEq] at h
      rw [← h.1, lookup_upsert_ne _ _ hne]
  · intro he
    subst he
    obtain ⟨raw, hraw⟩ := hinv
    rw [hraw] at h
    simp only [importVal, importInto] at h
    split at h
    · rename_i c' e' hi
      simp only [Outcome.ok.injEq, Prod.mk.injEq] at h
      obtain ⟨h1, h2⟩ := h
      subst h2
      exact ⟨c', hi, by rw [← h1, lookup_upsert_self]⟩
    · cases h
    · cases h

theorem parseMembers_lookup (env : Env) (k : Bytes) (f : Format) (ty : Ty)
    (l : List (Bytes × Dyn)) :
    ∀ (o o' : List (Bytes × Val)), (∀ kx ∈ l, LineLevel.JsonShape kx.2) →
      parseMembers env o l = .ok (o', none) → (∃ raw, lookup o k = some (.cell raw f ty)) →
      (∃ raw, lookup o' k = some (.cell raw f ty)) ∧
      (lastVal l k = none → lookup o' k = lookup o k) ∧
      (∀ x, lastVal l k = some x →
        ∃ c', importCell env f ty x = .ok (c', none) ∧ lookup o' k = some c') := by
  induction l with
  | nil =>
    intro o o' _ h hinv
    simp only [parseMembers, Outcome.ok.injEq, Prod.mk.injEq, and_true] at h
    subst h
    exact ⟨hinv, fun _ => rfl, fun x hx => by simp [lastVal] at hx⟩
  | cons kx l ih =>
    intro o o' hl h hinv
    obtain ⟨k', x⟩ := kx
    simp only [parseMembers] at h
    split at h
    · rename_i o1 h1
      obtain ⟨hA, hB⟩ := parseMember_lookup env k f ty o o1 k' x h1 hinv
      have hinv1 : ∃ raw, lookup o1 k = some (.cell raw f ty) := by
        by_cases hk : k' = k
        · obtain ⟨c', hi, hl1⟩ := hB hk
          obtain ⟨raw', rfl⟩ := importCell_shape env f ty x c' none
            (hl (k', x) (List.mem_cons_self ..)) hi
          exact ⟨raw', hl1⟩
        · rw [hA hk]; exact hinv
      obtain ⟨i1, i2, i3⟩ := ih o1 o' (fun kx hkx => hl kx (List.mem_cons_of_mem _ hkx)) h hinv1
      refine ⟨i1, ?_, ?_⟩
      · intro hn
        simp only [lastVal] at hn
        split at hn
        · cases hn
        · rename_i hnone
          split at hn
          · cases hn
          · rename_i hk
            rw [i2 hnone, hA hk]
      · intro y hy
        simp only [lastVal] at hy
        split at hy
        · rename_i y' hy'
          cases hy
          exact i3 y hy'
        · rename_i hnone
          split at hy
          · rename_i hk
            cases hy
            obtain ⟨c', hi, hl1⟩ := hB hk
            exact ⟨c', hi, by rw [i2 hnone, hl1]⟩
          · cases hy
    · rename_i hne
      exact absurd h (hne o')

theorem lastVal_ofJVMembers (env : Env) (k : Bytes) : ∀ (ms : JVMembers) (l : List (Bytes × Dyn)),
    ofJVMembers env ms = .ok l →
      (lastVal ms.toList k = none → lastVal l k = none) ∧
      (∀ v, lastVal ms.toList k = some v → ∃ d, ofJV env v = .ok d ∧ lastVal l k = some d)
  | .nil, l, h => by
    rw [ofJVMembers] at h
    cases h
    exact ⟨fun _ => rfl, fun v hv => by simp [JVMembers.toList, lastVal] at hv⟩
  | .cons k' v' ms, l, h => by
    rw [ofJVMembers] at h
    split at h
    · rename_i d hd
      split at h
      · rename_i rest hrest
        cases h
        obtain ⟨iA, iB⟩ := lastVal_ofJVMembers env k ms rest hrest
        simp only [JVMembers.toList, lastVal]
        constructor
        · intro hn
          split at hn
          · cases hn
          · rename_i hnone
            rw [iA hnone]
            split at hn
            · cases hn
            · rename_i hk; simp [hk]
        · intro v hv
          split at hv
          · rename_i y hy
            cases hv
            obtain ⟨d', hd', hl'⟩ := iB v hy
            exact ⟨d', hd', by rw [hl']⟩
          · rename_i hnone
            split at hv
            · rename_i hk
              cases hv
              exact ⟨d, hd, by rw [iA hnone]; simp [hk]⟩
            · cases hv
      · cases h
      · cases h
    · cases h
    · cases h

/-- `GetRow` under a template with distinct names: a date-time column whose last input member is an
    RFC 3339 text holds that time afterwards. -/
theorem getRow_datetime_cell (ext : Ext) (ti : Tmpl) (line : Bytes) (r : List (Bytes × Val))
    (hget : getRow ⟨genTables, ext⟩ ti line = .ok (r, none)) (hti : (OMap.keys ti).Nodup)
    (k : Bytes) (ci : Val) (hci : OMap.lookup ti k = some ci)
    (hdt : IsDT (Cells.format ci) (Cells.rawType ci)) (s : Bytes) (t : GoTime)
    (hlast : lastVal (Json.unmarshal line).1.toList k = some (.str s))
    (hp : Time.parseRFC3339 s = some t) :
    lookup r k = some (.cell (.time t) .datetime (Cells.rawType ci)) := by
  obtain ⟨row0, h0, h1⟩ := Order.getRow_ok _ ti line r none hget
  obtain ⟨l, hl, hpm, _⟩ := Order.unmarshalInto_ok _ row0 r line h1
  obtain ⟨d, hd, hlv⟩ := (lastVal_ofJVMembers _ k _ l hl).2 _ hlast
  rw [ofJV] at hd
  cases hd
  obtain ⟨_, _, h3⟩ := parseMembers_lookup _ k _ _ l row0 r (LineLevel.ofJVMembers_shape _ _ l hl)
    hpm (cloneRow_desc _ ti row0 h0 hti k ci hci)
  obtain ⟨c', hi, hl'⟩ := h3 _ hlv
  obtain ⟨hf, hty⟩ := hdt
  rw [hf, import_datetime_string ext hty s t hp] at hi
  simp only [Outcome.ok.injEq, Prod.mk.injEq, and_true] at hi
  rw [hl', ← hi]

/-! #### `CreateRow` on the exporter side -/

theorem fill_lookup (env : Env) (k : Bytes) (row row1 : List (Bytes × Val)) (k0 : Bytes) (x : Dyn)
    (h : fill env row k0 x = .ok row1) :
    (k0 ≠ k → lookup row1 k = lookup row k) ∧
    (k0 = k → ∀ c, lookup row k = some c →
      ∃ c', newValue env x (Cells.format c) (Cells.rawType c) = .ok c' ∧ lookup row1 k = some c') := by
  unfold fill at h
  constructor
  · intro hne
    split at h
    · split at h
      · cases h; exact lookup_upsert_ne _ _ hne
      · cases h
      · cases h
    · cases h; exact lookup_upsert_ne _ _ hne
  · intro he c hc
    subst he
    rw [hc] at h
    simp only at h
    split at h
    · rename_i c' hc'
      cases h
      exact ⟨c', hc', lookup_upsert_self _ _ _⟩
    · cases h
    · cases h

theorem fillPairs_lookup (env : Env) (k : Bytes) (kvs : List (Bytes × Dyn)) :
    ∀ (row row' : List (Bytes × Val)), fillPairs env row kvs = .ok row' →
      (kvs.map Prod.fst).Nodup →
      (k ∉ kvs.map Prod.fst → lookup row' k = lookup row k) ∧
      (∀ x c, (k, x) ∈ kvs → lookup row k = some c →
        ∃ c', newValue env x (Cells.format c) (Cells.rawType c) = .ok c' ∧
          lookup row' k = some c') := by
  induction kvs with
  | nil =>
    intro row row' h _
    simp only [fillPairs, Outcome.ok.injEq] at h
    subst h
    exact ⟨fun _ => rfl, fun x c hm => by cases hm⟩
  | cons kx kvs ih =>
    intro row row' h hnd
    obtain ⟨k0, x0⟩ := kx
    rw [List.map_cons, List.nodup_cons] at hnd
    simp only [fillPairs] at h
    split at h
    · rename_i r1 h1
      obtain ⟨fA, fB⟩ := fill_lookup env k row r1 k0 x0 h1
      obtain ⟨iA, iB⟩ := ih r1 row' h hnd.2
      constructor
      · intro hk
        rw [List.map_cons, List.mem_cons, not_or] at hk
        rw [iA hk.2, fA (fun e => hk.1 e.symm)]
      · intro x c hm hc
        rcases List.mem_cons.1 hm with e | hm
        · injection e with e1 e2
          subst e1 e2
          obtain ⟨c', hc', hl⟩ := fB rfl c hc
          exact ⟨c', hc', by rw [iA hnd.1, hl]⟩
        · have hne : k0 ≠ k := by
            intro e
            subst e
            exact hnd.1 (List.mem_map.2 ⟨(k0, x), hm, rfl⟩)
          exact iB x c hm (by rw [fA hne]; exact hc)
    · rename_i hne
      exact absurd h (hne row')

/-- `CreateRow` given the imported row: the cell made at a declared column `k` from the raw value
    the importer's row holds there. -/
theorem createRow_cell (env : Env) (to : Tmpl) (r row' : List (Bytes × Val))
    (hcr : createRow env to (.val (.row (Members.ofList r))) = .ok (row', none))
    (hto : (OMap.keys to).Nodup) (hr : (OMap.keys r).Nodup)
    (k : Bytes) (co c : Val) (hco : OMap.lookup to k = some co) (hc : lookup r k = some c) :
    ∃ c', newValue env (Cells.raw c) (Cells.format co) (Cells.rawType co) = .ok c' ∧
      lookup row' k = some c' := by
  obtain ⟨row0, h0, h1, _⟩ := Order.createRow_row_ok env to r row' none hcr
  obtain ⟨raw0, hraw0⟩ := cloneRow_desc env to row0 h0 hto k co hco
  have hnd : ((r.map fun (k, c) => (k, Cells.raw c)).map Prod.fst).Nodup := by
    rw [Order.keys_map_raw]; exact hr
  have hm : (k, Cells.raw c) ∈ r.map fun (k, c) => (k, Cells.raw c) :=
    List.mem_map.2 ⟨(k, c), LineLevel.mem_of_lookup hc, rfl⟩
  obtain ⟨c', hc', hl⟩ := (fillPairs_lookup env k _ row0 row' h1 hnd).2 (Cells.raw c) _ hm hraw0
  exact ⟨c', hc', hl⟩

/-! #### The printed member -/

/-- The member the reader finds under a key's written name is the print of the row's cell at that
    key (existence form of `LineLevel.lookupJV_tree`). -/
theorem lookupJV_tree_of_lookup (env : Env) (k : Bytes) (c : Val) (hvis : Cells.format c ≠ .hidden) :
    ∀ (row : List (Bytes × Val)),
      (∀ k' ∈ RowPrint.visibleKeys row, sanitize k' = sanitize k → k' = k) →
      lookup row k = some c →
      LineSpec.lookupJV (treeMembers env (Members.ofList row)) (sanitize k) = some (treeVal env c) := by
  intro row
  induction row with
  | nil => intro _ h; simp [lookup, OMap.lookup] at h
  | cons kc rest ih =>
    obtain ⟨k0, c0⟩ := kc
    intro hsep h
    rw [LineLevel.visibleKeys_cons] at hsep
    simp only [lookup, OMap.lookup] at h
    by_cases hh : Cells.format c0 = .hidden
    · simp only [hh, if_true] at hsep
      simp only [Members.ofList, treeMembers, hh, beq_self_eq_true, if_true]
      split at h
      · cases h; exact absurd hh hvis
      · exact ih hsep h
    · simp only [hh, if_false] at hsep
      simp only [Members.ofList, treeMembers, beq_iff_eq, hh, if_false]
      rw [LineLevel.lookupJV_cons]
      by_cases hk : sanitize k0 = sanitize k
      · have : k0 = k := hsep k0 (List.mem_cons_self ..) hk
        subst this
        simp only [if_true] at h
        cases h
        rw [if_pos hk]
      · rw [if_neg hk]
        have hne : ¬ k0 = k := fun e => hk (by rw [e])
        rw [if_neg hne] at h
        exact ih (fun k' hk' => hsep k' (List.mem_cons_of_mem _ hk')) h

theorem treeVal_datetime_time (ext : Ext) (t : GoTime) (ty : Ty)
    (h0 : 0 ≤ Time.year t) (h1 : Time.year t ≤ 9999) :
    treeVal ⟨genTables, ext⟩ (.cell (.time t) .datetime ty) = .str (Time.formatRFC3339 t) := by
  rw [LineLevel.treeVal_cell (TimeShape.datetime_column_of_time ext t ty h0 h1)]
  simp only [treeExported, sanitize_formatRFC3339]

theorem treeVal_timestamp_time (ext : Ext) (t : GoTime) (ty : Ty) :
    treeVal ⟨genTables, ext⟩ (.cell (.time t) .timestamp ty) = .num (formatInt t.sec) := by
  rw [LineLevel.treeVal_cell (export_timestamp_time ext t ty)]
  rfl

/-! #### The oracle's reading of the input: repeated names resolved (`LineSpec.normDup`) -/

def lookupL (l : List (Bytes × JV)) (k : Bytes) : Option JV :=
  (l.find? fun kv => kv.1 == k).map Prod.snd

theorem toList_ofList (l : List (Bytes × JV)) : (JVMembers.ofList l).toList = l := by
  induction l with
  | nil => rfl
  | cons a l ih => obtain ⟨k, v⟩ := a; simp [JVMembers.ofList, JVMembers.toList, ih]

theorem lookupJV_ofList (l : List (Bytes × JV)) (k : Bytes) :
    LineSpec.lookupJV (JVMembers.ofList l) k = lookupL l k := by
  rw [LineSpec.lookupJV, toList_ofList, lookupL]

theorem lookupL_cons (k0 : Bytes) (v0 : JV) (l : List (Bytes × JV)) (k : Bytes) :
    lookupL ((k0, v0) :: l) k = if k0 = k then some v0 else lookupL l k := by
  unfold lookupL
  rw [List.find?_cons]
  by_cases h : k0 = k
  · simp [h]
  · have : (k0 == k) = false := by simpa using h
    simp [this, h]

theorem lookupL_map_other (acc : List (Bytes × JV)) (k0 : Bytes) (v : JV) {k : Bytes}
    (hk : ¬ k0 = k) :
    lookupL (acc.map fun kv => if kv.1 == k0 then (k0, v) else kv) k = lookupL acc k := by
  induction acc with
  | nil => rfl
  | cons b acc ih =>
    obtain ⟨k1, v1⟩ := b
    simp only [List.map_cons]
    by_cases h1 : k1 = k0
    · subst h1
      simp only [beq_self_eq_true, if_true]
      rw [lookupL_cons, lookupL_cons, if_neg hk, if_neg hk]
      exact ih
    · have : (k1 == k0) = false := by simpa using h1
      simp only [this, Bool.false_eq_true, if_false]
      rw [lookupL_cons, lookupL_cons, ih]

theorem lookupL_upsertKV (acc : List (Bytes × JV)) (k' : Bytes) (v : JV) (k : Bytes) :
    lookupL (LineSpec.upsertKV acc k' v) k = if k' = k then some v else lookupL acc k := by
  unfold LineSpec.upsertKV
  induction acc with
  | nil =>
    simp only [List.any_nil, Bool.false_eq_true, if_false, List.nil_append]
    rw [lookupL_cons]
  | cons a acc ih =>
    obtain ⟨k0, v0⟩ := a
    by_cases h0 : k0 = k'
    · subst h0
      simp only [List.any_cons, beq_self_eq_true, Bool.true_or, if_true, List.map_cons]
      rw [lookupL_cons, lookupL_cons]
      by_cases hk : k0 = k
      · simp [hk]
      · simp only [hk, if_false]
        exact lookupL_map_other acc k0 v hk
    · have hb : (k0 == k') = false := by simpa using h0
      simp only [List.any_cons, hb, Bool.false_or, List.map_cons, Bool.false_eq_true, if_false,
        List.cons_append] at ih ⊢
      by_cases hany : (acc.any fun kv => kv.1 == k') = true
      · rw [if_pos hany] at ih ⊢
        rw [lookupL_cons, lookupL_cons, ih]
        by_cases hk : k0 = k
        · subst hk
          have : ¬ k' = k0 := fun e => h0 e.symm
          simp [this]
        · simp [hk]
      · rw [if_neg hany] at ih ⊢
        rw [lookupL_cons, lookupL_cons, ih]
        by_cases hk : k0 = k
        · subst hk
          have : ¬ k' = k0 := fun e => h0 e.symm
          simp [this]
        · simp [hk]

theorem normDupM_lookup (k : Bytes) : ∀ (ms : JVMembers) (acc : List (Bytes × JV)),
    lookupL (LineSpec.normDupM ms acc) k =
      match lastVal ms.toList k with
      | some v => some (LineSpec.normDupV v)
      | none => lookupL acc k
  | .nil, acc => by simp [LineSpec.normDupM, JVMembers.toList, lastVal]
  | .cons k' v ms, acc => by
    rw [LineSpec.normDupM, normDupM_lookup k ms]
    simp only [JVMembers.toList, lastVal]
    cases lastVal ms.toList k with
    | some y => rfl
    | none =>
      simp only
      rw [lookupL_upsertKV]
      split <;> rfl

theorem normDupV_str {v : JV} {s : Bytes} (h : LineSpec.normDupV v = .str s) : v = .str s := by
  cases v <;> simp [LineSpec.normDupV] at h ⊢
  exact h

/-- The member the oracle reads under `k` in the input (repeated names resolved) is a string exactly
    when the LAST member of that name is that string. -/
theorem lastVal_of_normDup {ms : JVMembers} {k s : Bytes}
    (h : LineSpec.lookupJV (LineSpec.normDup ms) k = some (.str s)) :
    lastVal ms.toList k = some (.str s) := by
  rw [LineSpec.normDup, lookupJV_ofList, normDupM_lookup] at h
  split at h
  · rename_i v hv
    rw [hv, normDupV_str (Option.some.inj h)]
  · simp [lookupL] at h

/-! #### The theorem -/

/-- The conclusion of target 1 for one column, on the tree the reader delivers for the emitted text:
    under a date-time output column the member is a string that parses to the same second and the
    same offset with no sub-second part (1a); under a timestamp output column it is the integer
    literal of the instant's Unix second (1b). -/
def TimeKept (tree : JVMembers) (name : Bytes) (fo : Format) (tyo : Ty) (t : GoTime) : Prop :=
  (IsDT fo tyo → ∃ s', LineSpec.lookupJV tree name = some (.str s') ∧
    ∃ t', Time.parseRFC3339 s' = some t' ∧ t'.sec = t.sec ∧ t'.off = t.off ∧ t'.nsec = 0) ∧
  (IsTS fo tyo → LineSpec.lookupJV tree name = some (.num (formatInt t.sec)))

/-- **Target 3, pointwise.**  One accepted line through `jlLine` over the regenerated tables,
    templates with distinct column names.  The written bytes are an object text and a newline; in the
    object the reader delivers, for EVERY column `k` that is a date-time column of the importer
    (raw type none or `time.Time`) and whose input member — the last of that name, as the oracle
    reads the input (`LineSpec.normDup`) — is an RFC 3339 text `s` denoting `t` in the domain, the
    member found under the column's written name satisfies the conclusion of target 1 for the
    exporter's descriptor of `k` — whatever the other columns and members are.  The separation
    hypothesis is that of `LineLevel.emitted_line_classes_pointwise` (no other key of the line is
    written like `k`); `FloatTextOK` is only there because OTHER columns may print floats. -/
theorem emitted_line_times_pointwise (ext : Ext) (ti to : Tmpl) (line b : Bytes)
    (h : jlLine ⟨genTables, ext⟩ ti to line = .ok (b, none)) (hx : FloatTextOK ext)
    (hti : (OMap.keys ti).Nodup) (hto : (OMap.keys to).Nodup) :
    ∃ body tree, b = body ++ [0x0A] ∧ Json.unmarshal body = (tree, true) ∧
      ∀ k ci co s t, OMap.lookup ti k = some ci → OMap.lookup to k = some co →
        IsDT (Cells.format ci) (Cells.rawType ci) →
        (∀ k' ∈ OMap.keys to ++ OMap.keys ti ++ Order.inputKeys line,
          sanitize k' = sanitize k → k' = k) →
        LineSpec.lookupJV (LineSpec.normDup (Json.unmarshal line).1) k = some (.str s) →
        Time.parseRFC3339 s = some t → 0 ≤ Time.year t → Time.year t ≤ 9999 →
        t.off % 60 = 0 → -86400 < t.off → t.off < 86400 →
        TimeKept tree (sanitize k) (Cells.format co) (Cells.rawType co) t := by
  obtain ⟨r, row', body, hget, hcr, _, hb, hu⟩ :=
    LineLevel.emitted_text ⟨genTables, ext⟩ ti to line b h hx
  refine ⟨body, _, hb, hu, ?_⟩
  intro k ci co s t hci hco hdt hsep hlast hp hy0 hy1 h60 hlo hhi
  have hr := getRow_datetime_cell ext ti line r hget hti k ci hci hdt s t
    (lastVal_of_normDup hlast) hp
  obtain ⟨c', hnew, hl'⟩ := createRow_cell _ to r row' hcr hto
    (Order.getRow_keys_nodup _ ti line r hget) k co _ hco hr
  simp only [Cells.raw] at hnew
  have horigin := LineLevel.created_keys_origin _ ti to line r row' hget hcr
  have hsep' : ∀ k' ∈ RowPrint.visibleKeys row', sanitize k' = sanitize k → k' = k :=
    fun k' hk' => hsep k' (horigin k' (LineLevel.visibleKeys_subset row' k' hk'))
  constructor
  · intro ho
    obtain ⟨hf, hty⟩ := ho
    have hno : NilTy (Cells.rawType co) := by rcases hty with e | e <;> simp [NilTy, e]
    rw [newValue_time ext _ hno t] at hnew
    cases hnew
    have := lookupJV_tree_of_lookup ⟨genTables, ext⟩ k _ (by rw [hf]; simp [Cells.format]) row'
      hsep' hl'
    rw [hf, treeVal_datetime_time ext t _ hy0 hy1] at this
    exact ⟨_, this, _, Time.C14_parse_format t hy0 hy1 h60 hlo hhi, rfl, rfl, rfl⟩
  · intro ho
    obtain ⟨hf, hty⟩ := ho
    have hno : NilTy (Cells.rawType co) := by rcases hty with e | e <;> simp [NilTy, e]
    rw [newValue_time ext _ hno t] at hnew
    cases hnew
    have := lookupJV_tree_of_lookup ⟨genTables, ext⟩ k _ (by rw [hf]; simp [Cells.format]) row'
      hsep' hl'
    rw [hf, treeVal_timestamp_time ext t _] at this
    exact this

/-- **Target 3 for templates declaring the same distinct, sanitize-fixed names** (as every `jl`
    definition does), the member names the reader delivered for the input being fixed by the escaper
    too (true of every input: the reader has already replaced ill-formed bytes): no separation
    hypothesis is left, and the member is found under the column's own name. -/
theorem emitted_line_times_same_names (ext : Ext) (ti to : Tmpl) (line b : Bytes)
    (h : jlLine ⟨genTables, ext⟩ ti to line = .ok (b, none)) (hx : FloatTextOK ext)
    (hto : (OMap.keys to).Nodup) (hperm : (OMap.keys ti).Perm (OMap.keys to))
    (hutf : ∀ k ∈ OMap.keys to, sanitize k = k)
    (hin : ∀ k ∈ Order.inputKeys line, sanitize k = k) :
    ∃ body tree, b = body ++ [0x0A] ∧ Json.unmarshal body = (tree, true) ∧
      ∀ k raw₁ fi tyi raw₂ fo tyo s t,
        (k, Val.cell raw₁ fi tyi) ∈ ti → (k, Val.cell raw₂ fo tyo) ∈ to → IsDT fi tyi →
        LineSpec.lookupJV (LineSpec.normDup (Json.unmarshal line).1) k = some (.str s) →
        Time.parseRFC3339 s = some t → 0 ≤ Time.year t → Time.year t ≤ 9999 →
        t.off % 60 = 0 → -86400 < t.off → t.off < 86400 →
        TimeKept tree k fo tyo t := by
  have hti : (OMap.keys ti).Nodup := hperm.nodup_iff.mpr hto
  obtain ⟨body, tree, hb, hu, hall⟩ := emitted_line_times_pointwise ext ti to line b h hx hti hto
  refine ⟨body, tree, hb, hu, ?_⟩
  intro k raw₁ fi tyi raw₂ fo tyo s t hmi hmo hdt hlast hp hy0 hy1 h60 hlo hhi
  have hfix : ∀ k ∈ OMap.keys to ++ OMap.keys ti ++ Order.inputKeys line, sanitize k = k := by
    intro k' hk'
    rcases List.mem_append.1 hk' with hk' | hk'
    · rcases List.mem_append.1 hk' with hk' | hk'
      · exact hutf k' hk'
      · exact hutf k' (hperm.mem_iff.mp hk')
    · exact hin k' hk'
  have hko : k ∈ OMap.keys to := List.mem_map_of_mem (f := Prod.fst) hmo
  have := hall k _ _ s t (LineLevel.lookup_of_mem_nodup hti hmi) (LineLevel.lookup_of_mem_nodup hto hmo)
    hdt (LineLevel.separated_of_fixed hfix k hko) hlast hp hy0 hy1 h60 hlo hhi
  rw [hutf k hko] at this
  exact this

/-! #### Target 2 for several columns: the oracle on the whole emitted line -/

theorem upsertKV_keys_nodup (acc : List (Bytes × JV)) (k : Bytes) (v : JV)
    (h : (acc.map Prod.fst).Nodup) : ((LineSpec.upsertKV acc k v).map Prod.fst).Nodup := by
  unfold LineSpec.upsertKV
  split
  · have : (acc.map fun kv => if kv.1 == k then (k, v) else kv).map Prod.fst = acc.map Prod.fst := by
      rw [List.map_map]
      apply List.map_congr_left
      intro kv _
      simp only [Function.comp]
      split
      · rename_i hk; exact (eq_of_beq hk).symm
      · rfl
    rw [this]; exact h
  · rename_i hany
    rw [List.map_append, List.map_cons, List.map_nil]
    refine List.nodup_append.2 ⟨h, by simp, ?_⟩
    intro a ha b hb
    simp only [List.mem_cons, List.not_mem_nil, or_false] at hb
    subst hb
    intro e
    subst e
    apply hany
    obtain ⟨kv, hkv, rfl⟩ := List.mem_map.1 ha
    exact List.any_eq_true.2 ⟨kv, hkv, by simp⟩

theorem normDupM_keys_nodup : ∀ (ms : JVMembers) (acc : List (Bytes × JV)),
    (acc.map Prod.fst).Nodup → ((LineSpec.normDupM ms acc).map Prod.fst).Nodup
  | .nil, acc, h => by rw [LineSpec.normDupM]; exact h
  | .cons k v ms, acc, h => by
    rw [LineSpec.normDupM]
    exact normDupM_keys_nodup ms _ (upsertKV_keys_nodup acc k _ h)

theorem lookupL_of_mem {l : List (Bytes × JV)} (hnd : (l.map Prod.fst).Nodup) {k : Bytes} {v : JV}
    (hm : (k, v) ∈ l) : lookupL l k = some v := by
  induction l with
  | nil => cases hm
  | cons a l ih =>
    obtain ⟨k0, v0⟩ := a
    rw [List.map_cons, List.nodup_cons] at hnd
    rw [lookupL_cons]
    rcases List.mem_cons.1 hm with e | hm
    · injection e with e1 e2
      subst e1 e2
      rw [if_pos rfl]
    · have hne : ¬ k0 = k := by
        intro e
        subst e
        exact hnd.1 (List.mem_map.2 ⟨(k0, v), hm, rfl⟩)
      rw [if_neg hne]
      exact ih hnd.2 hm

/-- A member of the input as the oracle reads it is what the oracle's look-up finds under its name. -/
theorem lookupJV_normDup_of_mem {ms : JVMembers} {k : Bytes} {v : JV}
    (hm : (k, v) ∈ (LineSpec.normDup ms).toList) :
    LineSpec.lookupJV (LineSpec.normDup ms) k = some v := by
  rw [LineSpec.normDup, toList_ofList] at hm
  rw [LineSpec.normDup, lookupJV_ofList]
  exact lookupL_of_mem (normDupM_keys_nodup ms [] List.nodup_nil) hm

theorem c14Step_of_timeKept (tree : JVMembers) (k s : Bytes) (t : GoTime) (fo : Format) (tyo : Ty)
    (hp : Time.parseRFC3339 s = some t) (hlo : -86400 < t.off) (hhi : t.off < 86400)
    (hk : TimeKept tree k fo tyo t) (ho : IsDT fo tyo ∨ IsTS fo tyo) :
    c14Step tree none (k, .str s) = none := by
  rcases ho with ho | ho
  · obtain ⟨s', hl, t', ht', h1, h2, h3⟩ := hk.1 ho
    simp [c14Step, hp, hl, ht', h1, h2, h3]
  · have hl := hk.2 ho
    have hd := parsed_domain hp
    have hb := sec_bound t hd.1 hd.2.1 hlo hhi
    have hn : parseInt0 (formatInt t.sec) 64 = some t.sec := by
      rw [parseInt0_formatInt, if_pos]
      constructor <;> simp <;> omega
    simp [c14Step, hp, hl, hn]

/-- **Targets 2 and 3 together.**  Templates declaring the same distinct sanitize-fixed names; an
    accepted line such that every input member (as the oracle reads the input) that is an RFC 3339
    text has an offset below 24 h and sits under a date-time column of the importer whose exporter
    column is one of the date-time / timestamp descriptors of target 1: the oracle finds no violation
    on the emitted line, whatever the other columns and members are. -/
theorem emitted_line_oracle (ext : Ext) (ti to : Tmpl) (line b : Bytes)
    (h : jlLine ⟨genTables, ext⟩ ti to line = .ok (b, none)) (hx : FloatTextOK ext)
    (hto : (OMap.keys to).Nodup) (hperm : (OMap.keys ti).Perm (OMap.keys to))
    (hutf : ∀ k ∈ OMap.keys to, sanitize k = k)
    (hin : ∀ k ∈ Order.inputKeys line, sanitize k = k)
    (hcols : ∀ k s t, (k, JV.str s) ∈ (LineSpec.normDup (Json.unmarshal line).1).toList →
      Time.parseRFC3339 s = some t →
      (-86400 < t.off ∧ t.off < 86400) ∧
      ∃ raw₁ fi tyi raw₂ fo tyo, (k, Val.cell raw₁ fi tyi) ∈ ti ∧ (k, Val.cell raw₂ fo tyo) ∈ to ∧
        IsDT fi tyi ∧ (IsDT fo tyo ∨ IsTS fo tyo)) :
    c14Violation line (jlLine ⟨genTables, ext⟩ ti to line) = none := by
  obtain ⟨body, tree, hb, hu, hall⟩ :=
    emitted_line_times_same_names ext ti to line b h hx hto hperm hutf hin
  -- the input was an object text for the reader
  obtain ⟨r, _, _, hget, _⟩ := Order.jlLine_ok _ ti to line b h
  obtain ⟨row0, _, h1⟩ := Order.getRow_ok _ ti line r none hget
  obtain ⟨_, _, _, hacc⟩ := Order.unmarshalInto_ok _ row0 r line h1
  have hline : Json.unmarshal line = ((Json.unmarshal line).1, true) := by
    rw [← hacc]
  rw [h, hb]
  simp only [c14Violation]
  rw [c14Accepted_of_trees line body _ tree hline hu, c14Trees]
  apply LineLevel.foldl_none
  intro kv hkv
  obtain ⟨k, v⟩ := kv
  cases v with
  | str s =>
    cases hp : Time.parseRFC3339 s with
    | none => simp [c14Step, hp]
    | some t =>
      obtain ⟨⟨hlo, hhi⟩, raw₁, fi, tyi, raw₂, fo, tyo, hmi, hmo, hdt, ho⟩ := hcols k s t hkv hp
      have hd := parsed_domain hp
      exact c14Step_of_timeKept tree k s t fo tyo hp hlo hhi
        (hall k raw₁ fi tyi raw₂ fo tyo s t hmi hmo hdt (lookupJV_normDup_of_mem hkv) hp
          hd.1 hd.2.1 hd.2.2 hlo hhi) ho
  | _ => simp [c14Step]

/-! ### Target 4: a concrete line, computed end to end

  `ti = to =` one date-time column `t`; `{"t":"2021-09-24T21:21:00.999+05:30"}` comes out as
  `{"t":"2021-09-24T21:21:00+05:30"}` and a newline, over the regenerated tables and the empty
  stdlib oracle (no process zone is ever asked). -/
namespace Demo
open RowPrint JsonWrite

def env : Env := ⟨genTables, Ext.empty⟩

def tmpl : Tmpl := withCol [] [0x74] .datetime .none

/-- `2021-09-24T21:21:00.999+05:30` -/
def inS : Bytes :=
  [0x32, 0x30, 0x32, 0x31, 0x2D, 0x30, 0x39, 0x2D, 0x32, 0x34, 0x54, 0x32, 0x31, 0x3A, 0x32, 0x31,
   0x3A, 0x30, 0x30, 0x2E, 0x39, 0x39, 0x39, 0x2B, 0x30, 0x35, 0x3A, 0x33, 0x30]

/-- `2021-09-24T21:21:00+05:30` -/
def outS : Bytes :=
  [0x32, 0x30, 0x32, 0x31, 0x2D, 0x30, 0x39, 0x2D, 0x32, 0x34, 0x54, 0x32, 0x31, 0x3A, 0x32, 0x31,
   0x3A, 0x30, 0x30, 0x2B, 0x30, 0x35, 0x3A, 0x33, 0x30]

/-- `{"t":"2021-09-24T21:21:00.999+05:30"}` -/
def line : Bytes := [0x7B, 0x22, 0x74, 0x22, 0x3A, 0x22] ++ inS ++ [0x22, 0x7D]

/-- `{"t":"2021-09-24T21:21:00+05:30"}` -/
def out : Bytes := [0x7B, 0x22, 0x74, 0x22, 0x3A, 0x22] ++ outS ++ [0x22, 0x7D]

/-- 2021-09-24T15:51:00.999Z, rendered at +05:30 -/
def tm : GoTime := ⟨1632498660, 999000000, 19800⟩

open Json in
theorem unmarshal_line : Json.unmarshal line = (.cons [0x74] (.str inS) .nil, true) := by
  simp [line, inS, unmarshal, token, tokenCore, skipSpace, isSpace, asClose, parseObject, more,
    asKey, asTok, strBody, pre, handleDelim, scanScalar, valueAllowed, valueEnd, isEof]

theorem parse_inS : Time.parseRFC3339 inS = some tm := by decide

theorem civilOf_tm : Time.civilOf tm = ⟨2021, 9, 24, 21, 21, 0⟩ := by decide

theorem format_tm : Time.formatRFC3339 tm = outS := by
  have e : tm.off = 19800 := rfl
  rw [Time.formatRFC3339_eq, civilOf_tm, Time.formatZone_eq, e]
  simp [Time.headText, Time.appendInt, Time.pad4, Time.pad2, Int.tdiv, outS]
  decide

theorem sanitize_t : sanitize [0x74] = [0x74] := JsonPrint.sanitize_of_ascii _ (by decide)

theorem objText_out : objText [0x74] (quote outS) = out := by
  simp [objText, joinComma, quote, quoteBody, htmlSafe, outS, out]

/-- **Target 4.** -/
theorem jlLine_line : jlLine env tmpl tmpl line = .ok (out ++ [0x0A], none) := by
  have h := datetime_line_written Ext.empty [0x74] (fi := .datetime) (fo := .datetime)
    (tyi := .none) (tyo := .none) ⟨rfl, .inl rfl⟩ ⟨rfl, .inl rfl⟩ line inS tm unmarshal_line
    parse_inS (by simp [Time.year, civilOf_tm]) (by simp [Time.year, civilOf_tm])
  rw [format_tm, objText_out] at h
  exact h

/-- Every hypothesis of target 1(a) holds of it, and its conclusion, computed: the emitted member
    is the text `2021-09-24T21:21:00+05:30`, which parses to the same second and offset, the 999 ms
    dropped (not rounded up to `:01`). -/
example : ∃ tree s' t', Json.unmarshal out = (tree, true) ∧
    LineSpec.lookupJV tree [0x74] = some (.str s') ∧ Time.parseRFC3339 s' = some t' ∧
    t'.sec = 1632498660 ∧ t'.off = 19800 ∧ t'.nsec = 0 := by
  obtain ⟨_, hall⟩ := datetime_line Ext.empty [0x74] sanitize_t (fi := .datetime) (fo := .datetime)
    (tyi := .none) (tyo := .none) ⟨rfl, .inl rfl⟩ ⟨rfl, .inl rfl⟩ line inS tm unmarshal_line
    parse_inS (by simp [Time.year, civilOf_tm]) (by simp [Time.year, civilOf_tm])
    (by decide) (by decide) (by decide)
  obtain ⟨body, tree, hb, hu, s', hl, t', ht', h1, h2, h3⟩ := hall _ jlLine_line
  have : body = out := (List.append_cancel_right hb).symm
  subst this
  exact ⟨tree, s', t', hu, hl, ht', h1, h2, h3⟩

theorem parse_outS : Time.parseRFC3339 outS = some ⟨1632498660, 0, 19800⟩ := by decide

/-- The oracle of target 2 on it. -/
example : c14Violation line (jlLine env tmpl tmpl line) = none :=
  datetime_line_oracle Ext.empty [0x74] sanitize_t (fi := .datetime) (fo := .datetime)
    (tyi := .none) (tyo := .none) ⟨rfl, .inl rfl⟩ ⟨rfl, .inl rfl⟩ line inS tm unmarshal_line
    parse_inS (by simp [Time.year, civilOf_tm]) (by simp [Time.year, civilOf_tm])
    (by decide) (by decide) (by decide)

/-- The same column written as a timestamp: `{"t":1632498660}`. -/
example : jlLine env tmpl (withCol [] [0x74] .timestamp (.int .i64)) line =
    .ok ([0x7B, 0x22, 0x74, 0x22, 0x3A, 0x31, 0x36, 0x33, 0x32, 0x34, 0x39, 0x38, 0x36, 0x36, 0x30,
      0x7D, 0x0A], none) := by
  have h := timestamp_line_written Ext.empty [0x74] (fi := .datetime) (fo := .timestamp)
    (tyi := .none) (tyo := .int .i64) ⟨rfl, .inl rfl⟩ ⟨rfl, .inr rfl⟩ line inS tm unmarshal_line
    parse_inS
  have e : tm.sec = 1632498660 := rfl
  refine h.trans ?_
  rw [e]
  simp [objText, joinComma, quote, quoteBody, htmlSafe, formatInt, natDigits, digitChar]


/-! #### The offset bound of 1(a) is needed

  `{"t":"2021-09-24T21:21:00+24:60"}`: the parser (as `time.Parse` does) takes an offset hour of 24
  and an offset minute of 60, i.e. 25 h.  The line is accepted and `+25:00` is written, which the
  parser refuses: the emitted member is NOT read back as the same instant — it is not read back at
  all (the oracle's `written-text-unreadable`). -/

/-- `2021-09-24T21:21:00+24:60` -/
def farS : Bytes :=
  [0x32, 0x30, 0x32, 0x31, 0x2D, 0x30, 0x39, 0x2D, 0x32, 0x34, 0x54, 0x32, 0x31, 0x3A, 0x32, 0x31,
   0x3A, 0x30, 0x30, 0x2B, 0x32, 0x34, 0x3A, 0x36, 0x30]

/-- `2021-09-24T21:21:00+25:00` -/
def farOut : Bytes :=
  [0x32, 0x30, 0x32, 0x31, 0x2D, 0x30, 0x39, 0x2D, 0x32, 0x34, 0x54, 0x32, 0x31, 0x3A, 0x32, 0x31,
   0x3A, 0x30, 0x30, 0x2B, 0x32, 0x35, 0x3A, 0x30, 0x30]

def farT : GoTime := ⟨1632428460, 0, 90000⟩

theorem parse_farS : Time.parseRFC3339 farS = some farT := by decide

theorem civilOf_farT : Time.civilOf farT = ⟨2021, 9, 24, 21, 21, 0⟩ := by decide

theorem format_farT : Time.formatRFC3339 farT = farOut := by
  have e : farT.off = 90000 := rfl
  rw [Time.formatRFC3339_eq, civilOf_farT, Time.formatZone_eq, e]
  simp [Time.headText, Time.appendInt, Time.pad4, Time.pad2, Int.tdiv, farOut]
  decide

theorem parse_farOut : Time.parseRFC3339 farOut = none := by decide

theorem offset_bound_needed (line : Bytes)
    (hline : Json.unmarshal line = (.cons [0x74] (.str farS) .nil, true)) :
    ∃ body, jlLine env tmpl tmpl line = .ok (body ++ [0x0A], none) ∧
      Json.unmarshal body = (.cons [0x74] (.str farOut) .nil, true) ∧
      Time.parseRFC3339 farOut = none ∧
      c14Violation line (jlLine env tmpl tmpl line) = some "written-text-unreadable" := by
  have hw := datetime_line_accepted Ext.empty [0x74] (fi := .datetime) (fo := .datetime)
    (tyi := .none) (tyo := .none) ⟨rfl, .inl rfl⟩ ⟨rfl, .inl rfl⟩ line farS farT hline parse_farS
  have hu := unmarshal_datetime_out sanitize_t farT
  rw [format_farT] at hw hu
  refine ⟨_, hw, hu, parse_farOut, ?_⟩
  rw [show jlLine env tmpl tmpl line = _ from hw]
  simp only [c14Violation]
  rw [c14Accepted_of_trees line _ _ _ hline hu, c14Trees,
    normDup_single _ (.str farS) (by simp [LineSpec.normDupV]), List.foldl_cons, List.foldl_nil]
  simp [c14Step, parse_farS, lookupJV_single, parse_farOut]

/-- …and such a line exists: the literal one. -/
example : Json.unmarshal (lineOfStr [0x74] farS) = (.cons [0x74] (.str farS) .nil, true) :=
  unmarshal_lineOfStr sanitize_t parse_farS

/-! #### The importer column of target 1 has to be a date-time column

  Under a TIMESTAMP importer column the same member is refused: `Import` goes through `ToInt64`
  (not `ToTimestamp`), which does not read date-time texts.  The line is rejected — and the oracle,
  whose rejected branch does not look at the column declarations, reports it. -/

theorem toInt64_inS : castNamed genTables Ext.empty "ToInt64" (.str inS) = .err .cast := by
  have h : parseInt0 inS 64 = none := by decide
  simp [castNamed, callNamed, genTables, Gen.casters, findClause, typeOf, evalBranch, runParse, h,
    failWith, Gen.sentinels, wrapsRoot]

theorem timestamp_importer_rejects_text :
    jlLine env (withCol [] [0x74] .timestamp .none) tmpl line = .ok ([], some .unsupportedImport) := by
  have hi : importCell ⟨genTables, Ext.empty⟩ .timestamp .none (.str inS) =
      .ok (.cell .nil .timestamp .none, some .unsupportedImport) := by
    simp [importCell, importByFormat, importFrom, importFail, toInt64_inS]
  simp [withCol_nil, jlLine, getRow, createRowEmpty,
    cloneRow_col Ext.empty [0x74] .timestamp (ty := .none) (.inl rfl), unmarshalInto, unmarshal_line,
    ofJVMembers, ofJV, parseMembers, parseMember, lookup, OMap.lookup, importVal, importInto, hi, env]

example : c14Violation line (jlLine env (withCol [] [0x74] .timestamp .none) tmpl line) =
    some "explicit-offset-string-rejected" := by
  rw [timestamp_importer_rejects_text]
  exact c14Rejected_fires line [0x74] inS tm unmarshal_line parse_inS
    (by simp [Time.year, civilOf_tm]) (by simp [Time.year, civilOf_tm])
    (by decide) (by decide) (by decide) _

/-! #### Target 3 is not vacuous: two columns, a numeric one beside the date-time one

  Importer `n` (numeric), `t` (date-time); exporter `n` (numeric), `t` (timestamp, int64); input
  `{"t":"2021-09-24T21:21:00.999+05:30","n":1}`.  Every hypothesis of
  `emitted_line_times_same_names` holds, the line is accepted, and the conclusion for column `t` is
  the timestamp clause: the member is the literal `1632498660`. -/

def ti2 : Tmpl := withCol (withCol [] [0x6E] .numeric .none) [0x74] .datetime .none
def to2 : Tmpl := withCol (withCol [] [0x6E] .numeric .none) [0x74] .timestamp (.int .i64)

/-- `{"t":"2021-09-24T21:21:00.999+05:30","n":1}` -/
def line2 : Bytes :=
  [0x7B, 0x22, 0x74, 0x22, 0x3A, 0x22] ++ inS ++ [0x22, 0x2C, 0x22, 0x6E, 0x22, 0x3A, 0x31, 0x7D]

theorem ti2_eq : ti2 = [([0x6E], .cell .nil .numeric .none), ([0x74], .cell .nil .datetime .none)] := rfl
theorem to2_eq :
    to2 = [([0x6E], .cell .nil .numeric .none), ([0x74], .cell .nil .timestamp (.int .i64))] := rfl

open Json in
theorem unmarshal_line2 : Json.unmarshal line2 =
    (.cons [0x74] (.str inS) (.cons [0x6E] (.num [0x31]) .nil), true) := by
  simp [line2, inS, unmarshal, token, tokenCore, skipSpace, isSpace, asClose, parseObject, more,
    asKey, asTok, strBody, pre, handleDelim, scanScalar, scanNumber, scanInt, scanFracExp, digits,
    Json.isDigit, valueAllowed, valueEnd, isEof]

theorem inputKeys_line2 : Order.inputKeys line2 = [[0x74], [0x6E]] := by
  simp [Order.inputKeys, unmarshal_line2, JVMembers.toList]

def imported2 : List (Bytes × Val) :=
  [([0x6E], .cell (.num [0x31]) .numeric .none), ([0x74], .cell (.time tm) .datetime .none)]

def created2 : List (Bytes × Val) :=
  [([0x6E], .cell (.num [0x31]) .numeric .none), ([0x74], .cell (.time tm) .timestamp (.int .i64))]

theorem import_n : importCell ⟨genTables, Ext.empty⟩ .numeric .none (.num [0x31]) =
    .ok (.cell (.num [0x31]) .numeric .none, none) := rfl

theorem getRow_line2 : getRow env ti2 line2 = .ok (imported2, none) := by
  have h0 : cloneRow env ti2 = .ok ti2 := rfl
  have ht := import_datetime_string Ext.empty (tyi := .none) (.inl rfl) inS tm parse_inS
  unfold getRow createRowEmpty
  rw [h0]
  simp only [unmarshalInto, unmarshal_line2]
  simp [ti2_eq, ofJVMembers, ofJV, parseMembers, parseMember, lookup, OMap.lookup, importVal,
    importInto, upsert, OMap.upsert, import_n, ht, env, imported2]

theorem createRow_imported2 :
    createRow env to2 (.val (.row (Members.ofList imported2))) = .ok (created2, none) := rfl

theorem marshal_n : marshalVal env (.cell (.num [0x31]) .numeric .none) = .ok [0x31] := by
  have he : exportVal env (.cell (.num [0x31]) .numeric .none) = .ok (.num [0x31]) := rfl
  rw [marshalVal.eq_def]
  simp only [he]
  rw [marshalExported.eq_def]
  rfl

theorem jlLine_line2 : ∃ body, jlLine env ti2 to2 line2 = .ok (body ++ [0x0A], none) := by
  have hm : marshalMembers env (Members.ofList created2) =
      .ok [quote [0x6E] ++ 0x3A :: [0x31], quote [0x74] ++ 0x3A :: formatInt tm.sec] :=
    JsonPrint.marshalMembers_cons env _ _ _ (by decide) marshal_n
      (JsonPrint.marshalMembers_cons env _ _ _ (by decide)
        (marshal_timestamp_time Ext.empty tm (.int .i64)) (JsonPrint.marshalMembers_nil env))
  refine ⟨0x7B :: (joinComma [quote [0x6E] ++ 0x3A :: [0x31],
    quote [0x74] ++ 0x3A :: formatInt tm.sec] ++ [0x7D]), ?_⟩
  simp only [jlLine, getRow_line2, exportLine, createRow_imported2,
    JsonPrint.marshalRow_eq env _ hm]

theorem floatOK : FloatTextOK env.ext := by
  intro b sz s h; cases h

theorem sanitize_n : sanitize [0x6E] = [0x6E] := JsonPrint.sanitize_of_ascii _ (by decide)

example : ∃ body tree, jlLine env ti2 to2 line2 = .ok (body ++ [0x0A], none) ∧
    Json.unmarshal body = (tree, true) ∧
    LineSpec.lookupJV tree [0x74] = some (.num (formatInt 1632498660)) := by
  obtain ⟨body0, hj⟩ := jlLine_line2
  obtain ⟨body, tree, hb, hu, hall⟩ :=
    emitted_line_times_same_names Ext.empty ti2 to2 line2 _ hj floatOK (by rw [to2_eq]; decide)
      (by rw [ti2_eq, to2_eq]; exact List.Perm.refl _)
      (by
        intro k hk
        rw [to2_eq] at hk
        simp only [OMap.keys, List.map_cons, List.map_nil, List.mem_cons, List.not_mem_nil,
          or_false] at hk
        rcases hk with rfl | rfl
        · exact sanitize_n
        · exact sanitize_t)
      (by
        intro k hk
        rw [inputKeys_line2] at hk
        simp only [List.mem_cons, List.not_mem_nil, or_false] at hk
        rcases hk with rfl | rfl
        · exact sanitize_t
        · exact sanitize_n)
  have : body = body0 := (List.append_cancel_right hb).symm
  subst this
  refine ⟨body, tree, hj, hu, ?_⟩
  have hlast : LineSpec.lookupJV (LineSpec.normDup (Json.unmarshal line2).1) [0x74] =
      some (.str inS) := by
    rw [unmarshal_line2]
    simp [LineSpec.normDup, LineSpec.normDupM, LineSpec.normDupV, LineSpec.upsertKV,
      JVMembers.ofList, LineLevel.lookupJV_cons]
  exact (hall [0x74] .nil .datetime .none .nil .timestamp (.int .i64) inS tm
    (by rw [ti2_eq]; simp) (by rw [to2_eq]; simp) ⟨rfl, .inl rfl⟩ hlast parse_inS
    (by simp [Time.year, civilOf_tm]) (by simp [Time.year, civilOf_tm])
    (by decide) (by decide) (by decide)).2 ⟨rfl, .inr rfl⟩

/-- `emitted_line_oracle` applies to it: the oracle finds no violation on the two-column line. -/
example : c14Violation line2 (jlLine env ti2 to2 line2) = none := by
  obtain ⟨body0, hj⟩ := jlLine_line2
  refine emitted_line_oracle Ext.empty ti2 to2 line2 _ hj floatOK (by rw [to2_eq]; decide)
    (by rw [ti2_eq, to2_eq]; exact List.Perm.refl _) ?_ ?_ ?_
  · intro k hk
    rw [to2_eq] at hk
    simp only [OMap.keys, List.map_cons, List.map_nil, List.mem_cons, List.not_mem_nil,
      or_false] at hk
    rcases hk with rfl | rfl
    · exact sanitize_n
    · exact sanitize_t
  · intro k hk
    rw [inputKeys_line2] at hk
    simp only [List.mem_cons, List.not_mem_nil, or_false] at hk
    rcases hk with rfl | rfl
    · exact sanitize_t
    · exact sanitize_n
  · intro k s t hm hp
    rw [unmarshal_line2] at hm
    simp [LineSpec.normDup, LineSpec.normDupM, LineSpec.normDupV, LineSpec.upsertKV,
      JVMembers.ofList, JVMembers.toList] at hm
    obtain ⟨rfl, rfl⟩ := hm
    rw [parse_inS] at hp
    cases hp
    exact ⟨by decide, .nil, .datetime, .none, .nil, .timestamp, .int .i64, by rw [ti2_eq]; simp,
      by rw [to2_eq]; simp, ⟨rfl, .inl rfl⟩, .inr ⟨rfl, .inr rfl⟩⟩

/-! #### 1(c) is not vacuous: `{"t":0}` in a process zone one hour east of UTC

  `TimeShape.extPlus1` answers +3600 at every instant: the member written is a text that parses to
  `⟨0, 0, 3600⟩` — the epoch, at +01:00. -/
example : ∃ body tree s',
    jlLine ⟨genTables, TimeShape.extPlus1⟩ (withCol [] [0x74] .timestamp .none)
      (withCol [] [0x74] .datetime .none) (lineOfInt [0x74] 0) = .ok (body ++ [0x0A], none) ∧
    Json.unmarshal body = (tree, true) ∧ LineSpec.lookupJV tree [0x74] = some (.str s') ∧
    Time.parseRFC3339 s' = some ⟨0, 0, 3600⟩ := by
  have hc : Time.civilOf ⟨0, 0, 3600⟩ = ⟨1970, 1, 1, 1, 0, 0⟩ := by decide
  exact unix_line_literal TimeShape.extPlus1 [0x74] sanitize_t (fi := .timestamp) (fo := .datetime)
    (tyi := .none) (tyo := .none) ⟨rfl, .inl rfl⟩ ⟨rfl, .inl rfl⟩ 0 3600 rfl
    (by simp [Time.year, hc]) (by simp [Time.year, hc]) (by decide) (by decide) (by decide)

end Demo

end Jl.LineTime
