/-
  Proofs.RowTieMarshal — MarshalJSON's buffer discipline and the Format constants of row.go
  (one of the files Proofs.RowTie* : split so that a change of one function of row.go stops only the
  properties that rest on it; the overview is in Proofs/RowTie.lean)
-/
import Model.RowFactsSpec
import Model.RowPrint
import Model.MapTo
import Gen.RowFacts

namespace Jl.RowTie
open Jl

/-! ### MarshalJSON -/

/-- One piece of a member, given the marshalled key and cell. -/
def pieceG (kb vb : Bytes) : Piece → Bytes
  | .key => kb
  | .cell => vb
  | .byte b => [UInt8.ofNat b]
  | .other _ => []

/-- The closing: a buffer longer than `n` has its last byte replaced, any other gets the byte appended. -/
def closeG (n : Nat) (c : UInt8) (buf : Bytes) : Bytes :=
  if buf.length > n then buf.dropLast ++ [c] else buf ++ [c]

/-- The walk: the buffer so far, the members in list order; a cell whose format is the skipped constant adds
    nothing; the others add the pieces; a failed marshal of the cell is the result (a key — a string — always
    marshals: `JsonWrite.quote`). -/
def walkG (skip : Format) (pieces : List Piece) (mv : Val → Outcome Bytes) : Bytes → List (Bytes × Val) → Outcome Bytes
  | buf, [] => .ok buf
  | buf, (k, v) :: rest =>
    if Cells.format v == skip then walkG skip pieces mv buf rest
    else
      match mv v with
      | .ok vb => walkG skip pieces mv (buf ++ (pieces.map (pieceG (JsonWrite.quote k) vb)).flatten) rest
      | .err e => .err e
      | .panic s => .panic s

/-- The Format constant of a number (`Proofs.ValueTie.formats_as_modelled`: the constants are numbered as
    Model.Basic's `Format` is ordered). -/
def formatOf : Int → Format
  | 0 => .string | 1 => .numeric | 2 => .boolean | 3 => .binary | 4 => .date | 5 => .datetime
  | 6 => .timestamp | 7 => .auto | 8 => .hidden | _ => .bad

theorem formatOf_ctorIdx (f : Format) (h : f ≠ .bad) : formatOf (f.ctorIdx : Int) = f := by
  cases f <;> first | rfl | exact absurd rfl h

/-- The walk of the other discipline: a member that is written first gets the separator when the buffer is longer
    than `n` (something was written after the opening), then the pieces. -/
def walkSepG (skip : Format) (n : Nat) (sep : UInt8) (pieces : List Piece) (mv : Val → Outcome Bytes) :
    Bytes → List (Bytes × Val) → Outcome Bytes
  | buf, [] => .ok buf
  | buf, (k, v) :: rest =>
    if Cells.format v == skip then walkSepG skip n sep pieces mv buf rest
    else
      match mv v with
      | .ok vb =>
        walkSepG skip n sep pieces mv
          ((if buf.length > n then buf ++ [sep] else buf) ++ (pieces.map (pieceG (JsonWrite.quote k) vb)).flatten) rest
      | .err e => .err e
      | .panic s => .panic s

/-- `row.MarshalJSON` read off the fact. `none`: the fact is `unknown`. -/
def marshalRowG (f : MarshalFact) (mv : Val → Outcome Bytes) (ms : List (Bytes × Val)) : Option (Outcome Bytes) :=
  match f with
  | .unknown _ => none
  | .members opening skip pieces n c =>
    some (
      match walkG (formatOf skip) pieces mv (opening.map UInt8.ofNat) ms with
      | .ok buf => .ok (closeG n (UInt8.ofNat c) buf)
      | .err e => .err e
      | .panic s => .panic s)
  | .separated opening skip n sep pieces c =>
    some (
      match walkSepG (formatOf skip) n (UInt8.ofNat sep) pieces mv (opening.map UInt8.ofNat) ms with
      | .ok buf => .ok (buf ++ [UInt8.ofNat c])
      | .err e => .err e
      | .panic s => .panic s)

/-- The members `marshalMembers` collects, over an abstract cell marshaller. -/
def partsG (mv : Val → Outcome Bytes) : List (Bytes × Val) → Outcome (List Bytes)
  | [] => .ok []
  | (k, v) :: rest =>
    if Cells.format v == .hidden then partsG mv rest
    else
      match mv v with
      | .ok b =>
        match partsG mv rest with
        | .ok ps => .ok ((JsonWrite.quote k ++ 0x3A :: b) :: ps)
        | .err e => .err e
        | .panic s => .panic s
      | .err e => .err e
      | .panic s => .panic s

theorem parts_eq (env : Value.Env) : ∀ ms : Members,
    RowPrint.marshalMembers env ms = partsG (RowPrint.marshalVal env) ms.toList
  | .nil => by simp [RowPrint.marshalMembers, Members.toList, partsG]
  | .cons k v ms => by
    have ih := parts_eq env ms
    rw [RowPrint.marshalMembers]
    simp only [Members.toList, partsG, ih]
    split
    · rfl
    · cases RowPrint.marshalVal env v with
      | ok b => cases partsG (RowPrint.marshalVal env) ms.toList <;> rfl
      | err e => rfl
      | panic s => rfl

/-- `x ++ "," ++ y ++ "," …` is `joinComma` followed by one more comma. -/
theorem flatten_commas : ∀ (p : Bytes) (ps : List Bytes),
    ((p :: ps).map (· ++ [0x2C])).flatten = RowPrint.joinComma (p :: ps) ++ [0x2C] := by
  intro p ps
  induction ps generalizing p with
  | nil => simp [RowPrint.joinComma]
  | cons q qs ih =>
    have := ih q
    simp only [List.map_cons, List.flatten_cons] at this ⊢
    rw [this]
    simp [RowPrint.joinComma]

/-- The buffer discipline: `{`, every member followed by a comma, then the last byte replaced by `}` when
    something was written and `}` appended otherwise — is `{` + the members joined by commas + `}`. -/
theorem close_commas (ps : List Bytes) :
    closeG 1 0x7D (0x7B :: (ps.map (· ++ [0x2C])).flatten) = 0x7B :: (RowPrint.joinComma ps ++ [0x7D]) := by
  cases ps with
  | nil => simp [closeG, RowPrint.joinComma]
  | cons p ps =>
    rw [flatten_commas]
    have hlen : (0x7B :: (RowPrint.joinComma (p :: ps) ++ [0x2C])).length > 1 := by simp
    rw [closeG, if_pos hlen]
    have : (0x7B :: (RowPrint.joinComma (p :: ps) ++ [(0x2C : UInt8)])) = (0x7B :: RowPrint.joinComma (p :: ps)) ++ [0x2C] := by simp
    rw [this, List.dropLast_concat]
    simp

theorem walk_parts (mv : Val → Outcome Bytes) : ∀ (ms : List (Bytes × Val)) (buf : Bytes),
    walkG .hidden [.key, .byte 0x3A, .cell, .byte 0x2C] mv buf ms =
      match partsG mv ms with
      | .ok ps => .ok (buf ++ (ps.map (· ++ [0x2C])).flatten)
      | .err e => .err e
      | .panic s => .panic s := by
  intro ms
  induction ms with
  | nil => intro buf; simp [walkG, partsG]
  | cons kv ms ih =>
    intro buf
    cases kv with
    | mk k v =>
      simp only [walkG, partsG]
      split
      · exact ih buf
      · cases hv : mv v with
        | ok vb =>
          simp only [ih]
          cases partsG mv ms with
          | ok ps => simp [pieceG]
          | err e => rfl
          | panic s => rfl
        | err e => rfl
        | panic s => rfl

theorem joinComma_cons2 (a b : Bytes) (bs : List Bytes) :
    RowPrint.joinComma (a :: b :: bs) = a ++ 0x2C :: RowPrint.joinComma (b :: bs) := by
  simp [RowPrint.joinComma]

theorem joinComma_snoc : ∀ (acc : List Bytes) (p : Bytes), acc ≠ [] →
    RowPrint.joinComma (acc ++ [p]) = RowPrint.joinComma acc ++ 0x2C :: p := by
  intro acc
  induction acc with
  | nil => intro p h; exact absurd rfl h
  | cons a as ih =>
    intro p _
    cases as with
    | nil => simp [RowPrint.joinComma]
    | cons b bs =>
      have := ih p (by simp)
      simp only [List.cons_append] at this ⊢
      rw [joinComma_cons2, this, joinComma_cons2]
      simp

theorem joinComma_ne_nil (a : Bytes) (as : List Bytes) (ha : a ≠ []) : RowPrint.joinComma (a :: as) ≠ [] := by
  cases as with
  | nil => simpa [RowPrint.joinComma] using ha
  | cons b bs => simp [RowPrint.joinComma, ha]

/-- One step of the other discipline on a buffer that is `{` + the members so far joined by commas. -/
theorem sep_step (acc : List Bytes) (hacc : ∀ p ∈ acc, p ≠ []) (part : Bytes) :
    (if (0x7B :: RowPrint.joinComma acc).length > 1 then (0x7B :: RowPrint.joinComma acc) ++ [0x2C]
      else 0x7B :: RowPrint.joinComma acc) ++ part = 0x7B :: RowPrint.joinComma (acc ++ [part]) := by
  cases acc with
  | nil => simp [RowPrint.joinComma]
  | cons a as =>
    have hne := joinComma_ne_nil a as (hacc a (by simp))
    have hlen : (0x7B :: RowPrint.joinComma (a :: as)).length > 1 := by
      cases h : RowPrint.joinComma (a :: as) with
      | nil => exact absurd h hne
      | cons x xs => simp
    rw [if_pos hlen, joinComma_snoc (a :: as) part (by simp)]
    simp

theorem walkSep_parts (mv : Val → Outcome Bytes) : ∀ (ms : List (Bytes × Val)) (acc : List Bytes), (∀ p ∈ acc, p ≠ []) →
    walkSepG .hidden 1 0x2C [.key, .byte 0x3A, .cell] mv (0x7B :: RowPrint.joinComma acc) ms =
      match partsG mv ms with
      | .ok ps => .ok (0x7B :: RowPrint.joinComma (acc ++ ps))
      | .err e => .err e
      | .panic s => .panic s := by
  intro ms
  induction ms with
  | nil => intro acc _; simp [walkSepG, partsG]
  | cons kv ms ih =>
    intro acc hacc
    cases kv with
    | mk k v =>
      simp only [walkSepG, partsG]
      split
      · exact ih acc hacc
      · cases hv : mv v with
        | ok vb =>
          have hpart : ([Piece.key, .byte 0x3A, .cell].map (pieceG (JsonWrite.quote k) vb)).flatten = JsonWrite.quote k ++ 0x3A :: vb := by
            simp [pieceG]
          simp only [hpart, sep_step acc hacc]
          have hacc' : ∀ p ∈ acc ++ [JsonWrite.quote k ++ 0x3A :: vb], p ≠ [] := by
            intro p hp
            rcases List.mem_append.mp hp with h | h
            · exact hacc p h
            · simp at h; subst h; simp
          rw [ih _ hacc']
          cases partsG mv ms with
          | ok ps => simp
          | err e => rfl
          | panic s => rfl
        | err e => rfl
        | panic s => rfl

/-- `row.MarshalJSON` is `RowPrint.marshalVal env (.row ms)` under EITHER comma discipline: the separator after every
    member and the last one replaced by `}`, or the separator in front of every member but the first and `}` appended. -/
theorem marshal_either (env : Value.Env) (ms : Members) (f : MarshalFact)
    (h : f = .members [123] 8 [.key, .byte 58, .cell, .byte 44] 1 125
       ∨ f = .separated [123] 8 1 44 [.key, .byte 58, .cell] 125) :
    marshalRowG f (RowPrint.marshalVal env) ms.toList = some (RowPrint.marshalVal env (.row ms)) := by
  have hf : formatOf 8 = .hidden := rfl
  have h1 : ([123] : List Nat).map UInt8.ofNat = [0x7B] := by decide
  have hc : UInt8.ofNat 125 = 0x7D := by decide
  rw [RowPrint.marshalVal, parts_eq]
  rcases h with h | h
  · subst h
    have hw := walk_parts (RowPrint.marshalVal env) ms.toList [0x7B]
    simp only [marshalRowG, hf]
    have h2 : ([.key, .byte 58, .cell, .byte 44] : List Piece) = [.key, .byte 0x3A, .cell, .byte 0x2C] := rfl
    rw [h1, h2, hw]
    cases partsG (RowPrint.marshalVal env) ms.toList with
    | ok ps =>
      simp only [hc]
      have := close_commas ps
      simp only [List.cons_append, List.nil_append] at this ⊢
      rw [this]
    | err e => rfl
    | panic s => rfl
  · subst h
    have hw := walkSep_parts (RowPrint.marshalVal env) ms.toList [] (by simp)
    simp only [marshalRowG, hf]
    have h2 : ([.key, .byte 58, .cell] : List Piece) = [.key, .byte 0x3A, .cell] := rfl
    have h3 : UInt8.ofNat 44 = 0x2C := by decide
    have h4 : (0x7B :: RowPrint.joinComma []) = [0x7B] := rfl
    rw [h1, h2, h3, ← h4, hw]
    cases partsG (RowPrint.marshalVal env) ms.toList with
    | ok ps => simp [hc]
    | err e => rfl
    | panic s => rfl

/-- `row.MarshalJSON`, as the source says it today, is `RowPrint.marshalVal env (.row ms)`. -/
theorem marshal_as_modelled (env : Value.Env) (ms : Members) :
    marshalRowG Gen.rowFacts.marshal (RowPrint.marshalVal env) ms.toList = some (RowPrint.marshalVal env (.row ms)) :=
  marshal_either env ms Gen.rowFacts.marshal (by decide)


/-- The format a row reports for itself is `.auto` (`Cells.format (.row _)`), the format MarshalJSON skips is
    `.hidden` (`RowPrint.marshalMembers`), and a row has no raw type (`Cells.rawType (.row _) = .none`). -/
theorem formats_as_modelled (ms : Members) :
    Gen.rowFacts.selfFormat.map formatOf = some (Cells.format (.row ms))
    ∧ Gen.rowFacts.marshal.skipFormat = some (Format.hidden.ctorIdx : Int)
    ∧ Gen.rowFacts.selfRawTypeNil = true ∧ Cells.rawType (.row ms) = .none := by
  exact ⟨rfl, by decide, rfl, rfl⟩


end Jl.RowTie
