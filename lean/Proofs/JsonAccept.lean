/-
  Proofs.JsonAccept — C16: `Json.accepts` (json.Decoder in token mode driven by row.go's
  recursive-descent parser) accepts exactly the texts that are one RFC 8259 object surrounded
  by optional whitespace (`Grammar.IsObjectText`).

  Main results: `accepts_sound`, `accepts_complete`, `accepts_iff`, `rejects_iff`;
  `sound_all` (induction on fuel: `parseObject`/`parseArray`/`handleDelim` consume exactly
  grammar text), `comp_all` (induction on text length: grammar text is consumed, fuel ≥ length
  suffices), `parseObject_mono`/`parseArray_mono`/`handleDelim_mono` (fuel monotonicity),
  `accepts_ws_false`, `accepts_false_of_head`, and the explicit examples at the end.
  The model (Model.JsonRead) and the grammar (Model.JsonGrammar) are used unchanged.
-/
import Proofs.JsonLexical

namespace Jl.JsonAcc
open Json JsonLex

/-! ### `tokenCore` and `token`, state by state (inversion) -/

theorem tokenCore_nil (st : TokState) (stack : List TokState) : tokenCore st stack [] = .eof := rfl

/-- Outside the three "separator expected" states `token` is `tokenCore` after the spaces. -/
theorem token_eq_core (buf : Bytes) (st : TokState) (stack : List TokState)
    (h1 : st ≠ .objectColon) (h2 : st ≠ .arrayComma) (h3 : st ≠ .objectComma) :
    token ⟨buf, st, stack⟩ = tokenCore st stack (skipSpace buf) := by
  unfold token
  simp only []
  cases hs : skipSpace buf with
  | nil => rfl
  | cons c rest =>
    simp only []
    by_cases hc : c = 0x3A
    · subst hc
      simp [tokenCore, h1]
    · by_cases hc' : c = 0x2C
      · subst hc'
        simp [tokenCore, h2, h3]
      · simp [hc, hc']


theorem va_not_key {st : TokState} (h : valueAllowed st = true) :
    (st == .objectStart || st == .objectKey) = false := by
  cases st <;> first | rfl | cases h

theorem va_not_objclose {st : TokState} (h : valueAllowed st = true) :
    (st == .objectStart || st == .objectComma) = false := by
  cases st <;> first | rfl | cases h

/-- What `tokenCore` can deliver where a value is allowed. -/
theorem tokenCore_value_inv {st : TokState} {stack : List TokState} {buf : Bytes} {t : Tok} {d1 : Dec}
    (hv : valueAllowed st = true) (h : tokenCore st stack buf = .tok t d1) :
    (∃ r, buf = 0x5B :: r ∧ t = .lbrack ∧ d1 = ⟨r, .arrayStart, st :: stack⟩) ∨
    (∃ r, buf = 0x7B :: r ∧ t = .lbrace ∧ d1 = ⟨r, .objectStart, st :: stack⟩) ∨
    t = .rbrack ∨
    (∃ r, scanScalar buf = some (t, r) ∧ d1 = ⟨r, valueEnd st, stack⟩) := by
  cases buf with
  | nil => cases h
  | cons c rest =>
    simp only [tokenCore, hv, va_not_key hv, va_not_objclose hv, Bool.and_false, if_true] at h
    split at h
    · rename_i hc
      simp only [beq_iff_eq] at hc; subst hc
      cases h
      exact .inl ⟨rest, rfl, rfl, rfl⟩
    · split at h
      · right; right; left
        repeat' split at h
        all_goals first | (cases h; rfl) | cases h
      · split at h
        · rename_i hc
          simp only [beq_iff_eq] at hc; subst hc
          cases h
          exact .inr (.inl ⟨rest, rfl, rfl, rfl⟩)
        · split at h
          · simp at h
          · split at h
            · cases h
            · simp only [Bool.false_eq_true, if_false] at h
              split at h
              · rename_i t' r heq
                cases h
                exact .inr (.inr (.inr ⟨r, heq, rfl⟩))
              · cases h

theorem asClose_some {close : Tok} {res : TokRes} {d' : Dec} (h : asClose close res = some d') :
    res = .tok close d' := by
  cases res with
  | tok t d =>
    simp only [asClose] at h
    split at h
    · rename_i ht; injection h with h; rw [ht, h]
    · cases h
  | eof => cases h
  | err => cases h

/-- Closing brace. -/
theorem tokenCore_rbrace_inv {st : TokState} {stack : List TokState} {buf : Bytes} {d' : Dec}
    (h : tokenCore st stack buf = .tok .rbrace d') :
    ∃ r s stk, buf = 0x7D :: r ∧ stack = s :: stk ∧ d' = ⟨r, valueEnd s, stk⟩ ∧
      (st = .objectStart ∨ st = .objectComma) := by
  cases buf with
  | nil => cases h
  | cons c rest =>
    simp only [tokenCore] at h
    split at h
    · split at h <;> cases h
    · split at h
      · repeat' split at h
        all_goals cases h
      · split at h
        · split at h <;> cases h
        · split at h
          · rename_i hc
            simp only [beq_iff_eq] at hc; subst hc
            split at h
            · rename_i hst
              split at h
              · rename_i s stk
                cases h
                refine ⟨rest, s, stk, rfl, rfl, rfl, ?_⟩
                simpa using hst
              · cases h
            · cases h
          · split at h
            · cases h
            · split at h
              · split at h <;> cases h
              · split at h
                · split at h
                  · rename_i t r heq
                    have := (scanScalar_sound heq).2
                    cases h
                    cases this
                  · cases h
                · cases h

/-- Closing bracket. -/
theorem tokenCore_rbrack_inv {st : TokState} {stack : List TokState} {buf : Bytes} {d' : Dec}
    (h : tokenCore st stack buf = .tok .rbrack d') :
    ∃ r s stk, buf = 0x5D :: r ∧ stack = s :: stk ∧ d' = ⟨r, valueEnd s, stk⟩ ∧
      (st = .arrayStart ∨ st = .arrayComma) := by
  cases buf with
  | nil => cases h
  | cons c rest =>
    simp only [tokenCore] at h
    split at h
    · split at h <;> cases h
    · split at h
      · rename_i hc
        simp only [beq_iff_eq] at hc; subst hc
        split at h
        · rename_i hst
          split at h
          · rename_i s stk
            cases h
            refine ⟨rest, s, stk, rfl, rfl, rfl, ?_⟩
            simpa using hst
          · cases h
        · cases h
      · split at h
        · split at h <;> cases h
        · split at h
          · repeat' split at h
            all_goals cases h
          · split at h
            · cases h
            · split at h
              · split at h <;> cases h
              · split at h
                · split at h
                  · rename_i t r heq
                    have := (scanScalar_sound heq).2
                    cases h
                    cases this
                  · cases h
                · cases h

theorem tokenCore_objectColon (stack : List TokState) (buf : Bytes) (t : Tok) (d : Dec) :
    tokenCore .objectColon stack buf ≠ .tok t d := by
  cases buf with
  | nil => intro h; cases h
  | cons c rest =>
    simp only [tokenCore, valueAllowed]
    intro h
    repeat' split at h
    all_goals first | (cases h; done) | simp_all

theorem tokenCore_objectComma_inv {stack : List TokState} {buf : Bytes} {t : Tok} {d : Dec}
    (h : tokenCore .objectComma stack buf = .tok t d) : t = .rbrace := by
  cases buf with
  | nil => cases h
  | cons c rest =>
    simp only [tokenCore, valueAllowed] at h
    repeat' split at h
    all_goals first | (cases h; done) | (cases h; rfl) | simp_all

theorem tokenCore_arrayComma_inv {stack : List TokState} {buf : Bytes} {t : Tok} {d : Dec}
    (h : tokenCore .arrayComma stack buf = .tok t d) : t = .rbrack := by
  cases buf with
  | nil => cases h
  | cons c rest =>
    simp only [tokenCore, valueAllowed] at h
    repeat' split at h
    all_goals first | (cases h; done) | (cases h; rfl) | simp_all

/-- State `objectColon`: optional spaces, a colon, optional spaces, then a value token. -/
theorem token_objectColon_inv {buf : Bytes} {stack : List TokState} {t : Tok} {d2 : Dec}
    (h : token ⟨buf, .objectColon, stack⟩ = .tok t d2) :
    ∃ w w' b, Grammar.WS w ∧ Grammar.WS w' ∧ buf = w ++ 0x3A :: (w' ++ b) ∧
      tokenCore .objectValue stack b = .tok t d2 := by
  obtain ⟨w, hw, e⟩ := skipSpace_split buf
  unfold token at h
  simp only [] at h
  cases hs : skipSpace buf with
  | nil => rw [hs] at h; cases h
  | cons c rest =>
    rw [hs] at h e
    simp only [] at h
    by_cases hc : c = 0x3A
    · subst hc
      simp only [beq_self_eq_true, if_true] at h
      obtain ⟨w', hw', e'⟩ := skipSpace_split rest
      exact ⟨w, w', skipSpace rest, hw, hw', by rw [← e']; exact e, h⟩
    · by_cases hc' : c = 0x2C
      · subst hc'
        simp at h
      · simp only [beq_iff_eq, hc, hc', if_false] at h
        exact absurd h (tokenCore_objectColon _ _ _ _)

/-- States `objectComma` / `arrayComma`: either a comma and then the next token in the
    follow-up state, or no comma (then only the closing delimiter is a token). -/
theorem token_comma_inv {buf : Bytes} {st st2 : TokState} {stack : List TokState} {t : Tok} {d1 : Dec}
    (hst : (st = .objectComma ∧ st2 = .objectKey) ∨ (st = .arrayComma ∧ st2 = .arrayValue))
    (h : token ⟨buf, st, stack⟩ = .tok t d1) :
    (∃ w w' b, Grammar.WS w ∧ Grammar.WS w' ∧ buf = w ++ 0x2C :: (w' ++ b) ∧
      tokenCore st2 stack b = .tok t d1) ∨
    (∃ w b, Grammar.WS w ∧ buf = w ++ b ∧ tokenCore st stack b = .tok t d1) := by
  obtain ⟨w, hw, e⟩ := skipSpace_split buf
  unfold token at h
  simp only [] at h
  cases hs : skipSpace buf with
  | nil => rw [hs] at h; cases h
  | cons c rest =>
    rw [hs] at h e
    simp only [] at h
    by_cases hc : c = 0x3A
    · subst hc
      rcases hst with ⟨rfl, rfl⟩ | ⟨rfl, rfl⟩ <;> simp at h
    · by_cases hc' : c = 0x2C
      · subst hc'
        obtain ⟨w', hw', e'⟩ := skipSpace_split rest
        left
        refine ⟨w, w', skipSpace rest, hw, hw', by rw [← e']; exact e, ?_⟩
        rcases hst with ⟨rfl, rfl⟩ | ⟨rfl, rfl⟩ <;> simpa using h
      · simp only [beq_iff_eq, hc, hc', if_false] at h
        exact .inr ⟨w, c :: rest, hw, e, h⟩


/-- In the two key positions only a string is a key. -/
theorem tokenCore_key_inv {st : TokState} {stack : List TokState} {buf key : Bytes} {d1 : Dec}
    (hst : st = .objectStart ∨ st = .objectKey)
    (h : asKey (tokenCore st stack buf) = some (key, d1)) :
    ∃ rest r, buf = 0x22 :: rest ∧ strBody rest = some (key, r) ∧ d1 = ⟨r, .objectColon, stack⟩ := by
  cases buf with
  | nil => cases h
  | cons c rest =>
    by_cases hc : c = 0x22
    · subst hc
      have e : tokenCore st stack (0x22 :: rest) =
          match strBody rest with
          | some (s, r) => .tok (.str s) ⟨r, .objectColon, stack⟩
          | none => .err := by
        rcases hst with rfl | rfl <;> rfl
      rw [e] at h
      cases hs : strBody rest with
      | none => rw [hs] at h; cases h
      | some p =>
        obtain ⟨s, r⟩ := p
        rw [hs] at h
        simp only [asKey, Option.some.injEq, Prod.mk.injEq] at h
        obtain ⟨rfl, rfl⟩ := h
        exact ⟨rest, r, rfl, hs, rfl⟩
    · exfalso
      rcases hst with rfl | rfl
      all_goals
        simp only [tokenCore, valueAllowed] at h
        repeat' split at h
        all_goals first | (cases h; done) | simp_all

theorem asKey_some {res : TokRes} {key : Bytes} {d : Dec} (h : asKey res = some (key, d)) :
    res = .tok (.str key) d := by
  cases res with
  | tok t d' =>
    cases t <;> first | (cases h; done) | skip
    simp only [asKey, Option.some.injEq, Prod.mk.injEq] at h
    rw [h.1, h.2]
  | eof => cases h
  | err => cases h

theorem asTok_some {res : TokRes} {t : Tok} {d : Dec} (h : asTok res = some (t, d)) :
    res = .tok t d := by
  cases res with
  | tok t' d' =>
    simp only [asTok, Option.some.injEq, Prod.mk.injEq] at h
    rw [h.1, h.2]
  | eof => cases h
  | err => cases h

/-- What precedes a member at the head of `parseObject`'s loop: nothing on the first
    iteration, optional spaces and one comma afterwards. -/
def KeyPre (st : TokState) (pre : Bytes) : Prop :=
  (st = .objectStart ∧ pre = []) ∨ (st = .objectComma ∧ ∃ w, Grammar.WS w ∧ pre = w ++ [0x2C])

/-- The same for array elements. -/
def ElemPre (st : TokState) (pre : Bytes) : Prop :=
  (st = .arrayStart ∧ pre = []) ∨ (st = .arrayComma ∧ ∃ w, Grammar.WS w ∧ pre = w ++ [0x2C])

theorem token_key_inv {buf : Bytes} {st : TokState} {stack : List TokState} {key : Bytes} {d1 : Dec}
    (hst : st = .objectStart ∨ st = .objectComma)
    (h : asKey (token ⟨buf, st, stack⟩) = some (key, d1)) :
    ∃ pre w k r, KeyPre st pre ∧ Grammar.WS w ∧ Grammar.JString k ∧ buf = pre ++ (w ++ (k ++ r)) ∧
      d1 = ⟨r, .objectColon, stack⟩ := by
  rcases hst with rfl | rfl
  · rw [token_eq_core _ _ _ (by decide) (by decide) (by decide)] at h
    obtain ⟨rest, r, e, hs, rfl⟩ := tokenCore_key_inv (.inl rfl) h
    obtain ⟨w, hw, e'⟩ := skipSpace_split buf
    obtain ⟨k, hk, ek⟩ := jstring_of_strBody hs
    exact ⟨[], w, k, r, .inl ⟨rfl, rfl⟩, hw, hk, by rw [List.nil_append, ← ek, ← e]; exact e', rfl⟩
  · have h' := asKey_some h
    rcases token_comma_inv (.inl ⟨rfl, rfl⟩) h' with ⟨w, w', b, hw, hw', e, hb⟩ | ⟨w, b, hw, e, hb⟩
    · have hb' : asKey (tokenCore .objectKey stack b) = some (key, d1) := by rw [hb]; rfl
      obtain ⟨rest, r, e2, hs, rfl⟩ := tokenCore_key_inv (.inr rfl) hb'
      obtain ⟨k, hk, ek⟩ := jstring_of_strBody hs
      refine ⟨w ++ [0x2C], w', k, r, .inr ⟨rfl, w, hw, rfl⟩, hw', hk, ?_, rfl⟩
      rw [e, e2, ek]; simp
    · cases tokenCore_objectComma_inv hb

theorem token_rbrace_inv {buf : Bytes} {st : TokState} {stack : List TokState} {d' : Dec}
    (hst : st = .objectStart ∨ st = .objectComma)
    (h : token ⟨buf, st, stack⟩ = .tok .rbrace d') :
    ∃ w r s stk, Grammar.WS w ∧ buf = w ++ 0x7D :: r ∧ stack = s :: stk ∧
      d' = ⟨r, valueEnd s, stk⟩ := by
  rcases hst with rfl | rfl
  · rw [token_eq_core _ _ _ (by decide) (by decide) (by decide)] at h
    obtain ⟨r, s, stk, e, hs, hd, _⟩ := tokenCore_rbrace_inv h
    obtain ⟨w, hw, e'⟩ := skipSpace_split buf
    exact ⟨w, r, s, stk, hw, by rw [← e]; exact e', hs, hd⟩
  · rcases token_comma_inv (.inl ⟨rfl, rfl⟩) h with ⟨w, w', b, hw, hw', e, hb⟩ | ⟨w, b, hw, e, hb⟩
    · obtain ⟨_, _, _, _, _, _, hst⟩ := tokenCore_rbrace_inv hb
      rcases hst with h | h <;> cases h
    · obtain ⟨r, s, stk, e2, hs, hd, _⟩ := tokenCore_rbrace_inv hb
      exact ⟨w, r, s, stk, hw, by rw [e, e2], hs, hd⟩

theorem token_rbrack_inv {buf : Bytes} {st : TokState} {stack : List TokState} {d' : Dec}
    (hst : st = .arrayStart ∨ st = .arrayComma)
    (h : token ⟨buf, st, stack⟩ = .tok .rbrack d') :
    ∃ w r s stk, Grammar.WS w ∧ buf = w ++ 0x5D :: r ∧ stack = s :: stk ∧
      d' = ⟨r, valueEnd s, stk⟩ := by
  rcases hst with rfl | rfl
  · rw [token_eq_core _ _ _ (by decide) (by decide) (by decide)] at h
    obtain ⟨r, s, stk, e, hs, hd, _⟩ := tokenCore_rbrack_inv h
    obtain ⟨w, hw, e'⟩ := skipSpace_split buf
    exact ⟨w, r, s, stk, hw, by rw [← e]; exact e', hs, hd⟩
  · rcases token_comma_inv (.inr ⟨rfl, rfl⟩) h with ⟨w, w', b, hw, hw', e, hb⟩ | ⟨w, b, hw, e, hb⟩
    · obtain ⟨_, _, _, _, _, _, hst⟩ := tokenCore_rbrack_inv hb
      rcases hst with h | h <;> cases h
    · obtain ⟨r, s, stk, e2, hs, hd, _⟩ := tokenCore_rbrack_inv hb
      exact ⟨w, r, s, stk, hw, by rw [e, e2], hs, hd⟩

theorem token_elem_inv {buf : Bytes} {st : TokState} {stack : List TokState} {t : Tok} {d1 : Dec}
    (hst : st = .arrayStart ∨ st = .arrayComma)
    (h : token ⟨buf, st, stack⟩ = .tok t d1) :
    t = .rbrack ∨
    ∃ pre w b st', ElemPre st pre ∧ Grammar.WS w ∧ buf = pre ++ (w ++ b) ∧
      valueAllowed st' = true ∧ valueEnd st' = .arrayComma ∧ tokenCore st' stack b = .tok t d1 := by
  rcases hst with rfl | rfl
  · rw [token_eq_core _ _ _ (by decide) (by decide) (by decide)] at h
    obtain ⟨w, hw, e'⟩ := skipSpace_split buf
    exact .inr ⟨[], w, skipSpace buf, .arrayStart, .inl ⟨rfl, rfl⟩, hw, e', rfl, rfl, h⟩
  · rcases token_comma_inv (.inr ⟨rfl, rfl⟩) h with ⟨w, w', b, hw, hw', e, hb⟩ | ⟨w, b, hw, e, hb⟩
    · refine .inr ⟨w ++ [0x2C], w', b, .arrayValue, .inr ⟨rfl, w, hw, rfl⟩, hw', ?_, rfl, rfl, hb⟩
      rw [e]; simp
    · exact .inl (tokenCore_arrayComma_inv hb)


/-! ### Soundness of the parser -/

/-- The text from the head of `parseObject`'s loop up to and including the closing brace. -/
def ObjRest (st : TokState) (buf rest : Bytes) : Prop :=
  (∃ w, Grammar.WS w ∧ buf = w ++ 0x7D :: rest) ∨
  (∃ pre m, KeyPre st pre ∧ Grammar.JMembers m ∧ buf = pre ++ (m ++ 0x7D :: rest))

def ArrRest (st : TokState) (buf rest : Bytes) : Prop :=
  (∃ w, Grammar.WS w ∧ buf = w ++ 0x5D :: rest) ∨
  (∃ pre m, ElemPre st pre ∧ Grammar.JElems m ∧ buf = pre ++ (m ++ 0x5D :: rest))

theorem members_assemble {st : TokState} {pre w1 k w2 w3 val buf3 rest : Bytes}
    (hpre : KeyPre st pre) (hw1 : Grammar.WS w1) (hk : Grammar.JString k) (hw2 : Grammar.WS w2)
    (hw3 : Grammar.WS w3) (hval : Grammar.JValue val) (h3 : ObjRest .objectComma buf3 rest) :
    ObjRest st (pre ++ (w1 ++ (k ++ (w2 ++ 0x3A :: (w3 ++ (val ++ buf3)))))) rest := by
  rcases h3 with ⟨w4, hw4, rfl⟩ | ⟨pre', m', hpre', hm', rfl⟩
  · exact .inr ⟨pre, _, hpre, .one w1 k w2 w3 val w4 hw1 hk hw2 hw3 hval hw4, by simp⟩
  · rcases hpre' with ⟨h, _⟩ | ⟨_, w4, hw4, rfl⟩
    · cases h
    · exact .inr ⟨pre, _, hpre, .more w1 k w2 w3 val w4 m' hw1 hk hw2 hw3 hval hw4 hm', by simp⟩

theorem elems_assemble {st : TokState} {pre w1 val buf3 rest : Bytes}
    (hpre : ElemPre st pre) (hw1 : Grammar.WS w1) (hval : Grammar.JValue val)
    (h3 : ArrRest .arrayComma buf3 rest) :
    ArrRest st (pre ++ (w1 ++ (val ++ buf3))) rest := by
  rcases h3 with ⟨w4, hw4, rfl⟩ | ⟨pre', m', hpre', hm', rfl⟩
  · exact .inr ⟨pre, _, hpre, .one w1 val w4 hw1 hval hw4, by simp⟩
  · rcases hpre' with ⟨h, _⟩ | ⟨_, w4, hw4, rfl⟩
    · cases h
    · exact .inr ⟨pre, _, hpre, .more w1 val w4 m' hw1 hval hw4 hm', by simp⟩

def SoundObj (fuel : Nat) : Prop :=
  ∀ buf st stack ms d', (st = .objectStart ∨ st = .objectComma) →
    parseObject fuel ⟨buf, st, stack⟩ = (ms, some d') →
    ∃ s stk, stack = s :: stk ∧ d'.st = valueEnd s ∧ d'.stack = stk ∧ ObjRest st buf d'.buf

def SoundArr (fuel : Nat) : Prop :=
  ∀ buf st stack xs d', (st = .arrayStart ∨ st = .arrayComma) →
    parseArray fuel ⟨buf, st, stack⟩ = some (xs, d') →
    ∃ s stk, stack = s :: stk ∧ d'.st = valueEnd s ∧ d'.stack = stk ∧ ArrRest st buf d'.buf

def SoundVal (fuel : Nat) : Prop :=
  ∀ st stack buf t d1 jv d2, valueAllowed st = true → tokenCore st stack buf = .tok t d1 →
    handleDelim fuel t d1 = some (jv, d2) →
    ∃ val, Grammar.JValue val ∧ buf = val ++ d2.buf ∧ d2.st = valueEnd st ∧ d2.stack = stack

theorem soundObj_succ {fuel : Nat} (hV : SoundVal fuel) (hO : SoundObj fuel) : SoundObj (fuel + 1) := by
  intro buf st stack ms d' hst h
  rw [parseObject] at h
  split at h
  · cases hk : asKey (token ⟨buf, st, stack⟩) with
    | none => rw [hk] at h; cases h
    | some p =>
      obtain ⟨key, d1⟩ := p
      rw [hk] at h
      simp only [] at h
      obtain ⟨pre, w1, k, r, hpre, hw1, hk', ebuf, rfl⟩ := token_key_inv hst hk
      cases ht : asTok (token ⟨r, .objectColon, stack⟩) with
      | none => rw [ht] at h; cases h
      | some p =>
        obtain ⟨t, d2⟩ := p
        rw [ht] at h
        simp only [] at h
        obtain ⟨w2, w3, b, hw2, hw3, er, hb⟩ := token_objectColon_inv (asTok_some ht)
        cases hh : handleDelim fuel t d2 with
        | none => rw [hh] at h; cases h
        | some p =>
          obtain ⟨v, d3⟩ := p
          rw [hh] at h
          simp only [] at h
          obtain ⟨val, hval, eb, hst3, hstk3⟩ := hV _ _ _ _ _ _ _ rfl hb hh
          obtain ⟨buf3, st3, stack3⟩ := d3
          simp only [] at hst3 hstk3 eb
          subst hst3 hstk3
          injection h with h1 h2
          have h3 : parseObject fuel ⟨buf3, .objectComma, stack3⟩ =
              ((parseObject fuel ⟨buf3, .objectComma, stack3⟩).1, some d') := Prod.ext rfl h2
          obtain ⟨s, stk, es, hs1, hs2, hrest⟩ := hO _ _ _ _ _ (.inr rfl) h3
          refine ⟨s, stk, es, hs1, hs2, ?_⟩
          rw [ebuf, er, eb]
          exact members_assemble hpre hw1 hk' hw2 hw3 hval hrest
  · injection h with h1 h2
    obtain ⟨w, r, s, stk, hw, e, es, rfl⟩ := token_rbrace_inv hst (asClose_some h2)
    exact ⟨s, stk, es, rfl, rfl, .inl ⟨w, hw, e⟩⟩


theorem handleDelim_rbrack (fuel : Nat) (d : Dec) : handleDelim fuel .rbrack d = none := by
  cases fuel <;> simp [handleDelim]

theorem handleDelim_rbrace (fuel : Nat) (d : Dec) : handleDelim fuel .rbrace d = none := by
  cases fuel <;> simp [handleDelim]

theorem handleDelim_scalar_inv {fuel : Nat} {t : Tok} {d d2 : Dec} {jv : JV}
    (ht : (scalarOf t).isSome = true) (h : handleDelim fuel t d = some (jv, d2)) : d2 = d := by
  cases fuel with
  | zero => simp [handleDelim] at h
  | succ f =>
    cases t <;> first | (cases ht; done) | skip
    all_goals
      simp only [handleDelim, Option.some.injEq, Prod.mk.injEq] at h
      exact h.2.symm

theorem soundArr_succ {fuel : Nat} (hV : SoundVal fuel) (hA : SoundArr fuel) : SoundArr (fuel + 1) := by
  intro buf st stack xs d' hst h
  rw [parseArray] at h
  split at h
  · cases ht : asTok (token ⟨buf, st, stack⟩) with
    | none => rw [ht] at h; cases h
    | some p =>
      obtain ⟨t, d1⟩ := p
      rw [ht] at h
      simp only [] at h
      rcases token_elem_inv hst (asTok_some ht) with rfl | ⟨pre, w, b, st', hpre, hw, ebuf, hva, hve, hb⟩
      · rw [handleDelim_rbrack] at h; cases h
      · cases hh : handleDelim fuel t d1 with
        | none => rw [hh] at h; cases h
        | some p =>
          obtain ⟨v, d2⟩ := p
          rw [hh] at h
          simp only [] at h
          obtain ⟨val, hval, eb, hst2, hstk2⟩ := hV _ _ _ _ _ _ _ hva hb hh
          obtain ⟨buf2, st2, stack2⟩ := d2
          simp only [] at hst2 hstk2 eb
          rw [hve] at hst2
          subst hst2 hstk2
          cases hp : parseArray fuel ⟨buf2, .arrayComma, stack2⟩ with
          | none => rw [hp] at h; cases h
          | some q =>
            obtain ⟨xs', d3⟩ := q
            rw [hp] at h
            simp only [Option.some.injEq, Prod.mk.injEq] at h
            obtain ⟨_, rfl⟩ := h
            obtain ⟨s, stk, es, hs1, hs2, hrest⟩ := hA _ _ _ _ _ (.inr rfl) hp
            refine ⟨s, stk, es, hs1, hs2, ?_⟩
            rw [ebuf, eb]
            exact elems_assemble hpre hw hval hrest
  · cases hc : asClose .rbrack (token ⟨buf, st, stack⟩) with
    | none => rw [hc] at h; cases h
    | some d'' =>
      rw [hc] at h
      simp only [Option.map_some, Option.some.injEq, Prod.mk.injEq] at h
      obtain ⟨_, rfl⟩ := h
      obtain ⟨w, r, s, stk, hw, e, es, rfl⟩ := token_rbrack_inv hst (asClose_some hc)
      exact ⟨s, stk, es, rfl, rfl, .inl ⟨w, hw, e⟩⟩

theorem soundVal_succ {fuel : Nat} (hO : SoundObj fuel) (hA : SoundArr fuel) : SoundVal (fuel + 1) := by
  intro st stack buf t d1 jv d2 hva hb hh
  rcases tokenCore_value_inv hva hb with ⟨r, rfl, rfl, rfl⟩ | ⟨r, rfl, rfl, rfl⟩ | rfl | ⟨r, hs, rfl⟩
  · simp only [handleDelim] at hh
    cases hp : parseArray fuel ⟨r, .arrayStart, st :: stack⟩ with
    | none => rw [hp] at hh; cases hh
    | some q =>
      obtain ⟨xs, d'⟩ := q
      rw [hp] at hh
      simp only [Option.some.injEq, Prod.mk.injEq] at hh
      obtain ⟨_, rfl⟩ := hh
      obtain ⟨s, stk, es, hs1, hs2, hrest⟩ := hA _ _ _ _ _ (.inl rfl) hp
      injection es with e1 e2
      subst e1 e2
      rcases hrest with ⟨w, hw, e⟩ | ⟨pre, m, hpre, hm, e⟩
      · exact ⟨0x5B :: (w ++ [0x5D]), .arr _ (.empty w hw), by rw [e]; simp, hs1, hs2⟩
      · rcases hpre with ⟨_, rfl⟩ | ⟨h, _⟩
        · exact ⟨0x5B :: (m ++ [0x5D]), .arr _ (.elems m hm), by rw [e]; simp, hs1, hs2⟩
        · cases h
  · simp only [handleDelim] at hh
    cases hp : parseObject fuel ⟨r, .objectStart, st :: stack⟩ with
    | mk ms od =>
      rw [hp] at hh
      cases od with
      | none => cases hh
      | some d' =>
        simp only [Option.some.injEq, Prod.mk.injEq] at hh
        obtain ⟨_, rfl⟩ := hh
        obtain ⟨s, stk, es, hs1, hs2, hrest⟩ := hO _ _ _ _ _ (.inl rfl) hp
        injection es with e1 e2
        subst e1 e2
        rcases hrest with ⟨w, hw, e⟩ | ⟨pre, m, hpre, hm, e⟩
        · exact ⟨0x7B :: (w ++ [0x7D]), .obj _ (.empty w hw), by rw [e]; simp, hs1, hs2⟩
        · rcases hpre with ⟨_, rfl⟩ | ⟨h, _⟩
          · exact ⟨0x7B :: (m ++ [0x7D]), .obj _ (.members m hm), by rw [e]; simp, hs1, hs2⟩
          · cases h
  · rw [handleDelim_rbrack] at hh; cases hh
  · obtain ⟨⟨val, hval, e⟩, hsc⟩ := scanScalar_sound hs
    have := handleDelim_scalar_inv hsc hh
    subst this
    exact ⟨val, hval, e, rfl, rfl⟩

theorem sound_all : ∀ fuel, SoundObj fuel ∧ SoundArr fuel ∧ SoundVal fuel := by
  intro fuel
  induction fuel with
  | zero =>
    refine ⟨?_, ?_, ?_⟩
    · intro buf st stack ms d' _ h; simp [parseObject] at h
    · intro buf st stack xs d' _ h; simp [parseArray] at h
    · intro st stack buf t d1 jv d2 _ _ h; simp [handleDelim] at h
  | succ f ih =>
    obtain ⟨hO, hA, hV⟩ := ih
    exact ⟨soundObj_succ hV hO, soundArr_succ hV hA, soundVal_succ hO hA⟩


theorem tokenCore_eof_inv {st : TokState} {stack : List TokState} {buf : Bytes}
    (h : tokenCore st stack buf = .eof) : buf = [] := by
  cases buf with
  | nil => rfl
  | cons c rest =>
    simp only [tokenCore] at h
    repeat' split at h
    all_goals cases h

theorem isEof_iff {r : TokRes} : isEof r = true ↔ r = .eof := by
  cases r <;> simp [isEof]

/-- The opening brace at top level. -/
theorem top_lbrace_inv {bs : Bytes} {d : Dec}
    (h : asClose .lbrace (token ⟨bs, .topValue, []⟩) = some d) :
    ∃ w r, Grammar.WS w ∧ bs = w ++ 0x7B :: r ∧ d = ⟨r, .objectStart, [.topValue]⟩ := by
  have h' := asClose_some h
  rw [token_eq_core _ _ _ (by decide) (by decide) (by decide)] at h'
  obtain ⟨w, hw, e⟩ := skipSpace_split bs
  rcases tokenCore_value_inv rfl h' with ⟨r, _, ht, _⟩ | ⟨r, er, _, rfl⟩ | ht | ⟨r, hs, _⟩
  · cases ht
  · exact ⟨w, r, hw, by rw [← er]; exact e, rfl⟩
  · cases ht
  · have := (scanScalar_sound hs).2
    cases this

/-- After the object at top level, only whitespace. -/
theorem top_eof_inv {buf : Bytes} (h : isEof (token ⟨buf, .topValue, []⟩) = true) :
    Grammar.WS buf := by
  rw [isEof_iff, token_eq_core _ _ _ (by decide) (by decide) (by decide)] at h
  exact (skipSpace_eq_nil_iff buf).1 (tokenCore_eof_inv h)

/-- C16, soundness: an accepted line is one JSON object surrounded by optional whitespace. -/
theorem accepts_sound (bs : Bytes) (h : Json.accepts bs = true) : Grammar.IsObjectText bs := by
  unfold Json.accepts Json.unmarshal at h
  cases hc : asClose .lbrace (token ⟨bs, .topValue, []⟩) with
  | none => rw [hc] at h; cases h
  | some d =>
    rw [hc] at h
    simp only [] at h
    obtain ⟨w1, r, hw1, ebs, rfl⟩ := top_lbrace_inv hc
    cases hp : parseObject (2 * bs.length + 2) ⟨r, .objectStart, [.topValue]⟩ with
    | mk ms od =>
      rw [hp] at h
      cases od with
      | none => cases h
      | some d' =>
        simp only [] at h
        obtain ⟨s, stk, es, hs1, hs2, hrest⟩ := (sound_all _).1 _ _ _ _ _ (.inl rfl) hp
        injection es with e1 e2
        subst e1 e2
        obtain ⟨buf', st', stack'⟩ := d'
        simp only [] at hs1 hs2 hrest
        subst hs1 hs2
        have hw2 := top_eof_inv h
        rcases hrest with ⟨w, hw, e⟩ | ⟨pre, m, hpre, hm, e⟩
        · exact ⟨w1, 0x7B :: (w ++ [0x7D]), buf', by rw [ebs, e]; simp, hw1, .empty w hw, hw2⟩
        · rcases hpre with ⟨_, rfl⟩ | ⟨h, _⟩
          · exact ⟨w1, 0x7B :: (m ++ [0x7D]), buf', by rw [ebs, e]; simp, hw1, .members m hm, hw2⟩
          · cases h

open IntText (NumberEnds)

/-! ### Completeness of the parser -/

/-- First bytes of values: not a space, not a separator, not a closing delimiter. -/
def ValHead (c : UInt8) : Prop :=
  isSpace c = false ∧ c ≠ 0x2C ∧ c ≠ 0x3A ∧ c ≠ 0x5D ∧ c ≠ 0x7D

instance (c : UInt8) : Decidable (ValHead c) := by unfold ValHead; infer_instance

theorem ne_of_ge_of_lt {c k : UInt8} (h : 0x30 ≤ c) (hk : k < 0x30) : c ≠ k := by
  intro e; subst e; exact absurd h (UInt8.not_le.2 hk)

theorem ne_of_le_of_gt {c k : UInt8} (h : c ≤ 0x39) (hk : 0x39 < k) : c ≠ k := by
  intro e; subst e; exact absurd h (UInt8.not_le.2 hk)

theorem valHead_digit {c : UInt8} (h : isDigit c = true) : ValHead c := by
  unfold isDigit at h
  simp only [Bool.and_eq_true, decide_eq_true_eq] at h
  obtain ⟨h1, h2⟩ := h
  refine ⟨?_, ne_of_ge_of_lt h1 (by decide), ne_of_le_of_gt h2 (by decide),
    ne_of_le_of_gt h2 (by decide), ne_of_le_of_gt h2 (by decide)⟩
  unfold isSpace
  have a := ne_of_ge_of_lt (k := 0x20) h1 (by decide)
  have b := ne_of_ge_of_lt (k := 0x09) h1 (by decide)
  have c' := ne_of_ge_of_lt (k := 0x0D) h1 (by decide)
  have d := ne_of_ge_of_lt (k := 0x0A) h1 (by decide)
  simp [a, b, c', d]

theorem jvalue_head {v : Bytes} (hv : Grammar.JValue v) : ∃ c t, v = c :: t ∧ ValHead c := by
  cases hv with
  | null => exact ⟨_, _, rfl, by decide⟩
  | tru => exact ⟨_, _, rfl, by decide⟩
  | fls => exact ⟨_, _, rfl, by decide⟩
  | num _ h =>
    obtain ⟨c, t, rfl, hc⟩ := jnumber_head h
    rcases hc with rfl | hc
    · exact ⟨_, _, rfl, by decide⟩
    · exact ⟨_, _, rfl, valHead_digit hc⟩
  | str _ h =>
    obtain ⟨body, rfl, _⟩ := h
    exact ⟨_, _, rfl, by decide⟩
  | arr _ h =>
    cases h with
    | empty w _ => exact ⟨_, _, rfl, by decide⟩
    | elems b _ => exact ⟨_, _, rfl, by decide⟩
  | obj _ h =>
    cases h with
    | empty w _ => exact ⟨_, _, rfl, by decide⟩
    | members b _ => exact ⟨_, _, rfl, by decide⟩

theorem skipSpace_ws_head {w : Bytes} {c : UInt8} (r : Bytes) (hw : Grammar.WS w)
    (hc : isSpace c = false) : skipSpace (w ++ c :: r) = c :: r := by
  rw [skipSpace_ws_append _ hw, skipSpace_of_not _ hc]

theorem more_of_head {w : Bytes} {c : UInt8} (r : Bytes) (st : TokState) (stack : List TokState)
    (hw : Grammar.WS w) (hc : isSpace c = false) (h1 : c ≠ 0x5D) (h2 : c ≠ 0x7D) :
    more ⟨w ++ c :: r, st, stack⟩ = true := by
  unfold more
  simp only [skipSpace_ws_head r hw hc]
  simp [h1, h2]

theorem more_close {w : Bytes} {c : UInt8} (r : Bytes) (st : TokState) (stack : List TokState)
    (hw : Grammar.WS w) (hc : c = 0x5D ∨ c = 0x7D) :
    more ⟨w ++ c :: r, st, stack⟩ = false := by
  have hs : isSpace c = false := by rcases hc with rfl | rfl <;> decide
  unfold more
  simp only [skipSpace_ws_head r hw hs]
  rcases hc with rfl | rfl <;> decide

theorem token_comma {w : Bytes} (rest : Bytes) (st : TokState) (stack : List TokState)
    (hw : Grammar.WS w) :
    token ⟨w ++ 0x2C :: rest, st, stack⟩ =
      if st == .arrayComma then tokenCore .arrayValue stack (skipSpace rest)
      else if st == .objectComma then tokenCore .objectKey stack (skipSpace rest)
      else .err := by
  unfold token
  simp only [skipSpace_ws_head rest hw (by decide : isSpace 0x2C = false)]
  rfl

theorem token_colon {w : Bytes} (rest : Bytes) (stack : List TokState) (hw : Grammar.WS w) :
    token ⟨w ++ 0x3A :: rest, .objectColon, stack⟩ =
      tokenCore .objectValue stack (skipSpace rest) := by
  unfold token
  simp only [skipSpace_ws_head rest hw (by decide : isSpace 0x3A = false)]
  rfl

theorem token_rbrace {w : Bytes} (rest : Bytes) {st : TokState} (s : TokState) (stk : List TokState)
    (hst : st = .objectStart ∨ st = .objectComma) (hw : Grammar.WS w) :
    token ⟨w ++ 0x7D :: rest, st, s :: stk⟩ = .tok .rbrace ⟨rest, valueEnd s, stk⟩ := by
  unfold token
  simp only [skipSpace_ws_head rest hw (by decide : isSpace 0x7D = false)]
  rcases hst with rfl | rfl <;> rfl

theorem token_rbrack {w : Bytes} (rest : Bytes) {st : TokState} (s : TokState) (stk : List TokState)
    (hst : st = .arrayStart ∨ st = .arrayComma) (hw : Grammar.WS w) :
    token ⟨w ++ 0x5D :: rest, st, s :: stk⟩ = .tok .rbrack ⟨rest, valueEnd s, stk⟩ := by
  unfold token
  simp only [skipSpace_ws_head rest hw (by decide : isSpace 0x5D = false)]
  rcases hst with rfl | rfl <;> rfl

theorem tokenCore_key (stack : List TokState) {st : TokState} {k : Bytes} (r : Bytes)
    (hst : st = .objectStart ∨ st = .objectKey) (hk : Grammar.JString k) :
    ∃ key, tokenCore st stack (k ++ r) = .tok (.str key) ⟨r, .objectColon, stack⟩ := by
  obtain ⟨body, out, rfl, ho⟩ := strBody_jstring hk r
  refine ⟨out, ?_⟩
  have e : tokenCore st stack (0x22 :: (body ++ r)) =
      match strBody (body ++ r) with
      | some (s, r) => .tok (.str s) ⟨r, .objectColon, stack⟩
      | none => .err := by
    rcases hst with rfl | rfl <;> rfl
  rw [List.cons_append, e, ho]

theorem jstring_head {k : Bytes} (hk : Grammar.JString k) : ∃ t, k = 0x22 :: t := by
  obtain ⟨body, rfl, _⟩ := hk
  exact ⟨_, rfl⟩

/-- A key token at the head of `parseObject`'s loop. -/
theorem token_key {st : TokState} {pre w k : Bytes} (r : Bytes) (stack : List TokState)
    (hpre : KeyPre st pre) (hw : Grammar.WS w) (hk : Grammar.JString k) :
    more ⟨pre ++ (w ++ (k ++ r)), st, stack⟩ = true ∧
    ∃ key, token ⟨pre ++ (w ++ (k ++ r)), st, stack⟩ = .tok (.str key) ⟨r, .objectColon, stack⟩ := by
  obtain ⟨t, ek⟩ := jstring_head hk
  rcases hpre with ⟨rfl, rfl⟩ | ⟨rfl, w0, hw0, rfl⟩
  · constructor
    · rw [List.nil_append, ek, List.cons_append]
      exact more_of_head _ _ _ hw (by decide) (by decide) (by decide)
    · obtain ⟨key, hkey⟩ := tokenCore_key stack r (.inl rfl) hk
      refine ⟨key, ?_⟩
      rw [token_eq_core _ _ _ (by decide) (by decide) (by decide), List.nil_append,
        skipSpace_ws_append _ hw, ← hkey, ek, List.cons_append, skipSpace_of_not _ (by decide)]
  · constructor
    · rw [List.append_assoc, List.singleton_append]
      exact more_of_head _ _ _ hw0 (by decide) (by decide) (by decide)
    · obtain ⟨key, hkey⟩ := tokenCore_key stack r (.inr rfl) hk
      refine ⟨key, ?_⟩
      rw [List.append_assoc, List.singleton_append, token_comma _ _ _ hw0,
        skipSpace_ws_append _ hw, ← hkey, ek, List.cons_append, skipSpace_of_not _ (by decide)]
      rfl


theorem scanScalar_head {c : UInt8} {r : Bytes} {p : Tok × Bytes} (h : scanScalar (c :: r) = some p) :
    c ≠ 0x5B ∧ c ≠ 0x5D ∧ c ≠ 0x7B ∧ c ≠ 0x7D ∧ c ≠ 0x3A ∧ c ≠ 0x2C := by
  refine ⟨?_, ?_, ?_, ?_, ?_, ?_⟩ <;>
  · intro e; subst e
    have h' : (none : Option (Tok × Bytes)) = some p := h
    cases h'

theorem tokenCore_jscalar {st : TokState} (stack : List TokState) {v rest : Bytes}
    (hva : valueAllowed st = true) (hv : JScalar v) (hr : NumberEnds rest) :
    ∃ t, tokenCore st stack (v ++ rest) = .tok t ⟨rest, valueEnd st, stack⟩ ∧
      (scalarOf t).isSome = true := by
  obtain ⟨t, hs, ht⟩ := scanScalar_complete hv hr
  refine ⟨t, ?_, ht⟩
  cases hvr : v ++ rest with
  | nil => rw [hvr] at hs; cases hs
  | cons c r =>
    rw [hvr] at hs
    obtain ⟨h1, h2, h3, h4, h5, h6⟩ := scanScalar_head hs
    simp only [tokenCore, beq_iff_eq, h1, h2, h3, h4, if_false, va_not_key hva,
      Bool.and_false, Bool.false_eq_true, hva, if_true, hs]
    simp [h5, h6]

theorem tokenCore_lbrack {st : TokState} (stack : List TokState) (r : Bytes)
    (hva : valueAllowed st = true) :
    tokenCore st stack (0x5B :: r) = .tok .lbrack ⟨r, .arrayStart, st :: stack⟩ := by
  simp [tokenCore, hva]

theorem tokenCore_lbrace {st : TokState} (stack : List TokState) (r : Bytes)
    (hva : valueAllowed st = true) :
    tokenCore st stack (0x7B :: r) = .tok .lbrace ⟨r, .objectStart, st :: stack⟩ := by
  simp [tokenCore, hva]

theorem handleDelim_scalar {t : Tok} (fuel : Nat) (d : Dec) (ht : (scalarOf t).isSome = true) :
    ∃ jv, handleDelim (fuel + 1) t d = some (jv, d) := by
  cases t <;> first | (cases ht; done) | exact ⟨_, rfl⟩

theorem parseObject_close {w : Bytes} (rest : Bytes) {st : TokState} (s : TokState)
    (stk : List TokState) (fuel : Nat) (hst : st = .objectStart ∨ st = .objectComma)
    (hw : Grammar.WS w) :
    parseObject (fuel + 1) ⟨w ++ 0x7D :: rest, st, s :: stk⟩ =
      (.nil, some ⟨rest, valueEnd s, stk⟩) := by
  rw [parseObject, more_close _ _ _ hw (.inr rfl), token_rbrace _ _ _ hst hw]
  simp [asClose]

theorem parseArray_close {w : Bytes} (rest : Bytes) {st : TokState} (s : TokState)
    (stk : List TokState) (fuel : Nat) (hst : st = .arrayStart ∨ st = .arrayComma)
    (hw : Grammar.WS w) :
    parseArray (fuel + 1) ⟨w ++ 0x5D :: rest, st, s :: stk⟩ =
      some (.nil, ⟨rest, valueEnd s, stk⟩) := by
  rw [parseArray, more_close _ _ _ hw (.inl rfl), token_rbrack _ _ _ hst hw]
  simp [asClose]

theorem numberEnds_space {x : UInt8} (h : isSpace x = true) :
    ¬ (0x30 ≤ x ∧ x ≤ 0x39) ∧ x ≠ 0x2E ∧ x ≠ 0x65 ∧ x ≠ 0x45 := by
  unfold isSpace at h
  simp only [Bool.or_eq_true, beq_iff_eq] at h
  rcases h with ((rfl | rfl) | rfl) | rfl <;> decide

/-- What follows a value inside an array or object cannot continue a number literal. -/
theorem numberEnds_ws_sep {w : Bytes} {c : UInt8} (r : Bytes) (hw : Grammar.WS w)
    (hc : c = 0x2C ∨ c = 0x5D ∨ c = 0x7D) : NumberEnds (w ++ c :: r) := by
  cases w with
  | nil =>
    apply IntText.numberEnds_cons
    rcases hc with rfl | rfl | rfl <;> decide
  | cons x w' =>
    exact IntText.numberEnds_cons _ (numberEnds_space (ws_head hw))

theorem skipSpace_value {v : Bytes} (tail : Bytes) (hv : Grammar.JValue v) :
    skipSpace (v ++ tail) = v ++ tail := by
  obtain ⟨c, t, rfl, hc⟩ := jvalue_head hv
  exact skipSpace_of_not _ hc.1

/-- What completeness needs of one value: its first token is recognised wherever a value is
    allowed, and `handleDelim` consumes exactly the value given fuel ≥ its length. -/
def ValOK (v : Bytes) : Prop :=
  ∀ st stack rest, valueAllowed st = true → NumberEnds rest →
    ∃ t d1, tokenCore st stack (v ++ rest) = .tok t d1 ∧
      ∀ fuel, v.length ≤ fuel → ∃ jv, handleDelim fuel t d1 = some (jv, ⟨rest, valueEnd st, stack⟩)

/-- One iteration of `parseObject`'s loop on a member. -/
theorem parseObject_member {st : TokState} {pre w1 k w2 w3 v : Bytes} (tail : Bytes)
    (s : TokState) (stk : List TokState) {f : Nat}
    (hpre : KeyPre st pre) (hw1 : Grammar.WS w1) (hk : Grammar.JString k) (hw2 : Grammar.WS w2)
    (hw3 : Grammar.WS w3) (hv : Grammar.JValue v) (hok : ValOK v) (hf : v.length ≤ f)
    (htail : NumberEnds tail) :
    ∃ key jv,
      parseObject (f + 1)
        ⟨pre ++ (w1 ++ (k ++ (w2 ++ 0x3A :: (w3 ++ (v ++ tail))))), st, s :: stk⟩ =
      (.cons key jv (parseObject f ⟨tail, .objectComma, s :: stk⟩).1,
        (parseObject f ⟨tail, .objectComma, s :: stk⟩).2) := by
  obtain ⟨hmore, key, htok⟩ := token_key (w2 ++ 0x3A :: (w3 ++ (v ++ tail))) (s :: stk) hpre hw1 hk
  obtain ⟨t, d2, hcore, hfuel⟩ := hok .objectValue (s :: stk) tail rfl htail
  obtain ⟨jv, hjv⟩ := hfuel f hf
  refine ⟨key, jv, ?_⟩
  rw [parseObject, if_pos hmore, htok]
  simp only [asKey]
  rw [token_colon _ _ hw2, skipSpace_ws_append _ hw3, skipSpace_value _ hv, hcore]
  simp only [asTok]
  rw [hjv]
  rfl

/-- What precedes an element: the state in which its token is read. -/
theorem token_elem {st : TokState} {pre w v : Bytes} (tail : Bytes) (stack : List TokState)
    (hpre : ElemPre st pre) (hw : Grammar.WS w) (hv : Grammar.JValue v) :
    more ⟨pre ++ (w ++ (v ++ tail)), st, stack⟩ = true ∧
    ∃ st', valueAllowed st' = true ∧ valueEnd st' = .arrayComma ∧
      token ⟨pre ++ (w ++ (v ++ tail)), st, stack⟩ = tokenCore st' stack (v ++ tail) := by
  obtain ⟨c, t, rfl, hc⟩ := jvalue_head hv
  rcases hpre with ⟨rfl, rfl⟩ | ⟨rfl, w0, hw0, rfl⟩
  · constructor
    · exact more_of_head _ _ _ hw hc.1 hc.2.2.2.1 hc.2.2.2.2
    · refine ⟨.arrayStart, rfl, rfl, ?_⟩
      rw [token_eq_core _ _ _ (by decide) (by decide) (by decide), List.nil_append,
        skipSpace_ws_append _ hw, List.cons_append, skipSpace_of_not _ hc.1]
  · constructor
    · rw [List.append_assoc, List.singleton_append]
      exact more_of_head _ _ _ hw0 (by decide) (by decide) (by decide)
    · refine ⟨.arrayValue, rfl, rfl, ?_⟩
      rw [List.append_assoc, List.singleton_append, token_comma _ _ _ hw0,
        skipSpace_ws_append _ hw, List.cons_append, skipSpace_of_not _ hc.1]
      rfl

/-- One iteration of `parseArray`'s loop on an element. -/
theorem parseArray_elem {st : TokState} {pre w1 v : Bytes} (tail : Bytes)
    (s : TokState) (stk : List TokState) {f : Nat}
    (hpre : ElemPre st pre) (hw1 : Grammar.WS w1) (hv : Grammar.JValue v) (hok : ValOK v)
    (hf : v.length ≤ f) (htail : NumberEnds tail) :
    ∃ jv,
      parseArray (f + 1) ⟨pre ++ (w1 ++ (v ++ tail)), st, s :: stk⟩ =
      (parseArray f ⟨tail, .arrayComma, s :: stk⟩).map fun (xs, d) => (.cons jv xs, d) := by
  obtain ⟨hmore, st', hva, hve, htok⟩ := token_elem tail (s :: stk) hpre hw1 hv
  obtain ⟨t, d2, hcore, hfuel⟩ := hok st' (s :: stk) tail hva htail
  obtain ⟨jv, hjv⟩ := hfuel f hf
  refine ⟨jv, ?_⟩
  rw [parseArray, if_pos hmore, htok, hcore]
  simp only [asTok]
  rw [hjv, hve]
  simp only []
  cases parseArray f ⟨tail, .arrayComma, s :: stk⟩ with
  | none => rfl
  | some p => rfl


def CompVal (n : Nat) : Prop := ∀ v, v.length < n → Grammar.JValue v → ValOK v

def CompObj (n : Nat) : Prop :=
  ∀ m, m.length < n → Grammar.JMembers m → ∀ st pre s stk rest fuel, KeyPre st pre →
    m.length + 1 ≤ fuel →
    ∃ ms, parseObject fuel ⟨pre ++ (m ++ 0x7D :: rest), st, s :: stk⟩ =
      (ms, some ⟨rest, valueEnd s, stk⟩)

def CompArr (n : Nat) : Prop :=
  ∀ m, m.length < n → Grammar.JElems m → ∀ st pre s stk rest fuel, ElemPre st pre →
    m.length + 1 ≤ fuel →
    ∃ xs, parseArray fuel ⟨pre ++ (m ++ 0x5D :: rest), st, s :: stk⟩ =
      some (xs, ⟨rest, valueEnd s, stk⟩)

theorem compObj_succ {n : Nat} (hV : CompVal n) (hO : CompObj n) : CompObj (n + 1) := by
  intro m hlen hm st pre s stk rest fuel hpre hfuel
  cases hm with
  | one w1 k w2 w3 v w4 hw1 hk hw2 hw3 hv hw4 =>
    simp only [List.length_append, List.length_cons] at hlen hfuel
    obtain ⟨f, rfl⟩ : ∃ f, fuel = f + 2 := ⟨fuel - 2, by omega⟩
    have e0 : pre ++ ((w1 ++ k ++ w2 ++ 0x3A :: (w3 ++ v ++ w4)) ++ 0x7D :: rest) =
        pre ++ (w1 ++ (k ++ (w2 ++ 0x3A :: (w3 ++ (v ++ (w4 ++ 0x7D :: rest)))))) := by simp
    rw [e0]
    obtain ⟨key, jv, e⟩ := parseObject_member (w4 ++ 0x7D :: rest) s stk hpre hw1 hk hw2 hw3 hv
      (hV v (by omega) hv) (show v.length ≤ f + 1 by omega)
      (numberEnds_ws_sep _ hw4 (.inr (.inr rfl)))
    rw [e, parseObject_close _ _ _ _ (.inr rfl) hw4]
    exact ⟨_, rfl⟩
  | more w1 k w2 w3 v w4 m' hw1 hk hw2 hw3 hv hw4 hm' =>
    simp only [List.length_append, List.length_cons] at hlen hfuel
    obtain ⟨f, rfl⟩ : ∃ f, fuel = f + 1 := ⟨fuel - 1, by omega⟩
    have e0 : pre ++ ((w1 ++ k ++ w2 ++ 0x3A :: (w3 ++ v ++ w4) ++ 0x2C :: m') ++ 0x7D :: rest) =
        pre ++ (w1 ++ (k ++ (w2 ++ 0x3A :: (w3 ++ (v ++ (w4 ++ 0x2C :: (m' ++ 0x7D :: rest))))))) := by
      simp
    rw [e0]
    obtain ⟨key, jv, e⟩ := parseObject_member (w4 ++ 0x2C :: (m' ++ 0x7D :: rest)) s stk hpre hw1 hk
      hw2 hw3 hv (hV v (by omega) hv) (show v.length ≤ f by omega)
      (numberEnds_ws_sep _ hw4 (.inl rfl))
    obtain ⟨ms', e'⟩ := hO m' (by omega) hm' .objectComma (w4 ++ [0x2C]) s stk rest f
      (.inr ⟨rfl, w4, hw4, rfl⟩) (by omega)
    simp only [List.append_assoc, List.singleton_append] at e'
    rw [e, e']
    exact ⟨_, rfl⟩

theorem compArr_succ {n : Nat} (hV : CompVal (n + 1)) (hA : CompArr n) : CompArr (n + 1) := by
  intro m hlen hm st pre s stk rest fuel hpre hfuel
  cases hm with
  | one w1 v w2 hw1 hv hw2 =>
    simp only [List.length_append] at hlen hfuel
    obtain ⟨c, t, ev, _⟩ := jvalue_head hv
    have hvl : 1 ≤ v.length := by rw [ev]; simp
    obtain ⟨f, rfl⟩ : ∃ f, fuel = f + 2 := ⟨fuel - 2, by omega⟩
    have e0 : pre ++ ((w1 ++ v ++ w2) ++ 0x5D :: rest) =
        pre ++ (w1 ++ (v ++ (w2 ++ 0x5D :: rest))) := by simp
    rw [e0]
    obtain ⟨jv, e⟩ := parseArray_elem (w2 ++ 0x5D :: rest) s stk hpre hw1 hv
      (hV v (by omega) hv) (show v.length ≤ f + 1 by omega)
      (numberEnds_ws_sep _ hw2 (.inr (.inl rfl)))
    rw [e, parseArray_close _ _ _ _ (.inr rfl) hw2]
    exact ⟨_, rfl⟩
  | more w1 v w2 m' hw1 hv hw2 hm' =>
    simp only [List.length_append, List.length_cons] at hlen hfuel
    obtain ⟨f, rfl⟩ : ∃ f, fuel = f + 1 := ⟨fuel - 1, by omega⟩
    have e0 : pre ++ ((w1 ++ v ++ w2 ++ 0x2C :: m') ++ 0x5D :: rest) =
        pre ++ (w1 ++ (v ++ (w2 ++ 0x2C :: (m' ++ 0x5D :: rest)))) := by simp
    rw [e0]
    obtain ⟨jv, e⟩ := parseArray_elem (w2 ++ 0x2C :: (m' ++ 0x5D :: rest)) s stk hpre hw1 hv
      (hV v (by omega) hv) (show v.length ≤ f by omega)
      (numberEnds_ws_sep _ hw2 (.inl rfl))
    obtain ⟨xs', e'⟩ := hA m' (by omega) hm' .arrayComma (w2 ++ [0x2C]) s stk rest f
      (.inr ⟨rfl, w2, hw2, rfl⟩) (by omega)
    simp only [List.append_assoc, List.singleton_append] at e'
    rw [e, e']
    exact ⟨_, rfl⟩

theorem jscalar_toValue {v : Bytes} (h : JScalar v) : Grammar.JValue v := by
  cases h with
  | null => exact .null
  | tru => exact .tru
  | fls => exact .fls
  | num _ h => exact .num _ h
  | str _ h => exact .str _ h

theorem valOK_scalar {v : Bytes} (hv : JScalar v) : ValOK v := by
  intro st stack rest hva hr
  obtain ⟨t, ht, hsc⟩ := tokenCore_jscalar stack hva hv hr
  refine ⟨t, _, ht, ?_⟩
  intro fuel hf
  obtain ⟨c, tl, ev, _⟩ := jvalue_head (jscalar_toValue hv)
  have hvl : 1 ≤ v.length := by rw [ev]; simp
  obtain ⟨f, rfl⟩ : ∃ f, fuel = f + 1 := ⟨fuel - 1, by omega⟩
  exact handleDelim_scalar f _ hsc

theorem compVal_succ {n : Nat} (hO : CompObj n) (hA : CompArr n) : CompVal (n + 1) := by
  intro v hlen hv
  cases hv with
  | null => exact valOK_scalar .null
  | tru => exact valOK_scalar .tru
  | fls => exact valOK_scalar .fls
  | num _ h => exact valOK_scalar (.num _ h)
  | str _ h => exact valOK_scalar (.str _ h)
  | arr _ h =>
    intro st stack rest hva hr
    cases h with
    | empty w hw =>
      refine ⟨.lbrack, _, by rw [List.cons_append]; exact tokenCore_lbrack stack _ hva, ?_⟩
      intro fuel hf
      simp only [List.length_append, List.length_cons, List.length_nil] at hf
      obtain ⟨f, rfl⟩ : ∃ f, fuel = f + 2 := ⟨fuel - 2, by omega⟩
      simp only [handleDelim, List.append_assoc, List.singleton_append]
      rw [parseArray_close _ _ _ _ (.inl rfl) hw]
      exact ⟨_, rfl⟩
    | elems body hb =>
      refine ⟨.lbrack, _, by rw [List.cons_append]; exact tokenCore_lbrack stack _ hva, ?_⟩
      intro fuel hf
      simp only [List.length_append, List.length_cons, List.length_nil] at hf hlen
      obtain ⟨f, rfl⟩ : ∃ f, fuel = f + 1 := ⟨fuel - 1, by omega⟩
      obtain ⟨xs, e⟩ := hA body (by omega) hb .arrayStart [] st stack rest f (.inl ⟨rfl, rfl⟩)
        (by omega)
      simp only [List.nil_append] at e
      simp only [handleDelim, List.append_assoc, List.singleton_append]
      rw [e]
      exact ⟨_, rfl⟩
  | obj _ h =>
    intro st stack rest hva hr
    cases h with
    | empty w hw =>
      refine ⟨.lbrace, _, by rw [List.cons_append]; exact tokenCore_lbrace stack _ hva, ?_⟩
      intro fuel hf
      simp only [List.length_append, List.length_cons, List.length_nil] at hf
      obtain ⟨f, rfl⟩ : ∃ f, fuel = f + 2 := ⟨fuel - 2, by omega⟩
      simp only [handleDelim, List.append_assoc, List.singleton_append]
      rw [parseObject_close _ _ _ _ (.inl rfl) hw]
      exact ⟨_, rfl⟩
    | members body hb =>
      refine ⟨.lbrace, _, by rw [List.cons_append]; exact tokenCore_lbrace stack _ hva, ?_⟩
      intro fuel hf
      simp only [List.length_append, List.length_cons, List.length_nil] at hf hlen
      obtain ⟨f, rfl⟩ : ∃ f, fuel = f + 1 := ⟨fuel - 1, by omega⟩
      obtain ⟨ms, e⟩ := hO body (by omega) hb .objectStart [] st stack rest f (.inl ⟨rfl, rfl⟩)
        (by omega)
      simp only [List.nil_append] at e
      simp only [handleDelim, List.append_assoc, List.singleton_append]
      rw [e]
      exact ⟨_, rfl⟩

theorem comp_all : ∀ n, CompVal n ∧ CompObj n ∧ CompArr n := by
  intro n
  induction n with
  | zero =>
    exact ⟨fun _ h => absurd h (Nat.not_lt_zero _), fun _ h => absurd h (Nat.not_lt_zero _),
      fun _ h => absurd h (Nat.not_lt_zero _)⟩
  | succ n ih =>
    obtain ⟨hV, hO, hA⟩ := ih
    exact ⟨compVal_succ hO hA, compObj_succ hV hO, compArr_succ (compVal_succ hO hA) hA⟩


/-- Top level, forward: spaces, `{`, a successful `parseObject` that leaves only spaces. -/
theorem accepts_of_parse {bs w1 r w2 : Bytes} {ms : JVMembers} (hw1 : Grammar.WS w1)
    (hw2 : Grammar.WS w2) (ebs : bs = w1 ++ 0x7B :: r)
    (hp : parseObject (2 * bs.length + 2) ⟨r, .objectStart, [.topValue]⟩ =
      (ms, some ⟨w2, .topValue, []⟩)) : Json.accepts bs = true := by
  have h1 : token ⟨bs, .topValue, []⟩ = .tok .lbrace ⟨r, .objectStart, [.topValue]⟩ := by
    rw [token_eq_core _ _ _ (by decide) (by decide) (by decide), ebs,
      skipSpace_ws_head _ hw1 (by decide)]
    exact tokenCore_lbrace [] r rfl
  have h2 : token ⟨w2, .topValue, []⟩ = .eof := by
    rw [token_eq_core _ _ _ (by decide) (by decide) (by decide), (skipSpace_eq_nil_iff w2).2 hw2]
    rfl
  unfold Json.accepts Json.unmarshal
  rw [h1]
  simp only [asClose, if_true]
  rw [hp]
  simp only [h2, isEof]

/-- C16, completeness: one JSON object surrounded by optional whitespace is accepted (and the
    fuel `2 * length + 2` given by `unmarshal` is enough). -/
theorem accepts_complete (bs : Bytes) (h : Grammar.IsObjectText bs) : Json.accepts bs = true := by
  obtain ⟨w1, o, w2, ebs, hw1, ho, hw2⟩ := h
  cases ho with
  | empty w hw =>
    have e : bs = w1 ++ 0x7B :: (w ++ 0x7D :: w2) := by rw [ebs]; simp
    refine accepts_of_parse (ms := .nil) hw1 hw2 e ?_
    exact parseObject_close _ _ _ _ (.inl rfl) hw
  | members body hb =>
    have e : bs = w1 ++ 0x7B :: (body ++ 0x7D :: w2) := by rw [ebs]; simp
    have hlen : body.length + 1 ≤ 2 * bs.length + 2 := by
      rw [e]; simp only [List.length_append, List.length_cons]; omega
    obtain ⟨ms, hp⟩ := (comp_all (body.length + 1)).2.1 body (Nat.lt_succ_self _) hb .objectStart []
      .topValue [] w2 _ (.inl ⟨rfl, rfl⟩) hlen
    rw [List.nil_append] at hp
    exact accepts_of_parse hw1 hw2 e hp

/-- **C16.** A line is accepted exactly when it is one syntactically valid JSON object,
    optionally surrounded by whitespace. -/
theorem accepts_iff (bs : Bytes) : Json.accepts bs = true ↔ Grammar.IsObjectText bs :=
  ⟨accepts_sound bs, accepts_complete bs⟩

theorem rejects_iff (bs : Bytes) : Json.accepts bs = false ↔ ¬ Grammar.IsObjectText bs := by
  rw [← accepts_iff]; simp


/-! ### Fuel monotonicity -/

def MonoObj (n : Nat) : Prop :=
  ∀ d ms d' m, n ≤ m → parseObject n d = (ms, some d') → parseObject m d = (ms, some d')
def MonoArr (n : Nat) : Prop :=
  ∀ d r m, n ≤ m → parseArray n d = some r → parseArray m d = some r
def MonoVal (n : Nat) : Prop :=
  ∀ t d r m, n ≤ m → handleDelim n t d = some r → handleDelim m t d = some r

theorem monoObj_succ {n : Nat} (hO : MonoObj n) (hV : MonoVal n) : MonoObj (n + 1) := by
  intro d ms d' m hm h
  obtain ⟨m', rfl⟩ : ∃ m', m = m' + 1 := ⟨m - 1, by omega⟩
  rw [parseObject] at h ⊢
  split at h
  · rename_i hmore
    rw [if_pos hmore]
    cases hk : asKey (token d) with
    | none => rw [hk] at h; cases h
    | some p =>
      obtain ⟨key, d1⟩ := p
      rw [hk] at h
      simp only [] at h ⊢
      cases ht : asTok (token d1) with
      | none => rw [ht] at h; cases h
      | some p =>
        obtain ⟨t, d2⟩ := p
        rw [ht] at h
        simp only [] at h ⊢
        cases hh : handleDelim n t d2 with
        | none => rw [hh] at h; cases h
        | some p =>
          obtain ⟨v, d3⟩ := p
          rw [hh] at h
          rw [hV _ _ _ m' (by omega) hh]
          simp only [] at h ⊢
          injection h with h1 h2
          have h3 : parseObject n d3 = ((parseObject n d3).1, some d') := Prod.ext rfl h2
          rw [hO _ _ _ m' (by omega) h3, ← h1]
  · rename_i hmore
    rw [if_neg hmore]
    exact h

theorem monoArr_succ {n : Nat} (hA : MonoArr n) (hV : MonoVal n) : MonoArr (n + 1) := by
  intro d r m hm h
  obtain ⟨m', rfl⟩ : ∃ m', m = m' + 1 := ⟨m - 1, by omega⟩
  rw [parseArray] at h ⊢
  split at h
  · rename_i hmore
    rw [if_pos hmore]
    cases ht : asTok (token d) with
    | none => rw [ht] at h; cases h
    | some p =>
      obtain ⟨t, d1⟩ := p
      rw [ht] at h
      simp only [] at h ⊢
      cases hh : handleDelim n t d1 with
      | none => rw [hh] at h; cases h
      | some p =>
        obtain ⟨v, d2⟩ := p
        rw [hh] at h
        rw [hV _ _ _ m' (by omega) hh]
        simp only [] at h ⊢
        cases hp : parseArray n d2 with
        | none => rw [hp] at h; cases h
        | some q =>
          rw [hp] at h
          rw [hA _ _ m' (by omega) hp]
          exact h
  · rename_i hmore
    rw [if_neg hmore]
    exact h

theorem monoVal_succ {n : Nat} (hO : MonoObj n) (hA : MonoArr n) : MonoVal (n + 1) := by
  intro t d r m hm h
  obtain ⟨m', rfl⟩ : ∃ m', m = m' + 1 := ⟨m - 1, by omega⟩
  cases t with
  | lbrace =>
    simp only [handleDelim] at h ⊢
    cases hp : parseObject n d with
    | mk ms od =>
      rw [hp] at h
      cases od with
      | none => cases h
      | some d' =>
        rw [hO _ _ _ m' (by omega) hp]
        exact h
  | lbrack =>
    simp only [handleDelim] at h ⊢
    cases hp : parseArray n d with
    | none => rw [hp] at h; cases h
    | some q =>
      rw [hp] at h
      rw [hA _ _ m' (by omega) hp]
      exact h
  | rbrace => simp [handleDelim] at h
  | rbrack => simp [handleDelim] at h
  | str s => simpa [handleDelim] using h
  | num l => simpa [handleDelim] using h
  | tru => simpa [handleDelim] using h
  | fls => simpa [handleDelim] using h
  | null => simpa [handleDelim] using h

theorem mono_all : ∀ n, MonoObj n ∧ MonoArr n ∧ MonoVal n := by
  intro n
  induction n with
  | zero =>
    refine ⟨?_, ?_, ?_⟩
    · intro d ms d' m _ h; simp [parseObject] at h
    · intro d r m _ h; simp [parseArray] at h
    · intro t d r m _ h; simp [handleDelim] at h
  | succ n ih =>
    obtain ⟨hO, hA, hV⟩ := ih
    exact ⟨monoObj_succ hO hV, monoArr_succ hA hV, monoVal_succ hO hA⟩

/-- Fuel monotonicity: a successful `parseObject` run gives the same result with any larger
    fuel (so the particular fuel `2 * length + 2` in `unmarshal` is immaterial once it suffices). -/
theorem parseObject_mono {n m : Nat} {d d' : Dec} {ms : JVMembers} (hm : n ≤ m)
    (h : parseObject n d = (ms, some d')) : parseObject m d = (ms, some d') :=
  (mono_all n).1 d ms d' m hm h

theorem parseArray_mono {n m : Nat} {d : Dec} {r : JVList × Dec} (hm : n ≤ m)
    (h : parseArray n d = some r) : parseArray m d = some r :=
  (mono_all n).2.1 d r m hm h

theorem handleDelim_mono {n m : Nat} {t : Tok} {d : Dec} {r : JV × Dec} (hm : n ≤ m)
    (h : handleDelim n t d = some r) : handleDelim m t d = some r :=
  (mono_all n).2.2 t d r m hm h


/-! ### Corollaries: explicit rejections and acceptances

`strBody` is defined by well-founded recursion, which plain `decide` does not unfold;
`with_unfolding_all decide` evaluates it (still kernel-checked, no extra axioms). -/

/-- A line of whitespace only (in particular the empty line) is rejected. -/
theorem accepts_ws_false {bs : Bytes} (h : Grammar.WS bs) : Json.accepts bs = false := by
  unfold Json.accepts Json.unmarshal
  rw [token_eq_core _ _ _ (by decide) (by decide) (by decide), (skipSpace_eq_nil_iff bs).2 h]
  rfl

theorem accepts_nil_false : Json.accepts [] = false := accepts_ws_false ws_nil

/-- A text whose first non-space byte is not `{` is rejected (non-object values, a BOM, …). -/
theorem accepts_false_of_head {w r : Bytes} {c : UInt8} (hw : Grammar.WS w)
    (hs : isSpace c = false) (hc : c ≠ 0x7B) : Json.accepts (w ++ c :: r) = false := by
  cases h : Json.accepts (w ++ c :: r) with
  | false => rfl
  | true =>
    obtain ⟨w1, o, w2, e, hw1, ho, _⟩ := accepts_sound _ h
    have e' : w ++ c :: r = w1 ++ 0x7B :: (o.tail ++ w2) := by
      rw [e]; cases ho <;> simp
    have h1 := congrArg skipSpace e'
    rw [skipSpace_ws_head _ hw hs, skipSpace_ws_head _ hw1 (by decide)] at h1
    injection h1 with h1 _
    exact absurd h1 hc

-- the empty line
example : Json.accepts [] = false := by decide
-- whitespace only: SP TAB LF CR
example : Json.accepts [0x20, 0x09, 0x0A, 0x0D] = false := by decide
-- `[1]`
example : Json.accepts [0x5B, 0x31, 0x5D] = false := by decide
-- `1`
example : Json.accepts [0x31] = false := by decide
-- `"x"`
example : Json.accepts [0x22, 0x78, 0x22] = false := by with_unfolding_all decide
-- `null`
example : Json.accepts [0x6E, 0x75, 0x6C, 0x6C] = false := by decide
-- `{}x`
example : Json.accepts [0x7B, 0x7D, 0x78] = false := by decide
-- `{}{}`
example : Json.accepts [0x7B, 0x7D, 0x7B, 0x7D] = false := by decide
-- `{"a":1`
example : Json.accepts [0x7B, 0x22, 0x61, 0x22, 0x3A, 0x31] = false := by with_unfolding_all decide
-- `{"a":1,}`
example : Json.accepts [0x7B, 0x22, 0x61, 0x22, 0x3A, 0x31, 0x2C, 0x7D] = false := by
  with_unfolding_all decide
-- `{"a" 1}`
example : Json.accepts [0x7B, 0x22, 0x61, 0x22, 0x20, 0x31, 0x7D] = false := by
  with_unfolding_all decide
-- `{"a":}`
example : Json.accepts [0x7B, 0x22, 0x61, 0x22, 0x3A, 0x7D] = false := by with_unfolding_all decide
-- `{"a":01}`
example : Json.accepts [0x7B, 0x22, 0x61, 0x22, 0x3A, 0x30, 0x31, 0x7D] = false := by
  with_unfolding_all decide
-- `{"a":1.}`
example : Json.accepts [0x7B, 0x22, 0x61, 0x22, 0x3A, 0x31, 0x2E, 0x7D] = false := by
  with_unfolding_all decide
-- `{"a":tru}`
example : Json.accepts [0x7B, 0x22, 0x61, 0x22, 0x3A, 0x74, 0x72, 0x75, 0x7D] = false := by
  with_unfolding_all decide
-- `{"a":"\x"}` (bad escape)
example : Json.accepts [0x7B, 0x22, 0x61, 0x22, 0x3A, 0x22, 0x5C, 0x78, 0x22, 0x7D] = false := by
  with_unfolding_all decide
-- `{"a":"<TAB>"}` (raw control byte in a string)
example : Json.accepts [0x7B, 0x22, 0x61, 0x22, 0x3A, 0x22, 0x09, 0x22, 0x7D] = false := by
  with_unfolding_all decide
-- `{'a':1}`
example : Json.accepts [0x7B, 0x27, 0x61, 0x27, 0x3A, 0x31, 0x7D] = false := by decide
-- `{a:1}`
example : Json.accepts [0x7B, 0x61, 0x3A, 0x31, 0x7D] = false := by decide
-- `{1:1}`
example : Json.accepts [0x7B, 0x31, 0x3A, 0x31, 0x7D] = false := by decide
-- a lone `{`
example : Json.accepts [0x7B] = false := by decide
-- a lone `}`
example : Json.accepts [0x7D] = false := by decide
-- `{]`
example : Json.accepts [0x7B, 0x5D] = false := by decide
-- `{"a":[1}` and `{"a":[1,]}`
example : Json.accepts [0x7B, 0x22, 0x61, 0x22, 0x3A, 0x5B, 0x31, 0x7D] = false := by
  with_unfolding_all decide
example : Json.accepts [0x7B, 0x22, 0x61, 0x22, 0x3A, 0x5B, 0x31, 0x2C, 0x5D, 0x7D] = false := by
  with_unfolding_all decide
-- UTF-8 BOM, then `{}`
example : Json.accepts [0xEF, 0xBB, 0xBF, 0x7B, 0x7D] = false := by decide
example : Json.accepts [0xEF, 0xBB, 0xBF, 0x7B, 0x7D] = false :=
  accepts_false_of_head (w := []) ws_nil (by decide) (by decide)
-- vertical tab / form feed / NBSP are not JSON whitespace: VT `{}`
example : Json.accepts [0x0B, 0x7B, 0x7D] = false := by decide

-- `{}`
example : Json.accepts [0x7B, 0x7D] = true := by decide
-- ` { } `
example : Json.accepts [0x20, 0x7B, 0x20, 0x7D, 0x20] = true := by decide
-- `{"a":[1,{"b":null}]}`
example : Json.accepts [0x7B, 0x22, 0x61, 0x22, 0x3A, 0x5B, 0x31, 0x2C, 0x7B, 0x22, 0x62, 0x22,
    0x3A, 0x6E, 0x75, 0x6C, 0x6C, 0x7D, 0x5D, 0x7D] = true := by with_unfolding_all decide
-- `{"a":1,"a":2}` (duplicate keys are syntactically fine)
example : Json.accepts [0x7B, 0x22, 0x61, 0x22, 0x3A, 0x31, 0x2C, 0x22, 0x61, 0x22, 0x3A, 0x32,
    0x7D] = true := by with_unfolding_all decide
-- `{"😀":-1.5e+3}` (surrogate pair escape, full number syntax)
example : Json.accepts [0x7B, 0x22, 0x5C, 0x75, 0x64, 0x38, 0x33, 0x64, 0x5C, 0x75, 0x64, 0x65,
    0x30, 0x30, 0x22, 0x3A, 0x2D, 0x31, 0x2E, 0x35, 0x65, 0x2B, 0x33, 0x7D] = true := by
  with_unfolding_all decide
-- ill-formed UTF-8 inside a string is accepted (DESIGN.md §10): `{"<FF>":0}`
example : Json.accepts [0x7B, 0x22, 0xFF, 0x22, 0x3A, 0x30, 0x7D] = true := by
  with_unfolding_all decide

/-! The same facts on the grammar side, through `accepts_iff` (non-vacuity of the
    specification in both directions). -/
example : Grammar.IsObjectText [0x7B, 0x7D] := (accepts_iff _).1 (by decide)
example : ¬ Grammar.IsObjectText [] := (rejects_iff _).1 (by decide)
example : ¬ Grammar.IsObjectText [0x5B, 0x31, 0x5D] := (rejects_iff _).1 (by decide)
example : ¬ Grammar.IsObjectText [0x7B, 0x7D, 0x7B, 0x7D] := (rejects_iff _).1 (by decide)
example : ¬ Grammar.IsObjectText [0x7B, 0x22, 0x61, 0x22, 0x3A, 0x31, 0x2C, 0x7D] :=
  (rejects_iff _).1 (by with_unfolding_all decide)
example : Grammar.IsObjectText [0x7B, 0x22, 0x61, 0x22, 0x3A, 0x5B, 0x31, 0x2C, 0x7B, 0x22, 0x62,
    0x22, 0x3A, 0x6E, 0x75, 0x6C, 0x6C, 0x7D, 0x5D, 0x7D] :=
  (accepts_iff _).1 (by with_unfolding_all decide)

end Jl.JsonAcc
