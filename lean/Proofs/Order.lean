/-
  Proofs.Order — the key order of an emitted line (towards C03).

  `appendNew base new` is the key list of a row whose keys were `base` after the keys `new`
  have been stored one after the other: a key already present keeps its place, a new key goes
  to the end.  Every row mutator of the model (CloneRow, CreateRow's fill, parseobject) moves
  the key list that way, so the key list of the row that is printed is a function of the
  template's declaration order and of the input text's member names alone.
-/
import Model.Template
import Proofs.Row

namespace Jl.Order
open Jl Jl.Value Jl.Template

/-! ### `appendNew`: first-appearance order -/

/-- Store the keys `new` in order into a key list: present keys stay where they are, absent
    keys are appended. -/
def appendNew (base new : List Bytes) : List Bytes :=
  new.foldl (fun acc k => if k ∈ acc then acc else acc ++ [k]) base

/-- First occurrences, in order (a structural twin of `List.eraseDups`). -/
def dedup : List Bytes → List Bytes
  | [] => []
  | a :: l => a :: (dedup l).filter fun b => !b == a

@[simp] theorem appendNew_nil (base : List Bytes) : appendNew base [] = base := rfl

theorem appendNew_cons (base : List Bytes) (a : Bytes) (new : List Bytes) :
    appendNew base (a :: new) = appendNew (if a ∈ base then base else base ++ [a]) new := rfl

theorem appendNew_append (base l₁ l₂ : List Bytes) :
    appendNew base (l₁ ++ l₂) = appendNew (appendNew base l₁) l₂ := by
  simp [appendNew, List.foldl_append]

theorem appendNew_singleton (base : List Bytes) (a : Bytes) :
    appendNew base [a] = if a ∈ base then base else base ++ [a] := rfl

theorem filter_filter_ne_of_mem {a : Bytes} {base l : List Bytes} (ha : a ∈ base) :
    (l.filter fun b => !b == a).filter (fun k => decide (k ∉ base)) =
      l.filter (fun k => decide (k ∉ base)) := by
  rw [List.filter_filter]
  apply List.filter_congr
  intro x _
  by_cases hx : x ∈ base
  · simp [hx]
  · have : ¬ x = a := fun e => hx (e ▸ ha)
    simp [hx, this]

/-- The keys of `base`, then the first occurrences of the keys of `new` that `base` lacks. -/
theorem appendNew_eq_dedup (new : List Bytes) : ∀ base : List Bytes,
    appendNew base new = base ++ (dedup new).filter (fun k => decide (k ∉ base)) := by
  induction new with
  | nil => intro base; simp [dedup]
  | cons a new ih =>
    intro base
    rw [appendNew_cons, ih, dedup]
    by_cases ha : a ∈ base
    · simp only [ha, if_true]
      rw [List.filter_cons]
      simp only [ha, not_true_eq_false, decide_false, Bool.false_eq_true, if_false]
      rw [filter_filter_ne_of_mem ha]
    · simp only [ha, if_false]
      rw [List.filter_cons]
      simp only [ha, not_false_eq_true, decide_true, if_true]
      rw [List.append_assoc, List.singleton_append, List.filter_filter]
      congr 2
      apply List.filter_congr
      intro x _
      by_cases hx : x ∈ base
      · simp [hx]
      · by_cases hxa : x = a
        · simp [hxa]
        · simp [hx, hxa]

theorem dedup_filter (p : Bytes → Bool) (l : List Bytes) :
    (dedup l).filter p = dedup (l.filter p) := by
  induction l with
  | nil => rfl
  | cons a l ih =>
    rw [dedup, List.filter_cons, List.filter_cons]
    by_cases hp : p a = true
    · simp only [hp, if_true]
      rw [dedup, ← ih, List.filter_filter, List.filter_filter]
      congr 1
      apply List.filter_congr
      intro x _
      exact Bool.and_comm _ _
    · simp only [hp, Bool.false_eq_true, if_false]
      rw [← ih, List.filter_filter]
      apply List.filter_congr
      intro x _
      by_cases hxa : x = a
      · subst hxa; simp [hp]
      · simp [hxa]

theorem dedup_eq_eraseDups (l : List Bytes) : dedup l = l.eraseDups := by
  suffices ∀ n (l : List Bytes), l.length ≤ n → dedup l = l.eraseDups from this _ l (Nat.le_refl _)
  intro n
  induction n with
  | zero =>
    intro l hl
    cases l with
    | nil => rfl
    | cons a l => simp at hl
  | succ n ih =>
    intro l hl
    cases l with
    | nil => rfl
    | cons a l =>
      rw [List.eraseDups_cons, dedup, dedup_filter]
      congr 1
      apply ih
      have := List.length_filter_le (fun b => !b == a) l
      simp only [List.length_cons] at hl
      omega

/-- 1. `appendNew`: the base, then the new keys in order of first appearance. -/
theorem appendNew_eq (base new : List Bytes) :
    appendNew base new = base ++ new.eraseDups.filter (fun k => decide (k ∉ base)) := by
  rw [appendNew_eq_dedup, dedup_eq_eraseDups]

theorem appendNew_nil_left (l : List Bytes) : appendNew [] l = l.eraseDups := by
  rw [appendNew_eq]; simp

theorem mem_dedup {k : Bytes} {l : List Bytes} : k ∈ dedup l ↔ k ∈ l := by
  rw [dedup_eq_eraseDups]; exact List.mem_eraseDups

theorem mem_appendNew {k : Bytes} {base new : List Bytes} :
    k ∈ appendNew base new ↔ k ∈ base ∨ k ∈ new := by
  rw [appendNew_eq_dedup]
  simp only [List.mem_append, List.mem_filter, mem_dedup, decide_eq_true_eq]
  constructor
  · rintro (h | ⟨h, _⟩)
    · exact .inl h
    · exact .inr h
  · rintro (h | h)
    · exact .inl h
    · by_cases hb : k ∈ base
      · exact .inl hb
      · exact .inr ⟨h, hb⟩

theorem nodup_dedup (l : List Bytes) : (dedup l).Nodup := by
  induction l with
  | nil => simp [dedup]
  | cons a l ih =>
    rw [dedup, List.nodup_cons]
    refine ⟨?_, ih.filter _⟩
    simp [List.mem_filter]

theorem dedup_of_nodup {l : List Bytes} (h : l.Nodup) : dedup l = l := by
  induction l with
  | nil => rfl
  | cons a l ih =>
    rw [List.nodup_cons] at h
    rw [dedup, ih h.2]
    congr 1
    rw [List.filter_eq_self]
    intro x hx
    have : ¬ x = a := fun e => h.1 (e ▸ hx)
    simp [this]

theorem nodup_appendNew {base : List Bytes} (new : List Bytes) (h : base.Nodup) :
    (appendNew base new).Nodup := by
  rw [appendNew_eq_dedup, List.nodup_append]
  refine ⟨h, (nodup_dedup new).filter _, ?_⟩
  intro a ha b hb
  simp only [List.mem_filter, decide_eq_true_eq] at hb
  intro e; subst e; exact hb.2 ha

theorem appendNew_nil_of_nodup {l : List Bytes} (h : l.Nodup) : appendNew [] l = l := by
  rw [appendNew_eq_dedup, dedup_of_nodup h]; simp

theorem eraseDups_of_nodup {l : List Bytes} (h : l.Nodup) : l.eraseDups = l := by
  rw [← dedup_eq_eraseDups, dedup_of_nodup h]

/-- The undeclared part depends only on the undeclared members of the input, in their order. -/
theorem eraseDups_filter (p : Bytes → Bool) (l : List Bytes) :
    l.eraseDups.filter p = (l.filter p).eraseDups := by
  rw [← dedup_eq_eraseDups, ← dedup_eq_eraseDups, dedup_filter]

/-! ### Row operations move the key list by `appendNew` -/

theorem keys_upsert_appendNew (o : List (Bytes × Val)) (k : Bytes) (c : Val) :
    OMap.keys (upsert o k c) = appendNew (OMap.keys o) [k] :=
  OMap.keys_upsert o k c

theorem cloneInto_keys (env : Env) (r : List (Bytes × Val)) :
    ∀ (acc r' : List (Bytes × Val)), cloneInto env acc r = .ok r' →
      OMap.keys r' = appendNew (OMap.keys acc) (OMap.keys r) := by
  induction r with
  | nil =>
    intro acc r' h
    simp only [cloneInto, Outcome.ok.injEq] at h
    subst h; rfl
  | cons kv rest ih =>
    intro acc r' h
    obtain ⟨k, v⟩ := kv
    simp only [cloneInto] at h
    split at h
    · rw [ih _ _ h, keys_upsert_appendNew]
      exact (appendNew_append _ [k] _).symm
    · cases h
    · cases h

/-- 2. `CloneRow`: the keys of the source in order of first appearance. -/
theorem cloneRow_keys (env : Env) (r r' : List (Bytes × Val)) (h : cloneRow env r = .ok r') :
    OMap.keys r' = appendNew [] (OMap.keys r) :=
  cloneInto_keys env r [] r' h

theorem cloneRow_keys_of_nodup (env : Env) (r r' : List (Bytes × Val))
    (h : cloneRow env r = .ok r') (hnd : (OMap.keys r).Nodup) : OMap.keys r' = OMap.keys r := by
  rw [cloneRow_keys env r r' h, appendNew_nil_of_nodup hnd]

theorem cloneRow_keys_nodup (env : Env) (r r' : List (Bytes × Val)) (h : cloneRow env r = .ok r') :
    (OMap.keys r').Nodup := by
  rw [cloneRow_keys env r r' h]; exact nodup_appendNew _ List.nodup_nil

theorem fill_keys (env : Env) (row row' : List (Bytes × Val)) (k : Bytes) (x : Dyn)
    (h : fill env row k x = .ok row') : OMap.keys row' = appendNew (OMap.keys row) [k] := by
  unfold fill at h
  split at h
  · split at h
    · cases h; exact keys_upsert_appendNew _ _ _
    · cases h
    · cases h
  · cases h; exact keys_upsert_appendNew _ _ _

/-- 3. filling a row with (key, value) pairs -/
theorem fillPairs_keys (env : Env) (kvs : List (Bytes × Dyn)) :
    ∀ (row row' : List (Bytes × Val)), fillPairs env row kvs = .ok row' →
      OMap.keys row' = appendNew (OMap.keys row) (kvs.map Prod.fst) := by
  induction kvs with
  | nil =>
    intro row row' h
    simp only [fillPairs, Outcome.ok.injEq] at h
    subst h; rfl
  | cons kv kvs ih =>
    intro row row' h
    obtain ⟨k, x⟩ := kv
    simp only [fillPairs] at h
    split at h
    · rename_i r1 h1
      rw [ih _ _ h, fill_keys env _ _ _ _ h1]
      exact (appendNew_append _ [k] _).symm
    · rename_i hne
      exact absurd h (hne row')

theorem parseMember_keys (env : Env) (o o' : List (Bytes × Val)) (k : Bytes) (x : Dyn)
    (e : Option ErrClass) (h : parseMember env o k x = .ok (o', e)) :
    OMap.keys o' = appendNew (OMap.keys o) [k] := by
  unfold parseMember at h
  split at h
  · split at h
    · simp only [Outcome.ok.injEq, Prod.mk.injEq] at h
      rw [← h.1]; exact keys_upsert_appendNew _ _ _
    · cases h
    · cases h
  · simp only [Outcome.ok.injEq, Prod.mk.injEq] at h
    rw [← h.1]; exact keys_upsert_appendNew _ _ _

/-- 4. `parseobject` over the members the decoder delivered: the members up to the one whose
    import failed (all of them when nothing failed) were stored in order. -/
theorem parseMembers_keys (env : Env) (l : List (Bytes × Dyn)) :
    ∀ (o o' : List (Bytes × Val)) (e : Option ErrClass), parseMembers env o l = .ok (o', e) →
      ∃ pre, pre <+: l ∧ OMap.keys o' = appendNew (OMap.keys o) (pre.map Prod.fst) ∧
        (e = none → pre = l) := by
  induction l with
  | nil =>
    intro o o' e h
    simp only [parseMembers, Outcome.ok.injEq, Prod.mk.injEq] at h
    refine ⟨[], List.prefix_refl _, ?_, fun _ => rfl⟩
    rw [← h.1]; rfl
  | cons kv l ih =>
    intro o o' e h
    obtain ⟨k, x⟩ := kv
    simp only [parseMembers] at h
    split at h
    · rename_i o1 h1
      obtain ⟨pre, hp, hk, he⟩ := ih _ _ _ h
      refine ⟨(k, x) :: pre, ?_, ?_, ?_⟩
      · obtain ⟨t, ht⟩ := hp
        exact ⟨t, by rw [← ht]; rfl⟩
      · rw [hk, parseMember_keys env _ _ _ _ _ h1]
        exact (appendNew_append _ [k] _).symm
      · intro hn; rw [he hn]
    · rename_i r hne
      -- the member's own import failed: its key was present, and is counted as stored
      have h1 := parseMember_keys env o o' k x e h
      refine ⟨[(k, x)], ⟨l, rfl⟩, h1, ?_⟩
      intro hn
      subst hn
      exact absurd h (hne o')

theorem parseMembers_keys_ok (env : Env) (l : List (Bytes × Dyn)) (o o' : List (Bytes × Val))
    (h : parseMembers env o l = .ok (o', none)) :
    OMap.keys o' = appendNew (OMap.keys o) (l.map Prod.fst) := by
  obtain ⟨pre, _, hk, he⟩ := parseMembers_keys env l o o' none h
  rw [hk, he rfl]

/-! ### One line through the importer and the exporter -/

/-- The member names of the input text, in text order, duplicates kept: what the decoder
    delivered to `parseobject` at top level (a function of the text alone). -/
def inputKeys (line : Bytes) : List Bytes :=
  (Json.unmarshal line).1.toList.map Prod.fst

/-- Converting the parsed values never renames, drops or reorders a member. -/
theorem ofJVMembers_keys (env : Env) : ∀ (ms : JVMembers) (l : List (Bytes × Dyn)),
    ofJVMembers env ms = .ok l → l.map Prod.fst = ms.toList.map Prod.fst
  | .nil, l, h => by
    rw [ofJVMembers] at h
    cases h; rfl
  | .cons k v ms, l, h => by
    rw [ofJVMembers] at h
    split at h
    · split at h
      · rename_i d _ rest hrest
        cases h
        simp only [List.map_cons, JVMembers.toList, ofJVMembers_keys env ms rest hrest]
      · cases h
      · cases h
    · cases h
    · cases h

theorem unmarshalInto_ok (env : Env) (o o' : List (Bytes × Val)) (text : Bytes)
    (h : unmarshalInto env o text = .ok (o', none)) :
    ∃ l, ofJVMembers env (Json.unmarshal text).1 = .ok l ∧ parseMembers env o l = .ok (o', none) ∧
      (Json.unmarshal text).2 = true := by
  unfold unmarshalInto at h
  generalize Json.unmarshal text = u at h ⊢
  obtain ⟨ms, accepted⟩ := u
  simp only at h
  split at h
  · rename_i l hl
    split at h
    · cases h
    · rename_i o'' hp
      simp only [Outcome.ok.injEq, Prod.mk.injEq] at h
      obtain ⟨h1, h2⟩ := h
      subst h1
      refine ⟨l, hl, hp, ?_⟩
      by_cases ha : accepted = true
      · exact ha
      · simp [ha] at h2
    · cases h
    · cases h
  · cases h
  · cases h

theorem unmarshalInto_keys (env : Env) (o o' : List (Bytes × Val)) (text : Bytes)
    (h : unmarshalInto env o text = .ok (o', none)) :
    OMap.keys o' = appendNew (OMap.keys o) (inputKeys text) := by
  obtain ⟨l, hl, hp, _⟩ := unmarshalInto_ok env o o' text h
  rw [parseMembers_keys_ok env l o o' hp, ofJVMembers_keys env _ l hl, inputKeys]

theorem getRow_ok (env : Env) (ti : Tmpl) (line : Bytes) (r : List (Bytes × Val))
    (e : Option ErrClass) (h : getRow env ti line = .ok (r, e)) :
    ∃ row0, cloneRow env ti = .ok row0 ∧ unmarshalInto env row0 line = .ok (r, e) := by
  unfold getRow createRowEmpty at h
  split at h
  · cases h
  · cases h
  · rename_i row0 h0
    exact ⟨row0, h0, h⟩

/-- 5. `GetRow`: the template's keys, then the input's other member names in order of first
    appearance. -/
theorem getRow_keys (env : Env) (ti : Tmpl) (line : Bytes) (r : List (Bytes × Val))
    (h : getRow env ti line = .ok (r, none)) :
    OMap.keys r = appendNew (appendNew [] (OMap.keys ti)) (inputKeys line) := by
  obtain ⟨row0, h0, h1⟩ := getRow_ok env ti line r none h
  rw [unmarshalInto_keys env row0 r line h1, cloneRow_keys env ti row0 h0]

theorem getRow_keys_nodup (env : Env) (ti : Tmpl) (line : Bytes) (r : List (Bytes × Val))
    (h : getRow env ti line = .ok (r, none)) : (OMap.keys r).Nodup := by
  rw [getRow_keys env ti line r h]
  exact nodup_appendNew _ (nodup_appendNew _ List.nodup_nil)

theorem keys_map_raw (r : List (Bytes × Val)) :
    (r.map fun (k, c) => (k, Cells.raw c)).map Prod.fst = OMap.keys r := by
  simp [OMap.keys, List.map_map, Function.comp_def]

theorem createRow_row_ok (env : Env) (to : Tmpl) (r row' : List (Bytes × Val))
    (e : Option ErrClass)
    (h : createRow env to (.val (.row (Members.ofList r))) = .ok (row', e)) :
    ∃ row0, cloneRow env to = .ok row0 ∧
      fillPairs env row0 (r.map fun (k, c) => (k, Cells.raw c)) = .ok row' ∧ e = none := by
  unfold createRow at h
  split at h
  · cases h
  · cases h
  · rename_i row0 h0
    simp only [Members.toList_ofList] at h
    split at h
    · rename_i r1 h1
      simp only [Outcome.ok.injEq, Prod.mk.injEq] at h
      exact ⟨row0, h0, by rw [h1, h.1], h.2.symm⟩
    · cases h
    · cases h

/-- 6. `CreateRow` given a row: the template's keys, then the row's other keys in order. -/
theorem createRow_row_keys (env : Env) (to : Tmpl) (r row' : List (Bytes × Val))
    (h : createRow env to (.val (.row (Members.ofList r))) = .ok (row', none)) :
    OMap.keys row' = appendNew (appendNew [] (OMap.keys to)) (OMap.keys r) := by
  obtain ⟨row0, h0, h1, _⟩ := createRow_row_ok env to r row' none h
  rw [fillPairs_keys env _ row0 row' h1, cloneRow_keys env to row0 h0, keys_map_raw]

/-! ### Formats of the created row's cells -/

/-- The format of the cell a row holds at key `k` (`none`: no such key). -/
def formatAt (o : List (Bytes × Val)) (k : Bytes) : Option Format :=
  (OMap.lookup o k).map Cells.format

theorem lookup_isSome_of_mem (o : List (Bytes × Val)) (k : Bytes) (h : k ∈ OMap.keys o) :
    ∃ c, OMap.lookup o k = some c := by
  induction o with
  | nil => simp [OMap.keys] at h
  | cons a t ih =>
    obtain ⟨k', c⟩ := a
    by_cases hk : k' = k
    · exact ⟨c, by simp [OMap.lookup, hk]⟩
    · have : k ∈ OMap.keys t := by
        simp only [OMap.keys, List.map_cons, List.mem_cons] at h
        rcases h with h | h
        · exact absurd h.symm hk
        · exact h
      obtain ⟨c', hc'⟩ := ih this
      exact ⟨c', by simp [OMap.lookup, hk, hc']⟩

theorem lookup_eq_none_iff (o : List (Bytes × Val)) (k : Bytes) :
    OMap.lookup o k = none ↔ k ∉ OMap.keys o := by
  constructor
  · intro h hm
    obtain ⟨c, hc⟩ := lookup_isSome_of_mem o k hm
    rw [h] at hc; cases hc
  · exact OMap.lookup_none_of_not_mem o k

theorem formatAt_eq_none_iff (o : List (Bytes × Val)) (k : Bytes) :
    formatAt o k = none ↔ k ∉ OMap.keys o := by
  rw [formatAt, Option.map_eq_none_iff, lookup_eq_none_iff]

theorem keys_cons (k : Bytes) (v : Val) (o : List (Bytes × Val)) :
    OMap.keys ((k, v) :: o) = k :: OMap.keys o := rfl

theorem formatAt_cons (k0 : Bytes) (v : Val) (o : List (Bytes × Val)) (k : Bytes) :
    formatAt ((k0, v) :: o) k = if k0 = k then some (Cells.format v) else formatAt o k := by
  unfold formatAt
  rw [OMap.lookup]
  split <;> rfl

theorem formatAt_upsert (o : List (Bytes × Val)) (k k' : Bytes) (c : Val) :
    formatAt (upsert o k c) k' = if k' = k then some (Cells.format c) else formatAt o k' := by
  unfold formatAt upsert
  rw [OMap.lookup_upsert]
  split <;> rfl

/-- `NewValue(v, f, typ)` is a cell of format `f` and raw type `typ`, whatever the cast did. -/
theorem newValue_format (env : Env) (v : Dyn) (f : Format) (typ : Ty) (c : Val)
    (h : newValue env v f typ = .ok c) : Cells.format c = f ∧ Cells.rawType c = typ := by
  unfold newValue at h
  split at h
  · cases h; exact ⟨rfl, rfl⟩
  · cases h
  · cases h; exact ⟨rfl, rfl⟩
  · cases h

/-- `CloneValue` keeps the format (a sub-row, whose format reads Auto, becomes an Auto cell). -/
theorem cloneValue_format (env : Env) (v c : Val) (h : cloneValue env v = .ok c) :
    Cells.format c = Cells.format v ∧ Cells.rawType c = Cells.rawType v :=
  newValue_format env _ _ _ c h

theorem cloneInto_formatAt (env : Env) (r : List (Bytes × Val)) :
    ∀ (acc r' : List (Bytes × Val)), cloneInto env acc r = .ok r' → (OMap.keys r).Nodup →
      ∀ k, formatAt r' k = if k ∈ OMap.keys r then formatAt r k else formatAt acc k := by
  induction r with
  | nil =>
    intro acc r' h _ k
    simp only [cloneInto, Outcome.ok.injEq] at h
    subst h; simp [OMap.keys]
  | cons kv rest ih =>
    intro acc r' h hnd k
    obtain ⟨k0, v⟩ := kv
    simp only [OMap.keys, List.map_cons, List.nodup_cons] at hnd
    simp only [cloneInto] at h
    split at h
    · rename_i c hc
      rw [ih _ _ h hnd.2 k, formatAt_upsert]
      rw [keys_cons, formatAt_cons]
      by_cases hk : k = k0
      · subst hk
        have h1 : k ∉ OMap.keys rest := hnd.1
        simp [h1, (cloneValue_format env v c hc).1]
      · have hk' : ¬ k0 = k := fun e => hk e.symm
        simp [hk, hk']
    · cases h
    · cases h

/-- The clone of a row with distinct keys holds the same formats at the same keys. -/
theorem cloneRow_formatAt (env : Env) (r r' : List (Bytes × Val)) (h : cloneRow env r = .ok r')
    (hnd : (OMap.keys r).Nodup) (k : Bytes) : formatAt r' k = formatAt r k := by
  rw [cloneInto_formatAt env r [] r' h hnd k]
  split
  · rfl
  · rename_i hk
    rw [(formatAt_eq_none_iff r k).mpr hk]; rfl

theorem fill_formatAt (env : Env) (row row' : List (Bytes × Val)) (k : Bytes) (x : Dyn)
    (h : fill env row k x = .ok row') (k' : Bytes) :
    formatAt row' k' =
      if k' ∈ OMap.keys row then formatAt row k' else if k' = k then some .auto else none := by
  unfold fill at h
  split at h
  · rename_i c hc
    have hmem : k ∈ OMap.keys row := by
      apply Classical.byContradiction
      intro hn
      rw [lookup, (lookup_eq_none_iff row k).mpr hn] at hc; cases hc
    split at h
    · rename_i c' hc'
      cases h
      rw [formatAt_upsert]
      by_cases hk : k' = k
      · subst hk
        simp only [if_true, hmem]
        rw [(newValue_format env _ _ _ c' hc').1, formatAt]
        rw [lookup] at hc; rw [hc]; rfl
      · simp only [hk, if_false]
        split
        · rfl
        · rename_i hn; exact (formatAt_eq_none_iff row k').mpr hn
    · cases h
    · cases h
  · rename_i hc
    have hmem : k ∉ OMap.keys row := (lookup_eq_none_iff row k).mp hc
    cases h
    rw [formatAt_upsert]
    by_cases hk : k' = k
    · subst hk; simp [hmem, Cells.autoCell, Cells.format]
    · simp only [hk, if_false]
      split
      · rfl
      · rename_i hn; exact (formatAt_eq_none_iff row k').mpr hn

theorem fillPairs_formatAt (env : Env) (kvs : List (Bytes × Dyn)) :
    ∀ (row row' : List (Bytes × Val)), fillPairs env row kvs = .ok row' → ∀ k,
      (k ∈ OMap.keys row → formatAt row' k = formatAt row k) ∧
      (k ∉ OMap.keys row → k ∈ OMap.keys row' → formatAt row' k = some .auto) := by
  induction kvs with
  | nil =>
    intro row row' h k
    simp only [fillPairs, Outcome.ok.injEq] at h
    subst h
    exact ⟨fun _ => rfl, fun h1 h2 => absurd h2 h1⟩
  | cons kv kvs ih =>
    intro row row' h k
    obtain ⟨k0, x⟩ := kv
    simp only [fillPairs] at h
    split at h
    · rename_i r1 h1
      have hk1 := fill_keys env _ _ _ _ h1
      have hf1 := fill_formatAt env _ _ _ _ h1 k
      obtain ⟨ihA, ihB⟩ := ih _ _ h k
      constructor
      · intro hm
        have : k ∈ OMap.keys r1 := by rw [hk1]; exact mem_appendNew.mpr (.inl hm)
        rw [ihA this, hf1, if_pos hm]
      · intro hn hm'
        by_cases hm1 : k ∈ OMap.keys r1
        · rw [ihA hm1, hf1, if_neg hn]
          have : k = k0 := by
            rw [hk1] at hm1
            rcases mem_appendNew.mp hm1 with h | h
            · exact absurd h hn
            · simpa using h
          rw [if_pos this]
        · exact ihB hm1 hm'
    · rename_i hne
      exact absurd h (hne row')

/-- 7. In the row `CreateRow` makes from a row: every declared key holds a cell of the format
    its clone has (`c0` is the clone `CreateRow` starts from), every other key an Auto cell. -/
theorem declared_formats_kept (env : Env) (to : Tmpl) (r row' : List (Bytes × Val))
    (h : createRow env to (.val (.row (Members.ofList r))) = .ok (row', none)) :
    ∃ c0, cloneRow env to = .ok c0 ∧ ∀ k,
      (k ∈ OMap.keys to → formatAt row' k = formatAt c0 k) ∧
      (k ∉ OMap.keys to → k ∈ OMap.keys row' → formatAt row' k = some .auto) := by
  obtain ⟨row0, h0, h1, _⟩ := createRow_row_ok env to r row' none h
  refine ⟨row0, h0, fun k => ?_⟩
  have hk0 : ∀ k, k ∈ OMap.keys row0 ↔ k ∈ OMap.keys to := by
    intro k; rw [cloneRow_keys env to row0 h0, mem_appendNew]; simp
  obtain ⟨hA, hB⟩ := fillPairs_formatAt env _ row0 row' h1 k
  exact ⟨fun hm => hA ((hk0 k).mpr hm), fun hn hm => hB (fun h => hn ((hk0 k).mp h)) hm⟩

/-- 7, for a template with distinct column names: the declared format itself. -/
theorem declared_formats_kept_nodup (env : Env) (to : Tmpl) (r row' : List (Bytes × Val))
    (hnd : (OMap.keys to).Nodup)
    (h : createRow env to (.val (.row (Members.ofList r))) = .ok (row', none)) (k : Bytes) :
    (k ∈ OMap.keys to → formatAt row' k = formatAt to k) ∧
    (k ∉ OMap.keys to → k ∈ OMap.keys row' → formatAt row' k = some .auto) := by
  obtain ⟨c0, h0, hall⟩ := declared_formats_kept env to r row' h
  refine ⟨fun hm => ?_, (hall k).2⟩
  rw [(hall k).1 hm, cloneRow_formatAt env to c0 h0 hnd k]

/-- 7, for a `.cell` column of a template with distinct names. -/
theorem declared_cell_format_kept (env : Env) (to : Tmpl) (r row' : List (Bytes × Val))
    (hnd : (OMap.keys to).Nodup)
    (h : createRow env to (.val (.row (Members.ofList r))) = .ok (row', none))
    (k : Bytes) (raw : Dyn) (f : Format) (typ : Ty) (hk : OMap.lookup to k = some (.cell raw f typ)) :
    ∃ c, OMap.lookup row' k = some c ∧ Cells.format c = f := by
  have hm : k ∈ OMap.keys to := by
    apply Classical.byContradiction
    intro hn; rw [(lookup_eq_none_iff to k).mpr hn] at hk; cases hk
  have := (declared_formats_kept_nodup env to r row' hnd h k).1 hm
  simp only [formatAt, hk, Option.map_some, Cells.format] at this
  cases hl : OMap.lookup row' k with
  | none => rw [hl] at this; cases this
  | some c =>
    rw [hl] at this
    simp only [Option.map_some, Option.some.injEq] at this
    exact ⟨c, rfl, this⟩

/-! ### The emitted keys -/

/-- With distinct keys, the emitted keys are the row's keys whose cell is not hidden. -/
theorem visibleKeys_eq (o : List (Bytes × Val)) (hnd : (OMap.keys o).Nodup) :
    RowPrint.visibleKeys o = (OMap.keys o).filter fun k => formatAt o k != some .hidden := by
  induction o with
  | nil => rfl
  | cons kv rest ih =>
    obtain ⟨k0, v⟩ := kv
    rw [keys_cons, List.nodup_cons] at hnd
    have hrest : (OMap.keys rest).filter (fun k => formatAt ((k0, v) :: rest) k != some .hidden) =
        (OMap.keys rest).filter (fun k => formatAt rest k != some .hidden) := by
      apply List.filter_congr
      intro k hk
      have : ¬ k0 = k := fun e => hnd.1 (e ▸ hk)
      rw [formatAt_cons, if_neg this]
    have ih' := ih hnd.2
    unfold RowPrint.visibleKeys at ih' ⊢
    rw [keys_cons, List.filter_cons, List.filter_cons, hrest, ← ih', formatAt_cons, if_pos rfl]
    by_cases hv : Cells.format v = .hidden
    · simp [hv]
    · simp [hv]

/-- 8, for any importer template: the exporter template's visible columns in declaration
    order, then the other keys of the imported row in order of first appearance. -/
theorem emitted_keys_general (env : Env) (ti to : Tmpl) (line : Bytes) (r row' : List (Bytes × Val))
    (hto : (OMap.keys to).Nodup)
    (hget : getRow env ti line = .ok (r, none))
    (hcr : createRow env to (.val (.row (Members.ofList r))) = .ok (row', none)) :
    RowPrint.visibleKeys row' =
      ((OMap.keys to).filter fun k => formatAt to k != some .hidden) ++
      (appendNew (appendNew [] (OMap.keys ti)) (inputKeys line)).filter
        (fun k => decide (k ∉ OMap.keys to)) := by
  have hr := getRow_keys env ti line r hget
  have hrnd := getRow_keys_nodup env ti line r hget
  have hk : OMap.keys row' =
      OMap.keys to ++ (OMap.keys r).filter (fun k => decide (k ∉ OMap.keys to)) := by
    rw [createRow_row_keys env to r row' hcr, appendNew_nil_of_nodup hto, appendNew_eq_dedup,
      dedup_of_nodup hrnd]
  have hnd : (OMap.keys row').Nodup := by
    rw [createRow_row_keys env to r row' hcr]
    exact nodup_appendNew _ (nodup_appendNew _ List.nodup_nil)
  have hf := declared_formats_kept_nodup env to r row' hto hcr
  rw [visibleKeys_eq row' hnd, hk, List.filter_append, ← hr]
  congr 1
  · apply List.filter_congr
    intro k hm
    rw [(hf k).1 hm]
  · rw [List.filter_eq_self]
    intro k hm
    have hn : k ∉ OMap.keys to := by
      simpa using (List.mem_filter.mp hm).2
    have hm' : k ∈ OMap.keys row' := by rw [hk]; exact List.mem_append_right _ hm
    rw [(hf k).2 hn hm']
    rfl

/-- 8 (main). Importer template `ti` and exporter template `to` with pairwise distinct column
    names; the line was accepted and the row created.  The emitted object lists `to`'s
    visible columns in declaration order, then — in the order importer columns / first
    appearance in the text — every other key. -/
theorem emitted_keys (env : Env) (ti to : Tmpl) (line : Bytes) (r row' : List (Bytes × Val))
    (hti : (OMap.keys ti).Nodup) (hto : (OMap.keys to).Nodup)
    (hget : getRow env ti line = .ok (r, none))
    (hcr : createRow env to (.val (.row (Members.ofList r))) = .ok (row', none)) :
    RowPrint.visibleKeys row' =
      ((OMap.keys to).filter fun k => formatAt to k != some .hidden) ++
      (appendNew (OMap.keys ti) (inputKeys line)).filter (fun k => decide (k ∉ OMap.keys to)) := by
  rw [emitted_keys_general env ti to line r row' hto hget hcr, appendNew_nil_of_nodup hti]

theorem filter_appendNew_of_same_names {a b : List Bytes} (hsame : ∀ k, k ∈ a ↔ k ∈ b)
    (l : List Bytes) :
    (appendNew a l).filter (fun k => decide (k ∉ b)) = l.eraseDups.filter (fun k => decide (k ∉ b)) := by
  rw [appendNew_eq, List.filter_append, List.filter_filter]
  have h1 : a.filter (fun k => decide (k ∉ b)) = [] := by
    rw [List.filter_eq_nil_iff]
    intro k hk
    simp [(hsame k).mp hk]
  rw [h1, List.nil_append]
  apply List.filter_congr
  intro k _
  by_cases hk : k ∈ b
  · simp [hk]
  · have hka : k ∉ a := fun h => hk ((hsame k).mp h)
    simp [hk, hka]

/-- 8, corollary: when both templates declare the same names, what follows the declared
    columns is the input's undeclared member names in order of first appearance — the
    position of declared keys in the input plays no part. -/
theorem emitted_keys_same_names (env : Env) (ti to : Tmpl) (line : Bytes)
    (r row' : List (Bytes × Val))
    (hti : (OMap.keys ti).Nodup) (hto : (OMap.keys to).Nodup)
    (hsame : ∀ k, k ∈ OMap.keys ti ↔ k ∈ OMap.keys to)
    (hget : getRow env ti line = .ok (r, none))
    (hcr : createRow env to (.val (.row (Members.ofList r))) = .ok (row', none)) :
    RowPrint.visibleKeys row' =
      ((OMap.keys to).filter fun k => formatAt to k != some .hidden) ++
      (inputKeys line).eraseDups.filter (fun k => decide (k ∉ OMap.keys to)) := by
  rw [emitted_keys env ti to line r row' hti hto hget hcr, filter_appendNew_of_same_names hsame]

/-- The same, the declared names of `ti` being a permutation of those of `to`; the tail written
    as the first occurrences among the undeclared members only. -/
theorem emitted_keys_perm (env : Env) (ti to : Tmpl) (line : Bytes) (r row' : List (Bytes × Val))
    (hto : (OMap.keys to).Nodup) (hperm : (OMap.keys ti).Perm (OMap.keys to))
    (hget : getRow env ti line = .ok (r, none))
    (hcr : createRow env to (.val (.row (Members.ofList r))) = .ok (row', none)) :
    RowPrint.visibleKeys row' =
      ((OMap.keys to).filter fun k => formatAt to k != some .hidden) ++
      ((inputKeys line).filter (fun k => decide (k ∉ OMap.keys to))).eraseDups := by
  rw [emitted_keys_same_names env ti to line r row' (hperm.nodup_iff.mpr hto) hto
    (fun k => hperm.mem_iff) hget hcr, eraseDups_filter]

/-- Two accepted lines whose undeclared members come in the same order are emitted with the
    same key order, wherever their declared members stand. -/
theorem emitted_keys_input_order (env : Env) (ti to : Tmpl) (line₁ line₂ : Bytes)
    (r₁ r₂ row₁ row₂ : List (Bytes × Val))
    (hto : (OMap.keys to).Nodup) (hperm : (OMap.keys ti).Perm (OMap.keys to))
    (hget₁ : getRow env ti line₁ = .ok (r₁, none))
    (hcr₁ : createRow env to (.val (.row (Members.ofList r₁))) = .ok (row₁, none))
    (hget₂ : getRow env ti line₂ = .ok (r₂, none))
    (hcr₂ : createRow env to (.val (.row (Members.ofList r₂))) = .ok (row₂, none))
    (hsame : (inputKeys line₁).filter (fun k => decide (k ∉ OMap.keys to)) =
      (inputKeys line₂).filter (fun k => decide (k ∉ OMap.keys to))) :
    RowPrint.visibleKeys row₁ = RowPrint.visibleKeys row₂ := by
  rw [emitted_keys_perm env ti to line₁ r₁ row₁ hto hperm hget₁ hcr₁,
    emitted_keys_perm env ti to line₂ r₂ row₂ hto hperm hget₂ hcr₂, hsame]

/-- Every emitted key is emitted once (any template, any row given to `CreateRow`). -/
theorem emitted_keys_nodup (env : Env) (to : Tmpl) (r row' : List (Bytes × Val))
    (hcr : createRow env to (.val (.row (Members.ofList r))) = .ok (row', none)) :
    (RowPrint.visibleKeys row').Nodup := by
  have hnd : (OMap.keys row').Nodup := by
    rw [createRow_row_keys env to r row' hcr]
    exact nodup_appendNew _ (nodup_appendNew _ List.nodup_nil)
  rw [visibleKeys_eq row' hnd]
  exact hnd.filter _

/-- A column declared hidden is never emitted, whatever the input holds under its name. -/
theorem hidden_never_emitted (env : Env) (to : Tmpl) (r row' : List (Bytes × Val))
    (hto : (OMap.keys to).Nodup)
    (hcr : createRow env to (.val (.row (Members.ofList r))) = .ok (row', none))
    (k : Bytes) (hk : formatAt to k = some .hidden) : k ∉ RowPrint.visibleKeys row' := by
  have hnd : (OMap.keys row').Nodup := by
    rw [createRow_row_keys env to r row' hcr]
    exact nodup_appendNew _ (nodup_appendNew _ List.nodup_nil)
  have hm : k ∈ OMap.keys to := by
    apply Classical.byContradiction
    intro hn; rw [(formatAt_eq_none_iff to k).mpr hn] at hk; cases hk
  rw [visibleKeys_eq row' hnd, List.mem_filter,
    (declared_formats_kept_nodup env to r row' hto hcr k).1 hm, hk]
  intro h
  exact absurd h.2 (by decide)

/-- What `jlLine` wrote for an accepted line is the print of such a row `row'`. -/
theorem jlLine_ok (env : Env) (ti to : Tmpl) (line b : Bytes)
    (h : jlLine env ti to line = .ok (b, none)) :
    ∃ r row' body, getRow env ti line = .ok (r, none) ∧
      createRow env to (.val (.row (Members.ofList r))) = .ok (row', none) ∧
      RowPrint.marshalRow env (Members.ofList row') = .ok body ∧ b = body ++ [0x0A] := by
  unfold jlLine at h
  split at h
  · cases h
  · cases h
  · cases h
  · rename_i r hget
    unfold exportLine at h
    split at h
    · cases h
    · cases h
    · cases h
    · rename_i row' hcr
      split at h
      · rename_i body hb
        simp only [Outcome.ok.injEq, Prod.mk.injEq, and_true] at h
        exact ⟨r, row', body, hget, hcr, hb, h.symm⟩
      · cases h
      · cases h
      · cases h

/-! ### Non-vacuity: a concrete line through concrete templates

  Importer template `h` (hidden), `a`; exporter template `a`, `h` (hidden); input line
  `{"z":1,"h":2,"a":3}`.  Every hypothesis of the theorems above holds and the line comes out
  as `{"a":3,"z":1}`. -/
namespace Demo

/-- Tables whose `cast.To` sends a nil target type to the value itself (as the source does);
    small enough for evaluation by `simp`. -/
def tables : CastTables :=
  { casters := [], dispatchTo := [(.none, .ret .val)], dispatchToDefault := .fail "", sentinels := [],
    binFns := [], timeStringFormat := "" }

def env : Env := ⟨tables, Ext.empty⟩

def ti : Tmpl := withCol (withCol [] [0x68] .hidden .none) [0x61] .auto .none
def to : Tmpl := withCol (withCol [] [0x61] .auto .none) [0x68] .hidden .none

/-- `{"z":1,"h":2,"a":3}` -/
def line : Bytes :=
  [0x7B, 0x22, 0x7A, 0x22, 0x3A, 0x31, 0x2C, 0x22, 0x68, 0x22, 0x3A, 0x32, 0x2C,
   0x22, 0x61, 0x22, 0x3A, 0x33, 0x7D]

/-- the row `GetRow` delivers -/
def imported : List (Bytes × Val) :=
  [([0x68], .cell (.num [0x32]) .hidden .none), ([0x61], .cell (.num [0x33]) .auto .none),
   ([0x7A], .cell (.num [0x31]) .auto .none)]

/-- the row `CreateRow` makes of it -/
def created : List (Bytes × Val) :=
  [([0x61], .cell (.num [0x33]) .auto .none), ([0x68], .cell (.num [0x32]) .hidden .none),
   ([0x7A], .cell (.num [0x31]) .auto .none)]

theorem ti_eq : ti = [([0x68], .cell .nil .hidden .none), ([0x61], .cell .nil .auto .none)] := by
  simp [ti, withCol, upsert, OMap.upsert]

theorem to_eq : to = [([0x61], .cell .nil .auto .none), ([0x68], .cell .nil .hidden .none)] := by
  simp [to, withCol, upsert, OMap.upsert]

theorem ti_nodup : (OMap.keys ti).Nodup := by rw [ti_eq]; decide
theorem to_nodup : (OMap.keys to).Nodup := by rw [to_eq]; decide
theorem ti_perm_to : (OMap.keys ti).Perm (OMap.keys to) := by
  rw [ti_eq, to_eq]; exact List.Perm.swap _ _ _

open Json in
theorem unmarshal_line : Json.unmarshal line =
    (.cons [0x7A] (.num [0x31]) (.cons [0x68] (.num [0x32]) (.cons [0x61] (.num [0x33]) .nil)),
      true) := by
  simp [line, unmarshal, token, tokenCore, skipSpace, isSpace, asClose, parseObject, more, asKey,
    asTok, strBody, pre, handleDelim, scanScalar, scanNumber, scanInt, scanFracExp, digits, isDigit,
    valueAllowed, valueEnd, isEof]

theorem inputKeys_line : inputKeys line = [[0x7A], [0x68], [0x61]] := by
  simp [inputKeys, unmarshal_line, JVMembers.toList]

theorem castTo_none (v : Dyn) : Cast.castTo env.T env.ext .none v = .ok v := by
  simp [env, Cast.castTo, tables, Cast.evalBranch, Cast.evalE]

theorem getRow_line : getRow env ti line = .ok (imported, none) := by
  simp [getRow, createRowEmpty, cloneRow, cloneInto, cloneValue, newValue, castTo_none, ti_eq,
    unmarshalInto, unmarshal_line, ofJVMembers, ofJV, parseMembers, parseMember, importVal,
    importInto, importCell, importByFormat, lookup, upsert, OMap.lookup, OMap.upsert, Cells.raw,
    Cells.format, Cells.rawType, Cells.autoCell, imported]

theorem createRow_imported :
    createRow env to (.val (.row (Members.ofList imported))) = .ok (created, none) := by
  simp [createRow, cloneRow, cloneInto, cloneValue, newValue, castTo_none, to_eq, imported,
    fillPairs, fill, lookup, upsert, OMap.lookup, OMap.upsert, Cells.raw, Cells.format,
    Cells.rawType, Cells.autoCell, created, Members.ofList, Members.toList]

/-- The hypotheses of `emitted_keys` hold here, and its right-hand side is `a`, `z`. -/
example : RowPrint.visibleKeys created = [[0x61], [0x7A]] := by
  rw [emitted_keys env ti to line imported created ti_nodup to_nodup getRow_line createRow_imported]
  simp [ti_eq, to_eq, inputKeys_line, OMap.keys, formatAt, OMap.lookup, Cells.format, appendNew]

/-- …the same through the corollary for templates declaring the same names. -/
example : RowPrint.visibleKeys created = [[0x61], [0x7A]] := by
  rw [emitted_keys_perm env ti to line imported created to_nodup ti_perm_to getRow_line
    createRow_imported, inputKeys_line]
  simp [to_eq, OMap.keys, formatAt, OMap.lookup, Cells.format, List.eraseDups_cons]

/-- …and directly. -/
example : RowPrint.visibleKeys created = [[0x61], [0x7A]] := by decide

example : OMap.keys imported = appendNew (appendNew [] (OMap.keys ti)) (inputKeys line) :=
  getRow_keys env ti line imported getRow_line

example : OMap.keys created = appendNew (appendNew [] (OMap.keys to)) (OMap.keys imported) :=
  createRow_row_keys env to imported created createRow_imported

example : formatAt created [0x68] = some .hidden ∧ formatAt created [0x7A] = some .auto := by
  have h := declared_formats_kept_nodup env to imported created to_nodup createRow_imported
  refine ⟨?_, (h [0x7A]).2 ?_ ?_⟩
  · rw [(h [0x68]).1 (by rw [to_eq]; decide), to_eq]; rfl
  · rw [to_eq]; decide
  · decide

theorem quote_a : JsonWrite.quote [0x61] = [0x22, 0x61, 0x22] := by
  simp [JsonWrite.quote, JsonWrite.quoteBody, JsonWrite.htmlSafe]

theorem quote_z : JsonWrite.quote [0x7A] = [0x22, 0x7A, 0x22] := by
  simp [JsonWrite.quote, JsonWrite.quoteBody, JsonWrite.htmlSafe]

theorem marshal_created : RowPrint.marshalRow env (Members.ofList created) =
    .ok [0x7B, 0x22, 0x61, 0x22, 0x3A, 0x33, 0x2C, 0x22, 0x7A, 0x22, 0x3A, 0x31, 0x7D] := by
  have n1 : JsonWrite.isValidNumber [0x33] = true := by decide
  have n2 : JsonWrite.isValidNumber [0x31] = true := by decide
  simp [created, RowPrint.marshalRow, RowPrint.marshalVal, RowPrint.marshalMembers, Members.ofList,
    Cells.format, exportVal, RowPrint.marshalExported, n1, n2, quote_a, quote_z, RowPrint.joinComma]

/-- The whole line through `jlLine`: `{"a":3,"z":1}` and a newline. -/
example : jlLine env ti to line =
    .ok ([0x7B, 0x22, 0x61, 0x22, 0x3A, 0x33, 0x2C, 0x22, 0x7A, 0x22, 0x3A, 0x31, 0x7D, 0x0A], none) := by
  simp [jlLine, getRow_line, exportLine, createRow_imported, marshal_created]

end Demo

end Jl.Order
