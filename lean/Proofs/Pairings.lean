/-
  Proofs.Pairings — C13 / C05 at cell level for the pairings not covered by Props/C13.lean:
  timestamp(INT), timestamp(none), string / auto (string), numeric / auto / string
  (json.Number), binary([]byte / none / string), datetime / string (time.Time),
  numeric / timestamp (time.Time, as instants), bool under numeric / binary / timestamp;
  and beyond the task's list: auto(INT), auto(bool), boolean(none), binary(json.Number),
  binary(float), string / numeric (float, given strconv's answers), binary(time.Time).

  A pairing theorem has the form
      exportVal ⟨genTables, ext⟩ (.cell v f ty) = .ok e  ∧
      importCell ⟨genTables, ext⟩ f ty e' = .ok (.cell v' f ty, none)
  where `e'` is what the JSON reader delivers for `e` (C02 `read_of_written`): a string after
  `JsonQuote.sanitize` (the identity on well-formed UTF-8, in particular on the ASCII texts
  written here: `sanitize_ascii_text`, `sanitize_encode`, `sanitize_formatRFC3339`,
  `sanitize_validNumber`), a json.Number by its literal, an int64 as
  `.num (IntText.formatInt n)`, a bool as itself; and `v' = v`, or the same instant for
  times (`Tables.sameValue`).  Each group ends with its C05 corollary (the exported value is a
  fixed point: ∃ e c, export = ok e ∧ import e' = ok (c, none) ∧ export c = ok e) and a
  non-vacuity example.
-/
import Model.Tables
import Model.Value
import Model.CastGen
import Proofs.CastInt
import Proofs.CastBin
import Proofs.Base64
import Proofs.Time
import Proofs.IntText
import Proofs.IntTextJson
import Proofs.JsonQuote

namespace Jl.Pairings
open Jl Jl.Value Cast

set_option linter.unusedSimpArgs false

/-! ### Plumbing -/

theorem importFail_ok (o : Outcome Dyn) (r : Dyn) (h : o = .ok r) : importFail o = .ok r := by
  subst h; rfl

theorem exportFail_ok (o : Outcome Dyn) (r : Dyn) (h : o = .ok r) : exportFail o = .ok r := by
  subst h; rfl

/-! ### What the regenerated casters do on the values of these pairings -/

theorem toString_str (ext : Ext) (s : Bytes) :
    castNamed genTables ext "ToString" (.str s) = .ok (.str s) := by
  simp [castNamed, callNamed, genTables, Gen.casters, findClause, typeOf, evalBranch, evalE]

theorem toString_num (ext : Ext) (l : Bytes) :
    castNamed genTables ext "ToString" (.num l) = .ok (.str l) := by
  simp [castNamed, callNamed, genTables, Gen.casters, findClause, typeOf, evalBranch, evalE]

theorem toNumber_num (ext : Ext) (l : Bytes) :
    castNamed genTables ext "ToNumber" (.num l) = .ok (.num l) := by
  simp [castNamed, callNamed, genTables, Gen.casters, findClause, typeOf, evalBranch, evalE]

theorem toBinary_bytes (ext : Ext) (b : Bytes) :
    castNamed genTables ext "ToBinary" (.bytes b) = .ok (.bytes b) := by
  simp [castNamed, callNamed, genTables, Gen.casters, findClause, typeOf, evalBranch, evalE]

theorem toBinary_str (ext : Ext) (s : Bytes) :
    castNamed genTables ext "ToBinary" (.str s) = .ok (.bytes s) := by
  simp [castNamed, callNamed, genTables, Gen.casters, findClause, typeOf, evalBranch, evalE]

theorem castTo_str_str (ext : Ext) (s : Bytes) :
    castTo genTables ext .str (.str s) = .ok (.str s) := by
  simp [castTo, callNamed, genTables, Gen.casters, Gen.dispatchTo, findClause, typeOf, evalBranch, evalE]

theorem castTo_str_bytes (ext : Ext) (s : Bytes) :
    castTo genTables ext .str (.bytes s) = .ok (.str s) := by
  simp [castTo, callNamed, genTables, Gen.casters, Gen.dispatchTo, findClause, typeOf, evalBranch, evalE]

theorem castTo_num_num (ext : Ext) (l : Bytes) :
    castTo genTables ext .num (.num l) = .ok (.num l) := by
  simp [castTo, callNamed, genTables, Gen.casters, Gen.dispatchTo, findClause, typeOf, evalBranch, evalE]

theorem castTo_num_str (ext : Ext) (l : Bytes) :
    castTo genTables ext .num (.str l) = .ok (.num l) := by
  simp [castTo, callNamed, genTables, Gen.casters, Gen.dispatchTo, findClause, typeOf, evalBranch, evalE]

theorem castTo_bytes_bytes (ext : Ext) (b : Bytes) :
    castTo genTables ext .bytes (.bytes b) = .ok (.bytes b) := by
  simp [castTo, callNamed, genTables, Gen.casters, Gen.dispatchTo, findClause, typeOf, evalBranch, evalE]

/-- ToTimestamp of an integer of any type: the int64 with the same value, provided the value
    fits int64 (only `uint` / `uint64` can exceed it; there the cast fails, see
    `toTimestamp_u64_too_big`). -/
theorem toTimestamp_int (ext : Ext) (t : IntTy) (v : Int) (hv : t.inRange v)
    (hmax : v ≤ 9223372036854775807) :
    castNamed genTables ext "ToTimestamp" (.int t v) = .ok (.int .i64 v) := by
  have hw : IntTy.i64.wrap v = v := by
    apply wrap_of_inRange
    cases t <;> simp [IntTy.inRange, IntTy.min, IntTy.max, IntTy.signed, IntTy.bits] at hv ⊢ <;> omega
  have hw' : t.signed = false → IntTy.u64.wrap v = v := by
    intro hs
    apply wrap_of_inRange
    cases t <;> simp [IntTy.signed] at hs <;>
      simp [IntTy.inRange, IntTy.min, IntTy.max, IntTy.signed, IntTy.bits] at hv ⊢ <;> omega
  have hg : ¬ (9223372036854775807 < v) := by omega
  cases t
  case uint =>
    have hu := hw' rfl
    simp [castNamed, callNamed, genTables, Gen.casters, findClause, typeOf, evalBranch, evalE, evalG,
      cmpInt, hw, hu, hg]
  case u64 =>
    simp [castNamed, callNamed, genTables, Gen.casters, findClause, typeOf, evalBranch, evalE, evalG,
      cmpInt, hw, hg]
  all_goals
    simp [castNamed, callNamed, genTables, Gen.casters, findClause, typeOf, evalBranch, evalE, evalG,
      cmpInt, hw]

/-- The bound `v ≤ MaxInt64` of `toTimestamp_int` (and of `Tables.inDomain .timestamp`) is
    needed: a uint64 above it is not exportable under timestamp. -/
theorem toTimestamp_u64_too_big (ext : Ext) (v : Int)
    (hbig : 9223372036854775807 < v) :
    exportVal ⟨genTables, ext⟩ (.cell (.int .u64 v) .timestamp (.int .u64)) = .err .unsupportedExport := by
  have : castNamed genTables ext "ToTimestamp" (.int .u64 v) = .err .cast := by
    simp [castNamed, callNamed, genTables, Gen.casters, findClause, typeOf, evalBranch, evalE, evalG,
      cmpInt, hbig, failWith, Gen.sentinels, wrapsRoot]
  simp only [exportVal, this, exportFail]

/-- cast.To(sample of integer type t, x) is the caster of that type. -/
theorem castTo_int (ext : Ext) (t : IntTy) (x : Dyn) :
    castTo genTables ext (.int t) x = callNamed genTables ext 23 (casterOfInt t) x := by
  cases t <;> simp [castTo, genTables, Gen.dispatchTo, evalBranch, evalE, casterOfInt]

/-- The json.Number carrying the decimal text of `v`, cast to an integer type that holds `v`. -/
theorem castTo_int_num (ext : Ext) (t : IntTy) (v : Int) (hv : t.inRange v) :
    castTo genTables ext (.int t) (.num (IntText.formatInt v)) = .ok (.int t v) := by
  rw [castTo_int]
  unfold callNamed
  simp only [caster_present t, typeOf]
  have hnum := num_branches_ok t
  generalize findClause (casterOf genTables (casterOfInt t)) .num = br at hnum
  unfold numBranchSpec at hnum
  split at hnum
  · subst hnum
    simp only [evalBranch, evalE]
    rw [call_text_source genTables ext _ _ t v 19 (caster_present t) (text_branches_ok t)]
    simp [hv]
  · exact absurd hnum id

/-- ToInt64 (the default caster of the timestamp format) on the same literal. -/
theorem toInt64_num (ext : Ext) (v : Int) (hv : IntTy.i64.inRange v) :
    castNamed genTables ext "ToInt64" (.num (IntText.formatInt v)) = .ok (.int .i64 v) := by
  have h := cast_num_source genTables ext _ .i64 v (caster_present .i64) (text_branches_ok .i64)
    (num_branches_ok .i64)
  rw [if_pos hv] at h
  exact h

/-! ### 1–2. timestamp(INT) and timestamp(none) -/

/-- timestamp(INT), all ten integer types: written as the int64 with the same value (a JSON
    number whose literal is the decimal text), read back as the same integer of the same type. -/
theorem timestamp_int (ext : Ext) (t : IntTy) (v : Int) (hv : t.inRange v)
    (hmax : v ≤ 9223372036854775807) :
    exportVal ⟨genTables, ext⟩ (.cell (.int t v) .timestamp (.int t)) = .ok (.int .i64 v) ∧
    importCell ⟨genTables, ext⟩ .timestamp (.int t) (.num (IntText.formatInt v)) =
      .ok (.cell (.int t v) .timestamp (.int t), none) := by
  constructor
  · simp only [exportVal]
    exact exportFail_ok _ _ (toTimestamp_int ext t v hv hmax)
  · simp only [importCell, importByFormat, importFrom, importFail_ok _ _ (castTo_int_num ext t v hv)]

/-- timestamp with no raw type: the column holds int64. -/
theorem timestamp_none (ext : Ext) (v : Int) (hv : IntTy.i64.inRange v) :
    exportVal ⟨genTables, ext⟩ (.cell (.int .i64 v) .timestamp .none) = .ok (.int .i64 v) ∧
    importCell ⟨genTables, ext⟩ .timestamp .none (.num (IntText.formatInt v)) =
      .ok (.cell (.int .i64 v) .timestamp .none, none) := by
  have hmax : v ≤ 9223372036854775807 := by
    simp [IntTy.inRange, IntTy.min, IntTy.max, IntTy.signed, IntTy.bits] at hv; omega
  constructor
  · simp only [exportVal]
    exact exportFail_ok _ _ (toTimestamp_int ext .i64 v hv hmax)
  · simp only [importCell, importByFormat, importFrom, importFail_ok _ _ (toInt64_num ext v hv)]

/-- C05 for the timestamp pairings of integers. -/
theorem timestamp_int_fixed_point (ext : Ext) (t : IntTy) (v : Int) (hv : t.inRange v)
    (hmax : v ≤ 9223372036854775807) :
    ∃ e c, exportVal ⟨genTables, ext⟩ (.cell (.int t v) .timestamp (.int t)) = .ok e ∧
      e = .int .i64 v ∧
      importCell ⟨genTables, ext⟩ .timestamp (.int t) (.num (IntText.formatInt v)) = .ok (c, none) ∧
      exportVal ⟨genTables, ext⟩ c = .ok e := by
  obtain ⟨a1, a2⟩ := timestamp_int ext t v hv hmax
  exact ⟨_, _, a1, rfl, a2, a1⟩

theorem timestamp_none_fixed_point (ext : Ext) (v : Int) (hv : IntTy.i64.inRange v) :
    ∃ e c, exportVal ⟨genTables, ext⟩ (.cell (.int .i64 v) .timestamp .none) = .ok e ∧
      e = .int .i64 v ∧
      importCell ⟨genTables, ext⟩ .timestamp .none (.num (IntText.formatInt v)) = .ok (c, none) ∧
      exportVal ⟨genTables, ext⟩ c = .ok e := by
  obtain ⟨b1, b2⟩ := timestamp_none ext v hv
  exact ⟨_, _, b1, rfl, b2, b1⟩

/-! Non-vacuity: uint8 255 under timestamp(uint8). -/
example : exportVal ⟨genTables, Ext.empty⟩ (.cell (.int .u8 255) .timestamp (.int .u8)) = .ok (.int .i64 255) ∧
    importCell ⟨genTables, Ext.empty⟩ .timestamp (.int .u8) (.num [0x32, 0x35, 0x35]) =
      .ok (.cell (.int .u8 255) .timestamp (.int .u8), none) := by
  have h := timestamp_int Ext.empty .u8 255 (by decide) (by decide)
  have e : IntText.formatInt 255 = [0x32, 0x35, 0x35] := by
    simp [IntText.formatInt, IntText.natDigits, IntText.digitChar]
  rw [e] at h
  exact h

/-! ### 3. strings -/

/-- string(string), string(none) and auto(string): the string is written as it is, and what
    the JSON reader delivers for it (`sanitize s`, which is `s` for well-formed UTF-8) is read
    back as the same string. -/
theorem string_str (ext : Ext) (s : Bytes) (hs : Utf8.valid s = true) :
    (exportVal ⟨genTables, ext⟩ (.cell (.str s) .string .str) = .ok (.str s) ∧
     importCell ⟨genTables, ext⟩ .string .str (.str (JsonQuote.sanitize s)) =
       .ok (.cell (.str s) .string .str, none)) ∧
    (exportVal ⟨genTables, ext⟩ (.cell (.str s) .string .none) = .ok (.str s) ∧
     importCell ⟨genTables, ext⟩ .string .none (.str (JsonQuote.sanitize s)) =
       .ok (.cell (.str s) .string .none, none)) ∧
    (exportVal ⟨genTables, ext⟩ (.cell (.str s) .auto .str) = .ok (.str s) ∧
     importCell ⟨genTables, ext⟩ .auto .str (.str (JsonQuote.sanitize s)) =
       .ok (.cell (.str s) .auto .str, none)) := by
  rw [JsonQuote.sanitize_valid s hs]
  refine ⟨⟨?_, ?_⟩, ⟨?_, ?_⟩, ⟨?_, ?_⟩⟩
  · simp only [exportVal]; exact exportFail_ok _ _ (toString_str ext s)
  · simp only [importCell, importByFormat, importFrom, importFail_ok _ _ (castTo_str_str ext s)]
  · simp only [exportVal]; exact exportFail_ok _ _ (toString_str ext s)
  · simp only [importCell, importByFormat, importFrom, importFail_ok _ _ (toString_str ext s)]
  · simp only [exportVal]
  · simp only [importCell, importByFormat, castTo_str_str ext s]

/-- The cell-level part holds for every byte string (the hypothesis of `string_str` is what
    the JSON transport needs): a string value `s` handed to the column is read as `s`. -/
theorem string_str_any (ext : Ext) (s : Bytes) :
    importCell ⟨genTables, ext⟩ .string .str (.str s) = .ok (.cell (.str s) .string .str, none) ∧
    importCell ⟨genTables, ext⟩ .string .none (.str s) = .ok (.cell (.str s) .string .none, none) ∧
    importCell ⟨genTables, ext⟩ .auto .str (.str s) = .ok (.cell (.str s) .auto .str, none) := by
  refine ⟨?_, ?_, ?_⟩
  · simp only [importCell, importByFormat, importFrom, importFail_ok _ _ (castTo_str_str ext s)]
  · simp only [importCell, importByFormat, importFrom, importFail_ok _ _ (toString_str ext s)]
  · simp only [importCell, importByFormat, castTo_str_str ext s]

/-- C05 for the string pairings. -/
theorem string_str_fixed_point (ext : Ext) (s : Bytes) (hs : Utf8.valid s = true) :
    (∃ e c, exportVal ⟨genTables, ext⟩ (.cell (.str s) .string .str) = .ok e ∧ e = .str s ∧
        importCell ⟨genTables, ext⟩ .string .str (.str (JsonQuote.sanitize s)) = .ok (c, none) ∧
        exportVal ⟨genTables, ext⟩ c = .ok e) ∧
    (∃ e c, exportVal ⟨genTables, ext⟩ (.cell (.str s) .string .none) = .ok e ∧ e = .str s ∧
        importCell ⟨genTables, ext⟩ .string .none (.str (JsonQuote.sanitize s)) = .ok (c, none) ∧
        exportVal ⟨genTables, ext⟩ c = .ok e) ∧
    (∃ e c, exportVal ⟨genTables, ext⟩ (.cell (.str s) .auto .str) = .ok e ∧ e = .str s ∧
        importCell ⟨genTables, ext⟩ .auto .str (.str (JsonQuote.sanitize s)) = .ok (c, none) ∧
        exportVal ⟨genTables, ext⟩ c = .ok e) := by
  obtain ⟨⟨a1, a2⟩, ⟨b1, b2⟩, ⟨c1, c2⟩⟩ := string_str ext s hs
  exact ⟨⟨_, _, a1, rfl, a2, a1⟩, ⟨_, _, b1, rfl, b2, b1⟩, ⟨_, _, c1, rfl, c2, c1⟩⟩

/-! Non-vacuity: "é" (C3 A9) and the empty string. -/
example : importCell ⟨genTables, Ext.empty⟩ .string .str (.str (JsonQuote.sanitize [0xC3, 0xA9])) =
    .ok (.cell (.str [0xC3, 0xA9]) .string .str, none) :=
  (string_str Ext.empty [0xC3, 0xA9] (by simp [Utf8.valid, Utf8.seqLen, Utf8.isCont])).1.2
example : exportVal ⟨genTables, Ext.empty⟩ (.cell (.str []) .string .str) = .ok (.str []) :=
  (string_str Ext.empty [] (by simp [Utf8.valid])).1.1

/-! ### 4. json.Number -/

/-- numeric(json.Number), numeric(none), auto(json.Number): the literal is written as it is
    (a JSON number token that the reader's scanner consumes verbatim, since it is a valid
    number) and read back as the same literal; string(json.Number): written as the string
    with the literal's text, read back as the literal. -/
theorem numeric_num (ext : Ext) (l : Bytes) (hl : JsonWrite.isValidNumber l = true) :
    Json.scanNumber l = some (l, []) ∧
    (exportVal ⟨genTables, ext⟩ (.cell (.num l) .numeric .num) = .ok (.num l) ∧
     importCell ⟨genTables, ext⟩ .numeric .num (.num l) = .ok (.cell (.num l) .numeric .num, none)) ∧
    (exportVal ⟨genTables, ext⟩ (.cell (.num l) .numeric .none) = .ok (.num l) ∧
     importCell ⟨genTables, ext⟩ .numeric .none (.num l) = .ok (.cell (.num l) .numeric .none, none)) ∧
    (exportVal ⟨genTables, ext⟩ (.cell (.num l) .auto .num) = .ok (.num l) ∧
     importCell ⟨genTables, ext⟩ .auto .num (.num l) = .ok (.cell (.num l) .auto .num, none)) ∧
    (exportVal ⟨genTables, ext⟩ (.cell (.num l) .string .num) = .ok (.str l) ∧
     importCell ⟨genTables, ext⟩ .string .num (.str l) = .ok (.cell (.num l) .string .num, none)) := by
  refine ⟨(IntText.isValidNumber_iff_scanNumber l).mp hl, ⟨?_, ?_⟩, ⟨?_, ?_⟩, ⟨?_, ?_⟩, ⟨?_, ?_⟩⟩
  · simp only [exportVal]; exact exportFail_ok _ _ (toNumber_num ext l)
  · simp only [importCell, importByFormat, importFrom, importFail_ok _ _ (castTo_num_num ext l)]
  · simp only [exportVal]; exact exportFail_ok _ _ (toNumber_num ext l)
  · simp only [importCell, importByFormat, importFrom, importFail_ok _ _ (toNumber_num ext l)]
  · simp only [exportVal]
  · simp only [importCell, importByFormat, castTo_num_num ext l]
  · simp only [exportVal]; exact exportFail_ok _ _ (toString_num ext l)
  · simp only [importCell, importByFormat, importFrom, importFail_ok _ _ (castTo_num_str ext l)]

/-- C05 for the json.Number pairings. -/
theorem numeric_num_fixed_point (ext : Ext) (l : Bytes) (hl : JsonWrite.isValidNumber l = true) :
    (∃ e c, exportVal ⟨genTables, ext⟩ (.cell (.num l) .numeric .num) = .ok e ∧ e = .num l ∧
        importCell ⟨genTables, ext⟩ .numeric .num (.num l) = .ok (c, none) ∧
        exportVal ⟨genTables, ext⟩ c = .ok e) ∧
    (∃ e c, exportVal ⟨genTables, ext⟩ (.cell (.num l) .numeric .none) = .ok e ∧ e = .num l ∧
        importCell ⟨genTables, ext⟩ .numeric .none (.num l) = .ok (c, none) ∧
        exportVal ⟨genTables, ext⟩ c = .ok e) ∧
    (∃ e c, exportVal ⟨genTables, ext⟩ (.cell (.num l) .auto .num) = .ok e ∧ e = .num l ∧
        importCell ⟨genTables, ext⟩ .auto .num (.num l) = .ok (c, none) ∧
        exportVal ⟨genTables, ext⟩ c = .ok e) ∧
    (∃ e c, exportVal ⟨genTables, ext⟩ (.cell (.num l) .string .num) = .ok e ∧ e = .str l ∧
        importCell ⟨genTables, ext⟩ .string .num (.str l) = .ok (c, none) ∧
        exportVal ⟨genTables, ext⟩ c = .ok e) := by
  obtain ⟨_, ⟨a1, a2⟩, ⟨b1, b2⟩, ⟨c1, c2⟩, ⟨d1, d2⟩⟩ := numeric_num ext l hl
  exact ⟨⟨_, _, a1, rfl, a2, a1⟩, ⟨_, _, b1, rfl, b2, b1⟩, ⟨_, _, c1, rfl, c2, c1⟩,
    ⟨_, _, d1, rfl, d2, d1⟩⟩

/-! Non-vacuity: the literal `-1.5e+3`, which no integer or float formatting produces. -/
example : importCell ⟨genTables, Ext.empty⟩ .numeric .num (.num [0x2D, 0x31, 0x2E, 0x35, 0x65, 0x2B, 0x33]) =
    .ok (.cell (.num [0x2D, 0x31, 0x2E, 0x35, 0x65, 0x2B, 0x33]) .numeric .num, none) :=
  (numeric_num Ext.empty _ (by decide)).2.1.2

/-! ### 5. binary -/

/-- binary([]byte), binary(none) and binary(string): every byte string is written as its
    base64 text and read back exactly, with its Go type. -/
theorem binary_bytes (ext : Ext) (b : Bytes) :
    (exportVal ⟨genTables, ext⟩ (.cell (.bytes b) .binary .bytes) = .ok (.str (Base64.encode b)) ∧
     importCell ⟨genTables, ext⟩ .binary .bytes (.str (Base64.encode b)) =
       .ok (.cell (.bytes b) .binary .bytes, none)) ∧
    (exportVal ⟨genTables, ext⟩ (.cell (.bytes b) .binary .none) = .ok (.str (Base64.encode b)) ∧
     importCell ⟨genTables, ext⟩ .binary .none (.str (Base64.encode b)) =
       .ok (.cell (.bytes b) .binary .none, none)) := by
  have hexp : ∀ ty, exportVal ⟨genTables, ext⟩ (.cell (.bytes b) .binary ty) = .ok (.str (Base64.encode b)) := by
    intro ty
    simp only [exportVal, exportFail_ok _ _ (toBinary_bytes ext b)]
  refine ⟨⟨hexp _, ?_⟩, ⟨hexp _, ?_⟩⟩
  · simp only [importCell, importByFormat, importFromBinary, importFail_ok _ _ (toString_str ext _),
      Base64.decode_encode, importFail_ok _ _ (castTo_bytes_bytes ext b)]
  · simp only [importCell, importByFormat, importFromBinary, importFail_ok _ _ (toString_str ext _),
      Base64.decode_encode]

theorem binary_str (ext : Ext) (s : Bytes) :
    exportVal ⟨genTables, ext⟩ (.cell (.str s) .binary .str) = .ok (.str (Base64.encode s)) ∧
    importCell ⟨genTables, ext⟩ .binary .str (.str (Base64.encode s)) =
      .ok (.cell (.str s) .binary .str, none) := by
  constructor
  · simp only [exportVal, exportFail_ok _ _ (toBinary_str ext s)]
  · simp only [importCell, importByFormat, importFromBinary, importFail_ok _ _ (toString_str ext _),
      Base64.decode_encode, importFail_ok _ _ (castTo_str_bytes ext s)]

/-- C05 for the binary pairings. -/
theorem binary_fixed_point (ext : Ext) (b : Bytes) :
    (∃ e c, exportVal ⟨genTables, ext⟩ (.cell (.bytes b) .binary .bytes) = .ok e ∧
        importCell ⟨genTables, ext⟩ .binary .bytes e = .ok (c, none) ∧ exportVal ⟨genTables, ext⟩ c = .ok e) ∧
    (∃ e c, exportVal ⟨genTables, ext⟩ (.cell (.bytes b) .binary .none) = .ok e ∧
        importCell ⟨genTables, ext⟩ .binary .none e = .ok (c, none) ∧ exportVal ⟨genTables, ext⟩ c = .ok e) ∧
    (∃ e c, exportVal ⟨genTables, ext⟩ (.cell (.str b) .binary .str) = .ok e ∧
        importCell ⟨genTables, ext⟩ .binary .str e = .ok (c, none) ∧ exportVal ⟨genTables, ext⟩ c = .ok e) := by
  obtain ⟨⟨a1, a2⟩, ⟨b1, b2⟩⟩ := binary_bytes ext b
  obtain ⟨c1, c2⟩ := binary_str ext b
  exact ⟨⟨_, _, a1, a2, a1⟩, ⟨_, _, b1, b2, b1⟩, ⟨_, _, c1, c2, c1⟩⟩

/-! Non-vacuity: the bytes FF 00 (not UTF-8) and the empty byte string. -/
example : exportVal ⟨genTables, Ext.empty⟩ (.cell (.bytes [0xFF, 0x00]) .binary .bytes) =
      .ok (.str [0x2F, 0x77, 0x41, 0x3D]) ∧
    importCell ⟨genTables, Ext.empty⟩ .binary .bytes (.str [0x2F, 0x77, 0x41, 0x3D]) =
      .ok (.cell (.bytes [0xFF, 0x00]) .binary .bytes, none) := by
  have h := (binary_bytes Ext.empty [0xFF, 0x00]).1
  have e : Base64.encode [0xFF, 0x00] = [0x2F, 0x77, 0x41, 0x3D] := by decide
  rw [e] at h
  exact h

/-! ### 6–7. time.Time -/

theorem toTime_time (ext : Ext) (t : GoTime) :
    castNamed genTables ext "ToTime" (.time t) = .ok (.time t) := by
  simp [castNamed, callNamed, genTables, Gen.casters, findClause, typeOf, evalBranch, evalE]

/-- ToString of a time whose year (at its own offset) is in 0..9999: the RFC 3339 text. -/
theorem toString_time (ext : Ext) (t : GoTime) (hy0 : 0 ≤ Time.year t) (hy1 : Time.year t ≤ 9999) :
    castNamed genTables ext "ToString" (.time t) = .ok (.str (Time.formatRFC3339 t)) := by
  have h1 : ¬ (Time.year t < 0) := by omega
  have h2 : ¬ (9999 < Time.year t) := by omega
  simp [castNamed, callNamed, genTables, Gen.casters, findClause, typeOf, evalBranch, evalE, evalG,
    cmpInt, Gen.timeStringFormat, layoutString, h1, h2]

/-- ToTime of a string that parses with the RFC 3339 layout: the parsed instant and offset.
    No zone function is consulted (in Go the *location* of the result is Local or a fixed
    zone depending on the process zone; the offset, which is all that rendering uses, is the
    parsed one either way). -/
theorem toTime_str (ext : Ext) (s : Bytes) (t : GoTime) (h : Time.parseRFC3339 s = some t) :
    castNamed genTables ext "ToTime" (.str s) = .ok (.time t) := by
  simp [castNamed, callNamed, genTables, Gen.casters, findClause, typeOf, evalBranch, special,
    Gen.timeStringFormat, h]

theorem castTo_time_str (ext : Ext) (s : Bytes) (t : GoTime) (h : Time.parseRFC3339 s = some t) :
    castTo genTables ext .time (.str s) = .ok (.time t) := by
  simp [castTo, callNamed, genTables, Gen.casters, Gen.dispatchTo, findClause, typeOf, evalBranch, evalE,
    special, Gen.timeStringFormat, h]

theorem toNumber_time (ext : Ext) (t : GoTime) :
    castNamed genTables ext "ToNumber" (.time t) = .ok (.num (IntText.formatInt t.sec)) := by
  simp [castNamed, callNamed, genTables, Gen.casters, findClause, typeOf, evalBranch, evalE]

theorem toTimestamp_time (ext : Ext) (t : GoTime) :
    castNamed genTables ext "ToTimestamp" (.time t) = .ok (.int .i64 t.sec) := by
  simp [castNamed, callNamed, genTables, Gen.casters, findClause, typeOf, evalBranch, evalE]

/-- ToInt64 on the decimal literal of an int64, at any fuel the interpreter reaches it with. -/
theorem call_toInt64_num (ext : Ext) (v : Int) (hv : IntTy.i64.inRange v) (fuel : Nat) (hf : 4 ≤ fuel) :
    callNamed genTables ext fuel "ToInt64" (.num (IntText.formatInt v)) = .ok (.int .i64 v) := by
  obtain ⟨k, rfl⟩ : ∃ k, fuel = k + 4 := ⟨fuel - 4, by omega⟩
  have hc : genTables.casters.find? (fun c => c.name == "ToInt64") =
      some (casterOf genTables (casterOfInt .i64)) := caster_present .i64
  have hnum := num_branches_ok .i64
  unfold callNamed
  simp only [hc, typeOf]
  generalize findClause (casterOf genTables (casterOfInt .i64)) .num = br at hnum
  unfold numBranchSpec at hnum
  split at hnum
  · subst hnum
    simp only [evalBranch, evalE]
    rw [call_text_source genTables ext _ _ .i64 v k (caster_present .i64) (text_branches_ok .i64)]
    simp [hv]
  · exact absurd hnum id

/-- ToTime of an int64: time.Unix(v, 0) rendered in the process zone, at any fuel ≥ 2. -/
theorem call_toTime_i64 (ext : Ext) (v off : Int) (hz : ext.zoneOffset v = some off)
    (hv : -(2 ^ 62 : Int) < v ∧ v < 2 ^ 62) (fuel : Nat) (hf : 2 ≤ fuel) :
    callNamed genTables ext fuel "ToTime" (.int .i64 v) = .ok (.time ⟨v, 0, off⟩) := by
  obtain ⟨k, rfl⟩ : ∃ k, fuel = k + 2 := ⟨fuel - 2, by omega⟩
  have h1 : ¬ (v ≤ -(2 ^ 62 : Int)) := by omega
  have h2 : ¬ (v ≥ (2 ^ 62 : Int)) := by omega
  simp [callNamed, genTables, Gen.casters, findClause, typeOf, evalBranch, evalE, hz, h1, h2]
  omega

/-- cast.To(time.Time, json.Number with the decimal text of `v`): ToTime's default clause
    goes through ToInt64 and time.Unix — the instant `v`, rendered at the offset the process
    zone has at `v`. -/
theorem castTo_time_num (ext : Ext) (v off : Int) (hz : ext.zoneOffset v = some off)
    (hv : -(2 ^ 62 : Int) < v ∧ v < 2 ^ 62) :
    castTo genTables ext .time (.num (IntText.formatInt v)) = .ok (.time ⟨v, 0, off⟩) := by
  have hd : genTables.dispatchTo.find? (fun p => p.1 == Ty.time) = some (.time, .tail "ToTime" .val) := by
    simp [genTables, Gen.dispatchTo]
  have hc : genTables.casters.find? (fun c => c.name == "ToTime") = some (casterOf genTables "ToTime") := by
    simp [casterOf, genTables, Gen.casters]
  have hb : findClause (casterOf genTables "ToTime") .num = .special "time.default" := by
    simp [casterOf, genTables, Gen.casters, findClause]
  have hn : (casterOf genTables "ToTime").name = "ToTime" := by
    simp [casterOf, genTables, Gen.casters]
  have hr : IntTy.i64.inRange v := by
    simp [IntTy.inRange, IntTy.min, IntTy.max, IntTy.signed, IntTy.bits]; omega
  unfold castTo
  simp only [hd, evalBranch, evalE]
  unfold callNamed
  simp only [hc, typeOf, hb, evalBranch]
  unfold special
  simp [call_toInt64_num ext v hr 20 (by decide), call_toTime_i64 ext v off hz hv 20 (by decide)]

theorem cfdTail_year_bounds (era doe : Int) (h0 : 0 ≤ doe) (h1 : doe < 146097) :
    era * 400 ≤ (Time.cfdTail era doe).1 ∧ (Time.cfdTail era doe).1 ≤ era * 400 + 400 := by
  unfold Time.cfdTail
  simp only
  generalize hyoe : (doe - doe / 1460 + doe / 36524 - doe / 146096) / 365 = yoe
  have hy : 0 ≤ yoe ∧ yoe ≤ 399 := by omega
  split <;> omega

/-- Year 0..9999 (at an offset below 24 h) bounds the Unix second: |sec| < 2^40. -/
theorem sec_range_of_year (t : GoTime) (hy0 : 0 ≤ Time.year t) (hy1 : Time.year t ≤ 9999)
    (hlo : -86400 < t.off) (hhi : t.off < 86400) :
    -(2 ^ 40 : Int) < t.sec ∧ t.sec < 2 ^ 40 := by
  have hyear : Time.year t = (Time.civilFromDays ((t.sec + t.off) / 86400)).1 := by
    unfold Time.year; rw [Time.civilOf_eq]
  rw [hyear, Time.cfd_eq] at hy0 hy1
  generalize hz : (t.sec + t.off) / 86400 = z at hy0 hy1
  generalize hera : (z + 719468) / 146097 = era at hy0 hy1
  have hb := cfdTail_year_bounds era (z + 719468 - era * 146097) (by omega) (by omega)
  have he0 : -1 ≤ era := by omega
  have he1 : era ≤ 24 := by omega
  omega

/-- … hence far inside ±2^62, the range in which the model follows time.Unix. -/
theorem sec_bounds_of_year (t : GoTime) (hy0 : 0 ≤ Time.year t) (hy1 : Time.year t ≤ 9999)
    (hlo : -86400 < t.off) (hhi : t.off < 86400) :
    -(2 ^ 62 : Int) < t.sec ∧ t.sec < 2 ^ 62 := by
  have := sec_range_of_year t hy0 hy1 hlo hhi
  omega

/-- The property's domain for times (`Tables.inDomain`, any format), unpacked. -/
theorem time_inDomain (f : Format) (ty : Ty) (t : GoTime) (h : Tables.inDomain f ty (.time t) = true) :
    0 ≤ Time.year t ∧ Time.year t ≤ 9999 ∧ t.off % 60 = 0 ∧ -86400 < t.off ∧ t.off < 86400 := by
  simp [Tables.inDomain] at h
  omega

/-- Rendering looks at the instant's second and the offset only. -/
theorem formatRFC3339_nsec (t : GoTime) (n : Nat) :
    Time.formatRFC3339 ⟨t.sec, n, t.off⟩ = Time.formatRFC3339 t := rfl

theorem year_nsec (t : GoTime) (n : Nat) : Time.year ⟨t.sec, n, t.off⟩ = Time.year t := rfl

/-- datetime(time.Time), datetime(none) and string(time.Time): the time is written as its
    RFC 3339 text at its own offset, and the text is read back as the time with the same Unix
    second and the SAME offset, nanoseconds dropped — whatever `ext.zoneOffset` is (the model
    of ToTime on a string does not consult it). -/
theorem datetime_time (ext : Ext) (t : GoTime) (hy0 : 0 ≤ Time.year t) (hy1 : Time.year t ≤ 9999)
    (h60 : t.off % 60 = 0) (hlo : -86400 < t.off) (hhi : t.off < 86400) :
    (exportVal ⟨genTables, ext⟩ (.cell (.time t) .datetime .time) = .ok (.str (Time.formatRFC3339 t)) ∧
     importCell ⟨genTables, ext⟩ .datetime .time (.str (Time.formatRFC3339 t)) =
       .ok (.cell (.time ⟨t.sec, 0, t.off⟩) .datetime .time, none)) ∧
    (exportVal ⟨genTables, ext⟩ (.cell (.time t) .datetime .none) = .ok (.str (Time.formatRFC3339 t)) ∧
     importCell ⟨genTables, ext⟩ .datetime .none (.str (Time.formatRFC3339 t)) =
       .ok (.cell (.time ⟨t.sec, 0, t.off⟩) .datetime .none, none)) := by
  have hp := Time.C14_parse_format t hy0 hy1 h60 hlo hhi
  have hexp : ∀ ty, exportVal ⟨genTables, ext⟩ (.cell (.time t) .datetime ty) =
      .ok (.str (Time.formatRFC3339 t)) := by
    intro ty
    simp only [exportVal, exportFail_ok _ _ (toTime_time ext t),
      exportFail_ok _ _ (toString_time ext t hy0 hy1)]
  refine ⟨⟨hexp _, ?_⟩, ⟨hexp _, ?_⟩⟩
  · simp only [importCell, importByFormat, importFrom, importFail_ok _ _ (castTo_time_str ext _ _ hp)]
  · simp only [importCell, importByFormat, importFrom, importFail_ok _ _ (toTime_str ext _ _ hp)]

/-- string(time.Time): same text, same reading. -/
theorem string_time (ext : Ext) (t : GoTime) (hy0 : 0 ≤ Time.year t) (hy1 : Time.year t ≤ 9999)
    (h60 : t.off % 60 = 0) (hlo : -86400 < t.off) (hhi : t.off < 86400) :
    exportVal ⟨genTables, ext⟩ (.cell (.time t) .string .time) = .ok (.str (Time.formatRFC3339 t)) ∧
    importCell ⟨genTables, ext⟩ .string .time (.str (Time.formatRFC3339 t)) =
      .ok (.cell (.time ⟨t.sec, 0, t.off⟩) .string .time, none) := by
  have hp := Time.C14_parse_format t hy0 hy1 h60 hlo hhi
  constructor
  · simp only [exportVal, exportFail_ok _ _ (toString_time ext t hy0 hy1)]
  · simp only [importCell, importByFormat, importFrom, importFail_ok _ _ (castTo_time_str ext _ _ hp)]

/-- With whole seconds (the task's domain: `nsec = 0`) the value read back is THE SAME
    `GoTime`: same instant, same offset, same type. -/
theorem datetime_time_exact (ext : Ext) (t : GoTime) (hns : t.nsec = 0)
    (hy0 : 0 ≤ Time.year t) (hy1 : Time.year t ≤ 9999)
    (h60 : t.off % 60 = 0) (hlo : -86400 < t.off) (hhi : t.off < 86400) :
    importCell ⟨genTables, ext⟩ .datetime .time (.str (Time.formatRFC3339 t)) =
       .ok (.cell (.time t) .datetime .time, none) ∧
    importCell ⟨genTables, ext⟩ .datetime .none (.str (Time.formatRFC3339 t)) =
       .ok (.cell (.time t) .datetime .none, none) ∧
    importCell ⟨genTables, ext⟩ .string .time (.str (Time.formatRFC3339 t)) =
       .ok (.cell (.time t) .string .time, none) := by
  obtain ⟨⟨_, a⟩, ⟨_, b⟩⟩ := datetime_time ext t hy0 hy1 h60 hlo hhi
  obtain ⟨_, c⟩ := string_time ext t hy0 hy1 h60 hlo hhi
  have e : (⟨t.sec, 0, t.off⟩ : GoTime) = t := by cases t; simp at hns; simp [hns]
  rw [e] at a b c
  exact ⟨a, b, c⟩

/-- The same on the property's own terms: for every time of the domain, under datetime(time),
    datetime(none) and string(time), what is read back is `sameValue` (one-second instants). -/
theorem datetime_time_sameValue (ext : Ext) (t : GoTime) (f : Format) (ty : Ty)
    (hf : (f = .datetime ∧ (ty = .time ∨ ty = .none)) ∨ (f = .string ∧ ty = .time))
    (hd : Tables.inDomain f ty (.time t) = true) :
    ∃ e v', exportVal ⟨genTables, ext⟩ (.cell (.time t) f ty) = .ok (.str e) ∧
      importCell ⟨genTables, ext⟩ f ty (.str e) = .ok (.cell v' f ty, none) ∧
      Tables.sameValue (.time t) v' = true ∧ Tables.lossless f ty = true := by
  obtain ⟨hy0, hy1, h60, hlo, hhi⟩ := time_inDomain f ty t hd
  obtain ⟨⟨a1, a2⟩, ⟨b1, b2⟩⟩ := datetime_time ext t hy0 hy1 h60 hlo hhi
  obtain ⟨c1, c2⟩ := string_time ext t hy0 hy1 h60 hlo hhi
  rcases hf with ⟨rfl, rfl | rfl⟩ | ⟨rfl, rfl⟩
  · exact ⟨_, _, a1, a2, by simp [Tables.sameValue], by decide⟩
  · exact ⟨_, _, b1, b2, by simp [Tables.sameValue], by decide⟩
  · exact ⟨_, _, c1, c2, by simp [Tables.sameValue], by decide⟩

/-- C05 for the date-time texts: the written text, read and written again, is the same text
    (the dropped nanoseconds are not part of the text). -/
theorem datetime_time_fixed_point (ext : Ext) (t : GoTime) (hy0 : 0 ≤ Time.year t) (hy1 : Time.year t ≤ 9999)
    (h60 : t.off % 60 = 0) (hlo : -86400 < t.off) (hhi : t.off < 86400) :
    (∃ e c, exportVal ⟨genTables, ext⟩ (.cell (.time t) .datetime .time) = .ok e ∧
        importCell ⟨genTables, ext⟩ .datetime .time e = .ok (c, none) ∧ exportVal ⟨genTables, ext⟩ c = .ok e) ∧
    (∃ e c, exportVal ⟨genTables, ext⟩ (.cell (.time t) .datetime .none) = .ok e ∧
        importCell ⟨genTables, ext⟩ .datetime .none e = .ok (c, none) ∧ exportVal ⟨genTables, ext⟩ c = .ok e) ∧
    (∃ e c, exportVal ⟨genTables, ext⟩ (.cell (.time t) .string .time) = .ok e ∧
        importCell ⟨genTables, ext⟩ .string .time e = .ok (c, none) ∧ exportVal ⟨genTables, ext⟩ c = .ok e) := by
  obtain ⟨⟨a1, a2⟩, ⟨b1, b2⟩⟩ := datetime_time ext t hy0 hy1 h60 hlo hhi
  obtain ⟨c1, c2⟩ := string_time ext t hy0 hy1 h60 hlo hhi
  obtain ⟨⟨a3, _⟩, ⟨b3, _⟩⟩ := datetime_time ext ⟨t.sec, 0, t.off⟩ hy0 hy1 h60 hlo hhi
  obtain ⟨c3, _⟩ := string_time ext ⟨t.sec, 0, t.off⟩ hy0 hy1 h60 hlo hhi
  rw [formatRFC3339_nsec] at a3 b3 c3
  exact ⟨⟨_, _, a1, a2, a3⟩, ⟨_, _, b1, b2, b3⟩, ⟨_, _, c1, c2, c3⟩⟩

/-! Non-vacuity: 2001-09-09T03:46:40+02:00 (Unix second 1000000000), with nanoseconds. -/
example : ∃ e, exportVal ⟨genTables, Ext.empty⟩ (.cell (.time ⟨1000000000, 5, 7200⟩) .datetime .time) = .ok (.str e) ∧
    importCell ⟨genTables, Ext.empty⟩ .datetime .time (.str e) =
      .ok (.cell (.time ⟨1000000000, 0, 7200⟩) .datetime .time, none) := by
  have hy : Time.year ⟨1000000000, 5, 7200⟩ = 2001 := by decide
  obtain ⟨⟨a1, a2⟩, _⟩ := datetime_time Ext.empty ⟨1000000000, 5, 7200⟩ (by rw [hy]; decide) (by rw [hy]; decide)
    (by decide) (by decide) (by decide)
  exact ⟨_, a1, a2⟩

/-- numeric(time.Time) and timestamp(time.Time): the time is written as its Unix second (a
    JSON number with the decimal literal), and the literal is read back as the time with the
    same Unix second, rendered at the offset `ext.zoneOffset` gives for that second (the
    process zone), nanoseconds dropped: the same instant at one-second resolution, NOT the
    same offset in general.  The model answers only inside ±2^62 seconds. -/
theorem numeric_time (ext : Ext) (t : GoTime) (off : Int) (hz : ext.zoneOffset t.sec = some off)
    (hsec : -(2 ^ 62 : Int) < t.sec ∧ t.sec < 2 ^ 62) :
    (exportVal ⟨genTables, ext⟩ (.cell (.time t) .numeric .time) = .ok (.num (IntText.formatInt t.sec)) ∧
     importCell ⟨genTables, ext⟩ .numeric .time (.num (IntText.formatInt t.sec)) =
       .ok (.cell (.time ⟨t.sec, 0, off⟩) .numeric .time, none)) ∧
    (exportVal ⟨genTables, ext⟩ (.cell (.time t) .timestamp .time) = .ok (.int .i64 t.sec) ∧
     importCell ⟨genTables, ext⟩ .timestamp .time (.num (IntText.formatInt t.sec)) =
       .ok (.cell (.time ⟨t.sec, 0, off⟩) .timestamp .time, none)) := by
  have hc := castTo_time_num ext t.sec off hz hsec
  refine ⟨⟨?_, ?_⟩, ⟨?_, ?_⟩⟩
  · simp only [exportVal, exportFail_ok _ _ (toNumber_time ext t)]
  · simp only [importCell, importByFormat, importFrom, importFail_ok _ _ hc]
  · simp only [exportVal, exportFail_ok _ _ (toTimestamp_time ext t)]
  · simp only [importCell, importByFormat, importFrom, importFail_ok _ _ hc]

theorem timestamp_time (ext : Ext) (t : GoTime) (off : Int) (hz : ext.zoneOffset t.sec = some off)
    (hsec : -(2 ^ 62 : Int) < t.sec ∧ t.sec < 2 ^ 62) :
    exportVal ⟨genTables, ext⟩ (.cell (.time t) .timestamp .time) = .ok (.int .i64 t.sec) ∧
    importCell ⟨genTables, ext⟩ .timestamp .time (.num (IntText.formatInt t.sec)) =
      .ok (.cell (.time ⟨t.sec, 0, off⟩) .timestamp .time, none) :=
  (numeric_time ext t off hz hsec).2

/-- On the property's terms: for every time of the domain and every process zone that answers
    at that second, numeric(time) and timestamp(time) read back the same instant. -/
theorem numeric_time_sameValue (ext : Ext) (t : GoTime) (off : Int) (hz : ext.zoneOffset t.sec = some off)
    (f : Format) (hf : f = .numeric ∨ f = .timestamp)
    (hd : Tables.inDomain f .time (.time t) = true) :
    ∃ e v', exportVal ⟨genTables, ext⟩ (.cell (.time t) f .time) = .ok e ∧
      (e = .num (IntText.formatInt t.sec) ∨ e = .int .i64 t.sec) ∧
      importCell ⟨genTables, ext⟩ f .time (.num (IntText.formatInt t.sec)) = .ok (.cell v' f .time, none) ∧
      Tables.sameValue (.time t) v' = true ∧ Tables.lossless f .time = true := by
  obtain ⟨hy0, hy1, _, hlo, hhi⟩ := time_inDomain f .time t hd
  obtain ⟨⟨a1, a2⟩, ⟨b1, b2⟩⟩ := numeric_time ext t off hz (sec_bounds_of_year t hy0 hy1 hlo hhi)
  rcases hf with rfl | rfl
  · exact ⟨_, _, a1, .inl rfl, a2, by simp [Tables.sameValue], by decide⟩
  · exact ⟨_, _, b1, .inr rfl, b2, by simp [Tables.sameValue], by decide⟩

/-- C05 for numeric(time) / timestamp(time): the number written is a fixed point. -/
theorem numeric_time_fixed_point (ext : Ext) (t : GoTime) (off : Int) (hz : ext.zoneOffset t.sec = some off)
    (hsec : -(2 ^ 62 : Int) < t.sec ∧ t.sec < 2 ^ 62) :
    (∃ e c, exportVal ⟨genTables, ext⟩ (.cell (.time t) .numeric .time) = .ok e ∧
        e = .num (IntText.formatInt t.sec) ∧
        importCell ⟨genTables, ext⟩ .numeric .time (.num (IntText.formatInt t.sec)) = .ok (c, none) ∧
        exportVal ⟨genTables, ext⟩ c = .ok e) ∧
    (∃ e c, exportVal ⟨genTables, ext⟩ (.cell (.time t) .timestamp .time) = .ok e ∧
        e = .int .i64 t.sec ∧
        importCell ⟨genTables, ext⟩ .timestamp .time (.num (IntText.formatInt t.sec)) = .ok (c, none) ∧
        exportVal ⟨genTables, ext⟩ c = .ok e) := by
  obtain ⟨⟨a1, a2⟩, ⟨b1, b2⟩⟩ := numeric_time ext t off hz hsec
  obtain ⟨⟨a3, _⟩, ⟨b3, _⟩⟩ := numeric_time ext ⟨t.sec, 0, off⟩ off hz hsec
  exact ⟨⟨_, _, a1, rfl, a2, a3⟩, ⟨_, _, b1, rfl, b2, b3⟩⟩

/-! Non-vacuity: a zone function that answers +01:00 everywhere; the offset read back is the
    zone's (3600), not the one the value was written with (-18000). -/
example : importCell ⟨genTables, { Ext.empty with zoneOffset := fun _ => some 3600 }⟩ .numeric .time
      (.num [0x31, 0x30, 0x30, 0x30]) =
    .ok (.cell (.time ⟨1000, 0, 3600⟩) .numeric .time, none) := by
  have h := (numeric_time { Ext.empty with zoneOffset := fun _ => some 3600 } ⟨1000, 7, -18000⟩ 3600 rfl
    (by decide)).1.2
  have e : IntText.formatInt 1000 = [0x31, 0x30, 0x30, 0x30] := by
    simp [IntText.formatInt, IntText.natDigits, IntText.digitChar]
  simp only [e] at h
  exact h

/-! ### 8. bool under numeric, binary and timestamp -/

/-- What the bool pairings under numeric and timestamp need from strconv.ParseFloat (a
    parameter of the model): the texts "1" and "0" parse, to a nonzero and to a zero float64. -/
structure DigitLaw (ext : Ext) : Prop where
  one : ∃ b, ext.parseFloat [0x31] 64 = some (some b) ∧ Float.isZero Float.f64 b = false
  zero : ∃ b, ext.parseFloat [0x30] 64 = some (some b) ∧ Float.isZero Float.f64 b = true

theorem toNumber_bool (ext : Ext) (b : Bool) :
    castNamed genTables ext "ToNumber" (.bool b) = .ok (.num (if b then [0x31] else [0x30])) := by
  cases b <;>
  simp [castNamed, callNamed, genTables, Gen.casters, findClause, typeOf, evalBranch, evalE]

theorem toTimestamp_bool (ext : Ext) (b : Bool) :
    castNamed genTables ext "ToTimestamp" (.bool b) = .ok (.int .i64 (if b then 1 else 0)) := by
  cases b <;>
  simp [castNamed, callNamed, genTables, Gen.casters, findClause, typeOf, evalBranch, evalE]

/-- cast.To(bool, json.Number "1" / "0"): ToBool goes through ToFloat64 and `!= 0`. -/
theorem castTo_bool_num (ext : Ext) (law : DigitLaw ext) (b : Bool) :
    castTo genTables ext .bool (.num (if b then [0x31] else [0x30])) = .ok (.bool b) := by
  obtain ⟨b1, hp1, hz1⟩ := law.one
  obtain ⟨b0, hp0, hz0⟩ := law.zero
  cases b <;>
  simp [castTo, callNamed, genTables, Gen.casters, Gen.dispatchTo, findClause, typeOf, evalBranch, evalE,
    special, runParse, hp1, hz1, hp0, hz0]

theorem formatInt_bool (b : Bool) :
    IntText.formatInt (if b then 1 else 0) = (if b then [0x31] else [0x30]) := by
  cases b <;> simp [IntText.formatInt, IntText.natDigits, IntText.digitChar]

/-- numeric(bool): written as the number 1 / 0, read back as the same bool.
    timestamp(bool): written as the int64 1 / 0, read back as the same bool.
    Both need `DigitLaw` (ParseFloat is a parameter of the model). -/
theorem numeric_bool (ext : Ext) (law : DigitLaw ext) (b : Bool) :
    (exportVal ⟨genTables, ext⟩ (.cell (.bool b) .numeric .bool) = .ok (.num (if b then [0x31] else [0x30])) ∧
     importCell ⟨genTables, ext⟩ .numeric .bool (.num (if b then [0x31] else [0x30])) =
       .ok (.cell (.bool b) .numeric .bool, none)) ∧
    (exportVal ⟨genTables, ext⟩ (.cell (.bool b) .timestamp .bool) = .ok (.int .i64 (if b then 1 else 0)) ∧
     importCell ⟨genTables, ext⟩ .timestamp .bool (.num (IntText.formatInt (if b then 1 else 0))) =
       .ok (.cell (.bool b) .timestamp .bool, none)) := by
  have hc := castTo_bool_num ext law b
  refine ⟨⟨?_, ?_⟩, ⟨?_, ?_⟩⟩
  · simp only [exportVal, exportFail_ok _ _ (toNumber_bool ext b)]
  · simp only [importCell, importByFormat, importFrom, importFail_ok _ _ hc]
  · simp only [exportVal, exportFail_ok _ _ (toTimestamp_bool ext b)]
  · rw [formatInt_bool]
    simp only [importCell, importByFormat, importFrom, importFail_ok _ _ hc]

theorem timestamp_bool (ext : Ext) (law : DigitLaw ext) (b : Bool) :
    exportVal ⟨genTables, ext⟩ (.cell (.bool b) .timestamp .bool) = .ok (.int .i64 (if b then 1 else 0)) ∧
    importCell ⟨genTables, ext⟩ .timestamp .bool (.num (IntText.formatInt (if b then 1 else 0))) =
      .ok (.cell (.bool b) .timestamp .bool, none) :=
  (numeric_bool ext law b).2

/-- binary(bool): written as the base64 of the one byte 01 / 00, read back as the same bool
    (no hypothesis on `ext`). -/
theorem binary_bool (ext : Ext) (b : Bool) :
    exportVal ⟨genTables, ext⟩ (.cell (.bool b) .binary .bool) =
      .ok (.str (Base64.encode [if b then 1 else 0])) ∧
    importCell ⟨genTables, ext⟩ .binary .bool (.str (Base64.encode [if b then 1 else 0])) =
      .ok (.cell (.bool b) .binary .bool, none) := by
  have hd : castTo genTables ext .bool (.bytes [if b then 1 else 0]) = .ok (.bool b) := by
    rw [decode_bool]; cases b <;> simp
  constructor
  · simp only [exportVal, exportFail_ok _ _ (encode_bool ext b)]
  · simp only [importCell, importByFormat, importFromBinary, importFail_ok _ _ (toString_str ext _),
      Base64.decode_encode, importFail_ok _ _ hd]

/-- C05 for the bool pairings. -/
theorem bool_fixed_point (ext : Ext) (b : Bool) :
    (DigitLaw ext → ∃ e c, exportVal ⟨genTables, ext⟩ (.cell (.bool b) .numeric .bool) = .ok e ∧
        importCell ⟨genTables, ext⟩ .numeric .bool e = .ok (c, none) ∧ exportVal ⟨genTables, ext⟩ c = .ok e) ∧
    (DigitLaw ext → ∃ e c, exportVal ⟨genTables, ext⟩ (.cell (.bool b) .timestamp .bool) = .ok e ∧
        e = .int .i64 (if b then 1 else 0) ∧
        importCell ⟨genTables, ext⟩ .timestamp .bool (.num (IntText.formatInt (if b then 1 else 0))) = .ok (c, none) ∧
        exportVal ⟨genTables, ext⟩ c = .ok e) ∧
    (∃ e c, exportVal ⟨genTables, ext⟩ (.cell (.bool b) .binary .bool) = .ok e ∧
        importCell ⟨genTables, ext⟩ .binary .bool e = .ok (c, none) ∧ exportVal ⟨genTables, ext⟩ c = .ok e) := by
  refine ⟨fun law => ?_, fun law => ?_, ?_⟩
  · obtain ⟨⟨a1, a2⟩, _⟩ := numeric_bool ext law b
    exact ⟨_, _, a1, a2, a1⟩
  · obtain ⟨_, ⟨a1, a2⟩⟩ := numeric_bool ext law b
    exact ⟨_, _, a1, rfl, a2, a1⟩
  · obtain ⟨a1, a2⟩ := binary_bool ext b
    exact ⟨_, _, a1, a2, a1⟩

/-- `DigitLaw` is satisfiable: a ParseFloat that knows "1" (0x3FF0000000000000) and "0". -/
def digitExt : Ext :=
  { Ext.empty with
    parseFloat := fun s _ =>
      if s = [0x31] then some (some 0x3FF0000000000000) else if s = [0x30] then some (some 0) else none }

theorem digitExt_law : DigitLaw digitExt :=
  ⟨⟨0x3FF0000000000000, by simp [digitExt], by decide⟩, ⟨0, by simp [digitExt], by decide⟩⟩

/-! Non-vacuity -/
example : importCell ⟨genTables, digitExt⟩ .numeric .bool (.num [0x31]) =
    .ok (.cell (.bool true) .numeric .bool, none) :=
  (numeric_bool digitExt digitExt_law true).1.2
example : exportVal ⟨genTables, Ext.empty⟩ (.cell (.bool true) .binary .bool) =
      .ok (.str [0x41, 0x51, 0x3D, 0x3D]) ∧
    importCell ⟨genTables, Ext.empty⟩ .binary .bool (.str [0x41, 0x51, 0x3D, 0x3D]) =
      .ok (.cell (.bool true) .binary .bool, none) := by
  have h := binary_bool Ext.empty true
  have e : Base64.encode [if true = true then 1 else 0] = [0x41, 0x51, 0x3D, 0x3D] := by decide
  rw [e] at h
  exact h

/-! ### Further pairings of the table (beyond the task's list) -/

theorem castTo_bool_bool (ext : Ext) (b : Bool) : castTo genTables ext .bool (.bool b) = .ok (.bool b) := by
  simp [castTo, callNamed, genTables, Gen.casters, Gen.dispatchTo, findClause, typeOf, evalBranch, evalE]

theorem toBool_bool (ext : Ext) (b : Bool) : castNamed genTables ext "ToBool" (.bool b) = .ok (.bool b) := by
  simp [castNamed, callNamed, genTables, Gen.casters, findClause, typeOf, evalBranch, evalE]

theorem toBinary_num (ext : Ext) (l : Bytes) :
    castNamed genTables ext "ToBinary" (.num l) = .ok (.bytes l) := by
  simp [castNamed, callNamed, genTables, Gen.casters, findClause, typeOf, evalBranch, evalE]

theorem castTo_num_bytes (ext : Ext) (l : Bytes) :
    castTo genTables ext .num (.bytes l) = .ok (.num l) := by
  simp [castTo, callNamed, genTables, Gen.casters, Gen.dispatchTo, findClause, typeOf, evalBranch, evalE]

/-- auto(INT): the raw integer is handed to the writer as it is (a JSON number with the
    decimal literal) and the literal is read back as the same integer of the same type. -/
theorem auto_int (ext : Ext) (t : IntTy) (v : Int) (hv : t.inRange v) :
    exportVal ⟨genTables, ext⟩ (.cell (.int t v) .auto (.int t)) = .ok (.int t v) ∧
    importCell ⟨genTables, ext⟩ .auto (.int t) (.num (IntText.formatInt v)) =
      .ok (.cell (.int t v) .auto (.int t), none) := by
  constructor
  · simp only [exportVal]
  · simp only [importCell, importByFormat, castTo_int_num ext t v hv]

/-- auto(bool) and boolean(none). -/
theorem auto_bool (ext : Ext) (b : Bool) :
    (exportVal ⟨genTables, ext⟩ (.cell (.bool b) .auto .bool) = .ok (.bool b) ∧
     importCell ⟨genTables, ext⟩ .auto .bool (.bool b) = .ok (.cell (.bool b) .auto .bool, none)) ∧
    (exportVal ⟨genTables, ext⟩ (.cell (.bool b) .boolean .none) = .ok (.bool b) ∧
     importCell ⟨genTables, ext⟩ .boolean .none (.bool b) = .ok (.cell (.bool b) .boolean .none, none)) := by
  refine ⟨⟨?_, ?_⟩, ⟨?_, ?_⟩⟩
  · simp only [exportVal]
  · simp only [importCell, importByFormat, castTo_bool_bool ext b]
  · simp only [exportVal, exportFail_ok _ _ (toBool_bool ext b)]
  · simp only [importCell, importByFormat, importFrom, importFail_ok _ _ (toBool_bool ext b)]

/-- binary(json.Number): every literal (valid number or not) is written as the base64 of its
    text and read back as the same literal. -/
theorem binary_num (ext : Ext) (l : Bytes) :
    exportVal ⟨genTables, ext⟩ (.cell (.num l) .binary .num) = .ok (.str (Base64.encode l)) ∧
    importCell ⟨genTables, ext⟩ .binary .num (.str (Base64.encode l)) =
      .ok (.cell (.num l) .binary .num, none) := by
  constructor
  · simp only [exportVal, exportFail_ok _ _ (toBinary_num ext l)]
  · simp only [importCell, importByFormat, importFromBinary, importFail_ok _ _ (toString_str ext _),
      Base64.decode_encode, importFail_ok _ _ (castTo_num_bytes ext l)]

/-- binary(float64) and binary(float32): the base64 of the little-endian IEEE image, read
    back bit for bit (every bit pattern: NaN payloads, −0, subnormals). -/
theorem binary_float (ext : Ext) :
    (∀ b, b < 2 ^ 64 →
      exportVal ⟨genTables, ext⟩ (.cell (.f64 b) .binary .f64) = .ok (.str (Base64.encode (LE.put 8 b))) ∧
      importCell ⟨genTables, ext⟩ .binary .f64 (.str (Base64.encode (LE.put 8 b))) =
        .ok (.cell (.f64 b) .binary .f64, none)) ∧
    (∀ b, b < 2 ^ 32 →
      exportVal ⟨genTables, ext⟩ (.cell (.f32 b) .binary .f32) = .ok (.str (Base64.encode (LE.put 4 b))) ∧
      importCell ⟨genTables, ext⟩ .binary .f32 (.str (Base64.encode (LE.put 4 b))) =
        .ok (.cell (.f32 b) .binary .f32, none)) := by
  constructor
  · intro b hb
    have hd : castTo genTables ext .f64 (.bytes (LE.put 8 b)) = .ok (.f64 b) := by
      rw [decode_f64]
      simp [LE.put_length, LE.get_put, Nat.mod_eq_of_lt (show b < 256 ^ 8 by simpa using hb)]
    constructor
    · simp only [exportVal, exportFail_ok _ _ (encode_f64 ext b hb)]
    · simp only [importCell, importByFormat, importFromBinary, importFail_ok _ _ (toString_str ext _),
        Base64.decode_encode, importFail_ok _ _ hd]
  · intro b hb
    have hd : castTo genTables ext .f32 (.bytes (LE.put 4 b)) = .ok (.f32 b) := by
      rw [decode_f32]
      simp [LE.put_length, LE.get_put, Nat.mod_eq_of_lt (show b < 256 ^ 4 by simpa using hb)]
    constructor
    · simp only [exportVal, exportFail_ok _ _ (encode_f32 ext b hb)]
    · simp only [importCell, importByFormat, importFromBinary, importFail_ok _ _ (toString_str ext _),
        Base64.decode_encode, importFail_ok _ _ hd]

/-- string(float64) / numeric(float64), given what strconv (a parameter of the model) answers
    for this value: if FormatFloat(b,'f',-1,64) = s and ParseFloat(s,64) = b, the text is
    read back bit for bit. -/
theorem text_f64 (ext : Ext) (b : Nat) (s : Bytes) (hf : ext.fmtFloat b 64 = some s)
    (hp : ext.parseFloat s 64 = some (some b)) :
    (exportVal ⟨genTables, ext⟩ (.cell (.f64 b) .string .f64) = .ok (.str s) ∧
     importCell ⟨genTables, ext⟩ .string .f64 (.str s) = .ok (.cell (.f64 b) .string .f64, none)) ∧
    (exportVal ⟨genTables, ext⟩ (.cell (.f64 b) .numeric .f64) = .ok (.num s) ∧
     importCell ⟨genTables, ext⟩ .numeric .f64 (.num s) = .ok (.cell (.f64 b) .numeric .f64, none)) := by
  have h1 : castNamed genTables ext "ToString" (.f64 b) = .ok (.str s) := by
    simp [castNamed, callNamed, genTables, Gen.casters, findClause, typeOf, evalBranch, evalE, hf]
  have h2 : castTo genTables ext .f64 (.str s) = .ok (.f64 b) := by
    simp [castTo, callNamed, genTables, Gen.casters, Gen.dispatchTo, findClause, typeOf, evalBranch, evalE,
      runParse, hp]
  have h3 : castNamed genTables ext "ToNumber" (.f64 b) = .ok (.num s) := by
    simp [castNamed, callNamed, genTables, Gen.casters, findClause, typeOf, evalBranch, evalE, hf]
  have h4 : castTo genTables ext .f64 (.num s) = .ok (.f64 b) := by
    simp [castTo, callNamed, genTables, Gen.casters, Gen.dispatchTo, findClause, typeOf, evalBranch, evalE,
      runParse, hp]
  refine ⟨⟨?_, ?_⟩, ⟨?_, ?_⟩⟩
  · simp only [exportVal, exportFail_ok _ _ h1]
  · simp only [importCell, importByFormat, importFrom, importFail_ok _ _ h2]
  · simp only [exportVal, exportFail_ok _ _ h3]
  · simp only [importCell, importByFormat, importFrom, importFail_ok _ _ h4]

/-- string(float32) / numeric(float32): formatting at bit size 32 of the widened value,
    parsing at bit size 32, narrowing. -/
theorem text_f32 (ext : Ext) (b r : Nat) (s : Bytes) (hf : ext.fmtFloat (Float.f32to64 b) 32 = some s)
    (hp : ext.parseFloat s 32 = some (some r)) (hr : Float.f64to32 r = b) :
    (exportVal ⟨genTables, ext⟩ (.cell (.f32 b) .string .f32) = .ok (.str s) ∧
     importCell ⟨genTables, ext⟩ .string .f32 (.str s) = .ok (.cell (.f32 b) .string .f32, none)) ∧
    (exportVal ⟨genTables, ext⟩ (.cell (.f32 b) .numeric .f32) = .ok (.num s) ∧
     importCell ⟨genTables, ext⟩ .numeric .f32 (.num s) = .ok (.cell (.f32 b) .numeric .f32, none)) := by
  have h1 : castNamed genTables ext "ToString" (.f32 b) = .ok (.str s) := by
    simp [castNamed, callNamed, genTables, Gen.casters, findClause, typeOf, evalBranch, evalE, hf]
  have h2 : castTo genTables ext .f32 (.str s) = .ok (.f32 b) := by
    simp [castTo, callNamed, genTables, Gen.casters, Gen.dispatchTo, findClause, typeOf, evalBranch, evalE,
      runParse, hp, hr]
  have h3 : castNamed genTables ext "ToNumber" (.f32 b) = .ok (.num s) := by
    simp [castNamed, callNamed, genTables, Gen.casters, findClause, typeOf, evalBranch, evalE, hf]
  have h4 : castTo genTables ext .f32 (.num s) = .ok (.f32 b) := by
    simp [castTo, callNamed, genTables, Gen.casters, Gen.dispatchTo, findClause, typeOf, evalBranch, evalE,
      runParse, hp, hr]
  refine ⟨⟨?_, ?_⟩, ⟨?_, ?_⟩⟩
  · simp only [exportVal, exportFail_ok _ _ h1]
  · simp only [importCell, importByFormat, importFrom, importFail_ok _ _ h2]
  · simp only [exportVal, exportFail_ok _ _ h3]
  · simp only [importCell, importByFormat, importFrom, importFail_ok _ _ h4]

/-- C05 for the further pairings that need no hypothesis on `ext`. -/
theorem further_fixed_point (ext : Ext) :
    (∀ (t : IntTy) (v : Int), t.inRange v →
      ∃ e c, exportVal ⟨genTables, ext⟩ (.cell (.int t v) .auto (.int t)) = .ok e ∧ e = .int t v ∧
        importCell ⟨genTables, ext⟩ .auto (.int t) (.num (IntText.formatInt v)) = .ok (c, none) ∧
        exportVal ⟨genTables, ext⟩ c = .ok e) ∧
    (∀ b : Bool,
      (∃ e c, exportVal ⟨genTables, ext⟩ (.cell (.bool b) .auto .bool) = .ok e ∧
        importCell ⟨genTables, ext⟩ .auto .bool e = .ok (c, none) ∧ exportVal ⟨genTables, ext⟩ c = .ok e) ∧
      (∃ e c, exportVal ⟨genTables, ext⟩ (.cell (.bool b) .boolean .none) = .ok e ∧
        importCell ⟨genTables, ext⟩ .boolean .none e = .ok (c, none) ∧ exportVal ⟨genTables, ext⟩ c = .ok e)) ∧
    (∀ l : Bytes,
      ∃ e c, exportVal ⟨genTables, ext⟩ (.cell (.num l) .binary .num) = .ok e ∧
        importCell ⟨genTables, ext⟩ .binary .num e = .ok (c, none) ∧ exportVal ⟨genTables, ext⟩ c = .ok e) ∧
    (∀ b, b < 2 ^ 64 →
      ∃ e c, exportVal ⟨genTables, ext⟩ (.cell (.f64 b) .binary .f64) = .ok e ∧
        importCell ⟨genTables, ext⟩ .binary .f64 e = .ok (c, none) ∧ exportVal ⟨genTables, ext⟩ c = .ok e) ∧
    (∀ b, b < 2 ^ 32 →
      ∃ e c, exportVal ⟨genTables, ext⟩ (.cell (.f32 b) .binary .f32) = .ok e ∧
        importCell ⟨genTables, ext⟩ .binary .f32 e = .ok (c, none) ∧ exportVal ⟨genTables, ext⟩ c = .ok e) := by
  refine ⟨fun t v hv => ?_, fun b => ⟨?_, ?_⟩, fun l => ?_, fun b hb => ?_, fun b hb => ?_⟩
  · obtain ⟨a1, a2⟩ := auto_int ext t v hv
    exact ⟨_, _, a1, rfl, a2, a1⟩
  · obtain ⟨⟨a1, a2⟩, _⟩ := auto_bool ext b
    exact ⟨_, _, a1, a2, a1⟩
  · obtain ⟨_, ⟨a1, a2⟩⟩ := auto_bool ext b
    exact ⟨_, _, a1, a2, a1⟩
  · obtain ⟨a1, a2⟩ := binary_num ext l
    exact ⟨_, _, a1, a2, a1⟩
  · obtain ⟨a1, a2⟩ := (binary_float ext).1 b hb
    exact ⟨_, _, a1, a2, a1⟩
  · obtain ⟨a1, a2⟩ := (binary_float ext).2 b hb
    exact ⟨_, _, a1, a2, a1⟩

/-- C05 for the float texts, under the same hypotheses as `text_f64` / `text_f32`. -/
theorem text_float_fixed_point (ext : Ext) :
    (∀ (b : Nat) (s : Bytes), ext.fmtFloat b 64 = some s → ext.parseFloat s 64 = some (some b) →
      (∃ e c, exportVal ⟨genTables, ext⟩ (.cell (.f64 b) .string .f64) = .ok e ∧
        importCell ⟨genTables, ext⟩ .string .f64 e = .ok (c, none) ∧ exportVal ⟨genTables, ext⟩ c = .ok e) ∧
      (∃ e c, exportVal ⟨genTables, ext⟩ (.cell (.f64 b) .numeric .f64) = .ok e ∧
        importCell ⟨genTables, ext⟩ .numeric .f64 e = .ok (c, none) ∧ exportVal ⟨genTables, ext⟩ c = .ok e)) ∧
    (∀ (b r : Nat) (s : Bytes), ext.fmtFloat (Float.f32to64 b) 32 = some s →
      ext.parseFloat s 32 = some (some r) → Float.f64to32 r = b →
      (∃ e c, exportVal ⟨genTables, ext⟩ (.cell (.f32 b) .string .f32) = .ok e ∧
        importCell ⟨genTables, ext⟩ .string .f32 e = .ok (c, none) ∧ exportVal ⟨genTables, ext⟩ c = .ok e) ∧
      (∃ e c, exportVal ⟨genTables, ext⟩ (.cell (.f32 b) .numeric .f32) = .ok e ∧
        importCell ⟨genTables, ext⟩ .numeric .f32 e = .ok (c, none) ∧ exportVal ⟨genTables, ext⟩ c = .ok e)) := by
  constructor
  · intro b s hf hp
    obtain ⟨⟨a1, a2⟩, ⟨b1, b2⟩⟩ := text_f64 ext b s hf hp
    exact ⟨⟨_, _, a1, a2, a1⟩, ⟨_, _, b1, b2, b1⟩⟩
  · intro b r s hf hp hr
    obtain ⟨⟨a1, a2⟩, ⟨b1, b2⟩⟩ := text_f32 ext b r s hf hp hr
    exact ⟨⟨_, _, a1, a2, a1⟩, ⟨_, _, b1, b2, b1⟩⟩

/-! Non-vacuity: int16 −32768 under auto(int16); the literal `1e400` (no float holds it) under
    binary(json.Number); the float64 NaN pattern 7FF8000000000001 under binary(float64). -/
example : importCell ⟨genTables, Ext.empty⟩ .auto (.int .i16) (.num [0x2D, 0x33, 0x32, 0x37, 0x36, 0x38]) =
    .ok (.cell (.int .i16 (-32768)) .auto (.int .i16), none) := by
  have h := (auto_int Ext.empty .i16 (-32768) (by decide)).2
  have e : IntText.formatInt (-32768) = [0x2D, 0x33, 0x32, 0x37, 0x36, 0x38] := by
    simp [IntText.formatInt, IntText.natDigits, IntText.digitChar]
  rw [e] at h
  exact h
example : importCell ⟨genTables, Ext.empty⟩ .binary .num (.str (Base64.encode [0x31, 0x65, 0x34, 0x30, 0x30])) =
    .ok (.cell (.num [0x31, 0x65, 0x34, 0x30, 0x30]) .binary .num, none) :=
  (binary_num Ext.empty _).2
example : importCell ⟨genTables, Ext.empty⟩ .binary .f64 (.str (Base64.encode (LE.put 8 0x7FF8000000000001))) =
    .ok (.cell (.f64 0x7FF8000000000001) .binary .f64, none) :=
  ((binary_float Ext.empty).1 0x7FF8000000000001 (by decide)).2

/-! ### binary(time.Time)

cast.ToTime([]byte) first reads `string(bytes)` as an RFC 3339 text, then as an integer text,
and only then the bytes as a little-endian int64.  The image of a Unix second of the
property's domain (years 0..9999) ends with the byte 00 or FF, so neither text reading
applies and the pairing is lossless as an instant; outside the domain it is not
(`binary_time_digits_misread`). -/

/-- No 8-byte string is an RFC 3339 date-time. -/
theorem parseRFC3339_len8 (bs : Bytes) (h : bs.length = 8) : Time.parseRFC3339 bs = none := by
  match bs, h with
  | [a, b, c, d, e, f, g, i], _ =>
    have hd : Time.parseDatePart [a, b, c, d, e, f, g, i] = none := by
      unfold Time.parseDatePart
      simp only [Time.num4, Time.expect, Time.num2]
      split <;> simp [Time.expect, Time.num2]
      intro _ _ _ _ _ _ hr a7 h7 a9 b2 h9
      subst hr
      simp at h7
      obtain ⟨_, rfl⟩ := h7
      simp at h9
    unfold Time.parseRFC3339
    rw [hd]; rfl

/-- The text ends with a byte that is neither a digit of any base nor `_`. -/
def EndsBad (s : Bytes) : Prop := ∃ xs c, s = xs ++ [c] ∧ IntText.digitVal c = none ∧ c ≠ 0x5F

theorem endsBad_tail {x : UInt8} {s : Bytes} (h : EndsBad (x :: s)) (hs : s ≠ []) : EndsBad s := by
  obtain ⟨xs, c, e, h1, h2⟩ := h
  cases xs with
  | nil => simp at e; exact absurd e.2 hs
  | cons y ys => simp at e; exact ⟨ys, c, e.2, h1, h2⟩

theorem digitsVal_endsBad (base : Nat) (b0 : Bool) (s : Bytes) (h : EndsBad s) (acc : Nat) :
    IntText.digitsVal base b0 s acc = none := by
  obtain ⟨xs, c, rfl, h1, h2⟩ := h
  induction xs generalizing acc with
  | nil => simp [IntText.digitsVal, h1, h2]
  | cons x xs ih =>
    simp only [List.cons_append, IntText.digitsVal]
    split
    · exact ih acc
    · cases IntText.digitVal x with
      | none => rfl
      | some d => simp only; split; rfl; exact ih _

theorem basePrefix_endsBad (s : Bytes) (h : EndsBad s) (hl : 3 ≤ s.length) :
    EndsBad (IntText.basePrefix s).2 := by
  unfold IntText.basePrefix
  split
  · rename_i p rest
    have hr : rest ≠ [] := by intro e; subst e; simp at hl
    have h1 : EndsBad (p :: rest) := endsBad_tail h (by simp)
    have h2 : EndsBad rest := endsBad_tail h1 hr
    split
    · exact h2
    · split
      · exact h2
      · split
        · exact h2
        · exact h1
  · rename_i rest _
    exact endsBad_tail h (by intro e; subst e; simp at hl)
  · exact h

theorem parseUintAny_endsBad (s : Bytes) (h : EndsBad s) (hl : 3 ≤ s.length) :
    IntText.parseInt0.parseUintAny s = none := by
  rw [IntText.parseUintAny_eq, digitsVal_endsBad _ _ _ (basePrefix_endsBad s h hl)]
  split <;> rfl

theorem parseInt0_endsBad (s : Bytes) (bits : Nat) (h : EndsBad s) (hl : 4 ≤ s.length) :
    IntText.parseInt0 s bits = none := by
  match s, hl with
  | c :: rest, hl =>
    have hr : rest ≠ [] := by intro e; subst e; simp at hl
    have h1 := parseUintAny_endsBad (c :: rest) h (by simp at hl ⊢; omega)
    have h2 := parseUintAny_endsBad rest (endsBad_tail h hr) (by simp at hl ⊢; omega)
    unfold IntText.parseInt0
    simp only
    have hp : IntText.parseInt0.parseUintAny
        (if (c == 43) = true then (false, rest)
          else if (c == 45) = true then (true, rest) else (false, c :: rest)).snd = none := by
      split
      · exact h2
      · split
        · exact h2
        · exact h1
    rw [hp]

theorem put_succ_last (n x : Nat) :
    LE.put (n + 1) x = LE.put n x ++ [UInt8.ofNat (x / 256 ^ n % 256)] := by
  induction n generalizing x with
  | zero => simp [LE.put]
  | succ n ih =>
    rw [LE.put, ih (x / 256), LE.put, Nat.div_div_eq_div_mul, Nat.pow_succ, Nat.mul_comm]
    rfl

/-- The little-endian int64 image of a second within ±2^56 ends with 00 or FF. -/
theorem endsBad_put_sec (v : Int) (h0 : -(2 ^ 56 : Int) ≤ v) (h1 : v < 2 ^ 56) :
    EndsBad (LE.put 8 (LE.toU 64 v)) := by
  refine ⟨LE.put 7 (LE.toU 64 v), _, put_succ_last 7 _, ?_⟩
  have hc : LE.toU 64 v / 256 ^ 7 % 256 = 0 ∨ LE.toU 64 v / 256 ^ 7 % 256 = 255 := by
    unfold LE.toU; omega
  rcases hc with e | e <;> rw [e] <;> decide

theorem toBinary_time (ext : Ext) (t : GoTime) :
    castNamed genTables ext "ToBinary" (.time t) = .ok (.bytes (LE.put 8 (LE.toU 64 t.sec))) := by
  simp [castNamed, callNamed, genTables, Gen.casters, Gen.binFns, findClause, typeOf, evalBranch,
    evalE, binPut, toU64_mod64, LE.put]

theorem call_toTime_str_fail (ext : Ext) (bs : Bytes) (hA : Time.parseRFC3339 bs = none)
    (hB : IntText.parseInt0 bs 64 = none) (fuel : Nat) (hf : 6 ≤ fuel) :
    callNamed genTables ext fuel "ToTime" (.str bs) = .err .cast := by
  obtain ⟨k, rfl⟩ : ∃ k, fuel = k + 6 := ⟨fuel - 6, by omega⟩
  simp [callNamed, genTables, Gen.casters, findClause, typeOf, evalBranch, special,
    Gen.timeStringFormat, hA, runParse, hB, failWith, Gen.sentinels, wrapsRoot]

theorem call_toInt64_bytes (ext : Ext) (bs : Bytes) (hl : bs.length = 8) (fuel : Nat) (hf : 3 ≤ fuel) :
    callNamed genTables ext fuel "ToInt64" (.bytes bs) = .ok (.int .i64 (LE.ofU 64 (LE.get bs))) := by
  obtain ⟨k, rfl⟩ : ∃ k, fuel = k + 3 := ⟨fuel - 3, by omega⟩
  have hw := wrap_ofU .i64 rfl bs (by simp [IntTy.bits, hl])
  simp [IntTy.bits] at hw
  simp [callNamed, genTables, Gen.casters, Gen.binFns, findClause, typeOf, evalBranch,
    evalE, binGet, ofUnsigned, IntTy.signed, hl, List.take_of_length_le, hw]

/-- cast.To(time.Time, []byte of length 8) when the bytes are neither an RFC 3339 text nor an
    integer text (cast.ToTime tries both readings of `string(bytes)` first): the bytes are
    read as a little-endian int64 of Unix seconds. -/
theorem castTo_time_bytes (ext : Ext) (bs : Bytes) (hl : bs.length = 8)
    (hA : Time.parseRFC3339 bs = none) (hB : IntText.parseInt0 bs 64 = none) (off : Int)
    (hz : ext.zoneOffset (LE.ofU 64 (LE.get bs)) = some off)
    (hv : -(2 ^ 62 : Int) < LE.ofU 64 (LE.get bs) ∧ LE.ofU 64 (LE.get bs) < 2 ^ 62) :
    castTo genTables ext .time (.bytes bs) = .ok (.time ⟨LE.ofU 64 (LE.get bs), 0, off⟩) := by
  have hd : genTables.dispatchTo.find? (fun p => p.1 == Ty.time) = some (.time, .tail "ToTime" .val) := by
    simp [genTables, Gen.dispatchTo]
  have hc : genTables.casters.find? (fun c => c.name == "ToTime") = some (casterOf genTables "ToTime") := by
    simp [casterOf, genTables, Gen.casters]
  have hb : findClause (casterOf genTables "ToTime") .bytes = .special "time.bytes" := by
    simp [casterOf, genTables, Gen.casters, findClause]
  unfold castTo
  simp only [hd, evalBranch, evalE]
  unfold callNamed
  simp only [hc, typeOf, hb, evalBranch]
  unfold special
  simp [call_toTime_str_fail ext bs hA hB 20 (by decide), call_toInt64_bytes ext bs hl 20 (by decide),
    call_toTime_i64 ext _ off hz hv 20 (by decide)]

/-- binary(time.Time): written as the base64 of the little-endian int64 image of the Unix
    second, read back as the same instant (offset of the process zone, nanoseconds dropped),
    for every second within ±2^56. -/
theorem binary_time (ext : Ext) (t : GoTime) (off : Int) (hz : ext.zoneOffset t.sec = some off)
    (hsec : -(2 ^ 56 : Int) ≤ t.sec ∧ t.sec < 2 ^ 56) :
    exportVal ⟨genTables, ext⟩ (.cell (.time t) .binary .time) =
      .ok (.str (Base64.encode (LE.put 8 (LE.toU 64 t.sec)))) ∧
    importCell ⟨genTables, ext⟩ .binary .time (.str (Base64.encode (LE.put 8 (LE.toU 64 t.sec)))) =
      .ok (.cell (.time ⟨t.sec, 0, off⟩) .binary .time, none) := by
  have hl : (LE.put 8 (LE.toU 64 t.sec)).length = 8 := LE.put_length _ _
  have hA := parseRFC3339_len8 _ hl
  have hB := parseInt0_endsBad _ 64 (endsBad_put_sec t.sec hsec.1 hsec.2) (by rw [hl]; decide)
  have hrt : LE.ofU 64 (LE.get (LE.put 8 (LE.toU 64 t.sec))) = t.sec :=
    LE.signed_roundtrip 8 t.sec (by decide) (by omega) (by omega)
  have hd := castTo_time_bytes ext _ hl hA hB off (by rw [hrt]; exact hz) (by rw [hrt]; omega)
  rw [hrt] at hd
  constructor
  · simp only [exportVal, exportFail_ok _ _ (toBinary_time ext t)]
  · simp only [importCell, importByFormat, importFromBinary, importFail_ok _ _ (toString_str ext _),
      Base64.decode_encode, importFail_ok _ _ hd]

/-- On the property's terms (every time of the domain), with the C05 fixed point. -/
theorem binary_time_sameValue (ext : Ext) (t : GoTime) (off : Int) (hz : ext.zoneOffset t.sec = some off)
    (hd : Tables.inDomain .binary .time (.time t) = true) :
    ∃ e c v', exportVal ⟨genTables, ext⟩ (.cell (.time t) .binary .time) = .ok e ∧
      importCell ⟨genTables, ext⟩ .binary .time e = .ok (c, none) ∧ c = .cell v' .binary .time ∧
      Tables.sameValue (.time t) v' = true ∧ exportVal ⟨genTables, ext⟩ c = .ok e := by
  obtain ⟨hy0, hy1, _, hlo, hhi⟩ := time_inDomain .binary .time t hd
  have hr := sec_range_of_year t hy0 hy1 hlo hhi
  have hsec : -(2 ^ 56 : Int) ≤ t.sec ∧ t.sec < 2 ^ 56 := by omega
  obtain ⟨a1, a2⟩ := binary_time ext t off hz hsec
  obtain ⟨a3, _⟩ := binary_time ext ⟨t.sec, 0, off⟩ off hz hsec
  exact ⟨_, _, _, a1, a2, rfl, by simp [Tables.sameValue], a3⟩

theorem castTo_time_digit_bytes (ext : Ext) (off : Int) (hz : ext.zoneOffset 0 = some off) :
    castTo genTables ext .time (.bytes [0x30, 0x30, 0x30, 0x30, 0x30, 0x30, 0x30, 0x30]) =
      .ok (.time ⟨0, 0, off⟩) := by
  have hA : Time.parseRFC3339 [0x30, 0x30, 0x30, 0x30, 0x30, 0x30, 0x30, 0x30] = none := by decide
  have hB : IntText.parseInt0 [0x30, 0x30, 0x30, 0x30, 0x30, 0x30, 0x30, 0x30] 64 = some 0 := by decide
  simp [castTo, callNamed, genTables, Gen.casters, Gen.dispatchTo, findClause, typeOf, evalBranch, evalE,
    special, Gen.timeStringFormat, hA, runParse, hB, hz]

/-- Outside the domain binary(time.Time) is NOT lossless in the model (whose `time.bytes` body
    is the one the extractor recognises verbatim in cast.ToTime: text readings first): the
    Unix second 0x3030303030303030 (year ≈ 1.1·10^11) has the image "00000000", which is read
    as the integer text 0. -/
theorem binary_time_digits_misread (ext : Ext) (off : Int) (hz : ext.zoneOffset 0 = some off) :
    exportVal ⟨genTables, ext⟩ (.cell (.time ⟨3472328296227680304, 0, 0⟩) .binary .time) =
      .ok (.str (Base64.encode [0x30, 0x30, 0x30, 0x30, 0x30, 0x30, 0x30, 0x30])) ∧
    importCell ⟨genTables, ext⟩ .binary .time
        (.str (Base64.encode [0x30, 0x30, 0x30, 0x30, 0x30, 0x30, 0x30, 0x30])) =
      .ok (.cell (.time ⟨0, 0, off⟩) .binary .time, none) := by
  have hp : LE.put 8 (LE.toU 64 3472328296227680304) = [0x30, 0x30, 0x30, 0x30, 0x30, 0x30, 0x30, 0x30] := by
    decide
  constructor
  · simp only [exportVal, exportFail_ok _ _ (toBinary_time ext _), hp]
  · simp only [importCell, importByFormat, importFromBinary, importFail_ok _ _ (toString_str ext _),
      Base64.decode_encode, importFail_ok _ _ (castTo_time_digit_bytes ext off hz)]

/-! Non-vacuity: 1969-12-31T23:59:59Z (second -1, image FF×8) in a zone at +01:00. -/
example : importCell ⟨genTables, { Ext.empty with zoneOffset := fun _ => some 3600 }⟩ .binary .time
      (.str (Base64.encode [0xFF, 0xFF, 0xFF, 0xFF, 0xFF, 0xFF, 0xFF, 0xFF])) =
    .ok (.cell (.time ⟨-1, 0, 3600⟩) .binary .time, none) := by
  have h := (binary_time { Ext.empty with zoneOffset := fun _ => some 3600 } ⟨-1, 0, 0⟩ 3600 rfl
    (by decide)).2
  have e : LE.put 8 (LE.toU 64 (-1)) = [0xFF, 0xFF, 0xFF, 0xFF, 0xFF, 0xFF, 0xFF, 0xFF] := by decide
  simp only [e] at h
  exact h

/-! ### The texts written by these pairings are ASCII: the JSON reader delivers them unchanged -/

/-- Every byte is below 0x80. -/
def Ascii (s : Bytes) : Prop := ∀ c ∈ s, c < 0x80

theorem ascii_nil : Ascii [] := fun _ h => by cases h

theorem ascii_cons {c : UInt8} {s : Bytes} : Ascii (c :: s) ↔ c < 0x80 ∧ Ascii s := by
  simp [Ascii]

theorem ascii_append {a b : Bytes} : Ascii (a ++ b) ↔ Ascii a ∧ Ascii b := by
  simp only [Ascii, List.mem_append]
  exact ⟨fun h => ⟨fun c hc => h c (.inl hc), fun c hc => h c (.inr hc)⟩,
    fun h c hc => hc.elim (h.1 c) (h.2 c)⟩

/-- `sanitize` (what reading a written string amounts to) is the identity on ASCII text. -/
theorem sanitize_ascii_text (s : Bytes) (h : Ascii s) : JsonQuote.sanitize s = s := by
  induction s with
  | nil => exact JsonQuote.sanitize_nil
  | cons c r ih =>
    rw [JsonQuote.sanitize_ascii r (h c (by simp)), ih (fun x hx => h x (by simp [hx]))]

theorem lt128_of_le {c d : UInt8} (h : c ≤ d) (hd : d < 0x80) : c < 0x80 := by
  rw [UInt8.lt_iff_toNat_lt] at *
  rw [UInt8.le_iff_toNat_le] at h
  omega

theorem ascii_of_isDig {c : UInt8} (h : IntText.IsDig c) : c < 0x80 := by
  unfold IntText.IsDig at h
  rw [UInt8.lt_iff_toNat_lt]
  simp; omega

theorem ascii_natDigits (n : Nat) : Ascii (IntText.natDigits n) :=
  fun c hc => ascii_of_isDig (IntText.natDigits_all_isDig n c hc)

theorem ascii_replicate (k : Nat) (c : UInt8) (hc : c < 0x80) : Ascii (List.replicate k c) := by
  intro x hx
  rw [(List.mem_replicate.mp hx).2]; exact hc

theorem ascii_pad (n w : Nat) : Ascii (Time.pad n w) := by
  unfold Time.pad
  exact ascii_append.2 ⟨ascii_replicate _ _ (by decide), ascii_natDigits n⟩

theorem ascii_appendInt (x : Int) (w : Nat) : Ascii (Time.appendInt x w) := by
  unfold Time.appendInt
  split
  · exact ascii_cons.2 ⟨by decide, ascii_pad _ _⟩
  · exact ascii_pad _ _

theorem ascii_formatZone (off : Int) : Ascii (Time.formatZone off) := by
  rw [Time.formatZone_eq]
  have one : ∀ c : UInt8, c < 0x80 → Ascii [c] := fun c hc => ascii_cons.2 ⟨hc, ascii_nil⟩
  split
  · exact one _ (by decide)
  · split
    · exact ascii_cons.2 ⟨by decide, ascii_append.2 ⟨ascii_append.2 ⟨ascii_pad _ _, one _ (by decide)⟩, ascii_pad _ _⟩⟩
    · exact ascii_cons.2 ⟨by decide, ascii_append.2 ⟨ascii_append.2 ⟨ascii_pad _ _, one _ (by decide)⟩, ascii_pad _ _⟩⟩

/-- The RFC 3339 text of any time is ASCII. -/
theorem ascii_formatRFC3339 (t : GoTime) : Ascii (Time.formatRFC3339 t) := by
  have one : ∀ c : UInt8, c < 0x80 → Ascii [c] := fun c hc => ascii_cons.2 ⟨hc, ascii_nil⟩
  rw [Time.formatRFC3339_eq]
  unfold Time.headText
  simp only [ascii_append]
  repeat' apply And.intro
  all_goals first
    | exact ascii_appendInt _ _ | exact ascii_pad _ _ | exact ascii_formatZone _
    | exact one _ (by decide)

theorem sanitize_formatRFC3339 (t : GoTime) :
    JsonQuote.sanitize (Time.formatRFC3339 t) = Time.formatRFC3339 t :=
  sanitize_ascii_text _ (ascii_formatRFC3339 t)

set_option maxRecDepth 4096 in
private theorem alpha_aux : ∀ k, k < 256 → ((Base64.decChar (UInt8.ofNat k)).isSome = true → k < 128) := by
  decide

theorem ascii_of_isAlpha {c : UInt8} (h : Base64.IsAlpha c) : c < 0x80 := by
  have := alpha_aux c.toNat (UInt8.toNat_lt c)
  rw [UInt8.ofNat_toNat] at this
  rw [UInt8.lt_iff_toNat_lt]
  exact this h

/-- Base64 text is ASCII. -/
theorem ascii_encode (b : Bytes) : Ascii (Base64.encode b) := by
  intro c hc
  rcases Base64.encode_chars b c hc with h | rfl
  · exact ascii_of_isAlpha h
  · decide

theorem sanitize_encode (b : Bytes) : JsonQuote.sanitize (Base64.encode b) = Base64.encode b :=
  sanitize_ascii_text _ (ascii_encode b)

theorem ascii_formatInt (v : Int) : Ascii (IntText.formatInt v) := by
  intro c hc
  rcases IntText.formatInt_bytes v c hc with rfl | h
  · decide
  · exact ascii_of_isDig h

theorem ascii_of_isDigit {c : UInt8} (h : JsonWrite.isDigit c = true) : c < 0x80 :=
  ascii_of_isDig ((IntText.isDigit_iff c).1 h)

theorem ascii_of_dropDigits (s : Bytes) (h : Ascii (JsonWrite.dropDigits s)) : Ascii s := by
  induction s with
  | nil => exact ascii_nil
  | cons c r ih =>
    unfold JsonWrite.dropDigits at h
    split at h
    · rename_i hd; exact ascii_cons.2 ⟨ascii_of_isDigit hd, ih h⟩
    · exact h

theorem ascii_of_needDigit {s t : Bytes} (h : IntText.needDigit s = some t) (ht : Ascii t) : Ascii s := by
  unfold IntText.needDigit at h
  split at h
  · rename_i d r
    split at h
    · rename_i hd
      cases h
      exact ascii_cons.2 ⟨ascii_of_isDigit hd, ascii_of_dropDigits r ht⟩
    · cases h
  · cases h

theorem ascii_of_stripSign {s : Bytes} (h : Ascii (IntText.stripSign s)) : Ascii s := by
  unfold IntText.stripSign at h
  split at h
  · rename_i sg r
    split at h
    · rename_i hs
      have : sg < 0x80 := by simp at hs; rcases hs with rfl | rfl <;> decide
      exact ascii_cons.2 ⟨this, h⟩
    · exact h
  · exact h

theorem ascii_of_afterExp {s t : Bytes} (h : IntText.afterExp s = some t) (ht : Ascii t) : Ascii s := by
  cases s with
  | nil => exact ascii_nil
  | cons e r =>
    rw [IntText.afterExp_cons] at h
    split at h
    · rename_i he
      have hea : e < 0x80 := by simp at he; rcases he with rfl | rfl <;> decide
      exact ascii_cons.2 ⟨hea, ascii_of_stripSign (ascii_of_needDigit h ht)⟩
    · cases h; exact ht

theorem ascii_of_afterFrac {s t : Bytes} (h : IntText.afterFrac s = some t) (ht : Ascii t) : Ascii s := by
  cases s with
  | nil => cases h; exact ht
  | cons c r =>
    by_cases hc : c = 0x2E
    · subst hc
      rw [IntText.afterFrac_dot] at h
      exact ascii_cons.2 ⟨by decide, ascii_of_needDigit h ht⟩
    · rw [IntText.afterFrac_of_ne r hc] at h
      cases h; exact ht

theorem ascii_of_afterInt {s t : Bytes} (h : IntText.afterInt s = some t) (ht : Ascii t) : Ascii s := by
  unfold IntText.afterInt at h
  split at h
  · cases h
  · rename_i c r
    split at h
    · rename_i hc
      cases h
      have : c < 0x80 := by simp at hc; subst hc; decide
      exact ascii_cons.2 ⟨this, ht⟩
    · split at h
      · rename_i hc
        cases h
        have : c < 0x80 := by
          simp at hc; exact lt128_of_le hc.2 (by decide)
        exact ascii_cons.2 ⟨this, ascii_of_dropDigits r ht⟩
      · cases h

theorem ascii_of_stripMinus {s : Bytes} (h : Ascii (IntText.stripMinus s)) : Ascii s := by
  rcases IntText.stripMinus_cases s with e | e
  · rw [e]; exact ascii_cons.2 ⟨by decide, h⟩
  · rw [e] at h; exact h

/-- A valid JSON number literal is ASCII. -/
theorem ascii_validNumber (l : Bytes) (h : JsonWrite.isValidNumber l = true) : Ascii l := by
  rw [IntText.isValidNumber_eq, IntText.isNil_eq_true] at h
  cases h1 : IntText.afterInt (IntText.stripMinus l) with
  | none => rw [h1] at h; cases h
  | some s1 =>
    rw [h1, Option.bind_some] at h
    cases h2 : IntText.afterFrac s1 with
    | none => rw [h2] at h; cases h
    | some s2 =>
      rw [h2, Option.bind_some] at h
      exact ascii_of_stripMinus (ascii_of_afterInt h1 (ascii_of_afterFrac h2 (ascii_of_afterExp h ascii_nil)))

theorem sanitize_validNumber (l : Bytes) (h : JsonWrite.isValidNumber l = true) :
    JsonQuote.sanitize l = l :=
  sanitize_ascii_text _ (ascii_validNumber l h)

end Jl.Pairings
