/-
  Proofs.IntText — FormatInt / ParseInt / ParseUint round trips, canonical decimal text,
  and "FormatInt output is a JSON number literal".
-/
import Model.IntText
import Model.CastSpec
import Model.JsonRead

namespace Jl.IntText

/-! ### Digit characters -/

/-- ASCII digit, as a proposition on the byte's numeric value. -/
def IsDig (c : UInt8) : Prop := 48 ≤ c.toNat ∧ c.toNat ≤ 57

instance (c : UInt8) : Decidable (IsDig c) := by unfold IsDig; infer_instance

theorem digitChar_toNat {d : Nat} (h : d < 10) : (digitChar d).toNat = 48 + d := by
  unfold digitChar
  rw [UInt8.toNat_ofNat']
  omega

theorem isDig_digitChar {d : Nat} (h : d < 10) : IsDig (digitChar d) := by
  unfold IsDig; rw [digitChar_toNat h]; omega

theorem isDig_iff (c : UInt8) : IsDig c ↔ (0x30 ≤ c ∧ c ≤ 0x39) := by
  unfold IsDig
  rw [UInt8.le_iff_toNat_le, UInt8.le_iff_toNat_le]
  simp

theorem digitVal_of_isDig {c : UInt8} (h : IsDig c) : digitVal c = some (c.toNat - 48) := by
  have h' := (isDig_iff c).1 h
  simp [digitVal, h'.1, h'.2]

theorem isDig_ne_underscore {c : UInt8} (h : IsDig c) : (c == 0x5F) = false := by
  unfold IsDig at h
  simp [← UInt8.toNat_inj]
  omega

/-! ### `natDigits`: shape (item 1) and read-back by the digit loop (item 2) -/

theorem natDigits_lt {n : Nat} (h : n < 10) : natDigits n = [digitChar n] := by
  rw [natDigits]; simp [h]

theorem natDigits_ge {n : Nat} (h : ¬ n < 10) :
    natDigits n = natDigits (n / 10) ++ [digitChar (n % 10)] := by
  rw [natDigits]; simp [h]

theorem natDigits_zero : natDigits 0 = [0x30] := by
  rw [natDigits_lt (by omega)]; rfl

theorem natDigits_all_isDig (n : Nat) : ∀ c ∈ natDigits n, IsDig c := by
  induction n using natDigits.induct with
  | case1 n h =>
    rw [natDigits_lt h]; intro c hc
    simp at hc; subst hc; exact isDig_digitChar h
  | case2 n h ih =>
    rw [natDigits_ge h]; intro c hc
    simp at hc
    rcases hc with hc | hc
    · exact ih c hc
    · subst hc; exact isDig_digitChar (Nat.mod_lt _ (by omega))

theorem natDigits_ne_nil (n : Nat) : natDigits n ≠ [] := by
  rw [natDigits]; split <;> simp

/-- Shape of the digits of a positive number: a non-zero digit followed by digits. -/
theorem natDigits_pos_shape (n : Nat) (hn : 0 < n) :
    ∃ c tl, natDigits n = c :: tl ∧ 49 ≤ c.toNat ∧ c.toNat ≤ 57 ∧ ∀ d ∈ tl, IsDig d := by
  induction n using natDigits.induct with
  | case1 n h =>
    refine ⟨digitChar n, [], natDigits_lt h, ?_, ?_, by simp⟩ <;> rw [digitChar_toNat h] <;> omega
  | case2 n h ih =>
    obtain ⟨c, tl, e, h1, h2, h3⟩ := ih (by omega)
    refine ⟨c, tl ++ [digitChar (n % 10)], ?_, h1, h2, ?_⟩
    · rw [natDigits_ge h, e]; rfl
    · intro d hd
      simp at hd
      rcases hd with hd | hd
      · exact h3 d hd
      · subst hd; exact isDig_digitChar (Nat.mod_lt _ (by omega))

theorem digitsVal_append (base : Nat) (b0 : Bool) (xs ys : Bytes) (acc : Nat) :
    digitsVal base b0 (xs ++ ys) acc
      = (digitsVal base b0 xs acc).bind (fun a => digitsVal base b0 ys a) := by
  induction xs generalizing acc with
  | nil => simp [digitsVal]
  | cons c xs ih =>
    simp only [List.cons_append, digitsVal]
    split
    · exact ih _
    · split
      · rfl
      · split
        · rfl
        · exact ih _

theorem digitsVal_natDigits (n acc : Nat) :
    digitsVal 10 true (natDigits n) acc = some (acc * 10 ^ (natDigits n).length + n) := by
  induction n using natDigits.induct generalizing acc with
  | case1 n h =>
    rw [natDigits_lt h]
    have hd := isDig_digitChar h
    simp [digitsVal, isDig_ne_underscore hd, digitVal_of_isDig hd, digitChar_toNat h]
    omega
  | case2 n h ih =>
    rw [natDigits_ge h, digitsVal_append, ih]
    have hd := isDig_digitChar (Nat.mod_lt n (by omega : 10 > 0))
    have hlt : n % 10 < 10 := Nat.mod_lt n (by omega)
    simp [digitsVal, isDig_ne_underscore hd, digitVal_of_isDig hd, digitChar_toNat hlt]
    refine ⟨by omega, ?_⟩
    rw [Nat.pow_succ, Nat.add_mul, Nat.mul_assoc]
    omega

/-! ### `ParseUint` on `natDigits` (item 3)

`parseUint0` and `parseInt0.parseUintAny` are restated over a named copy (`basePrefix`) of
their inline base-prefix `match`; the restatements hold by `rfl`, the model is unchanged. -/

/-- The base-prefix dispatch shared by `parseUint0` and `parseInt0.parseUintAny`. -/
def basePrefix (s : Bytes) : Nat × Bytes :=
  match s with
  | 0x30 :: p :: rest =>
    if rest.length ≥ 1 && lower p == 0x62 then (2, rest)
    else if rest.length ≥ 1 && lower p == 0x6F then (8, rest)
    else if rest.length ≥ 1 && lower p == 0x78 then (16, rest)
    else (8, p :: rest)
  | 0x30 :: rest => (8, rest)
  | _ => (10, s)

theorem parseUintAny_eq (s : Bytes) :
    parseInt0.parseUintAny s =
      if s.isEmpty then none
      else
        match digitsVal (basePrefix s).1 true (basePrefix s).2 0 with
        | none => none
        | some n => if (basePrefix s).2.contains 0x5F && !underscoreOK s then none else some n := rfl

theorem parseUint0_eq (s : Bytes) (bits : Nat) :
    parseUint0 s bits =
      if s.isEmpty then none
      else
        match digitsVal (basePrefix s).1 true (basePrefix s).2 0 with
        | none => none
        | some n =>
          if n ≥ 2 ^ (if bits = 0 then 64 else bits) then none
          else if (basePrefix s).2.contains 0x5F && !underscoreOK s then none else some n := by
  unfold parseUint0 basePrefix
  simp only [beq_iff_eq]
  rfl

theorem basePrefix_of_ne {c : UInt8} (tl : Bytes) (hc : c ≠ 0x30) :
    basePrefix (c :: tl) = (10, c :: tl) := by
  unfold basePrefix
  split
  · rename_i h; injection h with h1 h2; exact absurd h1 hc
  · rename_i h; injection h with h1 h2; exact absurd h1 hc
  · rfl

theorem basePrefix_zero : basePrefix [0x30] = (8, []) := rfl

theorem parseUint0_eq_bind (s : Bytes) (bits : Nat) :
    parseUint0 s bits = (parseInt0.parseUintAny s).bind
      (fun n => if n < 2 ^ (if bits = 0 then 64 else bits) then some n else none) := by
  rw [parseUint0_eq, parseUintAny_eq]
  generalize (if bits = 0 then 64 else bits) = b
  by_cases hs : s.isEmpty
  · simp [hs]
  · simp only [hs]
    cases digitsVal (basePrefix s).1 true (basePrefix s).2 0 with
    | none => rfl
    | some n =>
      generalize ((basePrefix s).2.contains 0x5F && !underscoreOK s) = u
      by_cases hn : n < 2 ^ b
      · cases u <;> simp [hn, Nat.not_le.2 hn]
      · cases u <;> simp [hn, Nat.not_lt.1 hn]

theorem natDigits_no_underscore (n : Nat) : (0x5F : UInt8) ∉ natDigits n := by
  intro h
  have := natDigits_all_isDig n _ h
  unfold IsDig at this
  simp at this

theorem natDigits_contains_underscore (n : Nat) : (natDigits n).contains 0x5F = false := by
  simp [natDigits_no_underscore n]

theorem ne_of_toNat_ne {a b : UInt8} (h : a.toNat ≠ b.toNat) : a ≠ b :=
  fun e => h (by rw [e])

theorem parseUintAny_natDigits (n : Nat) : parseInt0.parseUintAny (natDigits n) = some n := by
  rw [parseUintAny_eq]
  by_cases hn : n = 0
  · subst hn; rw [natDigits_zero]; rfl
  · obtain ⟨c, tl, e, h1, h2, h3⟩ := natDigits_pos_shape n (by omega)
    have hc : c ≠ 0x30 := ne_of_toNat_ne (by simp; omega)
    have hb : basePrefix (natDigits n) = (10, natDigits n) := by rw [e]; exact basePrefix_of_ne tl hc
    rw [hb]
    simp only [digitsVal_natDigits, natDigits_contains_underscore]
    simp [natDigits_ne_nil]

theorem parseUint0_natDigits (n bits : Nat) :
    parseUint0 (natDigits n) bits
      = if n < 2 ^ (if bits = 0 then 64 else bits) then some n else none := by
  rw [parseUint0_eq_bind, parseUintAny_natDigits]; rfl

example : natDigits 255 = [0x32, 0x35, 0x35] := by simp [natDigits, digitChar]
example : natDigits 255 = [0x32, 0x35, 0x35] := by
  rw [natDigits_ge (by omega), natDigits_ge (by omega), natDigits_lt (by omega)]; decide
example : parseUint0 (natDigits 0) 8 = some 0 := by simp [parseUint0_natDigits]
example : parseUint0 (natDigits 255) 8 = some 255 := by simp [parseUint0_natDigits]
example : parseUint0 (natDigits 256) 8 = none := by simp [parseUint0_natDigits]
example : parseUint0 [0x30] 8 = some 0 := by decide
example : parseUint0 [0x32, 0x35, 0x35] 8 = some 255 := by decide
example : parseUint0 [0x32, 0x35, 0x36] 8 = none := by decide

/-! ### `ParseInt` / `ParseUint` on `formatInt` (items 4, 5) -/

theorem parseInt0_minus (r : Bytes) (bits : Nat) :
    parseInt0 (0x2D :: r) bits =
      (parseInt0.parseUintAny r).bind fun un =>
        if un > 2 ^ ((if bits = 0 then 64 else bits) - 1) then none else some (-(un : Int)) := by
  unfold parseInt0
  simp
  cases parseInt0.parseUintAny r <;> simp

theorem parseInt0_nosign {c : UInt8} (tl : Bytes) (bits : Nat) (h1 : c ≠ 0x2B) (h2 : c ≠ 0x2D) :
    parseInt0 (c :: tl) bits =
      (parseInt0.parseUintAny (c :: tl)).bind fun un =>
        if un ≥ 2 ^ ((if bits = 0 then 64 else bits) - 1) then none else some (un : Int) := by
  unfold parseInt0
  simp [h1, h2]
  cases parseInt0.parseUintAny (c :: tl) <;> simp


theorem natDigits_head_ne_sign (n : Nat) :
    ∃ c tl, natDigits n = c :: tl ∧ c ≠ 0x2B ∧ c ≠ 0x2D := by
  have hne := natDigits_ne_nil n
  have hall := natDigits_all_isDig n
  cases h : natDigits n with
  | nil => exact absurd h hne
  | cons c tl =>
    have hc : IsDig c := hall c (by rw [h]; simp)
    unfold IsDig at hc
    exact ⟨c, tl, rfl, ne_of_toNat_ne (by simp; omega), ne_of_toNat_ne (by simp; omega)⟩

theorem parseInt0_formatInt (v : Int) (bits : Nat) :
    parseInt0 (formatInt v) bits =
      if -(2 ^ ((if bits = 0 then 64 else bits) - 1) : Int) ≤ v
          ∧ v < 2 ^ ((if bits = 0 then 64 else bits) - 1)
      then some v else none := by
  generalize hk : (if bits = 0 then 64 else bits) - 1 = k
  have hP : ((2 ^ k : Nat) : Int) = (2 : Int) ^ k := by simp
  rw [← hP]
  unfold formatInt
  by_cases hv : v < 0
  · simp only [hv, if_true]
    rw [parseInt0_minus, parseUintAny_natDigits, hk]
    generalize (2 ^ k : Nat) = P
    simp only [Option.bind_some]
    by_cases h : (-v).toNat > P
    · rw [if_pos h, if_neg (by omega)]
    · rw [if_neg h, if_pos (by omega)]; congr 1; omega
  · simp only [hv, if_false]
    obtain ⟨c, tl, e, h1, h2⟩ := natDigits_head_ne_sign v.toNat
    rw [e, parseInt0_nosign tl bits h1 h2, ← e, parseUintAny_natDigits, hk]
    generalize (2 ^ k : Nat) = P
    simp only [Option.bind_some]
    by_cases h : v.toNat ≥ P
    · rw [if_pos h, if_neg (by omega)]
    · rw [if_neg h, if_pos (by omega)]; congr 1; omega

theorem parseUint0_formatInt (v : Int) (bits : Nat) :
    parseUint0 (formatInt v) bits =
      if 0 ≤ v ∧ v < 2 ^ (if bits = 0 then 64 else bits) then some v.toNat else none := by
  generalize hb : (if bits = 0 then 64 else bits) = b
  have hP : ((2 ^ b : Nat) : Int) = (2 : Int) ^ b := by simp
  rw [← hP]
  unfold formatInt
  by_cases hv : v < 0
  · simp only [hv, if_true]
    rw [if_neg (by omega), parseUint0_eq, basePrefix_of_ne _ (by decide)]
    have hd : digitVal 0x2D = none := by decide
    simp [digitsVal, hd]
  · simp only [hv, if_false]
    rw [parseUint0_natDigits, hb]
    generalize (2 ^ b : Nat) = P
    by_cases h : v.toNat < P
    · rw [if_pos h, if_pos (by omega)]
    · rw [if_neg h, if_neg (by omega)]

/-! Non-vacuity: concrete instances of the round trips. -/
example : formatInt (-128) = [0x2D, 0x31, 0x32, 0x38] := by
  simp [formatInt, natDigits, digitChar]
example : formatInt 0 = [0x30] := by simp [formatInt, natDigits, digitChar]
example : parseInt0 (formatInt (-128)) 8 = some (-128) := by rw [parseInt0_formatInt]; decide
example : parseInt0 (formatInt (-129)) 8 = none := by rw [parseInt0_formatInt]; decide
example : parseInt0 (formatInt 127) 8 = some 127 := by rw [parseInt0_formatInt]; decide
example : parseInt0 (formatInt 128) 8 = none := by rw [parseInt0_formatInt]; decide
example : parseInt0 (formatInt 0) 0 = some 0 := by rw [parseInt0_formatInt]; decide
example : parseInt0 [0x2D, 0x31, 0x32, 0x38] 8 = some (-128) := by decide
example : parseInt0 [0x31, 0x32, 0x38] 8 = none := by decide
example : parseInt0 [0x30] 8 = some 0 := by decide
example : parseUint0 (formatInt 255) 8 = some 255 := by rw [parseUint0_formatInt]; decide
example : parseUint0 (formatInt 256) 8 = none := by rw [parseUint0_formatInt]; decide
example : parseUint0 (formatInt (-1)) 8 = none := by rw [parseUint0_formatInt]; decide
example : parseUint0 (formatInt 0) 8 = some 0 := by rw [parseUint0_formatInt]; decide
example : parseUint0 [0x2D, 0x31] 8 = none := by decide

open CastSpec

/-! ### Canonical decimal text (item 6) -/

/-- The accumulator step of `canonicalDecimal`. -/
def decStep (acc : Nat) (d : UInt8) : Nat := acc * 10 + (d.toNat - 0x30)

def signSplit (s : Bytes) : Bool × Bytes :=
  match s with
  | 0x2D :: r => (true, r)
  | _ => (false, s)

def canonBody (neg : Bool) (body : Bytes) : Option Int :=
  match body with
  | [] => none
  | [0x30] => if neg then none else some 0
  | c :: rest =>
    if 0x31 ≤ c && c ≤ 0x39 && rest.all (fun d => 0x30 ≤ d && d ≤ 0x39) then
      let n : Nat := (c :: rest).foldl decStep 0
      some (if neg then -(n : Int) else (n : Int))
    else none

theorem canonicalDecimal_eq (s : Bytes) :
    canonicalDecimal s = canonBody (signSplit s).1 (signSplit s).2 := rfl

theorem signSplit_minus (r : Bytes) : signSplit (0x2D :: r) = (true, r) := rfl

theorem signSplit_of_ne {c : UInt8} (tl : Bytes) (h : c ≠ 0x2D) :
    signSplit (c :: tl) = (false, c :: tl) := by
  unfold signSplit
  split
  · rename_i h'; injection h' with h1 _; exact absurd h1 h
  · rfl

theorem signSplit_cases (s : Bytes) :
    (∃ r, s = 0x2D :: r ∧ signSplit s = (true, r)) ∨ signSplit s = (false, s) := by
  unfold signSplit
  split
  · exact .inl ⟨_, rfl, rfl⟩
  · exact .inr rfl

theorem foldl_decStep_natDigits (n acc : Nat) :
    (natDigits n).foldl decStep acc = acc * 10 ^ (natDigits n).length + n := by
  induction n using natDigits.induct generalizing acc with
  | case1 n h =>
    rw [natDigits_lt h]
    simp [decStep, digitChar_toNat h]
  | case2 n h ih =>
    have hlt : n % 10 < 10 := Nat.mod_lt n (by omega)
    rw [natDigits_ge h, List.foldl_append, ih]
    simp only [List.foldl_cons, List.foldl_nil, decStep, digitChar_toNat hlt, List.length_append,
      List.length_cons, List.length_nil]
    rw [Nat.pow_succ, Nat.add_mul, Nat.mul_assoc]
    omega

theorem digitChar_of_isDig {d : UInt8} (h : IsDig d) : digitChar (d.toNat - 48) = d := by
  unfold IsDig at h
  apply UInt8.toNat_inj.1
  rw [digitChar_toNat (by omega)]; omega

theorem natDigits_foldl_decStep (ds : Bytes) (acc : Nat) (hacc : 0 < acc)
    (hds : ∀ d ∈ ds, IsDig d) :
    natDigits (ds.foldl decStep acc) = natDigits acc ++ ds := by
  induction ds generalizing acc with
  | nil => simp
  | cons d ds ih =>
    have hd : IsDig d := hds d (by simp)
    have hd' := hd
    unfold IsDig at hd'
    rw [List.foldl_cons, ih _ (by unfold decStep; omega) (fun x hx => hds x (by simp [hx]))]
    have hge : ¬ decStep acc d < 10 := by unfold decStep; omega
    rw [natDigits_ge hge]
    have h1 : decStep acc d / 10 = acc := by unfold decStep; omega
    have h2 : decStep acc d % 10 = d.toNat - 48 := by unfold decStep; omega
    rw [h1, h2, digitChar_of_isDig hd]
    simp


theorem all_digit_iff (ds : Bytes) :
    ds.all (fun d => 0x30 ≤ d && d ≤ 0x39) = true ↔ ∀ d ∈ ds, IsDig d := by
  simp [List.all_eq_true, isDig_iff]

theorem nonzero_digit_iff (c : UInt8) :
    (0x31 ≤ c && c ≤ 0x39) = true ↔ (49 ≤ c.toNat ∧ c.toNat ≤ 57) := by
  simp [UInt8.le_iff_toNat_le]

theorem canonBody_zero (neg : Bool) : canonBody neg [0x30] = if neg then none else some 0 := rfl

theorem canonBody_cons (neg : Bool) (c : UInt8) (tl : Bytes) (h : ¬ (c = 0x30 ∧ tl = [])) :
    canonBody neg (c :: tl) =
      if (49 ≤ c.toNat ∧ c.toNat ≤ 57) ∧ ∀ d ∈ tl, IsDig d then
        some (if neg then -(((c :: tl).foldl decStep 0 : Nat) : Int)
              else (((c :: tl).foldl decStep 0 : Nat) : Int))
      else none := by
  unfold canonBody
  split
  · rename_i h'; cases h'
  · rename_i h'; injection h' with h1 h2; exact absurd ⟨h1, h2⟩ h
  · rename_i c' rest' _ h'
    injection h' with h1 h2
    subst h1 h2
    have key : (decide (49 ≤ c) = true ∧ decide (c ≤ 57) = true) ↔ (49 ≤ c.toNat ∧ c.toNat ≤ 57) := by
      simp [UInt8.le_iff_toNat_le]
    simp only [Bool.and_eq_true, all_digit_iff, key]


theorem canonBody_natDigits_pos (neg : Bool) (m : Nat) (hm : 0 < m) :
    canonBody neg (natDigits m) = some (if neg then -(m : Int) else (m : Int)) := by
  obtain ⟨c, tl, e, h1, h2, h3⟩ := natDigits_pos_shape m hm
  have hne : ¬ (c = 0x30 ∧ tl = []) := fun h => by
    have : c.toNat = 48 := by rw [h.1]; rfl
    omega
  have hf := foldl_decStep_natDigits m 0
  rw [e] at hf
  rw [e, canonBody_cons neg c tl hne, if_pos ⟨⟨h1, h2⟩, h3⟩, hf]
  simp

theorem canonBody_some {neg : Bool} {body : Bytes} {v : Int} (h : canonBody neg body = some v) :
    (neg = false ∧ body = [0x30] ∧ v = 0) ∨
      ∃ m : Nat, 0 < m ∧ body = natDigits m ∧ v = if neg then -(m : Int) else (m : Int) := by
  cases body with
  | nil => cases h
  | cons c tl =>
    by_cases hz : c = 0x30 ∧ tl = []
    · obtain ⟨rfl, rfl⟩ := hz
      rw [canonBody_zero] at h
      cases neg
      · left; simp at h; exact ⟨rfl, rfl, h.symm⟩
      · simp at h
    · rw [canonBody_cons neg c tl hz] at h
      split at h
      · rename_i hc
        obtain ⟨⟨h1, h2⟩, h3⟩ := hc
        right
        have hcd : IsDig c := ⟨by omega, h2⟩
        have hnd : natDigits ((c :: tl).foldl decStep 0) = c :: tl := by
          rw [List.foldl_cons, natDigits_foldl_decStep tl _ (by unfold decStep; omega) h3]
          have : decStep 0 c = c.toNat - 48 := by unfold decStep; omega
          rw [this, natDigits_lt (by omega), digitChar_of_isDig hcd]
          rfl
        refine ⟨(c :: tl).foldl decStep 0, ?_, hnd.symm, ?_⟩
        · apply Nat.pos_of_ne_zero
          intro h0
          rw [h0, natDigits_zero] at hnd
          injection hnd with hc0 _
          have : c.toNat = 48 := by rw [← hc0]; rfl
          omega
        · injection h with h; exact h.symm
      · cases h

theorem canonicalDecimal_formatInt (v : Int) : canonicalDecimal (formatInt v) = some v := by
  rw [canonicalDecimal_eq]
  unfold formatInt
  by_cases hv : v < 0
  · simp only [hv, if_true, signSplit_minus]
    rw [canonBody_natDigits_pos true _ (by omega)]
    simp; omega
  · simp only [hv, if_false]
    by_cases h0 : v = 0
    · subst h0
      rw [show (0 : Int).toNat = 0 from rfl, natDigits_zero]; rfl
    · obtain ⟨c, tl, e, _, h2⟩ := natDigits_head_ne_sign v.toNat
      have hs : signSplit (natDigits v.toNat) = (false, natDigits v.toNat) := by
        rw [e]; exact signSplit_of_ne tl h2
      rw [hs]
      simp only []
      rw [canonBody_natDigits_pos false _ (by omega)]
      simp; omega

theorem eq_formatInt_of_canonicalDecimal {s : Bytes} {v : Int}
    (h : canonicalDecimal s = some v) : s = formatInt v := by
  rw [canonicalDecimal_eq] at h
  rcases signSplit_cases s with ⟨r, rfl, hs⟩ | hs
  · have h : canonBody true r = some v := by rw [hs] at h; exact h
    rcases canonBody_some h with ⟨h1, _⟩ | ⟨m, hm, rfl, rfl⟩
    · cases h1
    · unfold formatInt
      have : (-(m : Int)) < 0 := by omega
      simp only [if_true, if_pos this]
      simp
  · have h : canonBody false s = some v := by rw [hs] at h; exact h
    rcases canonBody_some h with ⟨_, rfl, rfl⟩ | ⟨m, hm, rfl, rfl⟩
    · unfold formatInt; simp [natDigits_zero]
    · unfold formatInt
      have : ¬ ((m : Int) < 0) := by omega
      simp only [Bool.false_eq_true, if_false, if_neg this]
      simp

theorem canonicalDecimal_iff (s : Bytes) (v : Int) :
    canonicalDecimal s = some v ↔ s = formatInt v :=
  ⟨eq_formatInt_of_canonicalDecimal, fun h => h ▸ canonicalDecimal_formatInt v⟩

example : canonicalDecimal (formatInt (-128)) = some (-128) := canonicalDecimal_formatInt _
example : canonicalDecimal [0x2D, 0x31, 0x32, 0x38] = some (-128) := by decide
example : canonicalDecimal [0x30] = some 0 := by decide
example : canonicalDecimal [0x2D, 0x30] = none := by decide
example : canonicalDecimal [0x30, 0x31] = none := by decide
example : canonicalDecimal [0x2B, 0x31] = none := by decide

open Json

/-! ### FormatInt output is a JSON number literal (item 7) -/

/-- What may follow the literal: nothing, or a byte that cannot continue a number. -/
def NumberEnds (rest : Bytes) : Prop :=
  ∀ c, rest.head? = some c → ¬ (0x30 ≤ c ∧ c ≤ 0x39) ∧ c ≠ 0x2E ∧ c ≠ 0x65 ∧ c ≠ 0x45

theorem numberEnds_nil : NumberEnds [] := fun _ hc => by cases hc

theorem numberEnds_cons {c : UInt8} (tl : Bytes)
    (h : ¬ (0x30 ≤ c ∧ c ≤ 0x39) ∧ c ≠ 0x2E ∧ c ≠ 0x65 ∧ c ≠ 0x45) : NumberEnds (c :: tl) :=
  fun _ hc => by cases hc; exact h

theorem isDigit_iff (c : UInt8) : isDigit c = true ↔ IsDig c := by
  simp [isDigit, isDig_iff]

theorem digits_of_not_digit (rest : Bytes) (h : ∀ c, rest.head? = some c → ¬ IsDig c) :
    digits rest = ([], rest) := by
  cases rest with
  | nil => rfl
  | cons c tl =>
    have : isDigit c = false := by
      have := h c rfl
      rw [← isDigit_iff] at this
      simpa using this
    simp [digits, this]

theorem digits_append (ds rest : Bytes) (hds : ∀ d ∈ ds, IsDig d)
    (h : ∀ c, rest.head? = some c → ¬ IsDig c) : digits (ds ++ rest) = (ds, rest) := by
  induction ds with
  | nil => exact digits_of_not_digit rest h
  | cons d ds ih =>
    have hd : isDigit d = true := (isDigit_iff d).2 (hds d (by simp))
    simp [digits, hd, ih (fun x hx => hds x (by simp [hx]))]

theorem scanFracExp_ends (rest : Bytes) (h : NumberEnds rest) :
    scanFracExp rest = some ([], rest) := by
  cases rest with
  | nil => rfl
  | cons c tl =>
    obtain ⟨_, h1, h2, h3⟩ := h c rfl
    simp [scanFracExp, h1, h2, h3]

theorem scanInt_natDigits (n : Nat) (rest : Bytes) (h : NumberEnds rest) :
    scanInt (natDigits n ++ rest) = some (natDigits n, rest) := by
  have hnd : ∀ c, rest.head? = some c → ¬ IsDig c := fun c hc => by
    rw [isDig_iff]; exact (h c hc).1
  by_cases hn : n = 0
  · subst hn; rw [natDigits_zero]; rfl
  · obtain ⟨c, tl, e, h1, h2, h3⟩ := natDigits_pos_shape n (by omega)
    have hc0 : c ≠ 0x30 := ne_of_toNat_ne (by simp; omega)
    have hc1 : (0x31 ≤ c && c ≤ 0x39) = true := (nonzero_digit_iff c).2 ⟨h1, h2⟩
    rw [e]
    simp only [List.cons_append, scanInt, beq_iff_eq, hc0, if_false, hc1, if_true,
      digits_append tl rest h3 hnd]

theorem scanNumber_formatInt (v : Int) (rest : Bytes) (h : NumberEnds rest) :
    scanNumber (formatInt v ++ rest) = some (formatInt v, rest) := by
  unfold formatInt
  by_cases hv : v < 0
  · simp only [hv, if_true, List.cons_append, scanNumber, beq_self_eq_true,
      scanInt_natDigits _ rest h, scanFracExp_ends rest h]
    simp
  · simp only [hv, if_false]
    obtain ⟨c, tl, e, _, h2⟩ := natDigits_head_ne_sign v.toNat
    have := scanInt_natDigits v.toNat rest h
    rw [e] at this ⊢
    simp only [List.cons_append, scanNumber, beq_iff_eq, h2, if_false] at this ⊢
    simp only [this, scanFracExp_ends rest h]
    simp

theorem scanNumber_formatInt_nil (v : Int) :
    scanNumber (formatInt v) = some (formatInt v, []) := by
  have := scanNumber_formatInt v [] (fun c hc => by cases hc)
  simpa using this

example : scanNumber (formatInt (-128) ++ [0x2C, 0x31]) = some (formatInt (-128), [0x2C, 0x31]) :=
  scanNumber_formatInt _ _ (fun c hc => by cases hc; decide)
example : scanNumber [0x2D, 0x31, 0x32, 0x38, 0x2C] = some ([0x2D, 0x31, 0x32, 0x38], [0x2C]) := by
  decide
example : scanNumber [0x30, 0x7D] = some ([0x30], [0x7D]) := by decide
/-- The side condition is needed: a following digit/`.`/`e` is absorbed or makes the scan fail. -/
example : scanNumber [0x31, 0x32, 0x2E] = none := by decide

/-! ### Summary statements (item 1, 2 in byte-literal form) and corollaries -/

theorem natDigits_isDigit (n : Nat) : ∀ c ∈ natDigits n, 0x30 ≤ c ∧ c ≤ 0x39 :=
  fun c hc => (isDig_iff c).1 (natDigits_all_isDig n c hc)

/-- No leading zero: the first byte is `'0'` exactly for `n = 0`. -/
theorem natDigits_head_zero_iff (n : Nat) : (natDigits n).head? = some 0x30 ↔ n = 0 := by
  constructor
  · intro h
    apply Classical.byContradiction
    intro hn
    obtain ⟨c, tl, e, h1, _, _⟩ := natDigits_pos_shape n (by omega)
    rw [e] at h
    simp at h
    have : c.toNat = 48 := by rw [h]; rfl
    omega
  · rintro rfl; rw [natDigits_zero]; rfl

theorem digitsVal_natDigits_zero (n : Nat) : digitsVal 10 true (natDigits n) 0 = some n := by
  rw [digitsVal_natDigits]; simp

theorem formatInt_injective {v w : Int} (h : formatInt v = formatInt w) : v = w := by
  have := canonicalDecimal_formatInt v
  rw [h, canonicalDecimal_formatInt] at this
  exact (Option.some.inj this).symm

example : (natDigits 0).head? = some 0x30 := (natDigits_head_zero_iff 0).2 rfl
example : digitsVal 10 true [0x31, 0x32, 0x38] 0 = some 128 := by decide

end Jl.IntText
