/-
  Proofs.AliasFamily — property C15 for template FAMILIES (Model.AliasFamily): a template
  attached to another one with `WithRow`, and extended afterwards, never changes the other;
  "a template changes only through its own builder calls".

  Layout
   0  `taddrs`, `setSlot`, `view` (what `product` reads), `setView`
   1  `cloneProto`: fresh consecutive cells, heap unchanged below `next`, content of the clone;
      on a prototype of plain cells it is `Alias.cloneRow` (`cloneProto_eq_cloneRow`)
   2  the shape of a step
   3  the invariant `Inv` is preserved by every step (`inv_step`, `inv_run`, `inv_init`)   (a)
   4  frame: a step changes the product of no template but its target (`frame_product`,
      `frame_run`), what the builder calls do to their own template (`with_product`,
      `withRow_product`), what a created row holds (`createFrom_content`); the live rows:
      `frame_rows_of_not_row`, `frame_rows_of_row`                                   (b), (c)
   5  the named consequences: `builder_changes_only_own`, `attached_child_extended_later`,
      `attached_child_any_later_history`, `parent_extended_later`,
      `row_mutation_changes_no_template`, `withRow_self`                          (b), (c), (d)
   6  the regression `withRowShared` and its kernel-checked counterexample, the weaker
      regression `withRowSharedCells`, witnesses on concrete worlds
-/
import Model.AliasFamily
import Proofs.Alias

namespace Jl.AliasFamily
open Jl Jl.Alias
variable {C : Type}

/-- `omega` does not look through the abbreviation `Addr := Nat`; unfold it first. -/
local macro "aomega" : tactic => `(tactic| ((try dsimp only [Addr] at *); omega))

/-! ## 0. `taddrs`, `setSlot`, `view` -/

theorem mem_taddrs {p : Proto} {a : Addr} : a ∈ taddrs p ↔ ∃ e ∈ p, a ∈ e.2.addrs := by
  simp only [taddrs, List.mem_flatMap]

@[simp] theorem taddrs_nil : taddrs [] = [] := rfl

theorem mem_setSlot {p : Proto} {k : Bytes} {s : Slot} {e : Bytes × Slot}
    (h : e ∈ setSlot p k s) : e ∈ p ∨ e = (k, s) := by
  unfold setSlot at h
  split at h
  · rw [List.mem_map] at h
    obtain ⟨e', he', rfl⟩ := h
    split
    · exact .inr rfl
    · exact .inl he'
  · rw [List.mem_append, List.mem_singleton] at h
    exact h

theorem mem_taddrs_setSlot {p : Proto} {k : Bytes} {s : Slot} {a : Addr}
    (h : a ∈ taddrs (setSlot p k s)) : a ∈ taddrs p ∨ a ∈ s.addrs := by
  obtain ⟨e, he, ha⟩ := mem_taddrs.mp h
  rcases mem_setSlot he with he | rfl
  · exact .inl (mem_taddrs.mpr ⟨e, he, ha⟩)
  · exact .inr ha

theorem noRef_setSlot {p : Proto} {k : Bytes} {s : Slot} (hp : ∀ e ∈ p, ∀ j, e.2 ≠ .ref j)
    (hs : ∀ j, s ≠ .ref j) : ∀ e ∈ setSlot p k s, ∀ j, e.2 ≠ .ref j := by
  intro e he
  rcases mem_setSlot he with he | rfl
  · exact hp e he
  · exact hs

/-- What is observed of an entry depends only on the cells it owns (when it is not a `ref`). -/
theorem slotView_congr {h h' : Heap C} {ts ts' : List Proto} {s : Slot} (hs : ∀ j, s ≠ .ref j)
    (hc : ∀ a ∈ s.addrs, h'.cells a = h.cells a) : slotView h' ts' s = slotView h ts s := by
  cases s with
  | cell a => simp only [slotView]; rw [hc a (by simp [Slot.addrs])]
  | sub r => simp only [slotView]; rw [content_congr (r := r) hc]
  | ref j => exact absurd rfl (hs j)

/-- What is observed of a prototype without `ref` depends only on the cells reachable from it. -/
theorem view_congr {h h' : Heap C} {ts ts' : List Proto} {p : Proto}
    (hn : ∀ e ∈ p, ∀ j, e.2 ≠ .ref j) (hc : ∀ a ∈ taddrs p, h'.cells a = h.cells a) :
    view h' ts' p = view h ts p := by
  unfold view
  apply List.map_congr_left
  intro e he
  rw [slotView_congr (hn e he) (fun a ha => hc a (mem_taddrs.mpr ⟨e, he, ha⟩))]

/-- `SetValue` on the prototype is `SetValue` on what is observed. -/
theorem view_setSlot (h : Heap C) (ts : List Proto) (p : Proto) (k : Bytes) (s : Slot) :
    view h ts (setSlot p k s) = setView (view h ts p) k (slotView h ts s) := by
  have hany : (view h ts p).any (fun e => e.1 == k) = p.any (fun e => e.1 == k) := by
    unfold view; rw [List.any_map]; rfl
  unfold setSlot setView
  rw [hany]
  split
  · unfold view
    rw [List.map_map, List.map_map]
    apply List.map_congr_left
    intro e _
    simp only [Function.comp]
    split <;> rfl
  · unfold view
    rw [List.map_append]; rfl

/-! ## 1. `cloneProto` -/

theorem cloneProto_next (clone : C → C) (pack) (h : Heap C) (ts : List Proto) (p : Proto) :
    (cloneProto clone pack h ts p).1.next = h.next + (snaps clone pack (view h ts p)).length :=
  build_next h _

theorem cloneProto_next_le (clone : C → C) (pack) (h : Heap C) (ts : List Proto) (p : Proto) :
    h.next ≤ (cloneProto clone pack h ts p).1.next := by
  rw [cloneProto_next]; exact Nat.le_add_right _ _

/-- The heap is unchanged below the old `next`. -/
theorem cloneProto_cells_below (clone : C → C) (pack) (h : Heap C) (ts : List Proto) (p : Proto) :
    ∀ a, a < h.next → (cloneProto clone pack h ts p).1.cells a = h.cells a :=
  build_cells_below h _

/-- Every address of the clone is fresh. -/
theorem cloneProto_addrs_fresh (clone : C → C) (pack) (h : Heap C) (ts : List Proto) (p : Proto) :
    ∀ a ∈ addrs (cloneProto clone pack h ts p).2,
      h.next ≤ a ∧ a < (cloneProto clone pack h ts p).1.next := by
  intro a ha
  rw [cloneProto_next]
  unfold cloneProto at ha
  rw [build_addrs, List.mem_range'_1] at ha
  exact ha

theorem cloneProto_addrs_nodup (clone : C → C) (pack) (h : Heap C) (ts : List Proto) (p : Proto) :
    (addrs (cloneProto clone pack h ts p).2).Nodup := by
  unfold cloneProto; rw [build_addrs]; exact List.nodup_range' 1

/-- The clone holds `CloneValue` of what the prototype showed when the clone was made. -/
theorem cloneProto_content (clone : C → C) (pack) (h : Heap C) (ts : List Proto) (p : Proto) :
    content (cloneProto clone pack h ts p).1 (cloneProto clone pack h ts p).2 =
      (snaps clone pack (view h ts p)).map fun e => (e.1, some e.2) :=
  build_content h _

/-- The clone has at most one cell per key of the prototype: it is finite. -/
theorem snaps_length_le (clone : C → C) (pack) (v : View C) :
    (snaps clone pack v).length ≤ v.length := List.length_filterMap_le _ _

/-- A row object seen as a prototype of plain cells. -/
def ofRow (r : RowObj) : Proto := r.map fun e => (e.1, Slot.cell e.2)

/-- Reuse of Model.Alias: on a prototype of plain cells (all allocated), `cloneProto` is
    `Alias.cloneRow`. -/
theorem cloneProto_eq_cloneRow (clone : C → C) (pack) (h : Heap C) (ts : List Proto) (r : RowObj)
    (hr : ∀ a ∈ addrs r, a < h.next) :
    cloneProto clone pack h ts (ofRow r) = cloneRow clone h r := by
  induction r generalizing h with
  | nil => rfl
  | cons e rest ih =>
    obtain ⟨k, a⟩ := e
    have hrest : ∀ b ∈ addrs rest, b < h.next := fun b hb => hr b (by simp [hb])
    have hview : ∀ c : C, view (h.alloc c).1 ts (ofRow rest) = view h ts (ofRow rest) := by
      intro c
      apply view_congr
      · intro e he j
        simp only [ofRow, List.mem_map] at he
        obtain ⟨_, _, rfl⟩ := he
        exact Slot.noConfusion
      · intro b hb
        obtain ⟨e, he, hbe⟩ := mem_taddrs.mp hb
        simp only [ofRow, List.mem_map] at he
        obtain ⟨e', he', rfl⟩ := he
        simp only [Slot.addrs, List.mem_singleton] at hbe
        have : b < h.next := hrest b (by subst hbe; exact List.mem_map_of_mem he')
        simp [Nat.ne_of_lt this]
    cases ha : h.cells a with
    | none =>
      rw [cloneRow_cons_none _ _ _ _ _ ha, ← ih h hrest]
      simp [cloneProto, ofRow, view, slotView, snaps, snapView, ha]
    | some c =>
      rw [cloneRow_cons_some _ _ _ _ _ c ha, ← ih (h.alloc (clone c)).1
        (fun b hb => by simp only [alloc_next]; have := hrest b hb; aomega)]
      have h1 : snaps clone pack (view h ts (ofRow ((k, a) :: rest))) =
          (k, clone c) :: snaps clone pack (view h ts (ofRow rest)) := by
        simp [ofRow, view, slotView, snaps, snapView, ha]
      unfold cloneProto
      rw [h1, build_cons, hview]

/-! ## 2. The shape of a step -/

theorem step_with_some {w : World C} {i : Nat} {p : Proto} (name : Bytes) (c : C)
    (hi : w.tmpls[i]? = some p) :
    step w (.with_ i name c) =
      { w with heap := (w.heap.alloc c).1,
               tmpls := w.tmpls.set i (setSlot p name (.cell w.heap.next)) } := by
  simp only [step, hi]; rfl

theorem step_with_none {w : World C} {i : Nat} (name : Bytes) (c : C)
    (hi : w.tmpls[i]? = none) : step w (.with_ i name c) = w := by
  simp only [step, hi]

theorem step_withRow_some {w : World C} {i j : Nat} {p q : Proto} (name : Bytes) (clone : C → C)
    (pack) (hi : w.tmpls[i]? = some p) (hj : w.tmpls[j]? = some q) :
    step w (.withRow i name j clone pack) =
      { w with heap := (cloneProto clone pack w.heap w.tmpls q).1,
               tmpls := w.tmpls.set i
                 (setSlot p name (.sub (cloneProto clone pack w.heap w.tmpls q).2)) } := by
  simp only [step, hi, hj]

theorem step_withRow_none {w : World C} {i j : Nat} (name : Bytes) (clone : C → C) (pack)
    (h : w.tmpls[i]? = none ∨ w.tmpls[j]? = none) :
    step w (.withRow i name j clone pack) = w := by
  rcases h with h | h
  · simp only [step, h]
  · cases hi : w.tmpls[i]? <;> simp only [step, hi, h]

theorem step_createFrom_some {w : World C} {i : Nat} {p : Proto} (clone : C → C) (pack)
    (hi : w.tmpls[i]? = some p) :
    step w (.createFrom i clone pack) =
      { w with heap := (cloneProto clone pack w.heap w.tmpls p).1,
               rows := w.rows ++ [(cloneProto clone pack w.heap w.tmpls p).2] } := by
  simp only [step, hi]

theorem step_createFrom_none {w : World C} {i : Nat} (clone : C → C) (pack)
    (hi : w.tmpls[i]? = none) : step w (.createFrom i clone pack) = w := by
  simp only [step, hi]

theorem step_row (w : World C) (op : Alias.Op C) :
    step w (.row op) =
      { w with heap := (Alias.step ⟨w.heap, [], w.rows⟩ op).heap,
               rows := (Alias.step ⟨w.heap, [], w.rows⟩ op).rows } := rfl

theorem run_nil (w : World C) : run w [] = w := rfl
theorem run_cons (w : World C) (op : Op C) (ops : List (Op C)) :
    run w (op :: ops) = run (step w op) ops := rfl

theorem run_append (w : World C) (ops ops' : List (Op C)) :
    run w (ops ++ ops') = run (run w ops) ops' := by
  induction ops generalizing w with
  | nil => rfl
  | cons op ops ih => exact ih (step w op)

/-! ## 3. The invariant is preserved -/

/-- The live rows of a separated world are a separated world of Model.Alias. -/
theorem Inv.disj {w : World C} (inv : Inv w) : Disj (⟨w.heap, [], w.rows⟩ : Alias.World C) :=
  ⟨fun _ ha => (by cases ha), inv.rows_lt, fun _ _ _ ha => (by cases ha), inv.rows_rows⟩

/-- A builder call: template `i` gets a prototype made of its old cells and fresh ones. -/
theorem Inv.tmpl_update {w : World C} (inv : Inv w) {h' : Heap C} {i : Nat} {p p' : Proto}
    (hle : w.heap.next ≤ h'.next) (hi : w.tmpls[i]? = some p)
    (hsub : ∀ a ∈ taddrs p', a ∈ taddrs p ∨ (w.heap.next ≤ a ∧ a < h'.next))
    (hnr : ∀ e ∈ p', ∀ j, e.2 ≠ .ref j) :
    Inv { w with heap := h', tmpls := w.tmpls.set i p' } := by
  have hpm := List.mem_of_getElem? hi
  refine ⟨?_, inv.rows_rows, ?_, ?_, ?_, ?_⟩
  · intro r hr a ha; exact Nat.lt_of_lt_of_le (inv.rows_lt r hr a ha) hle
  · intro q hq a ha
    rcases List.mem_or_eq_of_mem_set hq with hq | rfl
    · exact Nat.lt_of_lt_of_le (inv.tmpl_lt q hq a ha) hle
    · rcases hsub a ha with h | h
      · exact Nat.lt_of_lt_of_le (inv.tmpl_lt p hpm a h) hle
      · exact h.2
  · intro q hq r hr a ha hm
    rcases List.mem_or_eq_of_mem_set hq with hq | rfl
    · exact inv.tmpl_rows q hq r hr a ha hm
    · rcases hsub a ha with h | h
      · exact inv.tmpl_rows p hpm r hr a h hm
      · have := inv.rows_lt r hr a hm; aomega
  · intro i' j' pi pj hi' hj' hij a hai haj
    rcases getElem?_set_some hi' with ⟨rfl, rfl⟩ | ⟨hi1, hi2⟩ <;>
      rcases getElem?_set_some hj' with ⟨rfl, rfl⟩ | ⟨hj1, hj2⟩
    · exact hij rfl
    · rcases hsub a hai with h | h
      · exact inv.tmpl_tmpl _ _ p pj hi hj2 hij a h haj
      · have := inv.tmpl_lt pj (List.mem_of_getElem? hj2) a haj; aomega
    · rcases hsub a haj with h | h
      · exact inv.tmpl_tmpl _ _ pi p hi2 hi hij a hai h
      · have := inv.tmpl_lt pi (List.mem_of_getElem? hi2) a hai; aomega
    · exact inv.tmpl_tmpl _ _ pi pj hi2 hj2 hij a hai haj
  · intro q hq
    rcases List.mem_or_eq_of_mem_set hq with hq | rfl
    · exact inv.noRef q hq
    · exact hnr

/-- A new live row made of fresh cells. -/
theorem Inv.push_row {w : World C} (inv : Inv w) {h' : Heap C} {r : RowObj}
    (hle : w.heap.next ≤ h'.next) (hfresh : ∀ a ∈ addrs r, w.heap.next ≤ a ∧ a < h'.next) :
    Inv { w with heap := h', rows := w.rows ++ [r] } := by
  refine ⟨?_, ?_, ?_, ?_, inv.tmpl_tmpl, inv.noRef⟩
  · intro r' hr' a ha
    rcases List.mem_append.mp hr' with hr' | hr'
    · exact Nat.lt_of_lt_of_le (inv.rows_lt r' hr' a ha) hle
    · rw [List.mem_singleton] at hr'; subst hr'; exact (hfresh a ha).2
  · intro i j ri rj hi hj hij a hai haj
    rcases getElem?_append_singleton hi with hi1 | ⟨hi1, rfl⟩ <;>
      rcases getElem?_append_singleton hj with hj1 | ⟨hj1, rfl⟩
    · exact inv.rows_rows i j ri rj hi1 hj1 hij a hai haj
    · have := inv.rows_lt ri (List.mem_of_getElem? hi1) a hai; have := (hfresh a haj).1; aomega
    · have := inv.rows_lt rj (List.mem_of_getElem? hj1) a haj; have := (hfresh a hai).1; aomega
    · exact hij (hi1.trans hj1.symm)
  · intro p hp a ha; exact Nat.lt_of_lt_of_le (inv.tmpl_lt p hp a ha) hle
  · intro p hp r' hr' a ha hm
    rcases List.mem_append.mp hr' with hr' | hr'
    · exact inv.tmpl_rows p hp r' hr' a ha hm
    · rw [List.mem_singleton] at hr'; subst hr'
      have := inv.tmpl_lt p hp a ha; have := (hfresh a hm).1; aomega

/-- A step of Model.Alias on the live rows, seen from a set of cells `S` that no live row holds
    (the cells of a template): they stay allocated, no row gets one of them, and their content
    is untouched. -/
theorem Upd.bystander {w w' : Alias.World C} {t : Option Nat} (u : Upd w t w') {S : List Addr}
    (hlt : ∀ a ∈ S, a < w.heap.next) (hd : ∀ r ∈ w.rows, ∀ a ∈ S, a ∉ addrs r) :
    (∀ a ∈ S, a < w'.heap.next) ∧ (∀ r ∈ w'.rows, ∀ a ∈ S, a ∉ addrs r) ∧
      (∀ a ∈ S, w'.heap.cells a = w.heap.cells a) := by
  cases u with
  | same => exact ⟨hlt, hd, fun _ _ => rfl⟩
  | push _ h' src r hsrc hle hcells hfresh hnd hkeys hnew =>
    refine ⟨fun a ha => Nat.lt_of_lt_of_le (hlt a ha) hle, ?_, fun a ha => hcells a (hlt a ha)⟩
    intro r' hr' a ha hm
    rcases List.mem_append.mp hr' with hr' | hr'
    · exact hd r' hr' a ha hm
    · rw [List.mem_singleton] at hr'; subst hr'
      have := hlt a ha; have := (hfresh a hm).1; aomega
  | write i r a c hr ha =>
    refine ⟨hlt, hd, ?_⟩
    intro b hb
    have hne : b ≠ a := fun e => hd r (List.mem_of_getElem? hr) b hb (e ▸ ha)
    simp [hne]
  | set i r r' c hr hsub _ _ =>
    have hrm := List.mem_of_getElem? hr
    refine ⟨fun a ha => Nat.lt_succ_of_lt (hlt a ha), ?_, ?_⟩
    · intro r'' hr'' a ha hm
      rcases List.mem_or_eq_of_mem_set hr'' with hr'' | rfl
      · exact hd r'' hr'' a ha hm
      · rcases hsub a hm with h | rfl
        · exact hd r hrm a ha h
        · exact Nat.lt_irrefl _ (hlt _ ha)
    · intro a ha
      have : a ≠ w.heap.next := Nat.ne_of_lt (hlt a ha)
      simp [this]
  | erase _ i =>
    exact ⟨hlt, fun r hr => hd r (List.mem_of_mem_eraseIdx hr), fun _ _ => rfl⟩

/-- A row operation keeps the invariant. -/
theorem Inv.row_step {w : World C} (inv : Inv w) (op : Alias.Op C) : Inv (step w (.row op)) := by
  rw [step_row]
  have u := step_upd (⟨w.heap, [], w.rows⟩ : Alias.World C) op
  have d := inv.disj.upd u
  refine ⟨d.rows_lt, d.rows_rows, ?_, ?_, inv.tmpl_tmpl, inv.noRef⟩
  · intro p hp
    exact (Upd.bystander u (S := taddrs p) (inv.tmpl_lt p hp)
      (fun r hr => inv.tmpl_rows p hp r hr)).1
  · intro p hp
    exact (Upd.bystander u (S := taddrs p) (inv.tmpl_lt p hp)
      (fun r hr => inv.tmpl_rows p hp r hr)).2.1

/-- (a) Every operation keeps the templates' cells separated from one another and from every
    live row. -/
theorem inv_step {w : World C} (inv : Inv w) (op : Op C) : Inv (step w op) := by
  cases op with
  | with_ i name c =>
    cases hi : w.tmpls[i]? with
    | none => rw [step_with_none name c hi]; exact inv
    | some p =>
      rw [step_with_some name c hi]
      refine inv.tmpl_update (by simp) hi ?_
        (noRef_setSlot (inv.noRef p (List.mem_of_getElem? hi)) (fun _ => Slot.noConfusion))
      intro a ha
      rcases mem_taddrs_setSlot ha with h | h
      · exact .inl h
      · simp only [Slot.addrs, List.mem_singleton] at h
        subst h; right; simp
  | withRow i name j clone pack =>
    cases hi : w.tmpls[i]? with
    | none => rw [step_withRow_none name clone pack (.inl hi)]; exact inv
    | some p =>
      cases hj : w.tmpls[j]? with
      | none => rw [step_withRow_none name clone pack (.inr hj)]; exact inv
      | some q =>
        rw [step_withRow_some name clone pack hi hj]
        refine inv.tmpl_update (cloneProto_next_le ..) hi ?_
          (noRef_setSlot (inv.noRef p (List.mem_of_getElem? hi)) (fun _ => Slot.noConfusion))
        intro a ha
        rcases mem_taddrs_setSlot ha with h | h
        · exact .inl h
        · exact .inr (cloneProto_addrs_fresh clone pack w.heap w.tmpls q a h)
  | createFrom i clone pack =>
    cases hi : w.tmpls[i]? with
    | none => rw [step_createFrom_none clone pack hi]; exact inv
    | some p =>
      rw [step_createFrom_some clone pack hi]
      exact inv.push_row (cloneProto_next_le ..) (cloneProto_addrs_fresh clone pack w.heap w.tmpls p)
  | row op => exact inv.row_step op

theorem inv_run {w : World C} (inv : Inv w) (ops : List (Op C)) : Inv (run w ops) := by
  induction ops generalizing w with
  | nil => exact inv
  | cons op ops ih => exact ih (inv_step inv op)

/-- `n` new templates: nothing is allocated, nothing is shared. -/
theorem inv_init (n : Nat) : Inv (initWorld C n) := by
  have hp : ∀ p ∈ (initWorld C n).tmpls, p = [] := fun p hp => (List.mem_replicate.mp hp).2
  refine ⟨fun r hr => (by cases hr), ?_, ?_, fun _ _ r hr => (by cases hr), ?_, ?_⟩
  · intro i j ri rj hi; simp [initWorld] at hi
  · intro p hp' a ha; rw [hp p hp'] at ha; cases ha
  · intro i j pi pj hi _ _ a ha
    rw [hp pi (List.mem_of_getElem? hi)] at ha; cases ha
  · intro p hp' e he; rw [hp p hp'] at he; cases he

/-- (a), spelled out: in every world reached from `n` new templates by ANY history, the cell
    sets reachable from two different prototypes are disjoint, and disjoint from the cells of
    every live row. -/
theorem reachable_separated (n : Nat) (ops : List (Op C)) :
    let w := run (initWorld C n) ops
    (∀ (i j : Nat) pi pj, w.tmpls[i]? = some pi → w.tmpls[j]? = some pj → i ≠ j →
        ∀ a ∈ taddrs pi, a ∉ taddrs pj) ∧
      (∀ p ∈ w.tmpls, ∀ r ∈ w.rows, ∀ a ∈ taddrs p, a ∉ addrs r) :=
  have inv := inv_run (inv_init (C := C) n) ops
  ⟨inv.tmpl_tmpl, inv.tmpl_rows⟩

/-! ## 4. Frame -/

/-- The product of template `k` is the same in two worlds where `k` has the same prototype and
    its cells the same content. -/
theorem product_congr {w w' : World C} (inv : Inv w) (k : Nat) (ht : w'.tmpls[k]? = w.tmpls[k]?)
    (hc : ∀ p, w.tmpls[k]? = some p → ∀ a ∈ taddrs p, w'.heap.cells a = w.heap.cells a) :
    product w' k = product w k := by
  unfold product
  rw [ht]
  cases hk : w.tmpls[k]? with
  | none => rfl
  | some p =>
    simp only [Option.map_some]
    rw [view_congr (inv.noRef p (List.mem_of_getElem? hk)) (hc p hk)]

/-- The frame property: a step changes the product of no template other than its target — and
    row operations and creations have no target. -/
theorem frame_product {w : World C} (inv : Inv w) (op : Op C) (k : Nat)
    (hk : op.tmplTarget ≠ some k) : product (step w op) k = product w k := by
  have below : ∀ p, w.tmpls[k]? = some p → ∀ a ∈ taddrs p, a < w.heap.next :=
    fun p hp => inv.tmpl_lt p (List.mem_of_getElem? hp)
  cases op with
  | with_ i name c =>
    have hik : i ≠ k := fun e => hk (e ▸ rfl)
    cases hi : w.tmpls[i]? with
    | none => rw [step_with_none name c hi]
    | some p =>
      rw [step_with_some name c hi]
      refine product_congr inv k (List.getElem?_set_ne hik) ?_
      intro q hq a ha
      have : a ≠ w.heap.next := Nat.ne_of_lt (below q hq a ha)
      simp [this]
  | withRow i name j clone pack =>
    have hik : i ≠ k := fun e => hk (e ▸ rfl)
    cases hi : w.tmpls[i]? with
    | none => rw [step_withRow_none name clone pack (.inl hi)]
    | some p =>
      cases hj : w.tmpls[j]? with
      | none => rw [step_withRow_none name clone pack (.inr hj)]
      | some q =>
        rw [step_withRow_some name clone pack hi hj]
        refine product_congr inv k (List.getElem?_set_ne hik) ?_
        intro q' hq' a ha
        exact cloneProto_cells_below clone pack w.heap w.tmpls q a (below q' hq' a ha)
  | createFrom i clone pack =>
    cases hi : w.tmpls[i]? with
    | none => rw [step_createFrom_none clone pack hi]
    | some p =>
      rw [step_createFrom_some clone pack hi]
      refine product_congr inv k rfl ?_
      intro q' hq' a ha
      exact cloneProto_cells_below clone pack w.heap w.tmpls p a (below q' hq' a ha)
  | row op =>
    rw [step_row]
    refine product_congr inv k rfl ?_
    intro p hp
    have hpm := List.mem_of_getElem? hp
    exact (Upd.bystander (step_upd (⟨w.heap, [], w.rows⟩ : Alias.World C) op) (S := taddrs p)
      (inv.tmpl_lt p hpm) (fun r hr => inv.tmpl_rows p hpm r hr)).2.2

/-- … over whole histories: the product of template `k` is unchanged by ANY interleaving of
    operations none of which is a builder call on `k` itself. -/
theorem frame_run {w : World C} (inv : Inv w) (ops : List (Op C)) (k : Nat)
    (hops : ∀ op ∈ ops, op.tmplTarget ≠ some k) : product (run w ops) k = product w k := by
  induction ops generalizing w with
  | nil => rfl
  | cons op ops ih =>
    rw [run_cons, ih (inv_step inv op) (fun op' h' => hops op' (by simp [h'])),
      frame_product inv op k (hops op (by simp))]

/-- What `With` does to its own template: `SetValue(name, new cell)` on what is observed. -/
theorem with_product {w : World C} (inv : Inv w) {i : Nat} {p : Proto}
    (hi : w.tmpls[i]? = some p) (name : Bytes) (c : C) :
    product (step w (.with_ i name c)) i =
      some (setView (view w.heap w.tmpls p) name (.cellv (some c))) := by
  have hlen : i < w.tmpls.length := (List.getElem?_eq_some_iff.mp hi).1
  rw [step_with_some name c hi]
  simp only [product, List.getElem?_set_self hlen, Option.map_some, view_setSlot]
  congr 2
  · apply view_congr (inv.noRef p (List.mem_of_getElem? hi))
    intro a ha
    have : a ≠ w.heap.next := Nat.ne_of_lt (inv.tmpl_lt p (List.mem_of_getElem? hi) a ha)
    simp [this]
  · simp [slotView]

/-- What `WithRow` does to its own template: under `name`, a row holding `CloneValue` of what
    template `j` showed AT THE CALL — a snapshot, by value. -/
theorem withRow_product {w : World C} (inv : Inv w) {i j : Nat} {p q : Proto}
    (hi : w.tmpls[i]? = some p) (hj : w.tmpls[j]? = some q) (name : Bytes) (clone : C → C) (pack) :
    product (step w (.withRow i name j clone pack)) i =
      some (setView (view w.heap w.tmpls p) name
        (.subv ((snaps clone pack (view w.heap w.tmpls q)).map fun e => (e.1, some e.2)))) := by
  have hlen : i < w.tmpls.length := (List.getElem?_eq_some_iff.mp hi).1
  rw [step_withRow_some name clone pack hi hj]
  simp only [product, List.getElem?_set_self hlen, Option.map_some, view_setSlot]
  congr 2
  · apply view_congr (inv.noRef p (List.mem_of_getElem? hi))
    intro a ha
    exact cloneProto_cells_below clone pack w.heap w.tmpls q a
      (inv.tmpl_lt p (List.mem_of_getElem? hi) a ha)
  · simp only [slotView, cloneProto_content]

/-- What `CreateRowEmpty` yields: a new last row holding `CloneValue` of the product. -/
theorem createFrom_content {w : World C} {i : Nat} {p : Proto} (hi : w.tmpls[i]? = some p)
    (clone : C → C) (pack) :
    ∃ r, (step w (.createFrom i clone pack)).rows = w.rows ++ [r] ∧
      content (step w (.createFrom i clone pack)).heap r =
        (snaps clone pack (view w.heap w.tmpls p)).map fun e => (e.1, some e.2) := by
  refine ⟨(cloneProto clone pack w.heap w.tmpls p).2, ?_, ?_⟩
  · rw [step_createFrom_some clone pack hi]
  · rw [step_createFrom_some clone pack hi]; exact cloneProto_content ..

/-- "What the template produces afterwards" is a function of its product: two worlds where
    template `i` has the same product give rows with the same content. -/
theorem createFrom_same_of_product_eq {w w' : World C} {i : Nat} (h : product w' i = product w i)
    {p : Proto} (hi : w.tmpls[i]? = some p) (clone : C → C) (pack) :
    ∃ r r', (step w (.createFrom i clone pack)).rows = w.rows ++ [r] ∧
      (step w' (.createFrom i clone pack)).rows = w'.rows ++ [r'] ∧
      content (step w' (.createFrom i clone pack)).heap r' =
        content (step w (.createFrom i clone pack)).heap r := by
  cases hi' : w'.tmpls[i]? with
  | none => simp [product, hi, hi'] at h
  | some p' =>
    obtain ⟨r, hr, hc⟩ := createFrom_content hi clone pack
    obtain ⟨r', hr', hc'⟩ := createFrom_content hi' clone pack
    refine ⟨r, r', hr, hr', ?_⟩
    simp only [product, hi, hi', Option.map_some, Option.some.injEq] at h
    rw [hc, hc', h]

/-- The other direction: builder calls and creations change no live row — each stays in place
    with the content it had. -/
theorem frame_rows_of_not_row {w : World C} (inv : Inv w) (op : Op C) (hop : ∀ rop, op ≠ .row rop)
    {j : Nat} {rj : RowObj} (hj : w.rows[j]? = some rj) :
    (step w op).rows[j]? = some rj ∧ content (step w op).heap rj = content w.heap rj := by
  have hlen : j < w.rows.length := (List.getElem?_eq_some_iff.mp hj).1
  have hlt := inv.rows_lt rj (List.mem_of_getElem? hj)
  cases op with
  | with_ i name c =>
    cases hi : w.tmpls[i]? with
    | none => rw [step_with_none name c hi]; exact ⟨hj, rfl⟩
    | some p =>
      rw [step_with_some name c hi]
      exact ⟨hj, content_alloc_of_lt _ _ _ hlt⟩
  | withRow i name j' clone pack =>
    cases hi : w.tmpls[i]? with
    | none => rw [step_withRow_none name clone pack (.inl hi)]; exact ⟨hj, rfl⟩
    | some p =>
      cases hj' : w.tmpls[j']? with
      | none => rw [step_withRow_none name clone pack (.inr hj')]; exact ⟨hj, rfl⟩
      | some q =>
        rw [step_withRow_some name clone pack hi hj']
        exact ⟨hj, content_congr fun a ha =>
          cloneProto_cells_below clone pack w.heap w.tmpls q a (hlt a ha)⟩
  | createFrom i clone pack =>
    cases hi : w.tmpls[i]? with
    | none => rw [step_createFrom_none clone pack hi]; exact ⟨hj, rfl⟩
    | some p =>
      rw [step_createFrom_some clone pack hi]
      refine ⟨?_, content_congr fun a ha =>
        cloneProto_cells_below clone pack w.heap w.tmpls p a (hlt a ha)⟩
      simp only; rw [List.getElem?_append_left hlen]; exact hj
  | row rop => exact absurd rfl (hop rop)

/-- … and a row operation changes no live row other than the one it works on (Model.Alias's
    frame property, carried over). -/
theorem frame_rows_of_row {w : World C} (inv : Inv w) (rop : Alias.Op C) {j : Nat} {rj : RowObj}
    (hj : w.rows[j]? = some rj) (hop : ¬ rop.touches j) :
    (step w (.row rop)).rows[j]? = some rj ∧
      content (step w (.row rop)).heap rj = content w.heap rj := by
  rw [step_row]
  exact frame_row_of_disj inv.disj rop (w := ⟨w.heap, [], w.rows⟩) hj hop

/-! ## 5. The named consequences -/

/-- (b) `With` / `WithRow` on template `i` change `product i` only. -/
theorem builder_changes_only_own {w : World C} (inv : Inv w) (op : Op C) {i : Nat}
    (hop : op.tmplTarget = some i) (k : Nat) (hk : k ≠ i) : product (step w op) k = product w k :=
  frame_product inv op k (fun e => hk (Option.some.inj (e.symm.trans hop)))

theorem with_changes_only_own {w : World C} (inv : Inv w) (i : Nat) (name : Bytes) (c : C)
    (k : Nat) (hk : k ≠ i) : product (step w (.with_ i name c)) k = product w k :=
  builder_changes_only_own inv _ rfl k hk

theorem withRow_changes_only_own {w : World C} (inv : Inv w) (i : Nat) (name : Bytes) (j : Nat)
    (clone : C → C) (pack) (k : Nat) (hk : k ≠ i) :
    product (step w (.withRow i name j clone pack)) k = product w k :=
  builder_changes_only_own inv _ rfl k hk

/-- (b) Attaching `j` to `i` and THEN extending `j` does not change `product i`. -/
theorem attached_child_extended_later {w : World C} (inv : Inv w) {i j : Nat} (hij : i ≠ j)
    (name : Bytes) (clone : C → C) (pack) (late : Bytes) (c : C) :
    product (run w [.withRow i name j clone pack, .with_ j late c]) i =
      product (step w (.withRow i name j clone pack)) i :=
  with_changes_only_own (inv_step inv _) j late c i hij

/-- … nor does ANY later history without a builder call on `i` itself: builder calls on `j`
    and on every other template (attaching `i` to them included), creations, row mutations. -/
theorem attached_child_any_later_history {w : World C} (inv : Inv w) (i j : Nat) (name : Bytes)
    (clone : C → C) (pack) (ops : List (Op C)) (hops : ∀ op ∈ ops, op.tmplTarget ≠ some i) :
    product (run w (.withRow i name j clone pack :: ops)) i =
      product (step w (.withRow i name j clone pack)) i :=
  frame_run (inv_step inv _) ops i hops

/-- … and the product it keeps is the snapshot made at the call. -/
theorem attached_child_snapshot {w : World C} (inv : Inv w) {i j : Nat} {p q : Proto}
    (hi : w.tmpls[i]? = some p) (hj : w.tmpls[j]? = some q) (name : Bytes) (clone : C → C) (pack)
    (ops : List (Op C)) (hops : ∀ op ∈ ops, op.tmplTarget ≠ some i) :
    product (run w (.withRow i name j clone pack :: ops)) i =
      some (setView (view w.heap w.tmpls p) name
        (.subv ((snaps clone pack (view w.heap w.tmpls q)).map fun e => (e.1, some e.2)))) := by
  rw [attached_child_any_later_history inv i j name clone pack ops hops,
    withRow_product inv hi hj]

/-- (b) Extending the parent `i` (with a column or with another attached row) after the
    attachment does not change `product j`. -/
theorem parent_extended_later {w : World C} (inv : Inv w) {i j : Nat} (hij : i ≠ j)
    (name : Bytes) (clone : C → C) (pack) (ops : List (Op C))
    (hops : ∀ op ∈ ops, op.tmplTarget = some i) :
    product (run w (.withRow i name j clone pack :: ops)) j = product w j := by
  rw [run_cons, frame_run (inv_step inv _) ops j
    (fun op h e => hij (Option.some.inj ((hops op h).symm.trans e))),
    withRow_changes_only_own inv i name j clone pack j (fun e => hij e.symm)]

/-- (c) Mutating live rows — in-place imports, sets, clones, drops — and creating rows changes
    no template's product, whatever the interleaving. -/
theorem row_mutation_changes_no_template {w : World C} (inv : Inv w) (ops : List (Op C))
    (hops : ∀ op ∈ ops, (∃ rop, op = .row rop) ∨ (∃ i clone pack, op = .createFrom i clone pack))
    (k : Nat) : product (run w ops) k = product w k := by
  apply frame_run inv ops k
  intro op hop
  rcases hops op hop with ⟨rop, rfl⟩ | ⟨i, clone, pack, rfl⟩ <;> simp [Op.tmplTarget]

/-- … hence a row created after such a history is the row created before it. -/
theorem row_mutation_same_rows_created {w : World C} (inv : Inv w) (ops : List (Op C))
    (hops : ∀ op ∈ ops, (∃ rop, op = .row rop) ∨ (∃ i clone pack, op = .createFrom i clone pack))
    {i : Nat} {p : Proto} (hi : w.tmpls[i]? = some p) (clone : C → C) (pack) :
    ∃ r r', (step w (.createFrom i clone pack)).rows = w.rows ++ [r] ∧
      (step (run w ops) (.createFrom i clone pack)).rows = (run w ops).rows ++ [r'] ∧
      content (step (run w ops) (.createFrom i clone pack)).heap r' =
        content (step w (.createFrom i clone pack)).heap r :=
  createFrom_same_of_product_eq (row_mutation_changes_no_template inv ops hops i) hi clone pack

/-- (d) A template attached to ITSELF is harmless in this model: the clone is made of what the
    prototype holds at the call, so it is finite (at most one new cell per key), the invariant
    is kept, no other template changes, and template `i` gains under `name` a snapshot of what
    it showed before the call (which does not contain itself). -/
theorem withRow_self {w : World C} (inv : Inv w) {i : Nat} {p : Proto}
    (hi : w.tmpls[i]? = some p) (name : Bytes) (clone : C → C) (pack) :
    Inv (step w (.withRow i name i clone pack)) ∧
      (∀ k, k ≠ i → product (step w (.withRow i name i clone pack)) k = product w k) ∧
      product (step w (.withRow i name i clone pack)) i =
        some (setView (view w.heap w.tmpls p) name
          (.subv ((snaps clone pack (view w.heap w.tmpls p)).map fun e => (e.1, some e.2)))) ∧
      (step w (.withRow i name i clone pack)).heap.next ≤ w.heap.next + p.length := by
  refine ⟨inv_step inv _, fun k hk => withRow_changes_only_own inv i name i clone pack k hk,
    withRow_product inv hi hi name clone pack, ?_⟩
  rw [step_withRow_some name clone pack hi hi]
  simp only [cloneProto_next]
  have := snaps_length_le clone pack (view w.heap w.tmpls p)
  have hl : (view w.heap w.tmpls p).length = p.length := by simp [view]
  aomega

/-! ## 6. The regression, and witnesses on concrete worlds (`C := Nat`) -/

namespace Witness

def kA : Bytes := [97]
def kB : Bytes := [98]
def kP : Bytes := [112]
def kQ : Bytes := [113]
def kLate : Bytes := [108]
/-- what `CloneValue` makes of a nested row: here, a number that shows how many keys it read -/
def pk : List (Bytes × Option Nat) → Nat := fun l => 1000 + l.length

/-- Two templates: 0 with column a, 1 with column b. -/
def w0 : World Nat := run (initWorld Nat 2) [.with_ 0 kA 1, .with_ 1 kB 2]

example : product w0 0 = some [(kA, .cellv (some 1))] := by decide
example : product w0 1 = some [(kB, .cellv (some 2))] := by decide

/-- The real `WithRow`: the parent gets a snapshot … -/
example : product (step w0 (.withRow 0 kP 1 id pk)) 0 =
    some [(kA, .cellv (some 1)), (kP, .subv [(kB, some 2)])] := by decide
/-- … which extending the child afterwards does not change (instance of
    `attached_child_extended_later`), while the child itself has the late column. -/
example :
    let w := run w0 [.withRow 0 kP 1 id pk, .with_ 1 kLate 7]
    product w 0 = some [(kA, .cellv (some 1)), (kP, .subv [(kB, some 2)])] ∧
      product w 1 = some [(kB, .cellv (some 2)), (kLate, .cellv (some 7))] := by decide

/-- THE REGRESSION, kernel-checked: when `WithRow` keeps the child's own row object, extending
    the child afterwards CHANGES what the parent produces. -/
theorem shared_child_extended_later_changes_parent :
    let w1 := withRowShared w0 0 kP 1
    let w2 := step w1 (.with_ 1 kLate 7)
    product w1 0 = some [(kA, .cellv (some 1)), (kP, .subv [(kB, some 2)])] ∧
      product w2 0 = some [(kA, .cellv (some 1)), (kP, .subv [(kB, some 2), (kLate, some 7)])] ∧
      product w2 0 ≠ product w1 0 := by
  decide

/-- … and so do the rows it creates (`pk` shows the number of keys read: 1, then 2). -/
example :
    let w1 := withRowShared w0 0 kP 1
    let w2 := step w1 (.with_ 1 kLate 7)
    (step w1 (.createFrom 0 id pk)).rows.map (content (step w1 (.createFrom 0 id pk)).heap) =
        [[(kA, some 1), (kP, some 1001)]] ∧
      (step w2 (.createFrom 0 id pk)).rows.map (content (step w2 (.createFrom 0 id pk)).heap) =
        [[(kA, some 1), (kP, some 1002)]] := by decide

/-- What fails there is the invariant: the shared world holds a `ref`. -/
theorem shared_not_inv : ¬ Inv (withRowShared w0 0 kP 1) := by
  intro h
  exact h.noRef [(kA, .cell 0), (kP, .ref 1)] (by decide) (kP, .ref 1) (by decide) 1 rfl

/-- A template attached to itself with the regression is a CYCLE: its prototype holds itself
    (in the code: `Raw()` of such a row does not terminate).  The real `WithRow` makes a finite
    clone (`withRow_self`). -/
example : (withRowShared w0 0 kP 0).tmpls[0]? = some [(kA, .cell 0), (kP, .ref 0)] := by decide
example :
    let w := run w0 [.withRow 0 kP 0 id pk, .withRow 0 kQ 0 id pk]
    product w 0 = some [(kA, .cellv (some 1)), (kP, .subv [(kA, some 1)]),
                        (kQ, .subv [(kA, some 1), (kP, some 1001)])] ∧
      w.heap.next = 5 := by decide

/-- The mechanism is the shared ROW OBJECT, not shared cells: a variant that stores a new row
    object holding the child's own cells breaks the invariant (a) … -/
theorem sharedCells_not_inv : ¬ Inv (withRowSharedCells w0 0 kP 1) := by
  intro h
  exact h.tmpl_tmpl 0 1 [(kA, .cell 0), (kP, .sub [(kB, 1)])] [(kB, .cell 1)] (by decide)
    (by decide) (by decide) 1 (by decide) (by decide)

/-- … yet no builder call can show it, because builder calls never write a cell in place
    (`With` on an existing key stores a NEW cell): -/
example :
    let w1 := withRowSharedCells w0 0 kP 1
    product (run w1 [.with_ 1 kLate 7, .with_ 1 kB 9]) 0 = product w1 0 := by decide

/-- A history over two templates and their rows: attach, create, import in place into the
    created rows (the attached key included), extend both templates, attach the other way
    round, create again. -/
def hist : List (Op Nat) :=
  [.withRow 0 kP 1 (· + 10) pk,
   .createFrom 0 (· + 100) pk,                     -- row 0
   .row (.importKey 0 kA (fun _ => 77)),
   .row (.importKey 0 kP (fun _ => 78)),
   .with_ 1 kLate 7,
   .createFrom 1 id pk,                            -- row 1
   .row (.setKey 1 kB (fun _ => 79)),
   .with_ 0 kQ 5,
   .withRow 1 kP 0 id pk,
   .withRow 7 kP 0 id pk,                          -- no such template: nothing happens
   .row (.cloneLive 0 id),                         -- row 2
   .createFrom 0 id pk]                            -- row 3

example : (run w0 hist).tmpls.map (view (run w0 hist).heap (run w0 hist).tmpls) =
    [ [(kA, .cellv (some 1)), (kP, .subv [(kB, some 12)]), (kQ, .cellv (some 5))],
      [(kB, .cellv (some 2)), (kLate, .cellv (some 7)),
       (kP, .subv [(kA, some 1), (kP, some 1001), (kQ, some 5)])] ] := by decide
example : (run w0 hist).rows.map (content (run w0 hist).heap) =
    [ [(kA, some 77), (kP, some 78)],
      [(kB, some 79), (kLate, some 7)],
      [(kA, some 77), (kP, some 78)],
      [(kA, some 1), (kP, some 1001), (kQ, some 5)] ] := by decide
-- the hypotheses of the theorems hold on these worlds (they are not vacuous)
example : Inv w0 := inv_run (inv_init 2) _
example : Inv (run w0 hist) := inv_run (inv_run (inv_init 2) _) hist
example : ((run w0 hist).tmpls.map taddrs, (run w0 hist).rows.map addrs, (run w0 hist).heap.next) =
    ([[0, 2, 9], [1, 5, 10, 11, 12]], [[3, 4], [8, 7], [13, 14], [15, 16, 17]], 18) := by decide
-- `cloneProto` on plain cells is `Alias.cloneRow`
example : cloneProto (· + 1) pk w0.heap w0.tmpls (ofRow [(kA, 0), (kB, 1)]) =
    cloneRow (· + 1) w0.heap [(kA, 0), (kB, 1)] :=
  cloneProto_eq_cloneRow _ _ _ _ _ (by decide)

end Witness

end Jl.AliasFamily
