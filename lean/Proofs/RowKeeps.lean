/-
  Proofs.RowKeeps — no mutator of row.go ever removes a key's map entry: `Keeps r r'` (every key
  with an entry in `r.m` has one in `r'.m`) holds across every step and every history, whatever the
  cells do and whether or not a step reports an error (a failing Import / UnmarshalJSON keeps what it
  stored before the error).  Together with `C06.history_keeps_order` (the key list only grows at its
  end) this gives C06's "never drops it" for the map half of the row, which the refinement to `OMap`
  states only for coherent rows.
-/
import Model.Row
namespace Jl.RowKeeps
open Jl
variable {C V E : Type}

def Keeps (r r' : LRow C) : Prop := ∀ k, (r.m k).isSome → (r'.m k).isSome

theorem keeps_refl (r : LRow C) : Keeps r r := fun _ h => h
theorem keeps_trans {a b c : LRow C} (h1 : Keeps a b) (h2 : Keeps b c) : Keeps a c :=
  fun k h => h2 k (h1 k h)

theorem keeps_mset (r : LRow C) (l : List Bytes) (k : Bytes) (c : C) :
    Keeps r ⟨l, LRow.mset r.m k c⟩ := by
  intro k' h; simp only [LRow.mset]; split
  · rfl
  · exact h

theorem keeps_set (ops : CellOps C V E) (r : LRow C) (k : Bytes) (x : V) :
    Keeps r (r.set ops k x) := by
  unfold LRow.set; cases r.m k <;> exact keeps_mset r _ k _

theorem keeps_importAtKey (ops : CellOps C V E) (r : LRow C) (k : Bytes) (x : V) :
    Keeps r (r.importAtKey ops k x).1 := by
  unfold LRow.importAtKey; cases r.m k <;> exact keeps_mset r _ k _

theorem keeps_parseMember (ops : CellOps C V E) (r : LRow C) (k : Bytes) (x : V) :
    Keeps r (r.parseMember ops k x).1 := by
  unfold LRow.parseMember; cases r.m k <;> exact keeps_mset r _ k _

theorem keeps_importSliceFrom (ops : CellOps C V E) (xs : List V) :
    ∀ (r : LRow C) (i : Nat), Keeps r (r.importSliceFrom ops i xs).1 := by
  induction xs with
  | nil => intro r i; exact keeps_refl r
  | cons x xs ih =>
    intro r i
    have h1 := keeps_importAtKey ops r (r.keyAt i) x
    unfold LRow.importSliceFrom
    rcases hr : LRow.importAtKey ops r (r.keyAt i) x with ⟨r', e⟩
    rw [hr] at h1
    cases e with
    | some e => exact h1
    | none => exact keeps_trans h1 (ih r' (i + 1))

theorem keeps_importMap (ops : CellOps C V E) (kvs : List (Bytes × V)) :
    ∀ (r : LRow C), Keeps r (r.importMap ops kvs).1 := by
  induction kvs with
  | nil => intro r; exact keeps_refl r
  | cons kv kvs ih =>
    intro r
    obtain ⟨k, x⟩ := kv
    have h1 := keeps_importAtKey ops r k x
    unfold LRow.importMap
    rcases hr : LRow.importAtKey ops r k x with ⟨r', e⟩
    rw [hr] at h1
    cases e with
    | some e => exact h1
    | none => exact keeps_trans h1 (ih r')

theorem keeps_parseMembers (ops : CellOps C V E) (ms : List (Bytes × V)) :
    ∀ (r : LRow C), Keeps r (r.parseMembers ops ms).1 := by
  induction ms with
  | nil => intro r; exact keeps_refl r
  | cons kv ms ih =>
    intro r
    obtain ⟨k, x⟩ := kv
    have h1 := keeps_parseMember ops r k x
    unfold LRow.parseMembers
    rcases hr : LRow.parseMember ops r k x with ⟨r', e⟩
    rw [hr] at h1
    cases e with
    | some e => exact h1
    | none => exact keeps_trans h1 (ih r')

theorem keeps_step (ops : CellOps C V E) (r : LRow C) (op : RowOp C V) :
    Keeps r (r.step ops op).1 := by
  cases op with
  | set k x => exact keeps_set ops r k x
  | setAt i x => exact keeps_set ops r _ x
  | setValue k c => exact keeps_mset r _ k c
  | setValueAt i c => exact keeps_mset r _ _ c
  | importAtKey k x => exact keeps_importAtKey ops r k x
  | importAtIndex i x => exact keeps_importAtKey ops r _ x
  | importSlice xs => exact keeps_importSliceFrom ops xs r 0
  | importMap kvs => exact keeps_importMap ops kvs r
  | unmarshal ms => exact keeps_parseMembers ops ms r

theorem keeps_run (ops : CellOps C V E) (hist : List (RowOp C V)) (r : LRow C) :
    Keeps r (r.run ops hist) := by
  induction hist generalizing r with
  | nil => exact keeps_refl r
  | cons op rest ih => exact keeps_trans (keeps_step ops r op) (ih _)
end Jl.RowKeeps
