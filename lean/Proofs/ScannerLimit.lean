/-
  Proofs.ScannerLimit — a line over the importer's limit ends the input (C08 "oversize lines are
  reported, never silently swallowed", C16 "… yields no row").

  1  `scan_with_err`, `too_long_is_sticky`, `dead_forever`: what `scan` does once the scanner carries
     an error (`tooLong` or any other): the error stays, the reader is never asked again, and the
     only tokens still delivered are lines cut out of the bytes ALREADY in the buffer.
     (Not "no token at all": see the note at `too_long_is_sticky` and `sticky_counterexample`.)
  2  `overlong_line_yields_too_long`: for a fault-free reader whose bytes are
     `joinLF lines ++ long ++ rest` (lines that fit, then at least `m` bytes without LF), scanning
     from `init` yields the tokens of `lines`, then a scan that returns no token with
     `errOf = some .tooLong` — whatever the chunking; `overlong_aftermath`: what later scans do.
  3  `stream_overlong` (+ `_tolerant`, `_default_all_written`, `_default_earlier_failure`).
  4  Concrete instances at sizes 4 / 8.
-/
import Model.Scanner
import Model.Stream
import Proofs.Scanner
import Proofs.Stream

namespace Jl.ScannerLimit
open Jl Jl.Value Jl.Template Jl.Scanner Jl.Stream

/-! ### 1. A scanner that carries an error -/

theorem scan_zero (i m : Nat) (s : St) : scan i m 0 s = (none, s) := by
  unfold scan; rfl

theorem hasErr_of_errOf {s : St} {e : ScanErr} (h : errOf s = some e) : hasErr s = true := by
  have h' : s.err = some e := h
  simp [hasErr, h']

/-- One `scan` (any fuel) on a state that carries an error `e`: the error is kept, the reader's
    script is not touched, nothing but the buffer changes; with an empty buffer no token comes;
    a token, when one comes, is the next line of the BUFFER (LF-terminated, or all of it). -/
theorem scan_with_err (i m fuel : Nat) (s : St) (e : ScanErr) (h : errOf s = some e) :
    errOf (scan i m fuel s).2 = some e ∧
    (scan i m fuel s).2.script = s.script ∧
    (scan i m fuel s).2.done = s.done ∧
    (s.buf = [] → (scan i m fuel s).1 = none ∧ (scan i m fuel s).2.buf = []) ∧
    ((scan i m fuel s).1 = none → (scan i m fuel s).2.buf = s.buf) ∧
    (∀ tok, (scan i m fuel s).1 = some tok → ∃ raw, tok = dropCR raw ∧ (0x0A : UInt8) ∉ raw ∧
      (s.buf = raw ++ 0x0A :: (scan i m fuel s).2.buf ∨
       (raw ≠ [] ∧ s.buf = raw ∧ (scan i m fuel s).2.buf = []))) := by
  have hE := hasErr_of_errOf h
  cases fuel with
  | zero =>
    rw [scan_zero]
    exact ⟨h, rfl, rfl, fun hb => ⟨rfl, hb⟩, fun _ => rfl, fun tok ht => by cases ht⟩
  | succ f =>
    rw [scan_succ]
    cases hs : step m s with
    | cont s1 => have := (step_cont hs).2.1; rw [hE] at this; cases this
    | ret r =>
      simp only [Step.run]
      rcases step_ret hs with ⟨-, rfl⟩ | ⟨-, l, rest, hsp, rfl⟩ | ⟨-, -, -, hb, rfl⟩ | ⟨-, hsp, -, hb, rfl⟩ |
        ⟨-, -, he', -, -, -, rfl⟩
      · exact ⟨h, rfl, rfl, fun hb => ⟨rfl, hb⟩, fun _ => rfl, fun tok ht => by cases ht⟩
      · obtain ⟨h1, h2⟩ := splitLF_some.mp hsp
        refine ⟨h, rfl, rfl, fun hb => ?_, fun hn => (by cases hn), fun tok ht => ?_⟩
        · rw [hb] at h1; simp at h1
        · cases ht; exact ⟨l, rfl, h2, Or.inl h1⟩
      · exact ⟨h, rfl, rfl, fun _ => ⟨rfl, rfl⟩, fun _ => hb.symm, fun tok ht => by cases ht⟩
      · refine ⟨h, rfl, rfl, fun hb' => absurd hb' hb, fun hn => (by cases hn), fun tok ht => ?_⟩
        cases ht; exact ⟨s.buf, rfl, splitLF_none.mp hsp, Or.inr ⟨hb, rfl, rfl⟩⟩
      · rw [hE] at he'; cases he'

/-- Calling `scan` again and again, with any fuel each time: the tokens (or `none`) returned, in
    order, and the final state. -/
def scans (i m : Nat) : List Nat → St → List (Option Bytes) × St
  | [], s => ([], s)
  | f :: fs, s => ((scan i m f s).1 :: (scans i m fs (scan i m f s).2).1, (scans i m fs (scan i m f s).2).2)

/-- The tokens among the answers. -/
def tokensOf (l : List (Option Bytes)) : List Bytes := l.filterMap id

/-- A scanner with an error and an empty buffer is dead: every later `scan` returns no token, the
    error stays, the reader is never asked again. -/
theorem dead_forever (i m : Nat) (e : ScanErr) : ∀ (fuels : List Nat) (s : St),
    errOf s = some e → s.buf = [] →
    (scans i m fuels s).1 = List.replicate fuels.length none ∧
    errOf (scans i m fuels s).2 = some e ∧ (scans i m fuels s).2.script = s.script ∧
    (scans i m fuels s).2.buf = [] := by
  intro fuels
  induction fuels with
  | nil => intro s h hb; exact ⟨rfl, h, rfl, hb⟩
  | cons f fs ih =>
    intro s h hb
    obtain ⟨h1, h2, -, h4, -, -⟩ := scan_with_err i m f s e h
    obtain ⟨h5, h6⟩ := h4 hb
    obtain ⟨g1, g2, g3, g4⟩ := ih (scan i m f s).2 h1 h6
    simp only [scans, List.length_cons, List.replicate_succ]
    exact ⟨by rw [h5, g1], g2, g3.trans h2, g4⟩

/-- Target 1 (true variant).  Once `errOf s = some e` (`tooLong` or any other error), whatever the
    number of later `scan` calls and their fuel: the error is kept, the reader's script is never
    touched again, and the tokens delivered are an initial part of the lines of the bytes that were
    ALREADY in the buffer (`specLines s.buf`) — nothing else is ever delivered.

    The statement first asked for ("every later scan returns no token") is FALSE for this port of
    `bufio.Scanner.Scan` (and for bufio.Scanner itself: `Scan` calls the split function with
    `atEOF = true` as soon as `s.err != nil`, and `ScanLines` then returns the buffered bytes as a
    final token): see `sticky_counterexample`.  It is true when the buffer is empty
    (`dead_forever`), and the stream never looks at such tokens (`Stream.loop` stops at the first
    `none`, and for a token that comes with `errOf ≠ none` reports the error, not a row). -/
theorem too_long_is_sticky (i m : Nat) (e : ScanErr) : ∀ (fuels : List Nat) (s : St),
    errOf s = some e →
    errOf (scans i m fuels s).2 = some e ∧ (scans i m fuels s).2.script = s.script ∧
    tokensOf (scans i m fuels s).1 <+: specLines s.buf := by
  intro fuels
  induction fuels with
  | nil => intro s h; exact ⟨h, rfl, List.nil_prefix⟩
  | cons f fs ih =>
    intro s h
    obtain ⟨h1, h2, -, -, h5, h6⟩ := scan_with_err i m f s e h
    obtain ⟨g1, g2, g3⟩ := ih (scan i m f s).2 h1
    refine ⟨g1, g2.trans h2, ?_⟩
    simp only [scans, tokensOf]
    cases ht : (scan i m f s).1 with
    | none =>
      simp only [List.filterMap_cons, id]
      rw [← h5 ht]; exact g3
    | some tok =>
      simp only [List.filterMap_cons, id]
      obtain ⟨raw, rfl, hraw, hb | ⟨hne, hb, hb'⟩⟩ := h6 tok ht
      · rw [hb, specLines_line raw _ hraw]
        exact List.prefix_cons_inj _ |>.mpr g3
      · rw [hb, specLines_last raw hne hraw]
        have := (dead_forever i m e fs (scan i m f s).2 h1 hb').1
        have hnil : List.filterMap id (scans i m fs (scan i m f s).2).1 = [] := by
          rw [this]; simp
        rw [hnil]; exact List.prefix_refl _

/-- The same for `tooLong`, as asked. -/
theorem too_long_is_sticky' (i m : Nat) (fuels : List Nat) (s : St) (h : errOf s = some .tooLong) :
    errOf (scans i m fuels s).2 = some .tooLong ∧ (scans i m fuels s).2.script = s.script ∧
    tokensOf (scans i m fuels s).1 <+: specLines s.buf :=
  too_long_is_sticky i m .tooLong fuels s h

/-! ### 2. A line at or over the limit -/

/-- The bytes of complete lines: each raw line followed by LF. -/
def joinLF : List Bytes → Bytes
  | [] => []
  | l :: ls => l ++ 0x0A :: joinLF ls

/-- Each raw line is LF-free and, with its LF, fits the limit. -/
def FitLines (m : Nat) (lines : List Bytes) : Prop := ∀ l ∈ lines, (0x0A : UInt8) ∉ l ∧ l.length < m

/-- `tail` starts with at least `m` bytes without LF: a line of `m` bytes or more. -/
structure Over (m : Nat) (tail : Bytes) : Prop where
  len : m ≤ tail.length
  nolf : (0x0A : UInt8) ∉ tail.take m

theorem joinLF_length_ge : ∀ (lines : List Bytes), lines.length ≤ (joinLF lines).length
  | [] => Nat.le_refl _
  | l :: ls => by
    have := joinLF_length_ge ls
    simp only [joinLF, List.length_cons, List.length_append]; omega

theorem specLines_joinLF : ∀ (lines : List Bytes), (∀ l ∈ lines, (0x0A : UInt8) ∉ l) →
    specLines (joinLF lines) = lines.map dropCR
  | [], _ => specLines_nil
  | l :: ls, h => by
    simp only [joinLF, List.map_cons]
    rw [specLines_line l _ (h l (by simp)), specLines_joinLF ls (fun x hx => h x (by simp [hx]))]

/-- An LF-free prefix of `raw ++ LF :: y` is no longer than `raw`. -/
theorem noLF_prefix_len {buf x raw y : Bytes} (h : buf ++ x = raw ++ 0x0A :: y)
    (hn : (0x0A : UInt8) ∉ buf) : buf.length ≤ raw.length := by
  rcases List.append_eq_append_iff.mp h with ⟨a, ha, -⟩ | ⟨c, hc, hc'⟩
  · rw [ha]; simp
  · cases c with
    | nil => rw [hc]; simp
    | cons b c' =>
      simp only [List.cons_append, List.cons.injEq] at hc'
      exact absurd (by rw [hc, ← hc'.1]; simp) hn

/-- The first LF of a byte string is where it is. -/
theorem firstLF_unique {l r raw y : Bytes} (h : l ++ 0x0A :: r = raw ++ 0x0A :: y)
    (hl : (0x0A : UInt8) ∉ l) (hr : (0x0A : UInt8) ∉ raw) : l = raw ∧ r = y := by
  have h1 : splitLF (l ++ 0x0A :: r) = some (l, r) := splitLF_some.mpr ⟨rfl, hl⟩
  have h2 : splitLF (l ++ 0x0A :: r) = some (raw, y) := splitLF_some.mpr ⟨h, hr⟩
  rw [h1] at h2
  simp only [Option.some.injEq, Prod.mk.injEq] at h2
  exact h2

/-- A prefix of `tail` of at most `m` bytes has no LF. -/
theorem Over.prefix_noLF {m : Nat} {tail buf x : Bytes} (ho : Over m tail) (h : buf ++ x = tail)
    (hlen : buf.length ≤ m) : (0x0A : UInt8) ∉ buf := by
  have hp : buf <+: tail.take m := List.prefix_take_iff.mpr ⟨⟨x, h⟩, hlen⟩
  intro hm
  exact ho.nolf (hp.subset hm)

/-- If the read loop reports EOF, it has added nothing to the buffer and the reader had nothing. -/
theorem readLoop_eof_buf : ∀ (n : Nat) (s : St), s.eof = false → (readLoop s n).eof = true →
    (readLoop s n).buf = s.buf ∧ scriptBytes s.script = [] := by
  intro n
  induction n with
  | zero => intro s h h'; simp [readLoop, h] at h'
  | succ n ih =>
    intro s h h'
    rcases readLoop_succ_cases s n with ⟨h1, hr⟩ | ⟨bs, rest, hro, hr⟩ | ⟨bs, rest, hro, hb, hr⟩ | ⟨rest, hro, hr⟩
    · rw [hr]; exact ⟨rfl, by rw [h1]; rfl⟩
    · rw [hr] at h'; simp [h] at h'
    · rw [hr] at h'; simp [h] at h'
    · rw [hr] at h' ⊢
      obtain ⟨g1, g2⟩ := ih { s with script := rest } h h'
      obtain ⟨-, -, g3, -⟩ := readOnce_got hro
      exact ⟨g1, by rw [g3 rfl]; exact g2⟩

/-- The invariant of the states before the over-long line is met: no error, not at EOF,
    bookkeeping consistent, capacity within the limit, a calm fault-free script, and the pending
    bytes are the remaining complete `lines` followed by `tail`. -/
structure Inv (m : Nat) (tail : Bytes) (s : St) (lines : List Bytes) : Prop where
  err : s.err = none
  eof : s.eof = false
  done : s.done = false
  inv : s.start + s.buf.length ≤ s.cap
  capm : s.cap ≤ m
  calm : Calm 100 s.script
  pend : pending s = joinLF lines ++ tail

theorem pending_len_ge {m : Nat} {tail : Bytes} {s : St} {lines : List Bytes} (ho : Over m tail)
    (hp : pending s = joinLF lines ++ tail) : m ≤ (pending s).length := by
  rw [hp, List.length_append]; have := ho.len; omega

/-- The read loop keeps the invariant when there is room in the buffer. -/
theorem readLoop_inv {m : Nat} {tail : Bytes} {s0 : St} {lines : List Bytes} (ho : Over m tail)
    (herr : s0.err = none) (heof : s0.eof = false) (hdone : s0.done = false)
    (hsp : s0.start + s0.buf.length < s0.cap) (hcap : s0.cap ≤ m) (hcalm : Calm 100 s0.script)
    (hp : pending s0 = joinLF lines ++ tail) : Inv m tail (readLoop s0 101) lines := by
  have rf := readLoop_facts s0 101
  have hc := readLoop_calm 100 s0 herr hcalm hsp
  refine ⟨hc.1, ?_, rf.done.trans hdone, rf.inv (Nat.le_of_lt hsp), by rw [rf.cap]; exact hcap, hc.2,
    by rw [rf.pending hc.1]; exact hp⟩
  cases he : (readLoop s0 101).eof with
  | false => rfl
  | true =>
    exfalso
    obtain ⟨-, g2⟩ := readLoop_eof_buf 101 s0 heof he
    have hlen := pending_len_ge ho hp
    simp only [pending, g2, List.append_nil] at hlen
    omega

/-- What one `scan` returns from a state satisfying the invariant (any fuel). -/
structure Post (m : Nat) (tail : Bytes) (lines : List Bytes) (r : Option Bytes × St) : Prop where
  none : r.1 = none → (r.2.err = none ∧ r.2.eof = false) ∨
    (lines = [] ∧ r.2.err = some .tooLong ∧ r.2.buf = tail.take m ∧
      scriptBytes r.2.script = tail.drop m ∧ r.2.done = false)
  some : ∀ tok, r.1 = some tok → ∃ l ls, lines = l :: ls ∧ tok = dropCR l ∧ Inv m tail r.2 ls

theorem scan_post (i m : Nat) (tail : Bytes) (ho : Over m tail) (fuel : Nat) (s : St) :
    ∀ lines, FitLines m lines → Inv m tail s lines → Post m tail lines (scan i m fuel s) := by
  apply scan_induct i m (fun s r => ∀ lines, FitLines m lines → Inv m tail s lines → Post m tail lines r)
  · intro s lines _ hI
    exact ⟨fun _ => Or.inl ⟨hI.err, hI.eof⟩, fun tok ht => by cases ht⟩
  · intro s r h lines hfit hI
    have hnoerr : hasErr s = false := by simp [hasErr, hI.err, hI.eof]
    have hpend := hI.pend
    rcases step_ret h with ⟨hd, -⟩ | ⟨-, l, rest, hs, rfl⟩ | ⟨-, -, he, -, -⟩ | ⟨-, -, he, -, -⟩ |
      ⟨-, hs, -, h0, hb, hm, rfl⟩
    · rw [hI.done] at hd; cases hd
    · obtain ⟨h1, h2⟩ := splitLF_some.mp hs
      refine ⟨fun hn => (by cases hn), fun tok ht => ?_⟩
      cases ht
      have hbl : s.buf.length ≤ m := by have := hI.inv; have := hI.capm; omega
      cases lines with
      | nil =>
        exfalso
        simp only [pending, joinLF, List.nil_append] at hpend
        have := ho.prefix_noLF hpend hbl
        rw [h1] at this; simp at this
      | cons l' ls =>
        simp only [pending, joinLF, h1, List.append_assoc, List.cons_append] at hpend
        obtain ⟨e1, e2⟩ := firstLF_unique hpend h2 (hfit l' (by simp)).1
        refine ⟨l', ls, rfl, by rw [e1], hI.err, hI.eof, hI.done, ?_, hI.capm, hI.calm, e2⟩
        have := hI.inv
        simp only [h1, List.length_append, List.length_cons] at this ⊢; omega
    · rw [hnoerr] at he; cases he
    · rw [hnoerr] at he; cases he
    · obtain ⟨f1, f2, f3, f4, f5, f6, f7⟩ := shift_fields s
      refine ⟨fun _ => Or.inr ?_, fun tok ht => by cases ht⟩
      have hcap := hI.capm
      cases lines with
      | nil =>
        simp only [pending, joinLF, List.nil_append] at hpend
        have hlen : s.buf.length = m := by omega
        refine ⟨rfl, rfl, ?_, ?_, f6.trans hI.done⟩
        · show (shift s).buf = _
          rw [f1, ← hpend, List.take_left' hlen]
        · show scriptBytes (shift s).script = _
          rw [f5, ← hpend, List.drop_left' hlen]
      | cons l' ls =>
        exfalso
        simp only [pending, joinLF, List.append_assoc, List.cons_append] at hpend
        have := noLF_prefix_len hpend (splitLF_none.mp hs)
        have := (hfit l' (by simp)).2
        omega
  · intro s s1 f h ih lines hfit hI
    apply ih lines hfit
    obtain ⟨f1, f2, f3, f4, f5, f6, f7⟩ := shift_fields s
    obtain ⟨-, -, -, hc⟩ := step_cont h
    have hinv := hI.inv
    rcases hc with ⟨h0, hfull, hm, rfl⟩ | ⟨hnf, rfl⟩
    · have hg := grow_cap (s := shift s) (by rw [f2]; exact hm)
      rw [f2] at hg
      refine readLoop_inv ho (f3.trans hI.err) (f4.trans hI.eof) (f6.trans hI.done) ?_ hg.2 ?_ ?_
      · show 0 + (shift s).buf.length < (grow m (shift s)).cap
        rw [f1]; omega
      · show Calm 100 (shift s).script
        rw [f5]; exact hI.calm
      · rw [← hI.pend]; simp [pending, grow, f1, f5]
    · refine readLoop_inv ho (f3.trans hI.err) (f4.trans hI.eof) (f6.trans hI.done) ?_
        (by rw [f2]; exact hI.capm) (by rw [f5]; exact hI.calm) ?_
      · rw [f1, f2]
        rcases f7 with f7 | f7 <;> rw [f7] at hnf ⊢ <;> omega
      · rw [← hI.pend]; simp [pending, f1, f5]

/-- One `scan` with enough fuel, before the over-long line is reached: the next line. -/
theorem scan_line (i m : Nat) (tail : Bytes) (ho : Over m tail) (fuel : Nat) (s : St) (l : Bytes)
    (ls : List Bytes) (hfit : FitLines m (l :: ls)) (hI : Inv m tail s (l :: ls))
    (hpow : m ≤ s.cap * 2 ^ 200) (hf : 2 * s.script.length + 204 ≤ fuel) :
    (scan i m fuel s).1 = some (dropCR l) ∧ Inv m tail (scan i m fuel s).2 ls := by
  have hP := scan_post i m tail ho fuel s (l :: ls) hfit hI
  cases ht : (scan i m fuel s).1 with
  | none =>
    exfalso
    rcases hP.none ht with ⟨h1, h2⟩ | ⟨h1, -⟩
    · rcases scan_none_reason i m fuel s 200 hI.done hpow (by omega) ht with h | h
      · rw [h1] at h; cases h
      · rw [h2] at h; cases h
    · cases h1
  | some tok =>
    obtain ⟨l', ls', e, rfl, hI'⟩ := hP.some tok ht
    cases e
    exact ⟨rfl, hI'⟩

/-- One `scan` with enough fuel at the over-long line: no token, `tooLong`; the buffer holds the
    first `m` bytes of the line, the reader the rest. -/
theorem scan_over (i m : Nat) (tail : Bytes) (ho : Over m tail) (fuel : Nat) (s : St)
    (hI : Inv m tail s []) (hpow : m ≤ s.cap * 2 ^ 200) (hf : 2 * s.script.length + 204 ≤ fuel) :
    (scan i m fuel s).1 = none ∧ errOf (scan i m fuel s).2 = some .tooLong ∧
    (scan i m fuel s).2.buf = tail.take m ∧ scriptBytes (scan i m fuel s).2.script = tail.drop m ∧
    (scan i m fuel s).2.done = false := by
  have hP := scan_post i m tail ho fuel s [] (fun _ h => by cases h) hI
  cases ht : (scan i m fuel s).1 with
  | some tok =>
    obtain ⟨l', ls', e, -⟩ := hP.some tok ht
    cases e
  | none =>
    rcases hP.none ht with ⟨h1, h2⟩ | ⟨-, h⟩
    · exfalso
      rcases scan_none_reason i m fuel s 200 hI.done hpow (by omega) ht with h | h
      · rw [h1] at h; cases h
      · rw [h2] at h; cases h
    · exact ⟨rfl, h⟩

/-- Iterating `scan` (with the fuel the streaming loop uses) yields exactly `toks`, each without
    error, and then a scan that returns no token and leaves the scanner in `sEnd` with
    `errOf sEnd = some .tooLong`. -/
inductive ScansTooLong (i m : Nat) : St → List Bytes → St → Prop
  | stop {s sEnd : St} : scan i m (scanFuel s) s = (none, sEnd) → errOf sEnd = some .tooLong →
      ScansTooLong i m s [] sEnd
  | cons {s s' sEnd : St} {l : Bytes} {ls : List Bytes} : scan i m (scanFuel s) s = (some l, s') →
      s'.err = none → ScansTooLong i m s' ls sEnd → ScansTooLong i m s (l :: ls) sEnd

theorem scansTooLong_of_inv (i m : Nat) (tail : Bytes) (ho : Over m tail) :
    ∀ (lines : List Bytes) (s : St), FitLines m lines → Inv m tail s lines → m ≤ s.cap * 2 ^ 200 →
    ∃ sEnd, ScansTooLong i m s (lines.map dropCR) sEnd ∧ sEnd.buf = tail.take m ∧
      scriptBytes sEnd.script = tail.drop m ∧ sEnd.done = false := by
  intro lines
  induction lines with
  | nil =>
    intro s _ hI hpow
    obtain ⟨h1, h2, h3, h4, h5⟩ := scan_over i m tail ho (scanFuel s) s hI hpow (loop_fuel_ok s)
    exact ⟨(scan i m (scanFuel s) s).2, .stop (Prod.ext h1 rfl) h2, h3, h4, h5⟩
  | cons l ls ih =>
    intro s hfit hI hpow
    obtain ⟨h1, h2⟩ := scan_line i m tail ho (scanFuel s) s l ls hfit hI hpow (loop_fuel_ok s)
    have sf := scan_facts i m (scanFuel s) s
    have hpow' : m ≤ (scan i m (scanFuel s) s).2.cap * 2 ^ 200 :=
      Nat.le_trans hpow (Nat.mul_le_mul_right _ sf.cap)
    obtain ⟨sEnd, g1, g2⟩ := ih (scan i m (scanFuel s) s).2 (fun x hx => hfit x (by simp [hx])) h2 hpow'
    exact ⟨sEnd, .cons (Prod.ext h1 rfl) h2.err g1, g2⟩

theorem inv_init (i m : Nat) (reader : List ReadEv) (lines : List Bytes) (tail : Bytes)
    (hcalm : Calm 100 reader) (hdata : allData reader = joinLF lines ++ tail) (hle : i ≤ m) :
    Inv m tail (init i reader) lines :=
  ⟨rfl, rfl, rfl, by simp [init], hle, hcalm, by
    simp [pending, init, scriptBytes_of_calm 100 reader hcalm, hdata]⟩

/-- Target 2.  A fault-free reader script (only `data`/`empty` events, at most 100 consecutive
    empty reads — any chunking) whose concatenated bytes are `joinLF lines ++ long ++ rest`, where
    `lines` are complete lines that fit (`FitLines`: LF-free, shorter than `m`) and `long` has no LF
    in its first `m` bytes (`m ≤ long.length`: the line is at least `m` bytes long).  Scanning from
    `init`, with the fuel of the streaming loop, yields exactly the tokens of `lines`, each without
    error, then a scan that returns NO token and leaves `errOf = some .tooLong`.  In that final state
    the buffer holds the first `m` bytes of `long`; the remainder of `long` and all of `rest` are
    still with the reader, and stay there for ever (`overlong_aftermath`). -/
theorem overlong_line_yields_too_long (i m : Nat) (reader : List ReadEv) (lines : List Bytes)
    (long rest : Bytes) (hcalm : Calm 100 reader)
    (hdata : allData reader = joinLF lines ++ long ++ rest)
    (hfit : FitLines m lines) (hlong : m ≤ long.length) (hnolf : (0x0A : UInt8) ∉ long.take m)
    (hle : i ≤ m) (hpow : m ≤ i * 2 ^ 200) :
    ∃ sEnd, ScansTooLong i m (init i reader) (lines.map dropCR) sEnd ∧
      sEnd.buf = long.take m ∧ scriptBytes sEnd.script = long.drop m ++ rest ∧ sEnd.done = false := by
  have ho : Over m (long ++ rest) := by
    refine ⟨by simp; omega, ?_⟩
    rw [List.take_append_of_le_length hlong]; exact hnolf
  have hI := inv_init i m reader lines (long ++ rest) hcalm (by rw [hdata, List.append_assoc]) hle
  obtain ⟨sEnd, h1, h2, h3, h4⟩ := scansTooLong_of_inv i m (long ++ rest) ho lines (init i reader) hfit hI hpow
  refine ⟨sEnd, h1, ?_, ?_, h4⟩
  · rw [h2, List.take_append_of_le_length hlong]
  · rw [h3, List.drop_append_of_le_length hlong]

theorem ScansTooLong.err {i m : Nat} {s sEnd : St} {toks : List Bytes} (h : ScansTooLong i m s toks sEnd) :
    errOf sEnd = some .tooLong := by
  induction h with
  | stop _ he => exact he
  | cons _ _ _ ih => exact ih

/-- The scan that follows an error, on a non-empty LF-free buffer, DELIVERS that buffer as a token
    (bufio.Scanner gives the split function a last chance with `atEOF = true`): the reason why
    "no token after `tooLong`" is false at the level of `scan`. -/
theorem scan_after_error_delivers_buffer (i m f : Nat) (s : St) (e : ScanErr) (h : errOf s = some e)
    (hd : s.done = false) (hb : s.buf ≠ []) (hn : (0x0A : UInt8) ∉ s.buf) :
    scan i m (f + 1) s = (some (dropCR s.buf), { s with buf := [], start := s.start + s.buf.length }) := by
  rw [scan_succ]
  simp [step, hd, splitLF_none.mpr hn, hasErr_of_errOf h, hb, Step.run]

/-- After the over-long line (`sEnd` as in `overlong_line_yields_too_long`), whatever the number of
    further `scan` calls and their fuel: the error stays `tooLong`; the reader — which holds the
    remainder of `long` and all of `rest` — is never asked again, so no token is ever made of them;
    and the only token that can still come is ONE truncated fragment: the first `m` bytes of `long`
    that were in the buffer (it comes with `errOf = some .tooLong`, so `GetRow` reports the error and
    makes no row of it; the streaming loop has stopped before, at the `none`). -/
theorem overlong_aftermath (i m : Nat) (sEnd : St) (long : Bytes) (fuels : List Nat)
    (h : errOf sEnd = some .tooLong) (hb : sEnd.buf = long.take m) (hn : (0x0A : UInt8) ∉ long.take m) :
    errOf (scans i m fuels sEnd).2 = some .tooLong ∧ (scans i m fuels sEnd).2.script = sEnd.script ∧
    (tokensOf (scans i m fuels sEnd).1 = [] ∨ tokensOf (scans i m fuels sEnd).1 = [dropCR (long.take m)]) := by
  obtain ⟨h1, h2, h3⟩ := too_long_is_sticky i m .tooLong fuels sEnd h
  refine ⟨h1, h2, ?_⟩
  rw [hb] at h3
  by_cases hne : long.take m = []
  · left
    rw [hne, specLines_nil] at h3
    exact List.prefix_nil.mp h3
  · rw [specLines_last _ hne hn] at h3
    obtain ⟨z, hz⟩ := h3
    cases ht : tokensOf (scans i m fuels sEnd).1 with
    | nil => left; rfl
    | cons t ts =>
      right
      rw [ht] at hz
      simp only [List.cons_append, List.cons.injEq, List.append_eq_nil_iff] at hz
      rw [hz.1, hz.2.1]

/-- `pre` is made of complete lines: empty, or ending in LF. -/
def Complete (pre : Bytes) : Prop := pre = [] ∨ ∃ p, pre = p ++ [0x0A]

/-- Complete lines that fit (`LinesFit`, as in `scanner_yields_the_lines`) are a `joinLF` of raw
    lines that fit (`FitLines`). -/
theorem lines_of_complete (m : Nat) : ∀ (n : Nat) (pre : Bytes), pre.length ≤ n → Complete pre →
    LinesFit m pre → ∃ lines, pre = joinLF lines ∧ FitLines m lines := by
  intro n
  induction n with
  | zero =>
    intro pre hlen _ _
    have : pre = [] := List.eq_nil_of_length_eq_zero (by omega)
    exact ⟨[], this, fun _ h => by cases h⟩
  | succ n ih =>
    intro pre hlen hc hfit
    rcases hc with rfl | ⟨p, hp⟩
    · exact ⟨[], rfl, fun _ h => by cases h⟩
    · cases hs : splitLF pre with
      | none =>
        exfalso
        have := splitLF_none.mp hs
        rw [hp] at this; simp at this
      | some q =>
        obtain ⟨l, r⟩ := q
        obtain ⟨h1, h2⟩ := splitLF_some.mp hs
        have hcr : Complete r := by
          rcases List.eq_nil_or_concat r with hnil | ⟨L, b, hL⟩
          · exact Or.inl hnil
          · right
            rw [List.concat_eq_append] at hL
            refine ⟨L, ?_⟩
            have : (l ++ 0x0A :: L) ++ [b] = p ++ [0x0A] := by
              rw [← hp, h1, hL]; simp
            have := (List.append_inj' this rfl).2
            simp only [List.cons.injEq, and_true] at this
            rw [hL, this]
        have hfr : LinesFit m r := hfit.suffix ⟨l ++ [0x0A], by rw [h1]; simp⟩
        have hlr : r.length ≤ n := by rw [h1] at hlen; simp at hlen; omega
        obtain ⟨lines, e1, e2⟩ := ih r hlr hcr hfr
        refine ⟨l :: lines, by rw [h1, e1]; rfl, ?_⟩
        intro x hx
        rcases List.mem_cons.mp hx with rfl | hx
        · exact ⟨h2, hfit x ⟨[], 0x0A :: r, by rw [h1]; simp⟩ h2⟩
        · exact e2 x hx

/-- Target 2 in the vocabulary of `scanner_yields_the_lines`: the bytes are `pre ++ long ++ rest`
    with `pre` complete lines that fit (`Complete`, `LinesFit`); the tokens are `specLines pre`. -/
theorem overlong_line_yields_too_long_bytes (i m : Nat) (reader : List ReadEv)
    (pre long rest : Bytes) (hcalm : Calm 100 reader)
    (hdata : allData reader = pre ++ long ++ rest) (hpre : Complete pre)
    (hfit : LinesFit m pre) (hlong : m ≤ long.length) (hnolf : (0x0A : UInt8) ∉ long.take m)
    (hle : i ≤ m) (hpow : m ≤ i * 2 ^ 200) :
    ∃ sEnd, ScansTooLong i m (init i reader) (specLines pre) sEnd ∧
      sEnd.buf = long.take m ∧ scriptBytes sEnd.script = long.drop m ++ rest ∧ sEnd.done = false := by
  obtain ⟨lines, rfl, hl⟩ := lines_of_complete m _ pre (Nat.le_refl _) hpre hfit
  rw [specLines_joinLF lines (fun l h => (hl l h).1)]
  exact overlong_line_yields_too_long i m reader lines long rest hcalm hdata hl hlong hnolf hle hpow

/-! ### 3. The stream -/

/-- `foldOutcomes` with something done at the end (when the processor has not stopped the stream). -/
def foldThen (proc : Proc) (k : Obs → Obs) : List LineOutcome → Obs → Obs
  | [], obs => k obs
  | .importError e :: rest, obs =>
    let r := proc.result obs.calls.length (some e)
    let obs := { obs with calls := obs.calls ++ [(false, some e)] }
    match r with
    | some re => { obs with ret := some re }
    | none => foldThen proc k rest obs
  | .written b :: rest, obs =>
    let r := proc.result obs.calls.length none
    let obs := { obs with calls := obs.calls ++ [(true, none)] }
    match r with
    | some re => { obs with ret := some re }
    | none => foldThen proc k rest { obs with writes := obs.writes ++ [b] }
  | .exportError e :: rest, obs =>
    let r := proc.result obs.calls.length none
    let obs := { obs with calls := obs.calls ++ [(true, none)] }
    match r with
    | some re => { obs with ret := some re }
    | none =>
      let r2 := proc.result obs.calls.length (some e)
      let obs := { obs with calls := obs.calls ++ [(true, some e)] }
      match r2 with
      | some re => { obs with ret := some re }
      | none => foldThen proc k rest obs

/-- The processor call that reports the over-long line. -/
def tooLongCall (proc : Proc) (obs : Obs) : Obs :=
  { obs with ret := proc.result obs.calls.length (some .tooLong),
             calls := obs.calls ++ [(false, some .tooLong)] }

theorem loop_tooLong (cfg : Cfg) {st sEnd : St} {toks : List Bytes}
    (hsc : ScansTooLong cfg.initSize cfg.maxSize st toks sEnd) :
    ∀ (fuel : Nat) (ws : List WriteEv) (obs : Obs) (os : List LineOutcome),
      (∀ w ∈ ws, w = WriteEv.ok) → mapOutcomes cfg toks = .ok os → toks.length < fuel →
      ∃ st', loop cfg fuel st ws obs = .ok (foldThen cfg.proc (tooLongCall cfg.proc) os obs, st') := by
  induction hsc with
  | @stop s s' hs he =>
    intro fuel ws obs os _ hmap hfuel
    obtain ⟨f, rfl⟩ : ∃ f, fuel = f + 1 := ⟨fuel - 1, by simp at hfuel; omega⟩
    simp only [mapOutcomes, Outcome.ok.injEq] at hmap
    subst hmap
    refine ⟨s', ?_⟩
    rw [loop_succ]
    unfold lstep
    rw [hs]
    simp only [he, LStep.run, foldThen, tooLongCall, scanErrClass]
  | @cons s s' sEnd l ls hs he _ ih =>
    intro fuel ws obs os hws hmap hfuel
    obtain ⟨f, rfl⟩ : ∃ f, fuel = f + 1 := ⟨fuel - 1, by simp at hfuel; omega⟩
    have hf : ls.length < f := by simp at hfuel; omega
    rw [loop_succ]
    simp only [mapOutcomes] at hmap
    cases hlo : lineOutcome cfg l with
    | err e => rw [hlo] at hmap; cases hmap
    | panic e => rw [hlo] at hmap; cases hmap
    | ok o =>
      rw [hlo] at hmap
      simp only [] at hmap
      cases hm : mapOutcomes cfg ls with
      | err e => rw [hm] at hmap; cases hmap
      | panic e => rw [hm] at hmap; cases hmap
      | ok os' =>
        rw [hm] at hmap
        simp only [Outcome.ok.injEq] at hmap
        subst hmap
        unfold lineOutcome at hlo
        cases hg : getRow cfg.env cfg.ti l with
        | err e => rw [hg] at hlo; cases hlo
        | panic e => rw [hg] at hlo; cases hlo
        | ok p =>
          obtain ⟨row, oe⟩ := p
          rw [hg] at hlo
          cases oe with
          | some e =>
            simp only [Outcome.ok.injEq] at hlo
            subst hlo
            unfold lstep
            rw [hs]
            simp only [errOf, he, hg, foldThen]
            cases hr : cfg.proc.result obs.calls.length (some e) with
            | some re => exact ⟨s', rfl⟩
            | none => exact ih f ws _ os' hws hm hf
          | none =>
            simp only [] at hlo
            cases hx : exportLine cfg.env cfg.to (.val (.row (Members.ofList row))) with
            | err e => rw [hx] at hlo; cases hlo
            | panic e => rw [hx] at hlo; cases hlo
            | ok q =>
              obtain ⟨b, oe⟩ := q
              rw [hx] at hlo
              cases oe with
              | none =>
                simp only [Outcome.ok.injEq] at hlo
                subst hlo
                unfold lstep
                rw [hs]
                simp only [errOf, he, hg, foldThen]
                cases hr : cfg.proc.result obs.calls.length none with
                | some re => exact ⟨s', rfl⟩
                | none =>
                  simp only []
                  cases ws with
                  | nil =>
                    simp only [exportWith, hx, LStep.run]
                    exact ih f [] _ os' (by simp) hm hf
                  | cons w rest =>
                    have hw : w = WriteEv.ok := hws w (by simp)
                    subst hw
                    simp only [exportWith, hx, LStep.run]
                    exact ih f rest _ os' (fun w hw => hws w (by simp [hw])) hm hf
              | some e =>
                simp only [Outcome.ok.injEq] at hlo
                subst hlo
                unfold lstep
                rw [hs]
                simp only [errOf, he, hg, foldThen]
                cases hr : cfg.proc.result obs.calls.length none with
                | some re => exact ⟨s', rfl⟩
                | none =>
                  simp only [exportWith, hx, List.length_append, List.length_singleton]
                  cases hr2 : cfg.proc.result (obs.calls.length + 1) (some e) with
                  | some re => exact ⟨s', rfl⟩
                  | none => exact ih f ws _ os' hws hm hf

theorem foldThen_id (proc : Proc) : ∀ (os : List LineOutcome) (obs : Obs),
    foldThen proc id os obs = foldOutcomes proc os obs := by
  intro os
  induction os with
  | nil => intro obs; rfl
  | cons o rest ih =>
    intro obs
    cases o with
    | importError e =>
      simp only [foldThen, foldOutcomes]
      cases proc.result obs.calls.length (some e) <;> simp only [ih]
    | written b =>
      simp only [foldThen, foldOutcomes]
      cases proc.result obs.calls.length none <;> simp only [ih]
    | exportError e =>
      simp only [foldThen, foldOutcomes]
      cases proc.result obs.calls.length none with
      | some re => rfl
      | none =>
        simp only []
        cases proc.result (obs.calls ++ [(true, none)]).length (some e) <;> simp only [ih]

/-- The processor calls one line causes when the processor never stops the stream. -/
def callsOf : LineOutcome → List (Bool × Option ErrClass)
  | .importError e => [(false, some e)]
  | .written _ => [(true, none)]
  | .exportError e => [(true, none), (true, some e)]

/-- The bytes one line has written. -/
def writtenOf : LineOutcome → Option Bytes
  | .written b => some b
  | .importError _ => none
  | .exportError _ => none

theorem foldThen_tolerant (k : Obs → Obs) : ∀ (os : List LineOutcome) (obs : Obs),
    foldThen .tolerant k os obs =
      k ⟨obs.ret, obs.calls ++ os.flatMap callsOf, obs.writes ++ os.filterMap writtenOf⟩ := by
  intro os
  induction os with
  | nil => intro obs; simp [foldThen]
  | cons o rest ih =>
    intro obs
    cases o <;> simp [foldThen, Proc.result, ih, callsOf, writtenOf, List.filterMap_cons]

/-- Under the tolerant processor the lines before the over-long one have exactly the calls and
    writes they have on their own. -/
theorem foldOutcomes_tolerant (os : List LineOutcome) (obs : Obs) :
    foldOutcomes .tolerant os obs =
      ⟨obs.ret, obs.calls ++ os.flatMap callsOf, obs.writes ++ os.filterMap writtenOf⟩ := by
  rw [← foldThen_id, foldThen_tolerant]; rfl

theorem foldThen_default_written (k : Obs → Obs) : ∀ (bs : List Bytes) (obs : Obs),
    foldThen .default k (bs.map .written) obs =
      k ⟨obs.ret, obs.calls ++ List.replicate bs.length (true, none), obs.writes ++ bs⟩ := by
  intro bs
  induction bs with
  | nil => intro obs; simp [foldThen]
  | cons b rest ih =>
    intro obs
    simp [foldThen, Proc.result, ih, List.replicate_succ]

theorem foldThen_default_fail (k : Obs → Obs) : ∀ (os : List LineOutcome) (obs : Obs),
    (∃ o ∈ os, ∀ b, o ≠ .written b) →
    foldThen .default k os obs = foldOutcomes .default os obs ∧
      (foldOutcomes .default os obs).ret ≠ none := by
  intro os
  induction os with
  | nil => intro obs h; obtain ⟨o, ho, -⟩ := h; cases ho
  | cons o rest ih =>
    intro obs h
    cases o with
    | importError e => simp [foldThen, foldOutcomes, Proc.result]
    | exportError e => simp [foldThen, foldOutcomes, Proc.result]
    | written b =>
      have h' : ∃ o ∈ rest, ∀ b, o ≠ .written b := by
        obtain ⟨o, ho, hne⟩ := h
        rcases List.mem_cons.mp ho with rfl | ho
        · exact absurd rfl (hne b)
        · exact ⟨o, ho, hne⟩
      simp only [foldThen, foldOutcomes, Proc.result]
      exact ih _ h'

/-- Target 3, any processor.  With an input as in `overlong_line_yields_too_long` and a writer that
    never fails (`ws = []` included), `Stream()` is: the outcomes of the lines before the over-long
    one folded through the processor, and then — unless the processor has stopped the stream at an
    earlier line — ONE more processor call `(nil row, too-long)`, whose answer is the return value.
    Nothing of `long` or `rest` reaches the processor or the writer.
    (`hmap`: every line before has a proper outcome, as in `C07_stream_eq_spec`.) -/
theorem stream_overlong (cfg : Cfg) (reader : List ReadEv) (ws : List WriteEv) (lines : List Bytes)
    (long rest : Bytes) (hcalm : Calm 100 reader)
    (hdata : allData reader = joinLF lines ++ long ++ rest)
    (hfit : FitLines cfg.maxSize lines) (hlong : cfg.maxSize ≤ long.length)
    (hnolf : (0x0A : UInt8) ∉ long.take cfg.maxSize)
    (hle : cfg.initSize ≤ cfg.maxSize) (hpow : cfg.maxSize ≤ cfg.initSize * 2 ^ 200)
    (hws : ∀ w ∈ ws, w = WriteEv.ok) (os : List LineOutcome)
    (hmap : mapOutcomes cfg (lines.map dropCR) = .ok os) :
    stream cfg reader ws = .ok (foldThen cfg.proc (tooLongCall cfg.proc) os ⟨none, [], []⟩) := by
  obtain ⟨sEnd, hsc, -⟩ := overlong_line_yields_too_long cfg.initSize cfg.maxSize reader lines long rest
    hcalm hdata hfit hlong hnolf hle hpow
  have hfuel : (lines.map dropCR).length < scriptSize reader + 2 := by
    have h1 := joinLF_length_ge lines
    have h2 := scriptSize_ge reader
    rw [hdata] at h2
    simp only [List.length_append, List.length_map] at h2 ⊢
    omega
  obtain ⟨st', h⟩ := loop_tooLong cfg hsc (scriptSize reader + 2) ws ⟨none, [], []⟩ os hws hmap hfuel
  unfold stream streamSt
  rw [h]

/-- Target 3, tolerant processor: every line before the over-long one has its calls and its
    write, then one call carries the too-long error; `Stream()` returns nil. -/
theorem stream_overlong_tolerant (cfg : Cfg) (hp : cfg.proc = .tolerant) (reader : List ReadEv)
    (ws : List WriteEv) (lines : List Bytes)
    (long rest : Bytes) (hcalm : Calm 100 reader)
    (hdata : allData reader = joinLF lines ++ long ++ rest)
    (hfit : FitLines cfg.maxSize lines) (hlong : cfg.maxSize ≤ long.length)
    (hnolf : (0x0A : UInt8) ∉ long.take cfg.maxSize)
    (hle : cfg.initSize ≤ cfg.maxSize) (hpow : cfg.maxSize ≤ cfg.initSize * 2 ^ 200)
    (hws : ∀ w ∈ ws, w = WriteEv.ok) (os : List LineOutcome)
    (hmap : mapOutcomes cfg (lines.map dropCR) = .ok os) :
    stream cfg reader ws =
      .ok ⟨none, os.flatMap callsOf ++ [(false, some .tooLong)], os.filterMap writtenOf⟩ := by
  rw [stream_overlong cfg reader ws lines long rest hcalm hdata hfit hlong hnolf hle hpow hws os hmap,
    hp, foldThen_tolerant]
  simp [tooLongCall, Proc.result]

/-- Target 3, default processor, no earlier failure: all the lines are written, then the call with
    the too-long error, which `Stream()` returns. -/
theorem stream_overlong_default_all_written (cfg : Cfg) (hp : cfg.proc = .default)
    (reader : List ReadEv) (ws : List WriteEv) (lines : List Bytes)
    (long rest : Bytes) (hcalm : Calm 100 reader)
    (hdata : allData reader = joinLF lines ++ long ++ rest)
    (hfit : FitLines cfg.maxSize lines) (hlong : cfg.maxSize ≤ long.length)
    (hnolf : (0x0A : UInt8) ∉ long.take cfg.maxSize)
    (hle : cfg.initSize ≤ cfg.maxSize) (hpow : cfg.maxSize ≤ cfg.initSize * 2 ^ 200)
    (hws : ∀ w ∈ ws, w = WriteEv.ok) (bs : List Bytes)
    (hmap : mapOutcomes cfg (lines.map dropCR) = .ok (bs.map .written)) :
    stream cfg reader ws =
      .ok ⟨some .tooLong, List.replicate bs.length (true, none) ++ [(false, some .tooLong)], bs⟩ := by
  rw [stream_overlong cfg reader ws lines long rest hcalm hdata hfit hlong hnolf hle hpow hws _ hmap,
    hp, foldThen_default_written]
  simp [tooLongCall, Proc.result]

/-- Target 3, default processor, an earlier line failed: the stream has stopped there, with that
    line's error — it is exactly the stream of the lines before the over-long one. -/
theorem stream_overlong_default_earlier_failure (cfg : Cfg) (hp : cfg.proc = .default)
    (reader : List ReadEv) (ws : List WriteEv) (lines : List Bytes)
    (long rest : Bytes) (hcalm : Calm 100 reader)
    (hdata : allData reader = joinLF lines ++ long ++ rest)
    (hfit : FitLines cfg.maxSize lines) (hlong : cfg.maxSize ≤ long.length)
    (hnolf : (0x0A : UInt8) ∉ long.take cfg.maxSize)
    (hle : cfg.initSize ≤ cfg.maxSize) (hpow : cfg.maxSize ≤ cfg.initSize * 2 ^ 200)
    (hws : ∀ w ∈ ws, w = WriteEv.ok) (os : List LineOutcome)
    (hmap : mapOutcomes cfg (lines.map dropCR) = .ok os)
    (hfail : ∃ o ∈ os, ∀ b, o ≠ .written b) :
    stream cfg reader ws = .ok (foldOutcomes .default os ⟨none, [], []⟩) ∧
    stream cfg reader ws = specObs cfg (joinLF lines) ∧
    (foldOutcomes .default os ⟨none, [], []⟩).ret ≠ none := by
  have h := stream_overlong cfg reader ws lines long rest hcalm hdata hfit hlong hnolf hle hpow hws os hmap
  obtain ⟨h1, h2⟩ := foldThen_default_fail (tooLongCall .default) os ⟨none, [], []⟩ hfail
  rw [hp, h1] at h
  refine ⟨h, ?_, h2⟩
  rw [h]
  unfold specObs
  rw [specLines_joinLF lines (fun l hl => (hfit l hl).1), hmap, hp]

/-! ### 4. Concrete instances: initial buffer 4, limit 8 -/

section Examples

/-- `ab\n123456789{}\n{}\n` in chunks of 3. -/
def exReader : List ReadEv :=
  [.data [0x61, 0x62, 0x0A], .data [0x31, 0x32, 0x33], .data [0x34, 0x35, 0x36], .data [0x37, 0x38, 0x39],
   .data [0x7B, 0x7D, 0x0A], .data [0x7B, 0x7D, 0x0A]]

def ex0 : St := init 4 exReader
def ex1 : St := (scan 4 8 (scanFuel ex0) ex0).2
def ex2 : St := (scan 4 8 (scanFuel ex1) ex1).2
def ex3 : St := (scan 4 8 (scanFuel ex2) ex2).2
def ex4 : St := (scan 4 8 (scanFuel ex3) ex3).2

/-- first call: the token `ab`, no error -/
example : (scan 4 8 (scanFuel ex0) ex0).1 = some [0x61, 0x62] ∧ errOf ex1 = none := by decide

/-- second call: no token, `tooLong`; the buffer holds `12345678`, the reader still holds `9`,
    `{}\n`, `{}\n` -/
example : (scan 4 8 (scanFuel ex1) ex1).1 = none ∧ errOf ex2 = some .tooLong ∧
    ex2.buf = [0x31, 0x32, 0x33, 0x34, 0x35, 0x36, 0x37, 0x38] ∧
    scriptBytes ex2.script = [0x39, 0x7B, 0x7D, 0x0A, 0x7B, 0x7D, 0x0A] := by decide

/-- COUNTEREXAMPLE to "once `errOf = some .tooLong`, every later `scan` returns no token": the third
    call delivers the truncated fragment `12345678` (with `errOf` still `tooLong`). -/
theorem sticky_counterexample :
    errOf ex2 = some .tooLong ∧
    (scan 4 8 (scanFuel ex2) ex2).1 = some [0x31, 0x32, 0x33, 0x34, 0x35, 0x36, 0x37, 0x38] ∧
    errOf ex3 = some .tooLong := by decide

/-- fourth, fifth call: nothing, for ever (`dead_forever`); the reader has not been asked again -/
example : (scan 4 8 (scanFuel ex3) ex3).1 = none ∧ errOf ex4 = some .tooLong ∧ ex4.buf = [] ∧
    (scan 4 8 (scanFuel ex4) ex4).1 = none ∧
    scriptBytes ex4.script = [0x39, 0x7B, 0x7D, 0x0A, 0x7B, 0x7D, 0x0A] := by decide

/-- the same with `scans`: `ab`, then nothing (`tooLong`), then the fragment, then nothing;
    neither `{}` ever comes out -/
example : (scans 4 8 [828, 100, 1, 7, 100, 100] ex0).1 =
    [some [0x61, 0x62], none, some [0x31, 0x32, 0x33, 0x34, 0x35, 0x36, 0x37, 0x38], none, none, none] := by
  decide

/-- The hypotheses of `overlong_line_yields_too_long` are satisfiable: it applies to this input. -/
example : ∃ sEnd, ScansTooLong 4 8 (init 4 exReader) [[0x61, 0x62]] sEnd ∧
    sEnd.buf = [0x31, 0x32, 0x33, 0x34, 0x35, 0x36, 0x37, 0x38] ∧
    scriptBytes sEnd.script = [0x39, 0x7B, 0x7D] ++ [0x0A, 0x7B, 0x7D, 0x0A] ∧ sEnd.done = false := by
  have := overlong_line_yields_too_long 4 8 exReader [[0x61, 0x62]]
    [0x31, 0x32, 0x33, 0x34, 0x35, 0x36, 0x37, 0x38, 0x39, 0x7B, 0x7D] [0x0A, 0x7B, 0x7D, 0x0A]
    (by simp [Calm, exReader]) (by decide)
    (by intro l hl; simp only [List.mem_singleton] at hl; subst hl; decide)
    (by decide) (by decide) (by decide) (pow_bound (k := 1) (by decide) (by decide))
  simpa [dropCR] using this

/-- The stream on `123456789{}\n{}\n` in chunks of 3 (no line before the over-long one, so no call
    of `getRow`): one processor call with the too-long error, nothing written. -/
example (env : Env) (p : Proc) :
    stream { env := env, ti := [], to := [], proc := p, initSize := 4, maxSize := 8 }
      [.data [0x31, 0x32, 0x33], .data [0x34, 0x35, 0x36], .data [0x37, 0x38, 0x39],
       .data [0x7B, 0x7D, 0x0A], .data [0x7B, 0x7D, 0x0A]] [] =
    .ok ⟨p.result 0 (some .tooLong), [(false, some .tooLong)], []⟩ := by
  have := stream_overlong { env := env, ti := [], to := [], proc := p, initSize := 4, maxSize := 8 }
    [.data [0x31, 0x32, 0x33], .data [0x34, 0x35, 0x36], .data [0x37, 0x38, 0x39],
       .data [0x7B, 0x7D, 0x0A], .data [0x7B, 0x7D, 0x0A]] [] []
    [0x31, 0x32, 0x33, 0x34, 0x35, 0x36, 0x37, 0x38, 0x39, 0x7B, 0x7D] [0x0A, 0x7B, 0x7D, 0x0A]
    (by simp [Calm]) (by decide) (by intro l hl; cases hl) (by show 8 ≤ _; decide)
    (by show (0x0A : UInt8) ∉ List.take 8 _; decide) (by show 4 ≤ 8; decide)
    (pow_bound (k := 1) (by show 8 ≤ 4 * 2 ^ 1; decide) (by decide)) (by simp) [] rfl
  simpa [foldThen, tooLongCall] using this

end Examples

end Jl.ScannerLimit
