/-
  Proofs.LineBinary — C11 at LINE level: binary columns of fixed-width raw types.

  C11: "The binary form of fixed-width values is a fixed little-endian bijection: … decoding accepts
  exactly the byte strings of the type's width … and rejects every other length."  Seen through a jl
  line: under a binary column declared with a fixed-width raw type an accepted line carries a base64
  payload of exactly that width, and the column re-emits the canonical base64 of the bytes it
  accepted.

  The cell-level statements are in Props/C11 (over Proofs.CastBin, Proofs.LE, Proofs.Base64); here
  they are carried through `jlLine` (importer `GetRow`, exporter `CreateRow`, `row.MarshalJSON`) over
  the regenerated cast tables and EVERY `Ext`, with the generic lemmas of Proofs.LineTime.

  The fixed-width raw types are the ten integer types, float64, float32 and bool (`fixedWidth`, the
  words of `Driver.Line.fixedWidth`); every theorem is stated once for all of them.  `decoded ty bs`
  is the value read, `reemitted ty bs` the bytes written back: `bs` itself for every type but bool,
  whose byte is normalised to 0 / 1 (`reemitted_of_not_bool`, `reemitted_bool_canonical`).

  0.  cell facts about `genTables`: `castTo_bytes` (exactly the width), `castTo_decoded`,
      `castTo_nil`, `toBinary_decoded` (encode ∘ decode), `importCell_binary_str` (Import of a JSON
      string under such a column, computed), `export_decoded`, `marshal_decoded`
  1.  one column `k` on both sides, the line's only member being `k`, a JSON string `s`:
        `binary_line_written`, `binary_line`, `binary_line_int`, `binary_line_not_bool`,
        `emitted_is_canonical`,
        `binary_line_ext_independent`                                             target 1(a)
        `binary_line_wrong_length`                                                target 1(b)
        `binary_line_invalid_base64`                                              target 1(c)
        `binary_line_accepted_iff`                                                all three
  2.  `c11Col`, `c11Accepted`, `c11Violation`: the logic of `Driver.Line.c11LineViolation`;
      `binary_line_oracle` (whatever `s` is), `c11Col_fires`, `c11Col_fires_invalid`   target 2
  3.  several columns: `getRow_binary_cell`, `emitted_line_binary_pointwise`,
      `emitted_line_binary_same_names` (target 3), `emitted_line_oracle` (targets 2 and 3 together)
  4.  `Demo`: binary(int32) column `b`; `{"b":"AQIDBA=="}` ↦ itself and a newline; `{"b":"AQID"}`
      and `{"b":"AQIDBA="}` rejected; the NON-canonical spellings `{"b":"AQIDBB=="}` (non-zero
      trailing bits) and `{"b":"AQID\r\nBA=="}` accepted and re-emitted as `{"b":"AQIDBA=="}`;
      binary(bool): `{"b":"Ag=="}` ↦ `{"b":"AQ=="}`; a two-column line.

  The input line is given by what the reader delivers for it
  (`Json.unmarshal line = (.cons k (.str s) .nil, true)`: any spelling of the one-member object).
-/
import Proofs.LineTime
import Proofs.CastBin
import Proofs.Base64
import Proofs.LE

namespace Jl.LineBinary
open Jl Jl.Value Jl.Template Jl.Cast Jl.CastTyped
open Jl.JsonQuote (sanitize)
open Jl.JsonPrint (treeDyn treeVal treeMembers treeExported FloatTextOK)
open Jl.LineTime (objText lookupJV_single lastVal)

set_option linter.unusedSimpArgs false

/-! ### 0. Cell-level facts about the regenerated tables -/

/-- Width in bytes of the fixed-width raw types (the words of `Driver.Line.fixedWidth`). -/
def fixedWidth : Ty → Option Nat
  | .int t => some (t.bits / 8)
  | .f64 => some 8
  | .f32 => some 4
  | .bool => some 1
  | _ => none

/-- The value a fixed-width raw type reads from a byte string of its width: the little-endian
    integer (two's complement for the signed types), the IEEE bit pattern, or — for bool — whether
    the byte is non-zero. -/
def decoded : Ty → Bytes → Dyn
  | .int t, bs => .int t (if t.signed then LE.ofU t.bits (LE.get bs) else (LE.get bs : Int))
  | .f64, bs => .f64 (LE.get bs)
  | .f32, bs => .f32 (LE.get bs)
  | .bool, bs => .bool (bs.headD 0 != 0)
  | _, _ => .nil

/-- The bytes the column writes back for the bytes it accepted: the same bytes — except for bool,
    whose one byte is normalised to 0 / 1 (any non-zero byte reads as true). -/
def reemitted : Ty → Bytes → Bytes
  | .bool, bs => [if bs.headD 0 != 0 then 1 else 0]
  | _, bs => bs

theorem reemitted_of_not_bool {ty : Ty} (h : ty ≠ .bool) (bs : Bytes) : reemitted ty bs = bs := by
  cases ty <;> first | rfl | exact absurd rfl h

theorem reemitted_int (t : IntTy) (bs : Bytes) : reemitted (.int t) bs = bs := rfl

theorem reemitted_bool_canonical {bs : Bytes} (h : bs = [0] ∨ bs = [1]) : reemitted .bool bs = bs := by
  rcases h with rfl | rfl <;> rfl

theorem reemitted_length {ty : Ty} {w : Nat} (h : fixedWidth ty = some w) (bs : Bytes)
    (hl : bs.length = w) : (reemitted ty bs).length = w := by
  cases ty <;> simp [fixedWidth] at h <;> subst h <;> simp [reemitted, hl]

theorem fixedWidth_ne_none {ty : Ty} {w : Nat} (h : fixedWidth ty = some w) : ty ≠ .none := by
  rintro rfl; simp [fixedWidth] at h

/-- `cast.To(T, bytes)`: exactly the byte strings of the type's width are accepted (C11, cell
    level, for the four kinds of fixed-width type at once). -/
theorem castTo_bytes (ext : Ext) {ty : Ty} {w : Nat} (h : fixedWidth ty = some w) (bs : Bytes) :
    castTo genTables ext ty (.bytes bs) =
      if bs.length = w then .ok (decoded ty bs) else .err .cast := by
  cases ty <;> simp [fixedWidth] at h <;> subst h
  · rw [decode_int]; rfl
  · rw [decode_f64]; rfl
  · rw [decode_f32]; rfl
  · rw [decode_bool]
    match bs with
    | [] => rfl
    | [b] => simp [decoded]
    | _ :: _ :: _ => simp

/-- `cast.To(T, v)` on a value already of type `T` (the exporter's `NewValue`). -/
theorem castTo_decoded (ext : Ext) {ty : Ty} {w : Nat} (h : fixedWidth ty = some w) (bs : Bytes) :
    castTo genTables ext ty (decoded ty bs) = .ok (decoded ty bs) := by
  cases ty <;> simp [fixedWidth] at h
  · rename_i t
    cases t <;>
    simp [decoded, castTo, callNamed, genTables, Gen.casters, Gen.dispatchTo, findClause, typeOf,
      evalBranch, evalE]
  all_goals
    simp [decoded, castTo, callNamed, genTables, Gen.casters, Gen.dispatchTo, findClause, typeOf,
      evalBranch, evalE]

/-- `cast.To(T, nil) = nil` for the fixed-width types. -/
theorem castTo_nil (ext : Ext) {ty : Ty} {w : Nat} (h : fixedWidth ty = some w) :
    castTo genTables ext ty .nil = .ok .nil := by
  cases ty <;> simp [fixedWidth] at h
  · rename_i t
    cases t <;>
    simp [castTo, callNamed, genTables, Gen.casters, Gen.dispatchTo, findClause, typeOf, evalBranch,
      evalE]
  all_goals
    simp [castTo, callNamed, genTables, Gen.casters, Gen.dispatchTo, findClause, typeOf, evalBranch,
      evalE]

/-- `ToBinary` of the value read from `bs` gives `bs` back (bool: normalised) — encode ∘ decode on
    the byte strings of the type's width (`C11.encode_decode_int` and its float / bool siblings). -/
theorem toBinary_decoded (ext : Ext) {ty : Ty} {w : Nat} (h : fixedWidth ty = some w) (bs : Bytes)
    (hl : bs.length = w) :
    castNamed genTables ext "ToBinary" (decoded ty bs) = .ok (.bytes (reemitted ty bs)) := by
  cases ty <;> simp [fixedWidth] at h <;> subst h
  · rename_i t
    have h8 : 8 * (t.bits / 8) = t.bits := by cases t <;> simp [IntTy.bits]
    simp only [decoded, reemitted]
    rw [encode_int]
    cases hs : t.signed with
    | true =>
      have := LE.signed_image (t.bits / 8) bs hl
      rw [h8] at this
      simp [this]
    | false =>
      have := LE.unsigned_image (t.bits / 8) bs hl
      rw [h8] at this
      simp [this]
  · have hlt := LE.get_lt bs
    rw [hl] at hlt
    simp only [decoded, reemitted]
    rw [encode_f64 ext _ (by simpa using hlt), LE.put_get 8 bs hl]
  · have hlt := LE.get_lt bs
    rw [hl] at hlt
    simp only [decoded, reemitted]
    rw [encode_f32 ext _ (by simpa using hlt), LE.put_get 4 bs hl]
  · simp only [decoded, reemitted]
    rw [encode_bool]

theorem toString_str (ext : Ext) (s : Bytes) :
    castNamed genTables ext "ToString" (.str s) = .ok (.str s) := by
  simp [castNamed, callNamed, genTables, Gen.casters, findClause, typeOf, evalBranch, evalE]

theorem decoded_ne_nil {ty : Ty} {w : Nat} (h : fixedWidth ty = some w) (bs : Bytes) :
    decoded ty bs ≠ .nil := by
  cases ty <;> simp [fixedWidth] at h <;> simp [decoded]

/-! #### The three cell steps of a line -/

/-- `Import` of a JSON string under a binary column of a fixed-width raw type, computed: base64
    decode, then exactly the payloads of the type's width. -/
theorem importCell_binary_str (ext : Ext) {ty : Ty} {w : Nat} (h : fixedWidth ty = some w)
    (s : Bytes) :
    importCell ⟨genTables, ext⟩ .binary ty (.str s) =
      match Base64.decode s with
      | some bs =>
        if bs.length = w then .ok (.cell (decoded ty bs) .binary ty, none)
        else .ok (.cell .nil .binary ty, some .unsupportedImport)
      | none => .ok (.cell .nil .binary ty, some .unsupportedImport) := by
  have hb : importFromBinary ⟨genTables, ext⟩ (.str s) ty =
      match Base64.decode s with
      | some bs => importFail (castTo genTables ext ty (.bytes bs))
      | none => .err .unsupportedImport := by
    simp only [importFromBinary, toString_str, importFail]
    cases Base64.decode s with
    | none => rfl
    | some bs => cases ty <;> simp [fixedWidth] at h <;> rfl
  simp only [importCell, importByFormat, hb]
  cases Base64.decode s with
  | none => rfl
  | some bs =>
    simp only [castTo_bytes ext h]
    by_cases hl : bs.length = w <;> simp [hl, importFail]

theorem newValue_decoded (ext : Ext) {ty : Ty} {w : Nat} (h : fixedWidth ty = some w) (bs : Bytes) :
    newValue ⟨genTables, ext⟩ (decoded ty bs) .binary ty = .ok (.cell (decoded ty bs) .binary ty) := by
  simp only [newValue, castTo_decoded ext h]

theorem export_decoded (ext : Ext) {ty : Ty} {w : Nat} (h : fixedWidth ty = some w) (bs : Bytes)
    (hl : bs.length = w) :
    exportVal ⟨genTables, ext⟩ (.cell (decoded ty bs) .binary ty) =
      .ok (.str (Base64.encode (reemitted ty bs))) := by
  have hne := decoded_ne_nil h bs
  have hb := toBinary_decoded ext h bs hl
  generalize decoded ty bs = d at hne hb
  cases d with
  | nil => exact absurd rfl hne
  | _ => simp only [exportVal, hb, exportFail]

theorem marshal_decoded (ext : Ext) {ty : Ty} {w : Nat} (h : fixedWidth ty = some w) (bs : Bytes)
    (hl : bs.length = w) :
    RowPrint.marshalVal ⟨genTables, ext⟩ (.cell (decoded ty bs) .binary ty) =
      .ok (JsonWrite.quote (Base64.encode (reemitted ty bs))) := by
  rw [RowPrint.marshalVal.eq_def]
  simp only [export_decoded ext h bs hl]
  rw [RowPrint.marshalExported.eq_def]

/-! ### 1. One column: the line's way through importer and exporter -/

theorem cloneRow_col (ext : Ext) (k : Bytes) (f : Format) {ty : Ty} {w : Nat}
    (h : fixedWidth ty = some w) :
    cloneRow ⟨genTables, ext⟩ [(k, .cell .nil f ty)] = .ok [(k, .cell .nil f ty)] := by
  simp [cloneRow, cloneInto, cloneValue, newValue, Cells.raw, Cells.format, Cells.rawType,
    castTo_nil ext h, upsert, OMap.upsert]

/-- `GetRow` on a one-member line under a one-column template, given what `Import` makes of the
    member's value — accepted (`e = none`) or refused. -/
theorem getRow_col (ext : Ext) (k : Bytes) (f : Format) {ty : Ty} {w : Nat}
    (hty : fixedWidth ty = some w) (line : Bytes) (jv : JV) (x : Dyn) (c : Val) (e : Option ErrClass)
    (hline : Json.unmarshal line = (.cons k jv .nil, true))
    (hjv : ofJV ⟨genTables, ext⟩ jv = .ok x)
    (himp : importCell ⟨genTables, ext⟩ f ty x = .ok (c, e)) :
    getRow ⟨genTables, ext⟩ [(k, .cell .nil f ty)] line = .ok ([(k, c)], e) := by
  cases e <;>
  simp [getRow, createRowEmpty, cloneRow_col ext k f hty, unmarshalInto, hline, ofJVMembers, hjv,
    parseMembers, parseMember, lookup, OMap.lookup, importVal, importInto, himp, upsert, OMap.upsert]

theorem createRow_col (ext : Ext) (k : Bytes) (f : Format) {ty : Ty} {w : Nat}
    (hty : fixedWidth ty = some w) (c c' : Val)
    (hnew : newValue ⟨genTables, ext⟩ (Cells.raw c) f ty = .ok c') :
    createRow ⟨genTables, ext⟩ [(k, .cell .nil f ty)] (.val (.row (Members.ofList [(k, c)]))) =
      .ok ([(k, c')], none) := by
  simp [createRow, cloneRow_col ext k f hty, fillPairs, fill, lookup, OMap.lookup, Cells.format,
    Cells.rawType, hnew, upsert, OMap.upsert]

/-- One accepted line through `jlLine` for one-column templates of the same name, from the three
    cell steps (`LineTime.jlLine_col` for the fixed-width raw types). -/
theorem jlLine_col (ext : Ext) (k : Bytes) (fi fo : Format) {tyi tyo : Ty} {wi wo : Nat}
    (hi : fixedWidth tyi = some wi) (ho : fixedWidth tyo = some wo)
    (line : Bytes) (jv : JV) (x : Dyn) (c c' : Val) (txt : Bytes)
    (hline : Json.unmarshal line = (.cons k jv .nil, true))
    (hjv : ofJV ⟨genTables, ext⟩ jv = .ok x)
    (himp : importCell ⟨genTables, ext⟩ fi tyi x = .ok (c, none))
    (hnew : newValue ⟨genTables, ext⟩ (Cells.raw c) fo tyo = .ok c')
    (hvis : Cells.format c' ≠ .hidden)
    (hm : RowPrint.marshalVal ⟨genTables, ext⟩ c' = .ok txt) :
    jlLine ⟨genTables, ext⟩ (withCol [] k fi tyi) (withCol [] k fo tyo) line =
      .ok (objText k txt ++ [0x0A], none) := by
  simp only [LineTime.withCol_nil, jlLine, getRow_col ext k fi hi line jv x c none hline hjv himp,
    exportLine, createRow_col ext k fo ho c c' hnew, LineTime.marshalRow_col _ k c' txt hvis hm]

/-- One REFUSED line: `Import` reports an error for the member, nothing is written. -/
theorem jlLine_col_rejected (ext : Ext) (k : Bytes) (fi : Format) {tyi : Ty} {wi : Nat}
    (hi : fixedWidth tyi = some wi) (to : Tmpl)
    (line : Bytes) (jv : JV) (x : Dyn) (c : Val) (e : ErrClass)
    (hline : Json.unmarshal line = (.cons k jv .nil, true))
    (hjv : ofJV ⟨genTables, ext⟩ jv = .ok x)
    (himp : importCell ⟨genTables, ext⟩ fi tyi x = .ok (c, some e)) :
    jlLine ⟨genTables, ext⟩ (withCol [] k fi tyi) to line = .ok ([], some e) := by
  simp only [LineTime.withCol_nil, jlLine, getRow_col ext k fi hi line jv x c (some e) hline hjv himp]

/-- What the reader delivers for the printed one-member object with a base64 text. -/
theorem unmarshal_base64_out {k : Bytes} (hk : sanitize k = k) (bs : Bytes) :
    Json.unmarshal (objText k (JsonWrite.quote (Base64.encode bs))) =
      (.cons k (.str (Base64.encode bs)) .nil, true) := by
  rw [LineTime.unmarshal_objText (JsonPrint.readsAs_quote _), hk, JsonPrint.sanitize_base64]

/-! #### Target 1(a): a payload of exactly the type's width -/

/-- **Target 1(a), the bytes written.**  One binary column `k` of fixed-width raw type `ty` (width
    `w`) on both sides, the line's only member `k` a JSON string `s` that base64-decodes to `bs` of
    length `w`: for EVERY `ext` the line is accepted and what is written is exactly
    `{"k":"<canonical base64 of the bytes accepted>"}` and a newline (for bool the one byte is
    normalised to 0 / 1: `reemitted`; for every other type `reemitted ty bs = bs`). -/
theorem binary_line_written (ext : Ext) (k : Bytes) {ty : Ty} {w : Nat}
    (hty : fixedWidth ty = some w) (line s bs : Bytes)
    (hline : Json.unmarshal line = (.cons k (.str s) .nil, true))
    (hd : Base64.decode s = some bs) (hl : bs.length = w) :
    jlLine ⟨genTables, ext⟩ (withCol [] k .binary ty) (withCol [] k .binary ty) line =
      .ok (objText k (JsonWrite.quote (Base64.encode (reemitted ty bs))) ++ [0x0A], none) := by
  refine jlLine_col ext k .binary .binary hty hty line (.str s) (.str s)
    (.cell (decoded ty bs) .binary ty) (.cell (decoded ty bs) .binary ty) _ hline (by rw [ofJV])
    ?_ (newValue_decoded ext hty bs) (by simp [Cells.format]) (marshal_decoded ext hty bs hl)
  rw [importCell_binary_str ext hty, hd]
  simp [hl]

/-- **Target 1(a).**  …accepted for every `ext`, and whatever `jlLine` wrote is an object text and a
    newline whose member `k`, as the reader delivers it, is the string `Base64.encode` of the bytes
    accepted. -/
theorem binary_line (ext : Ext) (k : Bytes) (hk : sanitize k = k) {ty : Ty} {w : Nat}
    (hty : fixedWidth ty = some w) (line s bs : Bytes)
    (hline : Json.unmarshal line = (.cons k (.str s) .nil, true))
    (hd : Base64.decode s = some bs) (hl : bs.length = w) :
    (∃ b, jlLine ⟨genTables, ext⟩ (withCol [] k .binary ty) (withCol [] k .binary ty) line =
      .ok (b, none)) ∧
    ∀ b, jlLine ⟨genTables, ext⟩ (withCol [] k .binary ty) (withCol [] k .binary ty) line =
        .ok (b, none) →
      ∃ body tree, b = body ++ [0x0A] ∧ Json.unmarshal body = (tree, true) ∧
        LineSpec.lookupJV tree k = some (.str (Base64.encode (reemitted ty bs))) := by
  have hw := binary_line_written ext k hty line s bs hline hd hl
  refine ⟨⟨_, hw⟩, ?_⟩
  intro b hb
  rw [hw] at hb
  simp only [Outcome.ok.injEq, Prod.mk.injEq, and_true] at hb
  subst hb
  exact ⟨_, _, rfl, unmarshal_base64_out hk _, lookupJV_single _ _⟩

/-- 1(a) for the ten integer types (and the floats): the member is `Base64.encode bs` itself. -/
theorem binary_line_int (ext : Ext) (k : Bytes) (hk : sanitize k = k) (t : IntTy)
    (line s bs : Bytes) (hline : Json.unmarshal line = (.cons k (.str s) .nil, true))
    (hd : Base64.decode s = some bs) (hl : bs.length = t.bits / 8) :
    ∃ body tree,
      jlLine ⟨genTables, ext⟩ (withCol [] k .binary (.int t)) (withCol [] k .binary (.int t)) line =
        .ok (body ++ [0x0A], none) ∧
      Json.unmarshal body = (tree, true) ∧
      LineSpec.lookupJV tree k = some (.str (Base64.encode bs)) :=
  ⟨_, _, binary_line_written ext k (ty := .int t) rfl line s bs hline hd hl,
    unmarshal_base64_out hk _, lookupJV_single _ _⟩

/-- 1(a) as literally asked, for every fixed-width type but bool (the ten integer types, float64,
    float32): the member is `Base64.encode bs`, the canonical base64 of the very bytes accepted. -/
theorem binary_line_not_bool (ext : Ext) (k : Bytes) (hk : sanitize k = k) {ty : Ty} {w : Nat}
    (hty : fixedWidth ty = some w) (hnb : ty ≠ .bool) (line s bs : Bytes)
    (hline : Json.unmarshal line = (.cons k (.str s) .nil, true))
    (hd : Base64.decode s = some bs) (hl : bs.length = w) :
    ∃ body tree,
      jlLine ⟨genTables, ext⟩ (withCol [] k .binary ty) (withCol [] k .binary ty) line =
        .ok (body ++ [0x0A], none) ∧
      Json.unmarshal body = (tree, true) ∧
      LineSpec.lookupJV tree k = some (.str (Base64.encode bs)) := by
  have hw := binary_line_written ext k hty line s bs hline hd hl
  rw [reemitted_of_not_bool hnb] at hw
  exact ⟨_, _, hw, unmarshal_base64_out hk _, lookupJV_single _ _⟩

/-- The emitted text decodes to the bytes written back, and IS their canonical spelling: no CR/LF,
    zero trailing bits (whatever the spelling `s` of the input was). -/
theorem emitted_is_canonical (bs : Bytes) :
    Base64.decode (Base64.encode bs) = some bs ∧
    (∀ ch ∈ Base64.encode bs, ch ≠ 0x0D ∧ ch ≠ 0x0A) ∧ Base64.TailZero (Base64.encode bs) :=
  ⟨Base64.decode_encode bs, Base64.encode_no_crlf bs, Base64.tailZero_encode bs⟩

/-- The same line is written whatever the `ext`. -/
theorem binary_line_ext_independent (ext₁ ext₂ : Ext) (k : Bytes) {ty : Ty} {w : Nat}
    (hty : fixedWidth ty = some w) (line s bs : Bytes)
    (hline : Json.unmarshal line = (.cons k (.str s) .nil, true))
    (hd : Base64.decode s = some bs) (hl : bs.length = w) :
    jlLine ⟨genTables, ext₁⟩ (withCol [] k .binary ty) (withCol [] k .binary ty) line =
      jlLine ⟨genTables, ext₂⟩ (withCol [] k .binary ty) (withCol [] k .binary ty) line := by
  rw [binary_line_written ext₁ k hty line s bs hline hd hl,
    binary_line_written ext₂ k hty line s bs hline hd hl]

/-! #### Targets 1(b), 1(c): every other payload is refused -/

/-- **Target 1(b).**  A base64 text whose payload has any other length: the line is rejected — the
    error class of a refused import, nothing to write — for every `ext` (and whatever the exporter's
    template is). -/
theorem binary_line_wrong_length (ext : Ext) (k : Bytes) {ty : Ty} {w : Nat}
    (hty : fixedWidth ty = some w) (to : Tmpl) (line s bs : Bytes)
    (hline : Json.unmarshal line = (.cons k (.str s) .nil, true))
    (hd : Base64.decode s = some bs) (hl : bs.length ≠ w) :
    jlLine ⟨genTables, ext⟩ (withCol [] k .binary ty) to line = .ok ([], some .unsupportedImport) := by
  refine jlLine_col_rejected ext k .binary hty to line (.str s) (.str s) (.cell .nil .binary ty) _
    hline (by rw [ofJV]) ?_
  rw [importCell_binary_str ext hty, hd]
  simp [hl]

/-- **Target 1(c).**  A string that is not base64: rejected. -/
theorem binary_line_invalid_base64 (ext : Ext) (k : Bytes) {ty : Ty} {w : Nat}
    (hty : fixedWidth ty = some w) (to : Tmpl) (line s : Bytes)
    (hline : Json.unmarshal line = (.cons k (.str s) .nil, true))
    (hd : Base64.decode s = none) :
    jlLine ⟨genTables, ext⟩ (withCol [] k .binary ty) to line = .ok ([], some .unsupportedImport) := by
  refine jlLine_col_rejected ext k .binary hty to line (.str s) (.str s) (.cell .nil .binary ty) _
    hline (by rw [ofJV]) ?_
  rw [importCell_binary_str ext hty, hd]

/-- Targets 1(a)–(c) in one statement: the line is accepted exactly when the string is base64 for
    a payload of the type's width. -/
theorem binary_line_accepted_iff (ext : Ext) (k : Bytes) {ty : Ty} {w : Nat}
    (hty : fixedWidth ty = some w) (line s : Bytes)
    (hline : Json.unmarshal line = (.cons k (.str s) .nil, true)) :
    (∃ b, jlLine ⟨genTables, ext⟩ (withCol [] k .binary ty) (withCol [] k .binary ty) line =
      .ok (b, none)) ↔ ∃ bs, Base64.decode s = some bs ∧ bs.length = w := by
  constructor
  · rintro ⟨b, hb⟩
    cases hd : Base64.decode s with
    | none =>
      rw [binary_line_invalid_base64 ext k hty _ line s hline hd] at hb
      cases hb
    | some bs =>
      by_cases hl : bs.length = w
      · exact ⟨bs, rfl, hl⟩
      · rw [binary_line_wrong_length ext k hty _ line s bs hline hd hl] at hb
        cases hb
  · rintro ⟨bs, hd, hl⟩
    exact ⟨_, binary_line_written ext k hty line s bs hline hd hl⟩

/-! ### 2. The oracle's own words

  `Driver.Line.c11LineViolation` judges the implementation's observation (`panic` / rejected /
  accepted with bytes) against the input text and the exporter's column declarations.  The same
  logic, clause by clause, over a model outcome (`Driver` cannot be imported here): `c11Col` is the
  body of its `findSome?`, `c11Accepted` the accepted branch on the written bytes, `c11Violation`
  the whole (a rejected line is never a violation for this oracle). -/

/-- One declared column against the input tree (repeated names resolved) and the output tree. -/
def c11Col (inMs outMs : JVMembers) (c : LineSpec.Col) : Option String :=
  match c with
  | .leaf n .binary ty =>
    match fixedWidth ty, LineSpec.lookupJV inMs n with
    | some w, some (.str s) =>
      match Base64.decode s with
      | some b =>
        if b.length != w then some "wrong-size-accepted"
        else if ty == .bool && b != [0] && b != [1] then none   -- any non-zero byte reads as true
        else
          match LineSpec.lookupJV outMs n with
          | some (.str o) => if o == Base64.encode b then none else some "not-re-emitted-as-accepted"
          | _ => some "member-missing-or-wrong-type"
      | none => some "invalid-base64-accepted"
    | _, _ => none
  | _ => none

/-- The accepted branch: the written bytes end in a newline, both texts are objects for the reader,
    and no declared column fails. -/
def c11Accepted (cols : List LineSpec.Col) (input bytes : Bytes) : Option String :=
  match bytes.reverse with
  | 0x0A :: revBody =>
    let (outMs, okOut) := Json.unmarshal revBody.reverse
    let (inMs0, okIn) := Json.unmarshal input
    let inMs := LineSpec.normDup inMs0
    if !okOut || !okIn then some "invalid-json-object"
    else cols.findSome? (c11Col inMs outMs)
  | _ => some "no-trailing-newline"

/-- `c11LineViolation` over an outcome of `jlLine` (`none`: no violation). -/
def c11Violation (cols : List LineSpec.Col) (input : Bytes)
    (o : Outcome (Bytes × Option ErrClass)) : Option String :=
  match o with
  | .panic _ => some "panic"
  | .ok (b, none) => c11Accepted cols input b
  | _ => none

theorem c11Accepted_of_trees (cols : List LineSpec.Col) (input body : Bytes) (inMs outMs : JVMembers)
    (hin : Json.unmarshal input = (inMs, true)) (hout : Json.unmarshal body = (outMs, true)) :
    c11Accepted cols input (body ++ [0x0A]) =
      cols.findSome? (c11Col (LineSpec.normDup inMs) outMs) := by
  simp [c11Accepted, List.reverse_append, hin, hout]

/-- Either the oracle's bool exception applies, or the bytes written back are the bytes accepted. -/
theorem reemitted_cases {ty : Ty} {w : Nat} (h : fixedWidth ty = some w) (bs : Bytes)
    (hl : bs.length = w) :
    (ty = .bool ∧ bs ≠ [0] ∧ bs ≠ [1]) ∨ reemitted ty bs = bs := by
  by_cases hb : ty = .bool
  · subst hb
    simp [fixedWidth] at h
    subst h
    match bs, hl with
    | [b], _ =>
      by_cases h0 : b = 0
      · right; subst h0; rfl
      · by_cases h1 : b = 1
        · right; subst h1; rfl
        · left; simp [h0, h1]
  · exact .inr (reemitted_of_not_bool hb bs)

/-- The oracle's verdict on one column given what target 1 / target 3 conclude about it. -/
theorem c11Col_of_kept (inMs outMs : JVMembers) (n : Bytes) {ty : Ty} {w : Nat}
    (hty : fixedWidth ty = some w) (s bs : Bytes)
    (hin : LineSpec.lookupJV inMs n = some (.str s))
    (hd : Base64.decode s = some bs) (hl : bs.length = w)
    (hout : LineSpec.lookupJV outMs n = some (.str (Base64.encode (reemitted ty bs)))) :
    c11Col inMs outMs (.leaf n .binary ty) = none := by
  simp only [c11Col, hty, hin, hd, hout]
  rcases reemitted_cases hty bs hl with ⟨rfl, h0, h1⟩ | hre
  · simp [hl, h0, h1]
  · rw [hre]; simp [hl]

theorem lookupJV_normDup_single (k : Bytes) (v : JV) (hv : LineSpec.normDupV v = v) :
    LineSpec.lookupJV (LineSpec.normDup (.cons k v .nil)) k = some v := by
  simp [LineSpec.lookupJV, LineTime.normDup_single k v hv]

/-- **Target 2.**  One binary column `k` of a fixed-width raw type on both sides, the line's only
    member `k` a JSON string — WHATEVER the string `s` is (base64 or not, of the right size or not,
    canonical or not): the oracle finds no violation in what `jlLine` does with the line, for every
    `ext`. -/
theorem binary_line_oracle (ext : Ext) (k : Bytes) (hk : sanitize k = k) {ty : Ty} {w : Nat}
    (hty : fixedWidth ty = some w) (line s : Bytes)
    (hline : Json.unmarshal line = (.cons k (.str s) .nil, true)) :
    c11Violation [.leaf k .binary ty] line
      (jlLine ⟨genTables, ext⟩ (withCol [] k .binary ty) (withCol [] k .binary ty) line) = none := by
  cases hd : Base64.decode s with
  | none => rw [binary_line_invalid_base64 ext k hty _ line s hline hd]; rfl
  | some bs =>
    by_cases hl : bs.length = w
    · rw [binary_line_written ext k hty line s bs hline hd hl]
      simp only [c11Violation]
      rw [c11Accepted_of_trees _ line _ _ _ hline (unmarshal_base64_out hk _), List.findSome?_cons,
        c11Col_of_kept _ _ k hty s bs
          (lookupJV_normDup_single k (.str s) (by simp [LineSpec.normDupV])) hd hl
          (lookupJV_single _ _)]
      rfl
    · rw [binary_line_wrong_length ext k hty _ line s bs hline hd hl]; rfl

/-- The oracle is not vacuous: had a payload of another size been accepted, had the line been
    written back with other bytes, or had a non-base64 string been accepted, it would say so. -/
theorem c11Col_fires (inMs outMs : JVMembers) (n : Bytes) {ty : Ty} {w : Nat}
    (hty : fixedWidth ty = some w) (s bs o : Bytes)
    (hin : LineSpec.lookupJV inMs n = some (.str s))
    (hout : LineSpec.lookupJV outMs n = some (.str o)) (hd : Base64.decode s = some bs) :
    (bs.length ≠ w → c11Col inMs outMs (.leaf n .binary ty) = some "wrong-size-accepted") ∧
    (bs.length = w → (ty = .bool → bs = [0] ∨ bs = [1]) → o ≠ Base64.encode bs →
      c11Col inMs outMs (.leaf n .binary ty) = some "not-re-emitted-as-accepted") := by
  constructor
  · intro hl
    simp [c11Col, hty, hin, hd, hl]
  · intro hl hcan ho
    by_cases hb : ty = .bool
    · subst hb
      rcases hcan rfl with rfl | rfl <;> simp [c11Col, hty, hin, hout, hd, hl, ho]
    · simp [c11Col, hty, hin, hout, hd, hl, hb, ho]

theorem c11Col_fires_invalid (inMs outMs : JVMembers) (n : Bytes) {ty : Ty} {w : Nat}
    (hty : fixedWidth ty = some w) (s : Bytes)
    (hin : LineSpec.lookupJV inMs n = some (.str s)) (hd : Base64.decode s = none) :
    c11Col inMs outMs (.leaf n .binary ty) = some "invalid-base64-accepted" := by
  simp [c11Col, hty, hin, hd]

/-! ### 3. Templates with any number of columns -/

/-- `GetRow` under a template with distinct names, on an accepted line: a binary column of a
    fixed-width raw type whose last input member is a string holds the value read from a base64
    payload of exactly the type's width. -/
theorem getRow_binary_cell (ext : Ext) (ti : Tmpl) (line : Bytes) (r : List (Bytes × Val))
    (hget : getRow ⟨genTables, ext⟩ ti line = .ok (r, none)) (hti : (OMap.keys ti).Nodup)
    (k : Bytes) (ci : Val) (hci : OMap.lookup ti k = some ci)
    (hf : Cells.format ci = .binary) {w : Nat} (hty : fixedWidth (Cells.rawType ci) = some w)
    (s : Bytes) (hlast : lastVal (Json.unmarshal line).1.toList k = some (.str s)) :
    ∃ bs, Base64.decode s = some bs ∧ bs.length = w ∧
      lookup r k = some (.cell (decoded (Cells.rawType ci) bs) .binary (Cells.rawType ci)) := by
  obtain ⟨row0, h0, h1⟩ := Order.getRow_ok _ ti line r none hget
  obtain ⟨l, hl, hpm, _⟩ := Order.unmarshalInto_ok _ row0 r line h1
  obtain ⟨d, hd, hlv⟩ := (LineTime.lastVal_ofJVMembers _ k _ l hl).2 _ hlast
  rw [ofJV] at hd
  cases hd
  obtain ⟨_, _, h3⟩ := LineTime.parseMembers_lookup _ k _ _ l row0 r
    (LineLevel.ofJVMembers_shape _ _ l hl) hpm (LineTime.cloneRow_desc _ ti row0 h0 hti k ci hci)
  obtain ⟨c', hi, hl'⟩ := h3 _ hlv
  rw [hf, importCell_binary_str ext hty] at hi
  cases hdec : Base64.decode s with
  | none => rw [hdec] at hi; cases hi
  | some bs =>
    rw [hdec] at hi
    by_cases hlen : bs.length = w
    · simp only [hlen, if_true, Outcome.ok.injEq, Prod.mk.injEq, and_true] at hi
      exact ⟨bs, rfl, hlen, by rw [hl', ← hi]⟩
    · simp only [hlen, if_false] at hi
      cases hi

theorem treeVal_decoded (ext : Ext) {ty : Ty} {w : Nat} (h : fixedWidth ty = some w) (bs : Bytes)
    (hl : bs.length = w) :
    treeVal ⟨genTables, ext⟩ (.cell (decoded ty bs) .binary ty) =
      .str (Base64.encode (reemitted ty bs)) := by
  rw [LineLevel.treeVal_cell (export_decoded ext h bs hl)]
  simp only [treeExported, JsonPrint.sanitize_base64]

/-- The conclusion of target 1(a) for one column, on the tree the reader delivers for the emitted
    text: the input string is base64 for a payload of exactly the type's width, and the member under
    the column's written name is the canonical base64 of the bytes written back for it. -/
def BinaryKept (tree : JVMembers) (name : Bytes) (ty : Ty) (w : Nat) (s : Bytes) : Prop :=
  ∃ bs, Base64.decode s = some bs ∧ bs.length = w ∧
    LineSpec.lookupJV tree name = some (.str (Base64.encode (reemitted ty bs)))

/-- For every type but bool the member is the canonical base64 of the very bytes accepted. -/
theorem BinaryKept.not_bool {tree : JVMembers} {name : Bytes} {ty : Ty} {w : Nat} {s : Bytes}
    (h : BinaryKept tree name ty w s) (hnb : ty ≠ .bool) :
    ∃ bs, Base64.decode s = some bs ∧ bs.length = w ∧
      LineSpec.lookupJV tree name = some (.str (Base64.encode bs)) := by
  obtain ⟨bs, hd, hl, ho⟩ := h
  rw [reemitted_of_not_bool hnb] at ho
  exact ⟨bs, hd, hl, ho⟩

/-- **Target 3, pointwise.**  One ACCEPTED line through `jlLine` over the regenerated tables,
    templates with distinct column names.  The written bytes are an object text and a newline; in
    the object the reader delivers, for EVERY column `k` that is binary with the same fixed-width raw
    type `ty` in both templates and whose input member — the last of that name, as the oracle reads
    the input (`LineSpec.normDup`) — is a string `s`: `s` is base64 for a payload of exactly the
    type's width, and the member found under the column's written name is the string
    `Base64.encode` of the bytes written back — whatever the other columns and members are.  The
    separation hypothesis is that of `LineTime.emitted_line_times_pointwise` (no other key of the
    line is written like `k`); `FloatTextOK` is only there because OTHER columns may print floats. -/
theorem emitted_line_binary_pointwise (ext : Ext) (ti to : Tmpl) (line b : Bytes)
    (h : jlLine ⟨genTables, ext⟩ ti to line = .ok (b, none)) (hx : FloatTextOK ext)
    (hti : (OMap.keys ti).Nodup) (hto : (OMap.keys to).Nodup) :
    ∃ body tree, b = body ++ [0x0A] ∧ Json.unmarshal body = (tree, true) ∧
      ∀ k ci co ty w s, OMap.lookup ti k = some ci → OMap.lookup to k = some co →
        Cells.format ci = .binary → Cells.rawType ci = ty →
        Cells.format co = .binary → Cells.rawType co = ty → fixedWidth ty = some w →
        (∀ k' ∈ OMap.keys to ++ OMap.keys ti ++ Order.inputKeys line,
          sanitize k' = sanitize k → k' = k) →
        LineSpec.lookupJV (LineSpec.normDup (Json.unmarshal line).1) k = some (.str s) →
        BinaryKept tree (sanitize k) ty w s := by
  obtain ⟨r, row', body, hget, hcr, _, hb, hu⟩ :=
    LineLevel.emitted_text ⟨genTables, ext⟩ ti to line b h hx
  refine ⟨body, _, hb, hu, ?_⟩
  intro k ci co ty w s hci hco hfi htyi hfo htyo hty hsep hlast
  subst htyi
  obtain ⟨bs, hdec, hlen, hr⟩ := getRow_binary_cell ext ti line r hget hti k ci hci hfi hty s
    (LineTime.lastVal_of_normDup hlast)
  obtain ⟨c', hnew, hl'⟩ := LineTime.createRow_cell _ to r row' hcr hto
    (Order.getRow_keys_nodup _ ti line r hget) k co _ hco hr
  simp only [Cells.raw] at hnew
  rw [hfo, htyo, newValue_decoded ext hty bs] at hnew
  cases hnew
  have horigin := LineLevel.created_keys_origin _ ti to line r row' hget hcr
  have hsep' : ∀ k' ∈ RowPrint.visibleKeys row', sanitize k' = sanitize k → k' = k :=
    fun k' hk' => hsep k' (horigin k' (LineLevel.visibleKeys_subset row' k' hk'))
  have := LineTime.lookupJV_tree_of_lookup ⟨genTables, ext⟩ k _ (by simp [Cells.format]) row'
    hsep' hl'
  rw [treeVal_decoded ext hty bs hlen] at this
  exact ⟨bs, hdec, hlen, this⟩

/-- **Target 3 for templates declaring the same distinct, sanitize-fixed names** (as every `jl`
    definition does), the member names the reader delivered for the input being fixed by the escaper
    too: no separation hypothesis is left, and the member is found under the column's own name. -/
theorem emitted_line_binary_same_names (ext : Ext) (ti to : Tmpl) (line b : Bytes)
    (h : jlLine ⟨genTables, ext⟩ ti to line = .ok (b, none)) (hx : FloatTextOK ext)
    (hto : (OMap.keys to).Nodup) (hperm : (OMap.keys ti).Perm (OMap.keys to))
    (hutf : ∀ k ∈ OMap.keys to, sanitize k = k)
    (hin : ∀ k ∈ Order.inputKeys line, sanitize k = k) :
    ∃ body tree, b = body ++ [0x0A] ∧ Json.unmarshal body = (tree, true) ∧
      ∀ k raw₁ raw₂ ty w s,
        (k, Val.cell raw₁ .binary ty) ∈ ti → (k, Val.cell raw₂ .binary ty) ∈ to →
        fixedWidth ty = some w →
        LineSpec.lookupJV (LineSpec.normDup (Json.unmarshal line).1) k = some (.str s) →
        BinaryKept tree k ty w s := by
  have hti : (OMap.keys ti).Nodup := hperm.nodup_iff.mpr hto
  obtain ⟨body, tree, hb, hu, hall⟩ := emitted_line_binary_pointwise ext ti to line b h hx hti hto
  refine ⟨body, tree, hb, hu, ?_⟩
  intro k raw₁ raw₂ ty w s hmi hmo hty hlast
  have hfix : ∀ k ∈ OMap.keys to ++ OMap.keys ti ++ Order.inputKeys line, sanitize k = k := by
    intro k' hk'
    rcases List.mem_append.1 hk' with hk' | hk'
    · rcases List.mem_append.1 hk' with hk' | hk'
      · exact hutf k' hk'
      · exact hutf k' (hperm.mem_iff.mp hk')
    · exact hin k' hk'
  have hko : k ∈ OMap.keys to := List.mem_map_of_mem (f := Prod.fst) hmo
  have := hall k _ _ ty w s (LineLevel.lookup_of_mem_nodup hti hmi)
    (LineLevel.lookup_of_mem_nodup hto hmo) rfl rfl rfl rfl hty
    (LineLevel.separated_of_fixed hfix k hko) hlast
  rw [hutf k hko] at this
  exact this

/-- **Targets 2 and 3 together.**  Templates declaring the same distinct sanitize-fixed names; an
    accepted line; `cols` any list of column declarations such that every binary leaf of a
    fixed-width raw type in it is declared so in BOTH templates (the driver passes the exporter's
    declarations): the oracle finds no violation on the emitted line, whatever the other columns and
    members are. -/
theorem emitted_line_oracle (ext : Ext) (ti to : Tmpl) (line b : Bytes)
    (h : jlLine ⟨genTables, ext⟩ ti to line = .ok (b, none)) (hx : FloatTextOK ext)
    (hto : (OMap.keys to).Nodup) (hperm : (OMap.keys ti).Perm (OMap.keys to))
    (hutf : ∀ k ∈ OMap.keys to, sanitize k = k)
    (hin : ∀ k ∈ Order.inputKeys line, sanitize k = k)
    (cols : List LineSpec.Col)
    (hcols : ∀ n ty w, LineSpec.Col.leaf n .binary ty ∈ cols → fixedWidth ty = some w →
      ∃ raw₁ raw₂, (n, Val.cell raw₁ .binary ty) ∈ ti ∧ (n, Val.cell raw₂ .binary ty) ∈ to) :
    c11Violation cols line (jlLine ⟨genTables, ext⟩ ti to line) = none := by
  obtain ⟨body, tree, hb, hu, hall⟩ :=
    emitted_line_binary_same_names ext ti to line b h hx hto hperm hutf hin
  obtain ⟨r, _, _, hget, _⟩ := Order.jlLine_ok _ ti to line b h
  obtain ⟨row0, _, h1⟩ := Order.getRow_ok _ ti line r none hget
  obtain ⟨_, _, _, hacc⟩ := Order.unmarshalInto_ok _ row0 r line h1
  have hline : Json.unmarshal line = ((Json.unmarshal line).1, true) := by
    rw [← hacc]
  rw [h, hb]
  simp only [c11Violation]
  rw [c11Accepted_of_trees cols line body _ tree hline hu, List.findSome?_eq_none_iff]
  intro c hc
  match c, hc with
  | .sub _ _, _ => rfl
  | .leaf n f ty, hc =>
    cases hw : fixedWidth ty with
    | none => cases f <;> simp [c11Col, hw]
    | some w =>
      cases f with
      | binary =>
        cases hl : LineSpec.lookupJV (LineSpec.normDup (Json.unmarshal line).1) n with
        | none => simp [c11Col, hw, hl]
        | some v =>
          cases v with
          | str s =>
            obtain ⟨raw₁, raw₂, hmi, hmo⟩ := hcols n ty w hc hw
            obtain ⟨bs, hdec, hlen, hout⟩ := hall n raw₁ raw₂ ty w s hmi hmo hw hl
            exact c11Col_of_kept _ _ n hw s bs hl hdec hlen hout
          | _ => simp [c11Col, hw, hl]
      | _ => simp [c11Col]

/-! ### 4. Non-vacuity: concrete lines, computed end to end

  `ti = to =` one binary column `b` of raw type int32, over the regenerated tables and the empty
  stdlib oracle. -/
namespace Demo
open RowPrint JsonWrite

def env : Env := ⟨genTables, Ext.empty⟩

def tmpl : Tmpl := withCol [] [0x62] .binary (.int .i32)

/-- `AQIDBA==` : the canonical base64 of 01 02 03 04 -/
def canonS : Bytes := [0x41, 0x51, 0x49, 0x44, 0x42, 0x41, 0x3D, 0x3D]

/-- `AQIDBB==` : the same four bytes with NON-zero trailing bits (`B` = 000001) -/
def looseS : Bytes := [0x41, 0x51, 0x49, 0x44, 0x42, 0x42, 0x3D, 0x3D]

/-- `AQID` : three bytes -/
def shortS : Bytes := [0x41, 0x51, 0x49, 0x44]

/-- `AQIDBA=` : not base64 (padding missing) -/
def badS : Bytes := [0x41, 0x51, 0x49, 0x44, 0x42, 0x41, 0x3D]

/-- `{"b":"<s>"}` -/
def lineOf (s : Bytes) : Bytes := [0x7B, 0x22, 0x62, 0x22, 0x3A, 0x22] ++ s ++ [0x22, 0x7D]

/-- `{"b":"AQIDBA=="}` -/
def out : Bytes := lineOf canonS

theorem decode_canonS : Base64.decode canonS = some [1, 2, 3, 4] := by decide
theorem decode_looseS : Base64.decode looseS = some [1, 2, 3, 4] := by decide
theorem decode_shortS : Base64.decode shortS = some [1, 2, 3] := by decide
theorem decode_badS : Base64.decode badS = none := by decide
theorem encode_1234 : Base64.encode [1, 2, 3, 4] = canonS := by decide

/-- The loose spelling is accepted by the decoder although it is not canonical. -/
theorem looseS_not_canonical : looseS ≠ Base64.encode [1, 2, 3, 4] := by
  rw [encode_1234]; decide

theorem not_tailZero_looseS : ¬ Base64.TailZero looseS := by
  intro h
  have := h.1 [0x41, 0x51, 0x49, 0x44, 0x42] 0x42 1 rfl (by decide)
  exact absurd this (by decide)

open Json in
theorem unmarshal_canon : Json.unmarshal (lineOf canonS) = (.cons [0x62] (.str canonS) .nil, true) := by
  simp [lineOf, canonS, unmarshal, token, tokenCore, skipSpace, isSpace, asClose, parseObject, more,
    asKey, asTok, strBody, pre, handleDelim, scanScalar, valueAllowed, valueEnd, isEof]

open Json in
theorem unmarshal_loose : Json.unmarshal (lineOf looseS) = (.cons [0x62] (.str looseS) .nil, true) := by
  simp [lineOf, looseS, unmarshal, token, tokenCore, skipSpace, isSpace, asClose, parseObject, more,
    asKey, asTok, strBody, pre, handleDelim, scanScalar, valueAllowed, valueEnd, isEof]

open Json in
theorem unmarshal_short : Json.unmarshal (lineOf shortS) = (.cons [0x62] (.str shortS) .nil, true) := by
  simp [lineOf, shortS, unmarshal, token, tokenCore, skipSpace, isSpace, asClose, parseObject, more,
    asKey, asTok, strBody, pre, handleDelim, scanScalar, valueAllowed, valueEnd, isEof]

open Json in
theorem unmarshal_bad : Json.unmarshal (lineOf badS) = (.cons [0x62] (.str badS) .nil, true) := by
  simp [lineOf, badS, unmarshal, token, tokenCore, skipSpace, isSpace, asClose, parseObject, more,
    asKey, asTok, strBody, pre, handleDelim, scanScalar, valueAllowed, valueEnd, isEof]

theorem sanitize_b : sanitize [0x62] = [0x62] := JsonPrint.sanitize_of_ascii _ (by decide)

theorem objText_out : objText [0x62] (quote canonS) = out := by
  simp [objText, joinComma, quote, quoteBody, htmlSafe, canonS, out, lineOf]

/-- **Target 4.**  `{"b":"AQIDBA=="}` ↦ `{"b":"AQIDBA=="}` and a newline. -/
theorem jlLine_canon : jlLine env tmpl tmpl (lineOf canonS) = .ok (out ++ [0x0A], none) := by
  have h := binary_line_written Ext.empty [0x62] (ty := .int .i32) rfl (lineOf canonS) canonS
    [1, 2, 3, 4] unmarshal_canon decode_canonS rfl
  rw [reemitted_int, encode_1234, objText_out] at h
  exact h

/-- `{"b":"AQID"}` (3 bytes under a 4-byte type) is rejected, nothing is written. -/
theorem jlLine_short : jlLine env tmpl tmpl (lineOf shortS) = .ok ([], some .unsupportedImport) :=
  binary_line_wrong_length Ext.empty [0x62] (ty := .int .i32) rfl tmpl (lineOf shortS) shortS
    [1, 2, 3] unmarshal_short decode_shortS (by decide)

/-- `{"b":"AQIDBA="}` (not base64) is rejected. -/
theorem jlLine_bad : jlLine env tmpl tmpl (lineOf badS) = .ok ([], some .unsupportedImport) :=
  binary_line_invalid_base64 Ext.empty [0x62] (ty := .int .i32) rfl tmpl (lineOf badS) badS
    unmarshal_bad decode_badS

/-- The NON-canonical spelling `{"b":"AQIDBB=="}` of the same 4-byte payload is accepted (the
    decoder, like Go's `StdEncoding`, does not check the trailing bits) and re-emitted CANONICALLY:
    `{"b":"AQIDBA=="}` — the bytes written differ from the bytes read. -/
theorem jlLine_loose : jlLine env tmpl tmpl (lineOf looseS) = .ok (out ++ [0x0A], none) := by
  have h := binary_line_written Ext.empty [0x62] (ty := .int .i32) rfl (lineOf looseS) looseS
    [1, 2, 3, 4] unmarshal_loose decode_looseS rfl
  rw [reemitted_int, encode_1234, objText_out] at h
  exact h

theorem loose_line_changed : lineOf looseS ≠ out := by decide

/-- The oracle of target 2 on the four lines. -/
example : c11Violation [.leaf [0x62] .binary (.int .i32)] (lineOf canonS)
    (jlLine env tmpl tmpl (lineOf canonS)) = none :=
  binary_line_oracle Ext.empty [0x62] sanitize_b (ty := .int .i32) rfl _ canonS unmarshal_canon
example : c11Violation [.leaf [0x62] .binary (.int .i32)] (lineOf looseS)
    (jlLine env tmpl tmpl (lineOf looseS)) = none :=
  binary_line_oracle Ext.empty [0x62] sanitize_b (ty := .int .i32) rfl _ looseS unmarshal_loose
example : c11Violation [.leaf [0x62] .binary (.int .i32)] (lineOf shortS)
    (jlLine env tmpl tmpl (lineOf shortS)) = none :=
  binary_line_oracle Ext.empty [0x62] sanitize_b (ty := .int .i32) rfl _ shortS unmarshal_short
example : c11Violation [.leaf [0x62] .binary (.int .i32)] (lineOf badS)
    (jlLine env tmpl tmpl (lineOf badS)) = none :=
  binary_line_oracle Ext.empty [0x62] sanitize_b (ty := .int .i32) rfl _ badS unmarshal_bad

/-- …and the oracle would have spoken, had the short payload been accepted and echoed, had the
    loose spelling been echoed instead of re-encoded, or had the non-base64 string been accepted. -/
example : c11Violation [.leaf [0x62] .binary (.int .i32)] (lineOf shortS)
    (.ok (lineOf shortS ++ [0x0A], none)) = some "wrong-size-accepted" := by
  simp only [c11Violation]
  rw [c11Accepted_of_trees _ _ _ _ _ unmarshal_short unmarshal_short, List.findSome?_cons,
    (c11Col_fires _ _ [0x62] (ty := .int .i32) rfl shortS [1, 2, 3] shortS
      (lookupJV_normDup_single _ _ (by simp [LineSpec.normDupV])) (lookupJV_single _ _)
      decode_shortS).1 (by decide)]

example : c11Violation [.leaf [0x62] .binary (.int .i32)] (lineOf looseS)
    (.ok (lineOf looseS ++ [0x0A], none)) = some "not-re-emitted-as-accepted" := by
  simp only [c11Violation]
  rw [c11Accepted_of_trees _ _ _ _ _ unmarshal_loose unmarshal_loose, List.findSome?_cons,
    (c11Col_fires _ _ [0x62] (ty := .int .i32) rfl looseS [1, 2, 3, 4] looseS
      (lookupJV_normDup_single _ _ (by simp [LineSpec.normDupV])) (lookupJV_single _ _)
      decode_looseS).2 rfl (by simp) looseS_not_canonical]

example : c11Violation [.leaf [0x62] .binary (.int .i32)] (lineOf badS)
    (.ok (lineOf badS ++ [0x0A], none)) = some "invalid-base64-accepted" := by
  simp only [c11Violation]
  rw [c11Accepted_of_trees _ _ _ _ _ unmarshal_bad unmarshal_bad, List.findSome?_cons,
    c11Col_fires_invalid _ _ [0x62] (ty := .int .i32) rfl badS
      (lookupJV_normDup_single _ _ (by simp [LineSpec.normDupV])) decode_badS]

/-! #### bool: the byte is normalised, so the text written is NOT the base64 of the byte read

  `{"b":"Ag=="}` (the byte 02) under a binary(bool) column is accepted and comes out as
  `{"b":"AQ=="}` (the byte 01): `reemitted` cannot be replaced by the identity for bool, and the
  oracle abstains on exactly these payloads (`b != [0] && b != [1]`). -/

/-- `Ag==` : the byte 02 -/
def twoS : Bytes := [0x41, 0x67, 0x3D, 0x3D]
/-- `AQ==` : the byte 01 -/
def oneS : Bytes := [0x41, 0x51, 0x3D, 0x3D]

theorem decode_twoS : Base64.decode twoS = some [2] := by decide
theorem encode_one : Base64.encode [1] = oneS := by decide
theorem encode_two : Base64.encode [2] = twoS := by decide

open Json in
theorem unmarshal_two : Json.unmarshal (lineOf twoS) = (.cons [0x62] (.str twoS) .nil, true) := by
  simp [lineOf, twoS, unmarshal, token, tokenCore, skipSpace, isSpace, asClose, parseObject, more,
    asKey, asTok, strBody, pre, handleDelim, scanScalar, valueAllowed, valueEnd, isEof]

theorem objText_one : objText [0x62] (quote oneS) = lineOf oneS := by
  simp [objText, joinComma, quote, quoteBody, htmlSafe, oneS, lineOf]

theorem jlLine_bool_two :
    jlLine env (withCol [] [0x62] .binary .bool) (withCol [] [0x62] .binary .bool) (lineOf twoS) =
      .ok (lineOf oneS ++ [0x0A], none) := by
  have h := binary_line_written Ext.empty [0x62] (ty := .bool) rfl (lineOf twoS) twoS [2]
    unmarshal_two decode_twoS rfl
  have e : reemitted .bool [2] = [1] := by decide
  rw [e, encode_one, objText_one] at h
  exact h

theorem bool_not_echoed : Base64.encode [2] ≠ oneS := by rw [encode_two]; decide

/-! #### Another non-canonical spelling: CR LF inside the text

  `{"b":"AQID\r\nBA=="}` (JSON escapes): the reader delivers the text with a CR and a LF in it, the
  decoder skips them, and the column writes the canonical text without them. -/

/-- `AQID\r\nBA==` as written in the JSON text (with its two escapes) -/
def crlfText : Bytes := [0x41, 0x51, 0x49, 0x44, 0x5C, 0x72, 0x5C, 0x6E, 0x42, 0x41, 0x3D, 0x3D]
/-- …and as the reader delivers it -/
def crlfS : Bytes := [0x41, 0x51, 0x49, 0x44, 0x0D, 0x0A, 0x42, 0x41, 0x3D, 0x3D]

theorem decode_crlfS : Base64.decode crlfS = some [1, 2, 3, 4] := by decide

open Json in
theorem unmarshal_crlf :
    Json.unmarshal (lineOf crlfText) = (.cons [0x62] (.str crlfS) .nil, true) := by
  simp [lineOf, crlfText, crlfS, unmarshal, token, tokenCore, skipSpace, isSpace, asClose,
    parseObject, more, asKey, asTok, strBody, pre, handleDelim, scanScalar, valueAllowed, valueEnd,
    isEof, simpleEscape]

theorem jlLine_crlf : jlLine env tmpl tmpl (lineOf crlfText) = .ok (out ++ [0x0A], none) := by
  have h := binary_line_written Ext.empty [0x62] (ty := .int .i32) rfl (lineOf crlfText) crlfS
    [1, 2, 3, 4] unmarshal_crlf decode_crlfS rfl
  rw [reemitted_int, encode_1234, objText_out] at h
  exact h

/-! #### Target 3 is not vacuous: two columns, a numeric one beside the binary one

  `ti = to =` `n` (numeric), `b` (binary, int32); input `{"b":"AQIDBB==","n":1}` (the loose
  spelling).  Every hypothesis of `emitted_line_binary_same_names` and of `emitted_line_oracle`
  holds, the line is accepted, and the member `b` of the emitted object is `AQIDBA==`. -/

def tmpl2 : Tmpl := withCol (withCol [] [0x6E] .numeric .none) [0x62] .binary (.int .i32)

/-- `{"b":"AQIDBB==","n":1}` -/
def line2 : Bytes :=
  [0x7B, 0x22, 0x62, 0x22, 0x3A, 0x22] ++ looseS ++ [0x22, 0x2C, 0x22, 0x6E, 0x22, 0x3A, 0x31, 0x7D]

theorem tmpl2_eq :
    tmpl2 = [([0x6E], .cell .nil .numeric .none), ([0x62], .cell .nil .binary (.int .i32))] := rfl

open Json in
theorem unmarshal_line2 : Json.unmarshal line2 =
    (.cons [0x62] (.str looseS) (.cons [0x6E] (.num [0x31]) .nil), true) := by
  simp [line2, looseS, unmarshal, token, tokenCore, skipSpace, isSpace, asClose, parseObject, more,
    asKey, asTok, strBody, pre, handleDelim, scanScalar, scanNumber, scanInt, scanFracExp, digits,
    Json.isDigit, valueAllowed, valueEnd, isEof]

theorem inputKeys_line2 : Order.inputKeys line2 = [[0x62], [0x6E]] := by
  simp [Order.inputKeys, unmarshal_line2, JVMembers.toList]

def cellB : Val := .cell (decoded (.int .i32) [1, 2, 3, 4]) .binary (.int .i32)

def imported2 : List (Bytes × Val) := [([0x6E], .cell (.num [0x31]) .numeric .none), ([0x62], cellB)]

theorem import_n : importCell ⟨genTables, Ext.empty⟩ .numeric .none (.num [0x31]) =
    .ok (.cell (.num [0x31]) .numeric .none, none) := rfl

theorem import_b : importCell ⟨genTables, Ext.empty⟩ .binary (.int .i32) (.str looseS) =
    .ok (cellB, none) := by
  rw [importCell_binary_str Ext.empty (ty := .int .i32) rfl, decode_looseS]
  rfl

theorem cloneRow_tmpl2 : cloneRow env tmpl2 = .ok tmpl2 := by
  simp [tmpl2_eq, cloneRow, cloneInto, cloneValue, newValue, Cells.raw, Cells.format, Cells.rawType,
    castTo_nil Ext.empty (ty := .int .i32) rfl, gen_castTo_none, upsert, OMap.upsert, env]

theorem getRow_line2 : getRow env tmpl2 line2 = .ok (imported2, none) := by
  unfold getRow createRowEmpty
  rw [cloneRow_tmpl2]
  simp only [unmarshalInto, unmarshal_line2]
  simp [tmpl2_eq, ofJVMembers, ofJV, parseMembers, parseMember, lookup, OMap.lookup, importVal,
    importInto, upsert, OMap.upsert, import_n, import_b, env, imported2]

theorem createRow_imported2 :
    createRow env tmpl2 (.val (.row (Members.ofList imported2))) = .ok (imported2, none) := by
  have hn : newValue env (.num [0x31]) .numeric .none = .ok (.cell (.num [0x31]) .numeric .none) := by
    simp [newValue, gen_castTo_none, env]
  have hb : newValue env (decoded (.int .i32) [1, 2, 3, 4]) .binary (.int .i32) = .ok cellB :=
    newValue_decoded Ext.empty (ty := .int .i32) rfl _
  unfold createRow
  rw [cloneRow_tmpl2]
  simp [tmpl2_eq, imported2, cellB, Members.ofList, Members.toList, fillPairs, fill, lookup,
    OMap.lookup, Cells.format, Cells.rawType, Cells.raw, hn, hb, upsert, OMap.upsert]

theorem marshal_n : marshalVal env (.cell (.num [0x31]) .numeric .none) = .ok [0x31] := by
  have he : exportVal env (.cell (.num [0x31]) .numeric .none) = .ok (.num [0x31]) := rfl
  rw [marshalVal.eq_def]
  simp only [he]
  rw [marshalExported.eq_def]
  rfl

theorem jlLine_line2 : ∃ body, jlLine env tmpl2 tmpl2 line2 = .ok (body ++ [0x0A], none) := by
  have hm : marshalMembers env (Members.ofList imported2) =
      .ok [quote [0x6E] ++ 0x3A :: [0x31],
        quote [0x62] ++ 0x3A :: quote (Base64.encode (reemitted (.int .i32) [1, 2, 3, 4]))] :=
    JsonPrint.marshalMembers_cons env _ _ _ (by decide) marshal_n
      (JsonPrint.marshalMembers_cons env _ _ _ (by decide)
        (marshal_decoded Ext.empty (ty := .int .i32) rfl [1, 2, 3, 4] rfl)
        (JsonPrint.marshalMembers_nil env))
  refine ⟨0x7B :: (joinComma [quote [0x6E] ++ 0x3A :: [0x31],
    quote [0x62] ++ 0x3A :: quote (Base64.encode (reemitted (.int .i32) [1, 2, 3, 4]))] ++ [0x7D]),
    ?_⟩
  simp only [jlLine, getRow_line2, exportLine, createRow_imported2,
    JsonPrint.marshalRow_eq env _ hm]

theorem floatOK : FloatTextOK env.ext := by
  intro b sz s h; cases h

theorem sanitize_n : sanitize [0x6E] = [0x6E] := JsonPrint.sanitize_of_ascii _ (by decide)

theorem keys2_fixed : ∀ k ∈ OMap.keys tmpl2, sanitize k = k := by
  intro k hk
  rw [tmpl2_eq] at hk
  simp only [OMap.keys, List.map_cons, List.map_nil, List.mem_cons, List.not_mem_nil,
    or_false] at hk
  rcases hk with rfl | rfl
  · exact sanitize_n
  · exact sanitize_b

theorem inputKeys2_fixed : ∀ k ∈ Order.inputKeys line2, sanitize k = k := by
  intro k hk
  rw [inputKeys_line2] at hk
  simp only [List.mem_cons, List.not_mem_nil, or_false] at hk
  rcases hk with rfl | rfl
  · exact sanitize_b
  · exact sanitize_n

example : ∃ body tree, jlLine env tmpl2 tmpl2 line2 = .ok (body ++ [0x0A], none) ∧
    Json.unmarshal body = (tree, true) ∧ LineSpec.lookupJV tree [0x62] = some (.str canonS) := by
  obtain ⟨body0, hj⟩ := jlLine_line2
  obtain ⟨body, tree, hb, hu, hall⟩ :=
    emitted_line_binary_same_names Ext.empty tmpl2 tmpl2 line2 _ hj floatOK
      (by rw [tmpl2_eq]; decide) (List.Perm.refl _) keys2_fixed inputKeys2_fixed
  have : body = body0 := (List.append_cancel_right hb).symm
  subst this
  refine ⟨body, tree, hj, hu, ?_⟩
  have hlast : LineSpec.lookupJV (LineSpec.normDup (Json.unmarshal line2).1) [0x62] =
      some (.str looseS) := by
    rw [unmarshal_line2]
    simp [LineSpec.normDup, LineSpec.normDupM, LineSpec.normDupV, LineSpec.upsertKV,
      JVMembers.ofList, LineLevel.lookupJV_cons]
  obtain ⟨bs, hd, _, hout⟩ := hall [0x62] .nil .nil (.int .i32) 4 looseS
    (by rw [tmpl2_eq]; simp) (by rw [tmpl2_eq]; simp) rfl hlast
  rw [decode_looseS] at hd
  cases hd
  rw [hout, reemitted_int, encode_1234]

/-- `emitted_line_oracle` applies to it, with the exporter's declarations as the driver passes
    them. -/
example : c11Violation [.leaf [0x6E] .numeric .none, .leaf [0x62] .binary (.int .i32)] line2
    (jlLine env tmpl2 tmpl2 line2) = none := by
  obtain ⟨body0, hj⟩ := jlLine_line2
  refine emitted_line_oracle Ext.empty tmpl2 tmpl2 line2 _ hj floatOK (by rw [tmpl2_eq]; decide)
    (List.Perm.refl _) keys2_fixed inputKeys2_fixed _ ?_
  intro n ty w hm _
  simp only [List.mem_cons, List.not_mem_nil, or_false] at hm
  rcases hm with hm | hm
  · cases hm
  · cases hm
    exact ⟨.nil, .nil, by rw [tmpl2_eq]; simp, by rw [tmpl2_eq]; simp⟩

end Demo

end Jl.LineBinary
