/-
  Proofs.JlTie — the hand-written model of the COMMAND (Model.Jl, Driver.JlCase, property C19) assumes what
  cmd/jl says today.

  extract/jlfacts.go regenerates Gen.JlFacts from cmd/jl on every run; Model.JlFactsSpec states by hand the
  facts the model rests on.  Here: nothing is `unknown`, every fact is the expected one (one named theorem per
  fact), and the facts read as functions are the model's: the split rule is `JlCmd.splitColon`, the regexp is
  the expression Proofs.JlDescriptor is about and its groups / registries / fallbacks are `JlCmd.parseDescriptor`'s,
  `createTemplate` of the facts is `JlCmd.createTemplate`, the processor is `Stream.Proc.tolerant`, stdout is
  written by the exporter only.
-/
import Model.JlFactsSpec
import Model.Jl
import Model.Stream
import Gen.JlFacts

namespace Jl.JlTie
open Jl Jl.JlFacts Jl.JlCmd

theorem jl_facts_known : Gen.jlFacts.known = true := by decide

theorem descriptor_as_modelled : Gen.jlFacts.descriptor = JlFactsSpec.expected.descriptor := by decide
theorem fileRoute_as_modelled : Gen.jlFacts.fileRoute = .withThenSubRows := by decide
theorem parseRowDefinition_as_modelled : Gen.jlFacts.parseRowDefinition = .readThenParse := by decide
theorem readFile_as_modelled : Gen.jlFacts.readFile = .statReadYaml := by decide
theorem fromString_as_modelled : Gen.jlFacts.fromString = .unmarshalIntoNewRow := by decide
theorem inlineRoute_as_modelled : Gen.jlFacts.inlineRoute = .splitN ":" 2 .sameAsInput := by decide
theorem templateFlags_as_modelled : Gen.jlFacts.templateFlags = .flags "filename" "template" := by decide
theorem createTemplate_as_modelled : Gen.jlFacts.createTemplate = .fileThenInlineReplaces 0 "{}" := by decide
theorem run_as_modelled : Gen.jlFacts.run = .stream 1 0 "Stdin" 1 "Stdout" := by decide
theorem processor_as_modelled : Gen.jlFacts.processor = .logsAndReturnsNil := by decide
theorem main_as_modelled : Gen.jlFacts.mainFn = .exits "Stderr" 1 1 := by decide
theorem stdStreams_as_modelled : Gen.jlFacts.stdStreams = JlFactsSpec.expected.stdStreams := by decide
theorem printCalls_as_modelled : Gen.jlFacts.printCalls = [] := by decide

theorem jl_facts_as_modelled : Gen.jlFacts = JlFactsSpec.expected := by decide

/-! ### the split rule -/

/-- `strings.SplitN(s, sep, 2)` for a one-byte separator: the part before the first separator, and — when
    there is one — everything after it.  `none` = abstain (another separator, another count). -/
def splitG (r : InlineRoute) (s : Bytes) : Option (Bytes × Option Bytes) :=
  match r with
  | .splitN ":" 2 _ =>
    some (s.takeWhile (· != 0x3A),
      match s.dropWhile (· != 0x3A) with
      | [] => none
      | _ :: b => some b)
  | _ => none

/-- The split rule of the source is the model's `splitColon`. -/
theorem split_is_splitColon (s : Bytes) : splitG Gen.jlFacts.inlineRoute s = some (splitColon s) := by
  show some _ = some _
  unfold splitColon
  cases s.dropWhile (· != 0x3A) <;> rfl

/-- The output descriptor of an inline leaf, as the facts say it: the text after the first colon, or what the
    input gave — `inlineCol`'s `dout`. -/
def inlineLeafG (r : InlineRoute) (s : Bytes) : Option ((Format × Ty) × (Format × Ty)) :=
  match r, splitG r s with
  | .splitN _ _ .sameAsInput, some (a, b) =>
    let din := parseDescriptor a
    some (din, match b with | some b => parseDescriptor b | none => din)
  | _, _ => none

theorem inline_leaf_is_inlineCol (i o : Bytes) :
    inlineLeafG Gen.jlFacts.inlineRoute (inlineText i o)
      = some (parseDescriptor (splitColon (inlineText i o)).1,
              match (splitColon (inlineText i o)).2 with
              | some b => parseDescriptor b
              | none => parseDescriptor (splitColon (inlineText i o)).1) := by
  unfold inlineLeafG
  rw [split_is_splitColon]
  rfl

/-! ### the descriptor -/

/-- The expression Proofs.JlDescriptor specifies (`Matches`) and `JlCmd.splitDescriptor` implements. -/
def descriptorRegexp : String := "^([^\\(]+)(?:\\(([^\\)]+)\\))?$"

/-- The source's expression is that one; group 1 is looked up in `formatRegistry` with `Auto` as the
    fallback, group 2 in `typeRegistry` with nil as the fallback — `JlCmd.parseDescriptor`. -/
theorem regexp_as_modelled :
    Gen.jlFacts.descriptor = .regexp descriptorRegexp 1 2 "formatRegistry" "Auto" "typeRegistry" := by decide

/-- `parseDescriptor` of the facts on the groups the expression gives (`JlCmd.splitDescriptor`): `none` = abstain. -/
def parseDescriptorG (d : Descriptor) (s : Bytes) : Option (Format × Ty) :=
  match d with
  | .regexp "^([^\\(]+)(?:\\(([^\\)]+)\\))?$" 1 2 "formatRegistry" "Auto" "typeRegistry" =>
    some (match splitDescriptor s with
      | none => (.auto, .none)
      | some (g1, g2) => ((lookupB Gen.formatRegistry g1).getD .auto, (lookupB Gen.typeRegistry g2).getD .none))
  | _ => none

theorem parseDescriptor_is_parseDescriptor (s : Bytes) :
    parseDescriptorG Gen.jlFacts.descriptor s = some (parseDescriptor s) := rfl

/-! ### createTemplate, the processor, the streams -/

/-- `createTemplate` as the facts say it, over the parsed file columns and the parsed `-t` (`none` = empty or `{}`). -/
def createTemplateG (c : CreateTemplate) (env : Value.Env) (file : List ColDef) (inline : Option (List ColDef)) :
    Option (Outcome (Template.Tmpl × Template.Tmpl)) :=
  match c with
  | .fileThenInlineReplaces 0 "{}" =>
    some (match ofYaml env 16 file with
      | .ok fileT => (match inline with | none => .ok fileT | some cols => ofInline env 16 cols)
      | o => o)
  | _ => none

theorem createTemplate_is_createTemplate (env : Value.Env) (file : List ColDef) (inline : Option (List ColDef)) :
    createTemplateG Gen.jlFacts.createTemplate env file inline = some (createTemplate env file inline) := rfl

def procG : Processor → Option Stream.Proc
  | .logsAndReturnsNil => some .tolerant
  | .unknown _ => none

/-- The processor jl installs is `Proc.tolerant`: whatever it is given, the stream goes on. -/
theorem processor_is_tolerant :
    procG Gen.jlFacts.processor = some .tolerant ∧ ∀ n e, Stream.Proc.tolerant.result n e = none :=
  ⟨rfl, fun _ _ => rfl⟩

/-- Stdout is handed to `GetExporter` and asked for its descriptor by `computeColor`, nothing else; nothing is
    printed without a writer; the template read by the importer is the first of the pair, the one the exporter
    writes with the second; a template error ends the process with status 1, a stream error does not. -/
theorem streams_as_modelled :
    (Gen.jlFacts.stdStreams.filter fun e => e.2.1 == "os.Stdout") = [("computeColor", "os.Stdout", ".Fd"), ("run", "os.Stdout", ".GetExporter")]
    ∧ Gen.jlFacts.printCalls = []
    ∧ ∃ code, Gen.jlFacts.run = .stream code 0 "Stdin" 1 "Stdout" ∧ code ≠ 0 := by
  refine ⟨by decide, by decide, 1, by decide, by decide⟩

end Jl.JlTie
