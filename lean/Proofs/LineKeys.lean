/-
  Proofs.LineKeys — C03 on the emitted BYTES: the key order of an emitted line, stated on the JSON
  text (sections 1, 2 and 2b of the line-level development; the classes of the members, which
  depend on the cast tables, are in Proofs.LineLevel).  Depends on `Proofs.Order` (the key list of
  the printed row) and `Proofs.JsonPrint` (the tree the reader delivers for the printed text) only:
  every statement here holds for EVERY cast table.
-/
import Model.LineSpec
import Model.Template
import Proofs.Order
import Proofs.JsonPrint

namespace Jl.LineLevel
open Jl Jl.Value Jl.Template Jl.Cast
open Jl.JsonQuote (sanitize)
open Jl.JsonPrint (treeDyn treeVal treeMembers treeExported numText FloatTextOK)
open Jl.IntText

/-! ### 1. The member names of the printed tree -/

/-- Hidden cells are skipped, keys go through the escaper and back (`sanitize`), order kept. -/
theorem tree_keys (env : Env) : ∀ ms : Members,
    (treeMembers env ms).toList.map Prod.fst =
      (RowPrint.visibleKeys ms.toList).map sanitize
  | .nil => by
    simp [treeMembers, JVMembers.toList, Members.toList, RowPrint.visibleKeys]
  | .cons k v ms => by
    have ih := tree_keys env ms
    unfold RowPrint.visibleKeys at ih ⊢
    by_cases hh : Cells.format v = .hidden
    · simp only [treeMembers, hh, beq_self_eq_true, if_true, Members.toList]
      rw [ih, List.filter_cons]
      simp [hh]
    · simp only [treeMembers, beq_iff_eq, hh, if_false, Members.toList, JVMembers.toList,
        List.map_cons]
      rw [ih, List.filter_cons]
      simp [hh]

theorem keysOf_tree (env : Env) (row : List (Bytes × Val)) :
    LineSpec.keysOf (treeMembers env (Members.ofList row)) =
      (RowPrint.visibleKeys row).map sanitize := by
  rw [LineSpec.keysOf, tree_keys, Members.toList_ofList]

/-! ### 2. C03 at byte level -/

/-- What `jlLine` wrote, read back: the tree of the printed row. -/
theorem emitted_text (env : Env) (ti to : Tmpl) (line b : Bytes)
    (h : jlLine env ti to line = .ok (b, none)) (hx : FloatTextOK env.ext) :
    ∃ r row' body, getRow env ti line = .ok (r, none) ∧
      createRow env to (.val (.row (Members.ofList r))) = .ok (row', none) ∧
      RowPrint.marshalRow env (Members.ofList row') = .ok body ∧ b = body ++ [0x0A] ∧
      Json.unmarshal body = (treeMembers env (Members.ofList row'), true) := by
  obtain ⟨r, row', body, hget, hcr, hm, hb⟩ := Order.jlLine_ok env ti to line b h
  exact ⟨r, row', body, hget, hcr, hm, hb, JsonPrint.unmarshal_marshalRow env hx _ body hm⟩

/-- C03 on the emitted bytes: the line is an object text and a newline; the reader delivers an
    object whose member names are, in order, the output template's visible columns in declaration
    order, then every other key in the order importer columns / first appearance in the input
    text — each after the escaper's `sanitize` (identity on well-formed UTF-8). -/
theorem emitted_text_keys (env : Env) (ti to : Tmpl) (line b : Bytes)
    (h : jlLine env ti to line = .ok (b, none)) (hx : FloatTextOK env.ext)
    (hti : (OMap.keys ti).Nodup) (hto : (OMap.keys to).Nodup) :
    ∃ body t, b = body ++ [0x0A] ∧ Json.unmarshal body = (t, true) ∧
      LineSpec.keysOf t =
        (((OMap.keys to).filter fun k => Order.formatAt to k != some .hidden) ++
          (Order.appendNew (OMap.keys ti) (Order.inputKeys line)).filter
            (fun k => decide (k ∉ OMap.keys to))).map sanitize := by
  obtain ⟨r, row', body, hget, hcr, _, hb, hu⟩ := emitted_text env ti to line b h hx
  refine ⟨body, _, hb, hu, ?_⟩
  rw [keysOf_tree, Order.emitted_keys env ti to line r row' hti hto hget hcr]

/-- The same when both templates declare the same names (as every `jl` definition does): the
    declared visible columns, then the input's undeclared member names in order of first
    appearance. -/
theorem emitted_text_keys_same_names (env : Env) (ti to : Tmpl) (line b : Bytes)
    (h : jlLine env ti to line = .ok (b, none)) (hx : FloatTextOK env.ext)
    (hto : (OMap.keys to).Nodup) (hperm : (OMap.keys ti).Perm (OMap.keys to)) :
    ∃ body t, b = body ++ [0x0A] ∧ Json.unmarshal body = (t, true) ∧
      LineSpec.keysOf t =
        (((OMap.keys to).filter fun k => Order.formatAt to k != some .hidden) ++
          ((Order.inputKeys line).filter (fun k => decide (k ∉ OMap.keys to))).eraseDups).map
          sanitize := by
  obtain ⟨r, row', body, hget, hcr, _, hb, hu⟩ := emitted_text env ti to line b h hx
  refine ⟨body, _, hb, hu, ?_⟩
  rw [keysOf_tree, Order.emitted_keys_perm env ti to line r row' hto hperm hget hcr]


/-! ### 2b. C03 in the words of the oracle (`LineSpec.expectedKeys`) -/

/-- The column list of a template as the oracle takes it, every column a leaf (for a template
    whose columns are all cells — no declared sub-row — this is the declaration itself). -/
def leafCols (to : Tmpl) : List LineSpec.Col :=
  to.map fun kv => .leaf kv.1 (Cells.format kv.2) (Cells.rawType kv.2)

theorem leafCols_names (to : Tmpl) : (leafCols to).map LineSpec.Col.name = OMap.keys to := by
  simp [leafCols, OMap.keys, List.map_map, Function.comp_def, LineSpec.Col.name]

theorem leafCols_visible (to : Tmpl) :
    ((leafCols to).filter fun c => !c.hidden).map LineSpec.Col.name = RowPrint.visibleKeys to := by
  unfold leafCols RowPrint.visibleKeys
  induction to with
  | nil => rfl
  | cons kv rest ih =>
    simp only [List.map_cons, List.filter_cons, LineSpec.Col.hidden]
    by_cases hh : Cells.format kv.2 = .hidden
    · simp only [hh, beq_self_eq_true, Bool.not_true, Bool.false_eq_true, if_false,
        bne_self_eq_false]
      exact ih
    · have h1 : (Cells.format kv.2 == Format.hidden) = false := by simpa using hh
      have h2 : (Cells.format kv.2 != Format.hidden) = true := by simpa using hh
      simp only [h1, h2, Bool.not_false, if_true, List.map_cons, LineSpec.Col.name]
      exact congrArg (kv.1 :: ·) ih

theorem specDedup_eq (ks : List Bytes) : LineSpec.dedup ks = ks.eraseDups := by
  rw [← Order.appendNew_nil_left]
  unfold LineSpec.dedup Order.appendNew
  congr 1
  funext acc k
  simp only [List.contains_eq_mem, decide_eq_true_eq]

/-- The oracle's expected key list for a template with distinct names. -/
theorem expectedKeys_leafCols (to : Tmpl) (hto : (OMap.keys to).Nodup) (inputKeys : List Bytes) :
    LineSpec.expectedKeys (leafCols to) inputKeys =
      ((OMap.keys to).filter fun k => Order.formatAt to k != some .hidden) ++
        (inputKeys.filter (fun k => decide (k ∉ OMap.keys to))).eraseDups := by
  unfold LineSpec.expectedKeys
  simp only [leafCols_visible, leafCols_names, specDedup_eq]
  rw [Order.visibleKeys_eq to hto, ← Order.eraseDups_filter]
  congr 1
  apply List.filter_congr
  intro k _
  simp [List.contains_eq_mem]

/-- C03 as the oracle checks it (first clause of `LineSpec.orderViolation`), on the bytes: the
    member names of the emitted object are the oracle's expected key list computed from the
    output template and the member names of the INPUT text — after the escaper's `sanitize`. -/
theorem emitted_text_keys_expected (env : Env) (ti to : Tmpl) (line b : Bytes)
    (h : jlLine env ti to line = .ok (b, none)) (hx : FloatTextOK env.ext)
    (hto : (OMap.keys to).Nodup) (hperm : (OMap.keys ti).Perm (OMap.keys to)) :
    ∃ body t, b = body ++ [0x0A] ∧ Json.unmarshal body = (t, true) ∧
      LineSpec.keysOf t =
        (LineSpec.expectedKeys (leafCols to) (LineSpec.keysOf (Json.unmarshal line).1)).map
          sanitize := by
  obtain ⟨body, t, hb, hu, hk⟩ := emitted_text_keys_same_names env ti to line b h hx hto hperm
  refine ⟨body, t, hb, hu, ?_⟩
  rw [hk, expectedKeys_leafCols to hto]
  rfl

/-- …with every key fixed by the escaper (well-formed UTF-8): exactly the expected key list. -/
theorem emitted_text_keys_expected_fixed (env : Env) (ti to : Tmpl) (line b : Bytes)
    (h : jlLine env ti to line = .ok (b, none)) (hx : FloatTextOK env.ext)
    (hto : (OMap.keys to).Nodup) (hperm : (OMap.keys ti).Perm (OMap.keys to))
    (hfix : ∀ k ∈ OMap.keys to ++ Order.inputKeys line, sanitize k = k) :
    ∃ body t, b = body ++ [0x0A] ∧ Json.unmarshal body = (t, true) ∧
      LineSpec.keysOf t =
        LineSpec.expectedKeys (leafCols to) (LineSpec.keysOf (Json.unmarshal line).1) := by
  obtain ⟨body, t, hb, hu, hk⟩ := emitted_text_keys_expected env ti to line b h hx hto hperm
  refine ⟨body, t, hb, hu, ?_⟩
  rw [hk]
  conv => rhs; rw [← List.map_id (LineSpec.expectedKeys _ _)]
  apply List.map_congr_left
  intro k hk'
  rw [expectedKeys_leafCols to hto] at hk'
  simp only [id]
  apply hfix
  rcases List.mem_append.1 hk' with hk' | hk'
  · exact List.mem_append_left _ (List.mem_filter.1 hk').1
  · exact List.mem_append_right _ (List.mem_filter.1 (List.mem_eraseDups.1 hk')).1

end Jl.LineLevel
