/-
  Proofs.RowTieAll — the regenerated facts of row.go as a whole: nothing unknown, equal to the assumed ones, the key list only grows
  (one of the files Proofs.RowTie* : split so that a change of one function of row.go stops only the
  properties that rest on it; the overview is in Proofs/RowTie.lean)
-/
import Model.RowFactsSpec
import Model.RowPrint
import Model.MapTo
import Gen.RowFacts

namespace Jl.RowTie
open Jl

/-- Nothing in the regenerated facts is `unknown`. -/
theorem row_facts_known : Gen.rowFacts.known = true := by decide

/-- The facts read from row.go are the facts the model assumes — up to the two accepted alternative spellings
    (`RowFacts.normalised`: MarshalJSON's separator before or after a member, MapTo's guard before or after the cast;
    Proofs.RowTieMarshal and Proofs.RowTieGetters hold for either). -/
theorem row_facts_as_modelled : Gen.rowFacts.normalised = RowFactsSpec.expected := by decide

/-- No function of pkg/jsonline removes, moves or inserts a key anywhere but at the back, and none deletes a map
    entry: the key list is only read (`Front`, `Len`) or extended (`PushBack`) — what `LRow` can do. -/
theorem list_only_grows :
    (∀ m ∈ Gen.rowFacts.listMethods, m ∈ ["Front", "Len", "PushBack"]) ∧ Gen.rowFacts.mapDeletes = 0 := by
  decide


/-! ### Iterators -/

/-- What one call of an iterator answers. -/
inductive Yield (C : Type)
  /-- `(key, r.m[key], true)` -/
  | value (k : Bytes) (c : Option C)
  /-- `(key, r.m[key].Raw(), true)` -/
  | raw (k : Bytes) (c : Option C)
  /-- `("", nil, false)` -/
  | done

/-- One call of the iterator `name`, read off the facts: the cursor is the list of the keys still to come (the
    element `e` and what follows it); the answer and the cursor afterwards.  `none`: unknown, or no such iterator. -/
def iterStepG {C : Type} (its : List (String × Iterator)) (m : Bytes → Option C) :
    Nat → String → List Bytes → Option (Yield C × List Bytes)
  | 0, _, _ => none
  | fuel + 1, name, keys =>
    match its.lookup name with
    | some .listFrontToBack =>
      match keys with
      | [] => some (.done, [])
      | k :: rest => some (.value k (m k), rest)
    | some .listFrontToBackRaw =>
      match keys with
      | [] => some (.done, [])
      | k :: rest => some (.raw k (m k), rest)
    | some (.rawOf of) =>
      match iterStepG its m fuel of keys with
      | some (.value k c, rest) => some (.raw k c, rest)
      | some (.done, rest) => some (.done, rest)
      | _ => none
    | _ => none

/-- `IterValues` answers the next key of the list with the Value the map holds for it and moves on, `Iter` the
    same with the raw value, both report the end after the last key — whether `Iter` goes through `IterValues`
    or walks the list itself.  (`LRow.iter` is the list of these answers: `r.l.map fun k => (k, r.m k)`.) -/
theorem iter_either {C : Type} (its : List (String × Iterator))
    (h : its = [("IterValues", .listFrontToBack), ("Iter", .rawOf "IterValues")]
       ∨ its = [("IterValues", .listFrontToBack), ("Iter", .listFrontToBackRaw)])
    (m : Bytes → Option C) (keys : List Bytes) :
    iterStepG its m 2 "IterValues" keys
        = some (match keys with | [] => (.done, []) | k :: rest => (.value k (m k), rest))
    ∧ iterStepG its m 2 "Iter" keys
        = some (match keys with | [] => (.done, []) | k :: rest => (.raw k (m k), rest)) := by
  rcases h with h | h <;> subst h <;> cases keys <;> exact ⟨rfl, rfl⟩

theorem iterators_as_modelled {C : Type} (m : Bytes → Option C) (keys : List Bytes) :
    iterStepG Gen.rowFacts.iterators m 2 "IterValues" keys
        = some (match keys with | [] => (.done, []) | k :: rest => (.value k (m k), rest))
    ∧ iterStepG Gen.rowFacts.iterators m 2 "Iter" keys
        = some (match keys with | [] => (.done, []) | k :: rest => (.raw k (m k), rest)) :=
  iter_either Gen.rowFacts.iterators (by decide) m keys

end Jl.RowTie
