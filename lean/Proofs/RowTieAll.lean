/-
  Proofs.RowTieAll — the regenerated facts of row.go as a whole: nothing unknown, equal to the assumed ones, the key list only grows
  (one of the files Proofs.RowTie* : split so that a change of one function of row.go stops only the
  properties that rest on it; the overview is in Proofs/RowTie.lean)
-/
import Model.RowFactsSpec
import Model.RowPrint
import Model.MapTo
import Gen.RowFacts

namespace Jl.RowTie
open Jl

/-- Nothing in the regenerated facts is `unknown`. -/
theorem row_facts_known : Gen.rowFacts.known = true := by decide

/-- The facts read from row.go are the facts the model assumes — up to the two accepted alternative spellings
    (`RowFacts.normalised`: MarshalJSON's separator before or after a member, MapTo's guard before or after the cast;
    Proofs.RowTieMarshal and Proofs.RowTieGetters hold for either). -/
theorem row_facts_as_modelled : Gen.rowFacts.normalised = RowFactsSpec.expected := by decide

/-- No function of pkg/jsonline removes, moves or inserts a key anywhere but at the back, and none deletes a map
    entry: the key list is only read (`Front`, `Len`) or extended (`PushBack`) — what `LRow` can do. -/
theorem list_only_grows :
    (∀ m ∈ Gen.rowFacts.listMethods, m ∈ ["Front", "Len", "PushBack"]) ∧ Gen.rowFacts.mapDeletes = 0 := by
  decide


end Jl.RowTie
